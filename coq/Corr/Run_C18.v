(* Correspondence runner for C18.  The harness delivers payload sequences to the real
   DefaultPropertyHandler (real *JsonArrayParser, real *RulesUpdater, real rule manager) and
   emits, per case: the classification of every payload obtained from the real parser, the
   validity of every decoded rule, the deliveries, and what was observed (Handle's return and
   the rules in force after each delivery).  `mismatches` lists the cases on which the model
   (Model/Datasource.v instantiated by Model/DatasourceRef.v) predicts something else. *)
From SG Require Export Base.Prelude Model.Datasource Model.DatasourceRef.

Fixpoint zl_eqb (a b : list Z) : bool :=
  match a, b with
  | [], [] => true
  | x :: xs, y :: ys => (x =? y) && zl_eqb xs ys
  | _, _ => false
  end.

(* Handle's observable result: 0 = nil, 1 = error, 2 = a panic escaped (never predicted) *)
Definition code_of (o : outcome) : Z :=
  match o with Returned RNil => 0 | Returned RErr => 1 | Panicked => 2 end.

(* one delivery: (payload id, the injected loader fault fired during this delivery) *)
Fixpoint hsim (tab : list (Z * cls)) (validtab : list Z) (s : rstate) (ops : list (Z * bool))
  : list (Z * list Z) * bool :=
  match ops with
  | [] => ([], true)
  | (pid, lfail) :: rest =>
      let s1 := set_fault s lfail in
      let '(s2, o) := rhandle tab validtab false s1 pid in
      (* a fault can only have fired if the handler reached the loader *)
      let reached := negb lfail || (m_calls (snd s2) =? m_calls (snd s1) + 1) in
      let '(obs, ok) := hsim tab validtab s2 rest in
      ((code_of o, m_rules (snd s2)) :: obs, reached && ok)
  end.

Fixpoint obs_eqb (a b : list (Z * list Z)) : bool :=
  match a, b with
  | [], [] => true
  | (c1, r1) :: xs, (c2, r2) :: ys => (c1 =? c2) && zl_eqb r1 r2 && obs_eqb xs ys
  | _, _ => false
  end.

(* ---- file datasource: payload ids as file contents --------------------------------------- *)

Definition rfstate := fstate Z rprop rmgr.

(* the harness reports, after every operation at which the event queue was drained, the mode
   (0 watching / 1 closed) and the rules in force *)
Inductive fobs := FObs (closed : bool) (rules : list Z).

Definition fobs_eqb (a b : fobs) : bool :=
  match a, b with FObs c1 r1, FObs c2 r2 => Bool.eqb c1 c2 && zl_eqb r1 r2 end.

(* drain: process pending events (bounded by the queue length, each Process consumes one) *)
Fixpoint drain (tab : list (Z * cls)) (validtab : list Z) (n : nat) (st : rfstate) : rfstate :=
  match n with
  | O => st
  | S k =>
      match f_queue st with
      | [] => st
      | _ => drain tab validtab k
               (fstep (rconvert tab) rpeq (rtyped false) (rload validtab) rclear (-1) st Process)
      end
  end.

Definition fobserve (st : rfstate) : fobs :=
  FObs (match f_mode st with Closed => true | Watching => false end) (m_rules (snd (f_hs st))).

(* each world operation is followed by a drain; the observation is taken after the drain *)
Fixpoint fsim (tab : list (Z * cls)) (validtab : list Z) (st : rfstate) (ops : list (fop Z)) : list fobs :=
  match ops with
  | [] => []
  | o :: rest =>
      let st1 := fstep (rconvert tab) rpeq (rtyped false) (rload validtab) rclear (-1) st o in
      let st2 := drain tab validtab (length (f_queue st1)) st1 in
      fobserve st2 :: fsim tab validtab st2 rest
  end.

Fixpoint fobsl_eqb (a b : list fobs) : bool :=
  match a, b with
  | [], [] => true
  | x :: xs, y :: ys => fobs_eqb x y && fobsl_eqb xs ys
  | _, _ => false
  end.

Inductive case :=
| HCase (id : Z) (parser : Z) (validtab : list Z) (tab : list (Z * cls))
        (ops : list (Z * bool)) (observed : list (Z * list Z))
    (* deliveries to a property handler *)
| FCase (id : Z) (validtab : list Z) (tab : list (Z * cls)) (init_content : Z)
        (ops : list (fop Z)) (init_obs : fobs) (observed : list fobs)
    (* a RefreshableFileDataSource driven through file operations; payload id -1 is Handle(nil) *).

Definition case_ok (c : case) : bool :=
  match c with
  | HCase _ _ validtab tab ops observed =>
      let '(obs, ok) := hsim tab validtab rinit ops in
      ok && obs_eqb obs observed
  | FCase _ validtab tab c0 ops o0 observed =>
      let tab' := (-1, KNil) :: tab in
      let st0 := finit (rconvert tab') rpeq (rtyped false) (rload validtab) rclear rinit c0 in
      fobs_eqb (fobserve st0) o0 && fobsl_eqb (fsim tab' validtab st0 ops) observed
  end.

Definition case_id (c : case) : Z :=
  match c with HCase id _ _ _ _ _ => id | FCase id _ _ _ _ _ _ => id end.

Definition mismatches (cs : list case) : list Z :=
  map case_id (filter (fun c => negb (case_ok c)) cs).
