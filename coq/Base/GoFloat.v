(* Go float64 = IEEE binary64 = Coq primitive floats. Helpers that mirror the Go
   conversions and library calls used by sentinel-golang decisions. *)
From Coq Require Import Floats Uint63.
From SG Require Import Base.Prelude Base.GoInt.

#[global] Open Scope float_scope.

(* float literal transport: sign, mantissa (0 <= m < 2^63), binary exponent *)
Definition mkF (neg : bool) (m e : Z) : float :=
  let f := Z.ldexp (of_uint63 (Uint63.of_Z m)) e in
  if neg then (- f)%float else f.

Definition fInf : float := infinity.
Definition fNegInf : float := neg_infinity.
Definition fNaN : float := nan.

(* exact projection back, used to compare a model float with an observed one *)
Definition fbits (f : float) : (bool * Z * Z) + Z :=
  match Prim2SF f with
  | S754_zero s => inl (s, 0%Z, 0%Z)
  | S754_infinity s => inr (if s then (-1)%Z else 1%Z)
  | S754_nan => inr 0%Z
  | S754_finite s m e => inl (s, Zpos m, e)
  end.

Definition feqb (a b : float) : bool :=
  match fbits a, fbits b with
  | inl (s1, m1, e1), inl (s2, m2, e2) =>
      (* canonical: Prim2SF gives normalised mantissas so structural equality is exact *)
      Bool.eqb s1 s2 && (m1 =? m2)%Z && (e1 =? e2)%Z
  | inr x, inr y => (x =? y)%Z
  | _, _ => false
  end.

(* float64(x) for an integer that is exactly representable or not: Go rounds to nearest even.
   of_Z below is exact for |x| < 2^53; for larger values it goes through two halves. *)
Definition f_of_u63 (x : Z) : float := of_uint63 (Uint63.of_Z x).

(* float64(uint64 x): x < 2^64. of_uint63 rounds correctly for x < 2^63; for larger x Go
   uses the same round-to-nearest-even on the full value; we model x >= 2^63 by
   halving with sticky bit, the standard technique. *)
Definition f_of_u64 (x : Z) : float :=
  if (x <? two63)%Z then f_of_u63 x
  else Z.ldexp (f_of_u63 (Z.lor (Z.shiftr x 1) (Z.land x 1))) 1.

Definition f_of_i64 (x : Z) : float :=
  if (x <? 0)%Z then (- f_of_u64 (- x))%float else f_of_u64 x.

(* truncation toward zero of a finite float to Z; None for NaN/Inf *)
Definition f_trunc (f : float) : option Z :=
  match Prim2SF f with
  | S754_zero _ => Some 0%Z
  | S754_finite s m e =>
      let v := if (0 <=? e)%Z then (Zpos m * 2 ^ e)%Z else (Zpos m / 2 ^ (- e))%Z in
      Some (if s then (- v)%Z else v)
  | _ => None
  end.

(* math.Ceil *)
Definition f_is_int (f : float) : bool :=
  match Prim2SF f with
  | S754_zero _ => true
  | S754_finite _ m e => if (0 <=? e)%Z then true else ((Zpos m) mod 2 ^ (- e) =? 0)%Z
  | _ => true
  end.

Definition f_ceil_Z (f : float) : option Z :=
  match f_trunc f with
  | None => None
  | Some t => if f_is_int f then Some t else if (0 <? f)%float then Some (t + 1)%Z else Some t
  end.

(* Go: int64(f) on amd64 for out-of-range / NaN yields 0x8000000000000000 = -2^63 *)
Definition go_i64_of_f (f : float) : Z :=
  match f_trunc f with
  | Some t => if ((- two63 <=? t) && (t <? two63))%Z%bool then t else (- two63)%Z
  | None => (- two63)%Z
  end.

(* Go: uint64(f) on amd64: for 0 <= f < 2^63 exact truncation; for 2^63 <= f < 2^64 exact;
   negative / NaN / too large: implementation-specific (amd64 gives 2^63 for most). We model
   in-range exactly and return 2^63 otherwise. Callers state the in-range guard. *)
Definition go_u64_of_f (f : float) : Z :=
  match f_trunc f with
  | Some t => if ((0 <=? t) && (t <? two64))%Z%bool then t else two63
  | None => two63
  end.

Definition go_u32_of_f (f : float) : Z := u32 (go_u64_of_f f).

Definition f_abs (f : float) : float := abs f.

(* util.Float64Equals: math.Abs(x-y) < 1e-8 *)
Definition f_1e8 : float := 0x1.5798ee2308c3ap-27.
Definition float64_equals (x y : float) : bool := (abs (x - y) <? f_1e8)%float.
