(* Common imports and small list/arith helpers shared by all models. *)
From Coq Require Export String.
From Coq Require Export ZArith List Bool Lia.
From Coq Require Export ZifyBool ZifyNat ZifyN.
Export ListNotations.
#[global] Open Scope Z_scope.

Ltac Zify.zify_post_hook ::= Z.div_mod_to_equations.

Definition sumZ (l : list Z) : Z := fold_right Z.add 0 l.

Lemma sumZ_app l1 l2 : sumZ (l1 ++ l2) = sumZ l1 + sumZ l2.
Proof. induction l1 as [|x xs IH]; cbn [sumZ app fold_right] in *; [reflexivity|]. unfold sumZ in *. lia. Qed.

Lemma sumZ_nonneg l : Forall (fun x => 0 <= x) l -> 0 <= sumZ l.
Proof. induction 1 as [|x xs Hx _ IH]; cbn; unfold sumZ in *; lia. Qed.

(* association lists keyed by Z *)
Fixpoint alookup {A} (k : Z) (l : list (Z * A)) : option A :=
  match l with
  | [] => None
  | (k', v) :: r => if k =? k' then Some v else alookup k r
  end.

Fixpoint aset {A} (k : Z) (v : A) (l : list (Z * A)) : list (Z * A) :=
  match l with
  | [] => [(k, v)]
  | (k', v') :: r => if k =? k' then (k, v) :: r else (k', v') :: aset k v r
  end.

Lemma alookup_aset_same {A} k (v : A) l : alookup k (aset k v l) = Some v.
Proof.
  induction l as [|[k' v'] r IH]; cbn.
  - rewrite Z.eqb_refl. reflexivity.
  - destruct (k =? k') eqn:E; cbn; rewrite ?Z.eqb_refl, ?E; auto.
Qed.

Lemma alookup_aset_other {A} k k2 (v : A) l : k2 <> k -> alookup k2 (aset k v l) = alookup k2 l.
Proof.
  intros Hne. induction l as [|[k' v'] r IH]; cbn.
  - destruct (k2 =? k) eqn:E; [lia|reflexivity].
  - destruct (k =? k') eqn:E; cbn.
    + assert (k = k') by lia. subst. destruct (k2 =? k') eqn:E2; [lia|reflexivity].
    + destruct (k2 =? k'); auto.
Qed.

(* update the i-th element of a list *)
Fixpoint upd_nth {A} (n : nat) (f : A -> A) (l : list A) : list A :=
  match l, n with
  | [], _ => []
  | x :: r, O => f x :: r
  | x :: r, S n' => x :: upd_nth n' f r
  end.

Lemma upd_nth_length {A} n (f : A -> A) l : length (upd_nth n f l) = length l.
Proof. revert n; induction l as [|x r IH]; intros [|n]; cbn; auto. Qed.

Lemma nth_upd_nth_same {A} n (f : A -> A) l d : (n < length l)%nat -> nth n (upd_nth n f l) d = f (nth n l d).
Proof. revert n; induction l as [|x r IH]; intros [|n] H; cbn in *; try lia; auto. apply IH. lia. Qed.

Lemma nth_upd_nth_other {A} n m (f : A -> A) l d : n <> m -> nth m (upd_nth n f l) d = nth m l d.
Proof. revert n m; induction l as [|x r IH]; intros [|n] [|m] H; cbn in *; try lia; auto. Qed.
