(* Go fixed-width integer arithmetic, written with explicit wrap-around. *)
From SG Require Import Base.Prelude.

Definition two32 : Z := 4294967296.
Definition two63 : Z := 9223372036854775808.
Definition two64 : Z := 18446744073709551616.
Definition two31 : Z := 2147483648.

Definition u32 (x : Z) : Z := x mod two32.
Definition u64 (x : Z) : Z := x mod two64.
Definition i64 (x : Z) : Z := (x + two63) mod two64 - two63.
Definition i32 (x : Z) : Z := (x + two31) mod two32 - two31.

Definition u32_add (a b : Z) : Z := u32 (a + b).
Definition u64_add (a b : Z) : Z := u64 (a + b).
Definition u64_sub (a b : Z) : Z := u64 (a - b).
Definition u64_mul (a b : Z) : Z := u64 (a * b).
Definition i64_add (a b : Z) : Z := i64 (a + b).
Definition i64_sub (a b : Z) : Z := i64 (a - b).
Definition i64_mul (a b : Z) : Z := i64 (a * b).
Definition i32_add (a b : Z) : Z := i32 (a + b).

Definition in_u32 (x : Z) : Prop := 0 <= x < two32.
Definition in_u64 (x : Z) : Prop := 0 <= x < two64.
Definition in_i64 (x : Z) : Prop := - two63 <= x < two63.
Definition in_i32 (x : Z) : Prop := - two31 <= x < two31.

Lemma u32_id x : in_u32 x -> u32 x = x.
Proof. unfold in_u32, u32, two32. intros. apply Z.mod_small. lia. Qed.
Lemma u64_id x : in_u64 x -> u64 x = x.
Proof. unfold in_u64, u64, two64. intros. apply Z.mod_small. lia. Qed.
Lemma i64_id x : in_i64 x -> i64 x = x.
Proof. unfold in_i64, i64, two63, two64. intros. rewrite Z.mod_small; lia. Qed.
Lemma i32_id x : in_i32 x -> i32 x = x.
Proof. unfold in_i32, i32, two31, two32. intros. rewrite Z.mod_small; lia. Qed.
Lemma u32_range x : in_u32 (u32 x).
Proof. unfold in_u32, u32, two32. apply Z.mod_pos_bound. lia. Qed.
Lemma u64_range x : in_u64 (u64 x).
Proof. unfold in_u64, u64, two64. apply Z.mod_pos_bound. lia. Qed.
Lemma i64_range x : in_i64 (i64 x).
Proof. unfold in_i64, i64, two63, two64. pose proof (Z.mod_pos_bound (x + 9223372036854775808) 18446744073709551616). lia. Qed.

#[global] Opaque two32 two63 two64 two31.
