(* C15 — obligations re-checked on every run against the table regenerated from the Go source
   (copied next to Access_gen.v by the `gen` command of meta/C15.json). *)
From SG Require Import Base.Prelude Model.Lockset Model.RuleSwitch Model.LocksetRegions Model.LocksetPolicy Proofs.LocksetProofs.
From Gen Require Import Access_gen.

(* printed first so that a failing run names the offending accesses: (func, var, line) pairs *)
Definition VIOLATING_ACCESSES := Eval vm_compute in map brief (violations accesses whitelist).
Print VIOLATING_ACCESSES.
Definition SINGLE_READ_VIOLATIONS := Eval vm_compute in single_read_violations getter_calls expected_reads premise_exempt.
Print SINGLE_READ_VIOLATIONS.
Definition LOCK_REGION_VIOLATIONS := Eval vm_compute in map region_brief (region_violations lock_regions region_policy).
Print LOCK_REGION_VIOLATIONS.
Definition LOCK_ORDER_VIOLATIONS := Eval vm_compute in lock_order_violations lock_order.
Print LOCK_ORDER_VIOLATIONS.
Definition TABLE_SIZE := Eval vm_compute in (length accesses, length (filter (live whitelist) accesses), length getter_calls, length lock_order,
  (length lock_regions, length (filter (fun r => negb (lr_deferred r)) lock_regions), length (filter lr_recovered lock_regions))).
Print TABLE_SIZE.

(* every access of the listed packages is protected: any two accesses to one variable of
   which one is a write share a lock held exclusively by one side; nothing is unclassified *)
Theorem C15_discipline : discipline_ok accesses whitelist = true.
Proof. vm_compute. reflexivity. Qed.

(* hence: threads running the (non-whitelisted) code of the listed packages never reach a
   configuration in which two of them are enabled on conflicting accesses to one variable *)
Theorem C15_race_free : forall ps c x,
  Forall (prog_covered (filter (live whitelist) accesses)) ps -> reachable ps c -> ~ race_on x c.
Proof. exact (race_free_of_discipline accesses whitelist C15_discipline). Qed.

(* premise of C15_switch_atomic: each slot entry point obtains its module's rule list by
   exactly one guarded read, outside any loop *)
Theorem C15_single_read : single_read_ok getter_calls expected_reads premise_exempt = true.
Proof. vm_compute. reflexivity. Qed.

(* no lock is acquired (transitively, through static calls) while it is already held - in
   particular no recursive RLock, which deadlocks as soon as a writer waits in between: the rule
   managers cannot deadlock among themselves.  Edges are taken at the call sites: (lock possibly
   held by the caller, lock the callee may acquire itself or through its static callees). *)
Theorem C15_lock_order : lock_order_ok lock_order = true.
Proof. vm_compute. reflexivity. Qed.

(* unlock discipline: no lock is held across a possibly-panicking call in code whose panic is
   recovered unless a deferred Unlock releases it, and no function returns holding a lock it
   acquired - a failed rule load (panicking generator) cannot leave a rule lock locked *)
Theorem C15_unlock_discipline : regions_ok lock_regions region_policy = true.
Proof. vm_compute. reflexivity. Qed.

(* the table is not trivially empty: the rule loaders do call generators under a (deferred) lock *)
Theorem C15_unlock_discipline_nonvacuous :
  existsb (fun r => lr_deferred r && lr_recovered r && match lr_class r with CDyn => true | _ => false end) lock_regions = true.
Proof. vm_compute. reflexivity. Qed.

Print Assumptions C15_race_free.
