// Unlock discipline facts (C15, "no deadlock" clause): which lock regions enclose a call that may
// panic, how the region is closed (deferred Unlock or plain Unlock), and whether a panic raised
// there is recovered inside the analysed code.  A lock held across a possibly-panicking call in
// a function that recovers, released by a plain Unlock, is never released once the call panics:
// every later Lock (and, for a write lock, RLock) of that mutex blocks for ever.
//
// Emitted into Access_gen.v as `lock_regions : list lock_region`, one record per
// (function that acquired the lock, lock, possibly-panicking callee reached while it may be held):
//
//	mkLR func lock mode KCall class callee via deferred recovered line
//	mkLR func lock mode KReturn CNone "" "" false recovered line      (a return / function end reached
//	                                                                    with the lock possibly still held and
//	                                                                    no deferred Unlock registered)
//
// class: CDyn   call of a function VALUE (variable, parameter, map element, struct field, literal)
//
//	CIface  method call through an interface (dynamic dispatch, possibly to user code)
//	CExt    static call of a function outside the analysed packages (callee = "pkg.Func")
//	CPanic  explicit panic(...)
//
// Calls of analysed functions contribute the leaves (of these four classes) they may reach
// transitively; `via` names the analysed callee through which the leaf is reached.
// OVER-approximations: "possibly held" is the union over paths; closures and functions with
// callers the extractor cannot see (interface-dispatched methods, functions used as values) count
// as recovered.  UNDER-approximation, stated: only CALLS are possibly-panicking steps (a nil map
// write or an index out of range between Lock and Unlock is not seen).
package main

import (
	"fmt"
	"go/ast"
	"go/types"
	"sort"
	"strings"
)

type leaf struct{ class, name string }

type regionRec struct {
	fn, lock  string
	mode      byte
	kind      string // KCall | KReturn
	class     string
	callee    string
	via       string
	deferred  bool
	recovered bool
	line      int
}

type unitFacts struct {
	leaves    map[leaf]bool
	callees   map[*unit]bool
	acq       map[string]bool // locks (display names) the function may acquire, itself or through static callees
	recovers  bool            // the body registers a deferred recover()
	recovered bool            // a panic raised in the body is recovered inside the analysed code
}

func typeShort(t types.Type) string {
	return types.TypeString(t, func(p *types.Package) string { return p.Name() })
}

// classifyCall: ("", "", nil) for calls that cannot panic by themselves (conversions, builtins
// other than panic, sync / atomic operations); (class, name, nil) for a leaf; ("", "", u) for a
// static call of an analysed function.
func (a *analysis) classifyCall(p *lpkg, c *ast.CallExpr, src func(ast.Node) string) (string, string, *unit) {
	info := p.info
	fun := unparen(c.Fun)
	if tv, ok := info.Types[fun]; ok && tv.IsType() {
		return "", "", nil
	}
	extName := func(fn *types.Func) string {
		sig, _ := fn.Type().(*types.Signature)
		pk := "?"
		if fn.Pkg() != nil {
			pk = fn.Pkg().Name()
		}
		if sig != nil && sig.Recv() != nil {
			tn := "?"
			if n, ok := deref(sig.Recv().Type()).(*types.Named); ok {
				tn = n.Obj().Name()
			}
			return fmt.Sprintf("%s.(%s).%s", pk, tn, fn.Name())
		}
		return pk + "." + fn.Name()
	}
	switch x := fun.(type) {
	case *ast.Ident:
		switch o := info.Uses[x].(type) {
		case *types.Builtin:
			if o.Name() == "panic" {
				return "CPanic", "panic", nil
			}
			return "", "", nil
		case *types.Func:
			if u := a.units[o]; u != nil {
				return "", "", u
			}
			return "CExt", extName(o), nil
		case *types.TypeName:
			return "", "", nil
		}
		return "CDyn", src(fun), nil
	case *ast.SelectorExpr:
		if q, ok := x.X.(*ast.Ident); ok {
			if pn, ok := info.Uses[q].(*types.PkgName); ok {
				if pn.Imported().Path() == "sync/atomic" {
					return "", "", nil
				}
				if fn, ok := info.Uses[x.Sel].(*types.Func); ok {
					if u := a.units[fn]; u != nil {
						return "", "", u
					}
					return "CExt", extName(fn), nil
				}
				if _, ok := info.Uses[x.Sel].(*types.Var); ok {
					return "CDyn", src(fun), nil
				}
				// a package the type checker only has a stand-in for (third party)
				return "CExt", pn.Imported().Name() + "." + x.Sel.Name, nil
			}
		}
		if syncKind(info.TypeOf(x.X)) != "" {
			return "", "", nil
		}
		s := info.Selections[x]
		if s == nil {
			return "CExt", "?." + x.Sel.Name, nil
		}
		if s.Kind() == types.FieldVal {
			return "CDyn", src(fun), nil
		}
		fn, _ := s.Obj().(*types.Func)
		if fn == nil {
			return "CDyn", src(fun), nil
		}
		if types.IsInterface(s.Recv()) {
			return "CIface", "(" + typeShort(s.Recv()) + ")." + fn.Name(), nil
		}
		if u := a.units[fn]; u != nil {
			return "", "", u
		}
		return "CExt", extName(fn), nil
	}
	return "CDyn", src(fun), nil
}

// callsRecover: the body calls the builtin recover() directly (not inside a nested literal)
func callsRecover(info *types.Info, body *ast.BlockStmt) bool {
	found := false
	ast.Inspect(body, func(n ast.Node) bool {
		switch x := n.(type) {
		case *ast.FuncLit:
			return false
		case *ast.CallExpr:
			if id, ok := unparen(x.Fun).(*ast.Ident); ok {
				if b, ok := info.Uses[id].(*types.Builtin); ok && b.Name() == "recover" {
					found = true
				}
			}
		}
		return true
	})
	return found
}

// registersRecover: some `defer` of this body (not of a nested literal) runs recover()
func (a *analysis) registersRecover(p *lpkg, body *ast.BlockStmt) bool {
	found := false
	ast.Inspect(body, func(n ast.Node) bool {
		switch x := n.(type) {
		case *ast.FuncLit:
			return false
		case *ast.DeferStmt:
			if fl, ok := unparen(x.Call.Fun).(*ast.FuncLit); ok {
				if callsRecover(p.info, fl.Body) {
					found = true
				}
				return false
			}
			var id *ast.Ident
			switch f := unparen(x.Call.Fun).(type) {
			case *ast.Ident:
				id = f
			case *ast.SelectorExpr:
				id = f.Sel
			}
			if id != nil {
				if fn, ok := p.info.Uses[id].(*types.Func); ok {
					if u := a.units[fn]; u != nil && callsRecover(u.pkg.info, u.decl.Body) {
						found = true
					}
				}
			}
		}
		return true
	})
	return found
}

func (a *analysis) srcOf(n ast.Node) string {
	f := &fa{a: a}
	return f.src(n)
}

// computeFacts: per analysed function the possibly-panicking leaves it may reach, and whether a
// panic raised in it is recovered inside the analysed code
func (a *analysis) computeFacts() {
	a.facts = map[*unit]*unitFacts{}
	for _, u := range a.order {
		uf := &unitFacts{leaves: map[leaf]bool{}, callees: map[*unit]bool{}, acq: map[string]bool{}}
		a.facts[u] = uf
		uf.recovers = a.registersRecover(u.pkg, u.decl.Body)
		lf := &fa{a: a, u: u, p: u.pkg}
		ast.Inspect(u.decl.Body, func(n ast.Node) bool {
			switch x := n.(type) {
			case *ast.GoStmt:
				return false // runs on another goroutine: its panic does not unwind this one
			case *ast.CallExpr:
				if sel, ok := unparen(x.Fun).(*ast.SelectorExpr); ok && (sel.Sel.Name == "Lock" || sel.Sel.Name == "RLock") {
					if k := syncKind(u.pkg.info.TypeOf(sel.X)); k == "mutex" || k == "rwmutex" {
						if key := lf.lockKey(sel.X); key != "" {
							uf.acq[lockDisp(key)] = true
						}
					}
				}
				cl, name, cu := a.classifyCall(u.pkg, x, a.srcOf)
				if cu != nil {
					uf.callees[cu] = true
				} else if cl != "" {
					uf.leaves[leaf{cl, name}] = true
				}
			}
			return true
		})
	}
	for ch := true; ch; {
		ch = false
		for _, u := range a.order {
			uf := a.facts[u]
			for cu := range uf.callees {
				for l := range a.facts[cu].leaves {
					if !uf.leaves[l] {
						uf.leaves[l] = true
						ch = true
					}
				}
				for l := range a.facts[cu].acq {
					if !uf.acq[l] {
						uf.acq[l] = true
						ch = true
					}
				}
			}
		}
	}
}

// computeRecovered needs valueRef, which the lockset passes discover: run after solve()
func (a *analysis) computeRecovered() {
	for _, u := range a.order {
		uf := a.facts[u]
		dyn := u.valueRef
		if u.recv != nil && (a.ifaceMethods[u.pkg.tpkg][u.fn.Name()] || u.isEntry) {
			dyn = true // reached through an interface: the slot chain calls slots under its own recover
		}
		uf.recovered = uf.recovers || dyn
	}
	for ch := true; ch; {
		ch = false
		for _, u := range a.order {
			if !a.facts[u].recovered {
				continue
			}
			for cu := range a.facts[u].callees {
				if !a.facts[cu].recovered {
					a.facts[cu].recovered = true
					ch = true
				}
			}
		}
	}
}

func lockDisp(k string) string {
	if i := strings.Index(k, "@"); i >= 0 {
		return k[:i]
	}
	return k
}

// owned: locks possibly held here that this function (or literal) acquired itself
func (f *fa) owned(st *state) []string {
	var out []string
	for k := range st.L.may {
		if _, ok := f.entryKeys[k]; ok {
			continue
		}
		out = append(out, k)
	}
	sort.Strings(out)
	return out
}

func (f *fa) putRegion(r regionRec) {
	key := fmt.Sprintf("%s|%s|%s|%s|%s", r.fn, r.lock, r.kind, r.class, r.callee)
	if old, ok := f.a.regions[key]; ok {
		// keep the weakest facts seen for this (function, lock, callee)
		if old.deferred && !r.deferred {
			old.deferred = false
			old.line = r.line
			old.via = r.via
		}
		if r.mode == 'W' {
			old.mode = 'W'
		}
		f.a.regions[key] = old
		return
	}
	f.a.regions[key] = r
}

// regionCall: a call evaluated while locks acquired by this function may be held
func (f *fa) regionCall(c *ast.CallExpr, st *state) {
	if len(f.inl) > 0 || len(st.L.may) == 0 {
		return
	}
	own := f.owned(st)
	if len(own) == 0 {
		return
	}
	cl, name, cu := f.a.classifyCall(f.p, c, f.src)
	var ls []leaf
	via := ""
	if cu != nil {
		via = cu.name
		for l := range f.a.facts[cu].leaves {
			ls = append(ls, l)
		}
	} else if cl != "" {
		ls = []leaf{{cl, name}}
	}
	if len(ls) == 0 {
		return
	}
	_, line := f.line(c.Pos())
	for _, k := range own {
		_, def := st.L.def[k]
		for _, l := range ls {
			f.putRegion(regionRec{fn: f.name, lock: lockDisp(k), mode: st.L.may[k], kind: "KCall", class: l.class, callee: l.name, via: via, deferred: def, line: line})
		}
	}
}

// regionExit: a return statement or the end of the body
func (f *fa) regionExit(pos ast.Node, st *state) {
	if len(f.inl) > 0 || st.dead {
		return
	}
	_, line := f.line(pos.Pos())
	if _, isBlock := pos.(*ast.BlockStmt); isBlock {
		_, line = f.line(pos.End())
	}
	for _, k := range f.owned(st) {
		if _, def := st.L.def[k]; def {
			continue
		}
		f.putRegion(regionRec{fn: f.name, lock: lockDisp(k), mode: st.L.may[k], kind: "KReturn", class: "CNone", line: line})
	}
}

// deferredUnlocks: `defer func() { ...; X.Unlock(); ... }()` releases X at function exit too
func (f *fa) deferredLiteralUnlocks(fl *ast.FuncLit, st *state) {
	ast.Inspect(fl.Body, func(n ast.Node) bool {
		switch x := n.(type) {
		case *ast.FuncLit:
			return false
		case *ast.CallExpr:
			if sel, ok := unparen(x.Fun).(*ast.SelectorExpr); ok && (sel.Sel.Name == "Unlock" || sel.Sel.Name == "RUnlock") {
				if k := syncKind(f.p.info.TypeOf(sel.X)); k == "mutex" || k == "rwmutex" {
					if key := f.lockKey(sel.X); key != "" {
						if st.L.def == nil {
							st.L.def = lockset{}
						}
						st.L.def[key] = 'W'
					}
				}
			}
		}
		return true
	})
}

func (a *analysis) regionRows() []regionRec {
	rows := make([]regionRec, 0, len(a.regions))
	byName := map[string]*unit{}
	for _, u := range a.order {
		byName[u.name] = u
	}
	for _, r := range a.regions {
		if u := byName[r.fn]; u != nil {
			r.recovered = a.facts[u].recovered
		} else {
			r.recovered = true // a function literal: its callers are not known
		}
		rows = append(rows, r)
	}
	sort.Slice(rows, func(i, j int) bool {
		x, y := rows[i], rows[j]
		if x.fn != y.fn {
			return x.fn < y.fn
		}
		if x.lock != y.lock {
			return x.lock < y.lock
		}
		if x.kind != y.kind {
			return x.kind < y.kind
		}
		if x.class != y.class {
			return x.class < y.class
		}
		return x.callee < y.callee
	})
	return rows
}

// orderEdges: a static call made while locks are (possibly) held orders them before every lock the
// callee may acquire, itself or through its static callees.  The per-function entry locksets are
// intersections over the call sites (right for "certainly held", wrong for lock ORDER: one caller
// that holds a lock is enough for a deadlock), so the edges are taken at the call sites.
func (f *fa) orderEdges(u *unit, held lset, line int) {
	if len(f.inl) > 0 || f.a.facts[u] == nil {
		return
	}
	hs := map[string]bool{}
	for k := range held.m {
		hs[lockDisp(k)] = true
	}
	for k := range held.may {
		hs[lockDisp(k)] = true
	}
	for h := range hs {
		for l := range f.a.facts[u].acq {
			if _, ok := f.a.edges[[2]string{h, l}]; !ok {
				f.a.edges[[2]string{h, l}] = line
			}
		}
	}
}
