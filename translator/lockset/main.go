// lockset: static lock-set extractor for property C15 (DESIGN.md 4.4-1).
//
// It type-checks the listed packages of the tree under test (standard library only: go/ast,
// go/parser, go/types; no network, no `go list`), walks every function body with a forward
// analysis of the set of sync.Mutex / sync.RWMutex locks certainly held, and writes a Coq file
//
//	Definition accesses : list access := [ mkAccess func var Read|Write|Unknown held line; ... ].
//	Definition getter_calls : list getter_call := [ ... ].   (guarded rule-list reads per slot entry point)
//	Definition lock_order : list (string * string) := [ ... ]. (l1 held while acquiring l2)
//
// The table is an OVER-approximation of accesses and an UNDER-approximation of locks held:
//
//   - joins are intersections; loops are iterated to a fixpoint; `defer X.Unlock()` keeps X to
//     the function end; function literals, `go` and deferred calls start with the empty lockset;
//   - exported functions, methods reachable through interfaces, init and functions used as values
//     start with the empty lockset; other same-package callees start with the intersection of
//     the locksets of their static call sites (greatest fixpoint);
//   - variables are package-level variables of the listed packages ("pkg.v"), the objects
//     published through them ("pkg.v[]": slices / maps / pointers obtained by one index or
//     range step, tracked through locals, parameters and return values), and the fields of
//     structs that carry their own mutex ("pkg.(T).f", lock "pkg.(T).mu", per receiver object);
//   - method calls on sync.* / atomic.* values and sync/atomic functions are atomic, not accesses;
//     package-level variable initialisers are not accesses (package initialisation
//     happens-before main); init() bodies ARE emitted (the Coq whitelist names them);
//   - anything that cannot be classified (address of a variable escaping, unlock of a lock not
//     known to be held, goto, fallthrough, ...) is emitted as an `Unknown` entry, which
//     the Coq side rejects.  Nothing is dropped silently.
package main

import (
	"bufio"
	"flag"
	"fmt"
	"go/ast"
	"go/build"
	"go/importer"
	"go/parser"
	"go/token"
	"go/types"
	"os"
	"path/filepath"
	"sort"
	"strings"
)

// packages analysed (relative to the repository root)
var targetDirs = []string{
	"api",
	"core/base",
	"core/stat",
	"core/system_metric",
	"core/flow",
	"core/isolation",
	"core/hotspot",
	"core/hotspot/cache",
	"core/circuitbreaker",
	"core/system",
	"core/outlier",
}

// slot entry points whose guarded rule-list reads are counted
var entryMethods = map[string]bool{"Check": true, "OnEntryPassed": true, "OnEntryBlocked": true, "OnCompleted": true, "Prepare": true}

// ------------------------------------------------------------------------------------------
// loading

type lpkg struct {
	path, dir string
	files     []*ast.File
	tpkg      *types.Package
	info      *types.Info
	target    bool
}

type loader struct {
	repo, modPath string
	fset          *token.FileSet
	pkgs          map[string]*lpkg
	std           types.Importer
	bctx          build.Context
	fakes         map[string]*types.Package
}

func newLoader(repo string) *loader {
	l := &loader{repo: repo, fset: token.NewFileSet(), pkgs: map[string]*lpkg{}, fakes: map[string]*types.Package{}}
	l.bctx = build.Default
	l.bctx.CgoEnabled = false
	l.bctx.BuildTags = nil
	l.std = importer.ForCompiler(l.fset, "source", nil)
	b, err := os.ReadFile(filepath.Join(repo, "go.mod"))
	if err != nil {
		fatal("cannot read go.mod: %v", err)
	}
	for _, line := range strings.Split(string(b), "\n") {
		line = strings.TrimSpace(line)
		if strings.HasPrefix(line, "module ") {
			l.modPath = strings.TrimSpace(strings.TrimPrefix(line, "module "))
			break
		}
	}
	if l.modPath == "" {
		fatal("no module line in go.mod")
	}
	return l
}

func fatal(f string, a ...interface{}) {
	fmt.Fprintf(os.Stderr, "lockset: "+f+"\n", a...)
	os.Exit(2)
}

func (l *loader) Import(path string) (*types.Package, error) {
	if path == "unsafe" {
		return types.Unsafe, nil
	}
	if path == l.modPath || strings.HasPrefix(path, l.modPath+"/") {
		p := l.load(path)
		return p.tpkg, nil
	}
	first := path
	if i := strings.Index(path, "/"); i >= 0 {
		first = path[:i]
	}
	if !strings.Contains(first, ".") {
		if p, err := l.std.Import(path); err == nil {
			return p, nil
		}
	}
	return l.fake(path), nil
}

// third-party packages are not needed for the analysis: an empty stand-in keeps the type
// checker going (errors are ignored; identifiers of the analysed packages still resolve)
func (l *loader) fake(path string) *types.Package {
	if p, ok := l.fakes[path]; ok {
		return p
	}
	name := path
	if i := strings.LastIndex(name, "/"); i >= 0 {
		name = name[i+1:]
	}
	if len(name) >= 2 && name[0] == 'v' && strings.Trim(name[1:], "0123456789") == "" {
		rest := path[:len(path)-len(name)-1]
		if i := strings.LastIndex(rest, "/"); i >= 0 {
			name = rest[i+1:]
		}
	}
	if i := strings.Index(name, "."); i >= 0 {
		name = name[:i]
	}
	name = strings.ReplaceAll(name, "-", "_")
	p := types.NewPackage(path, name)
	p.MarkComplete()
	l.fakes[path] = p
	return p
}

func (l *loader) load(path string) *lpkg {
	if p, ok := l.pkgs[path]; ok {
		return p
	}
	rel := strings.TrimPrefix(strings.TrimPrefix(path, l.modPath), "/")
	dir := filepath.Join(l.repo, rel)
	p := &lpkg{path: path, dir: dir}
	l.pkgs[path] = p
	ents, err := os.ReadDir(dir)
	if err != nil {
		p.tpkg = l.fake(path)
		return p
	}
	for _, e := range ents {
		n := e.Name()
		if e.IsDir() || !strings.HasSuffix(n, ".go") || strings.HasSuffix(n, "_test.go") {
			continue
		}
		if ok, _ := l.bctx.MatchFile(dir, n); !ok {
			continue
		}
		f, err := parser.ParseFile(l.fset, filepath.Join(dir, n), nil, parser.SkipObjectResolution)
		if err != nil {
			fatal("parse %s: %v", n, err)
		}
		p.files = append(p.files, f)
	}
	p.info = &types.Info{
		Types:      map[ast.Expr]types.TypeAndValue{},
		Defs:       map[*ast.Ident]types.Object{},
		Uses:       map[*ast.Ident]types.Object{},
		Selections: map[*ast.SelectorExpr]*types.Selection{},
		Implicits:  map[ast.Node]types.Object{},
	}
	conf := types.Config{Importer: l, Error: func(error) {}, FakeImportC: true}
	tp, _ := conf.Check(path, l.fset, p.files, p.info)
	p.tpkg = tp
	return p
}

// ------------------------------------------------------------------------------------------
// analysis data

type lockset map[string]byte // lock key -> 'R' | 'W'; nil lockset with top=true is "all locks"

type lset struct {
	top bool
	m   lockset // locks certainly held (intersection at joins)
	may lockset // locks possibly held (union at joins): used by the unlock-discipline facts only
	def lockset // locks whose release by a deferred Unlock is certainly registered (intersection at joins)
}

func (s lset) clone() lset {
	n := lset{top: s.top, m: lockset{}}
	for k, v := range s.m {
		n.m[k] = v
	}
	if len(s.may) > 0 {
		n.may = lockset{}
		for k, v := range s.may {
			n.may[k] = v
		}
	}
	if len(s.def) > 0 {
		n.def = lockset{}
		for k, v := range s.def {
			n.def[k] = v
		}
	}
	return n
}

func meet(a, b lset) lset {
	if a.top {
		return b.clone()
	}
	if b.top {
		return a.clone()
	}
	n := lset{m: lockset{}}
	for k, v := range a.m {
		if w, ok := b.m[k]; ok {
			if v == 'R' || w == 'R' {
				n.m[k] = 'R'
			} else {
				n.m[k] = 'W'
			}
		}
	}
	if len(a.may)+len(b.may) > 0 {
		n.may = lockset{}
		for k, v := range a.may {
			n.may[k] = v
		}
		for k, v := range b.may {
			if _, ok := n.may[k]; !ok || v == 'W' {
				n.may[k] = v
			}
		}
	}
	for k, v := range a.def {
		if _, ok := b.def[k]; ok {
			if n.def == nil {
				n.def = lockset{}
			}
			n.def[k] = v
		}
	}
	return n
}

func (s lset) equal(o lset) bool {
	if s.top != o.top || len(s.m) != len(o.m) {
		return false
	}
	for k, v := range s.m {
		if o.m[k] != v {
			return false
		}
	}
	if len(s.may) != len(o.may) || len(s.def) != len(o.def) {
		return false
	}
	for k, v := range s.may {
		if o.may[k] != v {
			return false
		}
	}
	for k := range s.def {
		if _, ok := o.def[k]; !ok {
			return false
		}
	}
	return true
}

type taint struct {
	v     string // variable name "pkg.v"
	level int    // 0: the object v refers to; 1: an object published through v;
	// -1: a LOCAL container (map / slice built by the function) some of whose elements are objects
	// published through v: indexing / ranging over it yields level 1 again (a "snapshot" that stores
	// the live per-resource slices instead of copies)
}
type taintSet map[taint]bool

func (t taintSet) addAll(o taintSet) bool {
	ch := false
	for k := range o {
		if !t[k] {
			t[k] = true
			ch = true
		}
	}
	return ch
}

type accKey struct {
	fn   string
	pos  token.Pos
	v    string
	kind string
}
type accVal struct {
	held lset
	line int
	file string
}

type callSite struct {
	callee *unit
	held   lset
	inLoop bool
	line   int
}

type unit struct {
	name     string
	pkg      *lpkg
	decl     *ast.FuncDecl
	fn       *types.Func
	recv     *types.Var
	fixed    bool // entry lockset is empty whatever the call sites say
	valueRef bool
	entry    lset
	params   []*types.Var
	ptaint   map[*types.Var]taintSet // taint of parameters (union over call sites)
	ltaint   map[types.Object]taintSet
	ret      taintSet
	rets     []taintSet // per result position (multi-value `a, b := f()` binds each result to its own taint)
	sites    []callSite // calls made by this unit (last pass)
	acquires bool       // directly acquires a package-level lock
	clos     map[*ast.FuncLit]int
	isEntry  bool
}

type analysis struct {
	l            *loader
	units        map[*types.Func]*unit
	order        []*unit
	acc          map[accKey]accVal
	incoming     map[*unit][]lset
	intoP        map[*unit][]taintSet
	edges        map[[2]string]int
	changed      bool
	targets      map[*types.Package]*lpkg
	ifaceMethods map[*types.Package]map[string]bool
	mutMemo      map[*types.Func]int
	fresh        map[types.Object]bool
	facts        map[*unit]*unitFacts // unlock.go
	regions      map[string]regionRec // unlock.go
}

// ------------------------------------------------------------------------------------------
// helpers on types

func deref(t types.Type) types.Type {
	if t == nil {
		return nil
	}
	if p, ok := t.Underlying().(*types.Pointer); ok {
		return p.Elem()
	}
	return t
}

// syncKind: "mutex", "rwmutex", "sync" (other internally synchronised type) or ""
func syncKind(t types.Type) string {
	t = deref(t)
	n, ok := t.(*types.Named)
	if !ok || n.Obj().Pkg() == nil {
		return ""
	}
	switch n.Obj().Pkg().Path() {
	case "sync":
		switch n.Obj().Name() {
		case "Mutex":
			return "mutex"
		case "RWMutex":
			return "rwmutex"
		}
		return "sync"
	case "sync/atomic":
		return "sync"
	}
	return ""
}

func refLike(t types.Type) bool {
	if t == nil {
		return false
	}
	switch t.Underlying().(type) {
	case *types.Slice, *types.Map, *types.Pointer, *types.Interface, *types.Chan, *types.Signature:
		return true
	}
	return false
}

func unparen(e ast.Expr) ast.Expr {
	for {
		p, ok := e.(*ast.ParenExpr)
		if !ok {
			return e
		}
		e = p.X
	}
}

func (a *analysis) varName(v *types.Var) string {
	return v.Pkg().Name() + "." + v.Name()
}

// pkgVar returns the package-level variable of an analysed package that e denotes (nil if none)
func (a *analysis) pkgVar(p *lpkg, e ast.Expr) *types.Var {
	e = unparen(e)
	var id *ast.Ident
	switch x := e.(type) {
	case *ast.Ident:
		id = x
	case *ast.SelectorExpr:
		if q, ok := x.X.(*ast.Ident); ok {
			if _, isPkg := p.info.Uses[q].(*types.PkgName); isPkg {
				id = x.Sel
			}
		}
	}
	if id == nil {
		return nil
	}
	obj := p.info.Uses[id]
	if obj == nil {
		obj = p.info.Defs[id]
	}
	v, ok := obj.(*types.Var)
	if !ok || v.IsField() || v.Pkg() == nil || v.Parent() != v.Pkg().Scope() {
		return nil
	}
	if _, ok := a.targets[v.Pkg()]; !ok {
		return nil
	}
	return v
}

// selfLocking reports whether named struct type T (of an analysed package) has a mutex field
func (a *analysis) selfLocking(t types.Type) (*types.Named, *types.Struct, bool) {
	n, ok := deref(t).(*types.Named)
	if !ok || n.Obj().Pkg() == nil {
		return nil, nil, false
	}
	if _, ok := a.targets[n.Obj().Pkg()]; !ok {
		return nil, nil, false
	}
	s, ok := n.Underlying().(*types.Struct)
	if !ok {
		return nil, nil, false
	}
	for i := 0; i < s.NumFields(); i++ {
		if k := syncKind(s.Field(i).Type()); (k == "mutex" || k == "rwmutex") && !s.Field(i).Embedded() {
			return n, s, true
		}
	}
	return nil, nil, false
}

// field returns (display name, root object) when sel is `root.f` with root a local variable of
// a self-locking struct type and f one of its fields
func (a *analysis) field(p *lpkg, sel *ast.SelectorExpr) (string, types.Object, *types.Var, bool) {
	id, ok := unparen(sel.X).(*ast.Ident)
	if !ok {
		return "", nil, nil, false
	}
	root := p.info.Uses[id]
	rv, ok := root.(*types.Var)
	if !ok || rv.IsField() {
		return "", nil, nil, false
	}
	n, _, ok := a.selfLocking(rv.Type())
	if !ok {
		return "", nil, nil, false
	}
	if a.fresh[rv] {
		// object allocated by this very function (x := &T{...}): not shared before it is published
		return "", nil, nil, false
	}
	s := p.info.Selections[sel]
	if s == nil || s.Kind() != types.FieldVal {
		return "", nil, nil, false
	}
	f, ok := s.Obj().(*types.Var)
	if !ok {
		return "", nil, nil, false
	}
	return fmt.Sprintf("%s.(%s).%s", n.Obj().Pkg().Name(), n.Obj().Name(), f.Name()), root, f, true
}

func objKey(o types.Object) string { return fmt.Sprintf("@%p", o) }

// ------------------------------------------------------------------------------------------
// per-function walker

type state struct {
	L    lset
	dead bool
}

type frame struct {
	loop   bool
	label  string
	breaks []state
	conts  []state
}

type fa struct {
	a         *analysis
	u         *unit
	p         *lpkg
	name      string // function name used in the table (closures: outer$N)
	frames    []*frame
	loop      int
	closures  *int
	label     string
	lt        map[types.Object]taintSet // taint of locals and parameters in this context
	inl       []*unit                   // inline stack (context-sensitive analysis of callees given tracked arguments)
	ltChange  bool
	entryKeys lockset // locks held on entry (unlock.go: they belong to the caller's regions)
}

func (f *fa) line(pos token.Pos) (string, int) {
	ps := f.a.l.fset.Position(pos)
	return ps.Filename, ps.Line
}

func (f *fa) rec(pos token.Pos, v, kind string, held lset) {
	k := accKey{f.name, pos, v, kind}
	file, line := f.line(pos)
	if old, ok := f.a.acc[k]; ok {
		f.a.acc[k] = accVal{meet(old.held, held), line, file}
		return
	}
	f.a.acc[k] = accVal{held.clone(), line, file}
}

func (f *fa) unknown(pos token.Pos, why string, e ast.Node) {
	txt := why
	if e != nil {
		txt += ": " + f.src(e)
	}
	f.rec(pos, txt, "Unknown", lset{m: lockset{}})
}

func (f *fa) src(n ast.Node) string {
	ps, pe := f.a.l.fset.Position(n.Pos()), f.a.l.fset.Position(n.End())
	b, err := os.ReadFile(ps.Filename)
	if err != nil || pe.Offset > len(b) || ps.Offset > pe.Offset {
		return "?"
	}
	s := string(b[ps.Offset:pe.Offset])
	s = strings.Join(strings.Fields(s), " ")
	if len(s) > 60 {
		s = s[:60] + "..."
	}
	return strings.ReplaceAll(s, "\"", "'")
}

// locks visible for an access to a package-level variable: package-level locks only
func pkgLocks(L lset) lset {
	n := lset{m: lockset{}}
	for k, v := range L.m {
		if !strings.Contains(k, "@") {
			n.m[k] = v
		}
	}
	return n
}

// locks visible for an access to a field of root: package-level locks + root's own locks
func fieldLocks(L lset, root types.Object) lset {
	n := lset{m: lockset{}}
	suf := objKey(root)
	for k, v := range L.m {
		if !strings.Contains(k, "@") {
			n.m[k] = v
		} else if strings.HasSuffix(k, suf) {
			n.m[strings.TrimSuffix(k, suf)] = v
		}
	}
	return n
}

func (f *fa) recVar(pos token.Pos, v *types.Var, kind string, st *state) {
	// internally synchronised values: only (re)assignment is an access
	if syncKind(v.Type()) != "" && kind == "Read" {
		return
	}
	f.rec(pos, f.a.varName(v), kind, pkgLocks(st.L))
}

func (f *fa) recTaint(pos token.Pos, t taintSet, kind string, st *state) {
	for k := range t {
		if k.level < 0 {
			continue // the local container itself is not shared
		}
		n := k.v
		if k.level >= 1 {
			n += "[]"
		}
		f.rec(pos, n, kind, pkgLocks(st.L))
	}
}

func (f *fa) localTaint(o types.Object) taintSet {
	if o == nil {
		return nil
	}
	if t, ok := f.lt[o]; ok {
		return t
	}
	return nil
}

func (f *fa) addLocalTaint(o types.Object, t taintSet) {
	if o == nil || len(t) == 0 {
		return
	}
	if v, ok := o.(*types.Var); !ok || !refLike(v.Type()) {
		return
	}
	cur := f.lt[o]
	if cur == nil {
		cur = taintSet{}
		f.lt[o] = cur
	}
	if cur.addAll(t) {
		if len(f.inl) == 0 {
			f.a.changed = true
		}
		f.ltChange = true
	}
}

// taintOf: which tracked objects may the value of e alias
func (f *fa) taintOf(e ast.Expr) taintSet {
	e = unparen(e)
	if e == nil {
		return nil
	}
	if v := f.a.pkgVar(f.p, e); v != nil {
		if refLike(v.Type()) && syncKind(v.Type()) == "" {
			return taintSet{taint{f.a.varName(v), 0}: true}
		}
		return nil
	}
	switch x := e.(type) {
	case *ast.Ident:
		if o := f.p.info.Uses[x]; o != nil {
			return f.localTaint(o)
		}
		if o := f.p.info.Defs[x]; o != nil {
			return f.localTaint(o)
		}
	case *ast.SliceExpr:
		return f.taintOf(x.X)
	case *ast.TypeAssertExpr:
		return f.taintOf(x.X)
	case *ast.IndexExpr:
		if !refLike(f.p.info.TypeOf(e)) {
			return nil
		}
		out := taintSet{}
		for k := range f.taintOf(x.X) {
			if k.level == 0 || k.level == -1 {
				out[taint{k.v, 1}] = true
			}
		}
		return out
	case *ast.CallExpr:
		if id, ok := unparen(x.Fun).(*ast.Ident); ok {
			if b, ok := f.p.info.Uses[id].(*types.Builtin); ok {
				if b.Name() == "append" && len(x.Args) > 0 {
					return f.taintOf(x.Args[0])
				}
				return nil
			}
		}
		if u := f.callee(x); u != nil {
			return u.ret
		}
	}
	return nil
}

func (f *fa) callee(c *ast.CallExpr) *unit {
	var id *ast.Ident
	switch x := unparen(c.Fun).(type) {
	case *ast.Ident:
		id = x
	case *ast.SelectorExpr:
		id = x.Sel
	}
	if id == nil {
		return nil
	}
	fn, ok := f.p.info.Uses[id].(*types.Func)
	if !ok {
		return nil
	}
	return f.a.units[fn]
}

// lockKey: internal key of the lock denoted by e ("" if it cannot be tracked)
func (f *fa) lockKey(e ast.Expr) string {
	e = unparen(e)
	if v := f.a.pkgVar(f.p, e); v != nil {
		return f.a.varName(v)
	}
	if sel, ok := e.(*ast.SelectorExpr); ok {
		if name, root, _, ok := f.a.field(f.p, sel); ok {
			return name + objKey(root)
		}
	}
	return ""
}

func (f *fa) pushFrame(loop bool) *frame {
	fr := &frame{loop: loop, label: f.label}
	f.label = ""
	f.frames = append(f.frames, fr)
	return fr
}
func (f *fa) popFrame() { f.frames = f.frames[:len(f.frames)-1] }

func join(states ...state) state {
	out := state{dead: true}
	for _, s := range states {
		if s.dead {
			continue
		}
		if out.dead {
			out = state{L: s.L.clone()}
		} else {
			out.L = meet(out.L, s.L)
		}
	}
	return out
}

func (f *fa) block(list []ast.Stmt, st state) state {
	for _, s := range list {
		if st.dead {
			// unreachable in this pass; labels could make it reachable (goto is reported)
			if _, ok := s.(*ast.LabeledStmt); !ok {
				continue
			}
			continue
		}
		st = f.stmt(s, st)
	}
	return st
}

func (f *fa) stmt(s ast.Stmt, st state) state {
	if s == nil || st.dead {
		return st
	}
	st = state{L: st.L.clone()}
	switch s := s.(type) {
	case *ast.BlockStmt:
		return f.block(s.List, st)
	case *ast.ExprStmt:
		f.ex(s.X, &st)
	case *ast.SendStmt:
		f.ex(s.Chan, &st)
		f.ex(s.Value, &st)
	case *ast.IncDecStmt:
		f.ex(s.X, &st)
		f.lhs(s.X, &st)
	case *ast.AssignStmt:
		for _, r := range s.Rhs {
			f.ex(r, &st)
		}
		for _, l := range s.Lhs {
			if s.Tok != token.ASSIGN && s.Tok != token.DEFINE {
				f.ex(l, &st)
			}
			f.lhs(l, &st)
		}
		f.assignTaint(s.Lhs, s.Rhs)
	case *ast.DeclStmt:
		if gd, ok := s.Decl.(*ast.GenDecl); ok {
			for _, sp := range gd.Specs {
				if vs, ok := sp.(*ast.ValueSpec); ok {
					for _, r := range vs.Values {
						f.ex(r, &st)
					}
					lhs := make([]ast.Expr, len(vs.Names))
					for i, n := range vs.Names {
						lhs[i] = n
					}
					f.assignTaint(lhs, vs.Values)
				}
			}
		}
	case *ast.GoStmt:
		f.spawn(s.Call, &st)
	case *ast.DeferStmt:
		f.deferred(s.Call, &st)
	case *ast.ReturnStmt:
		for i, r := range s.Results {
			f.ex(r, &st)
			if t := f.taintOf(r); len(t) > 0 && f.name == f.u.name {
				if f.u.ret.addAll(t) {
					f.a.changed = true
				}
				if len(s.Results) > 1 {
					f.retAt(i, t)
				}
			}
		}
		if f.name == f.u.name && f.u.fn != nil {
			res := f.u.fn.Type().(*types.Signature).Results()
			switch {
			case len(s.Results) == 1 && res.Len() == 1:
				f.retAt(0, f.taintOf(s.Results[0]))
			case len(s.Results) == 1 && res.Len() > 1:
				// return g(...): result i of g is result i of this function
				if call, ok := unparen(s.Results[0]).(*ast.CallExpr); ok {
					if cu := f.callee(call); cu != nil {
						for i := 0; i < res.Len(); i++ {
							f.retAt(i, cu.retIdx(i))
						}
					} else {
						for i := 0; i < res.Len(); i++ {
							f.retAt(i, f.taintOf(s.Results[0]))
						}
					}
				}
			case len(s.Results) == 0:
				// naked return: the named results carry what was assigned to them
				for i := 0; i < res.Len(); i++ {
					if t := f.localTaint(res.At(i)); len(t) > 0 {
						if f.u.ret.addAll(t) {
							f.a.changed = true
						}
						f.retAt(i, t)
					}
				}
			}
		}
		f.regionExit(s, &st)
		st.dead = true
	case *ast.BranchStmt:
		switch s.Tok {
		case token.BREAK:
			for i := len(f.frames) - 1; i >= 0; i-- {
				fr := f.frames[i]
				if s.Label == nil || fr.label == s.Label.Name {
					fr.breaks = append(fr.breaks, st)
					break
				}
			}
			st.dead = true
		case token.CONTINUE:
			for i := len(f.frames) - 1; i >= 0; i-- {
				fr := f.frames[i]
				if fr.loop && (s.Label == nil || fr.label == s.Label.Name) {
					fr.conts = append(fr.conts, st)
					break
				}
			}
			st.dead = true
		default:
			f.unknown(s.Pos(), "unsupported control flow ("+s.Tok.String()+")", nil)
		}
	case *ast.LabeledStmt:
		f.label = s.Label.Name
		return f.stmt(s.Stmt, st)
	case *ast.IfStmt:
		st = f.stmt(s.Init, st)
		f.ex(s.Cond, &st)
		th := f.block(s.Body.List, state{L: st.L.clone()})
		el := state{L: st.L.clone()}
		if s.Else != nil {
			el = f.stmt(s.Else, el)
		}
		return join(th, el)
	case *ast.ForStmt:
		st = f.stmt(s.Init, st)
		head := state{L: st.L.clone()}
		for iter := 0; ; iter++ {
			fr := f.pushFrame(true)
			f.loop++
			c := state{L: head.L.clone()}
			f.ex(s.Cond, &c)
			b := f.block(s.Body.List, state{L: c.L.clone()})
			b = join(append(fr.conts, b)...)
			b = f.stmt(s.Post, b)
			f.loop--
			f.popFrame()
			nh := join(st, b)
			if nh.L.equal(head.L) || iter > 20 {
				exits := fr.breaks
				if s.Cond != nil {
					exits = append(exits, c)
				}
				return join(exits...)
			}
			head = nh
		}
	case *ast.RangeStmt:
		f.ex(s.X, &st)
		f.rangeTaint(s)
		head := state{L: st.L.clone()}
		for iter := 0; ; iter++ {
			fr := f.pushFrame(true)
			f.loop++
			c := state{L: head.L.clone()}
			if s.Tok == token.ASSIGN {
				f.lhs(s.Key, &c)
				f.lhs(s.Value, &c)
			}
			b := f.block(s.Body.List, state{L: c.L.clone()})
			b = join(append(fr.conts, b)...)
			f.loop--
			f.popFrame()
			nh := join(st, b)
			if nh.L.equal(head.L) || iter > 20 {
				return join(append(fr.breaks, head)...)
			}
			head = nh
		}
	case *ast.SwitchStmt:
		st = f.stmt(s.Init, st)
		f.ex(s.Tag, &st)
		return f.clauses(s.Body, st)
	case *ast.TypeSwitchStmt:
		st = f.stmt(s.Init, st)
		st = f.stmt(s.Assign, st)
		return f.clauses(s.Body, st)
	case *ast.SelectStmt:
		return f.clauses(s.Body, st)
	case *ast.EmptyStmt:
	default:
		f.unknown(s.Pos(), "unsupported statement", s)
	}
	return st
}

func (f *fa) clauses(body *ast.BlockStmt, st state) state {
	fr := f.pushFrame(false)
	outs := []state{}
	hasDefault := false
	for _, c := range body.List {
		cs := state{L: st.L.clone()}
		var list []ast.Stmt
		switch c := c.(type) {
		case *ast.CaseClause:
			if c.List == nil {
				hasDefault = true
			}
			for _, e := range c.List {
				f.ex(e, &cs)
			}
			list = c.Body
		case *ast.CommClause:
			if c.Comm == nil {
				hasDefault = true
			}
			cs = f.stmt(c.Comm, cs)
			list = c.Body
		}
		for _, s := range list {
			if b, ok := s.(*ast.BranchStmt); ok && b.Tok == token.FALLTHROUGH {
				f.unknown(b.Pos(), "unsupported control flow (fallthrough)", nil)
			}
		}
		outs = append(outs, f.block(list, cs))
	}
	f.popFrame()
	if !hasDefault {
		outs = append(outs, st)
	}
	outs = append(outs, fr.breaks...)
	return join(outs...)
}

func (f *fa) assignTaint(lhs, rhs []ast.Expr) {
	local := func(e ast.Expr) types.Object {
		id, ok := unparen(e).(*ast.Ident)
		if !ok || id.Name == "_" {
			return nil
		}
		o := f.p.info.Defs[id]
		if o == nil {
			o = f.p.info.Uses[id]
		}
		if v, ok := o.(*types.Var); ok && !v.IsField() && (v.Pkg() == nil || v.Parent() != v.Pkg().Scope()) {
			return v
		}
		return nil
	}
	if len(lhs) == len(rhs) {
		for i := range lhs {
			f.addLocalTaint(local(lhs[i]), f.taintOf(rhs[i]))
			// local[k] = <object published through v>: the local container now holds a live object
			if ix, ok := unparen(lhs[i]).(*ast.IndexExpr); ok {
				if c := local(ix.X); c != nil {
					in := taintSet{}
					for k := range f.taintOf(rhs[i]) {
						if k.level == 1 {
							in[taint{k.v, -1}] = true
						}
					}
					f.addLocalTaint(c, in)
				}
			}
		}
	} else if len(rhs) == 1 {
		if call, ok := unparen(rhs[0]).(*ast.CallExpr); ok {
			if cu := f.callee(call); cu != nil && cu.fn.Type().(*types.Signature).Results().Len() == len(lhs) {
				// a, b := g(...): each variable gets the taint of its own result position
				for i, l := range lhs {
					f.addLocalTaint(local(l), cu.retIdx(i))
				}
				return
			}
		}
		t := f.taintOf(rhs[0])
		for _, l := range lhs {
			f.addLocalTaint(local(l), t)
		}
	}
}

func (u *unit) retIdx(i int) taintSet {
	if i < len(u.rets) {
		return u.rets[i]
	}
	return nil
}

func (f *fa) retAt(i int, t taintSet) {
	if len(t) == 0 {
		return
	}
	for len(f.u.rets) <= i {
		f.u.rets = append(f.u.rets, taintSet{})
	}
	if f.u.rets[i].addAll(t) {
		f.a.changed = true
	}
}

func (f *fa) rangeTaint(s *ast.RangeStmt) {
	if s.Value == nil {
		return
	}
	id, ok := unparen(s.Value).(*ast.Ident)
	if !ok {
		return
	}
	o := f.p.info.Defs[id]
	if o == nil {
		o = f.p.info.Uses[id]
	}
	out := taintSet{}
	for k := range f.taintOf(s.X) {
		if k.level == 0 || k.level == -1 {
			out[taint{k.v, 1}] = true
		}
	}
	f.addLocalTaint(o, out)
}

// closure analyses a function literal as its own unit of code with the empty lockset
func (f *fa) closure(fl *ast.FuncLit) {
	idx := 0
	if f.u.decl != nil {
		// stable numbering: order of appearance in the source of the enclosing declaration
		if f.u.clos == nil {
			f.u.clos = map[*ast.FuncLit]int{}
			ast.Inspect(f.u.decl.Body, func(n ast.Node) bool {
				if l, ok := n.(*ast.FuncLit); ok {
					f.u.clos[l] = len(f.u.clos) + 1
				}
				return true
			})
		}
		idx = f.u.clos[fl]
	} else {
		*f.closures++
		idx = *f.closures
	}
	sub := &fa{a: f.a, u: f.u, p: f.p, name: fmt.Sprintf("%s$%d", f.u.name, idx), closures: f.closures, lt: f.lt, inl: f.inl}
	end := sub.block(fl.Body.List, state{L: lset{m: lockset{}}})
	sub.regionExit(fl.Body, &end)
}

func (f *fa) spawn(c *ast.CallExpr, st *state) {
	for _, a := range c.Args {
		f.ex(a, st)
	}
	if fl, ok := unparen(c.Fun).(*ast.FuncLit); ok {
		f.closure(fl)
		return
	}
	if u := f.callee(c); u != nil {
		f.site(u, c, lset{m: lockset{}})
		if sel, ok := unparen(c.Fun).(*ast.SelectorExpr); ok {
			f.ex(sel.X, st)
		}
		return
	}
	f.ex(c.Fun, st)
}

func (f *fa) deferred(c *ast.CallExpr, st *state) {
	if sel, ok := unparen(c.Fun).(*ast.SelectorExpr); ok {
		if k := syncKind(f.p.info.TypeOf(sel.X)); k == "mutex" || k == "rwmutex" {
			switch sel.Sel.Name {
			case "Unlock", "RUnlock":
				if key := f.lockKey(sel.X); key != "" {
					if st.L.def == nil {
						st.L.def = lockset{}
					}
					st.L.def[key] = 'W'
				}
				return // held to the end of the function
			default:
				f.unknown(c.Pos(), "deferred lock operation", c)
				return
			}
		}
	}
	if fl, ok := unparen(c.Fun).(*ast.FuncLit); ok {
		f.deferredLiteralUnlocks(fl, st)
	}
	// arguments are evaluated now, the call runs at function exit: analysed with the empty lockset
	f.spawn(c, st)
}

func (f *fa) site(u *unit, c *ast.CallExpr, held lset) {
	_, line := f.line(c.Pos())
	f.orderEdges(u, held, line)
	// translate the locks of the receiver object to the callee's receiver
	h := lset{m: lockset{}}
	var rootKey string
	if sel, ok := unparen(c.Fun).(*ast.SelectorExpr); ok {
		if id, ok := unparen(sel.X).(*ast.Ident); ok {
			if o := f.p.info.Uses[id]; o != nil {
				rootKey = objKey(o)
			}
		}
	}
	for k, v := range held.m {
		if !strings.Contains(k, "@") {
			h.m[k] = v
		} else if rootKey != "" && strings.HasSuffix(k, rootKey) && u.recv != nil {
			h.m[strings.TrimSuffix(k, rootKey)+objKey(u.recv)] = v
		}
	}
	f.a.incoming[u] = append(f.a.incoming[u], h)
	if len(f.inl) == 0 {
		if f.name == f.u.name {
			f.u.sites = append(f.u.sites, callSite{u, h, f.loop > 0, line})
		} else {
			// a call made from a closure: position in loop unknown, count it as in a loop
			f.u.sites = append(f.u.sites, callSite{u, h, true, line})
		}
	}
	// arguments that alias tracked objects: the callee is analysed in this calling context
	// (its own lockset, its own parameter binding); accesses keep the callee's name
	sig := u.fn.Type().(*types.Signature)
	bind := map[types.Object]taintSet{}
	for i, arg := range c.Args {
		var pv *types.Var
		if i < sig.Params().Len() {
			pv = sig.Params().At(i)
		} else if sig.Variadic() && sig.Params().Len() > 0 {
			pv = sig.Params().At(sig.Params().Len() - 1)
		}
		if pv == nil || !refLike(pv.Type()) {
			continue
		}
		t := f.taintOf(arg)
		if len(t) == 0 {
			continue
		}
		if bind[pv] == nil {
			bind[pv] = taintSet{}
		}
		bind[pv].addAll(t)
	}
	if len(bind) == 0 {
		return
	}
	rec := len(f.inl) >= 6
	for _, x := range f.inl {
		if x == u {
			rec = true
		}
	}
	if rec {
		// recursion / depth limit: fall back to the context-insensitive binding
		for pv, t := range bind {
			cur := u.ltaint[pv]
			if cur == nil {
				cur = taintSet{}
				u.ltaint[pv] = cur
			}
			if cur.addAll(t) {
				f.a.changed = true
			}
		}
		return
	}
	for iter := 0; iter < 4; iter++ {
		n := 0
		sub := &fa{a: f.a, u: u, p: u.pkg, name: u.name, closures: &n, lt: bind, inl: append(append([]*unit{}, f.inl...), u)}
		sub.block(u.decl.Body.List, state{L: h.clone()})
		if !sub.ltChange {
			break
		}
	}
}

// rootWrite: the object denoted by container expression x is mutated
func (f *fa) rootWrite(pos token.Pos, x ast.Expr, st *state) {
	x = unparen(x)
	for {
		if s, ok := x.(*ast.SliceExpr); ok {
			x = unparen(s.X)
			continue
		}
		break
	}
	if v := f.a.pkgVar(f.p, x); v != nil {
		f.recVar(pos, v, "Write", st)
		return
	}
	if sel, ok := x.(*ast.SelectorExpr); ok {
		if name, root, fv, ok := f.a.field(f.p, sel); ok && syncKind(fv.Type()) == "" {
			f.rec(pos, name, "Write", fieldLocks(st.L, root))
			return
		}
	}
	f.recTaint(pos, f.taintOf(x), "Write", st)
}

func (f *fa) lhs(e ast.Expr, st *state) {
	e = unparen(e)
	if e == nil {
		return
	}
	if v := f.a.pkgVar(f.p, e); v != nil {
		f.recVar(e.Pos(), v, "Write", st)
		return
	}
	switch x := e.(type) {
	case *ast.Ident:
	case *ast.SelectorExpr:
		if name, root, fv, ok := f.a.field(f.p, x); ok {
			if syncKind(fv.Type()) == "" {
				f.rec(e.Pos(), name, "Write", fieldLocks(st.L, root))
			} else {
				f.unknown(e.Pos(), "assignment to a lock field", e)
			}
			return
		}
		f.rootWrite(e.Pos(), x.X, st)
		f.ex(x.X, st)
	case *ast.IndexExpr:
		f.rootWrite(e.Pos(), x.X, st)
		f.ex(x.X, st)
		f.ex(x.Index, st)
	case *ast.StarExpr:
		f.rootWrite(e.Pos(), x.X, st)
		f.ex(x.X, st)
	default:
		f.unknown(e.Pos(), "unsupported assignment target", e)
	}
}

var pureExternal = map[string]bool{"Len": true, "Front": true, "Back": true, "Next": true, "Prev": true,
	"String": true, "Error": true, "Cap": true}

// mutates: may calling method fn change the object its receiver points to (1 yes, 0 no)
func (a *analysis) mutates(fn *types.Func) bool {
	if v, ok := a.mutMemo[fn]; ok {
		return v != 0 // in progress (2) counts as mutating only through the final answer below
	}
	u := a.units[fn]
	if u == nil || u.recv == nil {
		return !pureExternal[fn.Name()]
	}
	a.mutMemo[fn] = 2
	res := false
	info := u.pkg.info
	rootIsRecv := func(e ast.Expr) (bool, int) {
		d := 0
		for {
			switch x := unparen(e).(type) {
			case *ast.Ident:
				return info.Uses[x] == types.Object(u.recv), d
			case *ast.SelectorExpr:
				e, d = x.X, d+1
			case *ast.IndexExpr:
				e, d = x.X, d+1
			case *ast.StarExpr:
				e, d = x.X, d+1
			case *ast.SliceExpr:
				e = x.X
			default:
				return false, d
			}
		}
	}
	ast.Inspect(u.decl.Body, func(n ast.Node) bool {
		switch x := n.(type) {
		case *ast.AssignStmt:
			for _, l := range x.Lhs {
				if ok, d := rootIsRecv(l); ok && d >= 1 {
					res = true
				}
			}
		case *ast.IncDecStmt:
			if ok, d := rootIsRecv(x.X); ok && d >= 1 {
				res = true
			}
		case *ast.CallExpr:
			switch fun := unparen(x.Fun).(type) {
			case *ast.Ident:
				if b, ok := info.Uses[fun].(*types.Builtin); ok && (b.Name() == "delete" || b.Name() == "copy" || b.Name() == "clear") && len(x.Args) > 0 {
					if ok, _ := rootIsRecv(x.Args[0]); ok {
						res = true
					}
				}
			case *ast.SelectorExpr:
				if ok, _ := rootIsRecv(fun.X); ok {
					if m, ok := info.Uses[fun.Sel].(*types.Func); ok {
						if syncKind(info.TypeOf(fun.X)) != "" {
							break
						}
						if m != fn && a.mutates(m) {
							res = true
						}
					} else if _, isField := info.Uses[fun.Sel].(*types.Var); isField {
						res = true // calling a function-typed field: unknown effect
					}
				}
			}
		}
		return true
	})
	if res {
		a.mutMemo[fn] = 1
	} else {
		a.mutMemo[fn] = 0
	}
	return res
}

func (f *fa) ex(e ast.Expr, st *state) {
	if e == nil {
		return
	}
	if v := f.a.pkgVar(f.p, e); v != nil {
		f.recVar(e.Pos(), v, "Read", st)
		return
	}
	switch x := e.(type) {
	case *ast.Ident:
		o := f.p.info.Uses[x]
		if o == nil {
			return
		}
		if fn, ok := o.(*types.Func); ok {
			if u := f.a.units[fn]; u != nil && !u.valueRef {
				u.valueRef = true
				f.a.changed = true
			}
			return
		}
		f.recTaint(e.Pos(), f.localTaint(o), "Read", st)
	case *ast.SelectorExpr:
		if s := f.p.info.Selections[x]; s != nil && s.Kind() != types.FieldVal {
			if fn, ok := s.Obj().(*types.Func); ok {
				if u := f.a.units[fn]; u != nil && !u.valueRef {
					u.valueRef = true
					f.a.changed = true
				}
			}
		}
		if name, root, fv, ok := f.a.field(f.p, x); ok {
			if syncKind(fv.Type()) == "" {
				f.rec(e.Pos(), name, "Read", fieldLocks(st.L, root))
			}
			return
		}
		f.ex(x.X, st)
	case *ast.ParenExpr:
		f.ex(x.X, st)
	case *ast.StarExpr:
		f.ex(x.X, st)
	case *ast.BinaryExpr:
		f.ex(x.X, st)
		f.ex(x.Y, st)
	case *ast.UnaryExpr:
		if x.Op == token.AND {
			f.addrOf(x, st)
			return
		}
		f.ex(x.X, st)
	case *ast.IndexExpr:
		f.ex(x.X, st)
		f.ex(x.Index, st)
		for k := range f.taintOf(e) {
			if k.level == 1 {
				f.rec(e.Pos(), k.v+"[]", "Read", pkgLocks(st.L))
			}
		}
	case *ast.IndexListExpr:
		f.ex(x.X, st)
	case *ast.SliceExpr:
		f.ex(x.X, st)
		f.ex(x.Low, st)
		f.ex(x.High, st)
		f.ex(x.Max, st)
	case *ast.TypeAssertExpr:
		f.ex(x.X, st)
	case *ast.KeyValueExpr:
		f.ex(x.Value, st)
	case *ast.CompositeLit:
		isStruct := false
		if t := deref(f.p.info.TypeOf(x)); t != nil {
			_, isStruct = t.Underlying().(*types.Struct)
		}
		for _, el := range x.Elts {
			if kv, ok := el.(*ast.KeyValueExpr); ok {
				if !isStruct {
					f.ex(kv.Key, st)
				}
				f.ex(kv.Value, st)
			} else {
				f.ex(el, st)
			}
		}
	case *ast.FuncLit:
		f.closure(x)
	case *ast.CallExpr:
		f.call(x, st)
	case *ast.BasicLit, *ast.ArrayType, *ast.MapType, *ast.ChanType, *ast.FuncType, *ast.InterfaceType, *ast.StructType, *ast.Ellipsis:
	default:
		f.unknown(e.Pos(), "unsupported expression", e)
	}
}

// &x: the address of a tracked variable escapes the analysis
func (f *fa) addrOf(u *ast.UnaryExpr, st *state) {
	x := unparen(u.X)
	if _, ok := x.(*ast.CompositeLit); ok {
		f.ex(x, st)
		return
	}
	// find the root
	root := x
	depth := 0
	for {
		switch r := unparen(root).(type) {
		case *ast.SelectorExpr:
			if f.a.pkgVar(f.p, r) != nil {
				goto done
			}
			if _, _, _, ok := f.a.field(f.p, r); ok {
				goto done
			}
			root, depth = r.X, depth+1
			continue
		case *ast.IndexExpr:
			root, depth = r.X, depth+1
			continue
		case *ast.StarExpr:
			root, depth = r.X, depth+1
			continue
		}
		break
	}
done:
	root = unparen(root)
	if v := f.a.pkgVar(f.p, root); v != nil {
		if syncKind(v.Type()) != "" && depth == 0 {
			return
		}
		f.unknown(u.Pos(), "address of package variable taken", u)
		return
	}
	if sel, ok := root.(*ast.SelectorExpr); ok {
		if _, _, fv, ok := f.a.field(f.p, sel); ok {
			if syncKind(fv.Type()) != "" && depth == 0 {
				return
			}
			f.unknown(u.Pos(), "address of guarded field taken", u)
			return
		}
	}
	if depth > 0 && len(f.taintOf(root)) > 0 {
		// pointer into an object published through a tracked variable: reads are covered by the
		// alias tracking; a write through the pointer cannot be followed
		if id, ok := root.(*ast.Ident); ok {
			if t := f.localTaint(f.p.info.Uses[id]); len(t) > 0 {
				f.unknown(u.Pos(), "address into a published object taken", u)
			}
		}
	}
	f.ex(x, st)
}

func (f *fa) call(c *ast.CallExpr, st *state) {
	fun := unparen(c.Fun)
	info := f.p.info
	f.regionCall(c, st)
	// conversions
	if tv, ok := info.Types[fun]; ok && tv.IsType() {
		for _, a := range c.Args {
			f.ex(a, st)
		}
		return
	}
	if id, ok := fun.(*ast.Ident); ok {
		if b, ok := info.Uses[id].(*types.Builtin); ok {
			f.builtin(b.Name(), c, st)
			return
		}
	}
	if sel, ok := fun.(*ast.SelectorExpr); ok {
		// functions of sync/atomic on &x
		if q, ok := sel.X.(*ast.Ident); ok {
			if pn, ok := info.Uses[q].(*types.PkgName); ok && pn.Imported().Path() == "sync/atomic" {
				for _, a := range c.Args {
					if u, ok := unparen(a).(*ast.UnaryExpr); ok && u.Op == token.AND {
						if f.a.pkgVar(f.p, u.X) != nil {
							continue
						}
						if s2, ok := unparen(u.X).(*ast.SelectorExpr); ok {
							if _, _, _, ok := f.a.field(f.p, s2); ok {
								continue
							}
							f.ex(s2.X, st)
							continue
						}
					}
					f.ex(a, st)
				}
				return
			}
		}
		k := syncKind(info.TypeOf(sel.X))
		if k == "mutex" || k == "rwmutex" {
			f.lockOp(sel, c, st)
			return
		}
		if k != "" {
			// method of an internally synchronised value (Once.Do, atomic.Value.Load/Store, Pool.Get ...)
			if f.a.pkgVar(f.p, sel.X) == nil {
				if s2, ok := unparen(sel.X).(*ast.SelectorExpr); ok {
					if _, _, _, isF := f.a.field(f.p, s2); !isF {
						f.ex(s2.X, st)
					}
				} else {
					f.ex(sel.X, st)
				}
			}
			for _, a := range c.Args {
				f.ex(a, st)
			}
			return
		}
	}
	if u := f.callee(c); u != nil {
		f.site(u, c, st.L)
		if sel, ok := fun.(*ast.SelectorExpr); ok {
			f.recvUse(sel, u.fn, st)
		}
		f.recTaint(c.Pos(), u.ret, "Read", st) // the caller may look into what the callee returned
	} else if sel, ok := fun.(*ast.SelectorExpr); ok {
		if s := info.Selections[sel]; s != nil && s.Kind() == types.MethodVal {
			fn, _ := s.Obj().(*types.Func)
			f.recvUse(sel, fn, st)
		} else {
			f.ex(fun, st)
		}
	} else {
		f.ex(fun, st)
	}
	for _, a := range c.Args {
		f.ex(a, st)
	}
}

// recvUse: evaluation of the receiver expression of a method call
func (f *fa) recvUse(sel *ast.SelectorExpr, fn *types.Func, st *state) {
	if s2, ok := unparen(sel.X).(*ast.SelectorExpr); ok {
		if name, root, fv, ok := f.a.field(f.p, s2); ok && syncKind(fv.Type()) == "" {
			kind := "Read"
			if fn == nil || f.a.mutates(fn) {
				kind = "Write"
			}
			f.rec(sel.X.Pos(), name, kind, fieldLocks(st.L, root))
			return
		}
	}
	f.ex(sel.X, st)
}

func (f *fa) lockOp(sel *ast.SelectorExpr, c *ast.CallExpr, st *state) {
	key := f.lockKey(sel.X)
	if key == "" {
		// a lock inside some other object: not tracked (never counted as held)
		f.ex(sel.X, st)
		return
	}
	disp := key
	if i := strings.Index(disp, "@"); i >= 0 {
		disp = disp[:i]
	}
	_, line := f.line(c.Pos())
	acquire := func(mode byte) {
		if !strings.Contains(key, "@") {
			if f.name == f.u.name {
				f.u.acquires = true
			}
		}
		for k := range st.L.m {
			kd := k
			if i := strings.Index(kd, "@"); i >= 0 {
				kd = kd[:i]
			}
			if _, ok := f.a.edges[[2]string{kd, disp}]; !ok {
				f.a.edges[[2]string{kd, disp}] = line
			}
		}
		st.L.m[key] = mode
		if st.L.may == nil {
			st.L.may = lockset{}
		}
		st.L.may[key] = mode
	}
	switch sel.Sel.Name {
	case "Lock":
		acquire('W')
	case "RLock":
		acquire('R')
	case "Unlock", "RUnlock":
		if _, ok := st.L.m[key]; !ok {
			f.unknown(c.Pos(), "unlock of a lock not known to be held", c)
		}
		delete(st.L.m, key)
		delete(st.L.may, key)
	default:
		f.unknown(c.Pos(), "unsupported lock operation", c)
	}
}

func (f *fa) builtin(name string, c *ast.CallExpr, st *state) {
	switch name {
	case "append":
		for _, a := range c.Args {
			f.ex(a, st)
		}
		if len(c.Args) > 1 || c.Ellipsis.IsValid() {
			// may write into the backing array of the first argument
			if f.a.pkgVar(f.p, c.Args[0]) == nil { // `v = append(v, ...)` is recorded by the assignment
				f.rootWrite(c.Pos(), c.Args[0], st)
			} else {
				f.rootWrite(c.Pos(), c.Args[0], st)
			}
		}
	case "delete", "clear":
		if len(c.Args) > 0 {
			f.rootWrite(c.Pos(), c.Args[0], st)
		}
		for _, a := range c.Args {
			f.ex(a, st)
		}
	case "copy":
		if len(c.Args) > 0 {
			f.rootWrite(c.Pos(), c.Args[0], st)
		}
		for _, a := range c.Args {
			f.ex(a, st)
		}
	case "panic":
		for _, a := range c.Args {
			f.ex(a, st)
		}
		st.dead = true
	default:
		for _, a := range c.Args {
			f.ex(a, st)
		}
	}
}

// ------------------------------------------------------------------------------------------
// whole-program driver

func (a *analysis) collectUnits() {
	for _, p := range a.l.pkgs {
		if !p.target {
			continue
		}
		im := map[string]bool{}
		a.ifaceMethods[p.tpkg] = im
		sc := p.tpkg.Scope()
		for _, n := range sc.Names() {
			if tn, ok := sc.Lookup(n).(*types.TypeName); ok {
				if it, ok := tn.Type().Underlying().(*types.Interface); ok {
					for i := 0; i < it.NumMethods(); i++ {
						im[it.Method(i).Name()] = true
					}
				}
			}
		}
		for _, file := range p.files {
			for _, d := range file.Decls {
				fd, ok := d.(*ast.FuncDecl)
				if !ok || fd.Body == nil {
					continue
				}
				fn, _ := p.info.Defs[fd.Name].(*types.Func)
				if fn == nil {
					continue
				}
				u := &unit{pkg: p, decl: fd, fn: fn, ptaint: map[*types.Var]taintSet{}, ltaint: map[types.Object]taintSet{}, ret: taintSet{}}
				sig := fn.Type().(*types.Signature)
				if sig.Recv() != nil {
					u.recv = sig.Recv()
					tn := "?"
					if n, ok := deref(sig.Recv().Type()).(*types.Named); ok {
						tn = n.Obj().Name()
					}
					u.name = fmt.Sprintf("%s.(%s).%s", p.tpkg.Name(), tn, fn.Name())
					u.fixed = fn.Exported() || im[fn.Name()]
					u.isEntry = entryMethods[fn.Name()]
				} else {
					u.name = p.tpkg.Name() + "." + fn.Name()
					u.fixed = fn.Exported() || fn.Name() == "init" || fn.Name() == "main"
				}
				if fn.Name() != "init" {
					a.units[fn] = u
				}
				a.order = append(a.order, u)
			}
		}
	}
	sort.Slice(a.order, func(i, j int) bool {
		if a.order[i].name != a.order[j].name {
			return a.order[i].name < a.order[j].name
		}
		return a.order[i].decl.Pos() < a.order[j].decl.Pos()
	})
	for _, u := range a.order {
		if u.fixed {
			u.entry = lset{m: lockset{}}
		} else {
			u.entry = lset{top: true, m: lockset{}}
		}
	}
}

// findFresh: locals defined once as `x := &T{...}` / `x := T{...}` / `x := new(T)`
func (a *analysis) findFresh() {
	a.fresh = map[types.Object]bool{}
	for _, p := range a.l.pkgs {
		if !p.target {
			continue
		}
		assigned := map[types.Object]int{}
		cand := map[types.Object]bool{}
		for _, file := range p.files {
			ast.Inspect(file, func(n ast.Node) bool {
				as, ok := n.(*ast.AssignStmt)
				if !ok {
					return true
				}
				for i, l := range as.Lhs {
					id, ok := l.(*ast.Ident)
					if !ok {
						continue
					}
					o := p.info.Defs[id]
					if o == nil {
						o = p.info.Uses[id]
					}
					if o == nil {
						continue
					}
					assigned[o]++
					if as.Tok == token.DEFINE && len(as.Lhs) == len(as.Rhs) {
						r := unparen(as.Rhs[i])
						if u, ok := r.(*ast.UnaryExpr); ok && u.Op == token.AND {
							r = unparen(u.X)
						}
						switch x := r.(type) {
						case *ast.CompositeLit:
							cand[o] = true
						case *ast.CallExpr:
							if fid, ok := x.Fun.(*ast.Ident); ok && fid.Name == "new" {
								cand[o] = true
							}
						}
					}
				}
				return true
			})
		}
		for o := range cand {
			if assigned[o] == 1 {
				a.fresh[o] = true
			}
		}
	}
}

func (a *analysis) pass() {
	a.acc = map[accKey]accVal{}
	a.incoming = map[*unit][]lset{}
	a.edges = map[[2]string]int{}
	a.regions = map[string]regionRec{}
	for _, u := range a.order {
		u.sites = nil
		u.acquires = false
	}
	// closures inside package-level variable initialisers run later, with no lock held
	for _, p := range a.l.pkgs {
		if !p.target {
			continue
		}
		n := 0
		pu := &unit{name: p.tpkg.Name() + ".<vars>", pkg: p, ptaint: map[*types.Var]taintSet{}, ltaint: map[types.Object]taintSet{}, ret: taintSet{}}
		for _, file := range p.files {
			for _, d := range file.Decls {
				gd, ok := d.(*ast.GenDecl)
				if !ok || gd.Tok != token.VAR {
					continue
				}
				for _, sp := range gd.Specs {
					for _, v := range sp.(*ast.ValueSpec).Values {
						ast.Inspect(v, func(nd ast.Node) bool {
							if fl, ok := nd.(*ast.FuncLit); ok {
								f := &fa{a: a, u: pu, p: p, name: pu.name, closures: &n, lt: pu.ltaint}
								f.closure(fl)
								return false
							}
							return true
						})
					}
				}
			}
		}
	}
	for _, u := range a.order {
		n := 0
		f := &fa{a: a, u: u, p: u.pkg, name: u.name, closures: &n, lt: u.ltaint}
		entry := u.entry
		if entry.top {
			// not (yet) known to be called: analysed with every package-level lock of its package held
			// is pointless; use the empty set for emission, it is re-analysed once call sites are known
			entry = lset{m: lockset{}}
			if !u.fixed && !u.valueRef {
				entry = a.topFor(u)
			}
		}
		st := state{L: entry.clone()}
		f.entryKeys = entry.m
		// the callee-side name of receiver locks
		end := f.block(u.decl.Body.List, st)
		f.regionExit(u.decl.Body, &end)
	}
}

// topFor: the "all locks" entry set used in the first round for call-site determined functions
func (a *analysis) topFor(u *unit) lset {
	s := lset{m: lockset{}}
	sc := u.pkg.tpkg.Scope()
	for _, n := range sc.Names() {
		if v, ok := sc.Lookup(n).(*types.Var); ok {
			if k := syncKind(v.Type()); k == "mutex" || k == "rwmutex" {
				s.m[a.varName(v)] = 'W'
			}
		}
	}
	if u.recv != nil {
		if n, st, ok := a.selfLocking(u.recv.Type()); ok {
			for i := 0; i < st.NumFields(); i++ {
				if k := syncKind(st.Field(i).Type()); k == "mutex" || k == "rwmutex" {
					s.m[fmt.Sprintf("%s.(%s).%s", n.Obj().Pkg().Name(), n.Obj().Name(), st.Field(i).Name())+objKey(u.recv)] = 'W'
				}
			}
		}
	}
	return s
}

func (a *analysis) solve() int {
	rounds := 0
	for {
		rounds++
		a.changed = false
		a.pass()
		// recompute entry locksets from the call sites seen in this pass
		for _, u := range a.order {
			var ne lset
			if u.fixed || u.valueRef {
				ne = lset{m: lockset{}}
			} else if in := a.incoming[u]; len(in) == 0 {
				ne = lset{m: lockset{}} // never called statically: assume nothing
			} else {
				ne = lset{top: true, m: lockset{}}
				for _, h := range in {
					ne = meet(ne, h)
				}
			}
			if !ne.equal(u.entry) {
				u.entry = ne
				a.changed = true
			}
		}
		if !a.changed || rounds > 30 {
			break
		}
	}
	// anything still at top was never reached from a root: no assumption
	fix := false
	for _, u := range a.order {
		if u.entry.top {
			u.entry = lset{m: lockset{}}
			fix = true
		}
	}
	if fix {
		for i := 0; i < 30; i++ {
			a.changed = false
			a.pass()
			for _, u := range a.order {
				if u.fixed || u.valueRef {
					continue
				}
				ne := lset{top: true, m: lockset{}}
				for _, h := range a.incoming[u] {
					ne = meet(ne, h)
				}
				if ne.top {
					ne = lset{m: lockset{}}
				}
				if !ne.equal(u.entry) {
					u.entry = ne
					a.changed = true
				}
			}
			if !a.changed {
				break
			}
			rounds++
		}
	}
	return rounds
}

// ------------------------------------------------------------------------------------------
// output

func coqStr(s string) string { return "\"" + strings.ReplaceAll(s, "\"", "\"\"") + "\"" }

func heldStr(h lset) string {
	keys := make([]string, 0, len(h.m))
	for k := range h.m {
		keys = append(keys, k)
	}
	sort.Strings(keys)
	parts := []string{}
	for _, k := range keys {
		m := "MR"
		if h.m[k] == 'W' {
			m = "MW"
		}
		parts = append(parts, fmt.Sprintf("(%s, %s)", coqStr(k), m))
	}
	return "[" + strings.Join(parts, "; ") + "]"
}

type row struct {
	fn, v, kind string
	held        lset
	line        int
	file        string
}

type gcall struct {
	entry, getter string
	inLoop        bool
	line          int
}

func (a *analysis) getterCalls() []gcall {
	var out []gcall
	for _, u := range a.order {
		if !u.isEntry {
			continue
		}
		if u.acquires {
			line := a.l.fset.Position(u.decl.Pos()).Line
			out = append(out, gcall{u.name, "<inline>", false, line})
		}
		var walk func(x *unit, inLoop bool, path map[*unit]bool)
		walk = func(x *unit, inLoop bool, path map[*unit]bool) {
			for _, s := range x.sites {
				if s.callee.pkg != u.pkg {
					continue // other packages' state (node storage, ...) is not this module's rule list
				}
				l := inLoop || s.inLoop
				if s.callee.acquires {
					out = append(out, gcall{u.name, s.callee.name, l, s.line})
				}
				if path[s.callee] {
					continue
				}
				path[s.callee] = true
				walk(s.callee, l, path)
				delete(path, s.callee)
			}
		}
		walk(u, false, map[*unit]bool{u: true})
	}
	sort.Slice(out, func(i, j int) bool {
		if out[i].entry != out[j].entry {
			return out[i].entry < out[j].entry
		}
		if out[i].line != out[j].line {
			return out[i].line < out[j].line
		}
		return out[i].getter < out[j].getter
	})
	return out
}

func main() {
	repo := flag.String("repo", "/repo", "tree under test")
	out := flag.String("out", "Access_gen.v", "Coq file to write")
	verbose := flag.Bool("v", false, "print the table with file positions")
	flag.Parse()

	l := newLoader(*repo)
	a := &analysis{l: l, units: map[*types.Func]*unit{}, targets: map[*types.Package]*lpkg{},
		ifaceMethods: map[*types.Package]map[string]bool{}, mutMemo: map[*types.Func]int{}}
	for _, d := range targetDirs {
		path := l.modPath + "/" + d
		p := l.load(path)
		if len(p.files) == 0 {
			fatal("package %s has no Go files under %s", d, *repo)
		}
		p.target = true
		a.targets[p.tpkg] = p
	}
	a.collectUnits()
	a.findFresh()
	a.computeFacts()
	rounds := a.solve()
	a.computeRecovered()
	regs := a.regionRows()

	rows := []row{}
	for k, v := range a.acc {
		rows = append(rows, row{k.fn, k.v, k.kind, v.held, v.line, v.file})
	}
	sort.Slice(rows, func(i, j int) bool {
		x, y := rows[i], rows[j]
		if x.fn != y.fn {
			return x.fn < y.fn
		}
		if x.line != y.line {
			return x.line < y.line
		}
		if x.v != y.v {
			return x.v < y.v
		}
		return x.kind < y.kind
	})
	// one row per (func, var, kind, held, line)
	dedup := rows[:0]
	seen := map[string]bool{}
	for _, r := range rows {
		key := fmt.Sprintf("%s|%s|%s|%s|%d", r.fn, r.v, r.kind, heldStr(r.held), r.line)
		if seen[key] {
			continue
		}
		seen[key] = true
		dedup = append(dedup, r)
	}
	rows = dedup
	gcs := a.getterCalls()

	fo, err := os.Create(*out)
	if err != nil {
		fatal("%v", err)
	}
	w := bufio.NewWriter(fo)
	fmt.Fprintf(w, "(* generated by translator/lockset from %s -- do not edit *)\n", l.modPath)
	fmt.Fprintf(w, "From SG Require Import Base.Prelude Model.Lockset Model.RuleSwitch Model.LocksetRegions.\nLocal Open Scope string_scope.\n\n")
	fmt.Fprintf(w, "Definition accesses : list access := [\n")
	unknowns := 0
	for i, r := range rows {
		sep := ";"
		if i == len(rows)-1 {
			sep = ""
		}
		if r.kind == "Unknown" {
			unknowns++
		}
		fmt.Fprintf(w, "  mkAccess %s %s %s %s %d%%Z%s\n", coqStr(r.fn), coqStr(r.v), r.kind, heldStr(r.held), r.line, sep)
	}
	fmt.Fprintf(w, "].\n\nDefinition getter_calls : list getter_call := [\n")
	for i, g := range gcs {
		sep := ";"
		if i == len(gcs)-1 {
			sep = ""
		}
		fmt.Fprintf(w, "  mkGC %s %s %v %d%%Z%s\n", coqStr(g.entry), coqStr(g.getter), g.inLoop, g.line, sep)
	}
	fmt.Fprintf(w, "].\n\nDefinition lock_order : list (string * string) := [\n")
	ek := make([][2]string, 0, len(a.edges))
	for k := range a.edges {
		ek = append(ek, k)
	}
	sort.Slice(ek, func(i, j int) bool {
		if ek[i][0] != ek[j][0] {
			return ek[i][0] < ek[j][0]
		}
		return ek[i][1] < ek[j][1]
	})
	for i, k := range ek {
		sep := ";"
		if i == len(ek)-1 {
			sep = ""
		}
		fmt.Fprintf(w, "  (%s, %s)%s\n", coqStr(k[0]), coqStr(k[1]), sep)
	}
	fmt.Fprintf(w, "].\n\nDefinition lock_regions : list lock_region := [\n")
	for i, r := range regs {
		sep := ";"
		if i == len(regs)-1 {
			sep = ""
		}
		m := "MR"
		if r.mode == 'W' {
			m = "MW"
		}
		fmt.Fprintf(w, "  mkLR %s %s %s %s %s %s %s %v %v %d%%Z%s\n", coqStr(r.fn), coqStr(r.lock), m, r.kind, r.class, coqStr(r.callee), coqStr(r.via), r.deferred, r.recovered, r.line, sep)
	}
	fmt.Fprintf(w, "].\n")
	w.Flush()
	fo.Close()

	if *verbose {
		for _, r := range rows {
			rel, _ := filepath.Rel(*repo, r.file)
			fmt.Printf("%-7s %-40s %-45s %-50s %s:%d\n", r.kind, r.v, r.fn, heldStr(r.held), rel, r.line)
		}
		for _, g := range gcs {
			fmt.Printf("GETTER  %-45s -> %-45s inLoop=%v line %d\n", g.entry, g.getter, g.inLoop, g.line)
		}
		for _, k := range ek {
			fmt.Printf("ORDER   %s -> %s\n", k[0], k[1])
		}
		for _, r := range regs {
			fmt.Printf("REGION  %-45s %-28s %c %-7s %-6s %-40s via=%-45s deferred=%-5v recovered=%-5v line %d\n", r.fn, r.lock, r.mode, r.kind, r.class, r.callee, r.via, r.deferred, r.recovered, r.line)
		}
	}
	fmt.Printf("lockset: %d packages, %d functions, %d accesses (%d unknown), %d guarded-read calls, %d lock-order edges, %d lock-region facts, %d rounds -> %s\n",
		len(a.targets), len(a.order), len(rows), unknowns, len(gcs), len(ek), len(regs), rounds, *out)
}
