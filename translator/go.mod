module vt

go 1.22
