// Extensions of the leaf translator first needed by the metric-log / datasource cluster (C17, C18):
// functions whose meaning is mostly the ORDER of their I/O effects and the tests between them.  All of
// it is switched on per target by `IO: true` and reached through one-line hooks in main.go
// (ioStmt in front of the statement switch, ioErrVal, ioCall, ioField) and loopbody.go (assignedIn):
//
//   - Rets: call text or callee text -> what the call yields, for calls whose results are not scalars
//     of one value.  `a, b := f(...)` / `a, b = f(...)` / `e := f(...)` / `e = f(...)` / `_ = f(...)`
//     with an entry {V, "t0,t1"} binds the i-th left-hand side: a scalar type -> the parameter V_i,
//     "opaque" -> an opaque object whose nil test is the parameter V_i_nil (so the many `err`
//     variables of one function stay distinct); with a single type the names are V / V_nil.  When the
//     call also has an Acts entry it is recorded in the trace first (kept arguments as usual).  An
//     argument `&v` with v a scalar local is an OUT parameter: after the call v is the parameter
//     V_out (binary.Read(file, order, &sec)); inside loops such a v counts as assigned (carried).
//     A key listed in SeqHints is numbered per evaluation along the path (V1_0, V2_0, ...).
//     `return f(...)` of a multi-result function with an entry {V, "error,error"} records the call
//     and returns the parameters V_0, V_1.
//   - IOStores: left-hand side text of an assignment -> recorded action (Keep [0]: the stored value).
//     With StoreFields and a struct literal `&T{...}` / `T{...}` on the right the action's arguments
//     are the values given to the listed fields, in the listed order (a field the literal does not
//     mention is LZ 0); module LeafFields at the end of Leaf_gen.v repeats the list for the
//     obligation file.
//   - `a, b = e1, e2` is a parallel assignment (right-hand sides first).
//   - defer: a deferred call that is not an action is skipped (Unlock, Close); a deferred function
//     literal of the shape `if r := recover(); r != nil { effects }` is skipped (nothing happens on a
//     normal return); any other deferred literal / deferred action RUNS AT EVERY LATER RETURN: the
//     returned values are bound first, then the deferred bodies are executed last-in-first-out with
//     the variables' values at that point (closures see the locals), then the result is given.
//   - `for ... range` loops (not the target's) whose body consists of recorded stores / appends /
//     actions only are recorded once ("for each element").
//   - LenSlices: a slice variable listed here is represented by its LENGTH (an int): `v := make(...)`
//     is 0, `v = append(v, e)` adds one (and is recorded when it has an Acts entry), `len(v)` is the
//     variable, a returned v is its length.
//   - `var v []T` / `var v map[..]..` declares an opaque object.
//   - `select { case ... }` is a switch on the parameter select_case (index of the clause that
//     fires, source order; the last clause also stands for any other value); received values are
//     opaque.
//   - fields of string / slice / foreign named type read through a struct pointer are abstract value
//     ids (type "iface": Z), foreign named integer types are resolved through the imported package;
//     AbsCalls: callee text -> parameter (Z -> Typ) applied to the single argument.
//   - error results: an opaque variable is `if <nil parameter> then 0 else 1`; a call whose callee
//     text is in Errs is that code; make(...) is non-nil.
package main

import (
	"fmt"
	"go/ast"
	"go/token"
	"strconv"
	"strings"
)

const keyDefers = "\x00defers"

var ioAddrAssigned bool // loopbody.go assignedIn: `&v` inside a loop body counts as an assignment of v

// ---- tables ----

func (x *tr) lookupRet(e *ast.CallExpr) (hint, string, bool) {
	if len(x.t.Rets) == 0 {
		return hint{}, "", false
	}
	k := src(x.p.fset, e)
	if h, ok := x.t.Rets[k]; ok {
		return h, k, true
	}
	k = src(x.p.fset, e.Fun)
	if h, ok := x.t.Rets[k]; ok {
		return h, k, true
	}
	return hint{}, "", false
}

// retBase: the base name of the call's results, numbered along the path for SeqHints keys
func (x *tr) retBase(h hint, key string) string {
	if !x.t.SeqHints[key] {
		return h.Var
	}
	n, _ := strconv.Atoi(x.vars[keyOcc+key])
	n++
	x.vars[keyOcc+key] = strconv.Itoa(n)
	return fmt.Sprintf("%s%d", h.Var, n)
}

func (x *tr) ioRecord(a act, args []string) {
	if x.noTrace {
		fail("recorded action inside an inlined function")
	}
	term := fmt.Sprintf("((%d)%%Z, (%s))", a.Tag, listTerm(args, "leaf_arg"))
	if t := x.vars[keyTrace]; t == "" {
		x.vars[keyTrace] = term
	} else {
		x.vars[keyTrace] = t + "\x01" + term
	}
}

// ioBind: a kept value, let-bound where the action happens
func (x *tr) ioBind(v val) string {
	switch {
	case v.typ == "untyped-int":
		return "LZ (" + v.lit + ")%Z"
	case v.typ == "untyped-float":
		return "LF (" + v.lit + ")%float"
	}
	c := v.coq
	if !isConstTerm(c) && c != "true" && c != "false" {
		x.fresh++
		name := fmt.Sprintf("act%d_io", x.fresh)
		x.pending = append(x.pending, "let "+name+" := "+c+" in\n  ")
		c = name
	}
	switch {
	case isInt(v.typ), v.typ == "iface":
		return "LZ " + c
	case v.typ == "float64":
		return "LF " + c
	case v.typ == "bool":
		return "LB " + c
	}
	fail("recorded value of type %s", v.typ)
	return ""
}

// ---- calls with several / opaque results ----

// ioBindCall: record the call (if it is an action) and bind the left-hand sides; returns the lets
func (x *tr) ioBindCall(lhs []ast.Expr, ce *ast.CallExpr, define bool) (string, bool) {
	h, key, ok := x.lookupRet(ce)
	if !ok {
		return "", false
	}
	types := strings.Split(h.Typ, ",")
	if len(types) != len(lhs) {
		return "", false
	}
	if _, isAct := x.lookupAct(ce); isAct {
		x.actCall(ce)
	}
	base := x.retBase(h, key)
	pre := ""
	for i, l := range lhs {
		id, ok := l.(*ast.Ident)
		if !ok {
			fail("assignment to %s", src(x.p.fset, l))
		}
		name := base
		if len(lhs) > 1 {
			name = fmt.Sprintf("%s_%d", base, i)
		}
		if id.Name == "_" {
			continue
		}
		t := types[i]
		if t == "opaque" {
			if old, had := x.vars[id.Name]; !define && had && !strings.HasPrefix(old, "ptr:") {
				fail("assignment of an object to %s", id.Name)
			}
			x.vars[id.Name] = "ptr:?"
			x.alias[id.Name] = name
			continue
		}
		if !isBasic(t) && t != "iface" {
			fail("Rets: result type %s", t)
		}
		if old, had := x.vars[id.Name]; !define && (!had || old != t) {
			fail("assignment of %s to %s", t, id.Name)
		}
		delete(x.alias, id.Name)
		x.vars[id.Name] = t
		pre += "let " + cname(id.Name) + " := " + x.param(name, t).coq + " in\n  "
	}
	// out parameters
	k := 0
	for _, a := range ce.Args {
		u, ok := a.(*ast.UnaryExpr)
		if !ok || u.Op != token.AND {
			continue
		}
		id, ok := u.X.(*ast.Ident)
		if !ok {
			continue
		}
		t, ok := x.vars[id.Name]
		if !ok || !isBasic(t) {
			continue
		}
		name := base + "_out"
		if k > 0 {
			name = fmt.Sprintf("%s_out%d", base, k)
		}
		k++
		pre += "let " + cname(id.Name) + " := " + x.param(name, t).coq + " in\n  "
	}
	return pre, true
}

func (x *tr) nilParamOf(name string) string {
	return x.param(x.resolve(name)+"_nil", "bool").coq
}

// ---- statements ----

func (x *tr) ioStmt(s ast.Stmt, tail []ast.Stmt, rest [][]ast.Stmt) (string, bool) {
	if x.localConst(s) { // every target: `const secondsPerDay = 86400` inside a function body
		return x.exec(tail, rest), true
	}
	if !x.t.IO {
		return "", false
	}
	switch s := s.(type) {
	case *ast.DeferStmt:
		if fl, ok := s.Call.Fun.(*ast.FuncLit); ok {
			if !isRecoverHandler(fl) {
				x.pushDefer(fl.Body.List)
			}
			return x.exec(tail, rest), true
		}
		if _, isAct := x.lookupAct(s.Call); isAct {
			x.pushDefer([]ast.Stmt{&ast.ExprStmt{X: s.Call}})
		}
		return x.exec(tail, rest), true
	case *ast.ReturnStmt:
		return x.ioReturn(s)
	case *ast.AssignStmt:
		return x.ioAssign(s, tail, rest)
	case *ast.DeclStmt:
		gd, ok := s.Decl.(*ast.GenDecl)
		if !ok || gd.Tok != token.VAR || len(gd.Specs) != 1 {
			return "", false
		}
		vs := gd.Specs[0].(*ast.ValueSpec)
		if len(vs.Names) != 1 || len(vs.Values) != 0 || vs.Type == nil {
			return "", false
		}
		switch vs.Type.(type) {
		case *ast.ArrayType, *ast.MapType:
			x.vars[vs.Names[0].Name] = "ptr:?"
			delete(x.alias, vs.Names[0].Name)
			return x.exec(tail, rest), true
		}
	case *ast.RangeStmt:
		if x.loop.is(s) || x.isFrameLoop(s) {
			return "", false
		}
		if x.ioForEach(s) {
			return x.exec(tail, rest), true
		}
	case *ast.SelectStmt:
		return x.ioSelect(s, tail, rest), true
	}
	return "", false
}

// localConst: a constant declaration inside a function body whose values are integer constant
// expressions: the names are usable like package-level constants (a name that is already a package
// constant of another value is untranslatable)
func (x *tr) localConst(s ast.Stmt) bool {
	ds, ok := s.(*ast.DeclStmt)
	if !ok {
		return false
	}
	gd, ok := ds.Decl.(*ast.GenDecl)
	if !ok || gd.Tok != token.CONST {
		return false
	}
	for _, sp := range gd.Specs {
		vs := sp.(*ast.ValueSpec)
		if len(vs.Names) != len(vs.Values) {
			fail("declaration %s", src(x.p.fset, s))
		}
		for i, nm := range vs.Names {
			v, ok := x.p.constEval(vs.Values[i], 0)
			if !ok {
				fail("local constant %s is not an integer constant expression", nm.Name)
			}
			typ := ""
			if vs.Type != nil {
				typ = src(x.p.fset, vs.Type)
			}
			if old, had := x.p.consts[nm.Name]; had && (old.val != v || old.typ != typ) {
				fail("local constant %s differs from a package constant of that name", nm.Name)
			}
			x.p.consts[nm.Name] = constVal{v, typ}
		}
	}
	return true
}

// isRecoverHandler: func() { if r := recover(); r != nil { calls for effect } }
func isRecoverHandler(fl *ast.FuncLit) bool {
	if len(fl.Body.List) != 1 {
		return false
	}
	is, ok := fl.Body.List[0].(*ast.IfStmt)
	if !ok || is.Init == nil || is.Else != nil {
		return false
	}
	as, ok := is.Init.(*ast.AssignStmt)
	if !ok || len(as.Rhs) != 1 {
		return false
	}
	ce, ok := as.Rhs[0].(*ast.CallExpr)
	if !ok {
		return false
	}
	if id, ok := ce.Fun.(*ast.Ident); !ok || id.Name != "recover" {
		return false
	}
	for _, st := range is.Body.List {
		es, ok := st.(*ast.ExprStmt)
		if !ok {
			return false
		}
		if _, ok := es.X.(*ast.CallExpr); !ok {
			return false
		}
	}
	return true
}

func (x *tr) pushDefer(body []ast.Stmt) {
	for _, st := range body {
		bad := false
		ast.Inspect(st, func(n ast.Node) bool {
			if _, ok := n.(*ast.ReturnStmt); ok {
				bad = true
			}
			return !bad
		})
		if bad {
			fail("deferred function with a return statement")
		}
	}
	x.dfrs = append(x.dfrs, body)
	x.vars[keyDefers] += strconv.Itoa(len(x.dfrs)-1) + ","
}

// ioRetVals: the returned values (non-string results), as in the ordinary return, plus: a returned
// multi-result call with a Rets entry, and recorded calls inside a returned string
func (x *tr) ioRetVals(s *ast.ReturnStmt) []string {
	var vs []string
	if len(s.Results) == 0 {
		for i, r := range x.results {
			if x.resTypes[i] != "string" {
				vs = append(vs, cname(r))
			}
		}
		return vs
	}
	if len(s.Results) == 1 && len(x.resTypes) > 1 {
		ce, ok := s.Results[0].(*ast.CallExpr)
		if !ok {
			fail("return arity")
		}
		h, key, ok := x.lookupRet(ce)
		if !ok {
			fail("return %s: no Rets entry", src(x.p.fset, ce))
		}
		types := strings.Split(h.Typ, ",")
		if len(types) != len(x.resTypes) {
			fail("return %s: Rets entry has %d types", src(x.p.fset, ce), len(types))
		}
		if _, isAct := x.lookupAct(ce); isAct {
			x.actCall(ce)
		}
		base := x.retBase(h, key)
		for i, t := range types {
			if x.resTypes[i] == "string" {
				continue
			}
			if t != x.resTypes[i] {
				fail("return %s: result %d is %s, Rets says %s", src(x.p.fset, ce), i, x.resTypes[i], t)
			}
			vs = append(vs, x.param(fmt.Sprintf("%s_%d", base, i), t).coq)
		}
		return vs
	}
	if len(s.Results) != len(x.resTypes) {
		fail("return arity")
	}
	for i, r := range s.Results {
		switch x.resTypes[i] {
		case "string":
			x.stringActs(r)
		case "error":
			vs = append(vs, x.errVal(r))
		case "tokres":
			vs = append(vs, x.tokresVal(r))
		default:
			vs = append(vs, x.coerce(x.expr(r), x.resTypes[i]).coq)
		}
	}
	return vs
}

// stringActs: recorded calls inside an expression that builds a string result (source order, inner first)
func (x *tr) stringActs(e ast.Expr) {
	var calls []*ast.CallExpr
	ast.Inspect(e, func(n ast.Node) bool {
		if ce, ok := n.(*ast.CallExpr); ok {
			if _, isAct := x.lookupAct(ce); isAct {
				calls = append(calls, ce)
			}
		}
		return true
	})
	for i := len(calls) - 1; i >= 0; i-- {
		x.actCall(calls[i])
	}
}

func (x *tr) ioReturn(s *ast.ReturnStmt) (string, bool) {
	if names, ok := x.ioSynth[s]; ok { // the end of the deferred bodies
		return x.retTuple(x.withTrace(x.loopRet(names))), true
	}
	if len(x.t.Fields) > 0 {
		return "", false
	}
	defers := x.vars[keyDefers]
	special := defers != ""
	if len(s.Results) == 1 && len(x.resTypes) > 1 {
		special = true
	}
	for i, r := range s.Results {
		if len(s.Results) == len(x.resTypes) && x.resTypes[i] == "string" && x.containsAct(r) {
			special = true
		}
	}
	if !special {
		return "", false
	}
	vals := x.ioRetVals(s)
	if defers == "" {
		return x.retTuple(x.withTrace(x.loopRet(vals))), true
	}
	pre := ""
	var names []string
	for i, v := range vals {
		n := fmt.Sprintf("ret%d_io", i)
		pre += "let " + n + " := " + v + " in\n  "
		names = append(names, n)
	}
	delete(x.vars, keyDefers)
	var stmts []ast.Stmt
	idx := strings.Split(strings.TrimSuffix(defers, ","), ",")
	for i := len(idx) - 1; i >= 0; i-- {
		k, _ := strconv.Atoi(idx[i])
		stmts = append(stmts, x.dfrs[k]...)
	}
	end := &ast.ReturnStmt{}
	if x.ioSynth == nil {
		x.ioSynth = map[*ast.ReturnStmt][]string{}
	}
	x.ioSynth[end] = names
	stmts = append(stmts, end)
	return pre + x.exec(stmts, nil), true
}

func (x *tr) ioAssign(s *ast.AssignStmt, tail []ast.Stmt, rest [][]ast.Stmt) (string, bool) {
	define := s.Tok == token.DEFINE
	if !define && s.Tok != token.ASSIGN {
		return "", false
	}
	// calls with a Rets entry
	if len(s.Rhs) == 1 {
		if ce, ok := s.Rhs[0].(*ast.CallExpr); ok {
			if len(s.Lhs) == 1 && !define {
				if id, ok := s.Lhs[0].(*ast.Ident); ok && id.Name == "_" {
					if _, isAct := x.lookupAct(ce); isAct { // `_ = f(...)`: recorded, result dropped
						x.actCall(ce)
						return x.exec(tail, rest), true
					}
				}
			}
			if pre, ok := x.ioBindCall(s.Lhs, ce, define); ok {
				saved := x.snapshot()
				body := x.exec(tail, rest)
				if define {
					x.restoreScope(saved)
				}
				return pre + body, true
			}
		}
	}
	// parallel assignment
	if !define && len(s.Lhs) > 1 && len(s.Lhs) == len(s.Rhs) {
		pre, post := "", ""
		x.fresh++
		for i, l := range s.Lhs {
			id, ok := l.(*ast.Ident)
			if !ok {
				fail("assignment to %s", src(x.p.fset, l))
			}
			t, ok := x.vars[id.Name]
			if !ok || !isBasic(t) {
				fail("parallel assignment to %s", id.Name)
			}
			v := x.coerce(x.expr(s.Rhs[i]), t)
			tmp := fmt.Sprintf("par%d_%d", x.fresh, i)
			pre += "let " + tmp + " := " + v.coq + " in\n  "
			post += "let " + cname(id.Name) + " := " + tmp + " in\n  "
		}
		return pre + post + x.exec(tail, rest), true
	}
	if len(s.Lhs) != 1 || len(s.Rhs) != 1 {
		return "", false
	}
	// recorded stores
	if !define {
		if a, ok := x.t.IOStores[src(x.p.fset, s.Lhs[0])]; ok {
			x.ioStore(a, s.Rhs[0])
			return x.exec(tail, rest), true
		}
	}
	id, ok := s.Lhs[0].(*ast.Ident)
	if !ok {
		return "", false
	}
	// slices represented by their length
	if x.isLenSlice(id.Name) {
		ce, ok := s.Rhs[0].(*ast.CallExpr)
		if !ok {
			fail("length-slice %s assigned %s", id.Name, src(x.p.fset, s.Rhs[0]))
		}
		fn := src(x.p.fset, ce.Fun)
		switch {
		case define && fn == "make":
			x.vars[id.Name] = "int"
			return "let " + cname(id.Name) + " := 0%Z in\n  " + x.exec(tail, rest), true
		case !define && fn == "append" && len(ce.Args) == 2 && ce.Ellipsis == token.NoPos && src(x.p.fset, ce.Args[0]) == id.Name && x.vars[id.Name] == "int":
			if _, isAct := x.lookupAct(ce); isAct {
				x.actCall(ce)
			}
			return "let " + cname(id.Name) + " := " + wrap("int", "("+cname(id.Name)+" + 1)%Z") + " in\n  " + x.exec(tail, rest), true
		}
		fail("length-slice %s assigned %s", id.Name, src(x.p.fset, s.Rhs[0]))
	}
	return "", false
}

func (x *tr) isLenSlice(name string) bool {
	for _, n := range x.t.LenSlices {
		if n == name {
			return true
		}
	}
	return false
}

// ioStore: record `lhs = rhs` (action a)
func (x *tr) ioStore(a act, rhs ast.Expr) {
	var args []string
	if cl := compositeOf(rhs); cl != nil && len(x.t.StoreFields) > 0 {
		given := map[string]ast.Expr{}
		for _, el := range cl.Elts {
			kv, ok := el.(*ast.KeyValueExpr)
			if !ok {
				fail("struct literal without field names")
			}
			given[src(x.p.fset, kv.Key)] = kv.Value
		}
		for _, f := range x.t.StoreFields {
			if e, ok := given[f]; ok {
				args = append(args, x.ioBind(x.expr(e)))
				delete(given, f)
			} else {
				args = append(args, "LZ 0%Z")
			}
		}
		if len(given) > 0 {
			for f := range given {
				fail("struct literal sets field %s, not listed in StoreFields", f)
			}
		}
	} else if len(x.t.StoreFields) > 0 {
		fail("StoreFields: %s is not a struct literal", src(x.p.fset, rhs))
	} else if len(a.Keep) > 0 {
		if id, ok := unparen(rhs).(*ast.Ident); ok && id.Name == "nil" {
			args = append(args, "LZ 0%Z")
		} else {
			args = append(args, x.ioBind(x.expr(rhs)))
		}
	}
	x.ioRecord(a, args)
}

// ioForEach: a range loop whose body is made of recorded stores / appends / actions / effect calls
func (x *tr) ioForEach(s *ast.RangeStmt) bool {
	type rec func()
	var todo []rec
	for _, st := range s.Body.List {
		switch st := st.(type) {
		case *ast.ExprStmt:
			t := src(x.p.fset, st.X)
			if isEffectCall(t) || x.isTargetEffect(t) {
				continue
			}
			ce, ok := st.X.(*ast.CallExpr)
			if !ok {
				return false
			}
			if _, isAct := x.lookupAct(ce); !isAct {
				return false
			}
			todo = append(todo, func() { x.actCall(ce) })
		case *ast.AssignStmt:
			if st.Tok != token.ASSIGN || len(st.Lhs) != 1 || len(st.Rhs) != 1 {
				return false
			}
			if _, ok := x.recordedAppend(st); ok {
				as := st
				todo = append(todo, func() { x.appendAct(as) })
				continue
			}
			if a, ok := x.t.IOStores[src(x.p.fset, st.Lhs[0])]; ok {
				rhs := st.Rhs[0]
				todo = append(todo, func() { x.ioStore(a, rhs) })
				continue
			}
			return false
		default:
			return false
		}
	}
	if len(todo) == 0 {
		return false
	}
	for _, f := range todo {
		f()
	}
	return true
}

// ioSelect: a switch on the parameter select_case
func (x *tr) ioSelect(s *ast.SelectStmt, tail []ast.Stmt, rest [][]ast.Stmt) string {
	r := append([][]ast.Stmt{}, rest...)
	r = append(r, tail)
	p := x.param("select_case", "int")
	saved := x.snapshot()
	var arms []string
	for _, cc := range s.Body.List {
		cl := cc.(*ast.CommClause)
		if as, ok := cl.Comm.(*ast.AssignStmt); ok && as.Tok == token.DEFINE {
			for _, l := range as.Lhs {
				if id, ok := l.(*ast.Ident); ok && id.Name != "_" {
					x.vars[id.Name] = "ptr:?"
					delete(x.alias, id.Name)
				}
			}
		}
		arms = append(arms, x.exec(stripBreak(cl.Body), r))
		x.restore(saved)
	}
	if len(arms) == 0 {
		fail("empty select")
	}
	out := arms[len(arms)-1]
	for i := len(arms) - 2; i >= 0; i-- {
		out = fmt.Sprintf("if (%s =? %d)%%Z\n  then (%s)\n  else (%s)", p.coq, i, arms[i], out)
	}
	return out
}

// ---- expressions ----

func (x *tr) ioErrVal(e ast.Expr) (string, bool) {
	if !x.t.IO {
		return "", false
	}
	switch e := unparen(e).(type) {
	case *ast.Ident:
		if e.Name == "nil" {
			return "", false
		}
		if _, listed := x.t.Errs[e.Name]; listed {
			return "", false
		}
		t, ok := x.vars[e.Name]
		switch {
		case !ok:
			return "", false
		case x.isLenSlice(e.Name) && t == "int":
			return cname(e.Name), true
		case t == "error":
			return cname(e.Name), true
		case strings.HasPrefix(t, "ptr:"):
			return "(if " + x.nilParamOf(e.Name) + " then 0%Z else 1%Z)", true
		}
	case *ast.CallExpr:
		fn := src(x.p.fset, e.Fun)
		if c, ok := x.t.Errs[fn]; ok {
			return fmt.Sprintf("%d%%Z", c), true
		}
		if fn == "make" {
			return "1%Z", true
		}
		if h, key, ok := x.lookupRet(e); ok && h.Typ == "opaque" && h.Var != "" { // `return f(...)`, f's error known as <Var>_nil
			if _, isAct := x.lookupAct(e); isAct {
				x.actCall(e)
			}
			return "(if " + x.param(x.retBase(h, key)+"_nil", "bool").coq + " then 0%Z else 1%Z)", true
		}
		if h, key, ok := x.lookupRet(e); ok && h.Typ == "error" {
			if _, isAct := x.lookupAct(e); isAct {
				x.actCall(e)
			}
			return x.param(x.retBase(h, key), "error").coq, true
		}
	}
	return "", false
}

func (x *tr) ioCall(fn string, e *ast.CallExpr) (val, bool) {
	if !x.t.IO {
		return val{}, false
	}
	if fn == "len" && len(e.Args) == 1 {
		if id, ok := e.Args[0].(*ast.Ident); ok && x.isLenSlice(id.Name) && x.vars[id.Name] == "int" {
			return val{coq: cname(id.Name), typ: "int"}, true
		}
	}
	if fn == "len" && len(e.Args) == 1 {
		if id, ok := e.Args[0].(*ast.Ident); ok && x.vars[id.Name] == "ptr:?" {
			if _, aliased := x.alias[id.Name]; aliased { // an opaque result of a Rets call: its length is <name>_len
				return x.param(x.resolve(id.Name)+"_len", "int"), true
			}
		}
	}
	if h, ok := x.t.AbsCalls[fn]; ok && len(e.Args) == 1 {
		a := x.expr(e.Args[0])
		if !isInt(a.typ) && a.typ != "iface" {
			fail("abstract call %s on a value of type %s", fn, a.typ)
		}
		f := x.param(h.Var, "fnz:"+h.Typ)
		return val{coq: "(" + f.coq + " " + a.coq + ")", typ: h.Typ}, true
	}
	return val{}, false
}

// ioField: a field of non-scalar type read through a struct pointer
func (x *tr) ioField(name, ty string) (val, bool) {
	if !x.t.IO {
		return val{}, false
	}
	if strings.HasPrefix(ty, "ext:") { // pkg.Named
		q := strings.TrimPrefix(ty, "ext:")
		if i := strings.Index(q, "."); i > 0 {
			if dir := x.p.importDir(q[:i]); dir != "" {
				y := &tr{p: x.root.pkg(dir)}
				if u := y.underlying(q[i+1:]); isBasic(u) {
					return x.param(name, u), true
				}
			}
		}
	}
	return x.param(name, "iface"), true
}

// ioFieldsModule: the StoreFields lists, for the obligation files
func ioFieldsModule() string {
	var b strings.Builder
	b.WriteString("Module LeafFields.\nImport Coq.Strings.String.\nLocal Open Scope string_scope.\nLocal Open Scope list_scope.\n")
	for _, t := range targets {
		if len(t.StoreFields) == 0 {
			continue
		}
		b.WriteString("Definition " + t.Name + " : list string := ")
		for _, f := range t.StoreFields {
			b.WriteString("\"" + f + "\" :: ")
		}
		b.WriteString("nil.\n")
	}
	b.WriteString("End LeafFields.\n")
	return b.String()
}

// ioCmp: comparisons the fragment has no values for, as boolean parameters that do not depend on the
// locals' names:
//   - `e == pkg.Sentinel` / `e != pkg.Sentinel` with e an opaque result of a Rets call (err == io.EOF):
//     the parameter <result name>_is_<Sentinel>;
//   - a flag test `x&pkg.Flag == pkg.Flag` / `!=` (ev.Op&fsnotify.Rename == fsnotify.Rename): the
//     parameter has_<Flag>.
func (x *tr) ioCmp(e *ast.BinaryExpr) (val, bool) {
	if !x.t.IO || (e.Op != token.EQL && e.Op != token.NEQ) {
		return val{}, false
	}
	neg := func(v val) val {
		if e.Op == token.NEQ {
			return val{coq: "(negb " + v.coq + ")", typ: "bool"}
		}
		return v
	}
	a, b := unparen(e.X), unparen(e.Y)
	if sel, ok := b.(*ast.SelectorExpr); ok {
		if _, isPkg := sel.X.(*ast.Ident); isPkg {
			if id, ok := a.(*ast.Ident); ok && x.vars[id.Name] == "ptr:?" {
				if _, aliased := x.alias[id.Name]; aliased {
					return neg(x.param(x.resolve(id.Name)+"_is_"+sel.Sel.Name, "bool")), true
				}
			}
			if be, ok := a.(*ast.BinaryExpr); ok && be.Op == token.AND && src(x.p.fset, be.Y) == src(x.p.fset, sel) {
				return neg(x.param("has_"+sel.Sel.Name, "bool")), true
			}
		}
	}
	return val{}, false
}
