(* C04 leaf obligations: ONE ITERATION of the rule loop of isolation.checkPass
   (`for _, rule := range rules { ... }`), regenerated from the Go source on every run
   (Gen.Leaf_gen.isolation_checkPass_step, loop-body mode of translator/leaf), is the per-rule
   decision of Model/Isolation.v for ALL gauges, batch counts and thresholds, and iterating the
   regenerated step over the rule list is the model's check_from / check_pass - the function every
   C04 theorem is about.  The gauge read (statNode.CurrentConcurrency()) enters as a parameter. *)
From Coq Require Import ZArith Bool Lia List.
From SG Require Import Base.Prelude Base.GoInt Model.Isolation.
From Gen Require Import Leaf_gen.
#[local] Open Scope Z_scope.
Transparent two32 two63 two64 two31.

(* proof style: one case per comparison of either side, comparisons turned into (in)equalities,
   equal branches by reflexivity, contradictory ones by lia - so that a rewrite of the Go condition
   that keeps its meaning (`!(a <= b)` for `a > b`, an extracted local) still checks *)
Ltac split_ifs :=
  repeat match goal with |- context [if ?c then _ else _] => destruct c eqn:? end.
Ltac bool_facts :=
  repeat match goal with
  | H : negb _ = true |- _ => apply negb_true_iff in H
  | H : negb _ = false |- _ => apply negb_false_iff in H
  | H : andb _ _ = true |- _ => apply andb_true_iff in H; destruct H
  | H : orb _ _ = false |- _ => apply orb_false_iff in H; destruct H
  | H : (_ <? _) = true |- _ => apply Z.ltb_lt in H
  | H : (_ <? _) = false |- _ => apply Z.ltb_ge in H
  | H : (_ <=? _) = true |- _ => apply Z.leb_le in H
  | H : (_ <=? _) = false |- _ => apply Z.leb_gt in H
  | H : (_ =? _) = true |- _ => apply Z.eqb_eq in H
  | H : (_ =? _) = false |- _ => apply Z.eqb_neq in H
  end.
Ltac leaf_cases := split_ifs; bool_facts; first [reflexivity | exfalso; lia].

(* the iteration for a Concurrency rule (MetricType = 0, the only type IsValidRule admits):
   block with (this rule, snapshot) exactly when the model's rule_exceeds holds, otherwise go on
   with curCount = the model's cur_count; the value curCount had before does not matter *)
Lemma isolation_checkPass_step_ok b cur gauge thr : in_u32 b ->
  isolation_checkPass_step b cur gauge 0 thr =
  if rule_exceeds gauge b thr then LReturn (false, 1, cur_count gauge) else LContinue (cur_count gauge).
Proof.
  intros Hb. unfold isolation_checkPass_step, rule_exceeds, cur_count. cbv zeta.
  pose proof (u32_range gauge) as Hc. unfold in_u32, two32 in Hb, Hc.
  repeat rewrite u64_id by (unfold in_u64, two64; lia).
  leaf_cases.
Qed.

(* a rule of another metric type is skipped: nothing is read, nothing changes *)
Lemma isolation_checkPass_step_other b cur gauge mt thr : mt <> 0 ->
  isolation_checkPass_step b cur gauge mt thr = LContinue cur.
Proof.
  intros Hm. unfold isolation_checkPass_step. cbv zeta. leaf_cases.
Qed.

(* a loaded rule is a Concurrency rule: the regenerated IsValidRule accepts no other type *)
Lemma isolation_valid_rule_concurrency mt thr : isolation_IsValidRule mt thr false false = 0 -> mt = 0.
Proof.
  unfold isolation_IsValidRule. split_ifs; bool_facts; first [discriminate | intros _; lia].
Qed.

(* the whole loop = the regenerated step iterated over the rules of the resource (thresholds in
   load order), starting from curCount = cur; `return true, nil, curCount` when the list is
   exhausted.  Result as in the model: None = pass, Some (index of the rule, snapshot). *)
Fixpoint gen_loop (i cur gauge b : Z) (rules : list Z) : option (Z * Z) :=
  match rules with
  | [] => None
  | thr :: rest =>
      match isolation_checkPass_step b cur gauge 0 thr with
      | LReturn (_, _, snap) => Some (i, snap)
      | LContinue c => gen_loop (i + 1) c gauge b rest
      | LBreak _ => None
      end
  end.

Lemma gen_loop_ok rules : forall i cur gauge b, in_u32 b ->
  gen_loop i cur gauge b rules = check_from i gauge b rules.
Proof.
  induction rules as [|thr rest IH]; intros i cur gauge b Hb; [reflexivity|].
  cbn [gen_loop check_from]. rewrite (isolation_checkPass_step_ok b cur gauge thr Hb).
  destruct (rule_exceeds gauge b thr); [reflexivity|]. apply IH; exact Hb.
Qed.

(* checkPass: curCount := 0, then the loop *)
Theorem isolation_checkPass_ok gauge b rules : in_u32 b ->
  gen_loop 0 0 gauge b rules = check_pass gauge b rules.
Proof. intros Hb. unfold check_pass. apply gen_loop_ok; exact Hb. Qed.

(* the parameters are positional: pin their NAMES (the struct fields / reads the Go code uses in
   each position), so that reading another field of the same type in the same place is noticed *)
Section ParamNames.
Import Coq.Strings.String.
Local Open Scope string_scope.
Local Open Scope list_scope.
Lemma isolation_checkPass_step_params : LeafParams.isolation_checkPass_step = "batchCount" :: "curCount_in" :: "gauge" :: "rule_MetricType" :: "rule_Threshold" :: nil.
Proof. reflexivity. Qed.
End ParamNames.

Print Assumptions isolation_checkPass_step_ok.
Print Assumptions isolation_checkPass_step_other.
Print Assumptions isolation_valid_rule_concurrency.
Print Assumptions gen_loop_ok.
Print Assumptions isolation_checkPass_ok.
