// Extensions of the leaf translator first needed by the entry path (C01 / C16: SlotChain.Entry,
// SentinelEntry.Exit, api.entry); all general and reached through one-line hooks in main.go /
// loopbody.go:
//
//   - RefTypes: type texts (e.g. "*TokenResult") whose variables and results are OBJECT REFERENCES:
//     abstract ids of type "iface" (Z, 0 = nil).  `var v *T` starts at 0, `v = w`, `return v`,
//     `return nil`, `v == nil` / `v != nil` (also on an `interface{}` value such as recover()'s) work
//     on the ids, a reference may be loop-carried and may be a kept action argument.  Which object a
//     reference names is part of the result (SlotChain.Entry returns the token result of the slot
//     that blocked, not just "some non-nil result");
//   - RefCalls: a method call `v.M()` / field read `v.f` on a reference variable is the application
//     `(<Var> v)` of the parameter <Var> : Z -> <Typ> (the object's state read through its id); the
//     key is the method / field name, so it does not depend on the local's name;
//   - Stores: an assignment `lhs = rhs` whose left-hand side text is listed is a recorded action
//     (Keep [0] keeps the stored value);
//   - `defer f()` is the recorded action Acts["defer"] (its POSITION in the trace says which
//     statements the deferred function covers); the deferred literal itself is a Lit target;
//   - a hint of type "slice" on the right-hand side of `v := <expr>` declares v as an opaque
//     collection known as <Var>: `len(v)` is the parameter <Var>_len whatever the local is called;
//   - `var v = T{...}` / `v := T{...}` of a struct type is an opaque object (fields through hints);
//   - LoopMarks (whole-function targets): the k-th loop of the function in SOURCE ORDER AT ANY DEPTH
//     (k from 1) is not read; it is recorded in the action trace as action LoopMarks[k] whose
//     arguments are the current values of the outer scalar / reference variables the loop body
//     mentions (alphabetical order), and every such variable the body assigns continues as the
//     parameter loop<k>_out_<i> (i-th assigned variable in alphabetical order).  With a LoopAny step
//     target per loop this regenerates a function with several loops: the frame says what runs
//     between the loops and what goes into / comes out of each, the steps what one iteration does;
//   - LoopAny (with LoopBody: N): the N-th loop in source order at any depth (inside if / else /
//     blocks) as a step function.  There is no prologue: the statements on the way to the loop are
//     only scanned for DECLARATIONS (var, :=) so that the body's variables have types, and every
//     scalar / reference variable so declared enters as the parameter <name>_in - or, with CanonIn,
//     var_in_<i> (i = order of declaration), so that renaming a local neither renames nor moves it.
package main

import (
	"fmt"
	"go/ast"
	"go/token"
	"sort"
	"strings"
)

func (x *tr) isRefType(te ast.Expr) bool {
	if te == nil {
		return false
	}
	s := src(x.p.fset, te)
	for _, r := range x.t.RefTypes {
		if r == s {
			return true
		}
	}
	return false
}

// declRef: `var v *T` with *T a reference type
func (x *tr) declRef(vs *ast.ValueSpec) bool {
	return len(vs.Names) == 1 && len(vs.Values) == 0 && x.isRefType(vs.Type)
}

// refNilTest: `v == nil` / `v != nil` on a reference / interface value
func (x *tr) refNilTest(e *ast.BinaryExpr) (val, bool) {
	if e.Op != token.EQL && e.Op != token.NEQ {
		return val{}, false
	}
	a, b := unparen(e.X), unparen(e.Y)
	if id, ok := a.(*ast.Ident); ok && id.Name == "nil" {
		a, b = b, a
	}
	if nl, ok := b.(*ast.Ident); !ok || nl.Name != "nil" {
		return val{}, false
	}
	id, ok := a.(*ast.Ident)
	if !ok || x.vars[id.Name] != "iface" {
		if _, hinted := x.t.Hints[src(x.p.fset, a)]; !hinted || x.t.Hints[src(x.p.fset, a)].Typ != "iface" {
			return val{}, false
		}
	}
	v := x.expr(a)
	if v.typ != "iface" {
		return val{}, false
	}
	c := "(" + v.coq + " =? 0)%Z"
	if e.Op == token.NEQ {
		c = "(negb " + c + ")"
	}
	return val{coq: c, typ: "bool"}, true
}

// refVal: a returned expression of reference type
func (x *tr) refVal(e ast.Expr) string {
	if id, ok := unparen(e).(*ast.Ident); ok && id.Name == "nil" {
		return "0%Z"
	}
	v := x.expr(e)
	if v.typ != "iface" {
		fail("returned value %s is not a reference", src(x.p.fset, e))
	}
	return v.coq
}

// refCall: `v.M(...)` with v a reference variable and M listed in RefCalls
func (x *tr) refCall(e *ast.CallExpr) (val, bool) {
	se, ok := e.Fun.(*ast.SelectorExpr)
	if !ok || len(x.t.RefCalls) == 0 {
		return val{}, false
	}
	h, ok := x.t.RefCalls[se.Sel.Name]
	if !ok {
		return val{}, false
	}
	id, ok := se.X.(*ast.Ident)
	if !ok || x.vars[id.Name] != "iface" {
		return val{}, false
	}
	if len(e.Args) != 0 {
		fail("reference method %s with arguments", src(x.p.fset, e))
	}
	f := x.param(h.Var, "fnz:"+h.Typ)
	return val{coq: "(" + f.coq + " " + cname(id.Name) + ")", typ: h.Typ}, true
}

// refField: `v.f` with v a reference variable and f listed in RefCalls
func (x *tr) refField(e *ast.SelectorExpr) (val, bool) {
	id, ok := e.X.(*ast.Ident)
	if !ok || x.vars[id.Name] != "iface" || len(x.t.RefCalls) == 0 {
		return val{}, false
	}
	h, ok := x.t.RefCalls[e.Sel.Name]
	if !ok {
		return val{}, false
	}
	f := x.param(h.Var, "fnz:"+h.Typ)
	return val{coq: "(" + f.coq + " " + cname(id.Name) + ")", typ: h.Typ}, true
}

// fnzCoqType: "fnz:bool" -> "(Z -> bool)"
func fnzCoqType(t string) string { return "(Z -> " + coqType(strings.TrimPrefix(t, "fnz:")) + ")" }

func (x *tr) record(a act, args []string) {
	term := fmt.Sprintf("((%d)%%Z, (%s))", a.Tag, listTerm(args, "leaf_arg"))
	if t := x.vars[keyTrace]; t == "" {
		x.vars[keyTrace] = term
	} else {
		x.vars[keyTrace] = t + "\x01" + term
	}
}

// bindArg: a kept value is let-bound where the action happens (the trace is printed at the return point)
func (x *tr) bindArg(v val) string {
	switch {
	case v.typ == "untyped-int":
		return "LZ (" + v.lit + ")%Z"
	case v.typ == "untyped-float":
		return "LF (" + v.lit + ")%float"
	}
	c := v.coq
	if !isConstTerm(c) && c != "true" && c != "false" {
		x.fresh++
		name := fmt.Sprintf("act%d_s", x.fresh)
		x.pending = append(x.pending, "let "+name+" := "+c+" in\n  ")
		c = name
	}
	switch {
	case isInt(v.typ), v.typ == "iface":
		return "LZ " + c
	case v.typ == "float64":
		return "LF " + c
	case v.typ == "bool":
		return "LB " + c
	}
	fail("recorded value of type %s", v.typ)
	return ""
}

// storeAct: `lhs = rhs` with the text of lhs listed in Stores
func (x *tr) storeAct(s *ast.AssignStmt) bool {
	if len(x.t.Stores) == 0 || s.Tok != token.ASSIGN || len(s.Lhs) != 1 || len(s.Rhs) != 1 {
		return false
	}
	a, ok := x.t.Stores[src(x.p.fset, s.Lhs[0])]
	if !ok {
		return false
	}
	if x.noTrace {
		fail("store %s inside an inlined function", src(x.p.fset, s))
	}
	var args []string
	if len(a.Keep) > 0 {
		if id, ok := unparen(s.Rhs[0]).(*ast.Ident); ok && id.Name == "nil" {
			args = append(args, "LZ 0%Z")
		} else {
			args = append(args, x.bindArg(x.expr(s.Rhs[0])))
		}
	}
	x.record(a, args)
	return true
}

// deferAct: `defer f(...)` as the action Acts["defer"]
func (x *tr) deferAct(s *ast.DeferStmt) bool {
	a, ok := x.t.Acts["defer"]
	if !ok {
		return false
	}
	if x.noTrace {
		fail("defer inside an inlined function")
	}
	x.record(a, nil)
	return true
}

// sliceHint: `v := <expr>` with a hint of type "slice"
func (x *tr) sliceHint(s *ast.AssignStmt) bool {
	if s.Tok != token.DEFINE || len(s.Lhs) != 1 || len(s.Rhs) != 1 {
		return false
	}
	id, ok := s.Lhs[0].(*ast.Ident)
	if !ok {
		return false
	}
	h, ok := x.t.Hints[src(x.p.fset, s.Rhs[0])]
	if !ok || h.Typ != "slice" || h.Var == "" {
		return false
	}
	x.vars[id.Name] = "ptr:?"
	x.alias[id.Name] = h.Var
	return true
}

// lenSlice: len(v) of a collection declared through a "slice" hint
func (x *tr) lenSlice(fn string, e *ast.CallExpr) (val, bool) {
	if fn != "len" || len(e.Args) != 1 {
		return val{}, false
	}
	id, ok := e.Args[0].(*ast.Ident)
	if !ok || x.vars[id.Name] != "ptr:?" {
		return val{}, false
	}
	a, ok := x.alias[id.Name]
	if !ok {
		return val{}, false
	}
	return x.param(a+"_len", "int"), true
}

// structLit: `var v = T{...}` / `v := T{...}` with T a struct of the package: an opaque object
func (x *tr) structLitDecl(name string, e ast.Expr) bool {
	cl, ok := e.(*ast.CompositeLit)
	if !ok || cl.Type == nil {
		return false
	}
	id, ok := cl.Type.(*ast.Ident)
	if !ok {
		return false
	}
	if _, isStruct := x.p.structs[id.Name]; !isStruct {
		return false
	}
	x.vars[name] = "ptr:?"
	return true
}

// ---- loops at any depth ----

// loopsOf: the for / range statements of a function body in source order (function literals excluded)
func loopsOf(body *ast.BlockStmt) []ast.Stmt {
	var out []ast.Stmt
	ast.Inspect(body, func(n ast.Node) bool {
		switch n.(type) {
		case *ast.FuncLit:
			return false
		case *ast.ForStmt, *ast.RangeStmt:
			out = append(out, n.(ast.Stmt))
		}
		return true
	})
	return out
}

func loopBodyOf(s ast.Stmt) (*ast.BlockStmt, ast.Stmt) {
	switch s := s.(type) {
	case *ast.ForStmt:
		return s.Body, s.Post
	case *ast.RangeStmt:
		return s.Body, nil
	}
	return nil, nil
}

// markedLoop: index (from 1) of s among the function's loops when the target marks that loop
func (x *tr) markedLoop(s ast.Stmt) int {
	if len(x.t.LoopMarks) == 0 || x.markFn == nil {
		return 0
	}
	for i, l := range loopsOf(x.markFn.Body) {
		if l == s {
			if _, ok := x.t.LoopMarks[i+1]; ok {
				return i + 1
			}
		}
	}
	return 0
}

// identsIn: identifiers mentioned under n (function literals excluded)
func identsIn(n ast.Node, out map[string]bool) {
	if n == nil {
		return
	}
	ast.Inspect(n, func(m ast.Node) bool {
		switch m := m.(type) {
		case *ast.FuncLit:
			return false
		case *ast.SelectorExpr:
			identsIn(m.X, out) // not the field / method name
			return false
		case *ast.Ident:
			out[m.Name] = true
		}
		return true
	})
}

// markLoop: record the loop as an action and continue behind it
func (x *tr) markLoop(k int, s ast.Stmt, tail []ast.Stmt, rest [][]ast.Stmt) string {
	if x.noTrace {
		fail("marked loop inside an inlined function")
	}
	body, post := loopBodyOf(s)
	used, as := map[string]bool{}, map[string]bool{}
	identsIn(body, used)
	identsIn(post, used)
	if fs, ok := s.(*ast.ForStmt); ok {
		identsIn(fs.Cond, used)
	}
	assignedIn(body, as) // loopbody.go
	assignedIn(post, as)
	var names []string
	for n := range used {
		if t, ok := x.vars[n]; ok && (isBasic(t) || t == "iface") {
			names = append(names, n)
		}
	}
	sort.Strings(names)
	var args []string
	for _, n := range names {
		args = append(args, x.bindArg(val{coq: cname(n), typ: x.vars[n]}))
	}
	x.record(x.t.LoopMarks[k], args)
	pre, i := "", 0
	for _, n := range names {
		if as[n] {
			p := x.param(fmt.Sprintf("loop%d_out_%d", k, i), x.vars[n])
			pre += "let " + cname(n) + " := " + p.coq + " in\n  "
			i++
		}
	}
	return pre + x.exec(tail, rest)
}

// findLoopAny: the n-th loop in source order at any depth, and the statements that precede it on
// the way down (each enclosing block's statements before the one that contains the loop)
func findLoopAny(body *ast.BlockStmt, n int) (*loopCtx, []ast.Stmt) {
	ls := loopsOf(body)
	if n < 1 || n > len(ls) {
		fail("LoopBody: the function has no loop number %d", n)
	}
	target := ls[n-1]
	var before []ast.Stmt
	var walk func(list []ast.Stmt) bool
	contains := func(s ast.Stmt) bool {
		found := false
		ast.Inspect(s, func(m ast.Node) bool {
			if m == ast.Node(target) {
				found = true
			}
			return !found
		})
		return found
	}
	walk = func(list []ast.Stmt) bool {
		for i, s := range list {
			if !contains(s) {
				continue
			}
			before = append(before, list[:i]...)
			if s == target {
				return true
			}
			switch s := s.(type) {
			case *ast.BlockStmt:
				return walk(s.List)
			case *ast.IfStmt:
				if s.Init != nil {
					before = append(before, s.Init)
				}
				if contains(s.Body) {
					return walk(s.Body.List)
				}
				if s.Else != nil {
					return walk([]ast.Stmt{s.Else})
				}
			case *ast.ForStmt: // a loop nested in another loop: one iteration of the inner loop, for an
				// arbitrary iteration of the outer one (whose variables are not declared: use hints)
				return walk(s.Body.List)
			case *ast.RangeStmt:
				return walk(s.Body.List)
			case *ast.SelectStmt: // ext_io.go: a loop inside a select clause (the received value is not declared: use hints)
				for _, cc := range s.Body.List {
					if cl := cc.(*ast.CommClause); contains(cl) {
						return walk(cl.Body)
					}
				}
			}
			fail("LoopAny: the loop is nested in a statement other than if / else / block / for")
		}
		return false
	}
	if !walk(body.List) {
		fail("LoopAny: loop not found")
	}
	b, post := loopBodyOf(target)
	l := &loopCtx{stmt: target, body: b, post: post, ctypes: map[string]string{}, breaks: map[*ast.BranchStmt]bool{}}
	l.collectBranches(b, true, true)
	return l, before
}

const keyIn = "\x00in:" // canonical name of the _in parameter of a variable (CanonIn targets)

// inName: the parameter that carries the value a variable has when the iteration starts
func (x *tr) inName(v string) string {
	if n, ok := x.vars[keyIn+v]; ok {
		return n
	}
	return v + "_in"
}

// stepOnly: the loop of a LoopAny target without a prologue: declarations on the way give the
// types, every scalar / reference variable declared there is the parameter <name>_in
func (x *tr) stepOnly(before []ast.Stmt) string {
	pre := ""
	nIn := 0
	declare := func(name, typ string) {
		if name == "_" {
			return
		}
		x.vars[name] = typ
		if isBasic(typ) || typ == "iface" {
			if x.t.CanonIn {
				x.vars[keyIn+name] = fmt.Sprintf("var_in_%d", nIn)
				nIn++
			}
			p := x.param(x.inName(name), typ)
			pre += "let " + cname(name) + " := " + p.coq + " in\n  "
		}
	}
	for _, s := range before {
		switch s := s.(type) {
		case *ast.DeclStmt:
			gd, ok := s.Decl.(*ast.GenDecl)
			if !ok || gd.Tok != token.VAR {
				continue
			}
			for _, sp := range gd.Specs {
				vs := sp.(*ast.ValueSpec)
				for _, nm := range vs.Names {
					switch {
					case x.isRefType(vs.Type):
						declare(nm.Name, "iface")
					case vs.Type != nil && isBasic(x.typeOfExpr(vs.Type)):
						declare(nm.Name, x.typeOfExpr(vs.Type))
					default:
						declare(nm.Name, "ptr:?")
					}
				}
			}
		case *ast.AssignStmt:
			if s.Tok != token.DEFINE || len(s.Lhs) != 1 || len(s.Rhs) != 1 {
				continue
			}
			id, ok := s.Lhs[0].(*ast.Ident)
			if !ok {
				continue
			}
			if h, ok := x.t.Hints[src(x.p.fset, s.Rhs[0])]; ok {
				switch {
				case h.Typ == "slice" && h.Var != "":
					x.vars[id.Name] = "ptr:?"
					x.alias[id.Name] = h.Var
				case isBasic(h.Typ) || h.Typ == "iface":
					declare(id.Name, h.Typ)
				default:
					declare(id.Name, "ptr:?")
				}
				continue
			}
			if ce, ok := s.Rhs[0].(*ast.CallExpr); ok {
				if a, ok := x.lookupAct(ce); ok && (isBasic(a.Ret.Typ) || a.Ret.Typ == "iface") {
					declare(id.Name, a.Ret.Typ)
					continue
				}
			}
			if bl, ok := s.Rhs[0].(*ast.BasicLit); ok && bl.Kind == token.INT { // ext_io.go: `n := 0`
				declare(id.Name, "int")
				continue
			}
			declare(id.Name, "ptr:?")
		}
	}
	if rs, ok := x.loop.stmt.(*ast.RangeStmt); ok {
		if id, ok := rs.Value.(*ast.Ident); ok && id.Name != "_" {
			x.vars[keyRange] = id.Name // <range>.Method action keys (effects.go)
		}
	}
	return pre + x.loopEnter(x.loop.stmt)
}
