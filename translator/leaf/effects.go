// effects.go: translation of functions whose meaning is (also) the sequence of effects they perform
// (atomic stores / adds, CAS attempts, calls of state-transition helpers, listener notification).
//
// A target with a non-empty Acts table gets, as LAST component of its result, the *action trace* of
// the executed path: a `list leaf_act` where `leaf_act = (tag : Z) * list leaf_arg` and the
// arguments kept (Keep) are the call's argument values (LZ / LF / LB).  A function without results
// is translatable when it has an Acts table: its result is the trace alone.  The trace is built
// path-sensitively (the continuation is duplicated into branches, so every return point knows the
// calls executed before it, in order).  An action call that yields a value (a CAS result, the bool
// of fromOpenToHalfOpen) returns the parameter named by Ret.
//
//   - `if A && B` / `if A || B` whose right operand performs an action is executed with Go's
//     short-circuit order (`if A { if B {T} else {E} } else {E}`); an effectful right operand
//     anywhere else is untranslatable;
//   - SeqHints: a hinted expression that is a *read of shared state* (atomic load, getter) may be
//     evaluated several times on one path; its k-th evaluation is the parameter <Var>_<k>;
//   - `for … range …` loops: a body made of action calls is recorded once ("for each"); a body that
//     only accumulates into outer variables is summarised by one parameter per assigned variable
//     (LoopVars: the loop's result enters as a parameter); anything else is untranslatable;
//   - promoted methods of embedded structs are resolved when inlining (b.retryTimeoutArrived() on a
//     *slowRtCircuitBreaker);
//   - `x == nil` / `x != nil` on an opaque variable is the parameter <x>_nil;
//   - `a, b := f()` with an opaque hint {V, "opaque"} for `f()` makes a and b opaque, known as V_0, V_1;
//   - an `interface{}` parameter is an abstract value id (Z);
//   - Lit: the target is a function literal inside the named function (an exit hook, a callback).
//
// Path-sensitive translator state (trace, occurrence counters) lives in x.vars under reserved keys
// (NUL prefix), so the existing snapshot / restore of x.vars at branches covers it.
package main

import (
	"fmt"
	"go/ast"
	"go/token"
	"strconv"
	"strings"
)

type act struct {
	Tag  int   // tag of the action in the trace
	Keep []int // indexes of the call's arguments recorded in the trace
	Ret  hint  // value returned by the call (Var == "": none)
}

const (
	keyTrace = "\x00trace"
	keyOcc   = "\x00occ:"
	keyRange = "\x00range" // value variable of the range loop whose body is being read
)

// preamble of Leaf_gen.v
const effectsPreamble = "Inductive leaf_arg := LZ (z : Z) | LF (f : float) | LB (b : bool).\n" +
	"Definition leaf_act := (Z * list leaf_arg)%type.\n\n"

func (x *tr) hasActs() bool { return len(x.t.Acts) > 0 && !x.noTrace }

func (x *tr) traceTerm() string {
	t := x.vars[keyTrace]
	if t == "" {
		return "(@nil leaf_act)"
	}
	return "(" + strings.ReplaceAll(t, "\x01", " :: ") + " :: nil)%list"
}

// withTrace appends the action trace to the result tuple of a target that has an Acts table
func (x *tr) withTrace(vs []string) []string {
	if len(x.t.Acts) == 0 {
		return vs
	}
	if x.noTrace {
		if x.vars[keyTrace] != "" {
			fail("inlined function performs recorded actions (make it an action of the caller instead)")
		}
		return vs
	}
	return append(append([]string{}, vs...), x.traceTerm())
}

// hintParam: the parameter a hinted expression stands for; numbered per evaluation along the path
// when the key is listed in SeqHints
func (x *tr) hintParam(key string, h hint) val {
	if !x.t.SeqHints[key] {
		return x.param(h.Var, h.Typ)
	}
	if x.noTrace {
		fail("sequenced read %s inside an inlined function", key)
	}
	n, _ := strconv.Atoi(x.vars[keyOcc+key])
	n++
	x.vars[keyOcc+key] = strconv.Itoa(n)
	return x.param(fmt.Sprintf("%s_%d", h.Var, n), h.Typ)
}

func (x *tr) lookupAct(e *ast.CallExpr) (act, bool) {
	if len(x.t.Acts) == 0 {
		return act{}, false
	}
	if a, ok := x.t.Acts[src(x.p.fset, e)]; ok {
		return a, true
	}
	if a, ok := x.t.Acts[src(x.p.fset, e.Fun)]; ok {
		return a, true
	}
	// a call of the value variable of the enclosing range loop itself (a slice of functions): key "<range>"
	if id, ok := e.Fun.(*ast.Ident); ok && id.Name != "" && id.Name == x.vars[keyRange] {
		a, ok := x.t.Acts["<range>"]
		return a, ok
	}
	// a method of the value variable of the enclosing range loop: key "<range>.Method"
	if se, ok := e.Fun.(*ast.SelectorExpr); ok {
		if id, ok := se.X.(*ast.Ident); ok && id.Name != "" && id.Name == x.vars[keyRange] {
			a, ok := x.t.Acts["<range>."+se.Sel.Name]
			return a, ok
		}
	}
	return act{}, false
}

func (x *tr) containsAct(e ast.Expr) bool {
	found := false
	ast.Inspect(e, func(n ast.Node) bool {
		if ce, ok := n.(*ast.CallExpr); ok {
			if _, ok := x.lookupAct(ce); ok {
				found = true
			}
		}
		return !found
	})
	return found
}

// actCall: record an action call in the trace; its value (if any) is the Ret parameter
func (x *tr) actCall(e *ast.CallExpr) (val, bool) {
	a, ok := x.lookupAct(e)
	if !ok {
		return val{}, false
	}
	if x.noTrace {
		fail("action %s inside an inlined function", src(x.p.fset, e))
	}
	var args []string
	for _, i := range a.Keep {
		if i >= len(e.Args) {
			fail("action %s: argument %d missing", src(x.p.fset, e), i)
		}
		var v val
		_, hinted := x.t.Hints[src(x.p.fset, e.Args[i])]
		if id, ok := unparen(e.Args[i]).(*ast.Ident); ok && !hinted && strings.HasPrefix(x.vars[id.Name], "ptr:") {
			// an opaque value (error, pointer) passed on: recorded by its identity
			v = x.param(x.resolve(id.Name)+"_id", "iface")
		} else {
			v = x.expr(e.Args[i])
		}
		if v.coq != "" && !strings.HasPrefix(v.typ, "untyped") && !isConstTerm(v.coq) {
			// bind the value at the call: the trace is printed at the return point, where the
			// argument's variables may have been re-assigned
			x.fresh++
			name := fmt.Sprintf("act%d_%d", x.fresh, i)
			x.pending = append(x.pending, "let "+name+" := "+v.coq+" in\n  ")
			v.coq = name
		}
		switch {
		case v.typ == "untyped-int":
			args = append(args, "LZ ("+v.lit+")%Z")
		case v.typ == "untyped-float":
			args = append(args, "LF ("+v.lit+")%float")
		case isInt(v.typ), v.typ == "iface":
			args = append(args, "LZ "+v.coq)
		case v.typ == "float64":
			args = append(args, "LF "+v.coq)
		case v.typ == "bool":
			args = append(args, "LB "+v.coq)
		default:
			fail("action %s: argument %d of type %s", src(x.p.fset, e), i, v.typ)
		}
	}
	term := fmt.Sprintf("((%d)%%Z, (%s))", a.Tag, listTerm(args, "leaf_arg"))
	if t := x.vars[keyTrace]; t == "" {
		x.vars[keyTrace] = term
	} else {
		x.vars[keyTrace] = t + "\x01" + term
	}
	if a.Ret.Var == "" {
		return val{coq: "tt", typ: "unit"}, true
	}
	return x.param(a.Ret.Var, a.Ret.Typ), true
}

// exec: one statement list.  Bindings requested while the first statement's own expressions were
// evaluated (kept action arguments) are placed in front of the term of that statement; nested
// calls (branches, continuation) handle their own.
func (x *tr) exec(stmts []ast.Stmt, rest [][]ast.Stmt) string {
	outer := x.pending
	x.pending = nil
	out := x.exec1(stmts, rest)
	pre := strings.Join(x.pending, "")
	x.pending = outer
	return pre + out
}

// isConstTerm: "(123)%Z" / "(-1)%Z", the form typed integer constants are printed in
func isConstTerm(s string) bool {
	if !strings.HasPrefix(s, "(") || !strings.HasSuffix(s, ")%Z") {
		return false
	}
	_, err := strconv.ParseInt(s[1:len(s)-3], 10, 64)
	return err == nil
}

func listTerm(xs []string, ty string) string {
	if len(xs) == 0 {
		return "@nil " + ty
	}
	return "(" + strings.Join(xs, " :: ") + " :: nil)%list"
}

func unparen(e ast.Expr) ast.Expr {
	for {
		p, ok := e.(*ast.ParenExpr)
		if !ok {
			return e
		}
		e = p.X
	}
}

// desugarCond: Go's short-circuit order for an if condition whose right operand performs an action
func (x *tr) desugarCond(s *ast.IfStmt) (ast.Stmt, bool) {
	be, ok := unparen(s.Cond).(*ast.BinaryExpr)
	if !ok || (be.Op != token.LAND && be.Op != token.LOR) || !x.containsAct(be.Y) {
		return nil, false
	}
	inner := &ast.IfStmt{Cond: be.Y, Body: s.Body, Else: s.Else}
	if be.Op == token.LAND {
		return &ast.IfStmt{Cond: be.X, Body: &ast.BlockStmt{List: []ast.Stmt{inner}}, Else: s.Else}, true
	}
	return &ast.IfStmt{Cond: be.X, Body: s.Body, Else: &ast.BlockStmt{List: []ast.Stmt{inner}}}, true
}

// opaqueMulti: `a, b := f()` where f() carries an opaque hint
func (x *tr) opaqueMulti(s *ast.AssignStmt) bool {
	if len(s.Lhs) < 2 || len(s.Rhs) != 1 || s.Tok != token.DEFINE {
		return false
	}
	h, ok := x.t.Hints[src(x.p.fset, s.Rhs[0])]
	if !ok || h.Typ != "opaque" {
		return false
	}
	for i, l := range s.Lhs {
		id, ok := l.(*ast.Ident)
		if !ok {
			return false
		}
		if id.Name != "_" {
			x.vars[id.Name] = "ptr:?"
			if h.Var != "" { // parameters derived from it (nil tests) do not depend on the local's name
				x.alias[id.Name] = fmt.Sprintf("%s_%d", h.Var, i)
			}
		}
	}
	return true
}

// nilTest: `v == nil` / `v != nil` on an opaque / pointer variable is the parameter <v>_nil
func (x *tr) nilTest(e *ast.BinaryExpr) (val, bool) {
	if e.Op != token.EQL && e.Op != token.NEQ {
		return val{}, false
	}
	a, b := unparen(e.X), unparen(e.Y)
	if id, ok := a.(*ast.Ident); ok && id.Name == "nil" {
		a, b = b, a
	}
	nl, ok := b.(*ast.Ident)
	if !ok || nl.Name != "nil" {
		return val{}, false
	}
	id, ok := a.(*ast.Ident)
	if !ok {
		return val{}, false
	}
	t, ok := x.vars[id.Name]
	if !ok || !strings.HasPrefix(t, "ptr:") {
		return val{}, false
	}
	p := x.param(x.resolve(id.Name)+"_nil", "bool")
	if e.Op == token.NEQ {
		return val{coq: "(negb " + p.coq + ")", typ: "bool"}, true
	}
	return p, true
}

// execLoop: a `for … range` statement.  Allowed bodies: action calls (recorded once, in order),
// effect calls (skipped), and assignments to outer variables listed in LoopVars (the loop's result
// for that variable enters as the parameter).
func (x *tr) execLoop(s *ast.RangeStmt, tail []ast.Stmt, rest [][]ast.Stmt) string {
	var assigned []string
	seen := map[string]bool{}
	if id, ok := s.Value.(*ast.Ident); ok && id.Name != "_" {
		x.vars[keyRange] = id.Name
	}
	for _, st := range s.Body.List {
		switch st := st.(type) {
		case *ast.ExprStmt:
			if isEffectCall(src(x.p.fset, st.X)) || x.isTargetEffect(src(x.p.fset, st.X)) {
				continue
			}
			if ce, ok := st.X.(*ast.CallExpr); ok {
				if _, ok := x.actCall(ce); ok {
					continue
				}
			}
			fail("loop body statement %s", src(x.p.fset, st))
		case *ast.BranchStmt:
			if st.Tok == token.CONTINUE && st.Label == nil {
				continue // the loop's result is a parameter anyway; break / return would not be
			}
			fail("loop body statement %s", src(x.p.fset, st))
		case *ast.AssignStmt:
			if st.Tok == token.DEFINE {
				if x.containsAct(st.Rhs[0]) {
					fail("loop body statement %s", src(x.p.fset, st))
				}
				continue // a local of the iteration
			}
			if len(st.Lhs) != 1 {
				fail("loop body statement %s", src(x.p.fset, st))
			}
			id, ok := st.Lhs[0].(*ast.Ident)
			if !ok {
				fail("loop body statement %s", src(x.p.fset, st))
			}
			if _, ok := x.vars[id.Name]; !ok {
				fail("loop assigns unknown variable %s", id.Name)
			}
			if _, ok := x.t.LoopVars[id.Name]; !ok {
				fail("loop assigns %s (no LoopVars entry)", id.Name)
			}
			if !seen[id.Name] {
				seen[id.Name] = true
				assigned = append(assigned, id.Name)
			}
		default:
			fail("loop body statement %s", src(x.p.fset, st))
		}
	}
	delete(x.vars, keyRange)
	pre := ""
	for _, n := range assigned {
		h := x.t.LoopVars[n]
		if x.vars[n] != h.Typ {
			fail("loop variable %s has type %s, LoopVars says %s", n, x.vars[n], h.Typ)
		}
		p := x.param(h.Var, h.Typ)
		pre += "let " + cname(n) + " := " + p.coq + " in\n  "
	}
	return pre + x.exec(tail, rest)
}

func (x *tr) isTargetEffect(s string) bool {
	for _, p := range x.t.Effects {
		if strings.HasPrefix(s, p) {
			return true
		}
	}
	return false
}

// promotedMethod: "Outer.m" -> ("Inner.m", decl) when m is declared on an embedded struct of Outer
func (p *pkgInfo) promotedMethod(name string) (string, *ast.FuncDecl) {
	i := strings.Index(name, ".")
	if i < 0 {
		return name, nil
	}
	sn, m := name[:i], name[i+1:]
	for depth := 0; depth < 4; depth++ {
		fs, ok := p.structs[sn]
		if !ok {
			return name, nil
		}
		next := ""
		for fname, te := range fs {
			if fname != recvTypeName(te) {
				continue
			}
			if _, isStruct := p.structs[fname]; !isStruct {
				continue
			}
			if d := p.funcs[fname+"."+m]; d != nil {
				return fname + "." + m, d
			}
			next = fname
		}
		if next == "" {
			return name, nil
		}
		sn = next
	}
	return name, nil
}

// litDecl: the n-th function literal (source order) inside fd, as a declaration; its parameters are
// added to the variables (the enclosing function's receiver and parameters are already there)
func litDecl(fd *ast.FuncDecl, n int, addVar func(string, ast.Expr)) *ast.FuncDecl {
	var lit *ast.FuncLit
	k := 0
	ast.Inspect(fd.Body, func(nd ast.Node) bool {
		if l, ok := nd.(*ast.FuncLit); ok && lit == nil {
			k++
			if k == n {
				lit = l
			}
		}
		return lit == nil
	})
	if lit == nil {
		fail("function literal %d not found", n)
	}
	for _, f := range lit.Type.Params.List {
		for _, nm := range f.Names {
			addVar(nm.Name, f.Type)
		}
	}
	return &ast.FuncDecl{Name: fd.Name, Type: lit.Type, Body: lit.Body}
}
