(* C11 leaf obligation: MemoryAdaptiveTrafficShapingCalculator.CalculateAllowedTokens regenerated
   from the Go source (Gen.Leaf_gen) is, for ALL configurations and memory readings, the function
   [mem_allowed] of Model/Adaptive.v that the C11 memory-adaptive theorems are about. *)
From Coq Require Import ZArith Bool Lia Floats.
From SG Require Import Base.Prelude Base.GoInt Base.GoFloat Model.Adaptive.
From Gen Require Import Leaf_gen.
#[local] Open Scope Z_scope.

Lemma memoryAdaptive_CalculateAllowedTokens_ok m mem :
  memoryAdaptive_CalculateAllowedTokens (highT m) (lowT m) (highW m) (lowW m) mem = mem_allowed m mem.
Proof.
  unfold memoryAdaptive_CalculateAllowedTokens, mem_allowed, mem_interp, not_retrieved.
  rewrite Z.geb_leb.
  destruct (mem =? -1); [reflexivity|].
  destruct (mem <=? lowW m); [reflexivity|].
  destruct (highW m <=? mem); reflexivity.
Qed.

Print Assumptions memoryAdaptive_CalculateAllowedTokens_ok.
