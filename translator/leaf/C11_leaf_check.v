(* C11 leaf obligation: MemoryAdaptiveTrafficShapingCalculator.CalculateAllowedTokens regenerated
   from the Go source (Gen.Leaf_gen) is, for ALL configurations and memory readings, the function
   [mem_allowed] of Model/Adaptive.v that the C11 memory-adaptive theorems are about. *)
From Coq Require Import ZArith Bool Lia Floats.
From SG Require Import Base.Prelude Base.GoInt Base.GoFloat Model.Adaptive.
From Gen Require Import Leaf_gen.
#[local] Open Scope Z_scope.

Lemma memoryAdaptive_CalculateAllowedTokens_ok m mem :
  memoryAdaptive_CalculateAllowedTokens (highT m) (lowT m) (highW m) (lowW m) mem = mem_allowed m mem.
Proof.
  unfold memoryAdaptive_CalculateAllowedTokens, mem_allowed, mem_interp, not_retrieved.
  rewrite Z.geb_leb.
  destruct (mem =? -1); [reflexivity|].
  destruct (mem <=? lowW m); [reflexivity|].
  destruct (highW m <=? mem); reflexivity.
Qed.

Print Assumptions memoryAdaptive_CalculateAllowedTokens_ok.

(* ------------------------------------------------------------------------------------------ *)
(* Warm-up calculator (core/flow/tc_warm_up.go), regenerated on every run:
     warmup_New                     NewWarmUpTrafficShapingCalculator: the fields of the struct it
                                    builds (threshold, period, cold factor after defaulting,
                                    warningToken, maxToken, slope, storedTokens, lastFilledTime)
     warmup_CalculateAllowedTokens  the allowed-token curve; the call of syncToken is action 10 with
                                    the previous-window QPS, the bucket is loaded after it (`stored`)
     warmup_coolDownTokens          the refill arithmetic (atomic loads enter as stored / last_filled)
     warmup_syncToken               once per aligned second: CAS (1, [old; new]), Add (2, [delta],
                                    result `added`), Store of the bucket (3, [v]), Store of the fill
                                    time (4, [v]) in program order; coolDownTokens inlined
   Each is, for ALL inputs, the function of Model/WarmUp.v the C11 warm-up theorems are about. *)
From Coq Require Import List.
From SG Require Import Model.WarmUp.
Import ListNotations.

(* case analysis on every comparison that occurs in the goal (each is destructed once, wherever it
   occurs, so re-associated / negated / reordered tests on the Go side reach the same leaves);
   leaves with contradictory integer tests are closed by lia *)
Ltac bool_hyps :=
  repeat match goal with
         | H : negb _ = true |- _ => apply negb_true_iff in H
         | H : negb _ = false |- _ => apply negb_false_iff in H
         | H : (_ >=? _) = _ |- _ => rewrite Z.geb_leb in H
         | H : (_ >? _) = _ |- _ => rewrite Z.gtb_ltb in H
         | H : (_ <? _) = true |- _ => apply Z.ltb_lt in H
         | H : (_ <? _) = false |- _ => apply Z.ltb_ge in H
         | H : (_ <=? _) = true |- _ => apply Z.leb_le in H
         | H : (_ <=? _) = false |- _ => apply Z.leb_gt in H
         | H : (_ =? _) = true |- _ => apply Z.eqb_eq in H
         | H : (_ =? _) = false |- _ => apply Z.eqb_neq in H
         end.
(* destruct a comparison everywhere: in the goal and in the equations recorded so far *)
Ltac dcmp c :=
  let H := fresh "Hc" in
  destruct c eqn:H;
  repeat match goal with
         | H' : context [c] |- _ => lazymatch H' with H => fail | _ => rewrite H in H'; cbv iota in H' end
         end.
(* x <= y and y <= x: the two are equal (a test written with < or with <= on a tie) *)
Ltac derive_eqs :=
  repeat match goal with
         | H1 : ?a <= ?b, H2 : ?b <= ?a |- _ =>
             let E := fresh "E" in assert (E : a = b) by lia; clear H1 H2; try rewrite E in *
         end.
(* innermost first: a comparison whose operands still contain a conditional is left for later *)
Ltac no_if t := lazymatch t with context [if _ then _ else _] => fail | _ => idtac end.
Ltac split_cmp :=
  rewrite ?Z.geb_leb, ?Z.gtb_ltb;
  repeat (match goal with
          | |- context [PrimFloat.leb ?a ?b] => no_if a; no_if b; dcmp (PrimFloat.leb a b)
          | |- context [PrimFloat.ltb ?a ?b] => no_if a; no_if b; dcmp (PrimFloat.ltb a b)
          | |- context [PrimFloat.eqb ?a ?b] => no_if a; no_if b; dcmp (PrimFloat.eqb a b)
          | |- context [Z.ltb ?a ?b] => no_if a; no_if b; dcmp (Z.ltb a b)
          | |- context [Z.leb ?a ?b] => no_if a; no_if b; dcmp (Z.leb a b)
          | |- context [Z.eqb ?a ?b] => no_if a; no_if b; dcmp (Z.eqb a b)
          | |- context [if ?c then _ else _] => no_if c; dcmp c
          end; cbn [orb andb negb]);
  try reflexivity; try discriminate;
  try (bool_hyps; derive_eqs; first [reflexivity | exfalso; lia | repeat f_equal; lia]).

(* math.Nextafter(x, math.MaxFloat64) of the translator's preamble is the model's *)
Lemma leaf_nextafter_max_ok x : leaf_nextafter_max x = go_nextafter_max x.
Proof. reflexivity. Qed.

(* constructor: every field of the struct it builds is the model's configuration *)
Theorem warmup_New_ok T period cf0 :
  warmup_New T cf0 period
  = let c := mk_wcfg T period cf0 in
    (w_thr c, w_period c, w_cf c, w_warning c, w_max c, w_slope c, 0, 0).
Proof.
  unfold warmup_New, mk_wcfg, default_cold_factor. cbv zeta.
  cbn [w_thr w_period w_cf w_warning w_max w_slope].
  split_cmp.
Qed.

(* CalculateAllowedTokens: syncToken(previous QPS), then the curve on the loaded bucket *)
Theorem warmup_CalculateAllowedTokens_ok c qps tokens :
  warmup_CalculateAllowedTokens (w_slope c) (w_thr c) (w_warning c) qps tokens
  = (allowed_of c tokens, [(10, [LF qps])]).
Proof.
  unfold warmup_CalculateAllowedTokens, allowed_of, wi. rewrite !leaf_nextafter_max_ok. cbv zeta.
  split_cmp.
Qed.

(* ... which is the model's calc when the QPS is the previous window's and the bucket is the one
   syncToken leaves *)
Corollary warmup_CalculateAllowedTokens_calc c st now :
  let q := prev_qps (passes st) now in
  warmup_CalculateAllowedTokens (w_slope c) (w_thr c) (w_warning c) q (stored (sync_token c st now q))
  = (snd (calc c st now), [(10, [LF q])]).
Proof. cbv zeta. rewrite warmup_CalculateAllowedTokens_ok. reflexivity. Qed.

(* coolDownTokens *)
Theorem warmup_coolDownTokens_ok c st cur qps :
  warmup_coolDownTokens (w_cf c) (w_max c) (w_thr c) (w_warning c) cur (last_filled st) qps (stored st)
  = cool_down c st cur qps.
Proof.
  unfold warmup_coolDownTokens, cool_down, wi, mi. cbv zeta.
  split_cmp.
Qed.

(* syncToken: the recorded atomic operations, replayed in order on (storedTokens, lastFilledTime) *)
Definition apply_act (s : Z * Z) (a : leaf_act) : Z * Z :=
  match a with
  | (1, [LZ old; LZ new]) => if fst s =? old then (new, snd s) else s   (* CompareAndSwapInt64(&storedTokens) *)
  | (2, [LZ d]) => (i64 (fst s + d), snd s)                              (* AddInt64(&storedTokens) *)
  | (3, [LZ v]) => (v, snd s)                                            (* StoreInt64(&storedTokens) *)
  | (4, [LZ v]) => (fst s, v)                                            (* StoreUint64(&lastFilledTime) *)
  | _ => s
  end.

(* the time is a uint64; in a sequential run the CAS succeeds and the Add returns the value it
   leaves in the bucket *)
Theorem warmup_syncToken_ok c st now qps : in_u64 now ->
  let cur := now - now mod 1000 in
  let added := i64 (cool_down c st cur qps + go_i64_of_f (- qps)%float) in
  let tr := warmup_syncToken added (w_cf c) (w_max c) (w_thr c) (w_warning c) true (last_filled st) now qps (stored st) in
  let st' := sync_token c st now qps in
  fold_left apply_act tr (stored st, last_filled st) = (stored st', last_filled st').
Proof.
  intros Hn. cbv zeta.
  assert (Hc : u64 (now - now mod 1000) = now - now mod 1000).
  { apply u64_id. unfold in_u64 in *. pose proof (Z.mod_pos_bound now 1000 ltac:(lia)).
    pose proof (Z.mod_le now 1000 ltac:(lia) ltac:(lia)). lia. }
  unfold warmup_syncToken, sync_token. cbv zeta. rewrite Hc.
  (* the inlined coolDownTokens is cool_down *)
  pose proof (warmup_coolDownTokens_ok c st (now - now mod 1000) qps) as Hcd.
  unfold warmup_coolDownTokens in Hcd. cbv zeta in Hcd. rewrite ?Hcd. clear Hcd.
  set (nv := cool_down c st (now - now mod 1000) qps).
  rewrite ?Z.geb_leb, ?Z.gtb_ltb.
  repeat (match goal with
          | |- context [Z.ltb ?a ?b] => no_if a; no_if b; dcmp (Z.ltb a b)
          | |- context [Z.leb ?a ?b] => no_if a; no_if b; dcmp (Z.leb a b)
          | |- context [if ?c then _ else _] => no_if c; dcmp c
          end; cbn [orb andb negb]);
    cbn [fold_left apply_act fst snd]; rewrite ?Z.eqb_refl; cbn [fst snd];
    try reflexivity; try (bool_hyps; derive_eqs; first [reflexivity | exfalso; lia | repeat f_equal; lia]).
Qed.

(* the second time in the same aligned second nothing is touched *)
Theorem warmup_syncToken_not_due c st now qps added cas_ok : in_u64 now ->
  (now - now mod 1000 <=? last_filled st) = true ->
  warmup_syncToken added (w_cf c) (w_max c) (w_thr c) (w_warning c) cas_ok (last_filled st) now qps (stored st) = [].
Proof.
  intros Hn H. unfold warmup_syncToken. cbv zeta.
  assert (Hc : u64 (now - now mod 1000) = now - now mod 1000).
  { apply u64_id. unfold in_u64 in *. pose proof (Z.mod_pos_bound now 1000 ltac:(lia)).
    pose proof (Z.mod_le now 1000 ltac:(lia) ltac:(lia)). lia. }
  rewrite Hc. apply Z.leb_le in H.
  repeat (match goal with
          | |- context [Z.leb (now - now mod 1000) (last_filled st)] => dcmp (Z.leb (now - now mod 1000) (last_filled st))
          | |- context [Z.ltb (last_filled st) (now - now mod 1000)] => dcmp (Z.ltb (last_filled st) (now - now mod 1000))
          end; cbn [negb]);
    try reflexivity; exfalso; bool_hyps; lia.
Qed.

Print Assumptions warmup_New_ok.
Print Assumptions warmup_CalculateAllowedTokens_ok.
Print Assumptions warmup_CalculateAllowedTokens_calc.
Print Assumptions warmup_coolDownTokens_ok.
Print Assumptions warmup_syncToken_ok.
Print Assumptions warmup_syncToken_not_due.
