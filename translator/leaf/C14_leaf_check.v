(* C14 (and C13) leaf obligations: the functions that decide, on a reload, whether an old
   controller is kept (rule equality) and whether its statistics are kept (statistic reuse),
   regenerated from the Go source on every run (Gen.Leaf_gen), are the [*_equal] /
   [*_stat_reusable] functions of Model/Rules.v for ALL pairs of rules.  Strings are ids in the
   model, so string equality is id equality. *)
From Coq Require Import ZArith Bool Lia Floats.
From SG Require Import Base.Prelude Base.GoInt Base.GoFloat Model.Rules.
From Gen Require Import Leaf_gen.
#[local] Open Scope Z_scope.

Ltac bools :=
  repeat match goal with
         | |- context [(?a =? ?b)%Z] => destruct (a =? b)%Z
         | |- context [float64_equals ?a ?b] => destruct (float64_equals a b)
         end; try reflexivity.

Lemma flow_isEqualsTo_ok o n :
  flow_isEqualsTo (f_cb n) (f_highmem n) (f_lowmem n) (f_maxq n) (f_memhigh n) (f_memlow n) (f_rel n) (f_interval n)
    (f_thr n) (f_tcs n) (f_wcold n) (f_wperiod n) false
    (f_cb o) (f_highmem o) (f_lowmem o) (f_maxq o) (f_memhigh o) (f_memlow o) (f_rel o) (f_interval o)
    (f_thr o) (f_tcs o) (f_wcold o) (f_wperiod o) (f_ref o =? f_ref n) (f_res o =? f_res n)
  = flow_equal o n.
Proof.
  unfold flow_isEqualsTo, flow_equal. cbv iota.
  match goal with |- (if negb ?X then false else true) = _ => destruct X eqn:E end; reflexivity.
Qed.

Lemma flow_isStatReusable_ok o n :
  flow_isStatReusable (f_cb n) (f_rel n) (f_interval n) (f_tcs n) false
    (f_cb o) (f_rel o) (f_interval o) (f_tcs o) (f_ref o =? f_ref n) (f_res o =? f_res n)
  = flow_stat_reusable o n.
Proof. unfold flow_isStatReusable, flow_stat_reusable, flow_need_stat. bools. Qed.

Lemma circuitbreaker_isEqualsTo_ok o n :
  circuitbreaker_isEqualsTo (b_maxrt n) (b_minreq n) (b_probe n) (b_retry n) (b_interval n) (b_buckets n) (b_strategy n) (b_thr n) false
    (b_maxrt o) (b_minreq o) (b_probe o) (b_retry o) (b_interval o) (b_buckets o) (b_strategy o) (b_thr o) (b_res o =? b_res n)
  = brk_equal o n.
Proof.
  unfold circuitbreaker_isEqualsTo, brk_equal. cbv iota.
  match goal with |- (if negb ?X then _ else _) = _ => destruct X eqn:E end; cbn [negb andb]; [|reflexivity].
  destruct (b_strategy n =? 0); [reflexivity|]. destruct (b_strategy n =? 1); [reflexivity|].
  destruct (b_strategy n =? 2); reflexivity.
Qed.

Lemma circuitbreaker_isStatReusable_ok o n :
  circuitbreaker_isStatReusable (b_interval n) (b_buckets n) (b_strategy n) false
    (b_interval o) (b_buckets o) (b_strategy o) (b_res o =? b_res n)
  = brk_stat_reusable o n.
Proof. unfold circuitbreaker_isStatReusable, brk_stat_reusable. bools. Qed.

Lemma hotspot_Equals_ok o n :
  hotspot_Equals (h_burst n) (h_cb n) (h_dur n) (h_maxq n) (h_metric n) (h_pidx n) (h_cap n) (h_thr n) (h_pkey o =? h_pkey n)
    (h_burst o) (h_cb o) (h_dur o) (h_maxq o) (h_metric o) (h_pidx o) (h_cap o) (h_thr o) (h_res o =? h_res n)
    (items_eqb (h_items o) (h_items n))
  = hot_equal o n.
Proof. unfold hotspot_Equals, hot_equal. destruct (items_eqb (h_items o) (h_items n)); bools. Qed.

Lemma hotspot_IsStatReusable_ok o n :
  hotspot_IsStatReusable (h_cb n) (h_dur n) (h_metric n) (h_cap n) (h_cb o) (h_dur o) (h_metric o) (h_cap o) (h_res o =? h_res n)
  = hot_stat_reusable o n.
Proof. unfold hotspot_IsStatReusable, hot_stat_reusable. bools. Qed.

Print Assumptions flow_isEqualsTo_ok.
Print Assumptions flow_isStatReusable_ok.
Print Assumptions circuitbreaker_isEqualsTo_ok.
Print Assumptions circuitbreaker_isStatReusable_ok.
Print Assumptions hotspot_Equals_ok.
Print Assumptions hotspot_IsStatReusable_ok.
