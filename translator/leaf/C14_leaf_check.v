(* C14 (and C13) leaf obligations: the functions that decide, on a reload, whether an old
   controller is kept (rule equality) and whether its statistics are kept (statistic reuse),
   regenerated from the Go source on every run (Gen.Leaf_gen), are the [*_equal] /
   [*_stat_reusable] functions of Model/Rules.v for ALL pairs of rules.  Strings are ids in the
   model, so string equality is id equality. *)
From Coq Require Import ZArith Bool Lia Floats.
From SG Require Import Base.Prelude Base.GoInt Base.GoFloat Model.Rules.
From Gen Require Import Leaf_gen.
#[local] Open Scope Z_scope.

(* ---- one shape-independent script for every "regenerated decision = model decision" lemma of this file ----
   [leaf_decide]: case-split on the condition of every if-then-else of the goal (outermost first, so that
   guarded sub-terms are only visited on the paths that reach them), then in every leaf: evaluate; if the
   two sides still differ the path must be contradictory - break the recorded conditions into their atoms
   (andb / orb / negb), use them to rewrite what is left of the goal, split the remaining atoms, and close
   with reflexivity / lia (integer atoms) / congruence (the same float atom with two truth values).
   Nothing here depends on the order or nesting of the tests in the generated term. *)
Ltac split_ifs :=
  repeat match goal with
         | |- context [if ?c then _ else _] => destruct c eqn:?
         end.
Ltac norm_hyps :=
  repeat match goal with
         | H : negb _ = true |- _ => apply Bool.negb_true_iff in H
         | H : negb _ = false |- _ => apply Bool.negb_false_iff in H
         | H : andb _ _ = true |- _ => apply Bool.andb_true_iff in H; destruct H
         | H : orb _ _ = false |- _ => apply Bool.orb_false_iff in H; destruct H
         | H : andb _ _ = false |- _ => apply Bool.andb_false_iff in H; destruct H
         | H : orb _ _ = true |- _ => apply Bool.orb_true_iff in H; destruct H
         | H : true = false |- _ => discriminate H
         | H : false = true |- _ => discriminate H
         end.
Ltac split_hyp_ifs :=
  repeat match goal with
         | H : context [if ?c then _ else _] |- _ => destruct c eqn:?
         end.
Ltac use_hyps :=
  repeat match goal with
         | H : ?a = true |- context [?a] => rewrite H
         | H : ?a = false |- context [?a] => rewrite H
         end.
Ltac split_atoms :=
  repeat match goal with
         | |- context [Z.eqb ?a ?b] => destruct (Z.eqb a b) eqn:?
         | |- context [Z.ltb ?a ?b] => destruct (Z.ltb a b) eqn:?
         | |- context [Z.leb ?a ?b] => destruct (Z.leb a b) eqn:?
         | |- context [PrimFloat.ltb ?a ?b] => destruct (PrimFloat.ltb a b) eqn:?
         | |- context [PrimFloat.leb ?a ?b] => destruct (PrimFloat.leb a b) eqn:?
         | |- context [PrimFloat.eqb ?a ?b] => destruct (PrimFloat.eqb a b) eqn:?
         | |- context [float64_equals ?a ?b] => destruct (float64_equals a b) eqn:?
         | |- context [items_eqb ?a ?b] => destruct (items_eqb a b) eqn:?
         end.
Ltac z_facts :=
  repeat match goal with
         | H : Z.eqb _ _ = true |- _ => apply Z.eqb_eq in H
         | H : Z.eqb _ _ = false |- _ => apply Z.eqb_neq in H
         | H : Z.ltb _ _ = true |- _ => apply Z.ltb_lt in H
         | H : Z.ltb _ _ = false |- _ => apply Z.ltb_ge in H
         | H : Z.leb _ _ = true |- _ => apply Z.leb_le in H
         | H : Z.leb _ _ = false |- _ => apply Z.leb_gt in H
         end.
Ltac leaf_close := first [ reflexivity | congruence | (exfalso; z_facts; lia) | (z_facts; lia) ].
Ltac leaf_decide :=
  cbv zeta; split_ifs;
  first [ reflexivity
        | repeat (progress (norm_hyps; split_hyp_ifs)); use_hyps; cbn [andb orb negb];
          first [ leaf_close | split_atoms; cbn [andb orb negb]; leaf_close ] ].

Lemma flow_isEqualsTo_ok o n :
  flow_isEqualsTo (f_cb n) (f_highmem n) (f_lowmem n) (f_maxq n) (f_memhigh n) (f_memlow n) (f_rel n) (f_interval n)
    (f_thr n) (f_tcs n) (f_wcold n) (f_wperiod n) false
    (f_cb o) (f_highmem o) (f_lowmem o) (f_maxq o) (f_memhigh o) (f_memlow o) (f_rel o) (f_interval o)
    (f_thr o) (f_tcs o) (f_wcold o) (f_wperiod o) (f_ref o =? f_ref n) (f_res o =? f_res n)
  = flow_equal o n.
Proof. unfold flow_isEqualsTo, flow_equal. leaf_decide. Qed.

Lemma flow_isStatReusable_ok o n :
  flow_isStatReusable (f_cb n) (f_rel n) (f_interval n) (f_tcs n) false
    (f_cb o) (f_rel o) (f_interval o) (f_tcs o) (f_ref o =? f_ref n) (f_res o =? f_res n)
  = flow_stat_reusable o n.
Proof. unfold flow_isStatReusable, flow_stat_reusable, flow_need_stat. leaf_decide. Qed.

Lemma circuitbreaker_isEqualsTo_ok o n :
  circuitbreaker_isEqualsTo (b_maxrt n) (b_minreq n) (b_probe n) (b_retry n) (b_interval n) (b_buckets n) (b_strategy n) (b_thr n) false
    (b_maxrt o) (b_minreq o) (b_probe o) (b_retry o) (b_interval o) (b_buckets o) (b_strategy o) (b_thr o) (b_res o =? b_res n)
  = brk_equal o n.
Proof. unfold circuitbreaker_isEqualsTo, brk_equal. leaf_decide. Qed.

Lemma circuitbreaker_isStatReusable_ok o n :
  circuitbreaker_isStatReusable (b_interval n) (b_buckets n) (b_strategy n) false
    (b_interval o) (b_buckets o) (b_strategy o) (b_res o =? b_res n)
  = brk_stat_reusable o n.
Proof. unfold circuitbreaker_isStatReusable, brk_stat_reusable. leaf_decide. Qed.

Lemma hotspot_Equals_ok o n :
  hotspot_Equals (h_burst n) (h_cb n) (h_dur n) (h_maxq n) (h_metric n) (h_pidx n) (h_cap n) (h_thr n) (h_pkey o =? h_pkey n)
    (h_burst o) (h_cb o) (h_dur o) (h_maxq o) (h_metric o) (h_pidx o) (h_cap o) (h_thr o) (h_res o =? h_res n)
    (items_eqb (h_items o) (h_items n))
  = hot_equal o n.
Proof. unfold hotspot_Equals, hot_equal. leaf_decide. Qed.

Lemma hotspot_IsStatReusable_ok o n :
  hotspot_IsStatReusable (h_cb n) (h_dur n) (h_metric n) (h_cap n) (h_cb o) (h_dur o) (h_metric o) (h_cap o) (h_res o =? h_res n)
  = hot_stat_reusable o n.
Proof. unfold hotspot_IsStatReusable, hot_stat_reusable. leaf_decide. Qed.

Print Assumptions flow_isEqualsTo_ok.
Print Assumptions flow_isStatReusable_ok.
Print Assumptions circuitbreaker_isEqualsTo_ok.
Print Assumptions circuitbreaker_isStatReusable_ok.
Print Assumptions hotspot_Equals_ok.
Print Assumptions hotspot_IsStatReusable_ok.

(* ---- Round 3: the loop of calculateReuseIndexFor (flow, hotspot, circuit breaker), one iteration ----
   Gen.*_calcReuse_step is ONE iteration of `for idx, oldTc := range oldResTcs` for an arbitrary old
   controller: `equal` / `reusable` are old.isEqualsTo(r) / old.isStatReusable(r) (regenerated and proved
   above), the carried pair is (equalIdx, reuseStatIdx) with -1 = none.  It is the step of the model's
   [calc_reuse] (Model/Rules.v), and [calc_reuse] is that step iterated over the old list. *)
Definition ridx (o : option nat) : Z := match o with Some i => Z.of_nat i | None => -1 end.

(* the model's step on the head `o` of the old list at index idx, search state `reuse` *)
Definition calc_reuse_step {rule} (equal stat_reusable : rule -> rule -> bool) (r : rule) (o : ctrl rule) (idx : nat) (reuse : option nat)
  : option nat + option nat :=   (* inl = equal rule found at idx (break), inr = go on with this reuse index *)
  if equal (c_rule o) r then inl reuse
  else if negb (stat_reusable (c_rule o) r) then inr reuse
  else match reuse with Some _ => inr reuse | None => inr (Some idx) end.

Lemma calc_reuse_unfold {rule} (equal sr : rule -> rule -> bool) r o rest idx reuse :
  calc_reuse rule equal sr r (o :: rest) idx reuse =
  match calc_reuse_step equal sr r o idx reuse with
  | inl ru => (Some idx, ru)
  | inr ru => calc_reuse rule equal sr r rest (S idx) ru
  end.
Proof. unfold calc_reuse_step. cbn [calc_reuse]. destruct (equal (c_rule o) r); [reflexivity|].
  destruct (negb (sr (c_rule o) r)); [reflexivity|]. destruct reuse; reflexivity. Qed.

Definition flow_of_step (idx : nat) (s : option nat + option nat) : leaf_flow (Z * Z) (Z * Z) :=
  match s with
  | inl ru => LBreak (Z.of_nat idx, ridx ru)
  | inr ru => LContinue (-1, ridx ru)
  end.

Ltac reuse_step :=
  intros; unfold calc_reuse_step, flow_of_step; cbv zeta;
  repeat match goal with
         | |- context [match ?x with Some _ => _ | None => _ end] => destruct x eqn:?
         end;
  cbn [ridx]; split_ifs; cbn [ridx negb] in *;
  first [ reflexivity | discriminate | (exfalso; norm_hyps; z_facts; first [ lia | congruence ]) ].

(* while the search goes on no equal rule has been seen: equalIdx_in = -1 *)
Lemma flow_calcReuse_step_ok r (o : ctrl frule) idx reuse :
  flow_calcReuse_step (flow_equal (c_rule o) r) (-1) (Z.of_nat idx) (flow_stat_reusable (c_rule o) r) (ridx reuse)
  = flow_of_step idx (calc_reuse_step flow_equal flow_stat_reusable r o idx reuse).
Proof. unfold flow_calcReuse_step. reuse_step. Qed.

Lemma hotspot_calcReuse_step_ok r (o : ctrl hrule) idx reuse :
  hotspot_calcReuse_step (hot_equal (c_rule o) r) (-1) (Z.of_nat idx) (hot_stat_reusable (c_rule o) r) (ridx reuse)
  = flow_of_step idx (calc_reuse_step hot_equal hot_stat_reusable r o idx reuse).
Proof. unfold hotspot_calcReuse_step. reuse_step. Qed.

Lemma circuitbreaker_calcReuse_step_ok r (o : ctrl brule) idx reuse :
  circuitbreaker_calcReuse_step (brk_equal (c_rule o) r) (-1) (Z.of_nat idx) (brk_stat_reusable (c_rule o) r) (ridx reuse)
  = flow_of_step idx (calc_reuse_step brk_equal brk_stat_reusable r o idx reuse).
Proof. unfold circuitbreaker_calcReuse_step. reuse_step. Qed.

(* the whole search: iterating the regenerated step over the old list from (-1, -1) gives the model's
   calc_reuse (equal index, reuse index), for every old list *)
Fixpoint iter_step (step : bool -> Z -> Z -> bool -> Z -> leaf_flow (Z * Z) (Z * Z))
         (eqs : list (bool * bool)) (idx : nat) (st : Z * Z) : Z * Z :=
  match eqs with
  | [] => st
  | (e, s) :: rest =>
      match step e (fst st) (Z.of_nat idx) s (snd st) with
      | LBreak c | LReturn c => c
      | LContinue c => iter_step step rest (S idx) c
      end
  end.

Lemma flow_calcReuse_iter r olds : forall idx reuse,
  iter_step flow_calcReuse_step (map (fun o => (flow_equal (c_rule o) r, flow_stat_reusable (c_rule o) r)) olds) idx (-1, ridx reuse)
  = (ridx (fst (calc_reuse frule flow_equal flow_stat_reusable r olds idx reuse)),
     ridx (snd (calc_reuse frule flow_equal flow_stat_reusable r olds idx reuse))).
Proof.
  induction olds as [|o rest IH]; intros idx reuse; [reflexivity|].
  rewrite calc_reuse_unfold. cbn [map iter_step fst snd].
  rewrite flow_calcReuse_step_ok.
  destruct (calc_reuse_step flow_equal flow_stat_reusable r o idx reuse) as [ru|ru]; cbn [flow_of_step fst snd ridx].
  - reflexivity.
  - apply IH.
Qed.

Lemma hotspot_calcReuse_iter r olds : forall idx reuse,
  iter_step hotspot_calcReuse_step (map (fun o => (hot_equal (c_rule o) r, hot_stat_reusable (c_rule o) r)) olds) idx (-1, ridx reuse)
  = (ridx (fst (calc_reuse hrule hot_equal hot_stat_reusable r olds idx reuse)),
     ridx (snd (calc_reuse hrule hot_equal hot_stat_reusable r olds idx reuse))).
Proof.
  induction olds as [|o rest IH]; intros idx reuse; [reflexivity|].
  rewrite calc_reuse_unfold. cbn [map iter_step fst snd].
  rewrite hotspot_calcReuse_step_ok.
  destruct (calc_reuse_step hot_equal hot_stat_reusable r o idx reuse) as [ru|ru]; cbn [flow_of_step fst snd ridx].
  - reflexivity.
  - apply IH.
Qed.

Lemma circuitbreaker_calcReuse_iter r olds : forall idx reuse,
  iter_step circuitbreaker_calcReuse_step (map (fun o => (brk_equal (c_rule o) r, brk_stat_reusable (c_rule o) r)) olds) idx (-1, ridx reuse)
  = (ridx (fst (calc_reuse brule brk_equal brk_stat_reusable r olds idx reuse)),
     ridx (snd (calc_reuse brule brk_equal brk_stat_reusable r olds idx reuse))).
Proof.
  induction olds as [|o rest IH]; intros idx reuse; [reflexivity|].
  rewrite calc_reuse_unfold. cbn [map iter_step fst snd].
  rewrite circuitbreaker_calcReuse_step_ok.
  destruct (calc_reuse_step brk_equal brk_stat_reusable r o idx reuse) as [ru|ru]; cbn [flow_of_step fst snd ridx].
  - reflexivity.
  - apply IH.
Qed.

Print Assumptions flow_calcReuse_step_ok.
Print Assumptions hotspot_calcReuse_step_ok.
Print Assumptions circuitbreaker_calcReuse_step_ok.
Print Assumptions flow_calcReuse_iter.
Print Assumptions hotspot_calcReuse_iter.
Print Assumptions circuitbreaker_calcReuse_iter.
