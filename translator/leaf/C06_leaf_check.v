(* C06 leaf obligations: the per-request decision of a hot-parameter concurrency rule
   (baseTrafficShapingController.performCheckingForConcurrencyMetric), regenerated from the Go source on
   every run (Gen.Leaf_gen), is the decision of [conc_check] of Model/Hotspot.v - the function the C06
   theorems are about - for ALL rules, cache states and values.  The cell lookup
   (ConcurrencyCounter.AddIfAbsent(arg, &0)), the atomic load through the returned pointer and the
   specific-item lookup enter as parameters and are instantiated with the model's own lookups. *)
From Coq Require Import ZArith Bool Lia.
From SG Require Import Base.Prelude Base.GoInt Model.LRU Model.Hotspot Model.HotspotStep.
From Gen Require Import Leaf_gen.
#[local] Open Scope Z_scope.

(* result of PerformChecking for a concurrency rule: pass (0,0) / blocked with the reported
   concurrency (2, live+1) *)
Lemma hotspot_concurrency_check_ok r m k :
  let prior := lru_find k (m_conc m) in
  let spec := alookup k (r_spec r) in
  hotspot_concurrency_check (r_thr r) (opt_some prior) (opt_z prior) (opt_some spec) (opt_z spec)
  = dec_code (snd (conc_check r m k)).
Proof.
  cbv zeta. unfold hotspot_concurrency_check, conc_check, tok_count, lru_add_if_absent.
  destruct (lru_find k (m_conc m)) as [cur|] eqn:Ef; cbn [opt_some opt_z];
  destruct (alookup k (r_spec r)) as [sv|] eqn:Es; cbn [opt_some opt_z];
  repeat match goal with
         | |- context [if (?a <=? ?b) then _ else _] => destruct (a <=? b) eqn:?
         end; cbn [snd dec_code]; try reflexivity.
Qed.

(* the state after the check: the cell cache after AddIfAbsent(arg, &0), nothing else *)
Lemma hotspot_concurrency_check_state r m k :
  fst (conc_check r m k)
  = {| m_time := m_time m; m_tok := m_tok m;
       m_conc := fst (lru_add_if_absent (cache_size r) k 0 (m_conc m)) |}.
Proof.
  unfold conc_check. destruct (lru_add_if_absent (cache_size r) k 0 (m_conc m)) as [c1 prior].
  cbn [fst]. destruct (_ <=? _); reflexivity.
Qed.

Print Assumptions hotspot_concurrency_check_ok.
Print Assumptions hotspot_concurrency_check_state.
