(* C06 leaf obligations: the per-request decision of a hot-parameter concurrency rule
   (baseTrafficShapingController.performCheckingForConcurrencyMetric), regenerated from the Go source on
   every run (Gen.Leaf_gen), is the decision of [conc_check] of Model/Hotspot.v - the function the C06
   theorems are about - for ALL rules, cache states and values.  The cell lookup
   (ConcurrencyCounter.AddIfAbsent(arg, &0)), the atomic load through the returned pointer and the
   specific-item lookup enter as parameters and are instantiated with the model's own lookups. *)
From Coq Require Import ZArith Bool Lia List.
From SG Require Import Base.Prelude Base.GoInt Model.LRU Model.Hotspot Model.HotspotStep.
From Gen Require Import Leaf_gen.
Import ListNotations.
#[local] Open Scope Z_scope.

Ltac split_ifs :=
  repeat match goal with
         | |- context [if ?c then _ else _] =>
             lazymatch c with
             | context [if _ then _ else _] => fail
             | _ => destruct c eqn:?
             end
         end.
(* comparisons written the other way round in the source leave contradictory branch combinations *)
Ltac bool_hyps :=
  repeat match goal with
         | H : (_ <? _) = true |- _ => apply Z.ltb_lt in H
         | H : (_ <? _) = false |- _ => apply Z.ltb_ge in H
         | H : (_ <=? _) = true |- _ => apply Z.leb_le in H
         | H : (_ <=? _) = false |- _ => apply Z.leb_gt in H
         | H : (_ =? _) = true |- _ => apply Z.eqb_eq in H
         | H : (_ =? _) = false |- _ => apply Z.eqb_neq in H
         end.
Ltac absurd_branch := exfalso; bool_hyps; lia.

(* result of PerformChecking for a concurrency rule: pass (0,0) / blocked with the reported
   concurrency (2, live+1) *)
Lemma hotspot_concurrency_check_ok r m k :
  let prior := lru_find k (m_conc m) in
  let spec := alookup k (r_spec r) in
  hotspot_concurrency_check (r_thr r) (opt_some prior) (opt_z prior) (opt_some spec) (opt_z spec)
  = dec_code (snd (conc_check r m k)).
Proof.
  cbv zeta. unfold hotspot_concurrency_check, conc_check, tok_count, lru_add_if_absent.
  destruct (lru_find k (m_conc m)) as [cur|] eqn:Ef; cbn [opt_some opt_z];
  destruct (alookup k (r_spec r)) as [sv|] eqn:Es; cbn [opt_some opt_z];
  cbv zeta; cbn [negb]; split_ifs; cbn [snd dec_code negb]; try reflexivity; absurd_branch.
Qed.

(* the state after the check: the cell cache after AddIfAbsent(arg, &0), nothing else *)
Lemma hotspot_concurrency_check_state r m k :
  fst (conc_check r m k)
  = {| m_time := m_time m; m_tok := m_tok m;
       m_conc := fst (lru_add_if_absent (cache_size r) k 0 (m_conc m)) |}.
Proof.
  unfold conc_check. destruct (lru_add_if_absent (cache_size r) k 0 (m_conc m)) as [c1 prior].
  cbn [fst]. destruct (_ <=? _); reflexivity.
Qed.

(* ---- ConcurrencyStatSlot.OnEntryPassed / OnCompleted ------------------------------------------
   One iteration of `for _, tc := range tcs`, for an arbitrary controller: the recorded operations
   (ConcurrencyCounter.Get(arg), atomic.AddInt64(cell, +1 / -1)) replayed on the model's metric give
   [conc_bump 1] / [conc_bump (-1)] for ALL rules, requests and cache states; the iteration never
   leaves the loop early. *)
Definition argz (n : nat) (l : list leaf_arg) : Z :=
  match nth_error l n with Some (LZ z) => z | _ => 0 end.

(* [k] = the value tc.ExtractArgs(ctx) returned, [cur] = the content of its cell *)
Definition act_stat (k cur : Z) (m : metric) (a : leaf_act) : metric :=
  let '(tag, args) := a in
  match tag with
  | 3 => op_conc_get k m
  | 6 => op_conc_add k cur (argz 0 args) m
  | _ => m
  end.

Definition stat_view (step : bool -> bool -> bool -> bool -> Z -> leaf_flow unit unit * list leaf_act)
  (r : rule) (m : metric) (q : req) (debug : bool) :=
  let ko := extract r q in
  let cur := match ko with Some k => lru_find k (m_conc m) | None => None end in
  step (negb (opt_some ko)) (opt_some cur) false debug (r_metric r).

Definition stat_replay (r : rule) (m : metric) (q : req) (res : leaf_flow unit unit * list leaf_act) : metric :=
  let k := opt_z (extract r q) in
  fold_left (act_stat k (opt_z (lru_find k (m_conc m)))) (snd res) m.

Ltac stat_tac f :=
  intros; unfold stat_view, stat_replay, conc_bump, f, lru_get;
  match goal with m : metric |- _ => destruct m end; cbn [m_conc];
  destruct (r_metric _ =? 0); cbn [negb]; [|split; reflexivity];
  destruct (extract _ _); cbn [opt_some opt_z negb]; [|split; reflexivity];
  match goal with |- context [lru_find ?k ?l] => let Ef := fresh "Ef" in destruct (lru_find k l) eqn:Ef end;
  cbn [opt_some opt_z negb orb];
  match goal with d : bool |- _ => destruct d end;
  cbv [fst snd fold_left act_stat argz nth_error op_conc_get op_conc_add m_with_conc m_time m_tok m_conc lru_get];
  repeat match goal with H : lru_find _ _ = _ |- _ => rewrite H; clear H end; split; reflexivity.

Lemma hotspot_onEntryPassed_step_ok r m q (debug : bool) :
  stat_replay r m q (stat_view hotspot_onEntryPassed_step r m q debug) = conc_bump 1 r m q
  /\ fst (stat_view hotspot_onEntryPassed_step r m q debug) = LContinue tt.
Proof. stat_tac hotspot_onEntryPassed_step. Qed.

Lemma hotspot_onCompleted_step_ok r m q (debug : bool) :
  stat_replay r m q (stat_view hotspot_onCompleted_step r m q debug) = conc_bump (-1) r m q
  /\ fst (stat_view hotspot_onCompleted_step r m q debug) = LContinue tt.
Proof. stat_tac hotspot_onCompleted_step. Qed.

Print Assumptions hotspot_concurrency_check_ok.
Print Assumptions hotspot_concurrency_check_state.
Print Assumptions hotspot_onEntryPassed_step_ok.
Print Assumptions hotspot_onCompleted_step_ok.
