(* C12 leaf obligations: the pc machine of Model/BreakerConc.v (the model of the C12 theorems)
   branches, at every load of shared state, exactly as the Go functions regenerated from source
   on every run (Gen.Leaf_gen; equal to Model/BreakerLeaf.v by Gen.C03_leaf_check) do at the
   loaded value - for ALL configurations, loaded values and thread states:

     T301 / T303 / T302   TryPass: state dispatch, retryTimeoutArrived, result of the CAS
     C301 / C301b / C314  OnRequestComplete: first and second load of the state word, load of the
                          probe counter after addCurProbeNum
     CCas* and the pcs behind them: the from*To* helpers - CAS first, and only after a successful
                          CAS the probe reset (306), the deadline store (304, value
                          clock + uint64(retryTimeoutMs)) and the listeners (307), in the order of
                          the regenerated action trace; R302/R307: the exit hook.

   The interleaving semantics (one atomic access per step, which yield precedes which access) is
   the hand-written part of the model and is tied to the code by the scheduler correspondence;
   what is proved here is that no branch condition, constant, operand order or action order of
   the pc machine differs from the source. *)
From Coq Require Import ZArith Bool Lia Floats List.
From SG Require Import Base.Prelude Base.GoInt Base.GoFloat Model.Breaker Model.BreakerConc Model.BreakerLeaf
  Proofs.BreakerLeafProofs.
From Gen Require Import Leaf_gen C03_leaf_check.
#[local] Open Scope Z_scope.

(* the regenerated functions of the breaker that cfg c describes *)
Definition gen_try (c : cfg) (ok : bool) (deadline now : Z) (st : bst) : bool * list leaf_act :=
  match strat c with
  | SlowRatio => cb_slow_TryPass (probe_num c) ok deadline now (st_code st)
  | ErrRatio => cb_errRatio_TryPass (probe_num c) ok deadline now (st_code st)
  | ErrCount => cb_errCount_TryPass (probe_num c) ok deadline now (st_code st)
  end.

Definition gen_complete (c : cfg) (s1 s2 : bst) (p rt : Z) (err : bool) (B T : Z) : list leaf_act :=
  match strat c with
  | SlowRatio => cb_slow_OnRequestComplete (max_rt c) (thr c) (min_amt c) (probe_num c) B true p rt (st_code s1) (st_code s2) T
  | ErrRatio => cb_errRatio_OnRequestComplete (thr c) (min_amt c) (probe_num c) B true p (negb err) (st_code s1) (st_code s2) T
  | ErrCount => cb_errCount_OnRequestComplete (go_u64_of_f (thr c)) (min_amt c) (probe_num c) B true p (negb err) (st_code s1) (st_code s2) T
  end.

Lemma gen_try_ok c ok deadline now st :
  gen_try c ok deadline now st = enc_res (try_pass_leaf (probe_num c) st deadline now ok).
Proof.
  unfold gen_try. destruct (strat c);
    [apply cb_slow_TryPass_ok | apply cb_errRatio_TryPass_ok | apply cb_errCount_TryPass_ok].
Qed.

Lemma gen_complete_ok c s1 s2 p rt err B T :
  gen_complete c s1 s2 p rt err B T = map enc (complete_leaf c true s1 s2 p (is_bad c rt err) B T).
Proof.
  unfold gen_complete. destruct (strat c) eqn:E;
    [apply cb_slow_OnRequestComplete_ok | apply cb_errRatio_OnRequestComplete_ok | apply cb_errCount_OnRequestComplete_ok];
    exact E.
Qed.

(* reading a regenerated trace: drop the two counter adds; the pc at which the machine performs
   the first remaining action *)
Definition is_add (a : leaf_act) : bool := (fst a =? 14) || (fst a =? 15).
Definition decision (l : list leaf_act) : list leaf_act := filter (fun a => negb (is_add a)) l.

Definition dec_snap (a : leaf_arg) : snap := match a with LF f => SF f | LZ z => SZ z | LB _ => SZ 0 end.
Definition gen_pc (a : leaf_act) : option pc :=
  match a with
  | (3, _) => Some C305
  | (9, x :: _) => Some (CCasCO (dec_snap x))
  | (10, x :: _) => Some (CCasHO (dec_snap x))
  | (11, _) => Some CCasHC
  | _ => None
  end.
Definition gen_goto (th : thread) (l : list leaf_act) : thread :=
  match l with
  | a :: _ => match gen_pc a with Some p => with_pc th p | None => finish th end
  | [] => finish th
  end.

Lemma dec_enc_snap sn : dec_snap (enc_snap sn) = sn.
Proof. destruct sn; reflexivity. Qed.

Lemma gen_pc_enc a : gen_pc (enc a) = act_pc a.
Proof. destruct a; cbn; rewrite ?dec_enc_snap; reflexivity. Qed.

Lemma gen_goto_enc th l : gen_goto th (map enc l) = goto th l.
Proof. destruct l as [|a l]; [reflexivity|]. cbn [map gen_goto goto]. rewrite gen_pc_enc. reflexivity. Qed.

Lemma decision_complete c s1 s2 p bad B T :
  decision (map enc (complete_leaf c true s1 s2 p bad B T)) = map enc (decide_leaf c s1 s2 p bad B T).
Proof.
  unfold complete_leaf, adds_leaf, decide_leaf, decision.
  destruct bad, s1; cbn; try reflexivity;
    repeat match goal with |- context [if ?x then _ else _] => destruct x end; try reflexivity;
    destruct s2; reflexivity.
Qed.

Lemma tl_map {A B} (f : A -> B) l : tl (map f l) = map f (tl l).
Proof. destruct l; reflexivity. Qed.

Lemma gen_decision c s1 s2 p rt err B T :
  decision (gen_complete c s1 s2 p rt err B T) = map enc (decide_leaf c s1 s2 p (is_bad c rt err) B T).
Proof. rewrite gen_complete_ok. apply decision_complete. Qed.

(* ---------------------------------------------------------------------------------- *)
(* TryPass                                                                              *)

Section Steps.
Variables (c : cfg) (tid clk : Z) (sh : shared) (th : thread).

(* 301: the state word decides unless it is Open *)
Theorem C12_T301_regenerated : tpc th = T301 ->
  forall ok,
  snd (tstep c tid clk sh th) =
  match sw sh with
  | Open => with_pc th T303
  | s => finish (result th (fst (gen_try c ok (dl sh) clk s)))
  end.
Proof.
  intros H ok. destruct (conc_T301 c tid clk sh th H) as [E _]. rewrite E.
  destruct (sw sh); rewrite ?gen_try_ok; reflexivity.
Qed.

(* 303: retryTimeoutArrived *)
Theorem C12_T303_regenerated : tpc th = T303 ->
  tstep c tid clk sh th =
  (sh, if cb_retryTimeoutArrived (dl sh) clk then with_pc th (T302 clk (dtag sh))
       else finish (result th (fst (gen_try c true (dl sh) clk Open)))).
Proof.
  intros H. rewrite gen_try_ok, cb_retryTimeoutArrived_ok. rewrite (conc_T303 c tid clk sh th H). reflexivity.
Qed.

(* 302: the result is the result of the CAS, which succeeds iff the word is Open *)
Theorem C12_T302_regenerated rnow rtag d : tpc th = T302 rnow rtag -> cb_retryTimeoutArrived d rnow = true ->
  tres (snd (tstep c tid clk sh th)) = tres th ++ [fst (gen_try c (bst_eqb (sw sh) Open) d rnow Open)]
  /\ snd (gen_try c (bst_eqb (sw sh) Open) d rnow Open) = [enc AOpenToHalf]
  /\ sw (fst (tstep c tid clk sh th)) = (if bst_eqb (sw sh) Open then HalfOpen else sw sh).
Proof.
  intros H Ha. rewrite cb_retryTimeoutArrived_ok in Ha. rewrite gen_try_ok.
  destruct (conc_T302 c tid clk sh th rnow rtag d H Ha) as (E1 & E2 & E3 & _).
  unfold enc_res. cbn [fst snd]. rewrite E2. repeat split; assumption.
Qed.

(* ---------------------------------------------------------------------------------- *)
(* OnRequestComplete                                                                    *)

(* 301: first load of the state word; [bad] is the model's classification of the request *)
Theorem C12_C301_regenerated rt err B T : tpc th = C301 (is_bad c rt err) B T ->
  forall s2 p,
  tstep c tid clk sh th =
  (sh, match sw sh with
       | Closed => if (T <? min_amt c) || negb (reached c B T)
                   then gen_goto th (decision (gen_complete c Closed s2 p rt err B T))
                   else with_pc th (C301b B T)
       | s1 => gen_goto th (decision (gen_complete c s1 s2 p rt err B T))
       end).
Proof.
  intros H s2 p. rewrite (conc_C301 c tid clk sh th _ B T H s2 p).
  destruct (sw sh); rewrite !gen_decision, !gen_goto_enc; reflexivity.
Qed.

(* 301 again: second load (threshold reached while Closed) *)
Theorem C12_C301b_regenerated rt err B T : tpc th = C301b B T ->
  (T <? min_amt c) = false -> reached c B T = true ->
  forall p, tstep c tid clk sh th = (sh, gen_goto th (decision (gen_complete c Closed (sw sh) p rt err B T))).
Proof.
  intros H Hm Hr p. rewrite gen_decision, gen_goto_enc.
  apply (conc_C301b c tid clk sh th (is_bad c rt err) B T H Hm Hr p).
Qed.

(* 314: load of the probe counter after addCurProbeNum (a request that is not bad) *)
Theorem C12_C314_regenerated rt err : tpc th = C314 -> is_bad c rt err = false ->
  forall s2 B T, tstep c tid clk sh th = (sh, gen_goto th (tl (decision (gen_complete c HalfOpen s2 (pn sh) rt err B T)))).
Proof.
  intros H Hb s2 B T. rewrite gen_decision, Hb, tl_map, gen_goto_enc.
  apply (conc_C314 c tid clk sh th H s2 B T).
Qed.

End Steps.

(* ---------------------------------------------------------------------------------- *)
(* from*To*: order of the atomic accesses after the CAS                                 *)

(* yield label in front of the access a regenerated action performs *)
Definition gen_label (a : leaf_act) : Z :=
  match fst a with 1 => 302 | 2 | 5 => 304 | 3 => 305 | 4 => 306 | 6 | 7 | 8 => 307 | _ => -1 end.

Lemma gen_label_enc a : gen_label (enc a) = act_label a.
Proof. destruct a; reflexivity. Qed.

Theorem C12_chains_regenerated sn z :
  map label (chain_co sn) = map gen_label (snd (cb_fromClosedToOpen true z))
  /\ map label (chain_ho sn) = map gen_label (snd (cb_fromHalfOpenToOpen true z))
  /\ map label chain_hc = map gen_label (snd (cb_fromHalfOpenToClosed true))
  /\ (forall a b blk, map label [T302 a b; T307 blk] = map gen_label (firstn 2 (snd (cb_fromOpenToHalfOpen true false))))
  /\ map label [R302; R307] = map gen_label (snd (cb_rollbackHook true true))
  (* a failed CAS (or an entry that was not blocked) does nothing else *)
  /\ map fst (snd (cb_fromClosedToOpen false z)) = [1] /\ map fst (snd (cb_fromHalfOpenToOpen false z)) = [1]
  /\ map fst (snd (cb_fromHalfOpenToClosed false)) = [1] /\ (forall e, map fst (snd (cb_fromOpenToHalfOpen false e)) = [1])
  /\ map fst (snd (cb_rollbackHook true false)) = [1] /\ (forall ok, snd (cb_rollbackHook false ok) = []).
Proof. repeat split. Qed.

(* the CAS arguments of every transition are the model's edge, and the listeners get its source *)
Theorem C12_cas_edges_regenerated z ok e :
  hd_error (snd (cb_fromClosedToOpen ok z)) = Some (enc (ACas Closed Open))
  /\ hd_error (snd (cb_fromHalfOpenToOpen ok z)) = Some (enc (ACas HalfOpen Open))
  /\ hd_error (snd (cb_fromHalfOpenToClosed ok)) = Some (enc (ACas HalfOpen Closed))
  /\ hd_error (snd (cb_fromOpenToHalfOpen ok e)) = Some (enc (ACas Open HalfOpen))
  /\ hd_error (snd (cb_rollbackHook true ok)) = Some (enc (ACas HalfOpen Open))
  /\ last (snd (cb_fromClosedToOpen true z)) (0, []) = enc (ANotifyOpen Closed (SZ z))
  /\ last (snd (cb_fromHalfOpenToOpen true z)) (0, []) = enc (ANotifyOpen HalfOpen (SZ z))
  /\ last (snd (cb_fromHalfOpenToClosed true)) (0, []) = enc (ANotifyClosed HalfOpen)
  /\ nth 1 (snd (cb_fromOpenToHalfOpen true e)) (0, []) = enc (ANotifyHalf Open)
  /\ last (snd (cb_rollbackHook true true)) (0, []) = enc (ANotifyOpen HalfOpen (SF 1%float)).
Proof. destruct ok, e; repeat split. Qed.

(* 304: the value stored as the deadline is the regenerated clock + uint64(retryTimeoutMs); it is
   the model's clk + retry_ms whenever that sum does not wrap (clock < 2^62 ms, timeout < 2^32) *)
Theorem C12_deadline_store_regenerated c tid clk sh th sn :
  0 <= clk < tmax -> 0 <= retry_ms c < two32 ->
  (tpc th = C304co sn \/ tpc th = C304ho sn) ->
  cb_updateNextRetryTimestamp (retry_ms c) clk = [enc (AStoreRetry (dl (fst (tstep c tid clk sh th))))].
Proof.
  intros Hc Hr H. rewrite cb_updateNextRetryTimestamp_ok. unfold retry_store. cbn [map].
  rewrite (retry_value_tmax clk (retry_ms c) Hc Hr).
  destruct H as [H|H]; unfold tstep; rewrite H; reflexivity.
Qed.

Print Assumptions gen_try_ok.
Print Assumptions gen_complete_ok.
Print Assumptions C12_T301_regenerated.
Print Assumptions C12_T303_regenerated.
Print Assumptions C12_T302_regenerated.
Print Assumptions C12_C301_regenerated.
Print Assumptions C12_C301b_regenerated.
Print Assumptions C12_C314_regenerated.
Print Assumptions C12_chains_regenerated.
Print Assumptions C12_cas_edges_regenerated.
Print Assumptions C12_deadline_store_regenerated.
