// canon.go (round 3c): hints matched modulo a consistent renaming of variables.
//
// The tables of a target (Hints, Acts, SeqHints, Errs, RangeVars ...) are keyed by the SOURCE TEXT the
// expressions have on the pinned tree: `atomic.LoadUint64(&old.BucketStart)`,
// `metricReadonlyStat.GetPreviousQPS(base.MetricEventPass)`, "rule".  Renaming a local variable, a
// parameter or the receiver therefore used to make the target untranslatable.  When (and only when) a
// target does NOT translate, main retries it on a private copy of the function in which variables are
// renamed back to the names the keys use: every expression of the function is compared with every key
// (parsed as an expression) modulo identifiers; a pair (current variable a, key identifier b) is
// proposed when the two trees are equal except for identifiers, a is a variable declared in the function
// and b is neither a variable of the function nor a package / builtin name; proposals are taken by
// majority, injectively.  The range variables of the LoopBody loop are matched with the RangeVars names
// by position.  The copy is then translated as usual - so the generated parameter names (`<var>_<field>`,
// `<var>_nil`) are the pinned ones as well.  On a tree where every target translates nothing is retried:
// the output is byte-identical.
package main

import (
	"fmt"
	"go/ast"
	"go/parser"
	"go/token"
	"os"
	"sort"
	"strings"
)

// canonPass is set by main while a target that did not translate is retried with canonical names
var canonPass bool

var goBuiltins = map[string]bool{"nil": true, "true": true, "false": true, "len": true, "cap": true, "append": true, "make": true,
	"new": true, "panic": true, "recover": true, "copy": true, "delete": true, "iota": true, "_": true}

// keyExprs: the keys of the target's tables that parse as expressions
func keyExprs(t target) []ast.Expr {
	var keys []string
	for k := range t.Hints {
		keys = append(keys, strings.TrimSuffix(k, " ok"))
	}
	for k := range t.Acts {
		keys = append(keys, k)
	}
	for k := range t.SeqHints {
		keys = append(keys, k)
	}
	for k := range t.Errs {
		keys = append(keys, k)
	}
	keys = append(keys, extraKeyTexts(t)...)
	sort.Strings(keys)
	var out []ast.Expr
	for _, k := range keys {
		if e, err := parser.ParseExpr(k); err == nil {
			if _, bare := e.(*ast.Ident); !bare { // a bare identifier matches everything: no evidence
				out = append(out, e)
			}
		}
	}
	return out
}

// declaredVars: receiver, parameters, named results and locals of a function
func declaredVars(fd *ast.FuncDecl) map[string]bool {
	v := map[string]bool{}
	add := func(fl *ast.FieldList) {
		if fl != nil {
			for _, f := range fl.List {
				for _, n := range f.Names {
					v[n.Name] = true
				}
			}
		}
	}
	add(fd.Recv)
	add(fd.Type.Params)
	add(fd.Type.Results)
	ast.Inspect(fd.Body, func(n ast.Node) bool {
		switch n := n.(type) {
		case *ast.AssignStmt:
			if n.Tok == token.DEFINE {
				for _, l := range n.Lhs {
					if id, ok := l.(*ast.Ident); ok {
						v[id.Name] = true
					}
				}
			}
		case *ast.ValueSpec:
			for _, id := range n.Names {
				v[id.Name] = true
			}
		case *ast.RangeStmt:
			if n.Tok == token.DEFINE {
				for _, e := range []ast.Expr{n.Key, n.Value} {
					if id, ok := e.(*ast.Ident); ok {
						v[id.Name] = true
					}
				}
			}
		case *ast.FuncType:
			if n.Params != nil {
				for _, f := range n.Params.List {
					for _, id := range f.Names {
						v[id.Name] = true
					}
				}
			}
		}
		return true
	})
	delete(v, "_")
	return v
}

// matchModuloIdents: are e and k the same tree up to identifiers?  Differing identifier pairs are appended
func matchModuloIdents(fset *token.FileSet, e, k ast.Expr, pairs *[][2]string) bool {
	switch k := k.(type) {
	case *ast.Ident:
		ei, ok := e.(*ast.Ident)
		if !ok {
			return false
		}
		if ei.Name != k.Name {
			*pairs = append(*pairs, [2]string{ei.Name, k.Name})
		}
		return true
	case *ast.BasicLit:
		ei, ok := e.(*ast.BasicLit)
		return ok && ei.Kind == k.Kind && ei.Value == k.Value
	case *ast.ParenExpr:
		ei, ok := e.(*ast.ParenExpr)
		return ok && matchModuloIdents(fset, ei.X, k.X, pairs)
	case *ast.SelectorExpr:
		ei, ok := e.(*ast.SelectorExpr)
		return ok && ei.Sel.Name == k.Sel.Name && matchModuloIdents(fset, ei.X, k.X, pairs)
	case *ast.StarExpr:
		ei, ok := e.(*ast.StarExpr)
		return ok && matchModuloIdents(fset, ei.X, k.X, pairs)
	case *ast.UnaryExpr:
		ei, ok := e.(*ast.UnaryExpr)
		return ok && ei.Op == k.Op && matchModuloIdents(fset, ei.X, k.X, pairs)
	case *ast.BinaryExpr:
		ei, ok := e.(*ast.BinaryExpr)
		return ok && ei.Op == k.Op && matchModuloIdents(fset, ei.X, k.X, pairs) && matchModuloIdents(fset, ei.Y, k.Y, pairs)
	case *ast.IndexExpr:
		ei, ok := e.(*ast.IndexExpr)
		return ok && matchModuloIdents(fset, ei.X, k.X, pairs) && matchModuloIdents(fset, ei.Index, k.Index, pairs)
	case *ast.CallExpr:
		ei, ok := e.(*ast.CallExpr)
		if !ok || len(ei.Args) != len(k.Args) || !matchModuloIdents(fset, ei.Fun, k.Fun, pairs) {
			return false
		}
		for i := range k.Args {
			if !matchModuloIdents(fset, ei.Args[i], k.Args[i], pairs) {
				return false
			}
		}
		return true
	}
	return false
}

// canonRenaming: current variable -> the name the target's keys use
func canonRenaming(p *pkgInfo, t target, fd *ast.FuncDecl) map[string]string {
	vars := declaredVars(fd)
	pkgNames := map[string]bool{}
	for _, f := range p.files {
		for _, im := range f.Imports {
			if im.Name != nil {
				pkgNames[im.Name.Name] = true
			} else {
				path := strings.Trim(im.Path.Value, `"`)
				pkgNames[path[strings.LastIndex(path, "/")+1:]] = true
			}
		}
	}
	votes := map[[2]string]int{}
	keys := keyExprs(t)
	ast.Inspect(fd.Body, func(n ast.Node) bool {
		e, ok := n.(ast.Expr)
		if !ok {
			return true
		}
		for _, k := range keys {
			var pairs [][2]string
			if !matchModuloIdents(p.fset, e, k, &pairs) || len(pairs) == 0 {
				continue
			}
			okAll := true
			seen := map[string]string{}
			for _, pr := range pairs {
				a, b := pr[0], pr[1]
				if !vars[a] || vars[b] || pkgNames[b] || goBuiltins[b] || p.funcs[b] != nil {
					okAll = false
				}
				if _, isConst := p.consts[b]; isConst {
					okAll = false
				}
				if old, ok := seen[a]; ok && old != b {
					okAll = false
				}
				seen[a] = b
			}
			if okAll {
				for a, b := range seen {
					votes[[2]string{a, b}]++
				}
			}
		}
		return true
	})
	// range variables of the target loop, by position
	for a, b := range rangeVarRenaming(t, fd, vars) {
		votes[[2]string{a, b}] += 1000
	}
	type cand struct {
		a, b string
		n    int
	}
	var cs []cand
	for pr, n := range votes {
		cs = append(cs, cand{pr[0], pr[1], n})
	}
	sort.Slice(cs, func(i, j int) bool {
		if cs[i].n != cs[j].n {
			return cs[i].n > cs[j].n
		}
		if cs[i].a != cs[j].a {
			return cs[i].a < cs[j].a
		}
		return cs[i].b < cs[j].b
	})
	ren, used := map[string]string{}, map[string]bool{}
	for _, c := range cs {
		if _, done := ren[c.a]; done || used[c.b] {
			continue
		}
		ren[c.a], used[c.b] = c.b, true
	}
	return ren
}

// rangeVarRenaming: the key / value variables of the LoopBody loop against the names RangeVars uses
func rangeVarRenaming(t target, fd *ast.FuncDecl, vars map[string]bool) map[string]string {
	out := map[string]string{}
	if t.LoopBody <= 0 || len(t.RangeVars) == 0 {
		return out
	}
	var loops []*ast.RangeStmt
	k := 0
	ast.Inspect(fd.Body, func(n ast.Node) bool {
		switch n := n.(type) {
		case *ast.ForStmt:
			k++
		case *ast.RangeStmt:
			k++
			if k == t.LoopBody {
				loops = append(loops, n)
			}
		case *ast.FuncLit:
			return false
		}
		return true
	})
	if len(loops) != 1 {
		return out
	}
	var free []string // RangeVars names that are not variables of the function
	for name := range t.RangeVars {
		if !vars[name] {
			free = append(free, name)
		}
	}
	sort.Strings(free)
	var cur []string
	for _, e := range []ast.Expr{loops[0].Key, loops[0].Value} {
		if id, ok := e.(*ast.Ident); ok && id.Name != "_" {
			if _, known := t.RangeVars[id.Name]; !known {
				cur = append(cur, id.Name)
			}
		}
	}
	if len(cur) == 1 && len(free) == 1 {
		out[cur[0]] = free[0]
	}
	return out
}

// canonClone: a private copy of fd with the variables renamed and the loops / switches in normal form (nil when that
// changes nothing)
func canonClone(p *pkgInfo, t target, fd *ast.FuncDecl) *ast.FuncDecl {
	ren := canonRenaming(p, t, fd)
	if os.Getenv("LEAF_DEBUG") != "" {
		fmt.Fprintf(os.Stderr, "leaf: %s canonical renaming %v\n", t.Name, ren)
	}
	expandSeq++
	f, err := parser.ParseFile(p.fset, "canon_"+t.Name+"_"+itoa(expandSeq)+".go", "package p\n"+src(p.fset, fd)+"\n", 0)
	if err != nil || len(f.Decls) != 1 {
		return nil
	}
	c := f.Decls[0].(*ast.FuncDecl)
	renameFields := func(fl *ast.FieldList) {
		if fl != nil {
			for _, fld := range fl.List {
				for _, n := range fld.Names {
					if r, ok := ren[n.Name]; ok {
						n.Name = r
					}
				}
			}
		}
	}
	renameFields(c.Recv)
	renameFields(c.Type.Params)
	renameFields(c.Type.Results)
	rewriteIdents(c.Body, nil, ren)
	if norm := normalise(c.Body, p.fset); !norm && len(ren) == 0 {
		return nil // nothing to try
	}
	// definitions: `a := ...`, `var a T`, range variables are identifiers on the left: rewriteIdents renames
	// them through its expression walk; function literals' parameters are left alone
	return c
}

func itoa(i int) string {
	s := ""
	if i == 0 {
		return "0"
	}
	for i > 0 {
		s = string(rune('0'+i%10)) + s
		i /= 10
	}
	return s
}

// extraKeyTexts: the source-keyed tables of the other extensions
func extraKeyTexts(t target) []string {
	var keys []string
	for k := range t.Stores {
		keys = append(keys, k)
	}
	for k := range t.IOStores {
		keys = append(keys, k)
	}
	for k := range t.Rets {
		keys = append(keys, k)
	}
	for k := range t.AbsCalls {
		keys = append(keys, k)
	}
	for k := range t.LoopVars {
		keys = append(keys, k)
	}
	for _, k := range t.LenSlices {
		keys = append(keys, k)
	}
	for _, k := range t.Effects {
		keys = append(keys, strings.TrimSuffix(k, "("))
	}
	return keys
}

// ---- normal forms applied to the private copy of a retried target ----
//
//   for i := 0; i < len(xs); i++ { x := xs[i]; ... }   ==>   for _, x := range xs { ... }     (i not used otherwise)
//   for i := range xs { x := xs[i]; ... }               ==>   for _, x := range xs { ... }     (i not used otherwise)
//   switch init; tag { ... }                            ==>   { init; switch tag { ... } }

func usesIdent(n ast.Node, name string) bool {
	found := false
	ast.Inspect(n, func(m ast.Node) bool {
		if id, ok := m.(*ast.Ident); ok && id.Name == name {
			found = true
		}
		return !found
	})
	return found
}

// elementDef: `x := xs[i]` as first statement of a loop body
func elementDef(body *ast.BlockStmt, xs ast.Expr, i string, fset *token.FileSet) (*ast.Ident, bool) {
	if len(body.List) == 0 {
		return nil, false
	}
	as, ok := body.List[0].(*ast.AssignStmt)
	if !ok || as.Tok != token.DEFINE || len(as.Lhs) != 1 || len(as.Rhs) != 1 {
		return nil, false
	}
	id, ok := as.Lhs[0].(*ast.Ident)
	ix, ok2 := as.Rhs[0].(*ast.IndexExpr)
	if !ok || !ok2 {
		return nil, false
	}
	ii, ok := ix.Index.(*ast.Ident)
	if !ok || ii.Name != i || src(fset, ix.X) != src(fset, xs) {
		return nil, false
	}
	for _, s := range body.List[1:] {
		if usesIdent(s, i) {
			return nil, false
		}
	}
	return id, true
}

func indexLoopAsRange(s ast.Stmt, fset *token.FileSet) (ast.Stmt, bool) {
	switch s := s.(type) {
	case *ast.ForStmt:
		init, ok := s.Init.(*ast.AssignStmt)
		if !ok || init.Tok != token.DEFINE || len(init.Lhs) != 1 || len(init.Rhs) != 1 {
			return nil, false
		}
		i, ok := init.Lhs[0].(*ast.Ident)
		zero, ok2 := init.Rhs[0].(*ast.BasicLit)
		if !ok || !ok2 || zero.Value != "0" {
			return nil, false
		}
		cond, ok := s.Cond.(*ast.BinaryExpr)
		if !ok || cond.Op != token.LSS {
			return nil, false
		}
		ci, ok := cond.X.(*ast.Ident)
		ln, ok2 := cond.Y.(*ast.CallExpr)
		if !ok || !ok2 || ci.Name != i.Name || len(ln.Args) != 1 {
			return nil, false
		}
		if f, ok := ln.Fun.(*ast.Ident); !ok || f.Name != "len" {
			return nil, false
		}
		post, ok := s.Post.(*ast.IncDecStmt)
		if !ok || post.Tok != token.INC {
			return nil, false
		}
		if pi, ok := post.X.(*ast.Ident); !ok || pi.Name != i.Name {
			return nil, false
		}
		x, ok := elementDef(s.Body, ln.Args[0], i.Name, fset)
		if !ok {
			return nil, false
		}
		return &ast.RangeStmt{For: s.For, Key: ast.NewIdent("_"), Value: x, Tok: token.DEFINE, X: ln.Args[0],
			Body: &ast.BlockStmt{Lbrace: s.Body.Lbrace, List: s.Body.List[1:], Rbrace: s.Body.Rbrace}}, true
	case *ast.RangeStmt:
		i, ok := s.Key.(*ast.Ident)
		if !ok || s.Value != nil || s.Tok != token.DEFINE || i.Name == "_" {
			return nil, false
		}
		x, ok := elementDef(s.Body, s.X, i.Name, fset)
		if !ok {
			return nil, false
		}
		return &ast.RangeStmt{For: s.For, Key: ast.NewIdent("_"), Value: x, Tok: token.DEFINE, X: s.X,
			Body: &ast.BlockStmt{Lbrace: s.Body.Lbrace, List: s.Body.List[1:], Rbrace: s.Body.Rbrace}}, true
	}
	return nil, false
}

// normalise rewrites the statement lists under n in place; it reports whether anything changed
func normalise(n ast.Node, fset *token.FileSet) bool {
	changed := false
	fix := func(list []ast.Stmt) {
		for i, s := range list {
			if r, ok := indexLoopAsRange(s, fset); ok {
				list[i], changed = r, true
			}
			if sw, ok := list[i].(*ast.SwitchStmt); ok && sw.Init != nil {
				init := sw.Init
				sw.Init = nil
				list[i], changed = &ast.BlockStmt{List: []ast.Stmt{init, sw}}, true
			}
		}
	}
	ast.Inspect(n, func(m ast.Node) bool {
		switch m := m.(type) {
		case *ast.BlockStmt:
			fix(m.List)
		case *ast.CaseClause:
			fix(m.Body)
		case *ast.CommClause:
			fix(m.Body)
		}
		return true
	})
	return changed
}

// ---- boolean hints modulo trivial rewritings ----
//
// A comparison that has no hint of its own but is an evident variant of a hinted boolean is the (negated)
// parameter of that hint:  a != b ~ !(a == b),  b == a ~ a == b,  s == "" ~ len(s) == 0,  s != "" ~
// len(s) != 0 ~ len(s) > 0.  Tried only where the comparison would otherwise be looked at operand by operand
// (which for strings / pointers fails), after the exact lookup.
func (x *tr) hintVariant(e *ast.BinaryExpr) (val, bool) {
	if !round3c || len(x.t.Hints) == 0 {
		return val{}, false
	}
	type cand struct {
		text string
		neg  bool
	}
	var cs []cand
	pr := func(a ast.Expr, op token.Token, b ast.Expr) string {
		return src(x.p.fset, &ast.BinaryExpr{X: a, Op: op, Y: b})
	}
	isEmptyStr := func(a ast.Expr) bool {
		l, ok := a.(*ast.BasicLit)
		return ok && l.Kind == token.STRING && l.Value == `""`
	}
	lenOf := func(a ast.Expr) (ast.Expr, bool) {
		c, ok := a.(*ast.CallExpr)
		if ok && len(c.Args) == 1 {
			if f, ok := c.Fun.(*ast.Ident); ok && f.Name == "len" {
				return c.Args[0], true
			}
		}
		return nil, false
	}
	isZero := func(a ast.Expr) bool { l, ok := a.(*ast.BasicLit); return ok && l.Kind == token.INT && l.Value == "0" }
	zero, empty := &ast.BasicLit{Kind: token.INT, Value: "0"}, &ast.BasicLit{Kind: token.STRING, Value: `""`}
	mkLen := func(a ast.Expr) ast.Expr { return &ast.CallExpr{Fun: ast.NewIdent("len"), Args: []ast.Expr{a}} }
	a, b := e.X, e.Y
	switch e.Op {
	case token.EQL, token.NEQ:
		neg := e.Op == token.NEQ
		cs = append(cs, cand{pr(a, token.EQL, b), neg}, cand{pr(b, token.EQL, a), neg}, cand{pr(a, token.NEQ, b), !neg}, cand{pr(b, token.NEQ, a), !neg})
		if isEmptyStr(b) {
			cs = append(cs, cand{pr(mkLen(a), token.EQL, zero), neg}, cand{pr(mkLen(a), token.NEQ, zero), !neg}, cand{pr(mkLen(a), token.GTR, zero), !neg})
		}
		if s, ok := lenOf(a); ok && isZero(b) {
			cs = append(cs, cand{pr(s, token.EQL, empty), neg}, cand{pr(s, token.NEQ, empty), !neg}, cand{pr(a, token.GTR, b), !neg})
		}
	case token.GTR:
		if s, ok := lenOf(a); ok && isZero(b) {
			cs = append(cs, cand{pr(a, token.EQL, b), true}, cand{pr(a, token.NEQ, b), false}, cand{pr(s, token.EQL, empty), true}, cand{pr(s, token.NEQ, empty), false})
		}
	}
	self := src(x.p.fset, e)
	for _, c := range cs {
		if c.text == self {
			continue
		}
		if h, ok := x.t.Hints[c.text]; ok && h.Typ == "bool" {
			v := x.hintParam(c.text, h)
			if c.neg {
				return val{coq: "(negb " + v.coq + ")", typ: "bool"}, true
			}
			return v, true
		}
	}
	return val{}, false
}
