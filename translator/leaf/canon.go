// canon.go (round 3c): hints matched modulo a consistent renaming of variables.
//
// The tables of a target (Hints, Acts, SeqHints, Errs, RangeVars ...) are keyed by the SOURCE TEXT the
// expressions have on the pinned tree: `atomic.LoadUint64(&old.BucketStart)`,
// `metricReadonlyStat.GetPreviousQPS(base.MetricEventPass)`, "rule".  Renaming a local variable, a
// parameter or the receiver therefore used to make the target untranslatable.  When (and only when) a
// target does NOT translate, main retries it on a private copy of the function in which variables are
// renamed back to the names the keys use: every expression of the function is compared with every key
// (parsed as an expression) modulo identifiers; a pair (current variable a, key identifier b) is
// proposed when the two trees are equal except for identifiers, a is a variable declared in the function
// and b is neither a variable of the function nor a package / builtin name; proposals are taken by
// majority, injectively.  The range variables of the LoopBody loop are matched with the RangeVars names
// by position.  The copy is then translated as usual - so the generated parameter names (`<var>_<field>`,
// `<var>_nil`) are the pinned ones as well.  On a tree where every target translates nothing is retried:
// the output is byte-identical.
package main

import (
	"fmt"
	"go/ast"
	"go/parser"
	"go/token"
	"os"
	"sort"
	"strings"
)

// canonPass is set by main while a target that did not translate is retried with canonical names
var canonPass bool

var goBuiltins = map[string]bool{"nil": true, "true": true, "false": true, "len": true, "cap": true, "append": true, "make": true,
	"new": true, "panic": true, "recover": true, "copy": true, "delete": true, "iota": true, "_": true}

// keyExprs: the keys of the target's tables that parse as expressions
func keyExprs(t target) []ast.Expr {
	var keys []string
	for k := range t.Hints {
		keys = append(keys, strings.TrimSuffix(k, " ok"))
	}
	for k := range t.Acts {
		keys = append(keys, k)
	}
	for k := range t.SeqHints {
		keys = append(keys, k)
	}
	for k := range t.Errs {
		keys = append(keys, k)
	}
	keys = append(keys, extraKeyTexts(t)...)
	sort.Strings(keys)
	var out []ast.Expr
	for _, k := range keys {
		if e, err := parser.ParseExpr(k); err == nil {
			if _, bare := e.(*ast.Ident); !bare { // a bare identifier matches everything: no evidence
				out = append(out, e)
			}
		}
	}
	return out
}

// declaredVars: receiver, parameters, named results and locals of a function
func declaredVars(fd *ast.FuncDecl) map[string]bool {
	v := map[string]bool{}
	add := func(fl *ast.FieldList) {
		if fl != nil {
			for _, f := range fl.List {
				for _, n := range f.Names {
					v[n.Name] = true
				}
			}
		}
	}
	add(fd.Recv)
	add(fd.Type.Params)
	add(fd.Type.Results)
	ast.Inspect(fd.Body, func(n ast.Node) bool {
		switch n := n.(type) {
		case *ast.AssignStmt:
			if n.Tok == token.DEFINE {
				for _, l := range n.Lhs {
					if id, ok := l.(*ast.Ident); ok {
						v[id.Name] = true
					}
				}
			}
		case *ast.ValueSpec:
			for _, id := range n.Names {
				v[id.Name] = true
			}
		case *ast.RangeStmt:
			if n.Tok == token.DEFINE {
				for _, e := range []ast.Expr{n.Key, n.Value} {
					if id, ok := e.(*ast.Ident); ok {
						v[id.Name] = true
					}
				}
			}
		case *ast.FuncType:
			if n.Params != nil {
				for _, f := range n.Params.List {
					for _, id := range f.Names {
						v[id.Name] = true
					}
				}
			}
		}
		return true
	})
	delete(v, "_")
	return v
}

// matchModuloIdents: are e and k the same tree up to identifiers?  Differing identifier pairs are appended
func matchModuloIdents(fset *token.FileSet, e, k ast.Expr, pairs *[][2]string) bool {
	switch k := k.(type) {
	case *ast.Ident:
		ei, ok := e.(*ast.Ident)
		if !ok {
			return false
		}
		if ei.Name != k.Name {
			*pairs = append(*pairs, [2]string{ei.Name, k.Name})
		}
		return true
	case *ast.BasicLit:
		ei, ok := e.(*ast.BasicLit)
		return ok && ei.Kind == k.Kind && ei.Value == k.Value
	case *ast.ParenExpr:
		ei, ok := e.(*ast.ParenExpr)
		return ok && matchModuloIdents(fset, ei.X, k.X, pairs)
	case *ast.SelectorExpr:
		ei, ok := e.(*ast.SelectorExpr)
		return ok && ei.Sel.Name == k.Sel.Name && matchModuloIdents(fset, ei.X, k.X, pairs)
	case *ast.StarExpr:
		ei, ok := e.(*ast.StarExpr)
		return ok && matchModuloIdents(fset, ei.X, k.X, pairs)
	case *ast.UnaryExpr:
		ei, ok := e.(*ast.UnaryExpr)
		return ok && ei.Op == k.Op && matchModuloIdents(fset, ei.X, k.X, pairs)
	case *ast.BinaryExpr:
		ei, ok := e.(*ast.BinaryExpr)
		return ok && ei.Op == k.Op && matchModuloIdents(fset, ei.X, k.X, pairs) && matchModuloIdents(fset, ei.Y, k.Y, pairs)
	case *ast.IndexExpr:
		ei, ok := e.(*ast.IndexExpr)
		return ok && matchModuloIdents(fset, ei.X, k.X, pairs) && matchModuloIdents(fset, ei.Index, k.Index, pairs)
	case *ast.CallExpr:
		ei, ok := e.(*ast.CallExpr)
		if !ok || len(ei.Args) != len(k.Args) || !matchModuloIdents(fset, ei.Fun, k.Fun, pairs) {
			return false
		}
		for i := range k.Args {
			if !matchModuloIdents(fset, ei.Args[i], k.Args[i], pairs) {
				return false
			}
		}
		return true
	}
	return false
}

// canonRenaming: current variable -> the name the target's keys use
func canonRenaming(p *pkgInfo, t target, fd *ast.FuncDecl) map[string]string {
	vars := declaredVars(fd)
	pkgNames := map[string]bool{}
	for _, f := range p.files {
		for _, im := range f.Imports {
			if im.Name != nil {
				pkgNames[im.Name.Name] = true
			} else {
				path := strings.Trim(im.Path.Value, `"`)
				pkgNames[path[strings.LastIndex(path, "/")+1:]] = true
			}
		}
	}
	votes := map[[2]string]int{}
	keys := keyExprs(t)
	ast.Inspect(fd.Body, func(n ast.Node) bool {
		e, ok := n.(ast.Expr)
		if !ok {
			return true
		}
		for _, k := range keys {
			var pairs [][2]string
			if !matchModuloIdents(p.fset, e, k, &pairs) || len(pairs) == 0 {
				continue
			}
			okAll := true
			seen := map[string]string{}
			for _, pr := range pairs {
				a, b := pr[0], pr[1]
				if !vars[a] || vars[b] || pkgNames[b] || goBuiltins[b] || p.funcs[b] != nil {
					okAll = false
				}
				if _, isConst := p.consts[b]; isConst {
					okAll = false
				}
				if old, ok := seen[a]; ok && old != b {
					okAll = false
				}
				seen[a] = b
			}
			if okAll {
				for a, b := range seen {
					votes[[2]string{a, b}]++
				}
			}
		}
		return true
	})
	// range variables of the target loop, by position
	for a, b := range rangeVarRenaming(t, fd, vars) {
		votes[[2]string{a, b}] += 1000
	}
	type cand struct {
		a, b string
		n    int
	}
	var cs []cand
	for pr, n := range votes {
		cs = append(cs, cand{pr[0], pr[1], n})
	}
	sort.Slice(cs, func(i, j int) bool {
		if cs[i].n != cs[j].n {
			return cs[i].n > cs[j].n
		}
		if cs[i].a != cs[j].a {
			return cs[i].a < cs[j].a
		}
		return cs[i].b < cs[j].b
	})
	ren, used := map[string]string{}, map[string]bool{}
	for _, c := range cs {
		if _, done := ren[c.a]; done || used[c.b] {
			continue
		}
		ren[c.a], used[c.b] = c.b, true
	}
	return ren
}

// rangeVarRenaming: the key / value variables of the LoopBody loop against the names RangeVars uses
func rangeVarRenaming(t target, fd *ast.FuncDecl, vars map[string]bool) map[string]string {
	out := map[string]string{}
	if t.LoopBody <= 0 || len(t.RangeVars) == 0 {
		return out
	}
	var loops []*ast.RangeStmt
	k := 0
	ast.Inspect(fd.Body, func(n ast.Node) bool {
		switch n := n.(type) {
		case *ast.ForStmt:
			k++
		case *ast.RangeStmt:
			k++
			if k == t.LoopBody {
				loops = append(loops, n)
			}
		case *ast.FuncLit:
			return false
		}
		return true
	})
	if len(loops) != 1 {
		return out
	}
	var free []string // RangeVars names that are not variables of the function
	for name := range t.RangeVars {
		if !vars[name] {
			free = append(free, name)
		}
	}
	sort.Strings(free)
	var cur []string
	for _, e := range []ast.Expr{loops[0].Key, loops[0].Value} {
		if id, ok := e.(*ast.Ident); ok && id.Name != "_" {
			if _, known := t.RangeVars[id.Name]; !known {
				cur = append(cur, id.Name)
			}
		}
	}
	if len(cur) == 1 && len(free) == 1 {
		out[cur[0]] = free[0]
	}
	return out
}

// canonClone: a private copy of fd with the variables renamed (nil when there is nothing to rename)
func canonClone(p *pkgInfo, t target, fd *ast.FuncDecl) *ast.FuncDecl {
	ren := canonRenaming(p, t, fd)
	if os.Getenv("LEAF_DEBUG") != "" {
		fmt.Fprintf(os.Stderr, "leaf: %s canonical renaming %v\n", t.Name, ren)
	}
	if len(ren) == 0 {
		return nil
	}
	expandSeq++
	f, err := parser.ParseFile(p.fset, "canon_"+t.Name+"_"+itoa(expandSeq)+".go", "package p\n"+src(p.fset, fd)+"\n", 0)
	if err != nil || len(f.Decls) != 1 {
		return nil
	}
	c := f.Decls[0].(*ast.FuncDecl)
	renameFields := func(fl *ast.FieldList) {
		if fl != nil {
			for _, fld := range fl.List {
				for _, n := range fld.Names {
					if r, ok := ren[n.Name]; ok {
						n.Name = r
					}
				}
			}
		}
	}
	renameFields(c.Recv)
	renameFields(c.Type.Params)
	renameFields(c.Type.Results)
	rewriteIdents(c.Body, nil, ren)
	// definitions: `a := ...`, `var a T`, range variables are identifiers on the left: rewriteIdents renames
	// them through its expression walk; function literals' parameters are left alone
	return c
}

func itoa(i int) string {
	s := ""
	if i == 0 {
		return "0"
	}
	for i > 0 {
		s = string(rune('0'+i%10)) + s
		i /= 10
	}
	return s
}

// extraKeyTexts: the source-keyed tables of the other extensions
func extraKeyTexts(t target) []string {
	var keys []string
	for k := range t.Stores {
		keys = append(keys, k)
	}
	for k := range t.IOStores {
		keys = append(keys, k)
	}
	for k := range t.Rets {
		keys = append(keys, k)
	}
	for k := range t.AbsCalls {
		keys = append(keys, k)
	}
	for k := range t.LoopVars {
		keys = append(keys, k)
	}
	for _, k := range t.LenSlices {
		keys = append(keys, k)
	}
	for _, k := range t.Effects {
		keys = append(keys, strings.TrimSuffix(k, "("))
	}
	return keys
}
