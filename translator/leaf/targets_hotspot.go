// Targets of the hot-parameter cluster (C05 / C06): the per-request decisions and arithmetic of the three
// controllers in core/hotspot/traffic_shaping.go and the counter updates of concurrency_stat_slot.go.
// Cache lookups, atomic loads and CAS results enter as parameters (hints).
package main

// result constructors of *base.TokenResult: (0,0) nil = pass; (1,0) blocked, no triggered value;
// (2,v) blocked with triggered value v; (3,ns) should wait ns nanoseconds
var hotspotCtors = map[string]ctor{
	"base.NewTokenResultBlockedWithCause": {Tag: 2, NilTag: 1, Arg: 3, Typ: "int64"},
	"base.NewTokenResultShouldWait":       {Tag: 3, NilTag: 3, Arg: 0, Typ: "int64"},
}

func init() {
	targets = append(targets,
		// C06: the concurrency decision (threshold comparison incl. specific items)
		target{Dir: "core/hotspot", Func: "baseTrafficShapingController.performCheckingForConcurrencyMetric",
			Name: "hotspot_concurrency_check",
			Hints: map[string]hint{
				"c.specificItems": {"", "opaque"},
				"c.metric.ConcurrencyCounter.AddIfAbsent(arg, &initConcurrency)": {"", "opaque"},
				"concurrencyPtr != nil":            {"cell_present", "bool"},
				"atomic.LoadInt64(concurrencyPtr)": {"cell_value", "int64"},
				"specificItem[arg]":                {"spec_value", "int64"},
				"specificItem[arg] ok":             {"spec_existed", "bool"},
			},
			Ctors: hotspotCtors},
	)
}
