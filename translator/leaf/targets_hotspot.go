// Targets of the hot-parameter cluster (C05 / C06): the per-request decisions and arithmetic of the three
// controllers in core/hotspot/traffic_shaping.go and the counter updates of concurrency_stat_slot.go.
// Cache lookups, atomic loads and CAS results enter as parameters (hints).
package main

// result constructors of *base.TokenResult: (0,0) nil = pass; (1,0) blocked, no triggered value;
// (2,v) blocked with triggered value v; (3,ns) should wait ns nanoseconds
var hotspotCtors = map[string]ctor{
	"base.NewTokenResultBlockedWithCause": {Tag: 2, NilTag: 1, Arg: 3, Typ: "int64"},
	"base.NewTokenResultShouldWait":       {Tag: 3, NilTag: 3, Arg: 0, Typ: "int64"},
}

func init() {
	targets = append(targets,
		// C06: the concurrency decision (threshold comparison incl. specific items)
		target{Dir: "core/hotspot", Func: "baseTrafficShapingController.performCheckingForConcurrencyMetric",
			Name: "hotspot_concurrency_check",
			Hints: map[string]hint{
				"c.specificItems": {"", "opaque"},
				"c.metric.ConcurrencyCounter.AddIfAbsent(arg, &initConcurrency)": {"", "opaque"},
				"concurrencyPtr != nil":            {"cell_present", "bool"},
				"atomic.LoadInt64(concurrencyPtr)": {"cell_value", "int64"},
				"specificItem[arg]":                {"spec_value", "int64"},
				"specificItem[arg] ok":             {"spec_existed", "bool"},
			},
			Ctors: hotspotCtors},

		// C05: rejectTrafficShapingController.PerformChecking - dispatch, threshold selection, batch guard and
		// ONE iteration of the refill / consume loop.  Trace: (1,[arg;v]) timeCounter.AddIfAbsent(arg,&v),
		// (2,[arg;v]) tokenCounter.AddIfAbsent(arg,&v), (3,[arg]) tokenCounter.Get(arg), (4,[v]) StoreInt64(time
		// cell, v), (5,[old;new]) CAS attempt on the token cell, (9,[arg]) the concurrency check.
		target{Dir: "core/hotspot", Func: "rejectTrafficShapingController.PerformChecking", Name: "hotspot_reject_step", LoopBody: 1,
			Hints: hotspotQPSHints(map[string]hint{
				"atomic.LoadInt64(lastAddTokenTimePtr)": {"last_time", "int64"},
				"atomic.LoadInt64(oldQpsPtr)":           {"rest_tokens", "int64"},
				"tokenCounter.Get(arg)":                 {"", "opaque"},
				"tokenCounter.Get(arg) ok":              {"token_found", "bool"},
			}),
			Acts: map[string]act{
				"c.performCheckingForConcurrencyMetric": {Tag: 9, Keep: []int{0}, Ret: hint{"conc_result", "tokres"}},
				"timeCounter.AddIfAbsent":               {Tag: 1, Keep: []int{0, 1}, Ret: hint{"", "opaque"}},
				"tokenCounter.AddIfAbsent":              {Tag: 2, Keep: []int{0, 1}, Ret: hint{"", "opaque"}},
				"tokenCounter.Get":                      {Tag: 3, Keep: []int{0}},
				"atomic.StoreInt64":                     {Tag: 4, Keep: []int{1}},
				"atomic.CompareAndSwapInt64":            {Tag: 5, Keep: []int{1, 2}, Ret: hint{"cas_ok", "bool"}},
			},
			Ctors: hotspotCtors},

		// C05: throttlingTrafficShapingController.PerformChecking - dispatch, threshold selection, spacing and ONE
		// iteration of the pacing loop.  Trace: (1,[arg;v]) timeCounter.AddIfAbsent(arg,&v), (4,[v]) StoreInt64(time
		// cell, v), (5,[old;new]) CAS attempt on the time cell, (9,[arg]) the concurrency check.
		target{Dir: "core/hotspot", Func: "throttlingTrafficShapingController.PerformChecking", Name: "hotspot_throttle_step", LoopBody: 1,
			Hints: hotspotQPSHints(map[string]hint{
				"atomic.LoadInt64(lastPassTimePtr)": {"last_time", "int64"},
			}),
			Acts: map[string]act{
				"c.performCheckingForConcurrencyMetric": {Tag: 9, Keep: []int{0}, Ret: hint{"conc_result", "tokres"}},
				"timeCounter.AddIfAbsent":               {Tag: 1, Keep: []int{0, 1}, Ret: hint{"", "opaque"}},
				"atomic.StoreInt64":                     {Tag: 4, Keep: []int{1}},
				"atomic.CompareAndSwapInt64":            {Tag: 5, Keep: []int{1, 2}, Ret: hint{"cas_ok", "bool"}},
			},
			Ctors: hotspotCtors},

		// C06: ConcurrencyStatSlot.OnEntryPassed / OnCompleted - one iteration of the loop over the resource's
		// controllers, for an arbitrary controller tc.  Trace: (3,[]) ConcurrencyCounter.Get(arg), (6,[d])
		// atomic.AddInt64(cell, d).
		target{Dir: "core/hotspot", Func: "ConcurrencyStatSlot.OnEntryPassed", Name: "hotspot_onEntryPassed_step", LoopBody: 1,
			Hints: hotspotStatHints, Acts: hotspotStatActs, RangeVars: map[string]string{"tc": "TrafficShapingController"}},
		target{Dir: "core/hotspot", Func: "ConcurrencyStatSlot.OnCompleted", Name: "hotspot_onCompleted_step", LoopBody: 1,
			Hints: hotspotStatHints, Acts: hotspotStatActs, RangeVars: map[string]string{"tc": "TrafficShapingController"}},

		// C05 / C06: Slot.Check - one iteration of the loop over the resource's controllers: what is done with
		// the controller's result (nil / blocked / should-wait).  Result code 1 = `return r` (the blocked result).
		// Trace: (7,[batch]) canPassCheck(tc, arg, batch), (8,[ns]) util.Sleep(ns).
		target{Dir: "core/hotspot", Func: "Slot.Check", Name: "hotspot_slot_check_step", LoopBody: 1,
			Hints: map[string]hint{
				"ctx.Resource.Name()":           {"", "opaque"},
				"ctx.Input.BatchCount":          {"batch_count", "uint32"},
				"ctx.RuleCheckResult":           {"", "opaque"},
				"getTrafficControllersFor(res)": {"", "opaque"},
				"tc.ExtractArgs(ctx)":           {"", "opaque"},
				"r.Status()":                    {"r_status", "uint8"},
				"r.NanosToWait()":               {"r_nanos", "int64"},
			},
			Acts: map[string]act{
				"canPassCheck": {Tag: 7, Keep: []int{2}, Ret: hint{"", "opaque"}},
				"util.Sleep":   {Tag: 8, Keep: []int{0}},
			},
			Errs:      map[string]int{"r": 1},
			RangeVars: map[string]string{"tc": "TrafficShapingController"}},
	)
}

var hotspotStatHints = map[string]hint{
	"ctx.Resource.Name()":                   {"", "opaque"},
	"getTrafficControllersFor(res)":         {"", "opaque"},
	"tc.BoundRule().MetricType":             {"rule_metricType", "int32"},
	"tc.ExtractArgs(ctx)":                   {"", "opaque"},
	"tc.BoundMetric()":                      {"", "opaque"},
	"metric.ConcurrencyCounter.Get(arg)":    {"", "opaque"},
	"metric.ConcurrencyCounter.Get(arg) ok": {"cell_found", "bool"},
	"logging.DebugEnabled()":                {"debug", "bool"},
}

var hotspotStatActs = map[string]act{
	"metric.ConcurrencyCounter.Get": {Tag: 3},
	"atomic.AddInt64":               {Tag: 6, Keep: []int{1}},
}

// hints shared by the two QPS controllers: the prologue of PerformChecking
func hotspotQPSHints(more map[string]hint) map[string]hint {
	h := map[string]hint{
		"c.metric":                 {"", "opaque"},
		"metric.RuleTimeCounter":   {"", "opaque"},
		"metric.RuleTokenCounter":  {"", "opaque"},
		"c.specificItems[arg]":     {"spec_value", "int64"},
		"c.specificItems[arg] ok":  {"spec_existed", "bool"},
		"util.CurrentTimeMillis()": {"now_ms", "uint64"},
	}
	for k, v := range more {
		h[k] = v
	}
	return h
}
