(* C03 leaf obligations: the decision logic of the three circuit breakers of
   core/circuitbreaker/circuit_breaker.go, regenerated from the Go source on every run
   (Gen.Leaf_gen, translator/leaf/targets_breaker.go), equals the transcriptions of
   Model/BreakerLeaf.v for ALL inputs: TryPass (state dispatch, retry-timeout test, the
   Open->HalfOpen attempt, probe-number test), OnRequestComplete (counter adds, state dispatch,
   half-open branch with the probe counter, minimum-amount and threshold tests with the float
   epsilon, second state load, snapshot passed on), retryTimeoutArrived, the deadline store
   (uint64 addition), the bucket count, the four from*To* transitions (CAS first; probe reset,
   deadline update and listener notification only after a successful CAS, in that order) and the
   exit hook that rolls a blocked probe back.  Proofs/BreakerLeafProofs.v shows that the
   sequential model of C03 (Model/Breaker.v: try_pass, decide, rollback, rule_cfg) is exactly
   these functions executed by a single caller.

   Reads of shared state are parameters (the k-th load of the state word, the deadline, the
   clock, the probe counter, the window sums, the CAS result); a function's effects are its
   action trace, encoded by [enc]. *)
From Coq Require Import ZArith Bool Lia Floats List.
From SG Require Import Base.Prelude Base.GoInt Base.GoFloat Model.Breaker Model.BreakerConc Model.BreakerLeaf
  Proofs.BreakerLeafProofs.
From Gen Require Import Leaf_gen.
#[local] Open Scope Z_scope.

Definition enc_snap (s : snap) : leaf_arg := match s with SF f => LF f | SZ z => LZ z end.

Definition enc (a : bact) : leaf_act :=
  (act_code a,
   match a with
   | ACas f t => [LZ (st_code f); LZ (st_code t)]
   | AStoreRetry v => [LZ v]
   | AOnComplete rt e => [LZ rt; LZ e]
   | ANotifyOpen p sn => [LZ (st_code p); enc_snap sn]
   | ANotifyHalf p | ANotifyClosed p => [LZ (st_code p)]
   | AClosedToOpen sn | AHalfToOpen sn => [enc_snap sn]
   | _ => []
   end).

Definition enc_res {A} (r : A * list bact) : A * list leaf_act := (fst r, map enc (snd r)).

(* ---- proof automation: robust against harmless rewrites of the Go text (renamed locals,
   re-associated / negated integer comparisons, if-else chains vs switch, early returns) ---- *)

Ltac zb :=
  repeat match goal with
         | H : (_ <? _) = true |- _ => apply Z.ltb_lt in H
         | H : (_ <? _) = false |- _ => apply Z.ltb_ge in H
         | H : (_ <=? _) = true |- _ => apply Z.leb_le in H
         | H : (_ <=? _) = false |- _ => apply Z.leb_gt in H
         | H : (_ =? _) = true |- _ => apply Z.eqb_eq in H
         | H : (_ =? _) = false |- _ => apply Z.eqb_neq in H
         end.

(* comparisons of two constants (state codes after a case split on the state) *)
Ltac eval_closed :=
  repeat match goal with
         | |- context [Z.eqb ?a ?b] =>
             let v := eval vm_compute in (Z.eqb a b) in
             match v with
             | true => change (Z.eqb a b) with true
             | false => change (Z.eqb a b) with false
             end
         end.

Ltac simp := cbv zeta; eval_closed; cbn [andb orb negb fst snd map app Bool.eqb].

(* case split on the leftmost atom of a boolean condition *)
Ltac atom c :=
  lazymatch c with
  | orb ?x _ => atom x
  | andb ?x _ => atom x
  | negb ?x => atom x
  | _ => destruct c eqn:?
  end.

Ltac split_conds :=
  repeat (match goal with |- context [if ?c then _ else _] => atom c end; simp).

Ltac split_cmps :=
  repeat (match goal with
          | |- context [Z.ltb ?a ?b] => destruct (Z.ltb a b) eqn:?
          | |- context [Z.leb ?a ?b] => destruct (Z.leb a b) eqn:?
          | |- context [Z.eqb ?a ?b] => destruct (Z.eqb a b) eqn:?
          end; simp).

(* congruence down to integer equations (operands of + re-ordered, inside u64 / constructors) *)
Ltac zcong := first [ reflexivity | lia | (progress f_equal; zcong) ].

Ltac leaf_solve :=
  simp; split_conds; split_cmps;
  first [ reflexivity | exfalso; zb; lia
        | cbv beta iota delta [enc act_code enc_snap st_code enc_res fst snd]; zcong ].

(* ---- circuitBreakerBase ---- *)

Lemma cb_retryTimeoutArrived_ok deadline now :
  cb_retryTimeoutArrived deadline now = retry_arrived deadline now.
Proof. unfold cb_retryTimeoutArrived, retry_arrived. leaf_solve. Qed.

Lemma cb_updateNextRetryTimestamp_ok retry now :
  cb_updateNextRetryTimestamp retry now = map enc (retry_store now retry).
Proof. unfold cb_updateNextRetryTimestamp, retry_store, retry_value. leaf_solve. Qed.

Lemma cb_bucketCount_ok interval raw : cb_bucketCount interval raw = bucket_count interval raw.
Proof. unfold cb_bucketCount, bucket_count. leaf_solve. Qed.

Lemma cb_fromClosedToOpen_ok ok z :
  cb_fromClosedToOpen ok z = enc_res (from_closed_to_open_leaf ok (SZ z)).
Proof. unfold cb_fromClosedToOpen. destruct ok; leaf_solve. Qed.

Lemma cb_fromOpenToHalfOpen_ok ok entry_nil :
  cb_fromOpenToHalfOpen ok entry_nil = enc_res (from_open_to_half_leaf ok entry_nil).
Proof. unfold cb_fromOpenToHalfOpen. destruct ok, entry_nil; leaf_solve. Qed.

Lemma cb_fromHalfOpenToOpen_ok ok z :
  cb_fromHalfOpenToOpen ok z = enc_res (from_half_to_open_leaf ok (SZ z)).
Proof. unfold cb_fromHalfOpenToOpen. destruct ok; leaf_solve. Qed.

Lemma cb_fromHalfOpenToClosed_ok ok :
  cb_fromHalfOpenToClosed ok = enc_res (from_half_to_closed_leaf ok).
Proof. unfold cb_fromHalfOpenToClosed. destruct ok; leaf_solve. Qed.

(* the hook returns nil (0) and performs the rollback of a blocked probe *)
Lemma cb_rollbackHook_ok blocked ok :
  cb_rollbackHook blocked ok = (0, map enc (rollback_leaf blocked ok)).
Proof. unfold cb_rollbackHook. destruct blocked, ok; leaf_solve. Qed.

(* ---- TryPass ---- *)

Lemma cb_slow_TryPass_ok probe ok deadline now st :
  cb_slow_TryPass probe ok deadline now (st_code st) = enc_res (try_pass_leaf probe st deadline now ok).
Proof.
  unfold cb_slow_TryPass, try_pass_leaf, retry_arrived, enc_res.
  destruct st, ok; cbn [st_code]; leaf_solve.
Qed.

Lemma cb_errRatio_TryPass_ok probe ok deadline now st :
  cb_errRatio_TryPass probe ok deadline now (st_code st) = enc_res (try_pass_leaf probe st deadline now ok).
Proof.
  unfold cb_errRatio_TryPass, try_pass_leaf, retry_arrived, enc_res.
  destruct st, ok; cbn [st_code]; leaf_solve.
Qed.

Lemma cb_errCount_TryPass_ok probe ok deadline now st :
  cb_errCount_TryPass probe ok deadline now (st_code st) = enc_res (try_pass_leaf probe st deadline now ok).
Proof.
  unfold cb_errCount_TryPass, try_pass_leaf, retry_arrived, enc_res.
  destruct st, ok; cbn [st_code]; leaf_solve.
Qed.

(* ---- OnRequestComplete ---- *)

(* slow-request ratio: maxAllowedRt, maxSlowRequestRatio = Threshold, minRequestAmount, probeNumber *)
Lemma cb_slow_OnRequestComplete_ok c cur_ok s1 s2 p rt err B T :
  strat c = SlowRatio ->
  cb_slow_OnRequestComplete (max_rt c) (thr c) (min_amt c) (probe_num c) B cur_ok p rt (st_code s1) (st_code s2) T
  = map enc (complete_leaf c cur_ok s1 s2 p (is_bad c rt err) B T).
Proof.
  intros Hs. unfold cb_slow_OnRequestComplete, complete_leaf, adds_leaf, decide_leaf, is_bad, reached,
    open_snapshot, probe_fail_snapshot, ratio. rewrite Hs.
  destruct cur_ok, s1, s2; cbn [st_code]; leaf_solve.
Qed.

(* error ratio: errorRatioThreshold = Threshold *)
Lemma cb_errRatio_OnRequestComplete_ok c cur_ok s1 s2 p rt err B T :
  strat c = ErrRatio ->
  cb_errRatio_OnRequestComplete (thr c) (min_amt c) (probe_num c) B cur_ok p (negb err) (st_code s1) (st_code s2) T
  = map enc (complete_leaf c cur_ok s1 s2 p (is_bad c rt err) B T).
Proof.
  intros Hs. unfold cb_errRatio_OnRequestComplete, complete_leaf, adds_leaf, decide_leaf, is_bad, reached,
    open_snapshot, probe_fail_snapshot, ratio. rewrite Hs.
  destruct cur_ok, err, s1, s2; cbn [st_code]; leaf_solve.
Qed.

(* error count: errorCountThreshold = uint64(Threshold) (set by the constructor) *)
Lemma cb_errCount_OnRequestComplete_ok c cur_ok s1 s2 p rt err B T :
  strat c = ErrCount ->
  cb_errCount_OnRequestComplete (go_u64_of_f (thr c)) (min_amt c) (probe_num c) B cur_ok p (negb err) (st_code s1) (st_code s2) T
  = map enc (complete_leaf c cur_ok s1 s2 p (is_bad c rt err) B T).
Proof.
  intros Hs. unfold cb_errCount_OnRequestComplete, complete_leaf, adds_leaf, decide_leaf, is_bad, reached,
    open_snapshot, probe_fail_snapshot. rewrite Hs.
  destruct cur_ok, err, s1, s2; cbn [st_code]; leaf_solve.
Qed.

(* ---- one iteration of the window-sum loop (translator mode LoopBody): after the prologue (error
   return of currentCounter, the two counter adds) the body adds the bucket's counters with uint64
   wrap-around and continues; Proofs.BreakerLeafProofs.sum_loop_exact: iterating it gives the exact
   sums while they stay below 2^64 ---- *)

Lemma cb_slow_sum_step_ok maxrt a b cur_ok rt s t :
  cb_slow_sum_step maxrt a b cur_ok rt s t =
  if cur_ok then (LContinue (sum_step s t a b), map enc (adds_leaf (maxrt <? rt))) else (LReturn tt, []).
Proof. unfold cb_slow_sum_step, sum_step, adds_leaf. destruct cur_ok; leaf_solve. Qed.

Lemma cb_errRatio_sum_step_ok a b cur_ok err s t :
  cb_errRatio_sum_step a b cur_ok (negb err) s t =
  if cur_ok then (LContinue (sum_step s t a b), map enc (adds_leaf err)) else (LReturn tt, []).
Proof. unfold cb_errRatio_sum_step, sum_step, adds_leaf. destruct cur_ok, err; leaf_solve. Qed.

Lemma cb_errCount_sum_step_ok a b cur_ok err s t :
  cb_errCount_sum_step a b cur_ok (negb err) s t =
  if cur_ok then (LContinue (sum_step s t a b), map enc (adds_leaf err)) else (LReturn tt, []).
Proof. unfold cb_errCount_sum_step, sum_step, adds_leaf. destruct cur_ok, err; leaf_solve. Qed.

(* ---- the sequential model of C03 is these functions run by one caller (Proofs/BreakerLeafProofs.v) ---- *)

(* ---- MetricStatSlot.OnCompleted, one iteration of the loop over the breakers (LoopBody): exactly one
   OnRequestComplete with the entry's rt and error, then on to the next breaker; the entry's batch
   count, types, args and attachments are not parameters of the regenerated function at all
   (Proofs.BreakerLeafProofs.complete_all_once: the model's complete_all does the same) ---- *)
Lemma cb_statSlot_step_ok rt e :
  cb_statSlot_step rt e = (LContinue tt, map enc (stat_slot_step rt e)).
Proof. unfold cb_statSlot_step, stat_slot_step. leaf_solve. Qed.

Theorem C03_try_pass_regenerated c b now :
  cb_slow_TryPass (probe_num c) true (next_retry b) now (st_code (state b))
    = enc_res (try_pass_leaf (probe_num c) (state b) (next_retry b) now true)
  /\ try_pass c b now =
     (let r := try_pass_leaf (probe_num c) (state b) (next_retry b) now true in
      let s := seq_run c now b (snd r) in (q_b s, fst r, q_ev s, q_hook s)).
Proof. split; [apply cb_slow_TryPass_ok | apply try_pass_is_leaf]. Qed.

Print Assumptions cb_retryTimeoutArrived_ok.
Print Assumptions cb_updateNextRetryTimestamp_ok.
Print Assumptions cb_bucketCount_ok.
Print Assumptions cb_fromClosedToOpen_ok.
Print Assumptions cb_fromOpenToHalfOpen_ok.
Print Assumptions cb_fromHalfOpenToOpen_ok.
Print Assumptions cb_fromHalfOpenToClosed_ok.
Print Assumptions cb_rollbackHook_ok.
Print Assumptions cb_slow_TryPass_ok.
Print Assumptions cb_errRatio_TryPass_ok.
Print Assumptions cb_errCount_TryPass_ok.
Print Assumptions cb_slow_OnRequestComplete_ok.
Print Assumptions cb_errRatio_OnRequestComplete_ok.
Print Assumptions cb_errCount_OnRequestComplete_ok.
Print Assumptions C03_try_pass_regenerated.
Print Assumptions cb_slow_sum_step_ok.
Print Assumptions cb_errRatio_sum_step_ok.
Print Assumptions cb_errCount_sum_step_ok.
Print Assumptions cb_statSlot_step_ok.
