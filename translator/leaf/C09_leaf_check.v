(* C09 leaf obligations: the prologue and ONE ITERATION of the spin loop of
   LeapArray.currentBucketOfTime, and BucketLeapArray.ResetBucketTo, regenerated from the Go source
   on every run (Gen.Leaf_gen, loop-body mode + action traces of translator/leaf), against the
   program-counter machine of Model/LeapArrayConc.v that every C09 theorem is about.

   What enters as parameters: the slot pointer load (old_nil; its index is recorded in the trace as
   action 5 [idx]), the up to three loads of old.BucketStart in the if-chain (ws_1 ws_2 ws_3: each
   evaluation is its own atomic access, so they may differ), TryLock's and compareAndSet's outcome.
   What is regenerated: the `now <= 0` guard, the index and bucket-start arithmetic, the decision
   among "same start -> use it / older start -> TryLock, reset, Unlock / newer start -> use it
   when there is one bucket, else error / none of the three -> spin again", the order of the
   effects on the lock path (trace: 1 TryLock, 2 ResetBucketTo [start], 3 Unlock), and inside
   ResetBucketTo the order "clear the counters (1), then publish the start (2 [start])".

   [cb_spec] below states one iteration with the model's own bidx / bstart; the pc_* lemmas show
   that each of its branch conditions and effects is, one by one, the transition of the model's
   pcs PBegin / PLoad1 / PLoad2 / PLoad3 / PTryLock / PStoreStart / PUnlock. *)
From Coq Require Import ZArith Bool Lia List Arith.
From SG Require Import Base.Prelude Base.GoInt Model.LeapArrayConc.
From Gen Require Import Leaf_gen.
#[local] Open Scope Z_scope.
Transparent two32 two63 two64 two31.

Ltac split_ifs :=
  repeat match goal with |- context [if ?c then _ else _] => destruct c eqn:? end.
Ltac bool_facts :=
  repeat match goal with
  | H : negb _ = true |- _ => apply negb_true_iff in H
  | H : negb _ = false |- _ => apply negb_false_iff in H
  | H : (_ <? _) = true |- _ => apply Z.ltb_lt in H
  | H : (_ <? _) = false |- _ => apply Z.ltb_ge in H
  | H : (_ <=? _) = true |- _ => apply Z.leb_le in H
  | H : (_ <=? _) = false |- _ => apply Z.leb_gt in H
  | H : (_ =? _) = true |- _ => apply Z.eqb_eq in H
  | H : (_ =? _) = false |- _ => apply Z.eqb_neq in H
  | H : Nat.eqb _ _ = true |- _ => apply Nat.eqb_eq in H
  | H : Nat.eqb _ _ = false |- _ => apply Nat.eqb_neq in H
  end.
Ltac leaf_cases := split_ifs; bool_facts; first [reflexivity | exfalso; lia].

Definition act0 (tag : Z) : leaf_act := (tag, @nil leaf_arg).

(* one iteration (with the prologue), stated with the model's geometry functions *)
Definition cb_spec (g : geom) (now : Z) (old_nil cas_ok lock_ok : bool) (ws1 ws2 ws3 : Z)
  : leaf_flow (Z * Z) unit * list leaf_act :=
  if now <=? 0 then (LReturn (0, 1), []) else
  let get : leaf_act := (5, [LZ (Z.of_nat (bidx g now))]) in
  let bs := bstart g now in
  if old_nil then (if cas_ok then (LReturn (1, 0), [get; act0 4]) else (LContinue tt, [get; act0 4])) else
  if bs =? ws1 then (LReturn (1, 0), [get]) else
  if ws2 <? bs then
    (if lock_ok then (LReturn (1, 0), [get; act0 1; (2, [LZ bs]); act0 3]) else (LContinue tt, [get; act0 1])) else
  if bs <? ws3 then (if Nat.eqb (g_n g) 1 then (LReturn (1, 0), [get]) else (LReturn (0, 1), [get]))
  else (LContinue tt, [get]).

Lemma gen_bstart bl now : 0 <= now < two63 -> 0 < bl -> calculateStartTime bl now = now - now mod bl.
Proof.
  intros Hn Hb. unfold calculateStartTime. apply u64_id. unfold in_u64, two64, two63 in *.
  pose proof (Z.mod_pos_bound now bl Hb). pose proof (Z.mod_le now bl ltac:(lia) Hb). lia.
Qed.

Lemma gen_idx n bl now : 0 <= now < two63 -> 0 < bl -> (0 < n)%nat ->
  Z.rem (i64 (now / bl)) (Z.of_nat n) = Z.of_nat (Z.to_nat ((now / bl) mod Z.of_nat n)).
Proof.
  intros Hn Hb Hl.
  assert (Hq : 0 <= now / bl <= now).
  { split; [apply Z.div_pos; lia|]. apply Z.div_le_upper_bound; nia. }
  rewrite i64_id by (unfold in_i64, two63 in *; lia).
  rewrite Z.rem_mod_nonneg by lia.
  rewrite Z2Nat.id; [reflexivity|]. apply Z.mod_pos_bound. lia.
Qed.

(* the regenerated prologue + iteration = cb_spec, for every geometry, instant, loaded values and
   CAS / TryLock outcome (la.array.length = la.sampleCount = n, la.bucketLengthInMs = bl) *)
Theorem leapArray_currentBucketOfTime_step_ok g now old_nil cas_ok lock_ok ws1 ws2 ws3 :
  now < two63 -> 0 < g_bl g -> (0 < g_n g)%nat ->
  leapArray_currentBucketOfTime_step (Z.of_nat (g_n g)) cas_ok (g_bl g) (Z.of_nat (g_n g)) lock_ok now old_nil ws1 ws2 ws3
  = cb_spec g now old_nil cas_ok lock_ok ws1 ws2 ws3.
Proof.
  intros Hn Hb Hl. unfold leapArray_currentBucketOfTime_step, cb_spec, act0, bidx, bstart.
  destruct (now <=? 0) eqn:E0; [reflexivity|]. apply Z.leb_gt in E0.
  cbv zeta. rewrite (gen_bstart (g_bl g) now) by lia. rewrite (gen_idx (g_n g) (g_bl g) now) by lia.
  assert (H1 : (Z.of_nat (g_n g) =? 1) = Nat.eqb (g_n g) 1).
  { destruct (Nat.eqb (g_n g) 1) eqn:E; bool_facts; [rewrite E; reflexivity|apply Z.eqb_neq; lia]. }
  destruct old_nil; [destruct cas_ok; reflexivity|].
  destruct lock_ok; split_ifs; bool_facts; first [reflexivity | exfalso; lia | exfalso; congruence].
Qed.

(* ---- the model's pcs, one by one ------------------------------------------------------------ *)
Section Pcs.
Variables (g : geom) (tid : nat) (s : shared) (t : thread) (o : op) (r : list op).
Hypothesis Hops : t_ops t = o :: r.
Let now := t_now t.
Let bs := bstart g now.
Let idx := bidx g now.
Let cur := nth idx (slots s) dslot.

(* `if now <= 0 { return nil, error }`: a recorder gives up, a reader goes on to return 0 *)
Lemma pc_begin : t_pc t = PBegin -> clock s <= 0 ->
  fst (tstep g tid s t) = ENone /\
  t_pc (snd (tstep g tid s t)) = match o with ORecord _ _ => start_pc r | ORead _ => PRet end.
Proof.
  intros Hpc Hc. unfold tstep. rewrite Hops, Hpc. apply Z.leb_le in Hc. rewrite Hc.
  destruct o; cbn; rewrite ?Hops; split; reflexivity.
Qed.

(* first test `bucketStart == load(old.BucketStart)` -> return old *)
Lemma pc_load1 : t_pc t = PLoad1 ->
  tstep g tid s t = (ENone, if bs =? s_start cur then after_cb true t else set_pc t PLoad2).
Proof. intros Hpc. unfold tstep. rewrite Hops, Hpc. fold now bs idx cur. destruct (bs =? s_start cur); reflexivity. Qed.

(* second test `bucketStart > load(old.BucketStart)` -> TryLock *)
Lemma pc_load2 : t_pc t = PLoad2 ->
  tstep g tid s t = (ENone, if s_start cur <? bs then set_pc t PTryLock else set_pc t PLoad3).
Proof. intros Hpc. unfold tstep. rewrite Hops, Hpc. fold now bs idx cur. destruct (s_start cur <? bs); reflexivity. Qed.

(* third test `bucketStart < load(old.BucketStart)` -> old when sampleCount == 1, else the error;
   none of the three -> spin (back to the slot load) *)
Lemma pc_load3 : t_pc t = PLoad3 ->
  tstep g tid s t = (ENone, if bs <? s_start cur
                            then (if Nat.eqb (g_n g) 1 then after_cb true t else after_cb false t)
                            else set_pc t PGet).
Proof.
  intros Hpc. unfold tstep. rewrite Hops, Hpc. fold now bs idx cur.
  destruct (bs <? s_start cur); [destruct (Nat.eqb (g_n g) 1)|]; reflexivity.
Qed.

(* TryLock: failed -> spin; taken -> (after fix 43206f8) clear the counters first *)
Lemma pc_trylock : t_pc t = PTryLock -> g_zero_first g = true ->
  tstep g tid s t = if lock s then (ENone, set_pc t PGet) else (ELock true, set_pc t (PZero 0)).
Proof. intros Hpc Hz. unfold tstep. rewrite Hops, Hpc, Hz. destruct (lock s); reflexivity. Qed.

(* ... the last clearing store is followed by the store of BucketStart := bucketStart ... *)
Lemma pc_zeromax : t_pc t = PZeroMax -> g_zero_first g = true ->
  tstep g tid s t = (EMaxC idx 0, set_pc t PStoreStart).
Proof. intros Hpc Hz. unfold tstep. rewrite Hops, Hpc, Hz. reflexivity. Qed.

Lemma pc_storestart : t_pc t = PStoreStart -> g_zero_first g = true ->
  tstep g tid s t = (EStart idx bs, set_pc t PUnlock).
Proof. intros Hpc Hz. unfold tstep. rewrite Hops, Hpc, Hz. reflexivity. Qed.

(* ... then Unlock and `return old, nil` *)
Lemma pc_unlock : t_pc t = PUnlock -> tstep g tid s t = (ELock false, after_cb true t).
Proof. intros Hpc. unfold tstep. rewrite Hops, Hpc. reflexivity. Qed.
End Pcs.

(* BucketLeapArray.ResetBucketTo: mb.reset() BEFORE atomic.StoreUint64(&bw.BucketStart, startTime)
   (the order of fix 43206f8; g_zero_first = true in the model), returns bw *)
Lemma bucketLeapArray_ResetBucketTo_ok st :
  bucketLeapArray_ResetBucketTo st = (1, [act0 1; (2, [LZ st])]).
Proof. reflexivity. Qed.

(* the parameters are positional: pin their NAMES (the struct fields / reads the Go code uses in
   each position), so that reading another field of the same type in the same place is noticed *)
Section ParamNames.
Import Coq.Strings.String.
Local Open Scope string_scope.
Local Open Scope list_scope.
Lemma leapArray_currentBucketOfTime_step_params : LeafParams.leapArray_currentBucketOfTime_step = "array_length" :: "cas_ok" :: "la_bucketLengthInMs" :: "la_sampleCount" :: "lock_ok" :: "now" :: "old_nil" :: "ws_1" :: "ws_2" :: "ws_3" :: nil.
Proof. reflexivity. Qed.
End ParamNames.

Print Assumptions leapArray_currentBucketOfTime_step_ok.
Print Assumptions pc_begin.
Print Assumptions pc_load1.
Print Assumptions pc_load2.
Print Assumptions pc_load3.
Print Assumptions pc_trylock.
Print Assumptions pc_zeromax.
Print Assumptions pc_storestart.
Print Assumptions pc_unlock.
Print Assumptions bucketLeapArray_ResetBucketTo_ok.
