// autoinline.go (round 3c): robustness of regeneration against extract-helper refactorings.
//
// A call that nothing else can translate - no hint, no Calls / Inline entry, no recorded action, no
// built-in - and whose callee is a function of the SAME package with a body (a plain function, or a
// method called on a struct variable / the receiver) is inlined as if it were listed in the target's
// Inline table: the callee is translated with the caller's hint table, scalar arguments are bound to
// its parameters, struct-pointer arguments alias the caller's variables.  This is only a LAST RESORT:
// on a tree where every target already translates the output is unchanged, and because the helper's
// body becomes part of the generated definition a change of the helper still changes the definition
// (a meaning-changing edit of an extracted helper breaks the obligation exactly as before the
// extraction).  Nesting is bounded.
package main

import (
	"go/ast"
	"go/parser"
	"go/token"
	"os"
	"reflect"
	"strconv"
	"strings"
)

const maxAutoInlineDepth = 6

// round3c: LEAF_NO3C=1 switches the round-3c widenings off (used to check that they change nothing on a tree
// where every target already translates: the two outputs must be byte-identical)
var round3c = os.Getenv("LEAF_NO3C") == ""

// autoInline: the last resort of call()
func (x *tr) autoInline(ce *ast.CallExpr) (val, bool) {
	if x.autoDepth >= maxAutoInlineDepth || !round3c {
		return val{}, false
	}
	if c, _ := x.resolveCallee(ce); c != nil && !inlinable(c) {
		return val{}, false
	}
	x.autoMode = true
	defer func() { x.autoMode = false }()
	return x.inline(ce)
}

// ---------------------------------------------------------------------------------------------
// Statement-level inlining by beta-reduction on the syntax tree.
//
// expandCall turns a call of a same-package function into plain Go statements in the caller's scope:
//   - a parameter (or the receiver) whose argument is a variable / a selector path / a literal and
//     that the callee never assigns is REPLACED by the argument expression, so that expressions of the
//     helper read exactly as they read before the extraction (hints and recorded actions, which are
//     keyed by source text, match again); any other parameter becomes a fresh local `p__k`;
//   - the callee's locals and named results are renamed `v__k` (no capture);
//   - with keepReturns the body is used as it is (a tail call `return f(args)`: the callee's returns are
//     the caller's); otherwise returns are eliminated: `return e1, e2` becomes `ret__k_1 = e1;
//     ret__k_2 = e2` and the statements that follow a returning branch move into the other branch.
// Used, again only as a last resort, for `f(args)` as a statement, `return f(args)` and
// `a, b := f(args)` / `a, b = f(args)`.

type expansion struct {
	stmts   []ast.Stmt
	results []string // variables holding the results (empty with keepReturns)
}

func (x *tr) resolveCallee(ce *ast.CallExpr) (*ast.FuncDecl, ast.Expr) {
	switch f := ce.Fun.(type) {
	case *ast.Ident:
		if d := x.p.funcs[f.Name]; d != nil && d.Recv == nil && d.Body != nil {
			return d, nil
		}
	case *ast.SelectorExpr:
		id, ok := f.X.(*ast.Ident)
		if !ok {
			return nil, nil
		}
		t, ok := x.vars[id.Name]
		if !ok || !(strings.HasPrefix(t, "ptr:") || strings.HasPrefix(t, "struct:")) {
			return nil, nil
		}
		name := t[strings.Index(t, ":")+1:] + "." + f.Sel.Name
		d := x.p.funcs[name]
		if d == nil {
			_, d = x.p.promotedMethod(name)
		}
		if d != nil && d.Body != nil {
			return d, id
		}
	}
	return nil, nil
}

var expandSeq int

func simpleArg(e ast.Expr) bool {
	switch e := e.(type) {
	case *ast.Ident, *ast.BasicLit:
		return true
	case *ast.SelectorExpr:
		return simpleArg(e.X)
	case *ast.ParenExpr:
		return simpleArg(e.X)
	}
	return false
}

// clearPositions zeroes every token.Pos of a private syntax tree
func clearPositions(n ast.Node) {
	posType := reflect.TypeOf(token.NoPos)
	ast.Inspect(n, func(m ast.Node) bool {
		if m == nil {
			return true
		}
		v := reflect.ValueOf(m)
		if v.Kind() == reflect.Ptr && !v.IsNil() && v.Elem().Kind() == reflect.Struct {
			e := v.Elem()
			for i := 0; i < e.NumField(); i++ {
				if f := e.Field(i); f.Type() == posType && f.CanSet() {
					f.SetInt(0)
				}
			}
		}
		return true
	})
}

// stripPos: a copy of a simple argument without positions (the printer then keeps it on the line it is put in)
func stripPos(e ast.Expr) ast.Expr {
	switch e := e.(type) {
	case *ast.Ident:
		return ast.NewIdent(e.Name)
	case *ast.BasicLit:
		return &ast.BasicLit{Kind: e.Kind, Value: e.Value}
	case *ast.SelectorExpr:
		return &ast.SelectorExpr{X: stripPos(e.X), Sel: ast.NewIdent(e.Sel.Name)}
	case *ast.ParenExpr:
		return &ast.ParenExpr{X: stripPos(e.X)}
	}
	return e
}

func (x *tr) expandCall(ce *ast.CallExpr, keepReturns bool) (*expansion, bool) {
	if x.autoDepth >= maxAutoInlineDepth || !round3c {
		return nil, false
	}
	callee, recvArg := x.resolveCallee(ce)
	if callee == nil {
		return nil, false
	}
	if !inlinable(callee) {
		return nil, false
	}
	hasDefer := false
	ast.Inspect(callee.Body, func(n ast.Node) bool {
		switch n.(type) {
		case *ast.DeferStmt, *ast.GoStmt, *ast.LabeledStmt:
			hasDefer = true
		}
		return true
	})
	if hasDefer || callee.Type.Params == nil {
		return nil, false
	}
	expandSeq++
	k := strconv.Itoa(expandSeq)
	// a private copy of the body in the same file set
	text := "package p\nfunc _f() " + src(x.p.fset, callee.Body) + "\n"
	f, err := parser.ParseFile(x.p.fset, "autoinline_"+k+".go", text, 0)
	if err != nil {
		return nil, false
	}
	body := f.Decls[0].(*ast.FuncDecl).Body
	// names
	assigned := map[string]bool{}
	assignedIn(body, assigned)
	ast.Inspect(body, func(n ast.Node) bool {
		if u, ok := n.(*ast.UnaryExpr); ok && u.Op == token.AND {
			if id, ok := u.X.(*ast.Ident); ok {
				assigned[id.Name] = true
			}
		}
		return true
	})
	subst := map[string]ast.Expr{}
	rename := map[string]string{}
	var pre []ast.Stmt
	bind := func(name string, typ ast.Expr, arg ast.Expr) {
		if name == "_" || name == "" {
			return
		}
		if simpleArg(arg) && !assigned[name] {
			subst[name] = stripPos(arg)
			return
		}
		fresh := name + "__" + k
		rename[name] = fresh
		ts := src(x.p.fset, typ)
		if isBasic(x.underlying(ts)) || ts == "string" {
			pre = append(pre, &ast.DeclStmt{Decl: &ast.GenDecl{Tok: token.VAR, Specs: []ast.Spec{
				&ast.ValueSpec{Names: []*ast.Ident{ast.NewIdent(fresh)}, Type: typ, Values: []ast.Expr{arg}}}}})
		} else {
			pre = append(pre, &ast.AssignStmt{Lhs: []ast.Expr{ast.NewIdent(fresh)}, Tok: token.DEFINE, Rhs: []ast.Expr{arg}})
		}
	}
	if callee.Recv != nil {
		for _, fl := range callee.Recv.List {
			for _, n := range fl.Names {
				bind(n.Name, fl.Type, recvArg)
			}
		}
	}
	i := 0
	for _, fl := range callee.Type.Params.List {
		if _, variadic := fl.Type.(*ast.Ellipsis); variadic {
			return nil, false
		}
		for _, n := range fl.Names {
			if i >= len(ce.Args) {
				return nil, false
			}
			bind(n.Name, fl.Type, ce.Args[i])
			i++
		}
		if len(fl.Names) == 0 {
			i++
		}
	}
	if i != len(ce.Args) {
		return nil, false
	}
	ex := &expansion{}
	// results
	var resTypes []ast.Expr
	if callee.Type.Results != nil {
		for _, fl := range callee.Type.Results.List {
			n := len(fl.Names)
			if n == 0 {
				n = 1
			}
			for j := 0; j < n; j++ {
				resTypes = append(resTypes, fl.Type)
				if len(fl.Names) > 0 {
					if keepReturns {
						return nil, false // named results of a tail call: not supported
					}
					rename[fl.Names[j].Name] = fl.Names[j].Name + "__" + k
				}
			}
		}
	}
	// locals
	declare := func(id *ast.Ident) {
		if id.Name != "_" {
			if _, isParam := subst[id.Name]; isParam {
				delete(subst, id.Name) // shadowed by a local: leave both alone is unsafe; give up the substitution
			}
			rename[id.Name] = id.Name + "__" + k
		}
	}
	ast.Inspect(body, func(n ast.Node) bool {
		switch n := n.(type) {
		case *ast.AssignStmt:
			if n.Tok == token.DEFINE {
				for _, l := range n.Lhs {
					if id, ok := l.(*ast.Ident); ok {
						if _, already := rename[id.Name]; !already {
							declare(id)
						}
					}
				}
			}
		case *ast.ValueSpec:
			for _, id := range n.Names {
				declare(id)
			}
		case *ast.RangeStmt:
			if n.Tok == token.DEFINE {
				for _, e := range []ast.Expr{n.Key, n.Value} {
					if id, ok := e.(*ast.Ident); ok {
						declare(id)
					}
				}
			}
		case *ast.FuncLit:
			return false
		}
		return true
	})
	body = rewriteIdents(body, subst, rename).(*ast.BlockStmt)
	clearPositions(body) // printed canonically, wherever its pieces came from
	if keepReturns {
		ex.stmts = append(pre, body.List...)
		return ex, true
	}
	for j, t := range resTypes {
		name := "ret__" + k + "_" + strconv.Itoa(j+1)
		if callee.Type.Results != nil {
			// a named result keeps its (renamed) name
			idx := 0
			for _, fl := range callee.Type.Results.List {
				for _, n := range fl.Names {
					if idx == j {
						name = rename[n.Name]
					}
					idx++
				}
			}
		}
		ex.results = append(ex.results, name)
		pre = append(pre, &ast.DeclStmt{Decl: &ast.GenDecl{Tok: token.VAR, Specs: []ast.Spec{
			&ast.ValueSpec{Names: []*ast.Ident{ast.NewIdent(name)}, Type: t}}}})
	}
	out, ok := elimReturns(body.List, nil, ex.results)
	if !ok {
		return nil, false
	}
	ex.stmts = append(pre, out...)
	return ex, true
}

// rewriteIdents: replace / rename free occurrences of identifiers (not selectors' field names, not keys of
// composite literals)
func rewriteIdents(n ast.Node, subst map[string]ast.Expr, rename map[string]string) ast.Node {
	var expr func(e ast.Expr) ast.Expr
	var stmt func(s ast.Stmt) ast.Stmt
	exprs := func(es []ast.Expr) {
		for i := range es {
			es[i] = expr(es[i])
		}
	}
	block := func(b *ast.BlockStmt) {
		if b != nil {
			for i := range b.List {
				b.List[i] = stmt(b.List[i])
			}
		}
	}
	expr = func(e ast.Expr) ast.Expr {
		switch e := e.(type) {
		case nil:
			return nil
		case *ast.Ident:
			if r, ok := rename[e.Name]; ok {
				return &ast.Ident{NamePos: e.NamePos, Name: r}
			}
			if a, ok := subst[e.Name]; ok {
				return a
			}
		case *ast.SelectorExpr:
			e.X = expr(e.X)
		case *ast.ParenExpr:
			e.X = expr(e.X)
		case *ast.StarExpr:
			e.X = expr(e.X)
		case *ast.UnaryExpr:
			e.X = expr(e.X)
		case *ast.BinaryExpr:
			e.X, e.Y = expr(e.X), expr(e.Y)
		case *ast.CallExpr:
			e.Fun = expr(e.Fun)
			exprs(e.Args)
		case *ast.IndexExpr:
			e.X, e.Index = expr(e.X), expr(e.Index)
		case *ast.SliceExpr:
			e.X, e.Low, e.High, e.Max = expr(e.X), expr(e.Low), expr(e.High), expr(e.Max)
		case *ast.TypeAssertExpr:
			e.X = expr(e.X)
		case *ast.KeyValueExpr:
			e.Value = expr(e.Value)
		case *ast.CompositeLit:
			exprs(e.Elts)
		}
		return e
	}
	stmt = func(s ast.Stmt) ast.Stmt {
		switch s := s.(type) {
		case *ast.ExprStmt:
			s.X = expr(s.X)
		case *ast.AssignStmt:
			exprs(s.Lhs)
			exprs(s.Rhs)
		case *ast.IncDecStmt:
			s.X = expr(s.X)
		case *ast.ReturnStmt:
			exprs(s.Results)
		case *ast.DeclStmt:
			if gd, ok := s.Decl.(*ast.GenDecl); ok {
				for _, sp := range gd.Specs {
					if vs, ok := sp.(*ast.ValueSpec); ok {
						for i, id := range vs.Names {
							if r, ok := rename[id.Name]; ok {
								vs.Names[i] = &ast.Ident{NamePos: id.NamePos, Name: r}
							}
						}
						exprs(vs.Values)
					}
				}
			}
		case *ast.BlockStmt:
			block(s)
		case *ast.IfStmt:
			if s.Init != nil {
				s.Init = stmt(s.Init)
			}
			s.Cond = expr(s.Cond)
			block(s.Body)
			if s.Else != nil {
				s.Else = stmt(s.Else)
			}
		case *ast.SwitchStmt:
			if s.Init != nil {
				s.Init = stmt(s.Init)
			}
			s.Tag = expr(s.Tag)
			block(s.Body)
		case *ast.CaseClause:
			exprs(s.List)
			for i := range s.Body {
				s.Body[i] = stmt(s.Body[i])
			}
		case *ast.ForStmt:
			if s.Init != nil {
				s.Init = stmt(s.Init)
			}
			s.Cond = expr(s.Cond)
			if s.Post != nil {
				s.Post = stmt(s.Post)
			}
			block(s.Body)
		case *ast.RangeStmt:
			s.Key, s.Value, s.X = expr(s.Key), expr(s.Value), expr(s.X)
			block(s.Body)
		}
		return s
	}
	if b, ok := n.(*ast.BlockStmt); ok {
		block(b)
		return b
	}
	return n
}

func containsReturn(n ast.Node) bool {
	found := false
	ast.Inspect(n, func(m ast.Node) bool {
		switch m.(type) {
		case *ast.ReturnStmt:
			found = true
		case *ast.FuncLit:
			return false
		}
		return !found
	})
	return found
}

// elimReturns: the statements `list` followed by `cont`, where a return skips everything that follows and
// assigns its values to the result variables
func elimReturns(list []ast.Stmt, cont []ast.Stmt, results []string) ([]ast.Stmt, bool) {
	if len(list) == 0 {
		return cont, true
	}
	s, r := list[0], list[1:]
	switch s := s.(type) {
	case *ast.ReturnStmt:
		var out []ast.Stmt
		if len(s.Results) != 0 {
			if len(s.Results) != len(results) {
				return nil, false
			}
			for i, e := range s.Results {
				out = append(out, &ast.AssignStmt{Lhs: []ast.Expr{ast.NewIdent(results[i])}, Tok: token.ASSIGN, Rhs: []ast.Expr{e}})
			}
		}
		return out, true
	case *ast.IfStmt:
		if containsReturn(s) {
			k, ok := elimReturns(r, cont, results)
			if !ok {
				return nil, false
			}
			ns := &ast.IfStmt{If: s.If, Init: s.Init, Cond: s.Cond}
			b, ok := elimReturns(s.Body.List, k, results)
			if !ok {
				return nil, false
			}
			ns.Body = &ast.BlockStmt{List: b}
			var eb []ast.Stmt
			switch e := s.Else.(type) {
			case nil:
				eb = k
			case *ast.BlockStmt:
				eb, ok = elimReturns(e.List, k, results)
			default:
				eb, ok = elimReturns([]ast.Stmt{e}, k, results)
			}
			if !ok {
				return nil, false
			}
			ns.Else = &ast.BlockStmt{List: eb}
			return []ast.Stmt{ns}, true
		}
	case *ast.BlockStmt:
		if containsReturn(s) {
			return elimReturns(append(append([]ast.Stmt{}, s.List...), r...), cont, results)
		}
	default:
		if containsReturn(s) {
			return nil, false // a return inside a switch / loop: not supported
		}
	}
	k, ok := elimReturns(r, cont, results)
	if !ok {
		return nil, false
	}
	return append([]ast.Stmt{s}, k...), true
}

// autoInlineStmt: `f(args)` as a statement
func (x *tr) autoInlineStmt(ce *ast.CallExpr, tail []ast.Stmt, rest [][]ast.Stmt) (string, bool) {
	ex, ok := x.expandCall(ce, false)
	if !ok {
		return "", false
	}
	x.autoDepth++
	defer func() { x.autoDepth-- }()
	return x.exec(append(append([]ast.Stmt{}, ex.stmts...), tail...), rest), true
}

// autoInlineReturn: `return f(args)` where f yields all the results of the function
func (x *tr) autoInlineReturn(s *ast.ReturnStmt) (string, bool) {
	if len(s.Results) != 1 {
		return "", false
	}
	ce, ok := unparen(s.Results[0]).(*ast.CallExpr)
	if !ok {
		return "", false
	}
	ex, ok := x.expandCall(ce, true)
	if !ok {
		return "", false
	}
	x.autoDepth++
	defer func() { x.autoDepth-- }()
	return x.exec(ex.stmts, nil), true
}

// autoInlineAssign: `a, b := f(args)` / `a, b = f(args)` / `v := f(args)`
func (x *tr) autoInlineAssign(s *ast.AssignStmt, tail []ast.Stmt, rest [][]ast.Stmt) (string, bool) {
	if len(s.Rhs) != 1 || (s.Tok != token.DEFINE && s.Tok != token.ASSIGN) {
		return "", false
	}
	ce, ok := unparen(s.Rhs[0]).(*ast.CallExpr)
	if !ok {
		return "", false
	}
	ex, ok := x.expandCall(ce, false)
	if !ok || len(ex.results) != len(s.Lhs) {
		return "", false
	}
	stmts := append([]ast.Stmt{}, ex.stmts...)
	for i, l := range s.Lhs {
		if id, ok := l.(*ast.Ident); ok && id.Name == "_" {
			continue
		}
		stmts = append(stmts, &ast.AssignStmt{Lhs: []ast.Expr{l}, Tok: s.Tok, Rhs: []ast.Expr{ast.NewIdent(ex.results[i])}})
	}
	x.autoDepth++
	defer func() { x.autoDepth-- }()
	return x.exec(append(stmts, tail...), rest), true
}

// inlinable: inlining must preserve the meaning.  recover() only stops a panic when the DEFERRED function itself
// calls it, so a helper that calls recover() is not the same as its body (moving recover() into a helper is a
// real regression, not a refactoring); the same holds for functions that inspect their caller.
func inlinable(callee *ast.FuncDecl) bool {
	ok := true
	ast.Inspect(callee.Body, func(n ast.Node) bool {
		if ce, isCall := n.(*ast.CallExpr); isCall {
			switch f := ce.Fun.(type) {
			case *ast.Ident:
				if f.Name == "recover" {
					ok = false
				}
			case *ast.SelectorExpr:
				if id, isId := f.X.(*ast.Ident); isId && id.Name == "runtime" && strings.HasPrefix(f.Sel.Name, "Caller") {
					ok = false
				}
			}
		}
		return ok
	})
	return ok
}

// inlineAny: a callee listed in Inline, or - as a last resort - any same-package helper
func (x *tr) inlineAny(ce *ast.CallExpr) (val, bool) {
	if v, ok := x.inline(ce); ok {
		return v, true
	}
	return x.autoInline(ce)
}

// errVarVal: a local variable that holds an error code (the result of an inlined helper): `return err`
func (x *tr) errVarVal(e ast.Expr) (string, bool) {
	if id, ok := unparen(e).(*ast.Ident); ok && round3c && x.vars[id.Name] == "error" {
		return cname(id.Name), true
	}
	return "", false
}

// errNilCmp: `err != nil` / `err == nil` on such a variable
func (x *tr) errNilCmp(e *ast.BinaryExpr) (val, bool) {
	if !round3c || (e.Op != token.EQL && e.Op != token.NEQ) {
		return val{}, false
	}
	a, b := unparen(e.X), unparen(e.Y)
	if id, ok := a.(*ast.Ident); ok && id.Name == "nil" {
		a, b = b, a
	}
	nl, ok := b.(*ast.Ident)
	id, ok2 := a.(*ast.Ident)
	if !ok || !ok2 || nl.Name != "nil" || x.vars[id.Name] != "error" {
		return val{}, false
	}
	c := "(" + cname(id.Name) + " =? 0)%Z"
	if e.Op == token.NEQ {
		c = "(negb " + c + ")"
	}
	return val{coq: c, typ: "bool"}, true
}
