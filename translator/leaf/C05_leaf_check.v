(* C05 leaf obligations: PerformChecking of the two hot-parameter QPS controllers
   (core/hotspot/traffic_shaping.go), regenerated from the Go source on every run (Gen.Leaf_gen) as ONE
   ITERATION of the `for { ... CAS ... }` loop preceded by the function's prologue (dispatch on the metric
   type, threshold selection incl. specific items, batch guard / spacing), equals [perform_checking] of
   Model/Hotspot.v - the function the C05 theorems and the correspondence are about - for ALL rules, cache
   states, clock values, argument values and batch counts: same result (pass / blocked / wait ns) and the
   same cache state, the latter obtained by replaying the recorded cache / cell operations
   (AddIfAbsent, Get, StoreInt64, the operands of the CompareAndSwap) on the model's [metric].

   What enters as parameters: cache lookups (nil / found flags and the loaded int64 values), the clock
   read, the specific-item lookup, the CAS outcome.  They are instantiated with the model's own lookups
   on the state before the call, and the CAS outcome with [true]: the model is sequential (one caller at
   a time inside a controller), so the cell still holds the value just loaded; the replay checks that the
   CAS's expected operand IS that loaded value.  With a failed CAS the generated step says LContinue
   (retry); the model has no such transition and the C05 theorems do not cover the concurrent retry. *)
From Coq Require Import ZArith Bool Lia List.
From SG Require Import Base.Prelude Base.GoInt Base.GoFloat Model.LRU Model.Hotspot Model.HotspotStep
  Proofs.HotspotRoundProofs.
From Gen Require Import Leaf_gen.
Import ListNotations.
#[local] Open Scope Z_scope.

Definition argz (n : nat) (l : list leaf_arg) : Z :=
  match nth_error l n with Some (LZ z) => z | _ => 0 end.

(* ---- reject controller --------------------------------------------------------------------- *)

(* replay of one recorded operation of rejectTrafficShapingController.PerformChecking; [k] = the value
   the pointers were obtained for, [cur] = the token count loaded before the CAS *)
Definition act_reject (r : rule) (k cur : Z) (m : metric) (a : leaf_act) : metric :=
  let '(tag, args) := a in
  match tag with
  | 1 => op_time_add r (argz 0 args) (argz 1 args) m
  | 2 => op_tok_add r (argz 0 args) (argz 1 args) m
  | 3 => op_tok_get (argz 0 args) m
  | 4 => op_time_store k (argz 0 args) m
  | 5 => op_tok_cas k cur (argz 0 args) (argz 1 args) m
  | 9 => op_conc_check r (argz 0 args) m
  | _ => m
  end.

Definition interp {C} (act : metric -> leaf_act -> metric) (m : metric)
  (res : leaf_flow (Z * Z) C * list leaf_act) : metric * dec :=
  let m' := fold_left act (snd res) m in
  match fst res with
  | LReturn c => (m', dec_of_code c)
  | LContinue _ => (m', DSpin)      (* another iteration: the model's "no progress" outcome *)
  | LBreak _ => (m', DSpin)
  end.

Lemma dec_of_conc r m k : dec_of_code (dec_code (snd (conc_check r m k))) = snd (conc_check r m k).
Proof.
  unfold conc_check. destruct (lru_add_if_absent (cache_size r) k 0 (m_conc m)) as [c1 prior].
  destruct (_ <=? _); reflexivity.
Qed.

Lemma surj_conc r m k : (fst (conc_check r m k), snd (conc_check r m k)) = conc_check r m k.
Proof. destruct (conc_check r m k); reflexivity. Qed.

Ltac split_ifs :=
  repeat match goal with
         | |- context [if ?c then _ else _] =>
             lazymatch c with
             | context [if _ then _ else _] => fail
             | _ => destruct c eqn:?
             end
         end.

(* comparisons written the other way round in the source (`!(a >= b)` for `a < b`) leave branch
   combinations that are contradictory: closed by arithmetic *)
Ltac bool_hyps :=
  repeat match goal with
         | H : (_ <? _) = true |- _ => apply Z.ltb_lt in H
         | H : (_ <? _) = false |- _ => apply Z.ltb_ge in H
         | H : (_ <=? _) = true |- _ => apply Z.leb_le in H
         | H : (_ <=? _) = false |- _ => apply Z.leb_gt in H
         | H : (_ =? _) = true |- _ => apply Z.eqb_eq in H
         | H : (_ =? _) = false |- _ => apply Z.eqb_neq in H
         end.
Ltac absurd_branch := exfalso; bool_hyps; lia.

(* the generated step on the model's view of the state *)
Definition reject_step_on (r : rule) (m : metric) (now_ms k b : Z) :=
  let tv := lru_find k (m_time m) in
  let kv := lru_find k (m_tok m) in
  let sp := alookup k (r_spec r) in
  hotspot_reject_step k b (r_burst r) (r_dur r) (r_metric r) (r_thr r) true
    (dec_code (snd (conc_check r m k)))
    (negb (opt_some tv)) (opt_z tv) false now_ms (negb (opt_some kv)) (opt_z kv)
    (opt_some sp) (opt_z sp) false false (opt_some kv).

Lemma hotspot_reject_step_ok r m now_ms k b :
  r_behavior r = 0 ->
  interp (act_reject r k (opt_z (lru_find k (m_tok m)))) m (reject_step_on r m now_ms k b)
  = perform_checking r m (i64 now_ms) k b.
Proof.
  intros Hb. unfold perform_checking. rewrite Hb. change (0 =? 0) with true. cbv iota.
  unfold reject_step_on, hotspot_reject_step, reject_check, tok_count, lru_add_if_absent, lru_get.
  cbv zeta.
  destruct (r_metric r =? 0) eqn:Emt.
  { cbv beta iota. unfold interp. cbn [fst snd fold_left act_reject argz nth_error op_conc_check].
    rewrite dec_of_conc. apply surj_conc. }
  destruct (1 <? r_metric r) eqn:Emq.
  { cbv beta iota. reflexivity. }
  destruct m as [tm km cm]. cbn [m_time m_tok m_conc]. cbv [orb negb].
  destruct (alookup k (r_spec r)) as [sv|] eqn:Es; cbv [opt_some opt_z];
  destruct (lru_find k tm) as [last|] eqn:Et; cbv [opt_some opt_z negb];
  destruct (lru_find k km) as [tok|] eqn:Ek; cbv [opt_some opt_z negb];
  split_ifs;
  cbv [interp fst snd fold_left act_reject argz nth_error dec_of_code
       op_time_add op_tok_add op_tok_get op_time_store op_tok_store op_tok_cas
       m_with_time m_with_tok m_time m_tok m_conc lru_add_if_absent lru_get];
  rewrite ?Et, ?Ek, ?Z.eqb_refl; try reflexivity; absurd_branch.
Qed.

(* ---- throttling controller ----------------------------------------------------------------- *)

(* replay of one recorded operation of throttlingTrafficShapingController.PerformChecking; [cur] = the
   last pass time loaded before the CAS (the CAS and the Store both address the time cell) *)
Definition act_throttle (r : rule) (k cur : Z) (m : metric) (a : leaf_act) : metric :=
  let '(tag, args) := a in
  match tag with
  | 1 => op_time_add r (argz 0 args) (argz 1 args) m
  | 4 => op_time_store k (argz 0 args) m
  | 5 => op_time_cas k cur (argz 0 args) (argz 1 args) m
  | 9 => op_conc_check r (argz 0 args) m
  | _ => m
  end.

Definition throttle_step_on (r : rule) (m : metric) (now_ms k b : Z) :=
  let tv := lru_find k (m_time m) in
  let sp := alookup k (r_spec r) in
  hotspot_throttle_step k b (r_dur r) (r_maxq r) (r_metric r) (r_thr r) true
    (dec_code (snd (conc_check r m k)))
    (negb (opt_some tv)) (opt_z tv) false now_ms (opt_some sp) (opt_z sp) false false.

(* the spacing before the float64 round trip: batchCount * durationInSec * 1000 / tokenCount in int64 *)
Definition raw_interval (r : rule) (k b : Z) : Z :=
  i64 (Z.quot (i64 (i64 (b * r_dur r) * 1000)) (tok_count r k)).

(* The model writes int64(math.Round(float64(x))) as [f64_round_trip x] (x itself below 2^53, Go's
   conversions above); the generated code spells it out with math.Round on the double.  The step
   equality holds whenever the two agree on the spacing at hand ... *)
Lemma hotspot_throttle_step_ok_if r m now_ms k b :
  r_behavior r <> 0 ->
  leaf_i64_of_round (f_of_i64 (raw_interval r k b)) = f64_round_trip (raw_interval r k b) ->
  interp (act_throttle r k (opt_z (lru_find k (m_time m)))) m (throttle_step_on r m now_ms k b)
  = perform_checking r m (i64 now_ms) k b.
Proof.
  intros Hb Hrt. unfold perform_checking.
  assert (E0 : (r_behavior r =? 0) = false) by (apply Z.eqb_neq; exact Hb). rewrite E0.
  unfold throttle_step_on, hotspot_throttle_step, throttle_check, throttle_interval, lru_add_if_absent.
  unfold raw_interval in Hrt. unfold tok_count in *.
  cbv zeta.
  destruct (r_metric r =? 0) eqn:Emt.
  { cbv beta iota. unfold interp. cbn [fst snd fold_left act_throttle argz nth_error op_conc_check].
    rewrite dec_of_conc. apply surj_conc. }
  destruct (1 <? r_metric r) eqn:Emq.
  { cbv beta iota. reflexivity. }
  destruct m as [tm km cm]. cbn [m_time m_tok m_conc]. cbv [orb negb].
  destruct (alookup k (r_spec r)) as [sv|] eqn:Es; cbv [opt_some opt_z];
  rewrite Hrt; clear Hrt;
  destruct (lru_find k tm) as [last|] eqn:Et; cbv [opt_some opt_z negb];
  split_ifs;
  cbv [interp fst snd fold_left act_throttle argz nth_error dec_of_code
       op_time_add op_time_store op_time_cas
       m_with_time m_with_tok m_time m_tok m_conc lru_add_if_absent];
  rewrite ?Et, ?Z.eqb_refl; do 2 (cbn [lru_set]; rewrite ?Z.eqb_refl); try reflexivity; absurd_branch.
Qed.

(* ... which Proofs/HotspotRoundProofs.v shows (Flocq) for every spacing below 2^53 ms - far beyond the
   guard of the C05 throttling theorems (2^32 * duration_ms < 2^53) *)
Lemma leaf_round_is_model f : leaf_i64_of_round f = i64_of_round f.
Proof. reflexivity. Qed.

Lemma hotspot_throttle_step_ok r m now_ms k b :
  r_behavior r <> 0 ->
  Z.abs (raw_interval r k b) < 2 ^ 53 ->
  interp (act_throttle r k (opt_z (lru_find k (m_time m)))) m (throttle_step_on r m now_ms k b)
  = perform_checking r m (i64 now_ms) k b.
Proof.
  intros Hb Hx. apply hotspot_throttle_step_ok_if; [exact Hb|].
  rewrite leaf_round_is_model. apply round_trip_small. exact Hx.
Qed.

(* ---- Slot.Check: one iteration of the loop over the resource's controllers --------------------
   For a controller whose argument is present and whose PerformChecking returned [d] (seen through
   r == nil, r.Status(), r.NanosToWait()), the regenerated loop body hands the request's batch count to
   the controller (action 7), sleeps exactly when the model's [slot_dispatch] says so (action 8, same ns)
   and leaves the loop exactly when it says SReturn; without the argument it does nothing.  Together with
   [slot_check_iteration] (Proofs/HotspotStepProofs.v) this is one unfolding of the model's [slot_check]. *)
Definition slot_step_expected (has_arg : bool) (batch : Z) (d : dec) : leaf_flow Z unit * list leaf_act :=
  if has_arg then
    match slot_dispatch d with
    | SContinue None => (LContinue tt, [(7, [LZ batch])])
    | SContinue (Some ns) => (LContinue tt, [(7, [LZ batch]); (8, [LZ ns])])
    | SReturn => (LReturn 1, [(7, [LZ batch])])
    end
  else (LContinue tt, []).

Lemma hotspot_slot_check_step_ok has_arg batch d :
  d <> DSpin ->
  hotspot_slot_check_step (negb has_arg) batch (res_nanos d) (res_nil d) (res_status d)
  = slot_step_expected has_arg batch d.
Proof.
  intros Hd. unfold hotspot_slot_check_step, slot_step_expected. cbv zeta.
  destruct has_arg; cbn [negb]; [|reflexivity].
  destruct d as [|tv|ns|]; [| | |congruence];
  cbn [res_nil res_status res_nanos slot_dispatch]; split_ifs; try reflexivity; absurd_branch.
Qed.

Print Assumptions hotspot_reject_step_ok.
Print Assumptions hotspot_throttle_step_ok_if.
Print Assumptions hotspot_throttle_step_ok.
Print Assumptions hotspot_slot_check_step_ok.
