(* C18 leaf obligations: the control structure of the datasource property handler, the five
   *JsonArrayParser / *RulesUpdater functions and the file datasource's watcher loop, regenerated
   from ext/datasource/{property,helper}.go and ext/datasource/file/refreshable_file.go on every
   run (Gen.Leaf_gen.ds_*, I/O mode of translator/leaf), is what Model/Datasource.v transcribes by
   hand - for ALL inputs.  The converter (encoding/json), reflect.DeepEqual, the rule managers
   and fsnotify enter as recorded actions (the ORDER of effects is part of the result) and as
   parameters (what a call returned).

   Shape: `<name>_spec` = a readable transcription at the level of actions, proved equal to the
   regenerated definition by case analysis; then the actions are interpreted on the model's state
   and the result is the model's own function (consistent, handle_body, updater, wire_convert's
   classification, process_event) for an arbitrary converter and loader (Section variables as in
   Model/Datasource.v).  Panics (CPanic / LPanic) are not paths of the Go source text: the
   regenerated functions cover the normal returns. *)
From Coq Require Import ZArith Bool Lia List String Ascii.
From SG Require Import Base.Prelude Base.GoInt Model.Json Model.Datasource Model.DatasourceWire.
From Gen Require Import Leaf_gen.
Import ListNotations.
#[local] Open Scope Z_scope.

Ltac split_ifs :=
  repeat match goal with |- context [if ?c then _ else _] => destruct c eqn:? end.
Ltac bool_facts :=
  repeat match goal with
  | H : negb _ = true |- _ => apply negb_true_iff in H
  | H : negb _ = false |- _ => apply negb_false_iff in H
  | H : andb _ _ = true |- _ => apply andb_true_iff in H; destruct H
  | H : andb _ _ = false |- _ => apply andb_false_iff in H; destruct H
  | H : orb _ _ = false |- _ => apply orb_false_iff in H; destruct H
  | H : orb _ _ = true |- _ => apply orb_true_iff in H; destruct H
  | H : (_ <? _) = true |- _ => apply Z.ltb_lt in H
  | H : (_ <? _) = false |- _ => apply Z.ltb_ge in H
  | H : (_ <=? _) = true |- _ => apply Z.leb_le in H
  | H : (_ <=? _) = false |- _ => apply Z.leb_gt in H
  | H : (_ =? _) = true |- _ => apply Z.eqb_eq in H
  | H : (_ =? _) = false |- _ => apply Z.eqb_neq in H
  end.
Ltac leaf_cases := split_ifs; first [reflexivity | bool_facts; first [reflexivity | exfalso; lia | congruence]].

Notation A0 t := (t%Z, @nil leaf_arg).

(* ================================================================== property.go ===== *)

(* ---- isPropertyConsistent: 1 reflect.DeepEqual(src, last) . 2 lastUpdateProperty = src -------- *)
Lemma ds_isPropertyConsistent_spec deep_equal src :
  ds_isPropertyConsistent deep_equal src = if deep_equal then (true, [A0 1]) else (false, [A0 1; A0 2]).
Proof. unfold ds_isPropertyConsistent. cbv zeta. destruct deep_equal; reflexivity. Qed.

(* ---- Handle: 1 converter(src) . 2 isPropertyConsistent(real) . 3 updater(real) . 4 the deferred
   restore lastUpdateProperty = lastProperty (runs at every return after the defer statement) ----- *)
Definition handle_spec (consistent conv_ok upd_ok : bool) : Z * list leaf_act :=
  if negb conv_ok then (1, [A0 1]) else                      (* converter error: nothing else is touched *)
  if consistent then (0, [A0 1; A0 2]) else                  (* same property again: no update *)
  if negb upd_ok then (1, [A0 1; A0 2; A0 3; A0 4])          (* updater failed: the property is forgotten *)
  else (0, [A0 1; A0 2; A0 3]).

Lemma ds_Handle_spec consistent conv_ok upd_ok :
  ds_Handle consistent conv_ok upd_ok = handle_spec consistent conv_ok upd_ok.
Proof. unfold ds_Handle, handle_spec. cbv zeta. destruct consistent, conv_ok, upd_ok; reflexivity. Qed.

Definition conv_ok {prop} (c : conv prop) : bool := match c with CErr => false | _ => true end.
Definition real_of {prop} (c : conv prop) : option prop := match c with CVal p => Some p | _ => None end.
Definition lres_ok (r : lres) : bool := match r with LOk => true | _ => false end.
Definition ret_code (o : outcome) : Z := match o with Returned RNil => 0 | _ => 1 end.

(* the actions on (lastUpdateProperty, manager); `real` = what the converter returned, `lastp` =
   the local lastProperty (read before isPropertyConsistent); action 2 is the regenerated
   isPropertyConsistent run on the handler's memory *)
Definition hact {prop rule mgr} (peq : prop -> prop -> bool) (typed : prop -> option (list (option rule)))
    (load : list (option rule) -> mgr -> mgr * lres) (clear : mgr -> mgr * lres)
    (real lastp : option prop) (a : leaf_act) (s : option prop * mgr) : option prop * mgr :=
  match a with
  | (2, _) => if existsb (fun b => fst b =? 2) (snd (ds_isPropertyConsistent (consistent peq real (fst s)) 0))
              then (real, snd s) else s
  | (3, _) => (fst s, fst (updater typed load clear real (snd s)))
  | (4, _) => (lastp, snd s)
  | _ => s
  end.
Definition hrun {prop rule mgr} (peq : prop -> prop -> bool) (typed : prop -> option (list (option rule)))
    (load : list (option rule) -> mgr -> mgr * lres) (clear : mgr -> mgr * lres)
    (real lastp : option prop) (tr : list leaf_act) (s : option prop * mgr) : option prop * mgr :=
  fold_left (fun s a => hact peq typed load clear real lastp a s) tr s.

(* Handle = the model's handle_body on every delivery whose converter and loader return normally,
   for an arbitrary converter, DeepEqual, type switch and loader *)
Theorem ds_Handle_refines {bytes prop rule mgr} (convert : bytes -> conv prop) (peq : prop -> prop -> bool)
    (typed : prop -> option (list (option rule))) (load : list (option rule) -> mgr -> mgr * lres)
    (clear : mgr -> mgr * lres) (s : state prop mgr) (src : bytes) :
  convert src <> CPanic ->
  snd (updater typed load clear (real_of (convert src)) (snd s)) <> LPanic ->
  let real := real_of (convert src) in
  let g := ds_Handle (consistent peq real (fst s)) (conv_ok (convert src))
                     (lres_ok (snd (updater typed load clear real (snd s)))) in
  (hrun peq typed load clear real (fst s) (snd g) s, fst g) =
  (fst (handle_body convert peq typed load clear s src), ret_code (snd (handle_body convert peq typed load clear s src))).
Proof.
  intros Hc Hu. cbv zeta. rewrite ds_Handle_spec. unfold handle_spec, handle_body.
  destruct s as [lastp m]. cbn [fst snd] in *.
  destruct (convert src) as [| | |p] eqn:Ec; try congruence; cbn [conv_ok real_of negb] in *.
  - reflexivity.
  - destruct (consistent peq None lastp) eqn:Econs.
    + cbn [hrun fold_left hact fst snd]. rewrite Econs, ds_isPropertyConsistent_spec. reflexivity.
    + destruct (updater typed load clear None m) as [m' r] eqn:Eu. cbn [fst snd] in *.
      destruct r; try congruence; cbn [lres_ok negb hrun fold_left hact fst snd];
        rewrite Econs, ds_isPropertyConsistent_spec; cbn [snd existsb fst Z.eqb Pos.eqb orb]; rewrite Eu; reflexivity.
  - destruct (consistent peq (Some p) lastp) eqn:Econs.
    + cbn [hrun fold_left hact fst snd]. rewrite Econs, ds_isPropertyConsistent_spec. reflexivity.
    + destruct (updater typed load clear (Some p) m) as [m' r] eqn:Eu. cbn [fst snd] in *.
      destruct r; try congruence; cbn [lres_ok negb hrun fold_left hact fst snd];
        rewrite Econs, ds_isPropertyConsistent_spec; cbn [snd existsb fst Z.eqb Pos.eqb orb]; rewrite Eu; reflexivity.
Qed.

(* ================================================================== helper.go: updaters ===== *)
(* 1 ClearRules() (its error is returned) . 2 rules = append(rules, &v) for each element of a []Rule .
   4 LoadRules(rules); error 2 = UpdatePropertyError.  (Which local holds the list - `rules = val`,
   `rules, ok := data.(...)` - is not an effect and is not recorded.) *)
Definition updater_spec (clear_err : Z) (data_nil is_ptrs is_values load_ok : bool) : Z * list leaf_act :=
  if data_nil then (clear_err, [A0 1]) else
  if is_values then (if load_ok then (0, [A0 2; A0 4]) else (2, [A0 2; A0 4])) else
  if is_ptrs then (if load_ok then (0, [A0 4]) else (2, [A0 4])) else (2, []).

Definition lres_code (r : lres) : Z := match r with LOk => 0 | _ => 1 end.
(* the manager after the actions: 1 = ClearRules, 4 = LoadRules of the typed list *)
Definition uact {rule mgr} (load : list (option rule) -> mgr -> mgr * lres) (clear : mgr -> mgr * lres)
    (l : list (option rule)) (a : leaf_act) (m : mgr) : mgr :=
  match a with
  | (1, _) => fst (clear m)
  | (4, _) => fst (load l m)
  | _ => m
  end.

(* every updater of this shape is the model's `updater` (type switch, ClearRules on nil, LoadRules, error wrapping) *)
Lemma updater_spec_refines {prop rule mgr} (typed : prop -> option (list (option rule)))
    (load : list (option rule) -> mgr -> mgr * lres) (clear : mgr -> mgr * lres)
    (data : option prop) (m : mgr) (isv isp : bool) (l : list (option rule)) :
  (forall p, data = Some p -> typed p = if isv || isp then Some l else None) ->
  snd (updater typed load clear data m) <> LPanic ->
  let g := updater_spec (lres_code (snd (clear m))) (match data with None => true | _ => false end) isp isv
                        (lres_ok (snd (load l m))) in
  (fold_left (fun m a => uact load clear l a m) (snd g) m, fst g =? 0) =
  (fst (updater typed load clear data m), lres_ok (snd (updater typed load clear data m))).
Proof.
  intros Ht Hp. cbv zeta. unfold updater_spec, updater in *. destruct data as [p|].
  - rewrite (Ht p eq_refl) in *. destruct isv, isp; cbn [orb] in *; try reflexivity;
      destruct (load l m) as [m' r] eqn:El; destruct r; cbn [fst snd lres_ok fold_left uact Z.eqb] in *;
      rewrite ?El; cbn [fst]; solve [reflexivity | congruence].
  - destruct (clear m) as [m' r] eqn:El; destruct r; cbn [fst snd lres_ok lres_code fold_left uact Z.eqb] in *;
      rewrite ?El; cbn [fst]; solve [reflexivity | congruence].
Qed.

Lemma ds_FlowUpdater_spec clear_err data data_nil is_ptrs is_values load_ok :
  ds_FlowUpdater clear_err data data_nil is_ptrs is_values load_ok = updater_spec clear_err data_nil is_ptrs is_values load_ok.
Proof. unfold ds_FlowUpdater, updater_spec. cbv zeta. leaf_cases. Qed.
Lemma ds_SystemUpdater_spec clear_err data data_nil is_ptrs is_values load_ok :
  ds_SystemUpdater clear_err data data_nil is_ptrs is_values load_ok = updater_spec clear_err data_nil is_ptrs is_values load_ok.
Proof. unfold ds_SystemUpdater, updater_spec. cbv zeta. leaf_cases. Qed.
Lemma ds_HotspotUpdater_spec clear_err data data_nil is_ptrs is_values load_ok :
  ds_HotspotUpdater clear_err data data_nil is_ptrs is_values load_ok = updater_spec clear_err data_nil is_ptrs is_values load_ok.
Proof. unfold ds_HotspotUpdater, updater_spec. cbv zeta. leaf_cases. Qed.
Lemma ds_IsolationUpdater_spec clear_err data data_nil is_ptrs is_values load_ok :
  ds_IsolationUpdater clear_err data data_nil is_ptrs is_values load_ok = updater_spec clear_err data_nil is_ptrs is_values load_ok.
Proof. unfold ds_IsolationUpdater, updater_spec. cbv zeta. leaf_cases. Qed.
(* the circuit breaker updater accepts []*Rule only *)
Lemma ds_BreakerUpdater_spec clear_err data data_nil is_ptrs load_ok :
  ds_BreakerUpdater clear_err data data_nil is_ptrs load_ok = updater_spec clear_err data_nil is_ptrs false load_ok.
Proof. unfold ds_BreakerUpdater, updater_spec. cbv zeta. leaf_cases. Qed.

(* ================================================================== helper.go: parsers ===== *)
(* result codes: property 0 = nil / 1 = the decoded slice; error 0 = nil / 2 = ConvertSourceError.
   1 json.Unmarshal . 5 the copy loop (hotspot only) *)
Definition parser_spec (tail : list leaf_act) (valid compliance_noerr unmarshal_ok : bool) : Z * Z * list leaf_act :=
  if negb valid then (0, if compliance_noerr then 0 else 1, []) else
  if negb unmarshal_ok then (0, 2, [A0 1]) else (1, 0, A0 1 :: tail).

Lemma ds_FlowParser_spec v c u : ds_FlowParser v c u = parser_spec [] v c u.
Proof. unfold ds_FlowParser, parser_spec. cbv zeta. destruct v, c, u; reflexivity. Qed.
Lemma ds_SystemParser_spec v c u : ds_SystemParser v c u = parser_spec [] v c u.
Proof. unfold ds_SystemParser, parser_spec. cbv zeta. destruct v, c, u; reflexivity. Qed.
Lemma ds_BreakerParser_spec v c u : ds_BreakerParser v c u = parser_spec [] v c u.
Proof. unfold ds_BreakerParser, parser_spec. cbv zeta. destruct v, c, u; reflexivity. Qed.
Lemma ds_IsolationParser_spec v c u : ds_IsolationParser v c u = parser_spec [] v c u.
Proof. unfold ds_IsolationParser, parser_spec. cbv zeta. destruct v, c, u; reflexivity. Qed.
Lemma ds_HotspotParser_spec v c u : ds_HotspotParser v c u = parser_spec [A0 5] v c u.
Proof. unfold ds_HotspotParser, parser_spec. cbv zeta. destruct v, c, u; reflexivity. Qed.

Lemma ds_checkSrcComplianceJson_spec e : ds_checkSrcComplianceJson e = (negb e, 0).
Proof. unfold ds_checkSrcComplianceJson. destruct e; reflexivity. Qed.

(* classification of a parser's result pair, as the handler sees it *)
Definition conv_class (r : Z * Z * list leaf_act) : Z :=
  let '(p, e, _) := r in if negb (e =? 0) then 1 (* CErr *) else if p =? 0 then 2 (* CNil *) else 3 (* CVal *).
Definition class_of {P} (c : conv P) : Z := match c with CPanic => 0 | CErr => 1 | CNil => 2 | CVal _ => 3 end.
Definition undecodable (d : dres) : bool := match d with Undecodable => true | _ => false end.

(* a parser (compliance test + Unmarshal) classifies a payload exactly as the model's converter
   wire_convert does, when Unmarshal fails exactly on the payloads the model's decoder rejects *)
Theorem parser_classifies sch (b : jbytes) tail :
  let '(valid, cerr) := ds_checkSrcComplianceJson (match b with [] => true | _ => false end) in
  conv_class (parser_spec tail valid (cerr =? 0) (negb (undecodable (decode sch b)))) = class_of (wire_convert sch b).
Proof.
  rewrite ds_checkSrcComplianceJson_spec. unfold wire_convert, decode.
  destruct b as [|c r]; [reflexivity|]. cbn [negb].
  destruct (parse (c :: r)) as [v|]; [|reflexivity].
  destruct v; try reflexivity. match goal with |- context [dec_all ?f ?x] => destruct (dec_all f x) end; reflexivity.
Qed.

(* ---- the hotspot parser's copy loop: one element ------------------------------------------------
   a nil element stays nil; otherwise rules[i] = &hotspot.Rule{...} (action 5) whose twelve fields
   are the wire struct's fields of the same name, SpecificItems through parseSpecificItems *)
Lemma ds_HotspotParser_step_spec burst cb dur id mq mt pidx pkey pmax res items thr is_nil i parse_items :
  ds_HotspotParser_step true true burst cb dur id mq mt pidx pkey pmax res items thr is_nil i parse_items true =
  if is_nil then (LContinue tt, [A0 1])
  else (LContinue tt, [A0 1; (5, [LZ id; LZ res; LZ mt; LZ cb; LZ pidx; LZ pkey; LZ thr; LZ mq; LZ burst; LZ dur; LZ pmax; LZ (parse_items items)])]).
Proof. unfold ds_HotspotParser_step. cbv zeta. destruct is_nil; reflexivity. Qed.

(* wire -> rule is the identity on the twelve schema positions (the model's decoded rule IS the
   wire rule, Model/Json.v wrule; position 11 goes through parseSpecificItems = conv_items): for a
   wire rule r given position by position, the constructed rule's k-th field is r's k-th value *)
Theorem hotspot_wire_to_rule (enc : nat -> Z) (parse_items : Z -> Z) i :
  snd (ds_HotspotParser_step true true (enc 8%nat) (enc 3%nat) (enc 9%nat) (enc 0%nat) (enc 7%nat) (enc 2%nat) (enc 4%nat) (enc 5%nat)
         (enc 10%nat) (enc 1%nat) (enc 11%nat) (enc 6%nat) false i parse_items true) =
  [A0 1; (5, map (fun k => LZ (if Nat.eqb k 11 then parse_items (enc k) else enc k)) (seq 0 12))].
Proof. rewrite ds_HotspotParser_step_spec. reflexivity. Qed.

(* ================================================================== refreshable_file.go ===== *)
(* one iteration of the watcher goroutine's select loop.  select_case 0 = a file event, 1 = a watcher
   error, 2 = closeChan.  1 s.Handle(nil) . 2 watcher.Remove(path) . 9 the retry loop [retryCount = 0] .
   3 s.Close() . 4 doReadAndUpdate . 5 watcher.Close() (deferred) *)
Definition watch_spec (is_remove is_rename : bool) (sel : Z) : leaf_flow unit unit * list leaf_act :=
  if sel =? 0 then
    let t1 := if is_rename then [A0 1; A0 2; (9, [LZ 0])] else [] in
    if is_remove then (LReturn tt, t1 ++ [A0 1; A0 3; A0 5]) else (LContinue tt, t1 ++ [A0 4])
  else if sel =? 1 then (LContinue tt, []) else (LReturn tt, [A0 5]).

Lemma ds_file_watch_step_spec h1 h2 is_remove is_rename retry_out read_ok sel :
  ds_file_watch_step h1 h2 is_remove is_rename retry_out read_ok sel = watch_spec is_remove is_rename sel.
Proof. unfold ds_file_watch_step, watch_spec. cbv zeta. destruct is_rename, is_remove; cbn [app]; leaf_cases. Qed.

(* the retry loop after a rename: 6 watcher.Add(path); more than five failures -> s.Close() and return *)
Lemma ds_file_retry_step_spec add_ok n :
  ds_file_retry_step add_ok n =
  if 5 <? n then (LReturn tt, [A0 3]) else
  if add_ok then (LBreak n, [A0 6]) else (LContinue (GoInt.i64 (n + 1)), [A0 6]).
Proof. unfold ds_file_retry_step. cbv zeta. leaf_cases. Qed.

(* doReadAndUpdate: 1 ReadSource . 2 Handle(src); a read error is returned without calling Handle *)
Lemma ds_file_doReadAndUpdate_spec handle_err read_ok :
  ds_file_doReadAndUpdate handle_err read_ok = if read_ok then (handle_err, [A0 1; A0 2]) else (1, [A0 1]).
Proof. unfold ds_file_doReadAndUpdate. cbv zeta. destruct read_ok; reflexivity. Qed.

(* the actions on the model's file-datasource state; doReadAndUpdate (4) is the regenerated
   function: ReadSource fails when the file is absent, else Handle(content) *)
Definition fact {bytes prop rule mgr} (convert : bytes -> conv prop) (peq : prop -> prop -> bool)
    (typed : prop -> option (list (option rule))) (load : list (option rule) -> mgr -> mgr * lres)
    (clear : mgr -> mgr * lres) (empty_payload : bytes) (a : leaf_act) (st : fstate bytes prop mgr) : fstate bytes prop mgr :=
  match a with
  | (1, _) => deliver convert peq typed load clear st empty_payload
  | (3, _) => set_mode st Closed
  | (4, _) => if existsb (fun b => fst b =? 2)
                   (snd (ds_file_doReadAndUpdate 0 (match f_file st with Some _ => true | None => false end)))
              then match f_file st with Some c => deliver convert peq typed load clear st c | None => st end
              else st
  | _ => st
  end.
Definition frun_acts {bytes prop rule mgr} (convert : bytes -> conv prop) (peq : prop -> prop -> bool)
    (typed : prop -> option (list (option rule))) (load : list (option rule) -> mgr -> mgr * lres)
    (clear : mgr -> mgr * lres) (empty_payload : bytes) (tr : list leaf_act) (st : fstate bytes prop mgr) : fstate bytes prop mgr :=
  fold_left (fun st a => fact convert peq typed load clear empty_payload a st) tr st.

(* which fsnotify op the model's event stands for *)
Definition ev_rename (e : fevent) : bool := match e with EvRename => true | _ => false end.
Definition ev_remove (e : fevent) : bool := match e with EvRemove => true | _ => false end.

(* the retry loop driven to its end: watcher.Add succeeds iff the file is there *)
Fixpoint retry_run (fuel : nat) (present : bool) (n : Z) : option (list leaf_act) :=
  match fuel with
  | O => None
  | S f => match ds_file_retry_step present n with
           | (LReturn _, tr) => Some tr          (* gave up: the goroutine returns *)
           | (LBreak _, _) => Some []            (* watching again *)
           | (LContinue n', _) => retry_run f present n'
           end
  end.
Lemma retry_run_present : retry_run 7 true 0 = Some [].
Proof. cbn [retry_run]. rewrite ds_file_retry_step_spec. reflexivity. Qed.
Lemma retry_run_absent : retry_run 7 false 0 = Some [A0 3].
Proof. Transparent two63 two64. cbn [retry_run]. rewrite !ds_file_retry_step_spec. reflexivity. Qed.

(* event dispatch = process_event: the regenerated iteration, with the retry loop's outcome spliced
   in where it is marked (a rename whose retries are exhausted ends the goroutine there) *)
Theorem ds_file_watch_refines {bytes prop rule mgr} (convert : bytes -> conv prop) (peq : prop -> prop -> bool)
    (typed : prop -> option (list (option rule))) (load : list (option rule) -> mgr -> mgr * lres)
    (clear : mgr -> mgr * lres) (empty_payload : bytes) (st : fstate bytes prop mgr) (e : fevent) :
  let run := frun_acts convert peq typed load clear empty_payload in
  let '(flow, tr) := ds_file_watch_step true true (ev_remove e) (ev_rename e) 0 true 0 in
  let tr' := if ev_rename e
             then match retry_run 7 (match f_file (run [A0 1] st) with Some _ => true | None => false end) 0 with
                  | Some [] => tr
                  | Some stop => [A0 1; A0 2] ++ stop
                  | None => tr
                  end
             else tr in
  run tr' st = process_event convert peq typed load clear empty_payload st e.
Proof.
  cbv zeta. rewrite ds_file_watch_step_spec. unfold watch_spec. cbn [Z.eqb].
  destruct e; cbn [ev_rename ev_remove app].
  - (* Write / Create / Chmod *)
    unfold frun_acts, process_event, read_and_update. cbn [fold_left fact]. rewrite ds_file_doReadAndUpdate_spec.
    destruct (f_file st); reflexivity.
  - (* Rename *)
    unfold process_event. cbn [frun_acts fold_left fact].
    set (st1 := deliver convert peq typed load clear st empty_payload).
    destruct (f_file st1) eqn:Ef.
    + rewrite retry_run_present. unfold frun_acts, read_and_update. cbn [fold_left fact]. fold st1.
      rewrite ds_file_doReadAndUpdate_spec, Ef. reflexivity.
    + rewrite retry_run_absent. unfold frun_acts. cbn [app fold_left fact]. reflexivity.
  - (* Remove *)
    unfold process_event, frun_acts. cbn [fold_left fact]. reflexivity.
Qed.

(* ================================================================== names ===== *)
Import Coq.Strings.String.
Open Scope string_scope.
Open Scope list_scope.
Lemma ds_Handle_params : LeafParams.ds_Handle = "consistent" :: "conv_1_nil" :: "upd_err_nil" :: nil.
Proof. reflexivity. Qed.
Lemma ds_HotspotParser_step_params : LeafParams.ds_HotspotParser_step =
  "compliance_0" :: "compliance_1_nil" :: "hotspotRule_BurstCount" :: "hotspotRule_ControlBehavior" :: "hotspotRule_DurationInSec" ::
  "hotspotRule_ID" :: "hotspotRule_MaxQueueingTimeMs" :: "hotspotRule_MetricType" :: "hotspotRule_ParamIndex" :: "hotspotRule_ParamKey" ::
  "hotspotRule_ParamsMaxCapacity" :: "hotspotRule_Resource" :: "hotspotRule_SpecificItems" :: "hotspotRule_Threshold" :: "hotspotRule_nil" ::
  "i" :: "parse_items" :: "unmarshal_err_nil" :: nil.
Proof. reflexivity. Qed.
Lemma ds_FlowUpdater_params : LeafParams.ds_FlowUpdater = "clear_err" :: "data" :: "data_nil" :: "is_ptrs" :: "is_values" :: "load_1_nil" :: nil.
Proof. reflexivity. Qed.
Lemma ds_file_watch_step_params : LeafParams.ds_file_watch_step =
  "handle_err1_nil" :: "handle_err2_nil" :: "has_Remove" :: "has_Rename" :: "loop2_out_0" :: "read_err_nil" :: "select_case" :: nil.
Proof. reflexivity. Qed.

(* the constructed rule's fields, in the order of the action's arguments, are the wire schema's
   fields in schema order (json tag = the Go field name with a lower-case initial; "ID" -> "id") *)
Definition json_name (f : string) : string :=
  match f with
  | String "I" (String "D" EmptyString) => "id"
  | String c r => String (lower c) r
  | EmptyString => EmptyString
  end.
Lemma hotspot_fields_are_schema :
  map json_name LeafFields.ds_HotspotParser_step = map (fun kt => string_of_list_ascii (fst kt)) hotspot_schema.
Proof. reflexivity. Qed.

(* one traversal for all obligations (each Print Assumptions costs ~0.5 s in this environment) *)
Definition C18_leaf_obligations := (
  @ds_isPropertyConsistent_spec,
  @ds_Handle_refines,
  @updater_spec_refines,
  @ds_FlowUpdater_spec,
  @ds_BreakerUpdater_spec,
  @parser_classifies,
  @ds_HotspotParser_spec,
  @hotspot_wire_to_rule,
  @hotspot_fields_are_schema,
  @ds_file_watch_refines).
Print Assumptions C18_leaf_obligations.
