// Extensions of the leaf translator first needed by the traffic-shaping checkers (C10 / C11); general,
// reached through one-line hooks in main.go:
//
//   - `var p *T` (no value) declares an opaque pointer; `p = <anything>` on a pointer / opaque variable
//     is skipped (the object is not part of the decision: it is only handed to a result constructor);
//   - math.Ceil(f): Base/GoFloat.v has no float-valued ceiling (f_ceil_Z : float -> option Z), so the
//     value has the internal type "ceil" and is only usable under an int64(...) conversion, printed as
//     `leaf_i64_of_ceil f` (preamble below: the exact integer when it fits int64, else the amd64
//     "integer indefinite" -2^63 - also for NaN / Inf);
//   - math.Nextafter(f, math.MaxFloat64) is `leaf_nextafter_max f` (one step towards the largest finite
//     double: NaN and MaxFloat64 stay, +Inf steps down to MaxFloat64, everything else is next_up);
//   - math.MaxFloat64 as a float constant;
//   - an untyped float constant with an integral value (`1.0`, `2.0`) used at an integer type
//     (`coldFactor - 1.0` with coldFactor uint32) is that integer, as in Go.
package main

import (
	"go/ast"
	"go/token"
	"strconv"
	"strings"
)

// preamble of Leaf_gen.v
const shapingPreamble = "Definition leaf_i64_of_ceil (f : float) : Z :=\n" +
	"  match f_ceil_Z f with\n" +
	"  | Some t => if ((- two63 <=? t)%Z && (t <? two63)%Z)%bool then t else (- two63)%Z\n" +
	"  | None => (- two63)%Z\n  end.\n" +
	"Definition leaf_fmax : float := 0x1.fffffffffffffp+1023%float.\n" +
	"Definition leaf_nextafter_max (x : float) : float :=\n" +
	"  if PrimFloat.is_nan x then x\n" +
	"  else if PrimFloat.eqb x leaf_fmax then x\n" +
	"  else if PrimFloat.ltb leaf_fmax x then leaf_fmax\n" +
	"  else PrimFloat.next_up x.\n\n"

// declPointer: `var p *T`
func (x *tr) declPointer(vs *ast.ValueSpec) bool {
	if vs.Type == nil || len(vs.Values) != 0 || len(vs.Names) != 1 {
		return false
	}
	if _, ok := vs.Type.(*ast.StarExpr); !ok {
		return false
	}
	x.vars[vs.Names[0].Name] = x.typeOfExpr(vs.Type)
	return true
}

// assignPointer: `p = e` where p is a pointer / opaque variable
func (x *tr) assignPointer(s *ast.AssignStmt) bool {
	if s.Tok != token.ASSIGN || len(s.Lhs) != 1 {
		return false
	}
	id, ok := s.Lhs[0].(*ast.Ident)
	if !ok {
		return false
	}
	t, ok := x.vars[id.Name]
	return ok && strings.HasPrefix(t, "ptr:")
}

// callShaping: math functions
func (x *tr) callShaping(fn string, e *ast.CallExpr) (val, bool) {
	switch {
	case fn == "math.Ceil" && len(e.Args) == 1:
		v := x.coerce(x.expr(e.Args[0]), "float64")
		return val{coq: v.coq, typ: "ceil"}, true
	case fn == "math.Nextafter" && len(e.Args) == 2 && src(x.p.fset, e.Args[1]) == "math.MaxFloat64":
		v := x.coerce(x.expr(e.Args[0]), "float64")
		return val{coq: "(leaf_nextafter_max " + v.coq + ")", typ: "float64"}, true
	}
	return val{}, false
}

// convertShaping: int64(math.Ceil(f))
func (x *tr) convertShaping(to string, v val) (val, bool) {
	if v.typ == "ceil" {
		if to == "int64" || to == "int" {
			return val{coq: "(leaf_i64_of_ceil " + v.coq + ")", typ: to}, true
		}
		fail("math.Ceil is only supported under an int64 conversion")
	}
	return val{}, false
}

// selectorShaping: float constants of package math
func (x *tr) selectorShaping(s string) (val, bool) {
	if s == "math.MaxFloat64" {
		return val{coq: "leaf_fmax", typ: "float64"}, true
	}
	return val{}, false
}

// integralFloatLit: "1.0" -> "1" when the untyped float constant has an integral value
func integralFloatLit(lit string) (string, bool) {
	f, err := strconv.ParseFloat(lit, 64)
	if err != nil || f != float64(int64(f)) || f > 1e15 || f < -1e15 {
		return "", false
	}
	return strconv.FormatInt(int64(f), 10), true
}
