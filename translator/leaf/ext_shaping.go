// Extensions of the leaf translator first needed by the traffic-shaping checkers (C10 / C11); general,
// reached through one-line hooks in main.go:
//
//   - `var p *T` (no value) declares an opaque pointer; `p = <anything>` on a pointer / opaque variable
//     is skipped (the object is not part of the decision: it is only handed to a result constructor);
//   - math.Ceil(f): Base/GoFloat.v has no float-valued ceiling (f_ceil_Z : float -> option Z), so the
//     value has the internal type "ceil" and is only usable under an int64(...) conversion, printed as
//     `leaf_i64_of_ceil f` (preamble below: the exact integer when it fits int64, else the amd64
//     "integer indefinite" -2^63 - also for NaN / Inf);
//   - math.Nextafter(f, math.MaxFloat64) is `leaf_nextafter_max f` (one step towards the largest finite
//     double: NaN and MaxFloat64 stay, +Inf steps down to MaxFloat64, everything else is next_up);
//   - math.MaxFloat64 as a float constant;
//   - an untyped float constant with an integral value (`1.0`, `2.0`) used at an integer type
//     (`coldFactor - 1.0` with coldFactor uint32) is that integer, as in Go.
package main

import (
	"go/ast"
	"go/token"
	"strconv"
	"strings"
)

// preamble of Leaf_gen.v
const shapingPreamble = "Definition leaf_i64_of_ceil (f : float) : Z :=\n" +
	"  match f_ceil_Z f with\n" +
	"  | Some t => if ((- two63 <=? t)%Z && (t <? two63)%Z)%bool then t else (- two63)%Z\n" +
	"  | None => (- two63)%Z\n  end.\n" +
	"Definition leaf_fmax : float := 0x1.fffffffffffffp+1023%float.\n" +
	"Definition leaf_nextafter_max (x : float) : float :=\n" +
	"  if PrimFloat.is_nan x then x\n" +
	"  else if PrimFloat.eqb x leaf_fmax then x\n" +
	"  else if PrimFloat.ltb leaf_fmax x then leaf_fmax\n" +
	"  else PrimFloat.next_up x.\n\n"

// declPointer: `var p *T`
func (x *tr) declPointer(vs *ast.ValueSpec) bool {
	if vs.Type == nil || len(vs.Values) != 0 || len(vs.Names) != 1 {
		return false
	}
	if _, ok := vs.Type.(*ast.StarExpr); !ok {
		return false
	}
	x.vars[vs.Names[0].Name] = x.typeOfExpr(vs.Type)
	return true
}

// assignPointer: `p = e` where p is a pointer / opaque variable
func (x *tr) assignPointer(s *ast.AssignStmt) bool {
	if s.Tok != token.ASSIGN || len(s.Lhs) != 1 {
		return false
	}
	id, ok := s.Lhs[0].(*ast.Ident)
	if !ok {
		return false
	}
	t, ok := x.vars[id.Name]
	return ok && strings.HasPrefix(t, "ptr:")
}

// callShaping: math functions
func (x *tr) callShaping(fn string, e *ast.CallExpr) (val, bool) {
	switch {
	case fn == "math.Ceil" && len(e.Args) == 1:
		v := x.coerce(x.expr(e.Args[0]), "float64")
		return val{coq: v.coq, typ: "ceil"}, true
	case fn == "math.Nextafter" && len(e.Args) == 2 && src(x.p.fset, e.Args[1]) == "math.MaxFloat64":
		v := x.coerce(x.expr(e.Args[0]), "float64")
		return val{coq: "(leaf_nextafter_max " + v.coq + ")", typ: "float64"}, true
	}
	return val{}, false
}

// convertShaping: int64(math.Ceil(f))
func (x *tr) convertShaping(to string, v val) (val, bool) {
	if v.typ == "ceil" {
		if to == "int64" || to == "int" {
			return val{coq: "(leaf_i64_of_ceil " + v.coq + ")", typ: to}, true
		}
		fail("math.Ceil is only supported under an int64 conversion")
	}
	return val{}, false
}

// selectorShaping: float constants of package math
func (x *tr) selectorShaping(s string) (val, bool) {
	if s == "math.MaxFloat64" {
		return val{coq: "leaf_fmax", typ: "float64"}, true
	}
	return val{}, false
}

// integralFloatLit: "1.0" -> "1" when the untyped float constant has an integral value
func integralFloatLit(lit string) (string, bool) {
	f, err := strconv.ParseFloat(lit, 64)
	if err != nil || f != float64(int64(f)) || f > 1e15 || f < -1e15 {
		return "", false
	}
	return strconv.FormatInt(int64(f), 10), true
}

// ---- constructors: a function that returns a struct literal ----
//
// A target with `Fields: []string{"f1", "f2"}` is a constructor: it returns `&T{...}` / `T{...}`
// (T a struct of the package) directly or through a local variable defined by `v := &T{...}`.  Its
// result is the tuple of the values given to the listed fields, in the listed order (a field the
// literal does not mention has its zero value); the declared result type is ignored.  The field
// values are evaluated where the literal stands.

// fieldStruct: the struct type whose literal the constructor builds (first struct literal of the body)
func (x *tr) fieldStruct(fd *ast.FuncDecl) string {
	name := ""
	ast.Inspect(fd.Body, func(n ast.Node) bool {
		if cl, ok := n.(*ast.CompositeLit); ok && name == "" {
			if id, ok := cl.Type.(*ast.Ident); ok {
				if _, ok := x.p.structs[id.Name]; ok {
					name = id.Name
				}
			}
		}
		return name == ""
	})
	if name == "" {
		fail("Fields: the function builds no struct literal of its package")
	}
	return name
}

// fieldResTypes: result types of a constructor target
func (x *tr) fieldResTypes(fd *ast.FuncDecl) []string {
	sn := x.fieldStruct(fd)
	var out []string
	for _, f := range x.t.Fields {
		ft, ok := x.lookupField(sn, f)
		if !ok {
			fail("Fields: struct %s has no field %s", sn, f)
		}
		ty := x.typeOfExpr(ft)
		if !isBasic(ty) {
			fail("Fields: field %s.%s has non-scalar type %s", sn, f, ty)
		}
		out = append(out, ty)
	}
	return out
}

func compositeOf(e ast.Expr) *ast.CompositeLit {
	e = unparen(e)
	if u, ok := e.(*ast.UnaryExpr); ok && u.Op == token.AND {
		e = unparen(u.X)
	}
	cl, _ := e.(*ast.CompositeLit)
	return cl
}

// fieldVals: the listed fields' values in a struct literal
func (x *tr) fieldVals(cl *ast.CompositeLit) []string {
	given := map[string]ast.Expr{}
	for _, el := range cl.Elts {
		kv, ok := el.(*ast.KeyValueExpr)
		if !ok {
			fail("struct literal without field names")
		}
		given[src(x.p.fset, kv.Key)] = kv.Value
	}
	var vs []string
	for i, f := range x.t.Fields {
		if e, ok := given[f]; ok {
			vs = append(vs, x.coerce(x.expr(e), x.resTypes[i]).coq)
		} else {
			vs = append(vs, x.zero(x.resTypes[i]))
		}
	}
	return vs
}

// defineComposite: `v := &T{...}` in a constructor target: the listed fields are let-bound
func (x *tr) defineComposite(s *ast.AssignStmt, tail []ast.Stmt, rest [][]ast.Stmt) (string, bool) {
	if len(x.t.Fields) == 0 || s.Tok != token.DEFINE || len(s.Lhs) != 1 || len(s.Rhs) != 1 {
		return "", false
	}
	cl := compositeOf(s.Rhs[0])
	id, ok := s.Lhs[0].(*ast.Ident)
	if cl == nil || !ok {
		return "", false
	}
	vs := x.fieldVals(cl)
	pre := ""
	for i, f := range x.t.Fields {
		pre += "let " + cname(id.Name+"__"+f) + " := " + vs[i] + " in\n  "
	}
	x.vars[id.Name] = "comp"
	return pre + x.exec(tail, rest), true
}

// returnFields: `return &T{...}` / `return v` in a constructor target
func (x *tr) returnFields(s *ast.ReturnStmt) ([]string, bool) {
	if len(x.t.Fields) == 0 {
		return nil, false
	}
	if len(s.Results) != 1 {
		fail("constructor returns %d values", len(s.Results))
	}
	if cl := compositeOf(s.Results[0]); cl != nil {
		return x.fieldVals(cl), true
	}
	if id, ok := unparen(s.Results[0]).(*ast.Ident); ok && x.vars[id.Name] == "comp" {
		var vs []string
		for _, f := range x.t.Fields {
			vs = append(vs, cname(id.Name+"__"+f))
		}
		return vs, true
	}
	fail("constructor returns %s: neither a struct literal nor a variable bound to one", src(x.p.fset, s.Results[0]))
	return nil, false
}
