// Targets of the circuit-breaker cluster (C03, C12): the decision logic of the three breakers of
// core/circuitbreaker/circuit_breaker.go.  Obligations: C03_leaf_check.v (sequential model,
// Model/Breaker.v) and C12_leaf_check.v (pc machine, Model/BreakerConc.v).
//
// Reads of shared state enter as parameters: state_k = the k-th load of the state word on the
// executed path (b.CurrentState()), deadline = nextRetryTimestampMs, now = the clock,
// cur_probe = curProbeNumber as loaded after addCurProbeNum; the window sums computed by the
// bucket loop enter as bad_sum / total_sum; the result of a CAS as cas_ok.  Everything the
// functions DO (counter adds, CAS attempts, probe-counter updates, deadline store with its value,
// listener notification with the previous state and the snapshot, calls of the from*To* helpers
// with their snapshot argument, resetMetric) is the action trace (effects.go), tags below.
package main

// action tags (mirrored by Model/BreakerLeaf.v `act_code`)
const (
	brkCas          = 1  // state.cas(expect, update)                  args: expect, update
	brkStoreRetry   = 2  // atomic.StoreUint64(&nextRetryTimestampMs)   args: value
	brkAddProbe     = 3  // addCurProbeNum()
	brkResetProbe   = 4  // resetCurProbeNum()
	brkUpdateRetry  = 5  // updateNextRetryTimestamp()
	brkNotifyOpen   = 6  // listeners: OnTransformToOpen(prev, _, snapshot)  args: prev, snapshot
	brkNotifyHalf   = 7  // listeners: OnTransformToHalfOpen(prev, _)        args: prev
	brkNotifyClosed = 8  // listeners: OnTransformToClosed(prev, _)          args: prev
	brkClosedToOpen = 9  // fromClosedToOpen(snapshot)                  args: snapshot
	brkHalfToOpen   = 10 // fromHalfOpenToOpen(snapshot)                args: snapshot
	brkHalfToClosed = 11 // fromHalfOpenToClosed()
	brkOpenToHalf   = 12 // fromOpenToHalfOpen(ctx)
	brkResetMetric  = 13 // resetMetric()
	brkAddBad       = 14 // atomic.AddUint64(&counter.slowCount / errorCount, 1)
	brkAddTotal     = 15 // atomic.AddUint64(&counter.totalCount, 1)
	brkHookExit     = 16 // entry.WhenExit(rollback hook)
	brkOnComplete   = 17 // cb.OnRequestComplete(rt, err)                   args: rt, identity of err
)

func init() {
	tryPass := func(typ, name string) target {
		return target{Dir: "core/circuitbreaker", Func: typ + ".TryPass", Name: name,
			Hints: map[string]hint{
				"b.CurrentState()":                           {"state", "int32"},
				"util.CurrentTimeMillis()":                   {"now", "uint64"},
				"atomic.LoadUint64(&b.nextRetryTimestampMs)": {"deadline", "uint64"}},
			SeqHints: map[string]bool{"b.CurrentState()": true},
			Inline:   []string{"circuitBreakerBase.retryTimeoutArrived"},
			Acts:     map[string]act{"b.fromOpenToHalfOpen": {Tag: brkOpenToHalf, Ret: hint{"cas_ok", "bool"}}}}
	}
	complete := func(typ, name, badField string) target {
		return target{Dir: "core/circuitbreaker", Func: typ + ".OnRequestComplete", Name: name,
			Hints: map[string]hint{
				"b.stat":                               {"", "opaque"},
				"metricStat.currentCounter()":          {"cur", "opaque"},
				"metricStat.allCounter()":              {"", "opaque"},
				"b.CurrentState()":                     {"state", "int32"},
				"atomic.LoadUint64(&b.curProbeNumber)": {"cur_probe", "uint64"}},
			SeqHints: map[string]bool{"b.CurrentState()": true},
			LoopVars: map[string]hint{badField: {"bad_sum", "uint64"}, "totalCount": {"total_sum", "uint64"}},
			Acts: map[string]act{
				"atomic.AddUint64(&counter." + badField + ", 1)": {Tag: brkAddBad},
				"atomic.AddUint64(&counter.totalCount, 1)":       {Tag: brkAddTotal},
				"b.addCurProbeNum":                               {Tag: brkAddProbe},
				"b.fromClosedToOpen":                             {Tag: brkClosedToOpen, Keep: []int{0}},
				"b.fromHalfOpenToOpen":                           {Tag: brkHalfToOpen, Keep: []int{0}},
				"b.fromHalfOpenToClosed":                         {Tag: brkHalfToClosed},
				"b.resetMetric":                                  {Tag: brkResetMetric}}}
	}
	transition := func(fn, name string) target {
		return target{Dir: "core/circuitbreaker", Func: "circuitBreakerBase." + fn, Name: name,
			Hints:   map[string]hint{"ctx.Entry()": {"", "opaque"}},
			Effects: []string{"stateChangedCounter.Add("},
			Acts: map[string]act{
				"b.state.cas":                   {Tag: brkCas, Keep: []int{0, 1}, Ret: hint{"cas_ok", "bool"}},
				"b.resetCurProbeNum":            {Tag: brkResetProbe},
				"b.updateNextRetryTimestamp":    {Tag: brkUpdateRetry},
				"<range>.OnTransformToOpen":     {Tag: brkNotifyOpen, Keep: []int{0, 2}},
				"<range>.OnTransformToHalfOpen": {Tag: brkNotifyHalf, Keep: []int{0}},
				"<range>.OnTransformToClosed":   {Tag: brkNotifyClosed, Keep: []int{0}},
				"entry.WhenExit":                {Tag: brkHookExit}}}
	}
	sumStep := func(typ, name, ctr, badField string) target {
		return target{Dir: "core/circuitbreaker", Func: typ + ".OnRequestComplete", Name: name, LoopBody: 1,
			RangeVars: map[string]string{"c": "*" + ctr},
			Hints: map[string]hint{
				"b.stat":                                 {"", "opaque"},
				"metricStat.currentCounter()":            {"cur", "opaque"},
				"metricStat.allCounter()":                {"", "opaque"},
				"atomic.LoadUint64(&c." + badField + ")": {"c_bad", "uint64"},
				"atomic.LoadUint64(&c.totalCount)":       {"c_total", "uint64"}},
			Acts: map[string]act{
				"atomic.AddUint64(&counter." + badField + ", 1)": {Tag: brkAddBad},
				"atomic.AddUint64(&counter.totalCount, 1)":       {Tag: brkAddTotal}}}
	}
	targets = append(targets,
		// one iteration of the window-sum loop of OnRequestComplete (uint64 accumulation)
		sumStep("slowRtCircuitBreaker", "cb_slow_sum_step", "slowRequestCounter", "slowCount"),
		sumStep("errorRatioCircuitBreaker", "cb_errRatio_sum_step", "errorCounter", "errorCount"),
		sumStep("errorCountCircuitBreaker", "cb_errCount_sum_step", "errorCounter", "errorCount"),
		// MetricStatSlot.OnCompleted: one iteration of the loop over the resource's breakers reports the
		// completion exactly once, with the entry's rt and error; nothing else of the entry (batch
		// count, traffic / resource type, args, attachments) is read
		target{Dir: "core/circuitbreaker", Func: "MetricStatSlot.OnCompleted", Name: "cb_statSlot_step", LoopBody: 1,
			RangeVars: map[string]string{"cb": "CircuitBreaker"},
			Hints: map[string]hint{
				"ctx.Resource.Name()":        {"", "opaque"},
				"getBreakersOfResource(res)": {"", "opaque"},
				"ctx.Err()":                  {"", "opaque"},
				"ctx.Rt()":                   {"entry_rt", "uint64"}},
			Acts: map[string]act{"cb.OnRequestComplete": {Tag: brkOnComplete, Keep: []int{0, 1}}}},
		// retryTimeoutArrived: now >= deadline (both uint64)
		target{Dir: "core/circuitbreaker", Func: "circuitBreakerBase.retryTimeoutArrived", Name: "cb_retryTimeoutArrived",
			Hints: map[string]hint{
				"util.CurrentTimeMillis()":                   {"now", "uint64"},
				"atomic.LoadUint64(&b.nextRetryTimestampMs)": {"deadline", "uint64"}}},
		// updateNextRetryTimestamp: store of now + uint64(retryTimeoutMs), uint64 wrap-around
		target{Dir: "core/circuitbreaker", Func: "circuitBreakerBase.updateNextRetryTimestamp", Name: "cb_updateNextRetryTimestamp",
			Hints: map[string]hint{"util.CurrentTimeMillis()": {"now", "uint64"}},
			Acts:  map[string]act{"atomic.StoreUint64": {Tag: brkStoreRetry, Keep: []int{1}}}},
		// the bucket count actually used for the breaker's leap array
		target{Dir: "core/circuitbreaker", Func: "getRuleStatSlidingWindowBucketCount", Name: "cb_bucketCount"},
		// TryPass of the three breakers: state dispatch, timeout test, Open->HalfOpen attempt, probe-number test
		tryPass("slowRtCircuitBreaker", "cb_slow_TryPass"),
		tryPass("errorRatioCircuitBreaker", "cb_errRatio_TryPass"),
		tryPass("errorCountCircuitBreaker", "cb_errCount_TryPass"),
		// OnRequestComplete of the three breakers: counter adds, state dispatch, half-open branch, threshold tests
		complete("slowRtCircuitBreaker", "cb_slow_OnRequestComplete", "slowCount"),
		complete("errorRatioCircuitBreaker", "cb_errRatio_OnRequestComplete", "errorCount"),
		complete("errorCountCircuitBreaker", "cb_errCount_OnRequestComplete", "errorCount"),
		// the transitions: CAS, then (only on success) probe-counter reset / deadline update / listeners
		transition("fromClosedToOpen", "cb_fromClosedToOpen"),
		transition("fromOpenToHalfOpen", "cb_fromOpenToHalfOpen"),
		transition("fromHalfOpenToOpen", "cb_fromHalfOpenToOpen"),
		transition("fromHalfOpenToClosed", "cb_fromHalfOpenToClosed"),
		// the exit hook registered by fromOpenToHalfOpen: rollback HalfOpen -> Open of a blocked probe
		target{Dir: "core/circuitbreaker", Func: "circuitBreakerBase.fromOpenToHalfOpen", Name: "cb_rollbackHook", Lit: 1,
			Hints: map[string]hint{"ctx.IsBlocked()": {"blocked", "bool"}},
			Acts: map[string]act{
				"b.state.cas":               {Tag: brkCas, Keep: []int{0, 1}, Ret: hint{"cas_ok", "bool"}},
				"<range>.OnTransformToOpen": {Tag: brkNotifyOpen, Keep: []int{0, 2}}}},
	)
}
