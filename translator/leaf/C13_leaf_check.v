(* C13 leaf obligations: the validity predicates of Model/Rules.v (which the C13/C14/C18 theorems
   quantify through [valid]) are the IsValidRule functions of the Go source, regenerated as
   Gallina on every run by translator/leaf (Gen.Leaf_gen).  Strings are ids in the model
   (0 = empty); a non-nil rule pointer is the model's [rule] value.  Each lemma holds for ALL
   rules, so an edit to one conjunct of an IsValidRule breaks an obligation here. *)
From Coq Require Import ZArith Bool Lia Floats.
From SG Require Import Base.Prelude Base.GoInt Base.GoFloat Model.Rules.
From Gen Require Import Leaf_gen.
#[local] Open Scope Z_scope.

Ltac split_ifs :=
  repeat match goal with
         | |- context [if ?c then _ else _] => destruct c eqn:?
         end.

Lemma isolation_IsValidRule_ok r :
  (isolation_IsValidRule (i_metric r) (i_thr r) false (i_res r =? 0) =? 0) = iso_valid r.
Proof. unfold isolation_IsValidRule, iso_valid. split_ifs; reflexivity. Qed.

Lemma system_IsValidSystemRule_ok r :
  (system_IsValidSystemRule (s_metric r) (s_trigger r) false =? 0) = sys_valid r.
Proof. unfold system_IsValidSystemRule, sys_valid. split_ifs; reflexivity. Qed.

Lemma circuitbreaker_IsValidRule_ok r :
  (circuitbreaker_IsValidRule (b_retry r) (b_interval r) (b_buckets r) (b_strategy r) (b_thr r) false (b_res r =? 0) =? 0)
  = brk_valid r.
Proof. unfold circuitbreaker_IsValidRule, brk_valid. split_ifs; reflexivity. Qed.

Lemma hotspot_IsValidRule_ok r :
  (hotspot_IsValidRule (negb (h_pkey r =? 0)) (h_res r =? 0) (h_burst r) (h_cb r) (h_dur r) (h_maxq r)
     (h_metric r) (h_pidx r) (h_thr r) false =? 0) = hot_valid r.
Proof. unfold hotspot_IsValidRule, hot_valid. split_ifs; reflexivity. Qed.

Lemma flow_IsValidRule_ok tm r :
  (flow_IsValidRule (f_ref r =? 0) (f_res r =? 0) (f_cb r) (f_highmem r) (f_lowmem r) (f_memhigh r) (f_memlow r)
     (f_rel r) (f_interval r) (f_thr r) (f_tcs r) (f_wcold r) (f_wperiod r) false tm =? 0) = flow_valid tm r.
Proof. unfold flow_IsValidRule, flow_valid. split_ifs; try reflexivity; try lia. Qed.

Print Assumptions isolation_IsValidRule_ok.
Print Assumptions system_IsValidSystemRule_ok.
Print Assumptions circuitbreaker_IsValidRule_ok.
Print Assumptions hotspot_IsValidRule_ok.
Print Assumptions flow_IsValidRule_ok.
