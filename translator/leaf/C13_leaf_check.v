(* C13 leaf obligations: the validity predicates of Model/Rules.v (which the C13/C14/C18 theorems
   quantify through [valid]) are the IsValidRule functions of the Go source, regenerated as
   Gallina on every run by translator/leaf (Gen.Leaf_gen).  Strings are ids in the model
   (0 = empty); a non-nil rule pointer is the model's [rule] value.  Each lemma holds for ALL
   rules, so an edit to one conjunct of an IsValidRule breaks an obligation here. *)
From Coq Require Import ZArith Bool Lia Floats.
From SG Require Import Base.Prelude Base.GoInt Base.GoFloat Model.Rules.
From Gen Require Import Leaf_gen.
#[local] Open Scope Z_scope.

Ltac split_ifs :=
  repeat match goal with
         | |- context [if ?c then _ else _] => destruct c eqn:?
         end.

Lemma isolation_IsValidRule_ok r :
  (isolation_IsValidRule (i_metric r) (i_thr r) false (i_res r =? 0) =? 0) = iso_valid r.
Proof. unfold isolation_IsValidRule, iso_valid. split_ifs; reflexivity. Qed.

Lemma system_IsValidSystemRule_ok r :
  (system_IsValidSystemRule (s_metric r) (s_trigger r) false =? 0) = sys_valid r.
Proof. unfold system_IsValidSystemRule, sys_valid. split_ifs; reflexivity. Qed.

Lemma circuitbreaker_IsValidRule_ok r :
  (circuitbreaker_IsValidRule (b_retry r) (b_interval r) (b_buckets r) (b_strategy r) (b_thr r) false (b_res r =? 0) =? 0)
  = brk_valid r.
Proof. unfold circuitbreaker_IsValidRule, brk_valid. split_ifs; reflexivity. Qed.

Lemma hotspot_IsValidRule_ok r :
  (hotspot_IsValidRule (negb (h_pkey r =? 0)) (h_res r =? 0) (h_burst r) (h_cb r) (h_dur r) (h_maxq r)
     (h_metric r) (h_pidx r) (h_thr r) false =? 0) = hot_valid r.
Proof. unfold hotspot_IsValidRule, hot_valid. split_ifs; reflexivity. Qed.

Lemma flow_IsValidRule_ok tm r :
  (flow_IsValidRule (f_ref r =? 0) (f_res r =? 0) (f_cb r) (f_highmem r) (f_lowmem r) (f_memhigh r) (f_memlow r)
     (f_rel r) (f_interval r) (f_thr r) (f_tcs r) (f_wcold r) (f_wperiod r) false tm =? 0) = flow_valid tm r.
Proof. unfold flow_IsValidRule, flow_valid. split_ifs; try reflexivity; try lia. Qed.

Print Assumptions isolation_IsValidRule_ok.
Print Assumptions system_IsValidSystemRule_ok.
Print Assumptions circuitbreaker_IsValidRule_ok.
Print Assumptions hotspot_IsValidRule_ok.
Print Assumptions flow_IsValidRule_ok.

(* ---- Round 3: the validity-filter loops of the load paths, ONE iteration each ----
   Gen.<module>_filter_all_step  = the inner loop of onRuleUpdate (whole-set path, nested in the range over
                                   the grouped map), Gen.<module>_filter_res_step = the loop of
                                   onResourceRuleUpdate: `if err := IsValidRule(rule); err != nil { continue };
                                   validResRules = append(validResRules, rule)`.
   err_nil is instantiated with the REGENERATED IsValidRule applied to the rule (a nil element: rule_nil).
   The rule is appended (action 1) iff the model's [valid] holds, a nil element never is: this is one step of
   the model's [vfilter] = filter valid (nonnil l), and vfilter is that step iterated (vfilter_cons). *)
Definition appended {R C} (g : leaf_flow R C * list leaf_act) : bool :=
  match snd g with [] => false | _ => true end.
Definition goes_on {R} (g : leaf_flow R unit * list leaf_act) : bool :=
  match fst g with LContinue _ => true | _ => false end.

Definition filter_step {rule} (valid : rule -> bool) (x : option rule) : bool :=
  match x with Some r => valid r | None => false end.

Lemma vfilter_cons {rule} (valid : rule -> bool) (x : option rule) l :
  vfilter rule valid (x :: l)
  = match x with
    | Some r => if filter_step valid x then r :: vfilter rule valid l else vfilter rule valid l
    | None => vfilter rule valid l
    end.
Proof. unfold vfilter, filter_step. destruct x as [r|]; cbn [nonnil filter]; reflexivity. Qed.

Ltac filter_ok lem :=
  intros; rewrite lem; unfold appended, goes_on;
  match goal with |- context [if negb ?c then _ else _] => destruct c end; split; reflexivity.

Lemma flow_filter_steps_ok tm r :
  let e := flow_IsValidRule (f_ref r =? 0) (f_res r =? 0) (f_cb r) (f_highmem r) (f_lowmem r) (f_memhigh r) (f_memlow r)
             (f_rel r) (f_interval r) (f_thr r) (f_tcs r) (f_wcold r) (f_wperiod r) false tm =? 0 in
  (appended (flow_filter_all_step e) = filter_step (flow_valid tm) (Some r) /\ goes_on (flow_filter_all_step e) = true)
  /\ (appended (flow_filter_res_step e) = filter_step (flow_valid tm) (Some r) /\ goes_on (flow_filter_res_step e) = true).
Proof.
  cbv zeta. rewrite flow_IsValidRule_ok. unfold flow_filter_all_step, flow_filter_res_step, appended, goes_on, filter_step.
  destruct (flow_valid tm r); cbn [negb snd fst]; repeat split; reflexivity.
Qed.

Lemma hotspot_filter_steps_ok r :
  let e := hotspot_IsValidRule (negb (h_pkey r =? 0)) (h_res r =? 0) (h_burst r) (h_cb r) (h_dur r) (h_maxq r)
             (h_metric r) (h_pidx r) (h_thr r) false =? 0 in
  (appended (hotspot_filter_all_step e) = filter_step hot_valid (Some r) /\ goes_on (hotspot_filter_all_step e) = true)
  /\ (appended (hotspot_filter_res_step e) = filter_step hot_valid (Some r) /\ goes_on (hotspot_filter_res_step e) = true).
Proof.
  cbv zeta. rewrite hotspot_IsValidRule_ok. unfold hotspot_filter_all_step, hotspot_filter_res_step, appended, goes_on, filter_step.
  destruct (hot_valid r); cbn [negb snd fst]; repeat split; reflexivity.
Qed.

Lemma circuitbreaker_filter_steps_ok r :
  let e := circuitbreaker_IsValidRule (b_retry r) (b_interval r) (b_buckets r) (b_strategy r) (b_thr r) false (b_res r =? 0) =? 0 in
  (appended (circuitbreaker_filter_all_step e) = filter_step brk_valid (Some r) /\ goes_on (circuitbreaker_filter_all_step e) = true)
  /\ (appended (circuitbreaker_filter_res_step e) = filter_step brk_valid (Some r) /\ goes_on (circuitbreaker_filter_res_step e) = true).
Proof.
  cbv zeta. rewrite circuitbreaker_IsValidRule_ok. unfold circuitbreaker_filter_all_step, circuitbreaker_filter_res_step, appended, goes_on, filter_step.
  destruct (brk_valid r); cbn [negb snd fst]; repeat split; reflexivity.
Qed.

Lemma isolation_filter_steps_ok r :
  let e := isolation_IsValidRule (i_metric r) (i_thr r) false (i_res r =? 0) =? 0 in
  (appended (isolation_filter_all_step e) = filter_step iso_valid (Some r) /\ goes_on (isolation_filter_all_step e) = true)
  /\ (appended (isolation_filter_res_step e) = filter_step iso_valid (Some r) /\ goes_on (isolation_filter_res_step e) = true).
Proof.
  cbv zeta. rewrite isolation_IsValidRule_ok. unfold isolation_filter_all_step, isolation_filter_res_step, appended, goes_on, filter_step.
  destruct (iso_valid r); cbn [negb snd fst]; repeat split; reflexivity.
Qed.

(* a nil element: IsValidRule(nil) is an error whatever the (absent) fields, so nothing is appended *)
Lemma nil_element_filtered :
  (forall a b c d e f g h i j k l m tm, flow_IsValidRule a b c d e f g h i j k l m true tm =? 0 = false)
  /\ (forall a b c d e f g h i, hotspot_IsValidRule a b c d e f g h i true =? 0 = false)
  /\ (forall a b c d e g, circuitbreaker_IsValidRule a b c d e true g =? 0 = false)
  /\ (forall a b d, isolation_IsValidRule a b true d =? 0 = false).
Proof. repeat split; intros; reflexivity. Qed.

Lemma nil_element_steps :
  appended (flow_filter_all_step false) = false /\ appended (flow_filter_res_step false) = false
  /\ appended (hotspot_filter_all_step false) = false /\ appended (hotspot_filter_res_step false) = false
  /\ appended (circuitbreaker_filter_all_step false) = false /\ appended (circuitbreaker_filter_res_step false) = false
  /\ appended (isolation_filter_all_step false) = false /\ appended (isolation_filter_res_step false) = false.
Proof. repeat split; reflexivity. Qed.

Print Assumptions flow_filter_steps_ok.
Print Assumptions hotspot_filter_steps_ok.
Print Assumptions circuitbreaker_filter_steps_ok.
Print Assumptions isolation_filter_steps_ok.
Print Assumptions nil_element_filtered.
Print Assumptions nil_element_steps.
