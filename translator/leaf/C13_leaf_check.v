(* C13 leaf obligations: the validity predicates of Model/Rules.v (which the C13/C14/C18 theorems
   quantify through [valid]) are the IsValidRule functions of the Go source, regenerated as
   Gallina on every run by translator/leaf (Gen.Leaf_gen).  Strings are ids in the model
   (0 = empty); a non-nil rule pointer is the model's [rule] value.  Each lemma holds for ALL
   rules, so an edit to one conjunct of an IsValidRule breaks an obligation here. *)
From Coq Require Import ZArith Bool Lia Floats.
From SG Require Import Base.Prelude Base.GoInt Base.GoFloat Model.Rules.
From Gen Require Import Leaf_gen.
#[local] Open Scope Z_scope.

(* ---- one shape-independent script for every "regenerated decision = model decision" lemma of this file ----
   [leaf_decide]: case-split on the condition of every if-then-else of the goal (outermost first, so that
   guarded sub-terms are only visited on the paths that reach them), then in every leaf: evaluate; if the
   two sides still differ the path must be contradictory - break the recorded conditions into their atoms
   (andb / orb / negb), use them to rewrite what is left of the goal, split the remaining atoms, and close
   with reflexivity / lia (integer atoms) / congruence (the same float atom with two truth values).
   Nothing here depends on the order or nesting of the tests in the generated term. *)
Ltac split_ifs :=
  repeat match goal with
         | |- context [if ?c then _ else _] => destruct c eqn:?
         end.
Ltac norm_hyps :=
  repeat match goal with
         | H : negb _ = true |- _ => apply Bool.negb_true_iff in H
         | H : negb _ = false |- _ => apply Bool.negb_false_iff in H
         | H : andb _ _ = true |- _ => apply Bool.andb_true_iff in H; destruct H
         | H : orb _ _ = false |- _ => apply Bool.orb_false_iff in H; destruct H
         | H : andb _ _ = false |- _ => apply Bool.andb_false_iff in H; destruct H
         | H : orb _ _ = true |- _ => apply Bool.orb_true_iff in H; destruct H
         | H : true = false |- _ => discriminate H
         | H : false = true |- _ => discriminate H
         end.
Ltac split_hyp_ifs :=
  repeat match goal with
         | H : context [if ?c then _ else _] |- _ => destruct c eqn:?
         end.
Ltac use_hyps :=
  repeat match goal with
         | H : ?a = true |- context [?a] => rewrite H
         | H : ?a = false |- context [?a] => rewrite H
         end.
Ltac split_atoms :=
  repeat match goal with
         | |- context [Z.eqb ?a ?b] => destruct (Z.eqb a b) eqn:?
         | |- context [Z.ltb ?a ?b] => destruct (Z.ltb a b) eqn:?
         | |- context [Z.leb ?a ?b] => destruct (Z.leb a b) eqn:?
         | |- context [PrimFloat.ltb ?a ?b] => destruct (PrimFloat.ltb a b) eqn:?
         | |- context [PrimFloat.leb ?a ?b] => destruct (PrimFloat.leb a b) eqn:?
         | |- context [PrimFloat.eqb ?a ?b] => destruct (PrimFloat.eqb a b) eqn:?
         | |- context [float64_equals ?a ?b] => destruct (float64_equals a b) eqn:?
         end.
Ltac z_facts :=
  repeat match goal with
         | H : Z.eqb _ _ = true |- _ => apply Z.eqb_eq in H
         | H : Z.eqb _ _ = false |- _ => apply Z.eqb_neq in H
         | H : Z.ltb _ _ = true |- _ => apply Z.ltb_lt in H
         | H : Z.ltb _ _ = false |- _ => apply Z.ltb_ge in H
         | H : Z.leb _ _ = true |- _ => apply Z.leb_le in H
         | H : Z.leb _ _ = false |- _ => apply Z.leb_gt in H
         end.
Ltac leaf_close := first [ reflexivity | congruence | (exfalso; z_facts; lia) | (z_facts; lia) ].
Ltac leaf_decide :=
  cbv zeta; split_ifs;
  first [ reflexivity
        | repeat (progress (norm_hyps; split_hyp_ifs)); use_hyps; cbn [andb orb negb];
          first [ leaf_close | split_atoms; cbn [andb orb negb]; leaf_close ] ].

Lemma isolation_IsValidRule_ok r :
  (isolation_IsValidRule (i_metric r) (i_thr r) false (i_res r =? 0) =? 0) = iso_valid r.
Proof. unfold isolation_IsValidRule, iso_valid. leaf_decide. Qed.

Lemma system_IsValidSystemRule_ok r :
  (system_IsValidSystemRule (s_metric r) (s_trigger r) false =? 0) = sys_valid r.
Proof. unfold system_IsValidSystemRule, sys_valid. leaf_decide. Qed.

Lemma circuitbreaker_IsValidRule_ok r :
  (circuitbreaker_IsValidRule (b_retry r) (b_interval r) (b_buckets r) (b_strategy r) (b_thr r) false (b_res r =? 0) =? 0)
  = brk_valid r.
Proof. unfold circuitbreaker_IsValidRule, brk_valid. leaf_decide. Qed.

Lemma hotspot_IsValidRule_ok r :
  (hotspot_IsValidRule (negb (h_pkey r =? 0)) (h_res r =? 0) (h_burst r) (h_cb r) (h_dur r) (h_maxq r)
     (h_metric r) (h_pidx r) (h_thr r) false =? 0) = hot_valid r.
Proof. unfold hotspot_IsValidRule, hot_valid. leaf_decide. Qed.

Lemma flow_IsValidRule_ok tm r :
  (flow_IsValidRule (f_ref r =? 0) (f_res r =? 0) (f_cb r) (f_highmem r) (f_lowmem r) (f_memhigh r) (f_memlow r)
     (f_rel r) (f_interval r) (f_thr r) (f_tcs r) (f_wcold r) (f_wperiod r) false tm =? 0) = flow_valid tm r.
Proof. unfold flow_IsValidRule, flow_valid. leaf_decide. Qed.

Print Assumptions isolation_IsValidRule_ok.
Print Assumptions system_IsValidSystemRule_ok.
Print Assumptions circuitbreaker_IsValidRule_ok.
Print Assumptions hotspot_IsValidRule_ok.
Print Assumptions flow_IsValidRule_ok.

(* ---- Round 3: the validity-filter loops of the load paths, ONE iteration each ----
   Gen.<module>_filter_all_step  = the inner loop of onRuleUpdate (whole-set path, nested in the range over
                                   the grouped map), Gen.<module>_filter_res_step = the loop of
                                   onResourceRuleUpdate: `if err := IsValidRule(rule); err != nil { continue };
                                   validResRules = append(validResRules, rule)`.
   err_nil is instantiated with the REGENERATED IsValidRule applied to the rule (a nil element: rule_nil).
   The rule is appended (action 1) iff the model's [valid] holds, a nil element never is: this is one step of
   the model's [vfilter] = filter valid (nonnil l), and vfilter is that step iterated (vfilter_cons). *)
Definition appended {R C} (g : leaf_flow R C * list leaf_act) : bool :=
  match snd g with [] => false | _ => true end.
Definition goes_on {R} (g : leaf_flow R unit * list leaf_act) : bool :=
  match fst g with LContinue _ => true | _ => false end.

Definition filter_step {rule} (valid : rule -> bool) (x : option rule) : bool :=
  match x with Some r => valid r | None => false end.

Lemma vfilter_cons {rule} (valid : rule -> bool) (x : option rule) l :
  vfilter rule valid (x :: l)
  = match x with
    | Some r => if filter_step valid x then r :: vfilter rule valid l else vfilter rule valid l
    | None => vfilter rule valid l
    end.
Proof. unfold vfilter, filter_step. destruct x as [r|]; cbn [nonnil filter]; reflexivity. Qed.

Lemma flow_filter_all_step_ok tm r :
  let e := flow_IsValidRule (f_ref r =? 0) (f_res r =? 0) (f_cb r) (f_highmem r) (f_lowmem r) (f_memhigh r) (f_memlow r)
             (f_rel r) (f_interval r) (f_thr r) (f_tcs r) (f_wcold r) (f_wperiod r) false tm =? 0 in
  appended (flow_filter_all_step e) = filter_step (flow_valid tm) (Some r) /\ goes_on (flow_filter_all_step e) = true.
Proof.
  cbv zeta. rewrite flow_IsValidRule_ok. unfold flow_filter_all_step, appended, goes_on, filter_step.
  destruct (flow_valid tm r); split; reflexivity.
Qed.

Lemma flow_filter_res_step_ok tm r :
  let e := flow_IsValidRule (f_ref r =? 0) (f_res r =? 0) (f_cb r) (f_highmem r) (f_lowmem r) (f_memhigh r) (f_memlow r)
             (f_rel r) (f_interval r) (f_thr r) (f_tcs r) (f_wcold r) (f_wperiod r) false tm =? 0 in
  appended (flow_filter_res_step e) = filter_step (flow_valid tm) (Some r) /\ goes_on (flow_filter_res_step e) = true.
Proof.
  cbv zeta. rewrite flow_IsValidRule_ok. unfold flow_filter_res_step, appended, goes_on, filter_step.
  destruct (flow_valid tm r); split; reflexivity.
Qed.

Lemma hotspot_filter_all_step_ok r :
  let e := hotspot_IsValidRule (negb (h_pkey r =? 0)) (h_res r =? 0) (h_burst r) (h_cb r) (h_dur r) (h_maxq r)
             (h_metric r) (h_pidx r) (h_thr r) false =? 0 in
  appended (hotspot_filter_all_step e) = filter_step (hot_valid) (Some r) /\ goes_on (hotspot_filter_all_step e) = true.
Proof.
  cbv zeta. rewrite hotspot_IsValidRule_ok. unfold hotspot_filter_all_step, appended, goes_on, filter_step.
  destruct (hot_valid r); split; reflexivity.
Qed.

Lemma hotspot_filter_res_step_ok r :
  let e := hotspot_IsValidRule (negb (h_pkey r =? 0)) (h_res r =? 0) (h_burst r) (h_cb r) (h_dur r) (h_maxq r)
             (h_metric r) (h_pidx r) (h_thr r) false =? 0 in
  appended (hotspot_filter_res_step e) = filter_step (hot_valid) (Some r) /\ goes_on (hotspot_filter_res_step e) = true.
Proof.
  cbv zeta. rewrite hotspot_IsValidRule_ok. unfold hotspot_filter_res_step, appended, goes_on, filter_step.
  destruct (hot_valid r); split; reflexivity.
Qed.

Lemma circuitbreaker_filter_all_step_ok r :
  let e := circuitbreaker_IsValidRule (b_retry r) (b_interval r) (b_buckets r) (b_strategy r) (b_thr r) false (b_res r =? 0) =? 0 in
  appended (circuitbreaker_filter_all_step e) = filter_step (brk_valid) (Some r) /\ goes_on (circuitbreaker_filter_all_step e) = true.
Proof.
  cbv zeta. rewrite circuitbreaker_IsValidRule_ok. unfold circuitbreaker_filter_all_step, appended, goes_on, filter_step.
  destruct (brk_valid r); split; reflexivity.
Qed.

Lemma circuitbreaker_filter_res_step_ok r :
  let e := circuitbreaker_IsValidRule (b_retry r) (b_interval r) (b_buckets r) (b_strategy r) (b_thr r) false (b_res r =? 0) =? 0 in
  appended (circuitbreaker_filter_res_step e) = filter_step (brk_valid) (Some r) /\ goes_on (circuitbreaker_filter_res_step e) = true.
Proof.
  cbv zeta. rewrite circuitbreaker_IsValidRule_ok. unfold circuitbreaker_filter_res_step, appended, goes_on, filter_step.
  destruct (brk_valid r); split; reflexivity.
Qed.

Lemma isolation_filter_all_step_ok r :
  let e := isolation_IsValidRule (i_metric r) (i_thr r) false (i_res r =? 0) =? 0 in
  appended (isolation_filter_all_step e) = filter_step (iso_valid) (Some r) /\ goes_on (isolation_filter_all_step e) = true.
Proof.
  cbv zeta. rewrite isolation_IsValidRule_ok. unfold isolation_filter_all_step, appended, goes_on, filter_step.
  destruct (iso_valid r); split; reflexivity.
Qed.

Lemma isolation_filter_res_step_ok r :
  let e := isolation_IsValidRule (i_metric r) (i_thr r) false (i_res r =? 0) =? 0 in
  appended (isolation_filter_res_step e) = filter_step (iso_valid) (Some r) /\ goes_on (isolation_filter_res_step e) = true.
Proof.
  cbv zeta. rewrite isolation_IsValidRule_ok. unfold isolation_filter_res_step, appended, goes_on, filter_step.
  destruct (iso_valid r); split; reflexivity.
Qed.

(* a nil element: IsValidRule(nil) is an error whatever the (absent) fields, so nothing is appended
   (one lemma per regenerated function, so that a function the translator can not regenerate on some
   tree takes only its own lemma with it) *)
Lemma flow_nil_invalid a b c d e f g h i j k l m tm : flow_IsValidRule a b c d e f g h i j k l m true tm =? 0 = false.
Proof. unfold flow_IsValidRule. leaf_decide. Qed.
Lemma hotspot_nil_invalid a b c d e f g h i : hotspot_IsValidRule a b c d e f g h i true =? 0 = false.
Proof. unfold hotspot_IsValidRule. leaf_decide. Qed.
Lemma circuitbreaker_nil_invalid a b c d e g : circuitbreaker_IsValidRule a b c d e true g =? 0 = false.
Proof. unfold circuitbreaker_IsValidRule. leaf_decide. Qed.
Lemma isolation_nil_invalid a b d : isolation_IsValidRule a b true d =? 0 = false.
Proof. unfold isolation_IsValidRule. leaf_decide. Qed.

Lemma flow_filter_all_nil : appended (flow_filter_all_step false) = false. Proof. reflexivity. Qed.
Lemma flow_filter_res_nil : appended (flow_filter_res_step false) = false. Proof. reflexivity. Qed.
Lemma hotspot_filter_all_nil : appended (hotspot_filter_all_step false) = false. Proof. reflexivity. Qed.
Lemma hotspot_filter_res_nil : appended (hotspot_filter_res_step false) = false. Proof. reflexivity. Qed.
Lemma circuitbreaker_filter_all_nil : appended (circuitbreaker_filter_all_step false) = false. Proof. reflexivity. Qed.
Lemma circuitbreaker_filter_res_nil : appended (circuitbreaker_filter_res_step false) = false. Proof. reflexivity. Qed.
Lemma isolation_filter_all_nil : appended (isolation_filter_all_step false) = false. Proof. reflexivity. Qed.
Lemma isolation_filter_res_nil : appended (isolation_filter_res_step false) = false. Proof. reflexivity. Qed.

Print Assumptions flow_filter_all_step_ok.
Print Assumptions flow_filter_res_step_ok.
Print Assumptions hotspot_filter_all_step_ok.
Print Assumptions hotspot_filter_res_step_ok.
Print Assumptions circuitbreaker_filter_all_step_ok.
Print Assumptions circuitbreaker_filter_res_step_ok.
Print Assumptions isolation_filter_all_step_ok.
Print Assumptions isolation_filter_res_step_ok.
Print Assumptions flow_nil_invalid.
Print Assumptions hotspot_nil_invalid.
Print Assumptions circuitbreaker_nil_invalid.
Print Assumptions isolation_nil_invalid.
Print Assumptions flow_filter_all_nil.
Print Assumptions flow_filter_res_nil.
Print Assumptions hotspot_filter_all_nil.
Print Assumptions hotspot_filter_res_nil.
Print Assumptions circuitbreaker_filter_all_nil.
Print Assumptions circuitbreaker_filter_res_nil.
Print Assumptions isolation_filter_all_nil.
Print Assumptions isolation_filter_res_nil.
