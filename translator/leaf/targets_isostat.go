// Targets of the isolation / outlier / statistic-node cluster (C04, C20, C08, C09).
package main

func init() {
	targets = append(targets,
		// ---- C04: isolation.checkPass, ONE iteration of `for _, rule := range rules` ----
		// result: LReturn (false, 1 = this rule, snapshot) | LContinue curCount; the gauge read enters as `gauge`
		target{Dir: "core/isolation", Func: "checkPass", Name: "isolation_checkPass_step", LoopBody: 1,
			Hints: map[string]hint{
				"ctx.StatNode":                  {"", "opaque"},
				"ctx.Input.BatchCount":          {"batchCount", "uint32"},
				"statNode.CurrentConcurrency()": {"gauge", "int32"}},
			RangeVars: map[string]string{"rule": "*Rule"},
			NilRes:    []string{"*Rule"}, Errs: map[string]int{"rule": 1}},
		// ---- C20: outlier.checkAllNodes, ONE iteration of `for address, breaker := range nodeBreaks` ----
		// result: the appends performed, as action trace: 1 = halfs, 2 = outliers, 3 = filters (in execution order)
		target{Dir: "core/outlier", Func: "checkAllNodes", Name: "outlier_checkAllNodes_step", LoopBody: 1,
			Hints: map[string]hint{
				"ctx.Resource.Name()":                 {"", "opaque"},
				"getNodeBreakersOfResource(resource)": {"", "opaque"},
				"getOutlierRuleOfResource(resource)":  {"", "ptr:Rule"},
				"len(nodeBreaks)":                     {"nodeCount", "int"},
				"breaker.TryPass(ctx)":                {"try_pass", "bool"},
				"breaker.CurrentState()":              {"state", "int32"},
				"len(filters)":                        {"filters_len", "int"}},
			RangeVars: map[string]string{"address": "string", "breaker": "circuitbreaker.CircuitBreaker"},
			Acts: map[string]act{
				"append(halfs, address)":    {Tag: 1},
				"append(outliers, address)": {Tag: 2},
				"append(filters, address)":  {Tag: 3}}},
		// ---- statistic-node getters (C08; used by C02 / C07): the float arithmetic around the window sums ----
		// BaseStatNode.GetMaxAvg: float64(max) * float64(sampleCount) / float64(intervalMs) * 1000.0
		target{Dir: "core/stat", Func: "BaseStatNode.GetMaxAvg", Name: "node_GetMaxAvg",
			Hints: map[string]hint{"n.metric.GetMaxOfSingleBucket(event)": {"max_single", "int64"}}},
		// BaseStatNode.AvgRT: integer division of the two window sums, 0 when nothing completed
		target{Dir: "core/stat", Func: "BaseStatNode.AvgRT", Name: "node_AvgRT",
			Hints: map[string]hint{
				"n.metric.GetSum(base.MetricEventComplete)": {"complete_sum", "int64"},
				"n.metric.GetSum(base.MetricEventRt)":       {"rt_sum", "int64"}}},
		// BaseStatNode.MinRT: the view's value, converted
		target{Dir: "core/stat", Func: "BaseStatNode.MinRT", Name: "node_MinRT",
			Hints: map[string]hint{"n.metric.MinRT()": {"view_min_rt", "float64"}}},
		// SlidingWindowMetric.getQPSWithTime: float64(sum) / (float64(intervalInMs) / 1000.0)
		target{Dir: "core/stat/base", Func: "SlidingWindowMetric.getQPSWithTime", Name: "view_getQPSWithTime",
			Hints:  map[string]hint{"m.getSumWithTime(now, event)": {"sum", "int64"}},
			Inline: []string{"SlidingWindowMetric.getIntervalInSecond"}},
		// SlidingWindowMetric.AvgRT: float64(rtSum) / float64(completeSum)
		target{Dir: "core/stat/base", Func: "SlidingWindowMetric.AvgRT", Name: "view_AvgRT",
			Hints: map[string]hint{
				"m.GetSum(base.MetricEventRt)":       {"rt_sum", "int64"},
				"m.GetSum(base.MetricEventComplete)": {"complete_sum", "int64"}}},
		// ---- the bucket loops of SlidingWindowMetric (C08): what the accumulator starts from, ONE iteration, and
		// what is computed from its final value.  ww.Value.Load() and the type assertion enter as parameters
		// (mb_nil, ok), the bucket's counter reads as `get` / `bucket_min_rt` / `bucket_max_conc`.
		target{Dir: "core/stat/base", Func: "SlidingWindowMetric.count", Name: "view_count_step", LoopBody: 1,
			Hints: bucketLoopHints, RangeVars: map[string]string{"ww": "*BucketWrap"}},
		target{Dir: "core/stat/base", Func: "SlidingWindowMetric.count", Name: "view_count_frame", LoopFrame: 1,
			Hints: bucketLoopHints},
		target{Dir: "core/stat/base", Func: "SlidingWindowMetric.GetMaxOfSingleBucket", Name: "view_maxOfSingleBucket_step", LoopBody: 1,
			Hints: bucketLoopHints, RangeVars: map[string]string{"w": "*BucketWrap"}},
		target{Dir: "core/stat/base", Func: "SlidingWindowMetric.GetMaxOfSingleBucket", Name: "view_maxOfSingleBucket_frame", LoopFrame: 1,
			Hints: bucketLoopHints},
		target{Dir: "core/stat/base", Func: "SlidingWindowMetric.MinRT", Name: "view_MinRT_step", LoopBody: 1,
			Hints: bucketLoopHints, RangeVars: map[string]string{"w": "*BucketWrap"}},
		target{Dir: "core/stat/base", Func: "SlidingWindowMetric.MinRT", Name: "view_MinRT_frame", LoopFrame: 1,
			Hints: bucketLoopHints},
		target{Dir: "core/stat/base", Func: "SlidingWindowMetric.MaxConcurrency", Name: "view_MaxConcurrency_step", LoopBody: 1,
			Hints: bucketLoopHints, RangeVars: map[string]string{"w": "*BucketWrap"}},
		target{Dir: "core/stat/base", Func: "SlidingWindowMetric.MaxConcurrency", Name: "view_MaxConcurrency_frame", LoopFrame: 1,
			Hints: bucketLoopHints},
		// ---- C09: LeapArray.currentBucketOfTime: the prologue (now <= 0, index, bucket start) and ONE iteration of the
		// spin loop.  The slot pointer load enters as old_nil, the (up to three) BucketStart loads of the if-chain as
		// ws_1 ws_2 ws_3, TryLock's / compareAndSet's outcome as lock_ok / cas_ok; trace: 5 array.get [idx], 1 TryLock, 2 ResetBucketTo
		// [start], 3 Unlock, 4 compareAndSet.  Result: LReturn (1 = a bucket | 0 = nil, 0 = no error | 1) | LContinue.
		target{Dir: "core/stat/base", Func: "LeapArray.currentBucketOfTime", Name: "leapArray_currentBucketOfTime_step", LoopBody: 1,
			Hints: map[string]hint{
				"la.array.length":                     {"array_length", "int"},
				"atomic.LoadUint64(&old.BucketStart)": {"ws", "uint64"},
				"&BucketWrap{}":                       {"", "opaque"}},
			SeqHints: map[string]bool{"atomic.LoadUint64(&old.BucketStart)": true},
			Inline:   []string{"LeapArray.calculateTimeIdx"},
			Calls:    map[string]string{"calculateStartTime": "calculateStartTime"},
			Acts: map[string]act{
				"la.array.get":           {Tag: 5, Keep: []int{0}, Ret: hint{"", "opaque"}},
				"la.updateLock.TryLock":  {Tag: 1, Ret: hint{"lock_ok", "bool"}},
				"bg.ResetBucketTo":       {Tag: 2, Keep: []int{1}},
				"la.updateLock.Unlock":   {Tag: 3},
				"la.array.compareAndSet": {Tag: 4, Ret: hint{"cas_ok", "bool"}}},
			Effects: []string{"newWrap.Value.Store("},
			NilRes:  []string{"*BucketWrap"}, Errs: map[string]int{"old": 1, "newWrap": 1}},
		// BucketLeapArray.ResetBucketTo: the ORDER of its two effects (1 = mb.reset(), 2 = store BucketStart [start])
		target{Dir: "core/stat/base", Func: "BucketLeapArray.ResetBucketTo", Name: "bucketLeapArray_ResetBucketTo",
			Hints: map[string]hint{"bw.Value.Load().(*MetricBucket)": {"", "opaque"}},
			Acts: map[string]act{
				"mb.reset":           {Tag: 1},
				"atomic.StoreUint64": {Tag: 2, Keep: []int{1}}},
			NilRes: []string{"*BucketWrap"}, Errs: map[string]int{"bw": 1}},
	)
}

// hints shared by the bucket loops of SlidingWindowMetric
var bucketLoopHints = map[string]hint{
	"util.CurrentTimeMillis()":   {"now", "uint64"},
	"m.getSatisfiedBuckets(now)": {"", "opaque"},
	"ww.Value.Load()":            {"", "opaque"},
	"w.Value.Load()":             {"", "opaque"},
	"mb.(*MetricBucket)":         {"", "opaque"},
	"mb.(*MetricBucket) ok":      {"ok", "bool"},
	"counter.Get(event)":         {"get", "int64"},
	"counter.MinRt()":            {"bucket_min_rt", "int64"},
	"counter.MaxConcurrency()":   {"bucket_max_conc", "int32"},
}
