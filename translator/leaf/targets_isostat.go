// Targets of the isolation / outlier / statistic-node cluster (C04, C20, C08, C09).
package main

func init() {
	targets = append(targets,
		// ---- statistic-node getters (C08; used by C02 / C07): the float arithmetic around the window sums ----
		// BaseStatNode.GetMaxAvg: float64(max) * float64(sampleCount) / float64(intervalMs) * 1000.0
		target{Dir: "core/stat", Func: "BaseStatNode.GetMaxAvg", Name: "node_GetMaxAvg",
			Hints: map[string]hint{"n.metric.GetMaxOfSingleBucket(event)": {"max_single", "int64"}}},
		// BaseStatNode.AvgRT: integer division of the two window sums, 0 when nothing completed
		target{Dir: "core/stat", Func: "BaseStatNode.AvgRT", Name: "node_AvgRT",
			Hints: map[string]hint{
				"n.metric.GetSum(base.MetricEventComplete)": {"complete_sum", "int64"},
				"n.metric.GetSum(base.MetricEventRt)":       {"rt_sum", "int64"}}},
		// BaseStatNode.MinRT: the view's value, converted
		target{Dir: "core/stat", Func: "BaseStatNode.MinRT", Name: "node_MinRT",
			Hints: map[string]hint{"n.metric.MinRT()": {"view_min_rt", "float64"}}},
		// SlidingWindowMetric.getQPSWithTime: float64(sum) / (float64(intervalInMs) / 1000.0)
		target{Dir: "core/stat/base", Func: "SlidingWindowMetric.getQPSWithTime", Name: "view_getQPSWithTime",
			Hints:  map[string]hint{"m.getSumWithTime(now, event)": {"sum", "int64"}},
			Inline: []string{"SlidingWindowMetric.getIntervalInSecond"}},
		// SlidingWindowMetric.AvgRT: float64(rtSum) / float64(completeSum)
		target{Dir: "core/stat/base", Func: "SlidingWindowMetric.AvgRT", Name: "view_AvgRT",
			Hints: map[string]hint{
				"m.GetSum(base.MetricEventRt)":       {"rt_sum", "int64"},
				"m.GetSum(base.MetricEventComplete)": {"complete_sum", "int64"}}},
	)
}
