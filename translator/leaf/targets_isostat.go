// Targets of the isolation / outlier / statistic-node cluster (C04, C20, C08, C09).
package main

func init() {
	targets = append(targets,
		// ---- C04: isolation.checkPass, ONE iteration of `for _, rule := range rules` ----
		// result: LReturn (false, 1 = this rule, snapshot) | LContinue curCount; the gauge read enters as `gauge`
		target{Dir: "core/isolation", Func: "checkPass", Name: "isolation_checkPass_step", LoopBody: 1,
			Hints: map[string]hint{
				"ctx.StatNode":                  {"", "opaque"},
				"ctx.Input.BatchCount":          {"batchCount", "uint32"},
				"statNode.CurrentConcurrency()": {"gauge", "int32"}},
			RangeVars: map[string]string{"rule": "*Rule"},
			NilRes:    []string{"*Rule"}, Errs: map[string]int{"rule": 1}},
		// ---- C20: outlier.checkAllNodes, ONE iteration of `for address, breaker := range nodeBreaks` ----
		// result: the appends performed, as action trace: 1 = halfs, 2 = outliers, 3 = filters (in execution order)
		target{Dir: "core/outlier", Func: "checkAllNodes", Name: "outlier_checkAllNodes_step", LoopBody: 1,
			Hints: map[string]hint{
				"ctx.Resource.Name()":                 {"", "opaque"},
				"getNodeBreakersOfResource(resource)": {"", "opaque"},
				"getOutlierRuleOfResource(resource)":  {"", "ptr:Rule"},
				"len(nodeBreaks)":                     {"nodeCount", "int"},
				"breaker.TryPass(ctx)":                {"try_pass", "bool"},
				"breaker.CurrentState()":              {"state", "int32"},
				"len(filters)":                        {"filters_len", "int"}},
			RangeVars: map[string]string{"address": "string", "breaker": "circuitbreaker.CircuitBreaker"},
			Acts: map[string]act{
				"append(halfs, address)":    {Tag: 1},
				"append(outliers, address)": {Tag: 2},
				"append(filters, address)":  {Tag: 3}}},
		// ---- statistic-node getters (C08; used by C02 / C07): the float arithmetic around the window sums ----
		// BaseStatNode.GetMaxAvg: float64(max) * float64(sampleCount) / float64(intervalMs) * 1000.0
		target{Dir: "core/stat", Func: "BaseStatNode.GetMaxAvg", Name: "node_GetMaxAvg",
			Hints: map[string]hint{"n.metric.GetMaxOfSingleBucket(event)": {"max_single", "int64"}}},
		// BaseStatNode.AvgRT: integer division of the two window sums, 0 when nothing completed
		target{Dir: "core/stat", Func: "BaseStatNode.AvgRT", Name: "node_AvgRT",
			Hints: map[string]hint{
				"n.metric.GetSum(base.MetricEventComplete)": {"complete_sum", "int64"},
				"n.metric.GetSum(base.MetricEventRt)":       {"rt_sum", "int64"}}},
		// BaseStatNode.MinRT: the view's value, converted
		target{Dir: "core/stat", Func: "BaseStatNode.MinRT", Name: "node_MinRT",
			Hints: map[string]hint{"n.metric.MinRT()": {"view_min_rt", "float64"}}},
		// SlidingWindowMetric.getQPSWithTime: float64(sum) / (float64(intervalInMs) / 1000.0)
		target{Dir: "core/stat/base", Func: "SlidingWindowMetric.getQPSWithTime", Name: "view_getQPSWithTime",
			Hints:  map[string]hint{"m.getSumWithTime(now, event)": {"sum", "int64"}},
			Inline: []string{"SlidingWindowMetric.getIntervalInSecond"}},
		// SlidingWindowMetric.AvgRT: float64(rtSum) / float64(completeSum)
		target{Dir: "core/stat/base", Func: "SlidingWindowMetric.AvgRT", Name: "view_AvgRT",
			Hints: map[string]hint{
				"m.GetSum(base.MetricEventRt)":       {"rt_sum", "int64"},
				"m.GetSum(base.MetricEventComplete)": {"complete_sum", "int64"}}},
	)
}
