// loopbody.go: "loop body as step function" mode of the leaf translator (AGENT_ROUND3 item 2).
//
// USAGE.  A target with `LoopBody: N` (N >= 1) is translated as ONE ITERATION of the N-th `for` /
// `for ... range` statement among the top-level statements of the function body, preceded by the
// function's prologue (the statements before that loop).  The statements after the loop are not
// translated.  The generated definition has the result type
//
//	leaf_flow R C            (followed by the action trace when the target has an Acts table)
//
//	Inductive leaf_flow (R C : Type) := LReturn (r : R) | LContinue (c : C) | LBreak (c : C).
//
// (declared in the preamble of Leaf_gen.v) where
//
//   - R is the function's result tuple exactly as in the ordinary mode (`unit` / `tt` for a function
//     without results); a `return` of the prologue or of the loop body gives `LReturn r`;
//   - C is the tuple of the LOOP-CARRIED variables in alphabetical order of their names (`unit` /
//     `tt` when there is none): the variables declared before the loop (parameters, named results,
//     prologue locals, the variable of a three-clause loop's init statement) that are assigned inside
//     the loop body or its post statement.  At the top of the iteration each of them is re-bound to a
//     PARAMETER `<name>_in` (its value when the iteration starts: the prologue's value in the first
//     iteration, the previous iteration's LContinue value afterwards); all other prologue variables
//     are in scope as the prologue computes them;
//   - `continue`, and falling off the end of the body, give `LContinue c` (after the post statement
//     of a three-clause loop); an unlabelled `break` that leaves this loop gives `LBreak c`, so does
//     a false condition of `for cond {…}` / `for init; cond; post {…}`; c = the carried variables'
//     current values.  A `break` inside a switch arm keeps its Go meaning (only the trailing one is
//     supported, as before);
//   - `for k, v := range xs`: the iteration is for an ARBITRARY element: xs is not evaluated, k
//     (default type int) and v are fresh variables whose Go types are given by the target's
//     `RangeVars` table (variable name -> Go type text, e.g. "rule": "*Rule", "n": "uint32");
//     scalars become parameters of their own names, struct pointers are read through
//     `<var>_<field>` parameters like a receiver;
//   - atomic loads / getters enter through Hints, CAS / atomic stores / adds through the Acts table
//     (effects.go: the CAS outcome is the action's Ret parameter, its operands are recorded in the
//     trace), exactly as in straight-line targets.  `runtime.Gosched()` and `vhook.Yield` are skipped.
//
// A loop nested in another statement, a second loop inside the body, labelled branches and `goto`
// are untranslatable.  A model of the whole loop is obtained on the Coq side by iterating the step
// function (the obligation file proves step = the model's step for all inputs).
package main

import (
	"go/ast"
	"go/parser"
	"go/token"
	"sort"
	"strings"
)

// preamble of Leaf_gen.v
const loopPreamble = "Inductive leaf_flow (R C : Type) : Type := LReturn (r : R) | LContinue (c : C) | LBreak (c : C).\n" +
	"Arguments LReturn {R C} r.\nArguments LContinue {R C} c.\nArguments LBreak {R C} c.\n\n"

type loopCtx struct {
	stmt    ast.Stmt       // the *ast.ForStmt / *ast.RangeStmt that is the target
	noInit  ast.Stmt       // copy of a three-clause loop without its init statement
	body    *ast.BlockStmt // its body
	post    ast.Stmt       // post statement of a three-clause loop
	inPost  bool
	carried []string                 // loop-carried variables, sorted
	ctypes  map[string]string        // their Go types
	breaks  map[*ast.BranchStmt]bool // unlabelled break / continue statements that belong to this loop
}

// findLoop: the N-th loop among the top-level statements of the function body
func findLoop(body *ast.BlockStmt, n int) *loopCtx {
	k := 0
	for _, s := range body.List {
		var b *ast.BlockStmt
		var post ast.Stmt
		switch s := s.(type) {
		case *ast.ForStmt:
			b, post = s.Body, s.Post
		case *ast.RangeStmt:
			b = s.Body
		default:
			continue
		}
		k++
		if k == n {
			l := &loopCtx{stmt: s, body: b, post: post, ctypes: map[string]string{}, breaks: map[*ast.BranchStmt]bool{}}
			l.collectBranches(b, true, true)
			return l
		}
	}
	fail("LoopBody: the function has no top-level loop number %d", n)
	return nil
}

// collectBranches records the unlabelled break / continue statements whose target is this loop
func (l *loopCtx) collectBranches(n ast.Node, brk, cont bool) {
	switch n := n.(type) {
	case nil:
	case *ast.BranchStmt:
		if n.Label == nil && ((n.Tok == token.BREAK && brk) || (n.Tok == token.CONTINUE && cont)) {
			l.breaks[n] = true
		}
	case *ast.BlockStmt:
		for _, s := range n.List {
			l.collectBranches(s, brk, cont)
		}
	case *ast.IfStmt:
		l.collectBranches(n.Body, brk, cont)
		if n.Else != nil {
			l.collectBranches(n.Else, brk, cont)
		}
	case *ast.SwitchStmt:
		l.collectBranches(n.Body, false, cont) // break leaves the switch
	case *ast.TypeSwitchStmt:
		l.collectBranches(n.Body, false, cont)
	case *ast.SelectStmt:
		l.collectBranches(n.Body, false, cont)
	case *ast.CaseClause:
		for _, s := range n.Body {
			l.collectBranches(s, brk, cont)
		}
	case *ast.CommClause:
		for _, s := range n.Body {
			l.collectBranches(s, brk, cont)
		}
	case *ast.LabeledStmt:
		l.collectBranches(n.Stmt, brk, cont)
	case *ast.ForStmt, *ast.RangeStmt:
		// an inner loop owns its branches (and is untranslatable anyway)
	}
}

// assignedIn: names assigned (not defined) by statements under n, in order of first occurrence
func assignedIn(n ast.Node, out map[string]bool) {
	if n == nil {
		return
	}
	ast.Inspect(n, func(m ast.Node) bool {
		switch m := m.(type) {
		case *ast.AssignStmt:
			if m.Tok != token.DEFINE {
				for _, l := range m.Lhs {
					if id, ok := l.(*ast.Ident); ok {
						out[id.Name] = true
					}
				}
			}
		case *ast.IncDecStmt:
			if id, ok := m.X.(*ast.Ident); ok {
				out[id.Name] = true
			}
		case *ast.UnaryExpr:
			if id, ok := m.X.(*ast.Ident); ok && ioAddrAssigned && m.Op == token.AND {
				out[id.Name] = true // ext_io.go: `&v` handed to a call inside the loop (an out parameter)
			}
		case *ast.FuncLit:
			return false
		}
		return true
	})
}

func rawTuple(vs []string) string {
	switch len(vs) {
	case 0:
		return "tt"
	case 1:
		return vs[0]
	}
	return "(" + strings.Join(vs, ", ") + ")"
}

// loopLeaf: a leaf of the step function
func (x *tr) loopLeaf(ctor, payload string) string {
	return rawTuple(x.withTrace([]string{"(" + ctor + " " + payload + ")"})) // withTrace: effects.go
}

func (x *tr) carriedTuple() string {
	var vs []string
	for _, n := range x.loop.carried {
		vs = append(vs, cname(n))
	}
	return rawTuple(vs)
}

// loopRet: the result components of a `return` (wrapped as LReturn in a LoopBody target; the action
// trace is appended by the caller)
func (x *tr) loopRet(vs []string) []string {
	if x.loop == nil {
		return vs
	}
	return []string{"(LReturn " + rawTuple(vs) + ")"}
}

// loopContinue: `continue` / end of the body: run the post statement once, then LContinue
func (x *tr) loopContinue() string {
	l := x.loop
	if l.post != nil && !l.inPost {
		l.inPost = true
		out := x.exec([]ast.Stmt{l.post}, nil) // falls off its end -> loopContinue again
		l.inPost = false
		return out
	}
	return x.loopLeaf("LContinue", x.carriedTuple())
}

func (x *tr) loopBranch(s *ast.BranchStmt) string {
	if x.loop == nil || !x.loop.breaks[s] {
		fail("statement %s", src(x.p.fset, s))
	}
	if x.loop.inPost {
		fail("branch statement in a post statement")
	}
	if s.Tok == token.CONTINUE {
		return x.loopContinue()
	}
	return x.loopLeaf("LBreak", x.carriedTuple())
}

func (l *loopCtx) is(s ast.Stmt) bool {
	return l != nil && (s == l.stmt || (l.noInit != nil && s == l.noInit))
}

// loopEnter: the target loop has been reached by the prologue: translate one iteration
func (x *tr) loopEnter(s ast.Stmt) string {
	l := x.loop
	pre := ""
	var cond ast.Expr
	switch s := s.(type) {
	case *ast.ForStmt:
		if s.Init != nil {
			// the init statement is the last statement of the prologue
			if l.noInit == nil {
				fs := *s
				fs.Init = nil
				l.noInit = &fs
			}
			return x.exec([]ast.Stmt{s.Init, l.noInit}, nil)
		}
		cond = s.Cond
	case *ast.RangeStmt:
		bind := func(e ast.Expr, deflt string) {
			if e == nil {
				return
			}
			id, ok := e.(*ast.Ident)
			if !ok {
				fail("range variable %s", src(x.p.fset, e))
			}
			if id.Name == "_" {
				return
			}
			if s.Tok != token.DEFINE {
				fail("range assigns to the existing variable %s", id.Name)
			}
			ts, ok := x.t.RangeVars[id.Name]
			if !ok {
				ts = deflt
			}
			if ts == "" && x.t.LoopAny { // ext_chain.go: an opaque element (used through <range>.Method actions)
				x.vars[id.Name] = "ptr:?"
				return
			}
			if ts == "" {
				fail("range variable %s: no RangeVars entry", id.Name)
			}
			te, err := parser.ParseExpr(ts)
			if err != nil {
				fail("RangeVars[%s] = %q: %v", id.Name, ts, err)
			}
			ty := x.typeOfExpr(te)
			switch {
			case strings.HasPrefix(ty, "ptr:"):
				x.vars[id.Name] = ty
			case isBasic(ty):
				x.vars[id.Name] = ty
				x.param(id.Name, ty)
			default:
				if _, isStruct := x.p.structs[ty]; isStruct {
					x.vars[id.Name] = "struct:" + ty
				} else {
					x.vars[id.Name] = "ptr:?"
				}
			}
		}
		bind(s.Key, "int")
		bind(s.Value, "")
	}
	// loop-carried variables: outer scalar variables assigned in the body / post statement
	as := map[string]bool{}
	assignedIn(l.body, as)
	assignedIn(l.post, as)
	l.carried = nil
	for n := range as {
		t, ok := x.vars[n]
		if !ok || !(isBasic(t) || t == "iface") { // "iface": object references (ext_chain.go)
			continue // declared inside the body, or not a scalar (strings, pointers: not part of the decision)
		}
		l.carried = append(l.carried, n)
		l.ctypes[n] = t
	}
	sort.Strings(l.carried)
	for _, n := range l.carried {
		p := x.param(x.inName(n), l.ctypes[n]) // ext_chain.go: <n>_in unless the target asks for canonical names
		pre += "let " + cname(n) + " := " + p.coq + " in\n  "
	}
	if cond != nil {
		c := x.expr(cond)
		if c.typ != "bool" {
			fail("loop condition %s is not bool", src(x.p.fset, cond))
		}
		saved := x.snapshot()
		body := x.exec(l.body.List, nil)
		x.restore(saved)
		brk := x.loopLeaf("LBreak", x.carriedTuple())
		return pre + "if " + c.coq + "\n  then (" + body + ")\n  else (" + brk + ")"
	}
	return pre + x.exec(l.body.List, nil)
}

// loopType: result type of the generated definition (rt = the ordinary result type, "" for none)
func (x *tr) loopType(rt string) string {
	if rt == "" {
		rt = "unit"
	}
	var cs []string
	for _, n := range x.loop.carried {
		cs = append(cs, coqType(x.loop.ctypes[n]))
	}
	ct := "unit"
	if len(cs) > 0 {
		ct = strings.Join(cs, " * ")
	}
	return "leaf_flow (" + rt + ") (" + ct + ")"
}
