// Targets of the entry-path cluster (C01, C16): the statistic slot (core/stat/stat_slot.go), the
// slot chain (core/base/slot_chain.go), SentinelEntry.Exit (core/base/entry.go) and api.entry
// (api/api.go).  Obligations: C01_leaf_check.v (statistic slot, exit path) and C16_leaf_check.v
// (slot chain order / short circuit / fail open), both against Model/Chain.v.
//
// What these functions DO is the action trace (effects.go); objects (nodes, token results, slots)
// are abstract ids (Z, 0 = nil for references).  Tags below are mirrored by the obligation files.
package main

// action tags of the statistic slot
const (
	stRecordPass     = 1  // s.recordPassFor(node, count)                 args: node, count
	stRecordBlock    = 2  // s.recordBlockFor(node, count)                args: node, count
	stRecordComplete = 3  // s.recordCompleteFor(node, count, rt, err)    args: node, count, rt, err
	stPutRt          = 4  // ctx.PutRt(rt)                                args: rt
	stIncConc        = 10 // sn.IncreaseConcurrency()
	stAddCount       = 11 // sn.AddCount(event, n)                        args: event, n
	stDecConc        = 12 // sn.DecreaseConcurrency()
)

func init() {
	statHints := map[string]hint{
		"ctx.StatNode":             {"stat_node", "iface"},
		"InboundNode()":            {"inbound_node", "iface"},
		"ctx.Input.BatchCount":     {"batchCount", "uint32"},
		"ctx.Resource.FlowType()":  {"flow_type", "int32"},
		"util.CurrentTimeMillis()": {"now", "uint64"},
		"ctx.StartTime()":          {"start", "uint64"},
		"ctx.Err()":                {"err", "iface"}}
	statActs := map[string]act{
		"s.recordPassFor":     {Tag: stRecordPass, Keep: []int{0, 1}},
		"s.recordBlockFor":    {Tag: stRecordBlock, Keep: []int{0, 1}},
		"s.recordCompleteFor": {Tag: stRecordComplete, Keep: []int{0, 1, 2, 3}},
		"ctx.PutRt":           {Tag: stPutRt, Keep: []int{0}}}
	nodeActs := map[string]act{
		"sn.IncreaseConcurrency": {Tag: stIncConc},
		"sn.AddCount":            {Tag: stAddCount, Keep: []int{0, 1}},
		"sn.DecreaseConcurrency": {Tag: stDecConc}}
	targets = append(targets,
		// ---- stat.Slot: which node is credited with what, in which order ----
		target{Dir: "core/stat", Func: "Slot.OnEntryPassed", Name: "stat_OnEntryPassed",
			Hints: statHints, Acts: statActs, Effects: []string{"handledCounter.Add("}},
		target{Dir: "core/stat", Func: "Slot.OnEntryBlocked", Name: "stat_OnEntryBlocked",
			Hints: statHints, Acts: statActs, Effects: []string{"handledCounter.Add("}},
		target{Dir: "core/stat", Func: "Slot.OnCompleted", Name: "stat_OnCompleted",
			Hints: statHints, Acts: statActs},
		// ---- the three record* helpers: nil guard, counters, gauge ----
		target{Dir: "core/stat", Func: "Slot.recordPassFor", Name: "stat_recordPassFor", Acts: nodeActs},
		target{Dir: "core/stat", Func: "Slot.recordBlockFor", Name: "stat_recordBlockFor", Acts: nodeActs},
		target{Dir: "core/stat", Func: "Slot.recordCompleteFor", Name: "stat_recordCompleteFor", Acts: nodeActs},
	)
}
