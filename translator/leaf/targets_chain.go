// Targets of the entry-path cluster (C01, C16): the statistic slot (core/stat/stat_slot.go), the
// slot chain (core/base/slot_chain.go), SentinelEntry.Exit (core/base/entry.go) and api.entry
// (api/api.go).  Obligations: C01_leaf_check.v (statistic slot, exit path) and C16_leaf_check.v
// (slot chain order / short circuit / fail open), both against Model/Chain.v.
//
// What these functions DO is the action trace (effects.go); objects (nodes, token results, slots)
// are abstract ids (Z, 0 = nil for references).  Tags below are mirrored by the obligation files.
package main

// action tags of the statistic slot
const (
	stRecordPass     = 1  // s.recordPassFor(node, count)                 args: node, count
	stRecordBlock    = 2  // s.recordBlockFor(node, count)                args: node, count
	stRecordComplete = 3  // s.recordCompleteFor(node, count, rt, err)    args: node, count, rt, err
	stPutRt          = 4  // ctx.PutRt(rt)                                args: rt
	stIncConc        = 10 // sn.IncreaseConcurrency()
	stAddCount       = 11 // sn.AddCount(event, n)                        args: event, n
	stDecConc        = 12 // sn.DecreaseConcurrency()
	stLookupFast     = 70 // GetResourceNode(resource): the read-locked lookup
	stLock           = 71 // rnsMux.Lock()
	stDeferUnlock    = 72 // defer rnsMux.Unlock()
	stNewNode        = 73 // NewResourceNode(resource, resourceType)     args: resourceType
	stStoreNode      = 74 // resNodeMap[resource] = node                 args: node
)

func init() {
	statHints := map[string]hint{
		"ctx.StatNode":             {"stat_node", "iface"},
		"InboundNode()":            {"inbound_node", "iface"},
		"ctx.Input.BatchCount":     {"batchCount", "uint32"},
		"ctx.Resource.FlowType()":  {"flow_type", "int32"},
		"util.CurrentTimeMillis()": {"now", "uint64"},
		"ctx.StartTime()":          {"start", "uint64"},
		"ctx.Err()":                {"err", "iface"}}
	statActs := map[string]act{
		"s.recordPassFor":     {Tag: stRecordPass, Keep: []int{0, 1}},
		"s.recordBlockFor":    {Tag: stRecordBlock, Keep: []int{0, 1}},
		"s.recordCompleteFor": {Tag: stRecordComplete, Keep: []int{0, 1, 2, 3}},
		"ctx.PutRt":           {Tag: stPutRt, Keep: []int{0}}}
	nodeActs := map[string]act{
		"sn.IncreaseConcurrency": {Tag: stIncConc},
		"sn.AddCount":            {Tag: stAddCount, Keep: []int{0, 1}},
		"sn.DecreaseConcurrency": {Tag: stDecConc}}
	targets = append(targets,
		// ---- stat.Slot: which node is credited with what, in which order ----
		target{Dir: "core/stat", Func: "Slot.OnEntryPassed", Name: "stat_OnEntryPassed",
			Hints: statHints, Acts: statActs, Effects: []string{"handledCounter.Add("}},
		target{Dir: "core/stat", Func: "Slot.OnEntryBlocked", Name: "stat_OnEntryBlocked",
			Hints: statHints, Acts: statActs, Effects: []string{"handledCounter.Add("}},
		target{Dir: "core/stat", Func: "Slot.OnCompleted", Name: "stat_OnCompleted",
			Hints: statHints, Acts: statActs},
		// ---- stat.GetOrCreateResourceNode: double-checked lookup by NAME; the node found is returned whatever
		// classification the caller passes.  Nodes are references; the two map reads enter as found_fast /
		// found_locked, the classification of a node (should the code read it) as type_of <node> ----
		target{Dir: "core/stat", Func: "GetOrCreateResourceNode", Name: "stat_GetOrCreateResourceNode",
			RefTypes: []string{"*ResourceNode"},
			RefCalls: map[string]hint{"ResourceType": {"type_of", "int32"}},
			Hints: map[string]hint{
				"resNodeMap[resource]": {"found_locked", "iface"},
				"resourceType":         {"resource_type", "int32"},
				"len(resNodeMap)":      {"map_len", "int"}},
			Stores: map[string]act{"resNodeMap[resource]": {Tag: stStoreNode, Keep: []int{0}}},
			Acts: map[string]act{
				"GetResourceNode": {Tag: stLookupFast, Ret: hint{"found_fast", "iface"}},
				"rnsMux.Lock":     {Tag: stLock},
				"defer":           {Tag: stDeferUnlock},
				"NewResourceNode": {Tag: stNewNode, Keep: []int{1}, Ret: hint{"fresh", "iface"}}}},
		// ---- the three record* helpers: nil guard, counters, gauge ----
		target{Dir: "core/stat", Func: "Slot.recordPassFor", Name: "stat_recordPassFor", Acts: nodeActs},
		target{Dir: "core/stat", Func: "Slot.recordBlockFor", Name: "stat_recordBlockFor", Acts: nodeActs},
		target{Dir: "core/stat", Func: "Slot.recordCompleteFor", Name: "stat_recordCompleteFor", Acts: nodeActs},
	)
}

// action tags of the slot chain / entry / api (mirrored by C16_leaf_check.v)
const (
	chDefer         = 20 // defer <recover function>
	chPrepare       = 21 // s.Prepare(ctx)
	chCheck         = 22 // s.Check(ctx)
	chResetToPass   = 23 // ctx.RuleCheckResult.ResetToPass()
	chStoreResult   = 24 // ctx.RuleCheckResult = v                     args: v
	chStoreReported = 25 // ctx.outcomeReported = b                     args: b
	chOnPassed      = 26 // s.OnEntryPassed(ctx)
	chOnBlocked     = 27 // s.OnEntryBlocked(ctx, blockErr)             args: blockErr
	chOnCompleted   = 28 // s.OnCompleted(ctx)
	chSetError      = 29 // ctx.SetError(err)
	chRecover       = 30 // recover()
	chLoopPrep      = 31 // the prepare loop
	chLoopCheck     = 32 // the rule-check loop                          args: ruleCheckRet before the loop
	chLoopStat      = 33 // the statistic loop                           args: ruleCheckRet
	chNewPass       = 34 // NewTokenResultPass()
	chReset         = 35 // c.Reset()
	chPoolPut       = 36 // sc.ctxPool.Put(c)
	chStoreStart    = 37 // ctx.startTime = v                           args: v
)

func init() {
	chainHints := map[string]hint{
		"sc.statPres":         {"preps", "slice"},
		"sc.ruleChecks":       {"checks", "slice"},
		"sc.stats":            {"stats", "slice"},
		"ctx.RuleCheckResult": {"ctx_result", "iface"},
		"ctx.Entry()":         {"ctx_entry", "iface"},
		"ctx.IsBlocked()":     {"ctx_blocked", "bool"}}
	refs := []string{"*TokenResult"}
	// every way the code may read a token result through its reference: a rewrite that uses another
	// getter still translates (and its lemma then has to hold)
	refCalls := map[string]hint{"IsBlocked": {"is_blocked", "bool"}, "IsPass": {"is_pass", "bool"},
		"Status": {"status_of", "uint8"}, "status": {"status_of", "uint8"},
		"blockErr": {"block_err_of", "iface"}, "BlockError": {"block_err_of", "iface"}}
	stores := map[string]act{
		"ctx.RuleCheckResult": {Tag: chStoreResult, Keep: []int{0}},
		"ctx.outcomeReported": {Tag: chStoreReported, Keep: []int{0}}}
	entry := func(name string, t target) target {
		t.Dir, t.Func, t.Name = "core/base", "SlotChain.Entry", name
		t.Hints, t.RefTypes, t.RefCalls, t.Stores = chainHints, refs, refCalls, stores
		return t
	}
	targets = append(targets,
		// ---- SlotChain.Entry: what runs between the three loops, what goes into / comes out of each ----
		entry("chain_Entry_frame", target{
			Acts:      map[string]act{"defer": {Tag: chDefer}, "ctx.RuleCheckResult.ResetToPass": {Tag: chResetToPass}},
			LoopMarks: map[int]act{1: {Tag: chLoopPrep}, 2: {Tag: chLoopCheck}, 3: {Tag: chLoopStat}},
			// the `len(xs) > 0` guards around the loops are optional: the signature does not depend on them
			AlwaysParams: map[string]string{"preps_len": "int", "checks_len": "int", "stats_len": "int", "ctx_result": "iface", "loop2_out_0": "iface"}}),
		// the deferred function: SetError iff something was recovered
		entry("chain_Entry_recover", target{Lit: 1, Acts: map[string]act{"ctx.SetError": {Tag: chSetError},
			"recover": {Tag: chRecover, Ret: hint{"panic_val", "iface"}}}}),
		// ONE iteration of each loop
		entry("chain_Entry_prepare_step", target{LoopBody: 1, LoopAny: true, CanonIn: true,
			Acts: map[string]act{"<range>.Prepare": {Tag: chPrepare}}}),
		entry("chain_Entry_check_step", target{LoopBody: 2, LoopAny: true, CanonIn: true,
			Acts: map[string]act{"<range>.Check": {Tag: chCheck, Ret: hint{"check_res", "iface"}}}}),
		entry("chain_Entry_stat_step", target{LoopBody: 3, LoopAny: true, CanonIn: true,
			Acts: map[string]act{"<range>.OnEntryPassed": {Tag: chOnPassed}, "<range>.OnEntryBlocked": {Tag: chOnBlocked, Keep: []int{1}}}}),
		// ---- SlotChain.EntryPassedOnPanic ----
		target{Dir: "core/base", Func: "SlotChain.EntryPassedOnPanic", Name: "chain_EntryPassedOnPanic",
			Hints: chainHints, RefTypes: refs, Stores: stores,
			Acts: map[string]act{"defer": {Tag: chDefer}, "ctx.RuleCheckResult.ResetToPass": {Tag: chResetToPass},
				"NewTokenResultPass": {Tag: chNewPass, Ret: hint{"new_pass", "iface"}}},
			LoopMarks: map[int]act{1: {Tag: chLoopStat}}},
		target{Dir: "core/base", Func: "SlotChain.EntryPassedOnPanic", Name: "chain_EntryPassedOnPanic_step", LoopBody: 1, LoopAny: true, CanonIn: true,
			Hints: chainHints, RefTypes: refs, Stores: stores,
			Acts: map[string]act{"<range>.OnEntryPassed": {Tag: chOnPassed}}},
		// ---- SlotChain.exit: nothing for a nil / entry-less / blocked context, else OnCompleted of every statistic slot ----
		target{Dir: "core/base", Func: "SlotChain.exit", Name: "chain_exit",
			Hints: chainHints, LoopMarks: map[int]act{1: {Tag: chLoopStat}}, Acts: map[string]act{"defer": {Tag: chDefer}}},
		target{Dir: "core/base", Func: "SlotChain.exit", Name: "chain_exit_step", LoopBody: 1, LoopAny: true, CanonIn: true,
			Hints: chainHints, Acts: map[string]act{"<range>.OnCompleted": {Tag: chOnCompleted}}},
		// ---- what "blocked" means: TokenResult.IsBlocked, EntryContext.IsBlocked (nil result = not blocked) ----
		target{Dir: "core/base", Func: "TokenResult.IsBlocked", Name: "tokenResult_IsBlocked"},
		target{Dir: "core/base", Func: "EntryContext.IsBlocked", Name: "ctx_IsBlocked",
			Hints: map[string]hint{"ctx.RuleCheckResult": {"ctx_result", "iface"}, "ctx.RuleCheckResult.IsBlocked()": {"result_blocked", "bool"}}},
		// ---- the context pool ----
		target{Dir: "core/base", Func: "SlotChain.RefurbishContext", Name: "chain_RefurbishContext",
			Acts: map[string]act{"c.Reset": {Tag: chReset}, "sc.ctxPool.Put": {Tag: chPoolPut}}},
		target{Dir: "core/base", Func: "SlotChain.GetPooledContext", Name: "chain_GetPooledContext",
			Hints:  map[string]hint{"sc.ctxPool.Get().(*EntryContext)": {"", "opaque"}, "util.CurrentTimeMillis()": {"now", "uint64"}},
			Stores: map[string]act{"ctx.startTime": {Tag: chStoreStart, Keep: []int{0}}},
			Acts:   map[string]act{"defer": {Tag: chDefer}},
			NilRes: []string{"*EntryContext"}, Errs: map[string]int{"ctx": 1}},
	)
}

// action tags of SentinelEntry.Exit and api.entry (mirrored by C01_leaf_check.v / C16_leaf_check.v)
const (
	exLoopOpts     = 40 // for _, opt := range exitOps { opt(&options) }
	exOnce         = 41 // e.exitCtl.Do(func)
	exSetError     = 42 // ctx.SetError(options.err)                  args: err
	exLoopHandlers = 43 // the exit-handler loop
	exHandler      = 44 // handler(e, ctx)
	exRunHandler   = 48 // e.runExitHandler(handler, ctx)
	exChainExit    = 45 // e.sc.exit(ctx)
	exStoreExited  = 46 // atomic.StoreUint32(&e.exited, v)           args: v
	exRefurbish    = 47 // e.sc.RefurbishContext(ctx)

	apiNewWrapper  = 50 // base.NewResourceWrapper(resource, type, traffic)   args: type, traffic
	apiNewEntry    = 51 // base.NewSentinelEntry(ctx, rw, sc)
	apiGetContext  = 52 // sc.GetPooledContext()
	apiStoreRes    = 53 // ctx.Resource = rw
	apiStoreBatch  = 54 // ctx.Input.BatchCount = v                   args: v
	apiStoreFlag   = 55 // ctx.Input.Flag = v                         args: v
	apiStoreArgs   = 56 // ctx.Input.Args = v                         args: v (the copy)
	apiStoreAttach = 57 // ctx.Input.Attachments = options.attachments
	apiSetEntry    = 58 // ctx.SetEntry(e)                            args: e
	apiChainEntry  = 59 // sc.Entry(ctx)
	apiPassedPanic = 60 // sc.EntryPassedOnPanic(ctx)
	apiDeepCopy    = 61 // base.NewBlockErrorFromDeepCopy(err)        args: err
	apiExit        = 62 // e.Exit()
)

func init() {
	exitHints := map[string]hint{
		"e.ctx":                        {"", "opaque"},
		"options.err":                  {"opt_err", "iface"},
		"e.sc":                         {"sc", "iface"},
		"e.isExited()":                 {"exited", "bool"},
		"atomic.LoadUint32(&e.exited)": {"exited_word", "uint32"}}
	// one action table for the function and its literals: code moved between them still translates
	// (and the lemma of the part it left / entered then has to hold)
	exitActs := map[string]act{
		"e.exitCtl.Do": {Tag: exOnce}, "defer": {Tag: chDefer},
		"ctx.SetError": {Tag: exSetError, Keep: []int{0}}, "e.sc.exit": {Tag: exChainExit},
		"atomic.StoreUint32":    {Tag: exStoreExited, Keep: []int{1}},
		"e.sc.RefurbishContext": {Tag: exRefurbish},
		"recover":               {Tag: chRecover, Ret: hint{"panic_val", "iface"}},
		"e.runExitHandler":      {Tag: exRunHandler},
		"handler":               {Tag: exHandler, Ret: hint{"handler_err", "iface"}}}
	exit := func(name string, t target) target {
		t.Dir, t.Func, t.Name, t.Hints = "core/base", "SentinelEntry.Exit", name, exitHints
		acts := map[string]act{}
		for k, v := range exitActs {
			acts[k] = v
		}
		for k, v := range t.Acts {
			acts[k] = v
		}
		t.Acts = acts
		return t
	}
	runHandler := func(name string, t target) target {
		t = exit(name, t)
		t.Func = "SentinelEntry.runExitHandler"
		return t
	}
	targets = append(targets,
		// ---- SentinelEntry.Exit: options, nil context, everything else inside the Once ----
		exit("entry_Exit", target{LoopMarks: map[int]act{1: {Tag: exLoopOpts}}}),
		// the function run by the Once: defer, error of this exit, handlers, chain exit
		exit("entry_Exit_once", target{Lit: 1, LoopMarks: map[int]act{1: {Tag: exLoopHandlers}}}),
		// ONE iteration of the handler loop: a handler's error does not stop the loop
		exit("entry_Exit_handler_step", target{Lit: 1, LoopBody: 1, LoopAny: true, CanonIn: true,
			Acts: map[string]act{"<range>": {Tag: exHandler, Ret: hint{"handler_err", "iface"}}}}),
		// runExitHandler (a9e6cc9): defer a recover of its own, then the handler; the deferred function
		runHandler("entry_runExitHandler", target{}),
		runHandler("entry_runExitHandler_recover", target{Lit: 1}),
		// its deferred function: recover, exited := 1, context back to the pool - in that order
		exit("entry_Exit_deferred", target{Lit: 2}),
		// ---- api.entry ----
		target{Dir: "api", Func: "entry", Name: "api_entry",
			RefTypes: []string{"*base.SentinelEntry", "*base.BlockError"},
			RefCalls: map[string]hint{"Status": {"status_of", "uint8"}, "BlockError": {"block_err_of", "iface"}},
			Hints: map[string]hint{
				"options.resourceType":                        {"resourceType", "int32"},
				"options.entryType":                           {"entryType", "int32"},
				"options.slotChain":                           {"chain", "iface"},
				"len(options.args)":                           {"args_len", "int"},
				"len(options.attachments)":                    {"attachments_len", "int"},
				"append(ctx.Input.Args[:0], options.args...)": {"args_copy", "iface"}},
			Stores: map[string]act{
				"ctx.Resource":          {Tag: apiStoreRes},
				"ctx.Input.BatchCount":  {Tag: apiStoreBatch, Keep: []int{0}},
				"ctx.Input.Flag":        {Tag: apiStoreFlag, Keep: []int{0}},
				"ctx.Input.Args":        {Tag: apiStoreArgs, Keep: []int{0}},
				"ctx.Input.Attachments": {Tag: apiStoreAttach}},
			Acts: map[string]act{
				"base.NewResourceWrapper":        {Tag: apiNewWrapper, Keep: []int{1, 2}, Ret: hint{"", "opaque"}},
				"base.NewSentinelEntry":          {Tag: apiNewEntry, Ret: hint{"new_entry", "iface"}},
				"sc.GetPooledContext":            {Tag: apiGetContext, Ret: hint{"", "opaque"}},
				"ctx.SetEntry":                   {Tag: apiSetEntry, Keep: []int{0}},
				"sc.Entry":                       {Tag: apiChainEntry, Ret: hint{"chain_res", "iface"}},
				"sc.EntryPassedOnPanic":          {Tag: apiPassedPanic},
				"base.NewBlockErrorFromDeepCopy": {Tag: apiDeepCopy, Keep: []int{0}, Ret: hint{"copied_err", "iface"}},
				"e.Exit":                         {Tag: apiExit},
				"defer":                          {Tag: chDefer}}},
	)
}
