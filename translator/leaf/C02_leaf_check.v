(* C02 leaf obligation: RejectTrafficShapingChecker.DoCheck regenerated from the Go source on
   every run (Gen.Leaf_gen): with a bound read-only statistic it blocks (non-nil result) exactly
   when the model's [rule_blocks] says so, for ALL thresholds, sums and batch counts; without one
   it passes. *)
From Coq Require Import ZArith Bool Lia Floats.
From SG Require Import Base.Prelude Base.GoInt Base.GoFloat Model.Flow.
From Gen Require Import Leaf_gen.
#[local] Open Scope Z_scope.

Lemma flow_reject_DoCheck_ok thr sum b :
  negb (flow_reject_DoCheck b sum false thr =? 0) = rule_blocks thr sum b.
Proof.
  unfold flow_reject_DoCheck, rule_blocks. cbv iota zeta.
  destruct (PrimFloat.ltb thr (PrimFloat.add (f_of_i64 sum) (f_of_u64 b))); reflexivity.
Qed.

Lemma flow_reject_DoCheck_no_stat thr sum b : flow_reject_DoCheck b sum true thr = 0.
Proof. reflexivity. Qed.

Print Assumptions flow_reject_DoCheck_ok.
