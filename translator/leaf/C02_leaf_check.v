(* C02 leaf obligation: RejectTrafficShapingChecker.DoCheck regenerated from the Go source on
   every run (Gen.Leaf_gen): with a bound read-only statistic it blocks (non-nil result) exactly
   when the model's [rule_blocks] says so, for ALL thresholds, sums and batch counts; without one
   it passes. *)
From Coq Require Import ZArith Bool Lia Floats.
From SG Require Import Base.Prelude Base.GoInt Base.GoFloat Model.LeapArray Model.StatNode Model.Flow.
From Gen Require Import Leaf_gen.
#[local] Open Scope Z_scope.

(* ---- one shape-independent script for every "regenerated decision = model decision" lemma of this file ----
   [leaf_decide]: case-split on the condition of every if-then-else of the goal (outermost first, so that
   guarded sub-terms are only visited on the paths that reach them), then in every leaf: evaluate; if the
   two sides still differ the path must be contradictory - break the recorded conditions into their atoms
   (andb / orb / negb), use them to rewrite what is left of the goal, split the remaining atoms, and close
   with reflexivity / lia (integer atoms) / congruence (the same float atom with two truth values).
   Nothing here depends on the order or nesting of the tests in the generated term. *)
Ltac split_ifs :=
  repeat match goal with
         | |- context [if ?c then _ else _] => destruct c eqn:?
         end.
Ltac norm_hyps :=
  repeat match goal with
         | H : negb _ = true |- _ => apply Bool.negb_true_iff in H
         | H : negb _ = false |- _ => apply Bool.negb_false_iff in H
         | H : andb _ _ = true |- _ => apply Bool.andb_true_iff in H; destruct H
         | H : orb _ _ = false |- _ => apply Bool.orb_false_iff in H; destruct H
         | H : andb _ _ = false |- _ => apply Bool.andb_false_iff in H; destruct H
         | H : orb _ _ = true |- _ => apply Bool.orb_true_iff in H; destruct H
         | H : true = false |- _ => discriminate H
         | H : false = true |- _ => discriminate H
         end.
Ltac split_hyp_ifs :=
  repeat match goal with
         | H : context [if ?c then _ else _] |- _ => destruct c eqn:?
         end.
Ltac use_hyps :=
  repeat match goal with
         | H : ?a = true |- context [?a] => rewrite H
         | H : ?a = false |- context [?a] => rewrite H
         end.
Ltac split_atoms :=
  repeat match goal with
         | |- context [Z.eqb ?a ?b] => destruct (Z.eqb a b) eqn:?
         | |- context [Z.ltb ?a ?b] => destruct (Z.ltb a b) eqn:?
         | |- context [Z.leb ?a ?b] => destruct (Z.leb a b) eqn:?
         | |- context [PrimFloat.ltb ?a ?b] => destruct (PrimFloat.ltb a b) eqn:?
         | |- context [PrimFloat.leb ?a ?b] => destruct (PrimFloat.leb a b) eqn:?
         | |- context [PrimFloat.eqb ?a ?b] => destruct (PrimFloat.eqb a b) eqn:?
         | |- context [float64_equals ?a ?b] => destruct (float64_equals a b) eqn:?
         end.
Ltac z_facts :=
  repeat match goal with
         | H : Z.eqb _ _ = true |- _ => apply Z.eqb_eq in H
         | H : Z.eqb _ _ = false |- _ => apply Z.eqb_neq in H
         | H : Z.ltb _ _ = true |- _ => apply Z.ltb_lt in H
         | H : Z.ltb _ _ = false |- _ => apply Z.ltb_ge in H
         | H : Z.leb _ _ = true |- _ => apply Z.leb_le in H
         | H : Z.leb _ _ = false |- _ => apply Z.leb_gt in H
         end.
Ltac leaf_close := first [ reflexivity | congruence | (exfalso; z_facts; lia) | (z_facts; lia) ].
Ltac leaf_decide :=
  cbv zeta; split_ifs;
  first [ reflexivity
        | repeat (progress (norm_hyps; split_hyp_ifs)); use_hyps; cbn [andb orb negb];
          first [ leaf_close | split_atoms; cbn [andb orb negb]; leaf_close ] ].

Lemma flow_reject_DoCheck_ok thr sum b :
  negb (flow_reject_DoCheck b sum false thr =? 0) = rule_blocks thr sum b.
Proof.
  unfold flow_reject_DoCheck, rule_blocks. leaf_decide.
Qed.

Lemma flow_reject_DoCheck_no_stat thr sum b : flow_reject_DoCheck b sum true thr = 0.
Proof. unfold flow_reject_DoCheck. leaf_decide. Qed.

Print Assumptions flow_reject_DoCheck_ok.

(* ---- Round 3: the loops that walk the controllers in force, ONE iteration each ----
   flow_Slot_Check_step        flow.Slot.Check: what the slot does with one controller's result
   flow_standalone_own_step    StandaloneStatSlot.OnEntryPassed, loop over the controllers of the request's resource
   flow_standalone_ref_step    ... its second loop, over refStatTcMap[res]
   flow_refStat_member_step    rebuildRefStatTcMap (inner loop): which controllers are indexed under their
                               referenced resource (action 2 = indexed)
   Model/Flow.v: [flow_check] (first exhausted rule blocks) and [feed_ctrl] / [feed_alone] (an independent
   window is fed by the passed requests of the rule's target resource). *)
Definition acted {R C} (g : leaf_flow R C * list leaf_act) : bool := match snd g with [] => false | _ => true end.

(* one step of flow_check on controller x *)
Definition flow_check_step (w : world) (x : ctrl) (t b : Z) : option obs :=
  match ctrl_sum w x t with
  | Some s => if rule_blocks (r_thr (c_rule x)) s b then Some (OBlock (c_idx x) s) else None
  | None => None
  end.

Lemma flow_check_unfold w x r t b :
  flow_check w (x :: r) t b = match flow_check_step w x t b with Some o => o | None => flow_check w r t b end.
Proof. unfold flow_check_step. cbn [flow_check]. destruct (ctrl_sum w x t) as [s|]; [|reflexivity].
  destruct (rule_blocks (r_thr (c_rule x)) s b); reflexivity. Qed.

(* the checker's result for a reject rule over the sum it reads: the regenerated DoCheck (0 = nil = pass,
   non-zero = blocked, status 1); a rule without a readable statistic passes *)
Lemma flow_Slot_Check_step_reject w x t b :
  let code := match ctrl_sum w x t with
              | Some s => flow_reject_DoCheck b s false (r_thr (c_rule x))
              | None => 0
              end in
  fst (flow_Slot_Check_step 0 (code =? 0) 1 false)
  = match flow_check_step w x t b with Some _ => LReturn 1 | None => LContinue tt end.
Proof.
  cbv zeta. unfold flow_check_step. destruct (ctrl_sum w x t) as [s|]; [|reflexivity].
  rewrite <- (flow_reject_DoCheck_ok (r_thr (c_rule x)) s b).
  unfold flow_Slot_Check_step.
  destruct (flow_reject_DoCheck b s false (r_thr (c_rule x)) =? 0); reflexivity.
Qed.

(* is the controller fed by a passed request of `res`, according to the two regenerated loops and the
   regenerated index membership?  (own = the resource whose controller list x belongs to) *)
Definition is_view (x : ctrl) : bool := match c_stat x with RView _ _ => true | RAlone _ _ => false end.
Definition fed_by_go (own res b : Z) (x : ctrl) : bool :=
  ((own =? res) && acted (flow_standalone_own_step b (is_view x) true (if r_assoc (c_rule x) then 1 else 0) true))
  || (acted (flow_refStat_member_step (negb (r_assoc (c_rule x))) (is_view x) true)
      && (r_ref (c_rule x) =? res) && acted (flow_standalone_ref_step b)).

Lemma standalone_feed_ok own res t b x :
  feed_ctrl own res t b x
  = if fed_by_go own res b x
    then match c_stat x with
         | RAlone a v => {| c_idx := c_idx x; c_rule := c_rule x; c_stat := RAlone (bla_add a t EvPass b) v |}
         | RView _ _ => x
         end
    else x.
Proof.
  unfold feed_ctrl, fed_by_go, c_target, rule_target, is_view, acted,
    flow_standalone_own_step, flow_refStat_member_step, flow_standalone_ref_step.
  destruct (c_stat x) as [rr v|a v]; destruct (r_assoc (c_rule x)); cbn [negb andb orb snd Z.eqb];
    repeat match goal with |- context [(?p =? ?q)%Z] => destruct (p =? q)%Z end; reflexivity.
Qed.

(* the index: a controller is listed under its referenced resource iff its rule is an associated-resource
   rule and it owns an independent write statistic *)
Lemma refStat_member_ok not_assoc reuse_resource_stat write_nonnil :
  acted (flow_refStat_member_step not_assoc reuse_resource_stat write_nonnil)
  = negb not_assoc && negb reuse_resource_stat && write_nonnil.
Proof. unfold flow_refStat_member_step, acted. destruct not_assoc, reuse_resource_stat, write_nonnil; reflexivity. Qed.

(* the batch recorded by both loops is the request's batch count *)
Lemma standalone_feed_amount b :
  snd (flow_standalone_own_step b false false 0 true) = [(1, [LZ b])]
  /\ snd (flow_standalone_ref_step b) = [(1, [LZ b])].
Proof. split; reflexivity. Qed.

Print Assumptions flow_Slot_Check_step_reject.
Print Assumptions standalone_feed_ok.
Print Assumptions standalone_feed_amount.
Print Assumptions refStat_member_ok.
