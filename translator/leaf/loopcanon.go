// loopcanon.go (round 3c): the N of LoopBody / LoopFrame survives a loop that moves into (or out of) a helper.
//
// LoopBody: N counts the loops of the function.  When an EARLIER loop is extracted into a same-package
// helper the target loop becomes the (N-1)-th, and the translator used to regenerate the wrong loop (a
// broken obligation) or none.  The loops are therefore also numbered VIRTUALLY: in source order, a call of a
// same-package helper counts as many loops as the helper contains.  loopcanon.json (embedded; written by
// `leaf -repo <pinned tree> -write-loopcanon translator/leaf/loopcanon.json`) records, for every target,
// the virtual number of its loop on the pinned tree and the number of loops the function has there; when the
// function has FEWER loops than on the pinned tree (one has left it) the loop with that virtual number is taken.  On the pinned tree that is the N-th loop (byte-identical output); when the target's own loop
// moved into a helper the target is untranslatable (regeneration unavailable), not mistaken for another
// loop.  Targets without a record (added later) keep the plain count.
package main

import (
	_ "embed"
	"encoding/json"
	"go/ast"
	"os"
	"sort"
	"strings"
)

//go:embed loopcanon.json
var loopCanonJSON []byte

var loopCanon = func() map[string][2]int { // target -> (virtual number of its loop, number of real loops) on the pinned tree
	m := map[string][2]int{}
	_ = json.Unmarshal(loopCanonJSON, &m)
	return m
}()

type loopEntry struct {
	real bool
}

// helperOf: the same-package function a call refers to (by name; a method by its unique method name)
func (p *pkgInfo) helperOf(ce *ast.CallExpr) *ast.FuncDecl {
	switch f := ce.Fun.(type) {
	case *ast.Ident:
		if d := p.funcs[f.Name]; d != nil && d.Recv == nil {
			return d
		}
	case *ast.SelectorExpr:
		var found *ast.FuncDecl
		n := 0
		for name, d := range p.funcs {
			if strings.HasSuffix(name, "."+f.Sel.Name) && d.Recv != nil {
				found = d
				n++
			}
		}
		if n == 1 {
			return found
		}
	}
	return nil
}

func topLevelLoops(b *ast.BlockStmt) int {
	n := 0
	for _, s := range b.List {
		switch s.(type) {
		case *ast.ForStmt, *ast.RangeStmt:
			n++
		}
	}
	return n
}

// loopEntries: the loops of fd in the order LoopBody counts them (top-level only, or any depth), with the
// loops of called helpers as virtual entries
func (p *pkgInfo) loopEntries(fd *ast.FuncDecl, any bool) []loopEntry {
	var out []loopEntry
	helperLoops := func(n ast.Node) {
		ast.Inspect(n, func(m ast.Node) bool {
			switch m := m.(type) {
			case *ast.FuncLit:
				return false
			case *ast.CallExpr:
				if h := p.helperOf(m); h != nil && h.Body != nil && h != fd {
					k := topLevelLoops(h.Body)
					if any {
						k = len(loopsOf(h.Body))
					}
					for i := 0; i < k; i++ {
						out = append(out, loopEntry{real: false})
					}
				}
			}
			return true
		})
	}
	if !any {
		for _, s := range fd.Body.List {
			switch s.(type) {
			case *ast.ForStmt, *ast.RangeStmt:
				out = append(out, loopEntry{real: true})
			default:
				helperLoops(s)
			}
		}
		return out
	}
	// any depth, source order: loops and helper calls interleaved by position
	type ev struct {
		pos  int
		real bool
		k    int
	}
	var evs []ev
	ast.Inspect(fd.Body, func(m ast.Node) bool {
		switch m := m.(type) {
		case *ast.FuncLit:
			return false
		case *ast.ForStmt, *ast.RangeStmt:
			evs = append(evs, ev{int(m.Pos()), true, 1})
		case *ast.CallExpr:
			if h := p.helperOf(m); h != nil && h.Body != nil && h != fd {
				if k := len(loopsOf(h.Body)); k > 0 {
					evs = append(evs, ev{int(m.Pos()), false, k})
				}
			}
		}
		return true
	})
	sort.SliceStable(evs, func(i, j int) bool { return evs[i].pos < evs[j].pos })
	for _, e := range evs {
		for i := 0; i < e.k; i++ {
			out = append(out, loopEntry{real: e.real})
		}
	}
	return out
}

// virtualIndex: the virtual number of the n-th real loop (0 when there is none)
func virtualIndex(es []loopEntry, n int) int {
	k := 0
	for i, e := range es {
		if e.real {
			k++
			if k == n {
				return i + 1
			}
		}
	}
	return 0
}

// canonLoopIndex: the number (among the real loops of fd) of the loop the target means
func (x *tr) canonLoopIndex(fd *ast.FuncDecl, n int, any bool) int {
	rec, ok := loopCanon[x.t.Name]
	if !ok || !round3c || n <= 0 {
		return n
	}
	v := rec[0]
	es := x.p.loopEntries(fd, any)
	reals := 0
	for _, e := range es {
		if e.real {
			reals++
		}
	}
	if v > len(es) || reals >= rec[1] {
		return n // no loop has left the function (a new helper with loops of its own does not renumber anything)
	}
	if !es[v-1].real {
		fail("LoopBody: the loop has moved into a helper function")
	}
	k := 0
	for i := 0; i < v; i++ {
		if es[i].real {
			k++
		}
	}
	return k
}

// writeLoopCanon: record the virtual loop numbers of every LoopBody / LoopFrame target on this tree
func writeLoopCanon(root *rootT, path string) error {
	m := map[string][2]int{}
	for _, t := range targets {
		n, any := t.LoopBody, t.LoopAny
		if n <= 0 {
			n, any = t.LoopFrame, false
		}
		if n <= 0 {
			continue
		}
		func() {
			defer func() { _ = recover() }()
			p := root.pkg(t.Dir)
			fd := p.funcs[t.Func]
			if fd == nil || fd.Body == nil || t.Lit > 0 {
				return
			}
			es := p.loopEntries(fd, any)
			reals := 0
			for _, e := range es {
				if e.real {
					reals++
				}
			}
			if v := virtualIndex(es, n); v > 0 {
				m[t.Name] = [2]int{v, reals}
			}
		}()
	}
	b, _ := json.MarshalIndent(m, "", " ")
	return os.WriteFile(path, append(b, '\n'), 0o644)
}
