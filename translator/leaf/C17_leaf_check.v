(* C17 leaf obligations: the decision / arithmetic / control structure of the metric log writer,
   searcher and reader, regenerated from core/log/metric/{writer,searcher,reader}.go on every run
   (Gen.Leaf_gen.ml_*, I/O mode of translator/leaf: ext_io.go), is what Model/MetricLog.v
   transcribes by hand - for ALL inputs.  File-system calls, binary.Read, string functions enter
   as recorded actions (the ORDER of effects is part of the result) and as parameters (what a
   read returned, whether a call failed).

   Each target has (1) `<name>_spec`: a readable transcription at the level of actions, proved
   equal to the regenerated definition by case analysis on every comparison (so a rewrite of the Go
   code that keeps its meaning still checks), and (2) a lemma that interprets the actions on the
   model's state and arrives at the model's own function (w_write, is_new_day, next_name,
   remove_deprecated's count, cache_ok, offset_start, search_loop, scan_entries, rbe_file,
   rm_file). *)
From Coq Require Import ZArith Bool Lia List.
From SG Require Import Base.Prelude Base.GoInt Model.MLBytes Model.MLDecimal Model.MetricLog.
From Gen Require Import Leaf_gen.
Import ListNotations.
#[local] Open Scope Z_scope.
Transparent two32 two63 two64 two31.

Ltac split_ifs :=
  repeat match goal with |- context [if ?c then _ else _] => destruct c eqn:? end.
Ltac bool_facts :=
  repeat match goal with
  | H : negb _ = true |- _ => apply negb_true_iff in H
  | H : negb _ = false |- _ => apply negb_false_iff in H
  | H : andb _ _ = true |- _ => apply andb_true_iff in H; destruct H
  | H : andb _ _ = false |- _ => apply andb_false_iff in H; destruct H
  | H : orb _ _ = false |- _ => apply orb_false_iff in H; destruct H
  | H : orb _ _ = true |- _ => apply orb_true_iff in H; destruct H
  | H : (_ <? _) = true |- _ => apply Z.ltb_lt in H
  | H : (_ <? _) = false |- _ => apply Z.ltb_ge in H
  | H : (_ <=? _) = true |- _ => apply Z.leb_le in H
  | H : (_ <=? _) = false |- _ => apply Z.leb_gt in H
  | H : (_ >? _) = true |- _ => rewrite Z.gtb_ltb in H; apply Z.ltb_lt in H
  | H : (_ >? _) = false |- _ => rewrite Z.gtb_ltb in H; apply Z.ltb_ge in H
  | H : (_ >=? _) = true |- _ => rewrite Z.geb_leb in H; apply Z.leb_le in H
  | H : (_ >=? _) = false |- _ => rewrite Z.geb_leb in H; apply Z.leb_gt in H
  | H : (_ =? _) = true |- _ => apply Z.eqb_eq in H
  | H : (_ =? _) = false |- _ => apply Z.eqb_neq in H
  end.
Ltac leaf_cases := split_ifs; first [reflexivity | bool_facts; first [reflexivity | exfalso; lia | congruence]].
(* booleans that are parameters: case split first, then the comparisons *)
Ltac bool_params := repeat match goal with b : bool |- _ => destruct b end.

Notation A0 t := (t%Z, @nil leaf_arg).
Notation A1 t a := (t%Z, [LZ a]).
Notation A2 t a b := (t%Z, [LZ a; LZ b]).

(* ================================================================== writer.go ======= *)

(* ---- isNewDay: Go's truncating int64 division of (sec + zone) by 86400 -------------------- *)
(* isNewDay's arithmetic, written out (Go int64: wrap-around sums, truncating division) *)
Definition new_day_arith (tz last sec : Z) : bool :=
  i64 (Z.quot (i64 (last + tz)) 86400) <? i64 (Z.quot (i64 (sec + tz)) 86400).

Lemma new_day_arith_ok c last sec : in_i64 (last + c_tz c) -> in_i64 (sec + c_tz c) ->
  new_day_arith (c_tz c) last sec = is_new_day c last sec.
Proof.
  intros H1 H2. unfold new_day_arith, is_new_day.
  rewrite (i64_id (last + c_tz c)), (i64_id (sec + c_tz c)) by assumption.
  assert (Hq : forall x, in_i64 x -> in_i64 (Z.quot x 86400)).
  { intros x Hx. unfold in_i64, two63 in *. pose proof (Z.quot_rem' x 86400) as E.
    destruct (Z_le_gt_dec 0 x) as [Hp|Hn].
    - pose proof (Z.quot_pos x 86400 Hp ltac:(lia)). pose proof (Z.rem_bound_pos x 86400 Hp ltac:(lia)). lia.
    - pose proof (Z.quot_opp_l (- x) 86400 ltac:(lia)) as E2. rewrite Z.opp_involutive in E2.
      pose proof (Z.quot_pos (- x) 86400 ltac:(lia) ltac:(lia)).
      pose proof (Z.quot_rem' (- x) 86400). pose proof (Z.rem_bound_pos (- x) 86400 ltac:(lia) ltac:(lia)). lia. }
  rewrite !i64_id by (apply Hq; assumption). rewrite Z.gtb_ltb. reflexivity.
Qed.

(* comparisons split on both sides, leaves by lia: independent of how the Go test is written *)
Ltac split_cmps :=
  repeat match goal with
  | |- context [Z.ltb ?a ?b] => destruct (Z.ltb a b) eqn:?
  | |- context [Z.leb ?a ?b] => destruct (Z.leb a b) eqn:?
  | |- context [Z.eqb ?a ?b] => destruct (Z.eqb a b) eqn:?
  end.

Lemma ml_isNewDay_arith tz last sec : ml_isNewDay tz last sec = new_day_arith tz last sec.
Proof.
  unfold ml_isNewDay, new_day_arith. cbv zeta.
  split_cmps; first [reflexivity | bool_facts; first [reflexivity | exfalso; lia]].
Qed.

Lemma ml_isNewDay_ok c last sec : in_i64 (last + c_tz c) -> in_i64 (sec + c_tz c) ->
  ml_isNewDay (c_tz c) last sec = is_new_day c last sec.
Proof. intros H1 H2. rewrite ml_isNewDay_arith. apply new_day_arith_ok; assumption. Qed.

(* ---- Write: error code and the order of effects -------------------------------------------
   1 stamp every item [ts] . 2 rollToNextFile [ts] . 3 FilePosition (value: pos) . 4 writeIndex [sec, pos]
   5 writeItemsAndFlush . 6 rollFileIfSizeExceeded [ts] . 7 latestOpSec := [sec] *)
Definition write_rest (latest : Z) (size_ok : bool) (ts : Z) (write_ok : bool) (t : list leaf_act) : Z * list leaf_act :=
  if negb write_ok then (1, t ++ [A0 5]) else
  if negb size_ok then (1, t ++ [A0 5; A1 6 ts]) else
  if latest <? i64 (ts / 1000) then (0, t ++ [A0 5; A1 6 ts; A1 7 (i64 (ts / 1000))]) else (0, t ++ [A0 5; A1 6 ts]).
Definition write_after_pos (latest : Z) (idx_ok : bool) (pos : Z) (size_ok : bool) (ts : Z) (write_ok : bool) (t : list leaf_act) : Z * list leaf_act :=
  if (latest <? i64 (ts / 1000)) || (pos =? 0)
  then (if negb idx_ok then (1, t ++ [A2 4 (i64 (ts / 1000)) pos])
        else write_rest latest size_ok ts write_ok (t ++ [A2 4 (i64 (ts / 1000)) pos]))
  else write_rest latest size_ok ts write_ok t.
Definition write_after_roll (latest : Z) (idx_ok : bool) (pos : Z) (pos_ok size_ok : bool) (ts : Z) (write_ok : bool) (t : list leaf_act) : Z * list leaf_act :=
  if negb pos_ok then (1, t ++ [A0 3]) else write_after_pos latest idx_ok pos size_ok ts write_ok (t ++ [A0 3]).
Definition write_spec (latest tz : Z) (files_nil idx_ok items_empty : bool) (pos : Z) (pos_ok roll_ok size_ok : bool) (ts : Z) (write_ok : bool) : Z * list leaf_act :=
  if items_empty then (0, []) else
  if ts <=? 0 then (1, []) else
  if files_nil then (1, []) else
  if i64 (ts / 1000) <? latest then (0, [A1 1 ts]) else
  if (latest <? i64 (ts / 1000)) && new_day_arith tz latest (i64 (ts / 1000))
  then (if negb roll_ok then (1, [A1 1 ts; A1 2 ts]) else write_after_roll latest idx_ok pos pos_ok size_ok ts write_ok [A1 1 ts; A1 2 ts])
  else write_after_roll latest idx_ok pos pos_ok size_ok ts write_ok [A1 1 ts].

Lemma ml_Write_spec latest tz files_nil idx_ok items_empty pos pos_ok roll_ok size_ok ts write_ok :
  ml_Write latest tz files_nil idx_ok items_empty pos pos_ok roll_ok size_ok ts write_ok =
  write_spec latest tz files_nil idx_ok items_empty pos pos_ok roll_ok size_ok ts write_ok.
Proof.
  unfold ml_Write, write_spec, write_after_roll, write_after_pos, write_rest, new_day_arith. cbv zeta.
  leaf_cases.
Qed.

(* ---- rollFileIfSizeExceeded: the size test ---------------------------------------------------- *)
Lemma ml_rollFileIfSizeExceeded_spec max file_nil roll_err size stat_ok time :
  ml_rollFileIfSizeExceeded max file_nil roll_err size stat_ok time =
  if file_nil then (0, []) else
  if negb stat_ok then (1, []) else
  if max <=? u64 size then (roll_err, [A1 2 time]) else (0, []).
Proof. unfold ml_rollFileIfSizeExceeded. cbv zeta. destruct stat_ok; leaf_cases. Qed.

(* ---- the actions interpreted on the model's writer state -------------------------------------- *)
Definition wact0 (c : cfg) (tstr : bytes) (a : leaf_act) (r : wstate * list item) : wstate * list item :=
  let '(w, its) := r in
  match a with
  | (1, [LZ ts]) => (w, map (stamp ts tstr) its)                                   (* item.Timestamp = ts, each item *)
  | (2, [LZ ts]) => (roll c w ts, its)                                              (* rollToNextFile(ts) *)
  | (4, [LZ sec; LZ pos]) => (append_cur w [] (be64 sec ++ be64 pos), its)          (* writeIndex(sec, pos) *)
  | (5, []) => (append_cur w (enc_lines its) [], its)                               (* writeItemsAndFlush(items) *)
  | (7, [LZ v]) => (mkW (w_fs w) (w_day w) (w_seq w) v, its)                        (* latestOpSec = v *)
  | _ => r
  end.
(* rollFileIfSizeExceeded(ts) = the actions of the regenerated function on an open file of the current size *)
Definition size_roll (c : cfg) (tstr : bytes) (w : wstate) (its : list item) (ts : Z) : wstate * list item :=
  fold_left (fun r a => wact0 c tstr a r) (snd (ml_rollFileIfSizeExceeded (c_max_size c) false 0 (cur_size w) true ts)) (w, its).
Definition wact (c : cfg) (tstr : bytes) (a : leaf_act) (r : wstate * list item) : wstate * list item :=
  match a with
  | (6, [LZ ts]) => size_roll c tstr (fst r) (snd r) ts
  | _ => wact0 c tstr a r
  end.
Definition wrun (c : cfg) (tstr : bytes) (tr : list leaf_act) (r : wstate * list item) : wstate * list item :=
  fold_left (fun r a => wact c tstr a r) tr r.
(* the actions before the position read (action 3) *)
Fixpoint before3 (tr : list leaf_act) : list leaf_act :=
  match tr with
  | [] => []
  | (t, l) :: r => if t =? 3 then [] else (t, l) :: before3 r
  end.

Lemma size_roll_ok c tstr w its ts : 0 <= cur_size w < two64 ->
  size_roll c tstr w its ts = (if cur_size w >=? c_max_size c then roll c w ts else w, its).
Proof.
  intros Hs. unfold size_roll. rewrite ml_rollFileIfSizeExceeded_spec. cbn [negb].
  rewrite u64_id by exact Hs. rewrite Z.geb_leb.
  destruct (c_max_size c <=? cur_size w); reflexivity.
Qed.

Lemma w_eta w : mkW (w_fs w) (w_day w) (w_seq w) (w_latest w) = w.
Proof. destruct w; reflexivity. Qed.
Lemma roll_latest c w ts : w_latest (roll c w ts) = w_latest w.
Proof. unfold roll. destruct (next_name c (w_fs w) ts); reflexivity. Qed.
Lemma append_latest w d i : w_latest (append_cur w d i) = w_latest w.
Proof. reflexivity. Qed.

(* Write refines the model's w_write.  `pos` is what FilePosition returned: the size of the current
   file in the state reached by the actions that precede the read (they do not depend on pos:
   before3_indep).  Then the error code is nil and running the regenerated trace on the model
   state gives exactly w_write's state. *)
Ltac wsimp := cbn [before3 Z.eqb Pos.eqb app wrun fold_left wact wact0 fst snd].

Lemma before3_indep latest tz files_nil idx_ok items_empty pos pos' pos_ok roll_ok size_ok ts write_ok :
  before3 (snd (ml_Write latest tz files_nil idx_ok items_empty pos pos_ok roll_ok size_ok ts write_ok)) =
  before3 (snd (ml_Write latest tz files_nil idx_ok items_empty pos' pos_ok roll_ok size_ok ts write_ok)).
Proof.
  rewrite (ml_Write_spec _ _ _ _ _ pos), (ml_Write_spec _ _ _ _ _ pos'). unfold write_spec, write_after_roll, write_after_pos, write_rest.
  destruct items_empty, files_nil, pos_ok, roll_ok; cbn [negb]; split_ifs; reflexivity.
Qed.

Theorem ml_Write_refines c w ts tstr items pos :
  items <> [] -> 0 < ts < two64 -> in_i64 (w_latest w + c_tz c) -> in_i64 (ts / 1000 + c_tz c) ->
  (forall w', 0 <= cur_size w' < two63) ->
  let g := ml_Write (w_latest w) (c_tz c) false true false pos true true true ts true in
  pos = cur_size (fst (wrun c tstr (before3 (snd g)) (w, items))) ->
  fst g = 0 /\ fst (wrun c tstr (snd g) (w, items)) = w_write c w ts tstr items.
Proof.
  intros Hne Hts Hl Hs Hsize. cbv zeta.
  assert (Hsec : i64 (ts / 1000) = ts / 1000) by (apply i64_id; unfold in_i64, two63, two64 in *; lia).
  assert (Hu : forall w', 0 <= cur_size w' < two64) by (intros w'; specialize (Hsize w'); unfold two63, two64 in *; lia).
  rewrite ml_Write_spec. unfold write_spec, write_after_roll, write_after_pos, write_rest. cbn [negb].
  rewrite ?Hsec. rewrite (new_day_arith_ok c (w_latest w) (ts / 1000) Hl Hs).
  unfold w_write. cbv zeta. destruct items as [|it0 its]; [congruence|]. set (items := it0 :: its) in *.
  destruct (ts <=? 0) eqn:Ets; [apply Z.leb_le in Ets; lia|].
  destruct (ts / 1000 <? w_latest w) eqn:Eold; [intros _; split; reflexivity|].
  rewrite !Z.gtb_ltb.
  destruct ((w_latest w <? ts / 1000) && is_new_day c (w_latest w) (ts / 1000)) eqn:Eday;
  destruct (w_latest w <? ts / 1000) eqn:Enew; cbn [orb];
  try (destruct (pos =? 0) eqn:Epos);
  wsimp; intros Hpos; try (rewrite <- Hpos, Epos);
  rewrite ?size_roll_ok by apply Hu; cbn [fst snd]; (split; [reflexivity|]);
  rewrite <- ?Hpos; try reflexivity;
  (etransitivity; [symmetry; apply w_eta|]); f_equal;
  repeat (first [rewrite roll_latest
                | match goal with |- context [w_latest (if ?b then _ else _)] => destruct b end]);
  cbn [w_latest append_cur]; rewrite ?roll_latest; reflexivity.
Qed.

(* ---- nextFileNameOfTime: the roll-number rule ------------------------------------------------
   1 listMetricFilesConditional . 2 the plain name <base>.<date> . 3 Sprintf("%s.%d", pattern, n+1) [n+1] *)
Lemma ml_nextFileNameOfTime_spec items_len list_ok list_empty suffix parse_ok time :
  ml_nextFileNameOfTime items_len list_ok list_empty suffix parse_ok time =
  if negb list_ok then (1, [A0 1]) else
  if list_empty then (0, [A0 1; A0 2]) else
  (0, [A0 1; A1 3 (u32 ((if (0 <? items_len) && parse_ok then u32 suffix else 0) + 1))]).
Proof. unfold ml_nextFileNameOfTime. cbv zeta. destruct list_ok, parse_ok; cbn [negb andb]; leaf_cases. Qed.

(* the model's next_name: no file of that day -> the plain name (sequence 0); otherwise the newest
   file's number + 1, where the newest name's last dot-separated component parses as a number
   exactly when the name carries a suffix (sequence > 0; "2006-01-02" does not parse: n stays 0) *)
Lemma ml_nextFileNameOfTime_none c fs ts :
  rev (filter (fun f => f_day f =? day_of c ts) (sort_files fs)) = [] ->
  snd (ml_nextFileNameOfTime 0 true true 0 false ts) = [A0 1; A0 2] /\ next_name c fs ts = (day_of c ts, 0).
Proof. intros E. rewrite ml_nextFileNameOfTime_spec. unfold next_name. rewrite E. split; reflexivity. Qed.

Lemma ml_nextFileNameOfTime_some c fs ts lastf rest parts :
  rev (filter (fun f => f_day f =? day_of c ts) (sort_files fs)) = lastf :: rest ->
  0 <= f_seq lastf < two32 - 1 -> 0 < parts ->
  snd (ml_nextFileNameOfTime parts true false (f_seq lastf) (negb (f_seq lastf =? 0)) ts)
  = [A0 1; A1 3 (snd (next_name c fs ts))] /\ fst (next_name c fs ts) = day_of c ts.
Proof.
  intros E Hr Hp. rewrite ml_nextFileNameOfTime_spec. unfold next_name. rewrite E. cbn [negb snd fst].
  split; [|reflexivity]. replace (0 <? parts) with true by (symmetry; apply Z.ltb_lt; exact Hp). cbn [andb].
  unfold two32 in Hr. destruct (f_seq lastf =? 0) eqn:E0; cbn [negb].
  - apply Z.eqb_eq in E0. rewrite E0. reflexivity.
  - rewrite (u32_id (f_seq lastf)) by (unfold in_u32, two32; lia).
    rewrite u32_id by (unfold in_u32, two32; lia). reflexivity.
Qed.

(* ---- removeDeprecatedFiles: how many files go, and which ---------------------------------------
   1 listMetricFiles . 2 os.Remove(files[i]) . 3 os.Remove(idx of files[i]) *)
Ltac unwrap_i64 :=
  repeat match goal with |- context [i64 ?x] =>
    rewrite (i64_id x) by (unfold in_i64, two63, two31, two32 in *; lia) end.

Lemma ml_removeDeprecatedFiles_step_spec max files_ok i n rm_ok rmidx_ok :
  0 <= n < two31 -> 0 <= max < two32 -> 0 <= i < two32 ->
  ml_removeDeprecatedFiles_step max files_ok i n rm_ok rmidx_ok =
  if negb files_ok || (n =? 0) then (LReturn (if files_ok then 0 else 1), [A0 1]) else
  if i <? n - max + 1 then (LContinue (i + 1), [A0 1; A0 2; A0 3]) else (LBreak i, [A0 1]).
Proof.
  intros Hn Hm Hi. unfold ml_removeDeprecatedFiles_step. cbv zeta. unwrap_i64.
  destruct files_ok; cbn [negb orb]; leaf_cases.
Qed.

(* the indices removed by the loop started at i (the regenerated step iterated) *)
Fixpoint remove_iter (fuel : nat) (max n i : Z) : list Z :=
  match fuel with
  | O => []
  | S f => match fst (ml_removeDeprecatedFiles_step max true i n true true) with
           | LContinue i' => i :: remove_iter f max n i'
           | _ => []
           end
  end.
Fixpoint count_up (fuel : nat) (i k : Z) : list Z :=
  match fuel with O => [] | S f => if i <? k then i :: count_up f (i + 1) k else [] end.

(* = the first (len - max + 1) entries of the sorted listing, as in the model's remove_deprecated
   (doomed = takeZ (lenZ sorted - c_max_files c + 1) sorted) *)
Lemma remove_iter_ok fuel max n : forall i, 0 < n < two31 -> 0 <= max < two32 -> 0 <= i < two32 ->
  remove_iter fuel max n i = count_up fuel i (n - max + 1).
Proof.
  induction fuel as [|f IH]; intros i Hn Hm Hi; [reflexivity|].
  cbn [remove_iter count_up]. rewrite ml_removeDeprecatedFiles_step_spec by (unfold two31, two32 in *; lia).
  cbn [negb orb]. unfold two31, two32 in *.
  replace (n =? 0) with false by (symmetry; apply Z.eqb_neq; lia).
  destruct (i <? n - max + 1) eqn:E; cbn [fst]; [|reflexivity].
  apply Z.ltb_lt in E. f_equal. apply IH; lia.
Qed.

(* ---- closeCurAndNewFile: removal BEFORE creation; nothing is created when the removal failed ----
   1 removeDeprecatedFiles . 5/6 Close of the current data / idx file . 2 os.Create(data) . 3 os.Create(idx) .
   4/7/8/9 the new handles and writers stored *)
Lemma ml_closeCurAndNewFile_spec close_ok closeidx_ok cur_open curidx_open mf_ok mif_ok rm_ok :
  ml_closeCurAndNewFile close_ok closeidx_ok cur_open curidx_open mf_ok mif_ok rm_ok =
  if negb rm_ok then (1, [A0 1]) else
  let t := A0 1 :: (if cur_open then [A0 5] else []) ++ (if curidx_open then [A0 6] else []) in
  if negb mf_ok then (1, t ++ [A0 2]) else
  if negb mif_ok then (1, t ++ [A0 2; A0 3]) else (0, t ++ [A0 2; A0 3; A0 4; A0 7; A0 8; A0 9]).
Proof.
  unfold ml_closeCurAndNewFile. cbv zeta.
  destruct rm_ok, cur_open, curidx_open, mf_ok, mif_ok, close_ok, closeidx_ok; reflexivity.
Qed.

(* ================================================================== searcher.go ===== *)

(* ---- isPositionInTimeFor = cache_ok ------------------------------------------------------------ *)
Lemma ml_isPositionInTimeFor_ok files st begin_ms :
  let fo := match s_name st with Some (d, s) => find (name_is d s) files | None => None end in
  let found := match fo with Some _ => true | None => false end in
  let bs := match fo with Some f => firstn 8 (dropZ (s_off st) (f_idx f)) | None => [] end in
  fst (fst (ml_isPositionInTimeFor begin_ms (negb (length bs <? 8)%nat) (de64u bs) (s_off st) (s_sec st)
              (match s_name st with None => true | _ => false end) found found))
  = cache_ok files st (begin_ms / 1000).
Proof.
  cbv zeta. unfold ml_isPositionInTimeFor, cache_ok. cbv zeta.
  destruct (begin_ms / 1000 <? s_sec st); [reflexivity|].
  destruct (s_name st) as [[d s]|]; [|reflexivity].
  destruct (find (name_is d s) files) as [f|]; [|reflexivity]. cbn [negb].
  destruct (length (firstn 8 (dropZ (s_off st) (f_idx f))) <? 8)%nat; reflexivity.
Qed.

(* the order of its effects: stat, open + seek to the cached offset, one 8-byte read *)
Lemma ml_isPositionInTimeFor_trace begin_ms sec off csec :
  snd (ml_isPositionInTimeFor begin_ms true sec off csec false true true) =
  if begin_ms / 1000 <? csec then [] else [A0 1; A1 2 off; A0 3].
Proof. unfold ml_isPositionInTimeFor. cbv zeta. cbn [negb]. leaf_cases. Qed.

(* ---- getOffsetStartAndFileIdx = offset_start --------------------------------------------------- *)
Lemma ml_getOffsetStartAndFileIdx_step_spec begin_ms cached_off i j name_eq off :
  ml_getOffsetStartAndFileIdx_step begin_ms cached_off i j name_eq off =
  if name_eq then LBreak (u32 j, cached_off) else LContinue (i, off).
Proof. unfold ml_getOffsetStartAndFileIdx_step. cbv zeta. leaf_cases. Qed.

(* the name search: the regenerated step iterated over the listing *)
Fixpoint name_loop (files : list file) (d s cached_off j : Z) (acc : Z * Z) : Z * Z :=
  match files with
  | [] => acc
  | f :: r =>
      match ml_getOffsetStartAndFileIdx_step 0 cached_off (fst acc) j (name_is d s f) (snd acc) with
      | LBreak c => c
      | LContinue c => name_loop r d s cached_off (j + 1) c
      | LReturn _ => acc
      end
  end.

Lemma name_loop_ok d s off : forall files j acc, (Z.of_nat j + lenZ files < two32) ->
  name_loop files d s off (Z.of_nat j) acc =
  match index_of_name d s files j with Some k => (Z.of_nat k, off) | None => acc end.
Proof.
  induction files as [|f r IH]; intros j acc Hb; [reflexivity|].
  cbn [name_loop index_of_name]. rewrite ml_getOffsetStartAndFileIdx_step_spec.
  unfold lenZ in *. cbn [length] in Hb. rewrite Nat2Z.inj_succ in Hb.
  destruct (name_is d s f).
  - rewrite u32_id by (unfold in_u32; lia). reflexivity.
  - replace (Z.of_nat j + 1) with (Z.of_nat (S j)) by lia. rewrite <- surjective_pairing. apply IH. lia.
Qed.

Theorem ml_getOffsetStartAndFileIdx_ok files st begin_ms : lenZ files < two32 ->
  let lr := match s_name st with
            | Some (d, s) => name_loop files d s (s_off st) 0 (0, 0)
            | None => (0, 0)
            end in
  let '(off, i, err, _) := ml_getOffsetStartAndFileIdx begin_ms (cache_ok files st (begin_ms / 1000)) true (fst lr) (snd lr) in
  (off, Z.to_nat i) = offset_start files st (begin_ms / 1000) /\ err = 0.
Proof.
  intros Hb. cbv zeta. unfold ml_getOffsetStartAndFileIdx, offset_start. cbv zeta. cbn [negb].
  destruct (cache_ok files st (begin_ms / 1000)); [|split; reflexivity].
  destruct (s_name st) as [[d s]|]; [|split; reflexivity].
  pose proof (name_loop_ok d s (s_off st) files O (0, 0)) as E. cbn [Z.of_nat] in E. rewrite E by lia. clear E.
  destruct (index_of_name d s files 0) as [k|]; cbn [fst snd]; split; try reflexivity.
  rewrite Nat2Z.id. reflexivity.
Qed.

(* ---- searchOffsetAndRead: the file loop = search_loop ---------------------------------------------
   1 listMetricFiles . 2 getOffsetStartAndFileIdx . 3 findOffsetToStart(files[i], begin, offsetStart) [offsetStart]
   4 doRead(files, i, offset) [i, offset] *)
Definition search_iter (found : Z) (found_ok : bool) (i n offsetStart rd0 rd1 : Z) (pre : list leaf_act) : leaf_flow (Z * Z) (Z * Z) * list leaf_act :=
  if i <? u32 n then
    (if negb found_ok then (LContinue (u32 (i + 1), 0), pre ++ [A1 3 offsetStart]) else
     if 0 <=? found then (LReturn (rd0, rd1), pre ++ [A1 3 offsetStart; A2 4 i (u64 found)])
     else (LContinue (u32 (i + 1), 0), pre ++ [A1 3 offsetStart]))
  else (LBreak (i, offsetStart), pre).
Definition search_step_spec (found : Z) (found_ok : bool) (i : Z) (list_ok : bool) (n offsetStart rd0 rd1 : Z) : leaf_flow (Z * Z) (Z * Z) * list leaf_act :=
  if negb list_ok then (LReturn (0, 1), [A0 1]) else search_iter found found_ok i n offsetStart rd0 rd1 [A0 1; A0 2].

Lemma ml_searchOffsetAndRead_step_spec begin_ms found found_ok i list_ok n offsetStart rd0 rd1 st0 st1 start_ok :
  ml_searchOffsetAndRead_step begin_ms found found_ok i list_ok n offsetStart rd0 rd1 st0 st1 start_ok =
  search_step_spec found found_ok i list_ok n offsetStart rd0 rd1.
Proof.
  unfold ml_searchOffsetAndRead_step, search_step_spec, search_iter. cbv zeta.
  destruct list_ok; cbn [negb]; leaf_cases.
Qed.

(* what findOffsetToStart yields for a file, in the model's terms (scan_idx): the offset / the error,
   and the cache it leaves *)
Definition fots_res (f : file) (off_start bsec : Z) : Z * bool :=
  match fst (scan_idx (f_idx f) off_start bsec) with
  | Found _ off => (off, true)
  | NotFound => (-1, true)
  | ScanErr => (0, false)
  end.
Definition fots_cache (f : file) (off_start bsec : Z) (st : sstate) : sstate :=
  let '(res, pos) := scan_idx (f_idx f) off_start bsec in
  match res with
  | Found sec _ => mkS (Some (f_day f, f_seq f)) pos sec
  | _ => mkS None pos (s_sec st)
  end.

(* the regenerated iteration driven over the remaining files *)
Fixpoint gen_search (rem : list file) (i off_start bsec n : Z) (st : sstate) : sstate * option (list file * Z) :=
  match rem with
  | [] => (st, None)
  | f :: r =>
      let st' := fots_cache f off_start bsec st in
      match fst (ml_searchOffsetAndRead_step 0 (fst (fots_res f off_start bsec)) (snd (fots_res f off_start bsec))
                   i true n off_start 0 0 0 0 true) with
      | LReturn _ => (st', Some (rem, fst (fots_res f off_start bsec)))
      | LContinue (i', off') => gen_search r i' off' bsec n st'
      | LBreak _ => (st', None)
      end
  end.

Theorem gen_search_ok bsec n : forall rem i off_start st, 0 <= i -> i + lenZ rem = n -> n < two32 ->
  gen_search rem i off_start bsec n st = search_loop rem off_start bsec st.
Proof.
  induction rem as [|f r IH]; intros i off_start st Hi Hn Hb; [reflexivity|].
  cbn [gen_search search_loop]. rewrite ml_searchOffsetAndRead_step_spec.
  unfold search_step_spec, search_iter, fots_res, fots_cache. cbn [negb].
  unfold lenZ in *. cbn [length] in Hn. rewrite Nat2Z.inj_succ in Hn. unfold two32 in *.
  rewrite (u32_id n) by (unfold in_u32, two32; lia).
  replace (i <? n) with true by (symmetry; apply Z.ltb_lt; lia).
  rewrite (u32_id (i + 1)) by (unfold in_u32, two32; lia).
  destruct (scan_idx (f_idx f) off_start bsec) as [res pos]. cbn [fst snd].
  destruct res as [sec off| |]; cbn [fst snd negb].
  - rewrite Z.geb_leb. destruct (0 <=? off); cbn [fst]; [reflexivity|]. apply IH; lia.
  - cbn [Z.leb Z.compare fst]. apply IH; lia.
  - cbn [fst]. apply IH; lia.
Qed.

(* ---- findOffsetToStart: one iteration of the idx scan, and what follows the loop --------------
   1/2 cache names cleared . 3 os.Stat . 4 os.Open . 5 Seek [lastPos] . 6 FilePosition . 7 curOffsetInIdx := [v]
   8 binary.Read(&sec) . 9 binary.Read(&offset) . 2/1 cache names set . 12 curSecInIdx := [sec] *)
Definition fots_pre (lastPos pos1 : Z) : list leaf_act := [A0 1; A0 2; A0 3; A0 4; A1 5 (i64 lastPos); A0 6; A1 7 (u64 pos1)].

Lemma ml_findOffsetToStart_step_iter begin_ms eof lastPos off_in pos1 pos2 pos2_ok rdoff_ok rdoff rdsec_ok rdsec sec_in :
  ml_findOffsetToStart_step begin_ms lastPos off_in true pos1 true pos2 pos2_ok rdoff_ok rdoff eof rdsec_ok rdsec sec_in true true =
  let pre := fots_pre lastPos pos1 in
  if negb rdsec_ok then (if eof then (LReturn (-1, 0), pre ++ [A0 8]) else (LReturn (0, 1), pre ++ [A0 8])) else
  if begin_ms / 1000 <=? rdsec then (LBreak (off_in, rdsec), pre ++ [A0 8]) else
  if negb rdoff_ok then (LReturn (0, 1), pre ++ [A0 8; A0 9]) else
  if negb pos2_ok then (LReturn (0, 0), pre ++ [A0 8; A0 9; A0 6])
  else (LContinue (rdoff, rdsec), pre ++ [A0 8; A0 9; A0 6; A1 7 (u64 pos2)]).
Proof.
  unfold ml_findOffsetToStart_step, fots_pre. cbv zeta. cbn [negb].
  destruct rdsec_ok, rdoff_ok, pos2_ok; cbn [negb]; leaf_cases.
Qed.

Lemma ml_findOffsetToStart_frame_tail begin_ms lastPos loop_fn pos1 rdoff_ok rdoff :
  ml_findOffsetToStart_frame begin_ms lastPos loop_fn true pos1 true rdoff_ok rdoff true true =
  let pre := fots_pre lastPos pos1 in
  if negb rdoff_ok then (0, 1, pre ++ [A0 9])
  else (rdoff, 0, pre ++ [A0 9; A0 2; A0 1; A1 12 (snd (loop_fn (0, 0)))]).
Proof.
  unfold ml_findOffsetToStart_frame, fots_pre. cbv zeta. cbn [negb].
  destruct (loop_fn (0, 0)) as [o s]. destruct rdoff_ok; cbn [negb snd]; reflexivity.
Qed.

(* the scan over decoded idx entries: the regenerated iteration, driven by the entries that follow
   position pos (a read of a complete entry succeeds; at the end of the entries the 8-byte read
   fails: with io.EOF when nothing is left, with ErrUnexpectedEOF when the tail is torn).
   Result: the model's scan_res and the last value stored in cachedPos.curOffsetInIdx. *)
Fixpoint gen_scan (es : list (Z * Z)) (torn : bool) (pos bsec_ms : Z) (carried : Z * Z) : scan_res * Z :=
  match es with
  | [] =>
      match fst (ml_findOffsetToStart_step bsec_ms 0 (fst carried) true pos true 0 true true 0 (negb torn) false 0 (snd carried) true true) with
      | LReturn (-1, _) => (NotFound, pos)
      | _ => (ScanErr, pos)
      end
  | (sec, off) :: r =>
      match fst (ml_findOffsetToStart_step bsec_ms 0 (fst carried) true pos true (pos + 16) true true off false true sec (snd carried) true true) with
      | LBreak (_, sec') =>
          (* after the loop: the offset is read, the names and the second are cached *)
          let '(o, e, _) := ml_findOffsetToStart_frame bsec_ms 0 (fun _ => (fst carried, sec')) true pos true true off true true in
          (if e =? 0 then Found sec' o else ScanErr, pos)
      | LContinue c => gen_scan r torn (pos + 16) bsec_ms c
      | LReturn _ => (ScanErr, pos)
      end
  end.

Theorem gen_scan_ok torn bsec_ms : forall es pos carried,
  gen_scan es torn pos bsec_ms carried = scan_entries es torn pos (bsec_ms / 1000).
Proof.
  induction es as [|[sec off] r IH]; intros pos carried.
  - cbn [gen_scan scan_entries]. rewrite ml_findOffsetToStart_step_iter. cbv zeta. cbn [negb].
    destruct torn; reflexivity.
  - cbn [gen_scan scan_entries]. rewrite ml_findOffsetToStart_step_iter. cbv zeta. cbn [negb].
    rewrite Z.geb_leb. destruct (bsec_ms / 1000 <=? sec); cbn [fst].
    + rewrite ml_findOffsetToStart_frame_tail. cbv zeta. cbn [negb Z.eqb]. reflexivity.
    + apply IH.
Qed.

(* ================================================================== reader.go ======= *)

(* ---- readLine: the torn-last-line rule: a ReadString error (EOF with or without pending bytes)
   is returned as such, nothing is trimmed or handed on.  1 ReadString('\n') . 2 TrimSuffix(line[:len-1], "\r") *)
Lemma ml_readLine_spec rd_ok : ml_readLine rd_ok = if rd_ok then (0, [A0 1; A0 2]) else (1, [A0 1]).
Proof. unfold ml_readLine. destruct rd_ok; reflexivity. Qed.

(* ---- readMetricsInOneFileByEndTime: one line -------------------------------------------------
   1 openFileAndSeekTo [offset] . 2 readLine . 3 MetricItemFromFatString . 4 items = append(items, item);
   `items` is the number of items collected so far in this file *)
Definition rbe_step_spec (begin_ms end_ms : Z) (eof parse_ok : bool) (ts n : Z) (line_ok : bool) (offset : Z) (open_ok : bool) (prev : Z) (res_empty res_eq : bool) : leaf_flow (Z * bool * Z) Z * list leaf_act :=
  if negb open_ok then (LReturn (0, false, 1), [A1 1 offset]) else
  if negb line_ok then (if eof then (LReturn (n, true, 0), [A1 1 offset; A0 2]) else (LReturn (0, false, 1), [A1 1 offset; A0 2])) else
  if negb parse_ok then (LContinue n, [A1 1 offset; A0 2; A0 3]) else
  if (ts / 1000 <? begin_ms / 1000) || (end_ms / 1000 <? ts / 1000) then (LReturn (n, false, 0), [A1 1 offset; A0 2; A0 3]) else
  if res_empty || res_eq
  then (if 100000 <=? i64 (i64 (n + 1) + prev) then (LReturn (i64 (n + 1), false, 0), [A1 1 offset; A0 2; A0 3; A0 4])
        else (LContinue (i64 (n + 1)), [A1 1 offset; A0 2; A0 3; A0 4]))
  else (if 100000 <=? i64 (n + prev) then (LReturn (n, false, 0), [A1 1 offset; A0 2; A0 3])
        else (LContinue n, [A1 1 offset; A0 2; A0 3])).

Lemma ml_readByEndTime_step_spec begin_ms end_ms eof parse_ok ts n line_ok offset open_ok prev res_empty res_eq :
  ml_readByEndTime_step begin_ms end_ms parse_ok ts n eof line_ok offset open_ok prev res_empty res_eq =
  rbe_step_spec begin_ms end_ms eof parse_ok ts n line_ok offset open_ok prev res_empty res_eq.
Proof.
  unfold ml_readByEndTime_step, rbe_step_spec. cbv zeta.
  destruct open_ok, line_ok, parse_ok; cbn [negb]; leaf_cases.
Qed.

Definition appended (tr : list leaf_act) : bool := existsb (fun a => fst a =? 4) tr.

(* the regenerated step driven over the parsed lines of a file (unparsable lines are skipped by the
   step itself: `continue`; here the list holds the parsed ones, as in the model's read_items) *)
Fixpoint gen_rbe (its : list item) (begin_ms end_ms : Z) (res : bytes) (prev n : Z) : list item * bool :=
  match its with
  | [] =>
      match fst (ml_readByEndTime_step begin_ms end_ms true 0 n true false 0 true prev false false) with
      | LReturn (_, c, _) => ([], c)
      | _ => ([], false)
      end
  | it :: r =>
      let st := ml_readByEndTime_step begin_ms end_ms true (i_ts it) n false true 0 true prev
                  (match res with [] => true | _ => false end) (bytes_eqb res (i_res it)) in
      match fst st with
      | LContinue n' => let '(l, c) := gen_rbe r begin_ms end_ms res prev n' in
                        ((if appended (snd st) then it :: l else l), c)
      | LReturn (_, c, _) => ((if appended (snd st) then [it] else []), c)
      | LBreak _ => ([], false)
      end
  end.

Theorem gen_rbe_ok begin_ms end_ms res prev : forall its n, 0 <= n -> 0 <= prev -> n + prev + lenZ its < two63 ->
  gen_rbe its begin_ms end_ms res prev n = rbe_file its (begin_ms / 1000) (end_ms / 1000) res prev n.
Proof.
  induction its as [|it r IH]; intros n Hn Hp Hb.
  - cbn [gen_rbe rbe_file]. rewrite ml_readByEndTime_step_spec. reflexivity.
  - cbn [gen_rbe rbe_file]. rewrite ml_readByEndTime_step_spec. unfold rbe_step_spec, sec_of. cbn [negb].
    unfold lenZ in *. cbn [length] in Hb. rewrite Nat2Z.inj_succ in Hb. unfold two63 in *.
    rewrite Z.gtb_ltb, Z.geb_leb.
    destruct ((i_ts it / 1000 <? begin_ms / 1000) || (end_ms / 1000 <? i_ts it / 1000)); [reflexivity|].
    rewrite (i64_id (n + 1)) by (unfold in_i64, two63; lia).
    rewrite (i64_id (n + 1 + prev)) by (unfold in_i64, two63; lia).
    rewrite (i64_id (n + prev)) by (unfold in_i64, two63; lia).
    assert (Hk : (match res with [] => true | _ => false end || bytes_eqb res (i_res it)) =
                 match res with [] => true | _ => bytes_eqb res (i_res it) end) by (destruct res; reflexivity).
    rewrite Hk. unfold max_item_amount.
    destruct (match res with [] => true | _ => bytes_eqb res (i_res it) end).
    + destruct (100000 <=? n + 1 + prev); cbn [fst snd appended existsb Z.eqb Pos.eqb orb]; [reflexivity|].
      rewrite IH by lia. reflexivity.
    + destruct (100000 <=? n + prev); cbn [fst snd appended existsb Z.eqb Pos.eqb orb]; [reflexivity|].
      rewrite IH by lia. reflexivity.
Qed.

(* ---- readMetricsInOneFile: one line of the line-limited reader ------------------------------- *)
Definition rm_step_spec (eof parse_ok : bool) (ts n lastSec : Z) (line_ok : bool) (maxLines offset : Z) (open_ok : bool) (prev : Z) : leaf_flow (Z * bool * Z) (Z * Z) * list leaf_act :=
  if negb open_ok then (LReturn (0, false, 1), [A1 1 offset]) else
  if negb line_ok then (if eof then (LReturn (n, u32 (prev + u32 n) <? maxLines, 0), [A1 1 offset; A0 2])
                        else (LReturn (0, false, 1), [A1 1 offset; A0 2])) else
  if negb parse_ok then (LContinue (n, lastSec), [A1 1 offset; A0 2; A0 3]) else
  if (maxLines <=? u32 (prev + u32 n)) && negb (ts / 1000 =? lastSec) then (LReturn (n, false, 0), [A1 1 offset; A0 2; A0 3])
  else (LContinue (i64 (n + 1), ts / 1000), [A1 1 offset; A0 2; A0 3; A0 4]).

Lemma ml_readMaxLines_step_spec eof parse_ok ts n lastSec0 lastSec line_ok maxLines offset open_ok prev :
  ml_readMaxLines_step parse_ok ts n lastSec0 lastSec eof line_ok maxLines offset open_ok prev =
  rm_step_spec eof parse_ok ts n lastSec line_ok maxLines offset open_ok prev.
Proof.
  unfold ml_readMaxLines_step, rm_step_spec. cbv zeta.
  destruct open_ok, line_ok, parse_ok; cbn [negb]; leaf_cases.
Qed.

Fixpoint gen_rm (its : list item) (max_lines last_sec prev n : Z) : list item * bool :=
  match its with
  | [] =>
      match fst (ml_readMaxLines_step true 0 n 0 last_sec true false max_lines 0 true prev) with
      | LReturn (_, c, _) => ([], c)
      | _ => ([], false)
      end
  | it :: r =>
      let st := ml_readMaxLines_step true (i_ts it) n 0 last_sec false true max_lines 0 true prev in
      match fst st with
      | LContinue (n', last') => let '(l, c) := gen_rm r max_lines last' prev n' in
                                 ((if appended (snd st) then it :: l else l), c)
      | LReturn (_, c, _) => ((if appended (snd st) then [it] else []), c)
      | LBreak _ => ([], false)
      end
  end.

Theorem gen_rm_ok max_lines prev : forall its last_sec n, 0 <= n -> 0 <= prev -> n + prev + lenZ its < two32 ->
  gen_rm its max_lines last_sec prev n = rm_file its max_lines last_sec prev n.
Proof.
  induction its as [|it r IH]; intros last_sec n Hn Hp Hb;
    unfold lenZ in *; cbn [length] in Hb; try rewrite Nat2Z.inj_succ in Hb; unfold two32 in *.
  - cbn [gen_rm rm_file]. rewrite ml_readMaxLines_step_spec. unfold rm_step_spec. cbn [negb fst].
    rewrite (u32_id n) by (unfold in_u32, two32; lia). rewrite u32_id by (unfold in_u32, two32; lia). reflexivity.
  - cbn [gen_rm rm_file]. rewrite ml_readMaxLines_step_spec. unfold rm_step_spec, sec_of. cbn [negb].
    rewrite (u32_id n) by (unfold in_u32, two32; lia). rewrite u32_id by (unfold in_u32, two32; lia).
    rewrite Z.geb_leb.
    destruct ((max_lines <=? prev + n) && negb (i_ts it / 1000 =? last_sec)); [reflexivity|].
    cbn [fst snd appended existsb Z.eqb Pos.eqb orb].
    rewrite (i64_id (n + 1)) by (unfold in_i64, two63; lia).
    rewrite IH by lia. reflexivity.
Qed.

(* getLatestSecond *)
Lemma ml_getLatestSecond_ok its :
  ml_getLatestSecond (match its with [] => true | _ => false end) (match rev its with it :: _ => i_ts it | [] => 0 end)
  = latest_second its.
Proof.
  unfold ml_getLatestSecond, latest_second, sec_of. destruct its as [|a l]; [reflexivity|].
  destruct (rev (a :: l)) eqn:E; [|reflexivity].
  apply (f_equal (@length item)) in E. rewrite rev_length in E. discriminate.
Qed.

(* ================================================================== parameter names ===== *)
(* the parameters are positional: pin their NAMES (the fields / reads the Go code uses in each
   position), so that reading another field of the same type in the same place is noticed *)
Import Coq.Strings.String.
Open Scope string_scope.
Open Scope list_scope.
Lemma ml_isNewDay_params : LeafParams.ml_isNewDay = "d_timezoneOffsetSec" :: "lastSec" :: "sec" :: nil.
Proof. reflexivity. Qed.
Lemma ml_Write_params : LeafParams.ml_Write = "d_latestOpSec" :: "d_timezoneOffsetSec" :: "files_nil" :: "idx_err_nil" :: "items_empty" :: "pos_0" :: "pos_1_nil" :: "roll_err_nil" :: "size_err_nil" :: "ts" :: "write_err_nil" :: nil.
Proof. reflexivity. Qed.
Lemma ml_rollFileIfSizeExceeded_params : LeafParams.ml_rollFileIfSizeExceeded = "d_maxSingleSize" :: "file_nil" :: "roll_err" :: "size" :: "stat_1_nil" :: "time" :: nil.
Proof. reflexivity. Qed.
Lemma ml_removeDeprecatedFiles_step_params : LeafParams.ml_removeDeprecatedFiles_step = "d_maxFileAmount" :: "files_1_nil" :: "i_in" :: "n_files" :: "rm_err_nil" :: "rmidx_err_nil" :: nil.
Proof. reflexivity. Qed.
Lemma ml_isPositionInTimeFor_params : LeafParams.ml_isPositionInTimeFor = "beginTimeMs" :: "cache_sec_nil" :: "cache_sec_out" :: "cached_off" :: "cached_sec" :: "name_empty" :: "open_1_nil" :: "stat_1_nil" :: nil.
Proof. reflexivity. Qed.
Lemma ml_searchOffsetAndRead_step_params : LeafParams.ml_searchOffsetAndRead_step = "beginTimeMs" :: "found_0" :: "found_1_nil" :: "i_in" :: "list_1_nil" :: "n_files" :: "offsetStart_in" :: "read_0" :: "read_1" :: "start_0" :: "start_1" :: "start_2_nil" :: nil.
Proof. reflexivity. Qed.
Lemma ml_readByEndTime_step_params : LeafParams.ml_readByEndTime_step = "beginMs" :: "endMs" :: "item_1_nil" :: "item_ts" :: "items_in" :: "line_1_is_EOF" :: "line_1_nil" :: "offset" :: "open_1_nil" :: "prevSize" :: "res_empty" :: "res_eq" :: nil.
Proof. reflexivity. Qed.
Lemma ml_readMaxLines_step_params : LeafParams.ml_readMaxLines_step = "item_1_nil" :: "item_ts" :: "items_in" :: "lastSec" :: "lastSec_in" :: "line_1_is_EOF" :: "line_1_nil" :: "maxLines" :: "offset" :: "open_1_nil" :: "prevSize" :: nil.
Proof. reflexivity. Qed.

(* one traversal for all obligations (each Print Assumptions costs ~0.5 s in this environment) *)
Definition C17_leaf_obligations := (
  @ml_isNewDay_ok,
  @ml_Write_spec,
  @ml_Write_refines,
  @before3_indep,
  @ml_rollFileIfSizeExceeded_spec,
  @ml_nextFileNameOfTime_some,
  @remove_iter_ok,
  @ml_closeCurAndNewFile_spec,
  @ml_isPositionInTimeFor_ok,
  @ml_getOffsetStartAndFileIdx_ok,
  @gen_search_ok,
  @gen_scan_ok,
  @ml_readLine_spec,
  @gen_rbe_ok,
  @gen_rm_ok,
  @ml_getLatestSecond_ok).
Print Assumptions C17_leaf_obligations.
