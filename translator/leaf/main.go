// leaf: restricted Go -> Gallina translator for leaf decision functions (DESIGN.md 4.4-3).
//
// For every target (package directory, function or Type.method) it parses the non-test files of
// the package with go/parser only, executes the function body symbolically (straight-line code,
// := / = assignments, if / else, switch, return, named results; no loops, no goto) and prints a
// Gallina definition over Z / bool / PrimFloat that computes the function's result from its
// integer, float and boolean inputs:
//
//   - integer arithmetic is printed with the wrap-around of its Go type (Base/GoInt.v:
//     u64_add, u64_sub, u32, i64_add, ...), conversions with the truncation Go performs;
//   - float64 arithmetic as PrimFloat operations (same IEEE-754 binary64 operations);
//   - struct fields read through a parameter or the receiver (`rule.Threshold`,
//     `la.intervalInMs`) become parameters named <param>_<field>; the Go type comes from the
//     struct declaration in the package; named integer types are resolved to their underlying
//     type and package-level integer constants (incl. iota blocks) to their values;
//   - expressions that are not arithmetic (string emptiness, nil tests, atomic loads, getter
//     calls, len) are replaced by parameters through the per-target *hint* table, keyed by the
//     exact source text of the expression; statements that are calls for effect (logging,
//     vhook.Yield) are skipped;
//   - a result of type error is printed as a Z code: 0 for nil, for a named error variable the
//     code given in the hint table, 1 for any other non-nil error.
//
// Anything else makes the target *untranslatable*: the definition is replaced by a marker and
// the Coq obligation file that mentions the function no longer compiles (a broken proof
// obligation, reported as such).  Nothing is dropped silently.
//
// Output: Leaf_gen.v (library Gen.Leaf_gen) with one Definition per target, parameters in
// alphabetical order of their names, and leaf.json describing each (parameters with Go types).
package main

import (
	"bytes"
	"encoding/json"
	"flag"
	"fmt"
	"go/ast"
	"go/parser"
	"go/printer"
	"go/token"
	"os"
	"path/filepath"
	"sort"
	"strconv"
	"strings"
)

type hint struct {
	Var string // parameter name in the generated definition
	Typ string // Go type: uint64 uint32 int64 int32 int float64 bool
}

type target struct {
	Dir    string            // package directory relative to the repository root
	Func   string            // "name" or "Type.name"
	Name   string            // Gallina name
	Hints  map[string]hint   // source text of an expression -> parameter
	Errs   map[string]int    // named error variables -> code
	Calls  map[string]string // callee source text (e.g. "calculateStartTime") -> Gallina function (another target), args passed positionally
	Inline []string          // same-package functions whose bodies are inlined at their call sites (arguments must be the
	// caller's variables of the same names)
	Ctors map[string]ctor // constructors of *base.TokenResult: the result becomes a (tag, value) pair (ext_hotspot.go)
	// effects.go: functions whose result includes the sequence of effects they perform
	Acts     map[string]act  // call text or callee text -> action recorded in the result's trace
	SeqHints map[string]bool // hint keys that are reads of shared state: the k-th evaluation on a path is parameter <Var>_<k>
	LoopVars map[string]hint // variable assigned by a range loop -> parameter that summarises the loop's result for it
	Effects  []string        // further statement prefixes that are calls for effect only (skipped), e.g. metric exporters
	Lit      int             // > 0: translate the Lit-th function literal inside Func (its free variables are Func's receiver / parameters)
	// loopbody.go: one iteration of a loop as a step function
	LoopBody  int               // N >= 1: translate the prologue + the body of the N-th top-level for / range statement
	RangeVars map[string]string // Go types of the range variables of that loop (name -> type text)
	Fields    []string          // ext_shaping.go: constructor target: the result is the tuple of these fields of the returned struct literal
	// ext_isostat.go
	NilRes    []string // result types (source text, e.g. "*Rule") reported as a Z code like an error: 0 = nil, Errs[expr] otherwise
	LoopFrame int      // N >= 1: the whole function with its N-th top-level loop replaced by the parameter loop_fn (carried tuple -> carried tuple)
	// ext_chain.go
	RefTypes     []string          // type texts whose variables / results are object references (abstract ids, 0 = nil)
	RefCalls     map[string]hint   // method name -> parameter (Z -> Typ) applied to the reference the method is called on
	Stores       map[string]act    // left-hand side text of an assignment -> recorded action (Keep [0]: the stored value)
	LoopMarks    map[int]act       // k-th loop in source order at any depth -> recorded action (the loop is not read)
	LoopAny      bool              // with LoopBody N: N counts loops at any depth; no prologue (declarations only)
	AlwaysParams map[string]string // parameters (name -> Go type) the definition takes even when the code does not read them (a stable signature: ext_chain.go)
	CanonIn      bool              // LoopAny step: the <name>_in parameters are called var_in_<i>, i = declaration order (a renamed local keeps its name and position)
	// ext_io.go
	IO          bool            // I/O-style functions: Rets, IOStores, defer, select, parallel assignment, ... (see ext_io.go)
	Rets        map[string]hint // call text or callee text -> {base name, "t0,t1,..."}: results of a call that are not one scalar
	IOStores    map[string]act  // left-hand side text of an assignment -> recorded action (Keep [0]: the stored value)
	StoreFields []string        // with an IOStores entry and a struct literal on the right: the literal's fields kept as arguments
	LenSlices   []string        // slice variables represented by their length
	AbsCalls    map[string]hint // callee text -> parameter (Z -> Typ) applied to the single argument
	Shape       string          // expected result type of the definition; another shape (a loop that now returns instead of breaking, other carried variables) is "not regenerable", not a different function
}

var targets = []target{
	{Dir: "core/stat/base", Func: "calculateStartTime", Name: "calculateStartTime"},
	{Dir: "core/stat/base", Func: "LeapArray.calculateTimeIdx", Name: "calculateTimeIdx",
		Hints: map[string]hint{"la.array.length": {"array_length", "int"}}},
	{Dir: "core/stat/base", Func: "LeapArray.isBucketDeprecated", Name: "isBucketDeprecated",
		Hints: map[string]hint{"atomic.LoadUint64(&ww.BucketStart)": {"ws", "uint64"}}},
	{Dir: "core/stat/base", Func: "SlidingWindowMetric.getBucketStartRange", Name: "getBucketStartRange",
		Hints: map[string]hint{"m.real.BucketLengthInMs()": {"real_bucketLengthInMs", "uint32"}},
		Calls: map[string]string{"calculateStartTime": "calculateStartTime"}},
	{Dir: "core/base", Func: "CheckValidityForReuseStatistic", Name: "checkValidityForReuseStatistic",
		Errs: map[string]int{"IllegalStatisticParamsError": 1, "IllegalGlobalStatisticParamsError": 2, "GlobalStatisticNonReusableError": 3}},
	{Dir: "core/isolation", Func: "IsValidRule", Name: "isolation_IsValidRule",
		Hints: map[string]hint{"r == nil": {"r_nil", "bool"}, "len(r.Resource) == 0": {"resource_empty", "bool"}}},
	{Dir: "core/flow", Func: "IsValidRule", Name: "flow_IsValidRule",
		Hints: map[string]hint{"rule == nil": {"rule_nil", "bool"}, `rule.Resource == ""`: {"resource_empty", "bool"},
			`rule.RefResource == ""`:               {"refResource_empty", "bool"},
			"int64(system_metric.TotalMemorySize)": {"total_memory", "int64"}}},
	{Dir: "core/system", Func: "IsValidSystemRule", Name: "system_IsValidSystemRule",
		Hints: map[string]hint{"rule == nil": {"rule_nil", "bool"}}},
	{Dir: "core/circuitbreaker", Func: "IsValidRule", Name: "circuitbreaker_IsValidRule",
		Hints: map[string]hint{"r == nil": {"r_nil", "bool"}, "len(r.Resource) == 0": {"resource_empty", "bool"}}},
	{Dir: "core/hotspot", Func: "IsValidRule", Name: "hotspot_IsValidRule",
		Hints: map[string]hint{"rule == nil": {"rule_nil", "bool"}, `rule.Resource == ""`: {"resource_empty", "bool"},
			"len(rule.Resource) == 0": {"resource_empty", "bool"},
			`rule.ParamKey != ""`:     {"paramKey_nonempty", "bool"}, "len(rule.ParamKey) != 0": {"paramKey_nonempty", "bool"}},
		Inline: []string{"checkControlBehaviorField"}},
	{Dir: "core/flow", Func: "MemoryAdaptiveTrafficShapingCalculator.CalculateAllowedTokens", Name: "memoryAdaptive_CalculateAllowedTokens",
		Hints: map[string]hint{"system_metric.CurrentMemoryUsage()": {"mem", "int64"}}},
	// system: the rule predicate (C07)
	{Dir: "core/system", Func: "AdaptiveSlot.doCheckRule", Name: "system_doCheckRule",
		Hints: map[string]hint{
			"stat.InboundNode().GetQPS(base.MetricEventPass)":        {"inbound_qps", "float64"},
			"stat.InboundNode().CurrentConcurrency()":                {"inbound_concurrency", "int32"},
			"stat.InboundNode().AvgRT()":                             {"inbound_avg_rt", "float64"},
			"stat.InboundNode().MinRT()":                             {"inbound_min_rt", "float64"},
			"stat.InboundNode().GetMaxAvg(base.MetricEventComplete)": {"inbound_max_complete", "float64"},
			"system_metric.CurrentLoad()":                            {"load", "float64"},
			"system_metric.CurrentCpuUsage()":                        {"cpu", "float64"}},
		Inline: []string{"checkBbrSimple"}},
	// rule equality / statistic reuse (C13, C14): which reloads keep a controller, which keep its statistics
	{Dir: "core/flow", Func: "Rule.isEqualsTo", Name: "flow_isEqualsTo",
		Hints: map[string]hint{"newRule == nil": {"newRule_nil", "bool"},
			"r.Resource == newRule.Resource": {"resource_eq", "bool"}, "r.RefResource == newRule.RefResource": {"refResource_eq", "bool"}}},
	{Dir: "core/flow", Func: "Rule.isStatReusable", Name: "flow_isStatReusable",
		Hints: map[string]hint{"newRule == nil": {"newRule_nil", "bool"},
			"r.Resource == newRule.Resource": {"resource_eq", "bool"}, "r.RefResource == newRule.RefResource": {"refResource_eq", "bool"}},
		Inline: []string{"Rule.needStatistic"}},
	{Dir: "core/circuitbreaker", Func: "Rule.isEqualsTo", Name: "circuitbreaker_isEqualsTo",
		Hints:  map[string]hint{"newRule == nil": {"newRule_nil", "bool"}, "r.Resource == newRule.Resource": {"resource_eq", "bool"}},
		Inline: []string{"Rule.isEqualsToBase"}},
	{Dir: "core/circuitbreaker", Func: "Rule.isStatReusable", Name: "circuitbreaker_isStatReusable",
		Hints: map[string]hint{"newRule == nil": {"newRule_nil", "bool"}, "r.Resource == newRule.Resource": {"resource_eq", "bool"}}},
	{Dir: "core/hotspot", Func: "Rule.Equals", Name: "hotspot_Equals",
		Hints: map[string]hint{"r.Resource == newRule.Resource": {"resource_eq", "bool"}, "r.ParamKey == newRule.ParamKey": {"paramKey_eq", "bool"},
			"reflect.DeepEqual(r.SpecificItems, newRule.SpecificItems)": {"specificItems_eq", "bool"}}},
	// flow: the reject decision (C02)
	{Dir: "core/flow", Func: "RejectTrafficShapingChecker.DoCheck", Name: "flow_reject_DoCheck",
		Hints: map[string]hint{"d.BoundOwner().boundStat.readOnlyMetric": {"", "opaque"},
			"metricReadonlyStat == nil":                       {"stat_nil", "bool"},
			"metricReadonlyStat.GetSum(base.MetricEventPass)": {"pass_sum", "int64"}}},
	{Dir: "core/hotspot", Func: "Rule.IsStatReusable", Name: "hotspot_IsStatReusable",
		Hints: map[string]hint{"r.Resource == newRule.Resource": {"resource_eq", "bool"}}},
}

// ---------------------------------------------------------------------------------------------

type pkgInfo struct {
	fset    *token.FileSet
	files   []*ast.File
	funcs   map[string]*ast.FuncDecl       // "name" / "Type.name"
	structs map[string]map[string]ast.Expr // struct name -> field -> type expr
	named   map[string]ast.Expr            // named type -> underlying type expr
	consts  map[string]constVal            // integer constants
}

type constVal struct {
	val int64
	typ string // "" = untyped
}

func loadPkg(root, dir string) (*pkgInfo, error) {
	p := &pkgInfo{fset: token.NewFileSet(), funcs: map[string]*ast.FuncDecl{}, structs: map[string]map[string]ast.Expr{},
		named: map[string]ast.Expr{}, consts: map[string]constVal{}}
	ents, err := os.ReadDir(filepath.Join(root, dir))
	if err != nil {
		return nil, err
	}
	for _, e := range ents {
		n := e.Name()
		if !strings.HasSuffix(n, ".go") || strings.HasSuffix(n, "_test.go") || strings.HasSuffix(n, "_verif.go") {
			continue
		}
		f, err := parser.ParseFile(p.fset, filepath.Join(root, dir, n), nil, parser.ParseComments)
		if err != nil {
			return nil, err
		}
		// honour build constraints crudely: skip files tagged verif
		skip := false
		for _, cg := range f.Comments {
			for _, c := range cg.List {
				if strings.HasPrefix(c.Text, "//go:build") && strings.Contains(c.Text, "verif") && !strings.Contains(c.Text, "!verif") {
					skip = true
				}
			}
		}
		if skip {
			continue
		}
		p.files = append(p.files, f)
	}
	for _, f := range p.files {
		for _, d := range f.Decls {
			switch d := d.(type) {
			case *ast.FuncDecl:
				name := d.Name.Name
				if d.Recv != nil && len(d.Recv.List) == 1 {
					name = recvTypeName(d.Recv.List[0].Type) + "." + name
				}
				p.funcs[name] = d
			case *ast.GenDecl:
				switch d.Tok {
				case token.TYPE:
					for _, s := range d.Specs {
						ts := s.(*ast.TypeSpec)
						if st, ok := ts.Type.(*ast.StructType); ok {
							m := map[string]ast.Expr{}
							for _, fl := range st.Fields.List {
								for _, nm := range fl.Names {
									m[nm.Name] = fl.Type
								}
								if len(fl.Names) == 0 { // embedded
									m[recvTypeName(fl.Type)] = fl.Type
								}
							}
							p.structs[ts.Name.Name] = m
						} else {
							p.named[ts.Name.Name] = ts.Type
						}
					}
				case token.CONST:
					p.loadConsts(d)
				}
			}
		}
	}
	return p, nil
}

func recvTypeName(e ast.Expr) string {
	switch e := e.(type) {
	case *ast.StarExpr:
		return recvTypeName(e.X)
	case *ast.Ident:
		return e.Name
	case *ast.SelectorExpr:
		return e.Sel.Name
	case *ast.IndexExpr:
		return recvTypeName(e.X)
	}
	return "?"
}

func (p *pkgInfo) loadConsts(d *ast.GenDecl) {
	var lastExpr ast.Expr
	lastTyp := ""
	for i, s := range d.Specs {
		vs := s.(*ast.ValueSpec)
		typ := lastTyp
		if vs.Type != nil {
			typ = src(p.fset, vs.Type)
		}
		var ex ast.Expr
		if len(vs.Values) == 1 {
			ex = vs.Values[0]
			if vs.Type == nil {
				typ = ""
			}
		} else if len(vs.Values) == 0 {
			ex = lastExpr
		} else {
			continue
		}
		if ex == nil || len(vs.Names) != 1 {
			continue
		}
		// a conversion T(expr) gives the type
		if ce, ok := ex.(*ast.CallExpr); ok && len(ce.Args) == 1 {
			if id, ok := ce.Fun.(*ast.Ident); ok {
				if _, isNamed := p.named[id.Name]; isNamed || isBasic(id.Name) {
					typ = id.Name
				}
			}
		}
		if v, ok := p.constEval(ex, int64(i)); ok {
			p.consts[vs.Names[0].Name] = constVal{v, typ}
		}
		lastExpr, lastTyp = ex, typ
	}
}

func (p *pkgInfo) constEval(e ast.Expr, iota int64) (int64, bool) {
	switch e := e.(type) {
	case *ast.BasicLit:
		if e.Kind == token.INT {
			v, err := strconv.ParseInt(e.Value, 0, 64)
			return v, err == nil
		}
	case *ast.Ident:
		if e.Name == "iota" {
			return iota, true
		}
		if c, ok := p.consts[e.Name]; ok {
			return c.val, true
		}
	case *ast.ParenExpr:
		return p.constEval(e.X, iota)
	case *ast.SelectorExpr:
		if v, ok := timeConsts[src(p.fset, e)]; ok { // time.Millisecond ... (ext_hotspot.go)
			return v, true
		}
	case *ast.CallExpr:
		if len(e.Args) == 1 {
			return p.constEval(e.Args[0], iota)
		}
	case *ast.UnaryExpr:
		if v, ok := p.constEval(e.X, iota); ok && e.Op == token.SUB {
			return -v, true
		}
	case *ast.BinaryExpr:
		a, ok1 := p.constEval(e.X, iota)
		b, ok2 := p.constEval(e.Y, iota)
		if ok1 && ok2 {
			switch e.Op {
			case token.ADD:
				return a + b, true
			case token.SUB:
				return a - b, true
			case token.MUL:
				return a * b, true
			case token.SHL:
				return a << uint(b), true
			case token.QUO:
				if b != 0 {
					return a / b, true
				}
			}
		}
	}
	return 0, false
}

func isBasic(s string) bool {
	switch s {
	case "uint64", "uint32", "int64", "int32", "int", "float64", "bool", "uint", "uint8", "int8", "uint16", "int16":
		return true
	}
	return false
}

func src(fset *token.FileSet, n ast.Node) string {
	var b bytes.Buffer
	printer.Fprint(&b, fset, n)
	return b.String()
}

// ---------------------------------------------------------------------------------------------
// translation

type untranslatable struct{ why string }

func fail(format string, a ...interface{}) { panic(untranslatable{fmt.Sprintf(format, a...)}) }

type val struct {
	coq string
	typ string // Go basic type, or "untyped-int" / "untyped-float" / "error" / "tuple"
	lit string // for untyped constants: the literal text
}

type rootT struct {
	dir  string
	pkgs map[string]*pkgInfo
}

func (r *rootT) pkg(dir string) *pkgInfo {
	if p, ok := r.pkgs[dir]; ok {
		return p
	}
	p, err := loadPkg(r.dir, dir)
	if err != nil {
		fail("cannot load %s: %v", dir, err)
	}
	r.pkgs[dir] = p
	return p
}

const modPath = "github.com/alibaba/sentinel-golang/"

// importDir: directory (relative to the repository root) of the package imported under `name`
func (p *pkgInfo) importDir(name string) string {
	for _, f := range p.files {
		for _, im := range f.Imports {
			path, _ := strconv.Unquote(im.Path.Value)
			if !strings.HasPrefix(path, modPath) {
				continue
			}
			local := path[strings.LastIndex(path, "/")+1:]
			if im.Name != nil {
				local = im.Name.Name
			}
			if local == name {
				return strings.TrimPrefix(path, modPath)
			}
		}
	}
	return ""
}

type tr struct {
	root      *rootT
	p         *pkgInfo
	t         target
	params    map[string]string // free variables: name -> Go type
	vars      map[string]string // local variables / Go params: Go name -> type ("ptr:Struct" for struct pointers)
	alias     map[string]string // inlined callee's struct parameter / receiver -> the caller's variable it stands for
	results   []string          // named results
	resTypes  []string
	fresh     int
	noTrace   bool          // effects.go: translating an inlined callee (no action trace of its own)
	loop      *loopCtx      // loopbody.go: set for a LoopBody target
	pending   []string      // effects.go: let-bindings to be placed in front of the statement being executed
	markFn    *ast.FuncDecl // ext_chain.go: the function whose loops LoopMarks numbers
	autoMode  bool          // autoinline.go: inline() accepts a callee that is not listed in Inline
	autoDepth int           // autoinline.go: nesting of automatically inlined callees

	// ext_io.go
	dfrs    [][]ast.Stmt                 // bodies of the deferred functions seen so far
	ioSynth map[*ast.ReturnStmt][]string // synthetic returns that end the deferred bodies
}

var coqKeywords = map[string]bool{"end": true, "at": true, "in": true, "as": true, "fun": true, "return": true, "match": true,
	"with": true, "then": true, "else": true, "let": true, "if": true, "forall": true, "exists": true, "fix": true, "Type": true,
	"Set": true, "Prop": true, "using": true, "where": true, "for": true, "cofix": true}

func cname(s string) string {
	if coqKeywords[s] {
		return s + "_"
	}
	return s
}

func (x *tr) resolve(name string) string {
	for i := 0; i < 10; i++ {
		a, ok := x.alias[name]
		if !ok {
			return name
		}
		name = a
	}
	return name
}

func (x *tr) underlying(typ string) string {
	for i := 0; i < 10; i++ {
		if isBasic(typ) {
			return typ
		}
		u, ok := x.p.named[typ]
		if !ok {
			return typ
		}
		typ = src(x.p.fset, u)
	}
	return typ
}

func (x *tr) typeOfExpr(e ast.Expr) string {
	switch e := e.(type) {
	case *ast.Ident:
		return x.underlying(e.Name)
	case *ast.StarExpr:
		return "ptr:" + recvTypeName(e.X)
	case *ast.SelectorExpr:
		return "ext:" + src(x.p.fset, e)
	}
	return "?" + src(x.p.fset, e)
}

func (x *tr) param(name, typ string) val {
	name = cname(name)
	if old, ok := x.params[name]; ok && old != typ {
		fail("parameter %s used at two types %s / %s", name, old, typ)
	}
	x.params[name] = typ
	return val{coq: name, typ: typ}
}

func isInt(t string) bool {
	switch t {
	case "uint64", "uint32", "int64", "int32", "int", "uint", "uint8", "int8", "uint16", "int16":
		return true
	}
	return false
}
func isUnsigned(t string) bool { return strings.HasPrefix(t, "uint") }

func wrap(t, e string) string {
	switch t {
	case "uint64", "uint":
		return "(u64 " + e + ")"
	case "uint32":
		return "(u32 " + e + ")"
	case "int64", "int":
		return "(i64 " + e + ")"
	case "int32":
		return "(i32 " + e + ")"
	}
	fail("no wrap-around function for type %s", t)
	return ""
}

func (x *tr) coerce(v val, typ string) val {
	if v.typ == typ {
		return v
	}
	if v.typ == "untyped-int" {
		if isInt(typ) {
			return val{coq: "(" + v.lit + ")%Z", typ: typ}
		}
		if typ == "float64" {
			return val{coq: "(" + v.lit + ")%float", typ: typ}
		}
	}
	if v.typ == "untyped-float" && typ == "float64" {
		return val{coq: "(" + v.lit + ")%float", typ: typ}
	}
	if v.typ == "untyped-float" && isInt(typ) { // ext_shaping.go: `x - 1.0` with x an integer
		if il, ok := integralFloatLit(v.lit); ok {
			return val{coq: "(" + il + ")%Z", typ: typ}
		}
	}
	fail("cannot use %s (%s) as %s", v.coq, v.typ, typ)
	return v
}

func (x *tr) unify(a, b val) (val, val, string) {
	ua, ub := strings.HasPrefix(a.typ, "untyped"), strings.HasPrefix(b.typ, "untyped")
	switch {
	case ua && ub:
		if a.typ == "untyped-float" || b.typ == "untyped-float" {
			return x.coerce(a, "float64"), x.coerce(b, "float64"), "float64"
		}
		return x.coerce(a, "int"), x.coerce(b, "int"), "int"
	case ua:
		return x.coerce(a, b.typ), b, b.typ
	case ub:
		return a, x.coerce(b, a.typ), a.typ
	}
	if a.typ != b.typ {
		fail("operands of different types: %s : %s and %s : %s", a.coq, a.typ, b.coq, b.typ)
	}
	return a, b, a.typ
}

func (x *tr) expr(e ast.Expr) val {
	s := src(x.p.fset, e)
	if h, ok := x.t.Hints[s]; ok {
		return x.hintParam(s, h)
	}
	switch e := e.(type) {
	case *ast.ParenExpr:
		return x.expr(e.X)
	case *ast.BasicLit:
		switch e.Kind {
		case token.INT:
			v, err := strconv.ParseInt(e.Value, 0, 64)
			if err != nil {
				fail("integer literal %s", e.Value)
			}
			return val{typ: "untyped-int", lit: strconv.FormatInt(v, 10)}
		case token.FLOAT:
			return val{typ: "untyped-float", lit: e.Value}
		}
		fail("literal %s", s)
	case *ast.Ident:
		if e.Name == "true" || e.Name == "false" {
			return val{coq: e.Name, typ: "bool"}
		}
		if t, ok := x.vars[e.Name]; ok {
			if strings.HasPrefix(t, "ptr:") || strings.HasPrefix(t, "struct:") {
				fail("struct value %s used as a value", e.Name)
			}
			return val{coq: cname(e.Name), typ: t}
		}
		if c, ok := x.p.consts[e.Name]; ok {
			if c.typ == "" {
				return val{typ: "untyped-int", lit: strconv.FormatInt(c.val, 10)}
			}
			return val{coq: "(" + strconv.FormatInt(c.val, 10) + ")%Z", typ: x.underlying(c.typ)}
		}
		fail("unknown identifier %s", e.Name)
	case *ast.SelectorExpr:
		// field read through a parameter / receiver
		if id, ok := e.X.(*ast.Ident); ok {
			if t, ok := x.vars[id.Name]; ok && (strings.HasPrefix(t, "ptr:") || strings.HasPrefix(t, "struct:")) {
				sn := t[strings.Index(t, ":")+1:]
				if _, ok := x.p.structs[sn]; ok {
					if ft, ok := x.lookupField(sn, e.Sel.Name); ok {
						ty := x.typeOfExpr(ft)
						if !isBasic(ty) {
							if v, ok := x.ioField(x.resolve(id.Name)+"_"+e.Sel.Name, ty); ok { // ext_io.go
								return v
							}
							fail("field %s.%s has non-scalar type %s (add a hint)", sn, e.Sel.Name, ty)
						}
						return x.param(x.resolve(id.Name)+"_"+e.Sel.Name, ty)
					}
				}
				fail("unknown field %s of %s", e.Sel.Name, sn)
			}
		}
		// constant of another package of this repository
		if id, ok := e.X.(*ast.Ident); ok {
			if dir := x.p.importDir(id.Name); dir != "" {
				q := x.root.pkg(dir)
				if c, ok := q.consts[e.Sel.Name]; ok {
					if c.typ == "" {
						return val{typ: "untyped-int", lit: strconv.FormatInt(c.val, 10)}
					}
					y := &tr{p: q}
					return val{coq: "(" + strconv.FormatInt(c.val, 10) + ")%Z", typ: y.underlying(c.typ)}
				}
			}
		}
		if v, ok := x.selectorExt(s); ok {
			return v
		}
		if v, ok := x.selectorShaping(s); ok { // ext_shaping.go
			return v
		}
		if v, ok := x.refField(e); ok { // ext_chain.go
			return v
		}
		fail("selector %s (add a hint)", s)
	case *ast.UnaryExpr:
		if v, ok := x.addrOf(e); ok { // ext_hotspot.go: &local handed to a recorded action
			return v
		}
		v := x.expr(e.X)
		switch e.Op {
		case token.NOT:
			if v.typ != "bool" {
				fail("! on %s", v.typ)
			}
			return val{coq: "(negb " + v.coq + ")", typ: "bool"}
		case token.SUB:
			if v.typ == "untyped-int" || v.typ == "untyped-float" {
				return val{typ: v.typ, lit: "-" + v.lit}
			}
			if v.typ == "float64" {
				return val{coq: "(PrimFloat.opp " + v.coq + ")", typ: v.typ}
			}
			if isInt(v.typ) {
				return val{coq: wrap(v.typ, "(- "+v.coq+")%Z"), typ: v.typ}
			}
		}
		fail("unary %s", s)
	case *ast.BinaryExpr:
		return x.binary(e)
	case *ast.CallExpr:
		return x.call(e)
	}
	fail("expression %s", s)
	return val{}
}

func (x *tr) binary(e *ast.BinaryExpr) val {
	switch e.Op {
	case token.LAND, token.LOR:
		if x.containsAct(e.Y) {
			fail("right operand of %s performs an action outside an if condition", e.Op)
		}
		a, b := x.expr(e.X), x.expr(e.Y)
		if a.typ != "bool" || b.typ != "bool" {
			fail("boolean operator on non-bool")
		}
		op := "andb"
		if e.Op == token.LOR {
			op = "orb"
		}
		return val{coq: "(" + op + " " + a.coq + " " + b.coq + ")", typ: "bool"}
	}
	if v, ok := x.nilTest(e); ok {
		return v
	}
	if v, ok := x.refNilTest(e); ok { // ext_chain.go
		return v
	}
	if v, ok := x.ioCmp(e); ok { // ext_io.go
		return v
	}
	if v, ok := x.errNilCmp(e); ok { // autoinline.go: err != nil on the result of an inlined helper
		return v
	}
	if v, ok := x.hintVariant(e); ok { // canon.go: an evident variant of a hinted boolean (a != b, b == a, s == "" / len(s) == 0)
		return v
	}
	ra, rb := x.expr(e.X), x.expr(e.Y)
	if ra.typ == "untyped-int" && rb.typ == "untyped-int" {
		va, _ := strconv.ParseInt(ra.lit, 10, 64)
		vb, _ := strconv.ParseInt(rb.lit, 10, 64)
		switch e.Op {
		case token.ADD:
			return val{typ: "untyped-int", lit: strconv.FormatInt(va+vb, 10)}
		case token.SUB:
			return val{typ: "untyped-int", lit: strconv.FormatInt(va-vb, 10)}
		case token.MUL:
			return val{typ: "untyped-int", lit: strconv.FormatInt(va*vb, 10)}
		}
	}
	a, b, t := x.unify(ra, rb)
	switch e.Op {
	case token.ADD, token.SUB, token.MUL, token.QUO, token.REM:
		if t == "float64" {
			op := map[token.Token]string{token.ADD: "add", token.SUB: "sub", token.MUL: "mul", token.QUO: "div"}[e.Op]
			if op == "" {
				fail("float operator %s", e.Op)
			}
			return val{coq: "(PrimFloat." + op + " " + a.coq + " " + b.coq + ")", typ: t}
		}
		if !isInt(t) {
			fail("arithmetic on %s", t)
		}
		switch e.Op {
		case token.ADD:
			return val{coq: wrap(t, "("+a.coq+" + "+b.coq+")%Z"), typ: t}
		case token.SUB:
			return val{coq: wrap(t, "("+a.coq+" - "+b.coq+")%Z"), typ: t}
		case token.MUL:
			return val{coq: wrap(t, "("+a.coq+" * "+b.coq+")%Z"), typ: t}
		case token.QUO:
			if isUnsigned(t) {
				return val{coq: "(" + a.coq + " / " + b.coq + ")%Z", typ: t}
			}
			return val{coq: wrap(t, "(Z.quot "+a.coq+" "+b.coq+")"), typ: t}
		case token.REM:
			if isUnsigned(t) {
				return val{coq: "(" + a.coq + " mod " + b.coq + ")%Z", typ: t}
			}
			return val{coq: "(Z.rem " + a.coq + " " + b.coq + ")", typ: t}
		}
	case token.LSS, token.LEQ, token.GTR, token.GEQ, token.EQL, token.NEQ:
		if t == "float64" {
			var c string
			switch e.Op {
			case token.LSS:
				c = "(PrimFloat.ltb " + a.coq + " " + b.coq + ")"
			case token.LEQ:
				c = "(PrimFloat.leb " + a.coq + " " + b.coq + ")"
			case token.GTR:
				c = "(PrimFloat.ltb " + b.coq + " " + a.coq + ")"
			case token.GEQ:
				c = "(PrimFloat.leb " + b.coq + " " + a.coq + ")"
			case token.EQL:
				c = "(PrimFloat.eqb " + a.coq + " " + b.coq + ")"
			case token.NEQ:
				c = "(negb (PrimFloat.eqb " + a.coq + " " + b.coq + "))"
			}
			return val{coq: c, typ: "bool"}
		}
		if t == "bool" {
			if e.Op == token.EQL {
				return val{coq: "(Bool.eqb " + a.coq + " " + b.coq + ")", typ: "bool"}
			}
			if e.Op == token.NEQ {
				return val{coq: "(negb (Bool.eqb " + a.coq + " " + b.coq + "))", typ: "bool"}
			}
		}
		if !isInt(t) {
			fail("comparison on %s", t)
		}
		var c string
		switch e.Op {
		case token.LSS:
			c = "(" + a.coq + " <? " + b.coq + ")%Z"
		case token.LEQ:
			c = "(" + a.coq + " <=? " + b.coq + ")%Z"
		case token.GTR:
			c = "(" + b.coq + " <? " + a.coq + ")%Z"
		case token.GEQ:
			c = "(" + b.coq + " <=? " + a.coq + ")%Z"
		case token.EQL:
			c = "(" + a.coq + " =? " + b.coq + ")%Z"
		case token.NEQ:
			c = "(negb (" + a.coq + " =? " + b.coq + ")%Z)"
		}
		return val{coq: c, typ: "bool"}
	}
	fail("operator %s", e.Op)
	return val{}
}

func (x *tr) convert(to string, v val) val {
	to = x.underlying(to)
	if strings.HasPrefix(v.typ, "untyped") {
		return x.coerce(v, to)
	}
	from := v.typ
	if from == to {
		return v
	}
	if w, ok := x.convertExt(to, v); ok { // ext_hotspot.go
		return w
	}
	if w, ok := x.convertShaping(to, v); ok { // ext_shaping.go
		return w
	}
	if isInt(from) && isInt(to) {
		// value-preserving widenings
		switch {
		case from == "uint32" && (to == "uint64" || to == "uint" || to == "int64" || to == "int"):
			return val{coq: v.coq, typ: to}
		case from == "int32" && (to == "int64" || to == "int"):
			return val{coq: v.coq, typ: to}
		case (from == "int" && to == "int64") || (from == "int64" && to == "int") || (from == "uint" && to == "uint64") || (from == "uint64" && to == "uint"):
			return val{coq: v.coq, typ: to}
		}
		return val{coq: wrap(to, v.coq), typ: to}
	}
	if isInt(from) && to == "float64" {
		if isUnsigned(from) {
			return val{coq: "(f_of_u64 " + v.coq + ")", typ: to}
		}
		return val{coq: "(f_of_i64 " + v.coq + ")", typ: to}
	}
	if from == "float64" && isInt(to) {
		switch to {
		case "int64", "int":
			return val{coq: "(go_i64_of_f " + v.coq + ")", typ: to}
		case "uint64", "uint":
			return val{coq: "(go_u64_of_f " + v.coq + ")", typ: to}
		case "uint32":
			return val{coq: "(go_u32_of_f " + v.coq + ")", typ: to}
		}
	}
	fail("conversion %s -> %s", from, to)
	return val{}
}

func (x *tr) call(e *ast.CallExpr) val {
	fn := src(x.p.fset, e.Fun)
	// conversion?
	if len(e.Args) == 1 {
		if id, ok := e.Fun.(*ast.Ident); ok {
			if _, named := x.p.named[id.Name]; named || isBasic(id.Name) {
				return x.convert(id.Name, x.expr(e.Args[0]))
			}
		}
	}
	if v, ok := x.actCall(e); ok {
		return v
	}
	if v, ok := x.refCall(e); ok { // ext_chain.go
		return v
	}
	if g, ok := x.t.Calls[fn]; ok {
		callee := x.p.funcs[fn]
		if callee == nil {
			fail("callee %s not found", fn)
		}
		var ptypes []string
		for _, f := range callee.Type.Params.List {
			for range f.Names {
				ptypes = append(ptypes, x.typeOfExpr(f.Type))
			}
		}
		if len(ptypes) != len(e.Args) {
			fail("arity of %s", fn)
		}
		// callee parameters in alphabetical order of their Go names (the generated order)
		var names []string
		for _, f := range callee.Type.Params.List {
			for _, n := range f.Names {
				names = append(names, n.Name)
			}
		}
		type pa struct{ name, coq string }
		var pas []pa
		for i, a := range e.Args {
			v := x.coerce(x.expr(a), ptypes[i])
			pas = append(pas, pa{cname(names[i]), v.coq})
		}
		sort.Slice(pas, func(i, j int) bool { return pas[i].name < pas[j].name })
		out := "(" + g
		for _, p := range pas {
			out += " " + p.coq
		}
		out += ")"
		rt := x.typeOfExpr(callee.Type.Results.List[0].Type)
		return val{coq: out, typ: rt}
	}
	if v, ok := x.inline(e); ok {
		return v
	}
	switch fn {
	case "math.Abs":
		v := x.coerce(x.expr(e.Args[0]), "float64")
		return val{coq: "(PrimFloat.abs " + v.coq + ")", typ: "float64"}
	case "util.Float64Equals":
		if len(e.Args) == 2 {
			a := x.coerce(x.expr(e.Args[0]), "float64")
			b := x.coerce(x.expr(e.Args[1]), "float64")
			return val{coq: "(float64_equals " + a.coq + " " + b.coq + ")", typ: "bool"}
		}
	case "math.IsNaN":
		v := x.coerce(x.expr(e.Args[0]), "float64")
		return val{coq: "(negb (PrimFloat.eqb " + v.coq + " " + v.coq + "))", typ: "bool"}
	}
	if v, ok := x.callExt(fn, e); ok {
		return v
	}
	if v, ok := x.callShaping(fn, e); ok { // ext_shaping.go
		return v
	}
	if v, ok := x.lenSlice(fn, e); ok { // ext_chain.go
		return v
	}
	if v, ok := x.ioCall(fn, e); ok { // ext_io.go
		return v
	}
	if v, ok := x.autoInline(e); ok { // autoinline.go: last resort, a same-package helper
		return v
	}
	fail("call %s (add a hint)", src(x.p.fset, e))
	return val{}
}

// ---- statements (symbolic execution with the continuation duplicated into branches) ----

func (x *tr) zero(t string) string {
	switch {
	case isInt(t):
		return "0%Z"
	case t == "float64":
		return "0%float"
	case t == "bool":
		return "false"
	case t == "error", t == "iface":
		return "0%Z"
	case t == "tokres":
		return "(0%Z, 0%Z)"
	}
	fail("zero value of %s", t)
	return ""
}

func (x *tr) retTuple(vs []string) string {
	if len(vs) == 1 {
		return vs[0]
	}
	return "(" + strings.Join(vs, ", ") + ")"
}

func (x *tr) errVal(e ast.Expr) string {
	if v, ok := x.ioErrVal(e); ok { // ext_io.go
		return v
	}
	s := src(x.p.fset, e)
	if s == "nil" {
		return "0%Z"
	}
	if c, ok := x.t.Errs[s]; ok {
		return fmt.Sprintf("%d%%Z", c)
	}
	if ce, ok := e.(*ast.CallExpr); ok {
		fn := src(x.p.fset, ce.Fun)
		switch fn {
		case "errors.New", "errors.Errorf", "fmt.Errorf", "errors.Wrap", "errors.Wrapf",
			"base.NewTokenResultBlocked", "base.NewTokenResultBlockedWithMessage", "base.NewTokenResultBlockedWithCause":
			return "1%Z" // freshly constructed, never nil
		}
		if v, ok := x.inlineAny(ce); ok { // autoinline.go: Inline-listed, or as a last resort any same-package helper
			if v.typ != "error" {
				fail("inlined %s does not return an error", fn)
			}
			return v.coq
		}
	}
	if v, ok := x.errVarVal(e); ok { // autoinline.go
		return v
	}
	fail("error value %s is neither nil, a listed error variable, a freshly constructed error nor an inlined call", s)
	return ""
}

// inline a same-package call f(a, b) or method call v.m(a, b) listed in the target's Inline table.
// Struct-pointer arguments must be variables: the callee's parameter becomes an alias of the caller's
// variable (fields keep the caller's parameter names); scalar arguments are let-bound.
func (x *tr) inline(ce *ast.CallExpr) (val, bool) {
	var name string
	var recvArg ast.Expr
	switch f := ce.Fun.(type) {
	case *ast.Ident:
		name = f.Name
	case *ast.SelectorExpr:
		id, ok := f.X.(*ast.Ident)
		if !ok {
			return val{}, false
		}
		t, ok := x.vars[id.Name]
		if !ok || !(strings.HasPrefix(t, "ptr:") || strings.HasPrefix(t, "struct:")) {
			return val{}, false
		}
		name = t[strings.Index(t, ":")+1:] + "." + f.Sel.Name
		recvArg = id
	default:
		return val{}, false
	}
	callee := x.p.funcs[name]
	if callee == nil && recvArg != nil {
		name, callee = x.p.promotedMethod(name) // method of an embedded struct (effects.go)
	}
	allowed := false
	for _, n := range x.t.Inline {
		if n == name {
			allowed = true
		}
	}
	if !(allowed || x.autoMode) || callee == nil || callee.Body == nil {
		return val{}, false
	}
	y := &tr{root: x.root, p: x.p, t: x.t, params: x.params, vars: map[string]string{}, alias: map[string]string{}, noTrace: true}
	if !allowed {
		y.autoDepth = x.autoDepth + 1 // autoinline.go
	}
	x.autoMode = false
	pre := ""
	bind := func(pname string, ptype ast.Expr, arg ast.Expr) {
		pt := y.typeOfExpr(ptype)
		if pt == "string" || src(x.p.fset, ptype) == "string" { // autoinline.go: message text handed to a helper: not part of the decision
			y.vars[pname] = "string"
			return
		}
		if _, isStruct := x.p.structs[pt]; isStruct {
			pt = "struct:" + pt
		}
		if strings.HasPrefix(pt, "ptr:") || strings.HasPrefix(pt, "struct:") {
			a, ok := arg.(*ast.Ident)
			if !ok {
				fail("inlined call %s: struct argument must be a variable", name)
			}
			if _, ok := x.vars[a.Name]; !ok {
				fail("inlined call %s: unknown variable %s", name, a.Name)
			}
			y.vars[pname] = pt
			y.alias[pname] = x.resolve(a.Name)
			return
		}
		av := x.expr(arg)
		if av.typ == "iface" { // autoinline.go: an abstract value id handed on to a helper
			y.vars[pname] = "iface"
			pre += "let " + cname(pname) + " := " + av.coq + " in "
			return
		}
		v := x.coerce(av, pt)
		y.vars[pname] = pt
		pre += "let " + cname(pname) + " := " + v.coq + " in "
	}
	if callee.Recv != nil {
		if recvArg == nil {
			return val{}, false
		}
		for _, f := range callee.Recv.List {
			for _, n := range f.Names {
				bind(n.Name, f.Type, recvArg)
			}
		}
	}
	i := 0
	for _, f := range callee.Type.Params.List {
		for _, n := range f.Names {
			if i >= len(ce.Args) {
				fail("arity of %s", name)
			}
			if n.Name != "_" {
				bind(n.Name, f.Type, ce.Args[i])
			}
			i++
		}
	}
	if callee.Type.Results == nil || len(callee.Type.Results.List) != 1 || len(callee.Type.Results.List[0].Names) != 0 {
		fail("inlined call %s: exactly one unnamed result expected", name)
	}
	rt := y.typeOfExpr(callee.Type.Results.List[0].Type)
	if src(x.p.fset, callee.Type.Results.List[0].Type) == "error" {
		rt = "error"
	}
	if x.isTokres(callee.Type.Results.List[0].Type) {
		rt = "tokres"
	}
	y.resTypes = []string{rt}
	return val{coq: "(" + pre + y.exec(callee.Body.List, nil) + ")", typ: rt}, true
}

func isEffectCall(s string) bool {
	for _, p := range []string{"vhook.Yield(", "logging.", "logger.", "runtime.Gosched("} {
		if strings.HasPrefix(s, p) {
			return true
		}
	}
	return false
}

// exec returns the Gallina term computing the function's result when `stmts` followed by the
// continuation stack `rest` is executed.
func (x *tr) exec1(stmts []ast.Stmt, rest [][]ast.Stmt) string { // called through exec (effects.go)
	if len(stmts) == 0 {
		if len(rest) == 0 {
			if x.loop != nil { // end of the loop body (loopbody.go)
				return x.loopContinue()
			}
			// fell off the end: only legal for functions with named results or none
			if len(x.results) > 0 {
				var vs []string
				for _, r := range x.results {
					vs = append(vs, cname(r))
				}
				return x.retTuple(x.withTrace(x.loopRet(vs)))
			}
			if x.hasActs() && len(x.resTypes) == 0 {
				return x.retTuple(x.withTrace(x.loopRet(nil)))
			}
			fail("function falls off its end")
		}
		return x.exec(rest[len(rest)-1], rest[:len(rest)-1])
	}
	s, tail := stmts[0], stmts[1:]
	push := func() [][]ast.Stmt { // continuation = tail then rest
		r := append([][]ast.Stmt{}, rest...)
		return append(r, tail)
	}
	if out, ok := x.ioStmt(s, tail, rest); ok { // ext_io.go
		return out
	}
	switch s := s.(type) {
	case *ast.ReturnStmt:
		if vs, ok := x.returnFields(s); ok { // ext_shaping.go: constructor targets
			return x.retTuple(x.withTrace(x.loopRet(vs)))
		}
		if len(s.Results) == 0 {
			var vs []string
			for i, r := range x.results {
				if x.resTypes[i] != "string" {
					vs = append(vs, cname(r))
				}
			}
			return x.retTuple(x.withTrace(x.loopRet(vs)))
		}
		if len(s.Results) != len(x.resTypes) {
			if out, ok := x.autoInlineReturn(s); ok { // autoinline.go: return f(args) with f yielding every result
				return out
			}
			fail("return arity")
		}
		var vs []string
		for i, r := range s.Results {
			if x.resTypes[i] == "string" {
				continue
			}
			if x.resTypes[i] == "error" {
				vs = append(vs, x.errVal(r))
			} else if x.resTypes[i] == "tokres" {
				vs = append(vs, x.tokresVal(r))
			} else if x.resTypes[i] == "iface" {
				vs = append(vs, x.refVal(r)) // ext_chain.go
			} else {
				vs = append(vs, x.coerce(x.expr(r), x.resTypes[i]).coq)
			}
		}
		return x.retTuple(x.withTrace(x.loopRet(vs)))
	case *ast.ExprStmt:
		if isEffectCall(src(x.p.fset, s.X)) || x.isTargetEffect(src(x.p.fset, s.X)) {
			return x.exec(tail, rest)
		}
		if ce, ok := s.X.(*ast.CallExpr); ok {
			if _, ok := x.actCall(ce); ok { // recorded in the action trace (effects.go)
				return x.exec(tail, rest)
			}
			if out, ok := x.autoInlineStmt(ce, tail, rest); ok { // autoinline.go: a same-package helper called for effect
				return out
			}
		}
		fail("statement %s", src(x.p.fset, s))
	case *ast.IncDecStmt:
		return x.exec(append([]ast.Stmt{desugarIncDec(s)}, tail...), rest)
	case *ast.BranchStmt:
		return x.loopBranch(s) // continue / break of a LoopBody target (loopbody.go)
	case *ast.AssignStmt:
		if out, ok := x.commaOk(s, tail, rest); ok {
			return out
		}
		if d, ok := desugarOpAssign(s); ok { // ext_isostat.go
			return x.exec(append([]ast.Stmt{d}, tail...), rest)
		}
		if x.appendAct(s) || x.ptrHint(s) || x.ptrActAssign(s) || x.newObject(s) { // ext_isostat.go
			return x.exec(tail, rest)
		}
		if x.storeAct(s) || x.sliceHint(s) { // ext_chain.go
			return x.exec(tail, rest)
		}
		if x.opaqueMulti(s) { // effects.go
			return x.exec(tail, rest)
		}
		if x.actOpaque(s) { // ext_hotspot.go: p := recorded call returning a pointer
			return x.exec(tail, rest)
		}
		if len(s.Lhs) != 1 || len(s.Rhs) != 1 {
			if out, ok := x.autoInlineAssign(s, tail, rest); ok { // autoinline.go: a, b := f(args) with f a same-package helper
				return out
			}
			fail("multi-assignment %s", src(x.p.fset, s))
		}
		id, ok := s.Lhs[0].(*ast.Ident)
		if !ok {
			fail("assignment to %s", src(x.p.fset, s.Lhs[0]))
		}
		if t, ok := x.vars[id.Name]; ok && t == "string" && s.Tok == token.ASSIGN {
			return x.exec(tail, rest) // message text: not part of the decision
		}
		if x.assignPointer(s) { // ext_shaping.go: the object is not part of the decision
			return x.exec(tail, rest)
		}
		if out, ok := x.defineComposite(s, tail, rest); ok { // ext_shaping.go: constructor targets
			return out
		}
		if h, ok := x.t.Hints[src(x.p.fset, s.Rhs[0])]; ok && h.Typ == "opaque" && s.Tok == token.DEFINE {
			x.vars[id.Name] = "ptr:?" // an object used only through further hints
			return x.exec(tail, rest)
		}
		if bl, ok := s.Rhs[0].(*ast.BasicLit); ok && bl.Kind == token.STRING && s.Tok == token.DEFINE {
			x.vars[id.Name] = "string"
			return x.exec(tail, rest)
		}
		if x.isMessageExpr(s.Rhs[0]) && s.Tok == token.DEFINE {
			x.vars[id.Name] = "string"
			return x.exec(tail, rest)
		}
		var v val
		switch s.Tok {
		case token.DEFINE:
			v = x.expr(s.Rhs[0])
			if v.typ == "untyped-int" {
				v = x.coerce(v, "int")
			} else if v.typ == "untyped-float" {
				v = x.coerce(v, "float64")
			}
		case token.ASSIGN:
			t, ok := x.vars[id.Name]
			if !ok {
				fail("assignment to unknown variable %s", id.Name)
			}
			v = x.coerce(x.expr(s.Rhs[0]), t)
		default:
			fail("assignment operator %s", s.Tok)
		}
		old, had := x.vars[id.Name]
		x.vars[id.Name] = v.typ
		body := x.exec(tail, rest)
		if had {
			x.vars[id.Name] = old
		} else if s.Tok == token.DEFINE {
			delete(x.vars, id.Name)
		}
		return "let " + cname(id.Name) + " := " + v.coq + " in\n  " + body
	case *ast.DeclStmt:
		gd, ok := s.Decl.(*ast.GenDecl)
		if !ok || gd.Tok != token.VAR || len(gd.Specs) != 1 {
			fail("declaration %s", src(x.p.fset, s))
		}
		vs := gd.Specs[0].(*ast.ValueSpec)
		if len(vs.Names) != 1 || len(vs.Values) > 1 {
			fail("declaration %s", src(x.p.fset, s))
		}
		if vs.Type != nil && src(x.p.fset, vs.Type) == "string" {
			x.vars[vs.Names[0].Name] = "string"
			return x.exec(tail, rest)
		}
		if x.declRef(vs) { // ext_chain.go: a reference starts as nil
			x.vars[vs.Names[0].Name] = "iface"
			return "let " + cname(vs.Names[0].Name) + " := 0%Z in\n  " + x.exec(tail, rest)
		}
		if len(vs.Values) == 1 && x.structLitDecl(vs.Names[0].Name, vs.Values[0]) { // ext_chain.go
			return x.exec(tail, rest)
		}
		if x.declPointer(vs) { // ext_shaping.go
			return x.exec(tail, rest)
		}
		var v val
		if len(vs.Values) == 1 {
			v = x.expr(vs.Values[0])
			if vs.Type != nil {
				v = x.coerce(v, x.typeOfExpr(vs.Type))
			}
		} else {
			t := x.typeOfExpr(vs.Type)
			v = val{coq: x.zero(t), typ: t}
		}
		x.vars[vs.Names[0].Name] = v.typ
		return "let " + cname(vs.Names[0].Name) + " := " + v.coq + " in\n  " + x.exec(tail, rest)
	case *ast.BlockStmt:
		return x.exec(s.List, push())
	case *ast.IfStmt:
		if s.Init != nil {
			// if init; cond {..}: the init's scope covers the if only; variables it defines are not
			// referenced by the continuation, so executing it first is equivalent
			ifs := *s
			ifs.Init = nil
			return x.exec(append([]ast.Stmt{s.Init, &ifs}, tail...), rest)
		}
		if d, ok := x.desugarCond(s); ok { // short-circuit order when the right operand performs an action (effects.go)
			return x.exec(append([]ast.Stmt{d}, tail...), rest)
		}
		c := x.expr(s.Cond)
		if c.typ != "bool" {
			fail("condition %s is not bool", src(x.p.fset, s.Cond))
		}
		saved := x.snapshot()
		thenT := x.exec(s.Body.List, push())
		x.restore(saved)
		var elseT string
		if s.Else != nil {
			elseT = x.exec([]ast.Stmt{s.Else}, push())
		} else {
			elseT = x.exec(tail, rest)
		}
		x.restore(saved)
		return "if " + c.coq + "\n  then (" + thenT + ")\n  else (" + elseT + ")"
	case *ast.SwitchStmt:
		if s.Init != nil {
			fail("switch with init")
		}
		var tag *val
		if s.Tag != nil {
			v := x.expr(s.Tag)
			tag = &v
		}
		var deflt []ast.Stmt
		hasDefault := false
		type arm struct {
			cond string
			body []ast.Stmt
		}
		var arms []arm
		for _, cc := range s.Body.List {
			cl := cc.(*ast.CaseClause)
			for _, st := range cl.Body {
				if br, ok := st.(*ast.BranchStmt); ok && br.Tok == token.FALLTHROUGH {
					fail("fallthrough")
				}
			}
			if cl.List == nil {
				hasDefault = true
				deflt = cl.Body
				continue
			}
			var conds []string
			for _, ce := range cl.List {
				if tag != nil {
					a, b, t := x.unify(*tag, x.expr(ce))
					if !isInt(t) {
						fail("switch tag of type %s", t)
					}
					conds = append(conds, "("+a.coq+" =? "+b.coq+")%Z")
				} else {
					c := x.expr(ce)
					if c.typ != "bool" {
						fail("case %s is not bool", src(x.p.fset, ce))
					}
					conds = append(conds, c.coq)
				}
			}
			cond := conds[0]
			for _, c2 := range conds[1:] {
				cond = "(orb " + cond + " " + c2 + ")"
			}
			arms = append(arms, arm{cond, cl.Body})
		}
		saved := x.snapshot()
		var out string
		if hasDefault {
			out = x.exec(stripBreak(deflt), push())
		} else {
			out = x.exec(tail, rest)
		}
		x.restore(saved)
		for i := len(arms) - 1; i >= 0; i-- {
			b := x.exec(stripBreak(arms[i].body), push())
			x.restore(saved)
			out = "if " + arms[i].cond + "\n  then (" + b + ")\n  else (" + out + ")"
		}
		return out
	case *ast.EmptyStmt:
		return x.exec(tail, rest)
	case *ast.DeferStmt:
		if x.deferAct(s) { // ext_chain.go
			return x.exec(tail, rest)
		}
	case *ast.RangeStmt:
		if k := x.markedLoop(s); k > 0 {
			return x.markLoop(k, s, tail, rest) // ext_chain.go
		}
		if x.isFrameLoop(s) {
			return x.frameLoop(s, s.Body, nil, tail, rest) // ext_isostat.go
		}
		if x.loop.is(s) {
			return x.loopEnter(s) // the loop of a LoopBody target (loopbody.go)
		}
		return x.execLoop(s, tail, rest) // effects.go
	case *ast.ForStmt:
		if k := x.markedLoop(s); k > 0 {
			return x.markLoop(k, s, tail, rest) // ext_chain.go
		}
		if x.isFrameLoop(s) {
			return x.frameLoop(s, s.Body, s, tail, rest) // ext_isostat.go
		}
		if x.loop.is(s) {
			return x.loopEnter(s) // the loop of a LoopBody target (loopbody.go)
		}
	}
	fail("statement %s", src(x.p.fset, s))
	return ""
}

func stripBreak(b []ast.Stmt) []ast.Stmt {
	if n := len(b); n > 0 {
		if br, ok := b[n-1].(*ast.BranchStmt); ok && br.Tok == token.BREAK && br.Label == nil {
			return b[:n-1]
		}
	}
	return b
}

func (x *tr) snapshot() map[string]string {
	m := map[string]string{}
	for k, v := range x.vars {
		m[k] = v
	}
	return m
}
func (x *tr) restore(m map[string]string) {
	x.vars = map[string]string{}
	for k, v := range m {
		x.vars[k] = v
	}
}

type outFn struct {
	Name    string      `json:"name"`
	Go      string      `json:"go"`
	Params  [][2]string `json:"params"`
	Results []string    `json:"results"`
	Error   string      `json:"error,omitempty"`
}

func coqType(t string) string {
	switch {
	case isInt(t), t == "error", t == "iface":
		return "Z"
	case t == "float64":
		return "float"
	case t == "bool":
		return "bool"
	case t == "tokres":
		return "(Z * Z)"
	case strings.HasPrefix(t, "fn:"):
		return fnCoqType(t) // ext_isostat.go
	case strings.HasPrefix(t, "fnz:"):
		return fnzCoqType(t) // ext_chain.go
	}
	return "?"
}

func translate(root *rootT, t target) (def string, info outFn) {
	info = outFn{Name: t.Name, Go: t.Dir + ":" + t.Func}
	defer func() {
		if r := recover(); r != nil {
			u, ok := r.(untranslatable)
			if !ok {
				panic(r)
			}
			info.Error = u.why
			def = fmt.Sprintf("(* %s:%s is UNTRANSLATABLE: %s *)\nDefinition %s_UNTRANSLATABLE : unit := tt.\n", t.Dir, t.Func, strings.ReplaceAll(strings.ReplaceAll(u.why, "*)", "* )"), "(*", "( *"), t.Name)
		}
	}()
	p := root.pkg(t.Dir)
	fd := p.funcs[t.Func]
	if fd == nil || fd.Body == nil {
		fail("function not found")
	}
	if canonPass { // canon.go: the retry of a target that did not translate, variables renamed to the names the tables use
		if c := canonClone(p, t, fd); c != nil {
			fd = c
		} else {
			fail("no canonical renaming")
		}
	}
	x := &tr{root: root, p: p, t: t, params: map[string]string{}, vars: map[string]string{}, alias: map[string]string{}}
	ioAddrAssigned = t.IO // ext_io.go
	addVar := func(name string, te ast.Expr) {
		if name == "_" {
			return
		}
		ty := x.typeOfExpr(te)
		if strings.HasPrefix(ty, "ptr:") {
			x.vars[name] = ty
			return
		}
		if _, isStruct := p.structs[ty]; isStruct {
			x.vars[name] = "struct:" + ty
			return
		}
		if isBasic(ty) {
			x.vars[name] = ty
			x.params[cname(name)] = ty
			return
		}
		if _, ok := te.(*ast.InterfaceType); ok && len(t.Acts) > 0 {
			x.vars[name] = "iface" // an abstract value id (effects.go)
			x.params[cname(name)] = "iface"
			return
		}
		x.vars[name] = "ptr:?" // opaque: only usable through hints
	}
	if fd.Recv != nil {
		for _, f := range fd.Recv.List {
			for _, n := range f.Names {
				addVar(n.Name, f.Type)
			}
		}
	}
	for _, f := range fd.Type.Params.List {
		for _, n := range f.Names {
			addVar(n.Name, f.Type)
		}
	}
	if t.Lit > 0 { // the target is the t.Lit-th function literal inside the function (effects.go)
		fd = litDecl(fd, t.Lit, addVar)
	}
	x.markFn = fd
	for n, ty := range t.AlwaysParams { // ext_chain.go: a signature that does not depend on optional guards
		x.params[cname(n)] = ty
	}
	var before []ast.Stmt
	if t.LoopBody > 0 && t.LoopAny {
		x.loop, before = findLoopAny(fd.Body, x.canonLoopIndex(fd, t.LoopBody, true)) // ext_chain.go; loopcanon.go
	} else if t.LoopBody > 0 {
		x.loop = findLoop(fd.Body, x.canonLoopIndex(fd, t.LoopBody, false)) // loopbody.go; loopcanon.go
	}
	if fd.Type.Results == nil && len(t.Acts) == 0 && x.loop == nil {
		fail("no results")
	}
	var pre string
	var resList []*ast.Field
	if fd.Type.Results != nil {
		resList = fd.Type.Results.List
	}
	for _, f := range resList {
		ty := x.typeOfExpr(f.Type)
		if st := src(p.fset, f.Type); st == "error" || st == "*base.TokenResult" || x.isNilRes(st) {
			ty = "error" // 0 = nil, non-zero = a non-nil value
		}
		if x.isTokres(f.Type) {
			ty = "tokres" // (tag, value): see ext_hotspot.go
		}
		if x.isRefType(f.Type) {
			ty = "iface" // an object reference: see ext_chain.go
		}
		if x.isAppendOnly(f) {
			ty = "string" // ext_isostat.go: a slice that only receives recorded appends; dropped from the result tuple
		}
		if len(f.Names) == 0 {
			x.resTypes = append(x.resTypes, ty)
		}
		for _, n := range f.Names {
			x.resTypes = append(x.resTypes, ty)
			x.results = append(x.results, n.Name)
			x.vars[n.Name] = ty
			if ty != "string" {
				pre += "let " + cname(n.Name) + " := " + x.zero(ty) + " in\n  "
			}
		}
	}
	if len(t.Fields) > 0 { // ext_shaping.go: a constructor's results are the listed fields of the struct it builds
		x.resTypes, x.results, pre = x.fieldResTypes(fd), nil, ""
	}
	for _, ty := range x.resTypes {
		if ty == "string" {
			continue // message strings are not part of the decision: dropped from the result tuple
		}
		if coqType(ty) == "?" {
			fail("result type %s", ty)
		}
		info.Results = append(info.Results, ty)
	}
	// drop scalar Go parameters that the body never reads? No: keep them, the signature is part of
	// the obligation.
	var body string
	if t.LoopAny && x.loop != nil {
		body = pre + x.stepOnly(before) // ext_chain.go
	} else {
		body = pre + x.exec(fd.Body.List, nil)
	}
	var names []string
	for n := range x.params {
		names = append(names, n)
	}
	sort.Strings(names)
	var sig string
	for _, n := range names {
		sig += fmt.Sprintf(" (%s : %s)", n, coqType(x.params[n]))
		info.Params = append(info.Params, [2]string{n, x.params[n]})
	}
	var rts []string
	for _, ty := range x.resTypes {
		if ty != "string" {
			rts = append(rts, coqType(ty))
		}
	}
	if x.loop != nil {
		rts = []string{x.loopType(strings.Join(rts, " * "))} // loopbody.go
		info.Results = []string{"leaf_flow"}
	}
	if len(t.Acts) > 0 {
		rts = append(rts, "list leaf_act") // the action trace (effects.go)
		info.Results = append(info.Results, "actions")
	}
	rt := strings.Join(rts, " * ")
	if t.Shape != "" && rt != t.Shape { // ext_io.go
		fail("the definition has the shape %s, the obligations are stated for %s", rt, t.Shape)
	}
	def = fmt.Sprintf("(* %s : %s   parameters: %v *)\nDefinition %s%s : %s :=\n  %s.\n", t.Dir, t.Func, info.Params, t.Name, sig, rt, body)
	return
}

func main() {
	repo := flag.String("repo", "/repo", "repository root")
	out := flag.String("out", "Leaf_gen.v", "output .v file")
	jout := flag.String("json-out", "", "output json description")
	wlc := flag.String("write-loopcanon", "", "loopcanon.go: record the virtual loop numbers of the LoopBody targets on this (pinned) tree and exit")
	flag.Parse()
	var b strings.Builder
	b.WriteString("(* GENERATED by translator/leaf from " + *repo + " - do not edit *)\n")
	b.WriteString("From Coq Require Import ZArith Bool Floats.\nFrom SG Require Import Base.Prelude Base.GoInt Base.GoFloat.\n\n")
	b.WriteString(effectsPreamble)
	b.WriteString(loopPreamble)
	b.WriteString(shapingPreamble)
	b.WriteString(hotspotPreamble)
	root := &rootT{dir: *repo, pkgs: map[string]*pkgInfo{}}
	if *wlc != "" {
		if err := writeLoopCanon(root, *wlc); err != nil {
			fmt.Fprintln(os.Stderr, err)
			os.Exit(2)
		}
		return
	}
	var infos []outFn
	for _, t := range targets {
		def, info := translate(root, t)
		if info.Error != "" && round3c { // canon.go: retry with the variables renamed to the names the tables use
			canonPass = true
			if d2, i2 := translate(root, t); i2.Error == "" {
				def, info = d2, i2
			} else if os.Getenv("LEAF_DEBUG") != "" {
				fmt.Fprintf(os.Stderr, "leaf: %s retry with canonical names: %s\n", t.Name, i2.Error)
			}
			canonPass = false
		}
		b.WriteString(def + "\n")
		infos = append(infos, info)
		if info.Error != "" {
			fmt.Fprintf(os.Stderr, "leaf: %s:%s untranslatable: %s\n", t.Dir, t.Func, info.Error)
		}
	}
	b.WriteString(paramsModule(infos)) // ext_isostat.go: the parameter NAMES of every definition, for obligations that pin them
	b.WriteString(ioFieldsModule())    // ext_io.go: the StoreFields lists
	if err := os.WriteFile(*out, []byte(b.String()), 0o644); err != nil {
		fmt.Fprintln(os.Stderr, err)
		os.Exit(2)
	}
	if *jout != "" {
		j, _ := json.MarshalIndent(infos, "", " ")
		os.WriteFile(*jout, j, 0o644)
	}
	fmt.Printf("leaf: %d functions translated to %s\n", len(infos), *out)
}
