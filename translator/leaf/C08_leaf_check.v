(* C08 leaf obligations: the Gallina regenerated from the Go source of the leaf functions of
   core/stat/base and core/base (Gen.Leaf_gen, written by translator/leaf on every run) computes
   the same function as the hand-written model the C08 theorems are about - for ALL inputs in the
   Go types' ranges, not on samples. *)
From Coq Require Import ZArith Bool Lia.
From SG Require Import Base.Prelude Base.GoInt Model.LeapArray.
From Gen Require Import Leaf_gen.
#[local] Open Scope Z_scope.
Transparent two32 two63 two64 two31.

Lemma in_u64_bounds x : in_u64 x -> 0 <= x < 18446744073709551616.
Proof. unfold in_u64, two64. auto. Qed.

(* calculateStartTime(now uint64, bucketLengthInMs uint32) *)
Lemma calculateStartTime_ok bl now : in_u64 now -> 0 < bl ->
  calculateStartTime bl now = bstart bl now.
Proof.
  intros Hn Hb. unfold calculateStartTime, bstart. apply u64_id.
  pose proof (in_u64_bounds _ Hn). unfold in_u64, two64.
  pose proof (Z.mod_pos_bound now bl Hb). pose proof (Z.mod_le now bl ltac:(lia) Hb). lia.
Qed.

(* (la *LeapArray) calculateTimeIdx(now uint64) int, la.array.length = n *)
Lemma calculateTimeIdx_ok n bl now : 0 <= now < two63 -> 0 < bl -> 0 < n ->
  calculateTimeIdx n bl now = tidx n bl now.
Proof.
  intros Hn Hb Hl. unfold calculateTimeIdx, tidx.
  assert (Hq : 0 <= now / bl <= now).
  { split; [apply Z.div_pos; lia|]. apply Z.div_le_upper_bound; nia. }
  rewrite i64_id by (unfold in_i64, two63 in *; lia).
  apply Z.rem_mod_nonneg; lia.
Qed.

(* (la *LeapArray) isBucketDeprecated(now, ww): la.intervalInMs = n * bl *)
Lemma isBucketDeprecated_ok n bl now ws :
  isBucketDeprecated (n * bl) now ws = g_deprecated n bl now ws.
Proof. reflexivity. Qed.

(* (m *SlidingWindowMetric) getBucketStartRange(timeMs) *)
Lemma getBucketStartRange_ok vitv bl t : in_u64 t -> 0 < bl -> in_u32 vitv ->
  getBucketStartRange vitv bl t = v_range bl vitv t.
Proof.
  intros Ht Hb Hv. unfold getBucketStartRange, v_range.
  rewrite (calculateStartTime_ok bl t Ht Hb). cbv zeta.
  destruct (vitv <? u64 (bstart bl t + bl)) eqn:E; [|reflexivity].
  f_equal. apply u64_id. pose proof (u64_range (bstart bl t + bl)) as Hr.
  unfold in_u64, in_u32, two64, two32 in *. apply Z.ltb_lt in E. lia.
Qed.

(* CheckValidityForReuseStatistic: nil exactly when the model's check_reuse holds *)
Lemma checkValidityForReuseStatistic_ok vn vitv pn pitv :
  (checkValidityForReuseStatistic vitv pitv pn vn =? 0) = check_reuse vn vitv pn pitv.
Proof.
  unfold checkValidityForReuseStatistic, check_reuse.
  destruct (vitv =? 0); [reflexivity|]; destruct (vn =? 0); [reflexivity|];
  destruct (vitv mod vn =? 0); [|reflexivity]; cbn [orb negb andb];
  destruct (pitv =? 0); [reflexivity|]; destruct (pn =? 0); [reflexivity|];
  destruct (pitv mod pn =? 0); [|reflexivity]; cbn [orb negb andb];
  destruct (pitv mod vitv =? 0); [|reflexivity]; cbn [orb negb andb];
  destruct ((vitv / vn) mod (pitv / pn) =? 0); reflexivity.
Qed.

(* which error: GlobalStatisticNonReusableError (code 3) exactly when both parameter pairs are
   well-formed but the view does not tile *)
Lemma checkValidityForReuseStatistic_code vn vitv pn pitv :
  checkValidityForReuseStatistic vitv pitv pn vn = 3 <->
  ((vitv =? 0) || (vn =? 0) || negb (vitv mod vn =? 0) = false) /\
  ((pitv =? 0) || (pn =? 0) || negb (pitv mod pn =? 0) = false) /\
  (negb (pitv mod vitv =? 0) || negb ((vitv / vn) mod (pitv / pn) =? 0) = true).
Proof.
  unfold checkValidityForReuseStatistic.
  destruct (vitv =? 0); destruct (vn =? 0); destruct (vitv mod vn =? 0);
  destruct (pitv =? 0); destruct (pn =? 0); destruct (pitv mod pn =? 0);
  destruct (pitv mod vitv =? 0); destruct ((vitv / vn) mod (pitv / pn) =? 0);
  cbn; intuition (try discriminate; try lia).
Qed.

Print Assumptions calculateStartTime_ok.
Print Assumptions calculateTimeIdx_ok.
Print Assumptions isBucketDeprecated_ok.
Print Assumptions getBucketStartRange_ok.
Print Assumptions checkValidityForReuseStatistic_ok.
