(* C08 leaf obligations: the Gallina regenerated from the Go source of the leaf functions of
   core/stat/base and core/base (Gen.Leaf_gen, written by translator/leaf on every run) computes
   the same function as the hand-written model the C08 theorems are about - for ALL inputs in the
   Go types' ranges, not on samples. *)
From Coq Require Import ZArith Bool Lia Floats.
From SG Require Import Base.Prelude Base.GoInt Base.GoFloat Model.LeapArray Model.StatNode.
From Gen Require Import Leaf_gen.
#[local] Open Scope Z_scope.
Transparent two32 two63 two64 two31.

Lemma in_u64_bounds x : in_u64 x -> 0 <= x < 18446744073709551616.
Proof. unfold in_u64, two64. auto. Qed.

(* calculateStartTime(now uint64, bucketLengthInMs uint32) *)
Lemma calculateStartTime_ok bl now : in_u64 now -> 0 < bl ->
  calculateStartTime bl now = bstart bl now.
Proof.
  intros Hn Hb. unfold calculateStartTime, bstart. apply u64_id.
  pose proof (in_u64_bounds _ Hn). unfold in_u64, two64.
  pose proof (Z.mod_pos_bound now bl Hb). pose proof (Z.mod_le now bl ltac:(lia) Hb). lia.
Qed.

(* (la *LeapArray) calculateTimeIdx(now uint64) int, la.array.length = n *)
Lemma calculateTimeIdx_ok n bl now : 0 <= now < two63 -> 0 < bl -> 0 < n ->
  calculateTimeIdx n bl now = tidx n bl now.
Proof.
  intros Hn Hb Hl. unfold calculateTimeIdx, tidx.
  assert (Hq : 0 <= now / bl <= now).
  { split; [apply Z.div_pos; lia|]. apply Z.div_le_upper_bound; nia. }
  rewrite i64_id by (unfold in_i64, two63 in *; lia).
  apply Z.rem_mod_nonneg; lia.
Qed.

(* (la *LeapArray) isBucketDeprecated(now, ww): la.intervalInMs = n * bl *)
Lemma isBucketDeprecated_ok n bl now ws :
  isBucketDeprecated (n * bl) now ws = g_deprecated n bl now ws.
Proof. reflexivity. Qed.

(* (m *SlidingWindowMetric) getBucketStartRange(timeMs) *)
Lemma getBucketStartRange_ok vitv bl t : in_u64 t -> 0 < bl -> in_u32 vitv ->
  getBucketStartRange vitv bl t = v_range bl vitv t.
Proof.
  intros Ht Hb Hv. unfold getBucketStartRange, v_range.
  rewrite (calculateStartTime_ok bl t Ht Hb). cbv zeta.
  destruct (vitv <? u64 (bstart bl t + bl)) eqn:E; [|reflexivity].
  f_equal. apply u64_id. pose proof (u64_range (bstart bl t + bl)) as Hr.
  unfold in_u64, in_u32, two64, two32 in *. apply Z.ltb_lt in E. lia.
Qed.

(* CheckValidityForReuseStatistic: nil exactly when the model's check_reuse holds *)
Lemma checkValidityForReuseStatistic_ok vn vitv pn pitv :
  (checkValidityForReuseStatistic vitv pitv pn vn =? 0) = check_reuse vn vitv pn pitv.
Proof.
  unfold checkValidityForReuseStatistic, check_reuse.
  destruct (vitv =? 0); [reflexivity|]; destruct (vn =? 0); [reflexivity|];
  destruct (vitv mod vn =? 0); [|reflexivity]; cbn [orb negb andb];
  destruct (pitv =? 0); [reflexivity|]; destruct (pn =? 0); [reflexivity|];
  destruct (pitv mod pn =? 0); [|reflexivity]; cbn [orb negb andb];
  destruct (pitv mod vitv =? 0); [|reflexivity]; cbn [orb negb andb];
  destruct ((vitv / vn) mod (pitv / pn) =? 0); reflexivity.
Qed.

(* which error: GlobalStatisticNonReusableError (code 3) exactly when both parameter pairs are
   well-formed but the view does not tile *)
Lemma checkValidityForReuseStatistic_code vn vitv pn pitv :
  checkValidityForReuseStatistic vitv pitv pn vn = 3 <->
  ((vitv =? 0) || (vn =? 0) || negb (vitv mod vn =? 0) = false) /\
  ((pitv =? 0) || (pn =? 0) || negb (pitv mod pn =? 0) = false) /\
  (negb (pitv mod vitv =? 0) || negb ((vitv / vn) mod (pitv / pn) =? 0) = true).
Proof.
  unfold checkValidityForReuseStatistic.
  destruct (vitv =? 0); destruct (vn =? 0); destruct (vitv mod vn =? 0);
  destruct (pitv =? 0); destruct (pn =? 0); destruct (pitv mod pn =? 0);
  destruct (pitv mod vitv =? 0); destruct ((vitv / vn) mod (pitv / pn) =? 0);
  cbn; intuition (try discriminate; try lia).
Qed.

(* ---- round 3: the float / integer arithmetic of the statistic-node getters -------------------
   The window sums, maxima and minima the getters start from are the model's view_sum /
   view_max_single / view_min_rt (whose equality with the event reference is the C08 theorems);
   what is regenerated here is everything the Go getters compute FROM them. *)

(* (n *BaseStatNode) GetMaxAvg(event): n.sampleCount / n.intervalMs are the view's geometry *)
Lemma node_GetMaxAvg_ok x now ev :
  node_GetMaxAvg (view_max_single (nd_arr x) (nd_view x) now ev) (v_itv (nd_view x)) (v_n (nd_view x))
  = node_max_avg x now ev.
Proof. reflexivity. Qed.

Lemma quot_in_i64 a c : in_i64 a -> 0 < c -> in_i64 (Z.quot a c).
Proof.
  intros Ha Hc. unfold in_i64 in *.
  destruct (Z_le_gt_dec 0 a) as [Hp|Hn].
  - pose proof (Z.quot_pos a c Hp Hc) as H0.
    pose proof (Z.quot_le_upper_bound a c a Hc ltac:(nia)) as H1. lia.
  - replace a with (- (- a)) by lia. rewrite Z.quot_opp_l by lia.
    pose proof (Z.quot_pos (- a) c ltac:(lia) Hc) as H0.
    pose proof (Z.quot_le_upper_bound (- a) c (- a) Hc ltac:(nia)) as H1. lia.
Qed.

(* (n *BaseStatNode) AvgRT(): the int64 division cannot leave the int64 range *)
Lemma node_AvgRT_ok x now : in_i64 (node_sum x now EvRt) ->
  node_AvgRT (node_sum x now EvComplete) (node_sum x now EvRt) = node_avg_rt x now.
Proof.
  intros Hr. unfold node_AvgRT, node_avg_rt. cbv zeta.
  destruct (node_sum x now EvComplete <=? 0) eqn:E; [reflexivity|].
  apply Z.leb_gt in E. rewrite i64_id by (apply quot_in_i64; assumption). reflexivity.
Qed.

(* (n *BaseStatNode) MinRT(): the view's float, unchanged *)
Lemma node_MinRT_ok x now :
  node_MinRT (f_of_i64 (view_min_rt (nd_arr x) (nd_view x) now)) = node_min_rt x now.
Proof. reflexivity. Qed.

(* (m *SlidingWindowMetric) getQPSWithTime(now, event), getIntervalInSecond inlined *)
Lemma view_getQPSWithTime_ok a v now ev :
  view_getQPSWithTime (v_itv v) now (view_sum a v now ev) = view_qps a v now ev.
Proof. reflexivity. Qed.

(* (m *SlidingWindowMetric) AvgRT() *)
Lemma view_AvgRT_ok a v now :
  view_AvgRT (view_sum a v now EvComplete) (view_sum a v now EvRt) = view_avg_rt a v now.
Proof. reflexivity. Qed.

Print Assumptions calculateStartTime_ok.
Print Assumptions calculateTimeIdx_ok.
Print Assumptions isBucketDeprecated_ok.
Print Assumptions getBucketStartRange_ok.
Print Assumptions checkValidityForReuseStatistic_ok.
Print Assumptions node_GetMaxAvg_ok.
Print Assumptions node_AvgRT_ok.
Print Assumptions node_MinRT_ok.
Print Assumptions view_getQPSWithTime_ok.
Print Assumptions view_AvgRT_ok.
