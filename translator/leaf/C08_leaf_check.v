(* C08 leaf obligations: the Gallina regenerated from the Go source of the leaf functions of
   core/stat/base and core/base (Gen.Leaf_gen, written by translator/leaf on every run) computes
   the same function as the hand-written model the C08 theorems are about - for ALL inputs in the
   Go types' ranges, not on samples. *)
From Coq Require Import ZArith Bool Lia Floats.
From SG Require Import Base.Prelude Base.GoInt Base.GoFloat Model.LeapArray Model.StatNode.
From Gen Require Import Leaf_gen.
#[local] Open Scope Z_scope.
Transparent two32 two63 two64 two31.

(* Proof style (one set of tactics for the whole file, none of them mentions a Gen name): unfold
   both sides; give every wrapped sub-term its range; ONE CASE PER BOOLEAN ATOM (condition of an
   `if`, comparison) of either side, whatever shape the conditions are combined in; comparisons
   become (in)equalities; wrap-arounds that the case's facts exclude are removed; equal leaves by
   reflexivity, contradictory cases and arithmetic leaves by lia.  A rewrite of the Go code that
   keeps its meaning (negated or mirrored comparison, early return for else, named or inlined
   sub-expression, merged or split condition) changes the generated term, not the case analysis. *)
Ltac split_ifs :=
  repeat match goal with |- context [if ?c then _ else _] => destruct c eqn:? end.
Ltac cmp_atoms :=
  repeat match goal with
  | |- context [?a <? ?b] => destruct (a <? b) eqn:?
  | |- context [?a <=? ?b] => destruct (a <=? b) eqn:?
  | |- context [?a =? ?b] => destruct (a =? b) eqn:?
  end.
Ltac bool_facts :=
  repeat match goal with
  | H : negb _ = true |- _ => apply negb_true_iff in H
  | H : negb _ = false |- _ => apply negb_false_iff in H
  | H : andb _ _ = true |- _ => apply andb_true_iff in H; destruct H
  | H : orb _ _ = false |- _ => apply orb_false_iff in H; destruct H
  | H : (_ <? _) = true |- _ => apply Z.ltb_lt in H
  | H : (_ <? _) = false |- _ => apply Z.ltb_ge in H
  | H : (_ <=? _) = true |- _ => apply Z.leb_le in H
  | H : (_ <=? _) = false |- _ => apply Z.leb_gt in H
  | H : (_ =? _) = true |- _ => apply Z.eqb_eq in H
  | H : (_ =? _) = false |- _ => apply Z.eqb_neq in H
  end.
(* ranges of the wrapped sub-terms and of the remainders in the goal *)
Ltac pose_ranges :=
  repeat match goal with
  | |- context [u64 ?x] =>
      lazymatch goal with H : in_u64 (u64 x) |- _ => fail | _ => pose proof (u64_range x) end
  end;
  repeat match goal with
  | Hb : 0 < ?b |- context [?a mod ?b] =>
      lazymatch goal with H : 0 <= a mod b < b |- _ => fail | _ => pose proof (Z.mod_pos_bound a b Hb) end
  end.
Ltac unfold_ranges := unfold in_u64, in_u32, in_i64, two64, two63, two32 in *.
(* remove the wrap-arounds the facts at hand exclude *)
Ltac drop_wraps :=
  repeat first [ rewrite u64_id by (unfold_ranges; lia) | rewrite i64_id by (unfold_ranges; lia) ].
Ltac leaf_close :=
  first [ reflexivity | discriminate | exfalso; lia | lia | f_equal; lia | exfalso; congruence ].
(* boolean-valued and if-valued goals over integer comparisons *)
Ltac leaf_cases :=
  cbv zeta; pose_ranges; split_ifs; cmp_atoms; bool_facts; cbn [negb andb orb];
  unfold_ranges; drop_wraps; leaf_close.

Lemma in_u64_bounds x : in_u64 x -> 0 <= x < 18446744073709551616.
Proof. unfold in_u64, two64. auto. Qed.

(* calculateStartTime(now uint64, bucketLengthInMs uint32) *)
Lemma calculateStartTime_ok bl now : in_u64 now -> 0 < bl ->
  calculateStartTime bl now = bstart bl now.
Proof.
  intros Hn Hb. unfold calculateStartTime, bstart. cbv zeta.
  pose proof (Z.mod_pos_bound now bl Hb). pose proof (Z.mod_le now bl ltac:(unfold in_u64 in Hn; lia) Hb).
  unfold_ranges. drop_wraps. leaf_close.
Qed.

(* (la *LeapArray) calculateTimeIdx(now uint64) int, la.array.length = n *)
Lemma calculateTimeIdx_ok n bl now : 0 <= now < two63 -> 0 < bl -> 0 < n ->
  calculateTimeIdx n bl now = tidx n bl now.
Proof.
  intros Hn Hb Hl. unfold calculateTimeIdx, tidx. cbv zeta.
  assert (Hq : 0 <= now / bl <= now).
  { split; [apply Z.div_pos; lia|]. apply Z.div_le_upper_bound; nia. }
  unfold_ranges. drop_wraps. apply Z.rem_mod_nonneg; lia.
Qed.

(* (la *LeapArray) isBucketDeprecated(now, ww): la.intervalInMs = n * bl *)
Lemma isBucketDeprecated_ok n bl now ws :
  isBucketDeprecated (n * bl) now ws = g_deprecated n bl now ws.
Proof. unfold isBucketDeprecated, g_deprecated. leaf_cases. Qed.

(* (m *SlidingWindowMetric) getBucketStartRange(timeMs) *)
Lemma getBucketStartRange_ok vitv bl t : in_u64 t -> 0 < bl -> in_u32 vitv ->
  getBucketStartRange vitv bl t = v_range bl vitv t.
Proof.
  intros Ht Hb Hv. unfold getBucketStartRange, v_range.
  rewrite !(calculateStartTime_ok bl t Ht Hb). leaf_cases.
Qed.

(* CheckValidityForReuseStatistic: nil exactly when the model's check_reuse holds *)
Lemma checkValidityForReuseStatistic_ok vn vitv pn pitv :
  (checkValidityForReuseStatistic vitv pitv pn vn =? 0) = check_reuse vn vitv pn pitv.
Proof.
  (* purely boolean: name the result, one case per atom of either side (the test of the result
     included), then the result is a constant; no arithmetic on the remainders is needed *)
  remember (checkValidityForReuseStatistic vitv pitv pn vn) as k eqn:Hk. revert Hk.
  unfold checkValidityForReuseStatistic, check_reuse. cbv zeta.
  cmp_atoms; cbn [negb andb orb]; intros Hk; subst k;
    first [ reflexivity | discriminate | exfalso; congruence
          | repeat match goal with H : (_ =? _) = _ |- _ => revert H end; vm_compute; congruence ].
Qed.

(* which error: GlobalStatisticNonReusableError (code 3) exactly when both parameter pairs are
   well-formed but the view does not tile *)
Lemma checkValidityForReuseStatistic_code vn vitv pn pitv :
  checkValidityForReuseStatistic vitv pitv pn vn = 3 <->
  ((vitv =? 0) || (vn =? 0) || negb (vitv mod vn =? 0) = false) /\
  ((pitv =? 0) || (pn =? 0) || negb (pitv mod pn =? 0) = false) /\
  (negb (pitv mod vitv =? 0) || negb ((vitv / vn) mod (pitv / pn) =? 0) = true).
Proof.
  unfold checkValidityForReuseStatistic. cbv zeta.
  cmp_atoms; cbn [negb andb orb]; intuition (try discriminate; try lia).
Qed.

(* ---- round 3: the float / integer arithmetic of the statistic-node getters -------------------
   The window sums, maxima and minima the getters start from are the model's view_sum /
   view_max_single / view_min_rt (whose equality with the event reference is the C08 theorems);
   what is regenerated here is everything the Go getters compute FROM them. *)

(* (n *BaseStatNode) GetMaxAvg(event): n.sampleCount / n.intervalMs are the view's geometry *)
Lemma node_GetMaxAvg_ok x now ev :
  node_GetMaxAvg (view_max_single (nd_arr x) (nd_view x) now ev) (v_itv (nd_view x)) (v_n (nd_view x))
  = node_max_avg x now ev.
Proof. reflexivity. Qed.

Lemma quot_in_i64 a c : in_i64 a -> 0 < c -> in_i64 (Z.quot a c).
Proof.
  intros Ha Hc. unfold in_i64 in *.
  destruct (Z_le_gt_dec 0 a) as [Hp|Hn].
  - pose proof (Z.quot_pos a c Hp Hc) as H0.
    pose proof (Z.quot_le_upper_bound a c a Hc ltac:(nia)) as H1. lia.
  - replace a with (- (- a)) by lia. rewrite Z.quot_opp_l by lia.
    pose proof (Z.quot_pos (- a) c ltac:(lia) Hc) as H0.
    pose proof (Z.quot_le_upper_bound (- a) c (- a) Hc ltac:(nia)) as H1. lia.
Qed.

(* (n *BaseStatNode) AvgRT(): the int64 division cannot leave the int64 range *)
Lemma node_AvgRT_ok x now : in_i64 (node_sum x now EvRt) ->
  node_AvgRT (node_sum x now EvComplete) (node_sum x now EvRt) = node_avg_rt x now.
Proof.
  intros Hr. unfold node_AvgRT, node_avg_rt. cbv zeta.
  split_ifs; bool_facts; try reflexivity; try (exfalso; lia).
  rewrite i64_id by (apply quot_in_i64; [assumption|lia]). reflexivity.
Qed.

(* (n *BaseStatNode) MinRT(): the view's float, unchanged *)
Lemma node_MinRT_ok x now :
  node_MinRT (f_of_i64 (view_min_rt (nd_arr x) (nd_view x) now)) = node_min_rt x now.
Proof. reflexivity. Qed.

(* (m *SlidingWindowMetric) getQPSWithTime(now, event), getIntervalInSecond inlined *)
Lemma view_getQPSWithTime_ok a v now ev :
  view_getQPSWithTime (v_itv v) now (view_sum a v now ev) = view_qps a v now ev.
Proof. reflexivity. Qed.

(* (m *SlidingWindowMetric) AvgRT() *)
Lemma view_AvgRT_ok a v now :
  view_AvgRT (view_sum a v now EvComplete) (view_sum a v now EvRt) = view_avg_rt a v now.
Proof. reflexivity. Qed.

(* ---- round 3: the bucket loops of SlidingWindowMetric ------------------------------------------
   For each of count / GetMaxOfSingleBucket / MinRT / MaxConcurrency two definitions are
   regenerated: <f>_step = ONE iteration of `for _, w := range satisfiedBuckets` (loop-body mode;
   w.Value.Load() == nil and the failed type assertion enter as mb_nil / ok, the bucket's counter
   read as a parameter) and <f>_frame = the whole function with the loop replaced by the parameter
   loop_fn (what the accumulator starts from, and what is computed from its final value).  The
   lemmas instantiate loop_fn with the left-to-right iteration of the regenerated step over the
   model's bucket list and prove the result equal to the model's getter. *)

Definition cont {R C} (x : leaf_flow R C) (d : C) : C :=
  match x with LContinue c => c | LBreak c => c | LReturn _ => d end.

Notation merge := (g_merge mb_op mb_e).

Lemma mb_get_op ev x y : mb_get ev (mb_op x y) = mb_get ev x + mb_get ev y.
Proof.
  unfold mb_get, mb_op. cbn [c_pass c_block c_complete c_error c_rt].
  destruct (ev =? EvPass); [reflexivity|]. destruct (ev =? EvBlock); [reflexivity|].
  destruct (ev =? EvComplete); [reflexivity|]. destruct (ev =? EvError); [reflexivity|].
  destruct (ev =? EvRt); reflexivity.
Qed.

Lemma mb_get_e ev : mb_get ev mb_e = 0.
Proof.
  unfold mb_get, mb_e. cbn [c_pass c_block c_complete c_error c_rt].
  destruct (ev =? EvPass); [reflexivity|]. destruct (ev =? EvBlock); [reflexivity|].
  destruct (ev =? EvComplete); [reflexivity|]. destruct (ev =? EvError); [reflexivity|].
  destruct (ev =? EvRt); reflexivity.
Qed.

Lemma merge_cons (s : Z * mb) r : merge (s :: r) = mb_op (snd s) (merge r).
Proof. reflexivity. Qed.

(* count: ret := 0; ret += counter.Get(event) per bucket; return ret *)
Definition count_loop (ev : Z) (bs : list (Z * mb)) (init : Z) : Z :=
  fold_left (fun acc s => cont (view_count_step (mb_get ev (snd s)) false true acc) acc) bs init.

(* an iteration with a loaded bucket: the int64 addition *)
Lemma count_step_eq g acc : cont (view_count_step g false true acc) acc = i64 (acc + g).
Proof. unfold view_count_step. cbv zeta. split_ifs; try discriminate; reflexivity. Qed.

Lemma merge_get_nonneg ev bs : (forall s, In s bs -> 0 <= mb_get ev (snd s)) -> 0 <= mb_get ev (merge bs).
Proof.
  induction bs as [|s r IH]; intros H.
  - cbn [g_merge fold_right]. rewrite mb_get_e. lia.
  - rewrite merge_cons, mb_get_op. pose proof (H s (or_introl eq_refl)).
    pose proof (IH (fun x Hx => H x (or_intror Hx))). lia.
Qed.

Lemma count_loop_sum ev bs : forall init, 0 <= init ->
  (forall s, In s bs -> 0 <= mb_get ev (snd s)) ->
  init + mb_get ev (merge bs) < two63 ->
  count_loop ev bs init = init + mb_get ev (merge bs).
Proof.
  induction bs as [|s r IH]; intros init Hi Hn Hb.
  - cbn [count_loop fold_left g_merge fold_right]. rewrite mb_get_e. lia.
  - rewrite merge_cons, mb_get_op in *.
    pose proof (Hn s (or_introl eq_refl)) as Hs.
    pose proof (merge_get_nonneg ev r (fun x Hx => Hn x (or_intror Hx))) as Hr.
    change (count_loop ev (s :: r) init)
      with (count_loop ev r (cont (view_count_step (mb_get ev (snd s)) false true init) init)).
    rewrite count_step_eq.
    rewrite i64_id by (unfold in_i64, two63 in *; lia).
    rewrite IH; [lia|lia|intros x Hx; apply Hn; right; exact Hx|lia].
Qed.

(* (m *SlidingWindowMetric) count(event, values) over the model's satisfied buckets = view_sum;
   guard: counters non-negative and their window sum fits an int64 (the C08 guard) *)
Theorem view_count_ok a v now ev :
  (forall s, In s (view_buckets a v now) -> 0 <= mb_get ev (snd s)) ->
  view_sum a v now ev < two63 ->
  view_count_frame (count_loop ev (view_buckets a v now)) = view_sum a v now ev.
Proof.
  intros Hn Hb. unfold view_count_frame. cbv zeta.
  rewrite count_loop_sum; [reflexivity|lia|exact Hn|exact Hb].
Qed.

(* GetMaxOfSingleBucket: curMax := 0; if v > curMax { curMax = v } *)
Definition max_loop (ev : Z) (bs : list (Z * mb)) (init : Z) : Z :=
  fold_left (fun acc s => cont (view_maxOfSingleBucket_step acc (mb_get ev (snd s)) false 0 true) acc) bs init.

Lemma max_step_eq g acc : cont (view_maxOfSingleBucket_step acc g false 0 true) acc = Z.max acc g.
Proof. unfold view_maxOfSingleBucket_step. cbv zeta. split_ifs; bool_facts; try discriminate; cbn [cont]; lia. Qed.

Lemma max_loop_max ev bs : forall init, 0 <= init ->
  max_loop ev bs init = Z.max init (fold_right (fun s acc => Z.max (mb_get ev (snd s)) acc) 0 bs).
Proof.
  induction bs as [|s r IH]; intros init Hi.
  - cbn [max_loop fold_left fold_right]. lia.
  - change (max_loop ev (s :: r) init)
      with (max_loop ev r (cont (view_maxOfSingleBucket_step init (mb_get ev (snd s)) false 0 true) init)).
    rewrite max_step_eq. cbn [fold_right]. rewrite IH by lia. lia.
Qed.

Theorem view_maxOfSingleBucket_ok a v now ev :
  view_maxOfSingleBucket_frame (max_loop ev (view_buckets a v now)) now = view_max_single a v now ev.
Proof.
  unfold view_maxOfSingleBucket_frame, view_max_single. cbv zeta. rewrite max_loop_max by lia.
  assert (H : forall bs : list (Z * mb), 0 <= fold_right (fun s acc => Z.max (mb_get ev (snd s)) acc) 0 bs).
  { induction bs as [|s r IH]; cbn [fold_right]; lia. }
  pose proof (H (view_buckets a v now)). lia.
Qed.

(* MinRT: minRt := DefaultStatisticMaxRt; if v < minRt { minRt = v }; clamp below at 1; float64 *)
Definition min_loop (bs : list (Z * mb)) (init : Z) : Z :=
  fold_left (fun acc s => cont (view_MinRT_step (m_minrt (snd s)) false acc 0 true) acc) bs init.

Lemma min_step_eq g acc : cont (view_MinRT_step g false acc 0 true) acc = Z.min acc g.
Proof. unfold view_MinRT_step. cbv zeta. split_ifs; bool_facts; try discriminate; cbn [cont]; lia. Qed.

Lemma m_minrt_merge_le bs : m_minrt (merge bs) <= DefaultStatisticMaxRt.
Proof.
  induction bs as [|s r IH]; [cbn [g_merge fold_right]; unfold mb_e; cbn [m_minrt]; lia|].
  rewrite merge_cons. unfold mb_op at 1. cbn [m_minrt]. lia.
Qed.

Lemma min_loop_min bs : forall init, init <= DefaultStatisticMaxRt ->
  min_loop bs init = Z.min init (m_minrt (merge bs)).
Proof.
  induction bs as [|s r IH]; intros init Hi.
  - cbn [min_loop fold_left g_merge fold_right]. unfold mb_e. cbn [m_minrt]. lia.
  - change (min_loop (s :: r) init)
      with (min_loop r (cont (view_MinRT_step (m_minrt (snd s)) false init 0 true) init)).
    rewrite min_step_eq, merge_cons. unfold mb_op at 1. cbn [m_minrt]. rewrite IH by lia. lia.
Qed.

Theorem view_MinRT_ok x now :
  view_MinRT_frame (min_loop (view_buckets (nd_arr x) (nd_view x) now)) now = node_min_rt x now.
Proof.
  unfold view_MinRT_frame, node_min_rt, view_min_rt. cbv zeta.
  rewrite min_loop_min by (unfold DefaultStatisticMaxRt; lia).
  change (view_merge (nd_arr x) (nd_view x) now) with (merge (view_buckets (nd_arr x) (nd_view x) now)).
  pose proof (m_minrt_merge_le (view_buckets (nd_arr x) (nd_view x) now)) as Hle.
  unfold DefaultStatisticMaxRt in Hle.
  replace (Z.min 60000 (m_minrt (merge (view_buckets (nd_arr x) (nd_view x) now))))
    with (m_minrt (merge (view_buckets (nd_arr x) (nd_view x) now))) by lia.
  split_ifs; bool_facts; first [reflexivity | exfalso; lia].
Qed.

(* MaxConcurrency: maxConcurrency := 0; if v > maxConcurrency { maxConcurrency = v } *)
Definition maxc_loop (bs : list (Z * mb)) (init : Z) : Z :=
  fold_left (fun acc s => cont (view_MaxConcurrency_step (m_maxc (snd s)) acc false 0 true) acc) bs init.

Lemma maxc_step_eq g acc : cont (view_MaxConcurrency_step g acc false 0 true) acc = Z.max acc g.
Proof. unfold view_MaxConcurrency_step. cbv zeta. split_ifs; bool_facts; try discriminate; cbn [cont]; lia. Qed.

Lemma maxc_loop_max bs : forall init, 0 <= init -> maxc_loop bs init = Z.max init (m_maxc (merge bs)).
Proof.
  induction bs as [|s r IH]; intros init Hi.
  - cbn. lia.
  - change (maxc_loop (s :: r) init)
      with (maxc_loop r (cont (view_MaxConcurrency_step (m_maxc (snd s)) init false 0 true) init)).
    rewrite maxc_step_eq, merge_cons. unfold mb_op at 1. cbn [m_maxc]. rewrite IH by lia. lia.
Qed.

Theorem view_MaxConcurrency_ok a v now : 0 <= view_max_conc a v now ->
  view_MaxConcurrency_frame (maxc_loop (view_buckets a v now)) now = view_max_conc a v now.
Proof.
  intros H. unfold view_MaxConcurrency_frame. cbv zeta. rewrite maxc_loop_max by lia.
  unfold view_max_conc in *. change (view_merge a v now) with (merge (view_buckets a v now)) in *. lia.
Qed.

(* the parameters are positional: pin their NAMES (the struct fields / reads the Go code uses in
   each position), so that reading another field of the same type in the same place is noticed *)
Section ParamNames.
Import Coq.Strings.String.
Local Open Scope string_scope.
Local Open Scope list_scope.
Lemma node_GetMaxAvg_params : LeafParams.node_GetMaxAvg = "max_single" :: "n_intervalMs" :: "n_sampleCount" :: nil.
Proof. reflexivity. Qed.
Lemma node_AvgRT_params : LeafParams.node_AvgRT = "complete_sum" :: "rt_sum" :: nil.
Proof. reflexivity. Qed.
Lemma view_getQPSWithTime_params : LeafParams.view_getQPSWithTime = "m_intervalInMs" :: "now" :: "sum" :: nil.
Proof. reflexivity. Qed.
Lemma view_AvgRT_params : LeafParams.view_AvgRT = "complete_sum" :: "rt_sum" :: nil.
Proof. reflexivity. Qed.
Lemma view_count_step_params : LeafParams.view_count_step = "get" :: "mb_nil" :: "ok" :: "ret_in" :: nil.
Proof. reflexivity. Qed.
Lemma view_maxOfSingleBucket_step_params : LeafParams.view_maxOfSingleBucket_step = "curMax_in" :: "get" :: "mb_nil" :: "now" :: "ok" :: nil.
Proof. reflexivity. Qed.
Lemma view_MinRT_step_params : LeafParams.view_MinRT_step = "bucket_min_rt" :: "mb_nil" :: "minRt_in" :: "now" :: "ok" :: nil.
Proof. reflexivity. Qed.
Lemma view_MaxConcurrency_step_params : LeafParams.view_MaxConcurrency_step = "bucket_max_conc" :: "maxConcurrency_in" :: "mb_nil" :: "now" :: "ok" :: nil.
Proof. reflexivity. Qed.
End ParamNames.

Print Assumptions calculateStartTime_ok.
Print Assumptions calculateTimeIdx_ok.
Print Assumptions isBucketDeprecated_ok.
Print Assumptions getBucketStartRange_ok.
Print Assumptions checkValidityForReuseStatistic_ok.
Print Assumptions node_GetMaxAvg_ok.
Print Assumptions node_AvgRT_ok.
Print Assumptions node_MinRT_ok.
Print Assumptions view_getQPSWithTime_ok.
Print Assumptions view_AvgRT_ok.
Print Assumptions view_count_ok.
Print Assumptions view_maxOfSingleBucket_ok.
Print Assumptions view_MinRT_ok.
Print Assumptions view_MaxConcurrency_ok.
