// Targets of the rule-manager cluster (C13, C14, C07, C02): the loops of the rule managers and of the
// slots that walk the rules in force, ONE ITERATION each (loopbody.go).  Obligations:
// C14_leaf_check.v (reuse search), C13_leaf_check.v (validity filters), C07_leaf_check.v (system slot
// loop), C02_leaf_check.v (flow slot loop, standalone statistic slot).
package main

func init() {
	// calculateReuseIndexFor (flow, hotspot, circuit breaker: the same loop over the old controllers):
	// `equal` / `reusable` = old.isEqualsTo(r) / old.isStatReusable(r) (obligations of their own in
	// C14_leaf_check.v); result LBreak (equalIdx, reuseStatIdx) on an equal rule, LContinue otherwise
	reuse := func(dir, name, eq, reusable string) target {
		return target{Dir: dir, Func: "calculateReuseIndexFor", Name: name, LoopBody: 1,
			RangeVars: map[string]string{"idx": "int", "oldTc": "opaque"},
			Hints: map[string]hint{
				"oldTc.BoundRule()":           {"", "opaque"},
				"oldRule." + eq + "(r)":       {"equal", "bool"},
				"oldRule." + reusable + "(r)": {"reusable", "bool"}}}
	}
	// the validity filters: ONE iteration of the loop that copies the valid rules of a load; the rule is
	// appended (action 1) iff IsValidRule(rule) == nil (err_nil).  whole = the loop nested in the range
	// over the grouped map (onRuleUpdate), otherwise the top-level loop of onResourceRuleUpdate
	filter := func(dir, fn, name string, nth int) target {
		return target{Dir: dir, Func: fn, Name: name, LoopBody: nth, LoopAny: true, IO: true,
			RangeVars: map[string]string{"rule": "*Rule"},
			Hints:     map[string]hint{"IsValidRule(rule)": {"valid_err", "opaque"}},
			Acts:      map[string]act{"append(validResRules, rule)": {Tag: 1}}}
	}
	targets = append(targets,
		filter("core/flow", "onRuleUpdate", "flow_filter_all_step", 2),
		filter("core/flow", "onResourceRuleUpdate", "flow_filter_res_step", 1),
		filter("core/hotspot", "onRuleUpdate", "hotspot_filter_all_step", 2),
		filter("core/hotspot", "onResourceRuleUpdate", "hotspot_filter_res_step", 1),
		filter("core/circuitbreaker", "onRuleUpdate", "circuitbreaker_filter_all_step", 2),
		filter("core/circuitbreaker", "onResourceRuleUpdate", "circuitbreaker_filter_res_step", 1),
		filter("core/isolation", "onRuleUpdate", "isolation_filter_all_step", 2),
		filter("core/isolation", "onResourceRuleUpdate", "isolation_filter_res_step", 1),
		reuse("core/flow", "flow_calcReuse_step", "isEqualsTo", "isStatReusable"),
		reuse("core/hotspot", "hotspot_calcReuse_step", "Equals", "IsStatReusable"),
		reuse("core/circuitbreaker", "circuitbreaker_calcReuse_step", "isEqualsTo", "isStatReusable"),
		// system.AdaptiveSlot.Check: one iteration of `for _, rule := range rules`: the first rule that does
		// not pass is reported (LReturn 1 = blocked), a passing rule continues
		target{Dir: "core/system", Func: "AdaptiveSlot.Check", Name: "system_Slot_Check_step", LoopBody: 1, IO: true,
			RangeVars: map[string]string{"rule": "*Rule"},
			Hints: map[string]hint{
				"ctx == nil || ctx.Resource == nil || ctx.Resource.FlowType() != base.Inbound": {"not_inbound", "bool"},
				"getRules()":          {"", "opaque"},
				"ctx.RuleCheckResult": {"", "opaque"},
				"result == nil":       {"result_nil", "bool"}},
			Rets: map[string]hint{"s.doCheckRule": {"chk", "bool,opaque,float64"}},
			Acts: map[string]act{
				"base.NewTokenResultBlockedWithCause": {Tag: 1, Keep: []int{3}, Ret: hint{"", "opaque"}},
				"result.ResetToBlockedWithCause":      {Tag: 2, Keep: []int{3}}},
			Errs: map[string]int{"result": 1}},
		// flow.StandaloneStatSlot.OnEntryPassed: one iteration of each of its two loops.  Loop 1 walks the
		// controllers of the request's resource: an independent write statistic is fed (action 1, [batch])
		// unless the rule is an associated-resource rule; loop 2 walks refStatTcMap[res] and feeds each
		target{Dir: "core/flow", Func: "StandaloneStatSlot.OnEntryPassed", Name: "flow_standalone_own_step", LoopBody: 1,
			RangeVars: map[string]string{"tc": "*TrafficShapingController"},
			Hints: map[string]hint{
				"ctx.Resource.Name()":                 {"", "opaque"},
				"getTrafficControllerListFor(res)":    {"", "opaque"},
				"tc.rule != nil":                      {"rule_nonnil", "bool"},
				"tc.rule.RelationStrategy":            {"rule_relation", "int32"},
				"tc.boundStat.reuseResourceStat":      {"reuse_resource_stat", "bool"},
				"tc.boundStat.writeOnlyMetric != nil": {"write_nonnil", "bool"},
				"ctx.Input.BatchCount":                {"batch", "uint32"}},
			Acts: map[string]act{"tc.boundStat.writeOnlyMetric.AddCount": {Tag: 1, Keep: []int{1}}}},
		target{Dir: "core/flow", Func: "StandaloneStatSlot.OnEntryPassed", Name: "flow_standalone_ref_step", LoopBody: 2, LoopAny: true,
			RangeVars: map[string]string{"tc": "*TrafficShapingController"},
			Hints: map[string]hint{
				"ctx.Resource.Name()":              {"", "opaque"},
				"getRefStatControllerListFor(res)": {"", "opaque"},
				"ctx.Input.BatchCount":             {"batch", "uint32"}},
			Acts: map[string]act{"tc.boundStat.writeOnlyMetric.AddCount": {Tag: 1, Keep: []int{1}}}},
		// rebuildRefStatTcMap: which controllers are indexed under their referenced resource (inner loop body)
		target{Dir: "core/flow", Func: "rebuildRefStatTcMap", Name: "flow_refStat_member_step", LoopBody: 2, LoopAny: true, IO: true,
			RangeVars: map[string]string{"tc": "*TrafficShapingController"},
			Hints: map[string]hint{
				"tc == nil || tc.rule == nil || tc.rule.RelationStrategy != AssociatedResource": {"not_assoc", "bool"},
				"tc.boundStat.reuseResourceStat":                                                {"reuse_resource_stat", "bool"},
				"tc.boundStat.writeOnlyMetric != nil":                                           {"write_nonnil", "bool"}},
			IOStores: map[string]act{"m[tc.rule.RefResource]": {Tag: 2}},
			Acts:     map[string]act{"<none>": {Tag: 99}}}, // a trace is printed only for targets with an Acts table
	)
}
