(* C16 leaf obligations: the control structure of core/base/slot_chain.go (SlotChain.Entry,
   EntryPassedOnPanic, exit, RefurbishContext), core/base/entry.go (SentinelEntry.Exit) and
   api/api.go (entry), regenerated from the Go source on every run (Gen.Leaf_gen, translator/leaf:
   loop bodies as step functions, the ORDER of effects as action traces, token results / entries /
   block errors as object references), against Model/Chain.v - the model of the C16 and C01 theorems.

   1. each regenerated definition is equal, for ALL inputs, to the readable transcription written
      below (`*_spec`): which slot callback / store / helper runs under which condition, in which
      order, and what is returned or carried to the next iteration;
   2. the regenerated loop bodies of SlotChain.Entry / exit, iterated over the model's slot lists
      with the model's slot behaviours as environment, ARE the model's run_preps / run_checks /
      run_stats / run_done (gen_run_*_ok);
   3. the regenerated frame of SlotChain.Entry (what happens between the loops, the deferred
      recover) executed with those loops IS the model's chain_entry (gen_chain_entry_ok).

   Hand-written and tied by the differential correspondence only: what a user-supplied slot does
   when called (the behaviour tables pbeh_of / cbeh_of / sbeh_of), Go's panic / defer / recover
   semantics (a panic leaves the loops, the deferred function runs, the unnamed result is nil) and
   the sync.Once / sync.Pool primitives. *)
From Coq Require Import ZArith Bool Lia List.
From SG Require Import Base.Prelude Base.GoInt Model.Chain.
From Gen Require Import Leaf_gen C01_leaf_check.
Import ListNotations.
#[local] Open Scope Z_scope.

Ltac split_ifs :=
  repeat match goal with |- context [if ?c then _ else _] => destruct c eqn:? end.
Ltac bool_facts :=
  repeat match goal with
  | H : negb _ = true |- _ => apply negb_true_iff in H
  | H : negb _ = false |- _ => apply negb_false_iff in H
  | H : andb _ _ = true |- _ => apply andb_true_iff in H; destruct H
  | H : andb _ _ = false |- _ => apply andb_false_iff in H
  | H : orb _ _ = false |- _ => apply orb_false_iff in H; destruct H
  | H : orb _ _ = true |- _ => apply orb_true_iff in H
  | H : (_ <? _) = true |- _ => apply Z.ltb_lt in H
  | H : (_ <? _) = false |- _ => apply Z.ltb_ge in H
  | H : (_ <=? _) = true |- _ => apply Z.leb_le in H
  | H : (_ <=? _) = false |- _ => apply Z.leb_gt in H
  | H : (_ =? _) = true |- _ => apply Z.eqb_eq in H
  | H : (_ =? _) = false |- _ => apply Z.eqb_neq in H
  end.
(* every comparison of either side split, equal leaves by reflexivity, contradictory ones by
   integer reasoning (so `!(a > 0)` for `a <= 0`, swapped operands of ==, an extracted local survive) *)
Ltac leaf_cases := split_ifs; bool_facts; first [reflexivity | exfalso; intuition (congruence || lia)].

(* action tags (translator/leaf/targets_chain.go) *)
Definition a0 (tag : Z) : leaf_act := (tag, @nil leaf_arg).
Definition aZ (tag v : Z) : leaf_act := (tag, [LZ v]).
Definition aB (tag : Z) (b : bool) : leaf_act := (tag, [LB b]).

(* ---------------------------------------------------------------------------------- *)
(* 1. transcriptions, for all inputs                                                    *)

(* SlotChain.Entry, prepare loop: the body calls Prepare and goes on *)
Lemma chain_Entry_prepare_step_ok : chain_Entry_prepare_step = (LContinue tt, [a0 21]).
Proof. reflexivity. Qed.

(* rule-check loop: sr := s.Check(ctx); nil = pass: go on; blocked: ruleCheckRet = sr (THIS
   slot's result) and break; any other status (pass, should-wait): go on, ruleCheckRet untouched *)
Lemma chain_Entry_check_step_ok sr isb rc :
  chain_Entry_check_step sr isb rc =
  (if sr =? 0 then LContinue rc else if isb sr then LBreak sr else LContinue rc, [a0 22]).
Proof. unfold chain_Entry_check_step. cbv zeta. leaf_cases. Qed.

(* statistic loop: OnEntryPassed unless the result is blocked, then OnEntryBlocked with the
   result's own block error; every slot is told, nothing stops the loop *)
Lemma chain_Entry_stat_step_ok beo isb rc :
  chain_Entry_stat_step beo isb rc = (LContinue tt, [if isb rc then aZ 27 (beo rc) else a0 26]).
Proof. unfold chain_Entry_stat_step, aZ, a0. cbv zeta. leaf_cases. Qed.

(* the deferred function of Entry: recover(); SetError iff something was recovered *)
Lemma chain_Entry_recover_ok pv : chain_Entry_recover pv = if pv =? 0 then [a0 30] else [a0 30; a0 29].
Proof. unfold chain_Entry_recover. cbv zeta. leaf_cases. Qed.

(* the frame of Entry.  defer first (it covers all three loops); prepare loop; rule-check loop
   entered with ruleCheckRet = nil and leaving rc; the context's result := pass (ResetToPass) iff
   rc is nil, else := rc; ruleCheckRet re-read from the context; outcomeReported := true BEFORE
   the statistic loop, which is entered with the re-read result; that result is returned.
   `len(xs) > 0` guards only skip empty loops. *)
Definition entry_frame_spec (np nc ns : Z) (cres rc : Z) : Z * list leaf_act :=
  (cres,
   [a0 20] ++ (if 0 <? np then [a0 31] else []) ++ (if 0 <? nc then [aZ 32 0] else []) ++
   [if 0 <? nc then (if rc =? 0 then a0 23 else aZ 24 rc) else a0 23] ++ [aB 25 true] ++
   (if 0 <? ns then [aZ 33 cres] else [])).

(* A loop over an empty list does not run, so the mark of such a loop says nothing: the guards
   `if len(xs) > 0` around the loops are optional in the source.  np nc ns are lengths (>= 0; the guard
   may as well be `len(xs) != 0`); rc is what the rule-check loop leaves, nil when it has no slots. *)
Definition norm_frame (np nc ns : Z) (tr : list leaf_act) : list leaf_act :=
  filter (fun a => match fst a with 31 => 0 <? np | 32 => 0 <? nc | 33 => 0 <? ns | _ => true end) tr.

Lemma norm_frame_spec np nc ns cres rc :
  norm_frame np nc ns (snd (entry_frame_spec np nc ns cres rc)) = snd (entry_frame_spec np nc ns cres rc).
Proof.
  unfold entry_frame_spec, a0, aZ, aB. cbn [snd].
  destruct (0 <? np) eqn:E1, (0 <? nc) eqn:E2, (0 <? ns) eqn:E3; try destruct (rc =? 0);
    cbn [app norm_frame filter fst]; rewrite ?E1, ?E2, ?E3; reflexivity.
Qed.

Lemma chain_Entry_frame_ok nc cres rc np ns : 0 <= np -> 0 <= nc -> 0 <= ns -> (nc = 0 -> rc = 0) ->
  fst (chain_Entry_frame nc cres rc np ns) = cres /\
  norm_frame np nc ns (snd (chain_Entry_frame nc cres rc np ns)) = snd (entry_frame_spec np nc ns cres rc).
Proof.
  intros Hnp Hnc Hns Hrc.
  assert (Hrc' : 0 < nc \/ rc = 0) by (destruct (Z.eq_dec nc 0); [right; auto | left; lia]). clear Hrc.
  unfold chain_Entry_frame, entry_frame_spec, a0, aZ, aB. cbv zeta.
  split; [split_ifs; reflexivity|].
  split_ifs; cbn [norm_frame filter fst snd app]; split_ifs; bool_facts;
    first [reflexivity | exfalso; intuition (congruence || lia)].
Qed.

(* EntryPassedOnPanic: nothing for a nil context or when the outcome was reported; else defer,
   outcomeReported := true, the result := pass (a fresh one if the context has none), then every
   statistic slot is told "passed" *)
Lemma chain_EntryPassedOnPanic_ok ctx_nil rep cres fresh :
  chain_EntryPassedOnPanic ctx_nil rep cres fresh =
  if ctx_nil || rep then [] else
  [a0 20; aB 25 true] ++ (if cres =? 0 then [a0 34; aZ 24 fresh] else [a0 23]) ++ [a0 33].
Proof. unfold chain_EntryPassedOnPanic, a0, aZ, aB. cbv zeta. destruct ctx_nil, rep; cbn [orb negb andb]; leaf_cases. Qed.
Lemma chain_EntryPassedOnPanic_step_ok : chain_EntryPassedOnPanic_step = (LContinue tt, [a0 26]).
Proof. reflexivity. Qed.

(* SlotChain.exit: nothing for a nil context, a context without entry, a blocked context;
   otherwise OnCompleted of every statistic slot *)
Lemma chain_exit_ok blocked ent ctx_nil :
  chain_exit blocked ent ctx_nil = if ctx_nil || (ent =? 0) || blocked then [] else [a0 33].
Proof. unfold chain_exit, a0. cbv zeta. destruct ctx_nil, blocked; cbn [orb negb andb]; leaf_cases. Qed.
Lemma chain_exit_step_ok : chain_exit_step = (LContinue tt, [a0 28]).
Proof. reflexivity. Qed.

(* "blocked": status == ResultStatusBlocked (1); a context without result is not blocked *)
Lemma tokenResult_IsBlocked_ok st : tokenResult_IsBlocked st = (st =? 1).
Proof. unfold tokenResult_IsBlocked. leaf_cases. Qed.
Lemma ctx_IsBlocked_ok cres rb : ctx_IsBlocked cres rb = if cres =? 0 then false else rb.
Proof. unfold ctx_IsBlocked. leaf_cases. Qed.

(* the pool: Reset, then Put; the start time is the millisecond clock *)
Lemma chain_RefurbishContext_ok c_nil : chain_RefurbishContext c_nil = if c_nil then [] else [a0 35; a0 36].
Proof. unfold chain_RefurbishContext, a0. destruct c_nil; cbn [negb]; leaf_cases. Qed.
Lemma chain_GetPooledContext_ok t : chain_GetPooledContext t = (1, [aZ 37 t]).
Proof. reflexivity. Qed.

(* SentinelEntry.Exit: the options are applied, a nil context returns, everything else happens
   inside the Once *)
Lemma entry_Exit_ok ctx_nil : entry_Exit ctx_nil = if ctx_nil then [a0 40] else [a0 40; a0 41].
Proof. unfold entry_Exit, a0. destruct ctx_nil; cbn [negb]; leaf_cases. Qed.
(* the function run by the Once: defer first; the error of THIS exit into the context (inside
   the Once); the handlers; the chain's exit *)
Lemma entry_Exit_once_ok err sc :
  entry_Exit_once err sc =
  [a0 20] ++ (if err =? 0 then [] else [aZ 42 err]) ++ [a0 43] ++ (if sc =? 0 then [] else [a0 45]).
Proof. unfold entry_Exit_once, a0, aZ. cbv zeta. leaf_cases. Qed.
(* the handler loop: every handler goes through runExitHandler (a9e6cc9), nothing leaves the loop *)
Lemma entry_Exit_handler_step_ok : entry_Exit_handler_step = (LContinue tt, [a0 48]).
Proof. unfold entry_Exit_handler_step, a0. cbv zeta. leaf_cases. Qed.
(* runExitHandler: a recover of its own is deferred BEFORE the handler is called; the handler's error
   is only logged; the deferred function recovers (and logs) *)
Lemma entry_runExitHandler_ok herr : entry_runExitHandler herr = [a0 20; a0 44].
Proof. unfold entry_runExitHandler, a0. cbv zeta. leaf_cases. Qed.
Lemma entry_runExitHandler_recover_ok pv : entry_runExitHandler_recover pv = [a0 30].
Proof. unfold entry_runExitHandler_recover, a0. cbv zeta. leaf_cases. Qed.
(* its deferred function: recover, exited := 1, then the context goes back to the pool -
   whether or not something was recovered *)
Lemma entry_Exit_deferred_ok pv sc :
  entry_Exit_deferred pv sc = [a0 30; aZ 46 1] ++ (if sc =? 0 then [] else [a0 47]).
Proof. unfold entry_Exit_deferred, a0, aZ. cbv zeta. leaf_cases. Qed.

(* api.entry.  No chain: an entry without context.  Otherwise: context from the pool, resource,
   batch count, flag, the COPY of the arguments (only if there are any), the attachments (only if
   there are any), the entry, ctx.SetEntry(e), sc.Entry.  r == nil (a slot panicked):
   EntryPassedOnPanic, the entry is returned.  Status blocked (1): deep copy of the result's block
   error FIRST, then e.Exit(), and (nil, the copy) is returned.  Anything else: the entry. *)
Definition api_entry_spec (args_copy args_len att_len : Z) (beo : Z -> Z) (chain r copied ty e batch flag rty : Z)
    (status : Z -> Z) : Z * Z * list leaf_act :=
  if chain =? 0 then (e, 0, [(50, [LZ rty; LZ ty]); a0 51]) else
  let setup := [(50, [LZ rty; LZ ty]); a0 52; a0 53; aZ 54 batch; aZ 55 flag] ++
               (if args_len =? 0 then [] else [aZ 56 args_copy]) ++ (if att_len =? 0 then [] else [a0 57]) ++
               [a0 51; aZ 58 e; a0 59] in
  if r =? 0 then (e, 0, setup ++ [a0 60])
  else if status r =? 1 then (0, copied, setup ++ [aZ 61 (beo r); a0 62])
  else (e, 0, setup).

Lemma api_entry_ok args_copy args_len att_len beo chain r copied ty e batch flag rty status :
  0 <= args_len -> 0 <= att_len ->
  api_entry args_copy args_len att_len beo chain r copied ty e batch flag rty status =
  api_entry_spec args_copy args_len att_len beo chain r copied ty e batch flag rty status.
Proof.
  intros Ha Hb. unfold api_entry, api_entry_spec, a0, aZ. cbv zeta. leaf_cases.
Qed.

(* ---------------------------------------------------------------------------------- *)
(* 2. the regenerated loop bodies, iterated, are the model's loops                      *)

(* prepare loop.  Environment: Prepare of slot p logs the call and does what pbeh_of says *)
Fixpoint gen_run_preps (ps : list pslot) (x : ctx) (lg : list call) : ctx * list call * bool :=
  match ps with
  | [] => (x, lg, false)
  | p :: r =>
      match chain_Entry_prepare_step with
      | (fl, [(21, [])]) =>
          let lg' := LPrep (p_id p) :: lg in
          match pbeh_of p (x_flag x) with
          | PPanic => (x, lg', true)                       (* the call panics: control leaves the loop *)
          | b => match fl with
                 | LContinue _ => gen_run_preps r (match b with PNode => set_node x | _ => x end) lg'
                 | _ => (x, lg', false)
                 end
          end
      | _ => (x, lg, false)
      end
  end.

Theorem gen_run_preps_ok ps : forall x lg, gen_run_preps ps x lg = run_preps ps x lg.
Proof.
  induction ps as [|p r IH]; intros x lg; [reflexivity|].
  cbn [gen_run_preps run_preps]. rewrite chain_Entry_prepare_step_ok. unfold a0.
  destruct (pbeh_of p (x_flag x)); try apply IH; reflexivity.
Qed.

(* rule-check loop.  Token results are object references: res c = the id of the result slot c
   returns for this request (0 = nil), isb = TokenResult.IsBlocked read through the id.  Any
   naming of the objects that respects the slots' behaviour will do. *)
Section Checks.
Variables (res : cslot -> Z) (isb : Z -> bool) (flag : Z).
Definition res_ok (c : cslot) : Prop :=
  match cbeh_of c flag with
  | CNil => res c = 0
  | CPass | CWait => res c <> 0 /\ isb (res c) = false
  | CBlock _ => res c <> 0 /\ isb (res c) = true
  | CPanic => True
  end.

(* result: ruleCheckRet when the loop is left, the slot whose iteration said `break`, log, panicked *)
Fixpoint gen_run_checks (cs : list cslot) (rc : Z) (lg : list call) : Z * option cslot * list call * bool :=
  match cs with
  | [] => (rc, None, lg, false)
  | c :: r =>
      let lg' := LCheck (c_id c) :: lg in
      match cbeh_of c flag with
      | CPanic => (rc, None, lg', true)
      | _ => match chain_Entry_check_step (res c) isb rc with
             | (LContinue rc', [(22, [])]) => gen_run_checks r rc' lg'
             | (LBreak rc', [(22, [])]) => (rc', Some c, lg', false)
             | _ => (rc, None, lg', true)
             end
      end
  end.

Definition blk_of (b : option cslot) : option berr :=
  match b with
  | Some c => match cbeh_of c flag with CBlock e => Some e | _ => None end
  | None => None
  end.

Theorem gen_run_checks_ok cs : Forall res_ok cs -> forall rc lg,
  let '(rc', brk, lg', pan) := gen_run_checks cs rc lg in
  run_checks cs flag lg = (blk_of brk, lg', pan) /\
  rc' = match brk with Some c => res c | None => rc end /\
  (match brk with Some c => In c cs /\ exists e, cbeh_of c flag = CBlock e | None => True end).
Proof.
  induction cs as [|c r IH]; intros HF rc lg; [cbn; auto|].
  inversion HF as [|? ? Hc Hr]; subst. specialize (IH Hr).
  cbn [gen_run_checks run_checks]. rewrite chain_Entry_check_step_ok. unfold a0.
  unfold res_ok in Hc. destruct (cbeh_of c flag) eqn:E.
  - destruct Hc as [Hn Hb]. apply Z.eqb_neq in Hn. rewrite Hn, Hb.
    specialize (IH rc (LCheck (c_id c) :: lg)). destruct (gen_run_checks r rc (LCheck (c_id c) :: lg)) as [[[rc' brk] lg'] pan].
    destruct IH as (A & B & C). repeat split; auto. destruct brk; auto. destruct C; split; [right|]; auto.
  - rewrite Hc. cbn [Z.eqb].
    specialize (IH rc (LCheck (c_id c) :: lg)). destruct (gen_run_checks r rc (LCheck (c_id c) :: lg)) as [[[rc' brk] lg'] pan].
    destruct IH as (A & B & C). repeat split; auto. destruct brk; auto. destruct C; split; [right|]; auto.
  - destruct Hc as [Hn Hb]. apply Z.eqb_neq in Hn. rewrite Hn, Hb.
    specialize (IH rc (LCheck (c_id c) :: lg)). destruct (gen_run_checks r rc (LCheck (c_id c) :: lg)) as [[[rc' brk] lg'] pan].
    destruct IH as (A & B & C). repeat split; auto. destruct brk; auto. destruct C; split; [right|]; auto.
  - destruct Hc as [Hn Hb]. apply Z.eqb_neq in Hn. rewrite Hn, Hb.
    cbn [blk_of]. rewrite E. repeat split; auto. left; reflexivity. eexists; reflexivity.
  - cbn [blk_of]. repeat split; auto.
Qed.
End Checks.

(* statistic loop of Entry.  Environment: a recording slot logs what it is told (with the block
   error it is shown) and panics or not as sbeh_of says; the real slot is stat.Slot, whose
   callbacks are the regenerated ones (C01_leaf_check).  be = the block error of the result
   (what `ruleCheckRet.blockErr` reads), blocked = ruleCheckRet.IsBlocked(). *)
(* what the model says the real statistic slot does (Gen-free) *)
Definition pass_spec (rpass : ctx -> nodes_t -> nodes_t) (x : ctx) : Prop :=
  forall nd, rpass x nd = on_nodes nd x (fun c => node_pass c (x_batch x)).
Definition block_spec (rblock : ctx -> nodes_t -> nodes_t) (x : ctx) : Prop :=
  forall nd, rblock x nd = on_nodes nd x (fun c => node_block c (x_batch x)).
Definition done_spec (rdone : ctx -> Z -> nodes_t -> ctx * nodes_t) (x : ctx) (t : Z) : Prop :=
  forall nd, rdone x t nd =
    (set_rt x (t - x_start x), on_nodes nd x (fun c => node_done c (x_batch x) (t - x_start x) (x_err x))).

(* The loops are stated for ANY callbacks rpass / rblock / rdone of the real statistic slot that meet
   these specifications, and instantiated at the end of the file with the regenerated stat.Slot: the
   obligations about slot_chain.go do not depend on stat_slot.go being regenerable. *)
Section Stats.
Variables (rpass rblock : ctx -> nodes_t -> nodes_t) (rdone : ctx -> Z -> nodes_t -> ctx * nodes_t).
Fixpoint gen_run_stats (ss : list sslot) (x : ctx) (blocked : bool) (be : option berr) (nd : nodes_t) (lg : list call)
  : nodes_t * list call * bool :=
  match ss with
  | [] => (nd, lg, false)
  | s :: r =>
      match chain_Entry_stat_step (fun _ => 1) (fun _ => blocked) 1 with
      | (LContinue _, [(26, [])]) =>          (* s.OnEntryPassed(ctx) *)
          if s_real s then gen_run_stats r x blocked be (rpass x nd) lg
          else let lg' := LPassed (s_id s) (x_res x) (x_batch x) :: lg in
               match sbeh_of s (x_flag x) with SOk => gen_run_stats r x blocked be nd lg' | SPanic => (nd, lg', true) end
      | (LContinue _, [(27, [LZ _])]) =>      (* s.OnEntryBlocked(ctx, blockErr) *)
          if s_real s then gen_run_stats r x blocked be (rblock x nd) lg
          else match be with
               | Some e =>
                   let lg' := LBlocked (s_id s) (x_res x) (x_batch x) e :: lg in
                   match sbeh_of s (x_flag x) with SOk => gen_run_stats r x blocked be nd lg' | SPanic => (nd, lg', true) end
               | None => (nd, lg, true)      (* "The block error should not be nil": a nil dereference *)
               end
      | _ => (nd, lg, true)
      end
  end.

Theorem gen_run_stats_ok ss : forall x be nd lg, pass_spec rpass x -> block_spec rblock x ->
  gen_run_stats ss x (match be with Some _ => true | None => false end) be nd lg = run_stats ss x be nd lg.
Proof.
  induction ss as [|s r IH]; intros x be nd lg Hr Hi; [reflexivity|].
  cbn [gen_run_stats run_stats]. rewrite chain_Entry_stat_step_ok. unfold a0, aZ.
  destruct be as [e|].
  - destruct (s_real s).
    + rewrite (Hi nd). exact (IH x (Some e) _ lg Hr Hi).
    + destruct (sbeh_of s (x_flag x)); [exact (IH x (Some e) _ _ Hr Hi) | reflexivity].
  - destruct (s_real s).
    + rewrite (Hr nd). exact (IH x None _ lg Hr Hi).
    + destruct (sbeh_of s (x_flag x)); [exact (IH x None _ _ Hr Hi) | reflexivity].
Qed.

(* the loop of SlotChain.exit: OnCompleted of every statistic slot *)
Fixpoint gen_run_done (ss : list sslot) (x : ctx) (t : Z) (nd : nodes_t) (lg : list call) : nodes_t * list call * bool :=
  match ss with
  | [] => (nd, lg, false)
  | s :: r =>
      match chain_exit_step with
      | (LContinue _, [(28, [])]) =>
          if s_real s then
            let '(x', nd') := rdone x t nd in
            gen_run_done r x' t nd' lg
          else let lg' := LDone (s_id s) (x_res x) (x_batch x) (x_err x) (ctx_rt x t) :: lg in
               match sbeh_of s (x_flag x) with SOk => gen_run_done r x t nd lg' | SPanic => (nd, lg', true) end
      | _ => (nd, lg, true)
      end
  end.

(* OnCompleted writes ctx.rt, so the context changes along the loop: the specification is asked for
   every context that agrees with x on what the statistic slot reads *)
Theorem gen_run_done_ok ss : forall x t nd lg,
  (forall x', x_res x' = x_res x -> x_inb x' = x_inb x -> x_start x' = x_start x -> done_spec rdone x' t) ->
  gen_run_done ss x t nd lg = run_done ss x t nd lg.
Proof.
  induction ss as [|s r IH]; intros x t nd lg H; [reflexivity|].
  cbn [gen_run_done run_done]. rewrite chain_exit_step_ok. unfold a0.
  destruct (s_real s).
  - rewrite (H x eq_refl eq_refl eq_refl nd). apply IH. intros x' E1 E2 E3. apply H; assumption.
  - destruct (sbeh_of s (x_flag x)); [apply IH; assumption | reflexivity].
Qed.
End Stats.

(* ---------------------------------------------------------------------------------- *)
(* 3. SlotChain.Entry: the regenerated frame run with the regenerated loops              *)

Definition set_blk (x : ctx) (b : option Z) : ctx :=
  {| x_entry := x_entry x; x_err := x_err x; x_start := x_start x; x_rt := x_rt x; x_res := x_res x;
     x_inb := x_inb x; x_node := x_node x; x_batch := x_batch x; x_flag := x_flag x;
     x_args := x_args x; x_blk := b; x_rep := x_rep x; x_addr := x_addr x |}.
Definition set_rep (x : ctx) (b : bool) : ctx :=
  {| x_entry := x_entry x; x_err := x_err x; x_start := x_start x; x_rt := x_rt x; x_res := x_res x;
     x_inb := x_inb x; x_node := x_node x; x_batch := x_batch x; x_flag := x_flag x;
     x_args := x_args x; x_blk := x_blk x; x_rep := b; x_addr := x_addr x |}.

(* state while the frame's trace is executed *)
Record fst_t := { f_x : ctx; f_nd : nodes_t; f_lg : list call; f_er : list berr;
                  f_brk : option cslot;    (* the slot whose iteration left the rule-check loop *)
                  f_pan : bool }.          (* a slot panicked: control has left the function body *)

Section Frame.
Variables (ch : chain) (res : cslot -> Z) (isb : Z -> bool) (rpass rblock : ctx -> nodes_t -> nodes_t).

Definition frame_act (st : fst_t) (a : leaf_act) : fst_t :=
  if f_pan st then st else
  let x := f_x st in
  match a with
  | (20, []) => st                                    (* defer: the recover function runs when the body is left *)
  | (31, []) =>                                       (* prepare loop *)
      let '(x1, lg1, pan) := gen_run_preps (preps ch) x (f_lg st) in
      {| f_x := x1; f_nd := f_nd st; f_lg := lg1; f_er := f_er st; f_brk := f_brk st; f_pan := pan |}
  | (32, [LZ rc0]) =>                                 (* rule-check loop, entered with ruleCheckRet = rc0 *)
      let '(_, brk, lg2, pan) := gen_run_checks res isb (x_flag x) (checks ch) rc0 (f_lg st) in
      {| f_x := x; f_nd := f_nd st; f_lg := lg2; f_er := f_er st; f_brk := brk; f_pan := pan |}
  | (23, []) =>                                       (* ctx.RuleCheckResult.ResetToPass() *)
      {| f_x := set_blk x None; f_nd := f_nd st; f_lg := f_lg st; f_er := f_er st; f_brk := f_brk st; f_pan := false |}
  | (24, [LZ _]) =>                                   (* ctx.RuleCheckResult = the blocking slot's result, which
                                                         carries a BlockError object of its own *)
      match blk_of (x_flag x) (f_brk st) with
      | Some e => {| f_x := set_blk x (Some (Z.of_nat (length (f_er st)))); f_nd := f_nd st; f_lg := f_lg st;
                     f_er := f_er st ++ [e]; f_brk := f_brk st; f_pan := false |}
      | None => st
      end
  | (25, [LB b]) =>                                   (* ctx.outcomeReported = b *)
      {| f_x := set_rep x b; f_nd := f_nd st; f_lg := f_lg st; f_er := f_er st; f_brk := f_brk st; f_pan := false |}
  | (33, [LZ r]) =>                                   (* statistic loop, entered with ruleCheckRet = r *)
      let '(nd3, lg3, pan) := gen_run_stats rpass rblock (stats ch) x (isb r) (blk_of (x_flag x) (f_brk st)) (f_nd st) (f_lg st) in
      {| f_x := x; f_nd := nd3; f_lg := lg3; f_er := f_er st; f_brk := f_brk st; f_pan := pan |}
  | _ => st
  end.

(* `pooled` = the context's own (pooled) token result, which ResetToPass leaves at status pass *)
Definition gen_chain_entry (pooled : Z) (x : ctx) (nd : nodes_t) (er : list berr) : entry_res :=
  (* what the rule-check loop leaves in ruleCheckRet, and what is then read back from the context *)
  let '(rc, _, _, _) := gen_run_checks res isb (x_flag x) (checks ch) 0 [] in
  let cres := if rc =? 0 then pooled else rc in
  let '(ret, tr) := chain_Entry_frame (Z.of_nat (length (checks ch))) cres rc
                      (Z.of_nat (length (preps ch))) (Z.of_nat (length (stats ch))) in
  let st := fold_left frame_act
              (norm_frame (Z.of_nat (length (preps ch))) (Z.of_nat (length (checks ch))) (Z.of_nat (length (stats ch))) tr)
              {| f_x := x; f_nd := nd; f_lg := []; f_er := er; f_brk := None; f_pan := false |} in
  (* the deferred function: recover() returns the panic value iff a slot panicked *)
  let x' := if existsb (fun a => fst a =? 29) (chain_Entry_recover (if f_pan st then 1 else 0))
            then set_err (f_x st) PANIC else f_x st in
  {| r_ctx := x'; r_nodes := f_nd st; r_log := f_lg st; r_errs := f_er st;
     r_nil := if f_pan st then true (* the unnamed result of a panicking function *) else (ret =? 0) |}.
End Frame.

(* prepare slots change only the node flag of the context *)
Lemma run_preps_keeps ps : forall x lg,
  let x1 := fst (fst (run_preps ps x lg)) in
  x_flag x1 = x_flag x /\ x_res x1 = x_res x /\ x_inb x1 = x_inb x.
Proof.
  induction ps as [|p r IH]; intros x lg; [cbn; auto|].
  cbn [run_preps]. destruct (pbeh_of p (x_flag x)).
  - apply IH.
  - specialize (IH (set_node x) (LPrep (p_id p) :: lg)). cbn [x_flag x_res x_inb set_node] in IH. exact IH.
  - cbn; auto.
Qed.

(* which slot breaks the rule-check loop, and with what, does not depend on the log *)
Lemma gen_run_checks_log res isb flag cs : forall rc lg1 lg2,
  fst (fst (gen_run_checks res isb flag cs rc lg1)) = fst (fst (gen_run_checks res isb flag cs rc lg2)).
Proof.
  induction cs as [|c r IH]; intros rc lg1 lg2; [reflexivity|].
  cbn [gen_run_checks]. rewrite chain_Entry_check_step_ok. unfold a0.
  destruct (cbeh_of c flag); try reflexivity;
    (destruct (res c =? 0); [apply IH|]; destruct (isb (res c)); [reflexivity | apply IH]).
Qed.

Lemma len0 {A} (l : list A) : (0 <? Z.of_nat (length l)) = false -> l = [].
Proof. destruct l; [reflexivity|]. cbn [length]. intros H. apply Z.ltb_ge in H. lia. Qed.

Lemma set_rep_blk x b : set_rep (set_blk x b) true = set_blk_rep x b.
Proof. reflexivity. Qed.

(* the statistic loop's mark *)
Lemma frame_stat_mark ch res isb rpass rblock x2 be r nd lg2 er2 brk :
  blk_of (x_flag x2) brk = be -> isb r = (match be with Some _ => true | None => false end) ->
  pass_spec rpass x2 -> block_spec rblock x2 ->
  fold_left (frame_act ch res isb rpass rblock) (if 0 <? Z.of_nat (length (stats ch)) then [aZ 33 r] else [])
    {| f_x := x2; f_nd := nd; f_lg := lg2; f_er := er2; f_brk := brk; f_pan := false |} =
  let '(nd3, lg3, pan3) := run_stats (stats ch) x2 be nd lg2 in
  {| f_x := x2; f_nd := nd3; f_lg := lg3; f_er := er2; f_brk := brk; f_pan := pan3 |}.
Proof.
  intros Hb Hi' Hr Hi. destruct (0 <? Z.of_nat (length (stats ch))) eqn:L.
  - cbn [fold_left]. unfold frame_act. cbn [f_pan f_x f_lg f_nd f_er f_brk aZ]. rewrite Hb, Hi'.
    rewrite (gen_run_stats_ok rpass rblock (stats ch) x2 be nd lg2 Hr Hi).
    destruct (run_stats (stats ch) x2 be nd lg2) as [[nd3 lg3] pan3]. reflexivity.
  - apply len0 in L. rewrite L. reflexivity.
Qed.

Theorem gen_chain_entry_ok ch res isb rpass rblock pooled x nd er :
  Forall (res_ok res isb (x_flag x)) (checks ch) -> pooled <> 0 -> isb pooled = false ->
  (forall x', x_res x' = x_res x -> x_inb x' = x_inb x -> pass_spec rpass x' /\ block_spec rblock x') ->
  gen_chain_entry ch res isb rpass rblock pooled x nd er = chain_entry ch x nd er.
Proof.
  intros HF Hp Hpb Hspec. unfold gen_chain_entry, chain_entry.
  pose proof (gen_run_checks_ok res isb (x_flag x) (checks ch) HF 0 []) as H0.
  destruct (gen_run_checks res isb (x_flag x) (checks ch) 0 []) as [[[rc brk0] lg0] pan0] eqn:E0.
  assert (RCN : Z.of_nat (length (checks ch)) = 0 -> rc = 0).
  { intros L. destruct (checks ch); [cbn in E0; inversion E0; reflexivity | cbn [length] in L; lia]. }
  destruct (chain_Entry_frame_ok (Z.of_nat (length (checks ch))) (if rc =? 0 then pooled else rc) rc
              (Z.of_nat (length (preps ch))) (Z.of_nat (length (stats ch)))
              (Nat2Z.is_nonneg _) (Nat2Z.is_nonneg _) (Nat2Z.is_nonneg _) RCN) as [FR FT].
  destruct (chain_Entry_frame (Z.of_nat (length (checks ch))) (if rc =? 0 then pooled else rc) rc
              (Z.of_nat (length (preps ch))) (Z.of_nat (length (stats ch)))) as [ret tr].
  cbn [fst snd] in FR, FT. subst ret. rewrite FT. clear FT tr RCN. unfold entry_frame_spec. cbn [snd].
  (* prepare loop *)
  pose proof (gen_run_preps_ok (preps ch) x []) as P1.
  pose proof (run_preps_keeps (preps ch) x []) as PF.
  destruct (run_preps (preps ch) x []) as [[x1 lg1] pan1] eqn:E1. cbn [fst] in PF. cbv zeta in PF.
  destruct PF as (PF & Hr1' & Hi1').
  assert (Hs1 : forall b, pass_spec rpass (set_blk_rep x1 b) /\ block_spec rblock (set_blk_rep x1 b))
    by (intros b; apply Hspec; cbn [x_res x_inb set_blk_rep]; assumption).
  assert (S1 : fold_left (frame_act ch res isb rpass rblock)
                 ([a0 20] ++ (if 0 <? Z.of_nat (length (preps ch)) then [a0 31] else []))
                 {| f_x := x; f_nd := nd; f_lg := []; f_er := er; f_brk := None; f_pan := false |} =
               {| f_x := x1; f_nd := nd; f_lg := lg1; f_er := er; f_brk := None; f_pan := pan1 |}).
  { destruct (0 <? Z.of_nat (length (preps ch))) eqn:L.
    - cbn [app fold_left]. unfold frame_act at 2. cbn [f_pan a0]. unfold frame_act. cbn [f_pan f_x f_lg f_nd f_er f_brk a0].
      rewrite P1. reflexivity.
    - apply len0 in L. rewrite L in E1. cbn in E1. inversion E1; subst. reflexivity. }
  assert (SK : forall tr st, f_pan st = true -> fold_left (frame_act ch res isb rpass rblock) tr st = st).
  { induction tr as [|a tr IHt]; intros st Hs; [reflexivity|]. cbn [fold_left]. unfold frame_act at 2. rewrite Hs. apply IHt, Hs. }
  rewrite app_assoc, fold_left_app, S1. clear S1.
  destruct pan1.
  { (* a prepare slot panicked: every later action is skipped *)
    rewrite SK by reflexivity. cbn [f_pan f_x f_nd f_lg f_er]. rewrite chain_Entry_recover_ok. reflexivity. }
  (* rule-check loop *)
  rewrite <- PF in *.
  pose proof (gen_run_checks_ok res isb (x_flag x1) (checks ch) HF 0 lg1) as H2.
  destruct (gen_run_checks res isb (x_flag x1) (checks ch) 0 lg1) as [[[rc2 brk] lg2] pan2] eqn:E2.
  destruct H2 as (R2 & RC2 & B2). rewrite R2.
  assert (S2 : fold_left (frame_act ch res isb rpass rblock) (if 0 <? Z.of_nat (length (checks ch)) then [aZ 32 0] else [])
                 {| f_x := x1; f_nd := nd; f_lg := lg1; f_er := er; f_brk := None; f_pan := false |} =
               {| f_x := x1; f_nd := nd; f_lg := lg2; f_er := er; f_brk := brk; f_pan := pan2 |}).
  { destruct (0 <? Z.of_nat (length (checks ch))) eqn:L.
    - cbn [fold_left]. unfold frame_act. cbn [f_pan f_x f_lg f_nd f_er f_brk aZ]. rewrite E2. reflexivity.
    - apply len0 in L. rewrite L in E2. cbn in E2. inversion E2; subst. reflexivity. }
  rewrite fold_left_app, S2. clear S2.
  destruct pan2.
  { rewrite SK by reflexivity. cbn [f_pan f_x f_nd f_lg f_er]. rewrite chain_Entry_recover_ok. reflexivity. }
  (* the rc computed with the empty log is the same (the log is not read) *)
  assert (RCE : rc = rc2 /\ brk0 = brk).
  { pose proof (gen_run_checks_log res isb (x_flag x1) (checks ch) 0 [] lg1) as G. rewrite E0, E2 in G. cbn in G. inversion G; auto. }
  destruct RCE as [-> ->]. clear H0 E0.
  (* the store of the result *)
  assert (RC0 : (if 0 <? Z.of_nat (length (checks ch)) then (if rc2 =? 0 then a0 23 else aZ 24 rc2) else a0 23) =
                (if rc2 =? 0 then a0 23 else aZ 24 rc2)).
  { destruct (0 <? Z.of_nat (length (checks ch))) eqn:L; [reflexivity|]. apply len0 in L. rewrite L in E2. cbn in E2. inversion E2; reflexivity. }
  rewrite RC0. clear RC0.
  destruct brk as [c|].
  - (* blocked by slot c *)
    destruct B2 as (Hin & e & Hc). pose proof (proj1 (Forall_forall _ _) HF c Hin) as Hok. unfold res_ok in Hok. rewrite Hc in Hok.
    destruct Hok as [Hn Hb]. subst rc2. apply Z.eqb_neq in Hn. rewrite Hn.
    cbn [app fold_left blk_of]. rewrite Hc.
    assert (S3 : frame_act ch res isb rpass rblock (frame_act ch res isb rpass rblock
                   {| f_x := x1; f_nd := nd; f_lg := lg2; f_er := er; f_brk := Some c; f_pan := false |} (aZ 24 (res c))) (aB 25 true) =
                 {| f_x := set_blk_rep x1 (Some (Z.of_nat (length er))); f_nd := nd; f_lg := lg2; f_er := er ++ [e];
                    f_brk := Some c; f_pan := false |}).
    { unfold frame_act. cbn [f_pan f_x f_lg f_nd f_er f_brk aZ aB blk_of]. rewrite Hc. cbn [f_pan f_x f_lg f_nd f_er f_brk]. reflexivity. }
    rewrite S3. clear S3.
    rewrite (frame_stat_mark ch res isb rpass rblock (set_blk_rep x1 (Some (Z.of_nat (length er)))) (Some e) (res c) nd lg2 (er ++ [e]) (Some c));
      [| cbn [blk_of x_flag set_blk_rep]; rewrite Hc; reflexivity | exact Hb | apply Hs1 | apply Hs1].
    destruct (run_stats (stats ch) (set_blk_rep x1 (Some (Z.of_nat (length er)))) (Some e) nd lg2) as [[nd3 lg3] pan3].
    cbn [f_pan f_x f_nd f_lg f_er]. rewrite chain_Entry_recover_ok, Hn. destruct pan3; reflexivity.
  - (* passed *)
    subst rc2. cbn [Z.eqb app fold_left blk_of].
    assert (S3 : frame_act ch res isb rpass rblock (frame_act ch res isb rpass rblock
                   {| f_x := x1; f_nd := nd; f_lg := lg2; f_er := er; f_brk := None; f_pan := false |} (a0 23)) (aB 25 true) =
                 {| f_x := set_blk_rep x1 None; f_nd := nd; f_lg := lg2; f_er := er; f_brk := None; f_pan := false |}).
    { unfold frame_act. cbn [f_pan f_x f_lg f_nd f_er f_brk a0 aB]. reflexivity. }
    rewrite S3. clear S3.
    rewrite (frame_stat_mark ch res isb rpass rblock (set_blk_rep x1 None) None pooled nd lg2 er None);
      [| reflexivity | exact Hpb | apply Hs1 | apply Hs1].
    destruct (run_stats (stats ch) (set_blk_rep x1 None) None nd lg2) as [[nd3 lg3] pan3].
    cbn [f_pan f_x f_nd f_lg f_er]. rewrite chain_Entry_recover_ok. apply Z.eqb_neq in Hp. rewrite Hp. destruct pan3; reflexivity.
Qed.

(* ---------------------------------------------------------------------------------- *)
(* 4. SlotChain.exit and the handler loop of SentinelEntry.Exit                          *)

(* the regenerated SlotChain.exit with the regenerated EntryContext.IsBlocked / TokenResult.IsBlocked
   and the regenerated loop: nothing for a blocked context, else OnCompleted of every statistic slot -
   the `match x_blk x1 with Some _ => ... | None => run_done ...` of the model's do_exit.
   References: the context's entry is x_entry + 1 (0 = nil), its result object is never nil (1),
   the result's status is 1 (blocked) iff x_blk is set. *)
Definition gen_chain_exit (rdone : ctx -> Z -> nodes_t -> ctx * nodes_t) (ch : chain) (x : ctx) (t : Z) (nd : nodes_t) (lg : list call) : nodes_t * list call * bool :=
  let status := match x_blk x with Some _ => 1 | None => 0 end in
  match chain_exit (ctx_IsBlocked 1 (tokenResult_IsBlocked status)) (x_entry x + 1) false with
  | [] => (nd, lg, false)
  | [(33, [])] => gen_run_done rdone (stats ch) x t nd lg
  | _ => (nd, lg, true)
  end.

Theorem gen_chain_exit_ok rdone ch x t nd lg : x_entry x <> -1 ->
  (forall x', x_res x' = x_res x -> x_inb x' = x_inb x -> x_start x' = x_start x -> done_spec rdone x' t) ->
  gen_chain_exit rdone ch x t nd lg =
  match x_blk x with Some _ => (nd, lg, false) | None => run_done (stats ch) x t nd lg end.
Proof.
  intros He Hd. unfold gen_chain_exit. rewrite chain_exit_ok, ctx_IsBlocked_ok, tokenResult_IsBlocked_ok.
  assert (E : (x_entry x + 1 =? 0) = false) by (apply Z.eqb_neq; lia). rewrite E.
  destruct (x_blk x); cbn [orb Z.eqb]; [reflexivity|]. unfold a0. apply gen_run_done_ok; assumption.
Qed.

(* the handler loop: every handler is called, in order, whatever it does - an error is logged, a
   panic is recovered by runExitHandler's own deferred function (it is deferred before the call) and
   the loop goes on: the model's run_handlers never reports a panic (HErr = returns an error) *)
Fixpoint gen_run_handlers (hs : list (Z * hbeh)) (lg : list call) : list call * bool :=
  match hs with
  | [] => (lg, false)
  | (id, b) :: r =>
      let lg' := LHandler id :: lg in
      match entry_Exit_handler_step with
      | (LContinue _, [(48, [])]) =>
          match entry_runExitHandler (match b with HErr => 1 | _ => 0 end) with
          | [(20, []); (44, [])] =>     (* defer recover; handler(e, ctx): a panic of the handler is caught here *)
              match b, entry_runExitHandler_recover (match b with HPanic => 1 | _ => 0 end) with
              | _, [(30, [])] => gen_run_handlers r lg'
              | _, _ => (lg', true)
              end
          | _ => (lg', true)            (* no recover in place before the call: a panic would leave the loop *)
          end
      | _ => (lg', false)
      end
  end.

Theorem gen_run_handlers_ok hs : forall lg, gen_run_handlers hs lg = run_handlers hs lg.
Proof.
  induction hs as [|[id b] r IH]; intros lg; [reflexivity|].
  cbn [gen_run_handlers run_handlers].
  rewrite entry_Exit_handler_step_ok, entry_runExitHandler_ok, entry_runExitHandler_recover_ok. unfold a0.
  destruct b; apply IH.
Qed.

(* ---------------------------------------------------------------------------------- *)
(* non-vacuity of the naming hypothesis of gen_run_checks_ok / gen_chain_entry_ok: token results
   named 4 + status (pass 0, blocked 1, should-wait 2), nil = 0, IsBlocked = the regenerated one *)
Definition res_std (flag : Z) (c : cslot) : Z :=
  match cbeh_of c flag with CNil | CPanic => 0 | CPass => 4 | CBlock _ => 5 | CWait => 6 end.
Definition isb_std (r : Z) : bool := tokenResult_IsBlocked (r - 4).

Lemma res_std_ok flag cs : Forall (res_ok (res_std flag) isb_std flag) cs.
Proof.
  apply Forall_forall. intros c _. unfold res_ok, res_std, isb_std. rewrite tokenResult_IsBlocked_ok.
  destruct (cbeh_of c flag); cbn; auto; split; auto; discriminate.
Qed.

(* ---------------------------------------------------------------------------------- *)
(* 5. the real statistic slot = the regenerated stat.Slot (C01_leaf_check)               *)

Definition gen_rpass (ft : Z) (x : ctx) (nd : nodes_t) : nodes_t :=
  snd (slot_acts stat_recordPassFor stat_recordBlockFor stat_recordCompleteFor (stat_OnEntryPassed (x_batch x) ft INB (node_id x)) (x, nd)).
Definition gen_rblock (ft : Z) (x : ctx) (nd : nodes_t) : nodes_t :=
  snd (slot_acts stat_recordPassFor stat_recordBlockFor stat_recordCompleteFor (stat_OnEntryBlocked (x_batch x) ft INB (node_id x)) (x, nd)).
Definition gen_rdone (ft : Z) (x : ctx) (t : Z) (nd : nodes_t) : ctx * nodes_t :=
  slot_acts stat_recordPassFor stat_recordBlockFor stat_recordCompleteFor (stat_OnCompleted (x_batch x) (x_err x) ft INB t (x_start x) (node_id x)) (x, nd).

Lemma gen_rpass_ok ft x : x_res x <> NILNODE -> x_inb x = (ft =? 0) -> pass_spec (gen_rpass ft) x.
Proof. intros Hr Hi nd. unfold gen_rpass. rewrite (stat_OnEntryPassed_ok x nd ft Hr Hi). reflexivity. Qed.
Lemma gen_rblock_ok ft x : x_res x <> NILNODE -> x_inb x = (ft =? 0) -> block_spec (gen_rblock ft) x.
Proof. intros Hr Hi nd. unfold gen_rblock. rewrite (stat_OnEntryBlocked_ok x nd ft Hr Hi). reflexivity. Qed.
Lemma gen_rdone_ok ft x t : x_res x <> NILNODE -> x_inb x = (ft =? 0) -> 0 <= x_start x <= t -> t < two63 ->
  done_spec (gen_rdone ft) x t.
Proof. intros Hr Hi H1 H2 nd. unfold gen_rdone. exact (stat_OnCompleted_ok x nd ft t Hr Hi H1 H2). Qed.

(* the loops, SlotChain.Entry and SlotChain.exit with the regenerated statistic slot *)
Corollary gen_run_stats_std ft ss x be nd lg : x_res x <> NILNODE -> x_inb x = (ft =? 0) ->
  gen_run_stats (gen_rpass ft) (gen_rblock ft) ss x (match be with Some _ => true | None => false end) be nd lg =
  run_stats ss x be nd lg.
Proof. intros Hr Hi. apply gen_run_stats_ok; [apply gen_rpass_ok | apply gen_rblock_ok]; assumption. Qed.

Corollary gen_run_done_std ft ss x t nd lg : x_res x <> NILNODE -> x_inb x = (ft =? 0) ->
  0 <= x_start x <= t -> t < two63 ->
  gen_run_done (gen_rdone ft) ss x t nd lg = run_done ss x t nd lg.
Proof.
  intros Hr Hi H1 H2. apply gen_run_done_ok. intros x' E1 E2 E3.
  apply gen_rdone_ok; rewrite ?E1, ?E2, ?E3; assumption.
Qed.

Corollary gen_chain_entry_std ch ft x nd er : x_res x <> NILNODE -> x_inb x = (ft =? 0) ->
  gen_chain_entry ch (res_std (x_flag x)) isb_std (gen_rpass ft) (gen_rblock ft) 4 x nd er = chain_entry ch x nd er.
Proof.
  intros Hr Hi. apply gen_chain_entry_ok; [apply res_std_ok | discriminate | reflexivity |].
  intros x' E1 E2. split; [apply gen_rpass_ok | apply gen_rblock_ok]; rewrite ?E1, ?E2; assumption.
Qed.

Corollary gen_chain_exit_std ft ch x t nd lg : x_entry x <> -1 -> x_res x <> NILNODE -> x_inb x = (ft =? 0) ->
  0 <= x_start x <= t -> t < two63 ->
  gen_chain_exit (gen_rdone ft) ch x t nd lg =
  match x_blk x with Some _ => (nd, lg, false) | None => run_done (stats ch) x t nd lg end.
Proof.
  intros He Hr Hi H1 H2. apply gen_chain_exit_ok; [exact He|]. intros x' E1 E2 E3.
  apply gen_rdone_ok; rewrite ?E1, ?E2, ?E3; assumption.
Qed.

(* the parameters are positional: pin their NAMES *)
Section ParamNames.
Import Coq.Strings.String.
Local Open Scope string_scope.
Local Open Scope list_scope.
Lemma chain_Entry_frame_params : LeafParams.chain_Entry_frame = "checks_len" :: "ctx_result" :: "loop2_out_0" :: "preps_len" :: "stats_len" :: nil.
Proof. reflexivity. Qed.
Lemma chain_exit_params : LeafParams.chain_exit = "ctx_blocked" :: "ctx_entry" :: "ctx_nil" :: nil.
Proof. reflexivity. Qed.
Lemma chain_EntryPassedOnPanic_params : LeafParams.chain_EntryPassedOnPanic = "ctx_nil" :: "ctx_outcomeReported" :: "ctx_result" :: "new_pass" :: nil.
Proof. reflexivity. Qed.
Lemma entry_Exit_once_params : LeafParams.entry_Exit_once = "opt_err" :: "sc" :: nil.
Proof. reflexivity. Qed.
Lemma api_entry_params : LeafParams.api_entry = "args_copy" :: "args_len" :: "attachments_len" :: "block_err_of" :: "chain" :: "chain_res" :: "copied_err" :: "entryType" :: "new_entry" :: "options_batchCount" :: "options_flag" :: "resourceType" :: "status_of" :: nil.
Proof. reflexivity. Qed.
End ParamNames.

Print Assumptions chain_Entry_check_step_ok.
Print Assumptions chain_Entry_stat_step_ok.
Print Assumptions chain_Entry_frame_ok.
Print Assumptions chain_Entry_recover_ok.
Print Assumptions chain_EntryPassedOnPanic_ok.
Print Assumptions chain_exit_ok.
Print Assumptions entry_Exit_once_ok.
Print Assumptions entry_Exit_deferred_ok.
Print Assumptions api_entry_ok.
Print Assumptions gen_run_preps_ok.
Print Assumptions gen_run_checks_ok.
Print Assumptions gen_run_stats_ok.
Print Assumptions gen_run_done_ok.
Print Assumptions gen_chain_entry_ok.
Print Assumptions gen_chain_entry_std.
Print Assumptions gen_run_stats_std.
Print Assumptions gen_run_done_std.
Print Assumptions gen_chain_exit_std.
Print Assumptions gen_chain_exit_ok.
Print Assumptions gen_run_handlers_ok.
