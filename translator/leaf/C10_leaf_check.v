(* C10 leaf obligations: the Gallina regenerated from core/flow/tc_throttling.go on every run
   (Gen.Leaf_gen, written by translator/leaf) is, for ALL inputs, the function the C10 theorems are
   about:

     throttling_DoCheck_step   = ThrottlingChecker.DoCheck: the prologue (batch / threshold guards,
                                 the clock read, intervalNs) followed by ONE iteration of the
                                 compare-and-swap loop.  atomic.LoadInt64 enters as `loaded`, the
                                 outcome of atomic.CompareAndSwapInt64 as `cas_ok`; the CAS operands
                                 (expected old value, published pass time) come back in the action
                                 trace as (1, [old; new]).  Result: LReturn (0,0) nil = pass,
                                 LReturn (1,0) blocked, LReturn (2,ns) should wait ns, LContinue tt
                                 = retry.
     throttling_New            = NewThrottlingChecker: (maxQueueingTimeNs, statIntervalNs, lastPassedTime).
     flow_Slot_Check_step      = flow.Slot.Check: one iteration of its loop over the controllers
                                 (the sleep for a should-wait result is action (1, [ns])).

   Layers: (1) Gen = a direct transcription with the int64 wrap-around [step_w], for all inputs,
   by case analysis only; (2) inside the no-wrap range the model is stated for (meta/C10.json:
   virtual times below 2^62 ns) step_w is the wrap-free [step_spec]; (3) step_spec is the
   sequential model's do_check (Model/Throttle.v, cas_ok = true, loaded = last) and the three
   pc-steps Start / 201 / 202 of the concurrent machine (Model/ThrottleConc.v) with the shared
   variable's values at the Load and at the CAS as inputs - so every C10 theorem is about the
   function the source computes. *)
From Coq Require Import ZArith Bool Lia Floats List.
From SG Require Import Base.Prelude Base.GoInt Base.GoFloat Model.Throttle Model.ThrottleConc.
From Gen Require Import Leaf_gen.
Import ListNotations.
#[local] Open Scope Z_scope.

(* int64(math.Ceil(f)) of the translator's preamble is the model's go_ceil_i64 *)
Lemma leaf_i64_of_ceil_ok f : leaf_i64_of_ceil f = go_ceil_i64 f.
Proof. reflexivity. Qed.

Definition flowT : Type := (leaf_flow (Z * Z) unit * list leaf_act)%type.
Definition cas_act (old new : Z) : leaf_act := (1, [LZ old; LZ new]).

(* ---- (1) direct transcription, int64 wrap-around kept ---- *)
Definition step_w (c : cfg) (b now loaded : Z) (cas_ok : bool) : flowT :=
  if b <=? 0 then (LReturn (0, 0), [])
  else if early_block c b then (LReturn (1, 0), [])
  else
    let cur := i64 now in
    let p0 := i64 (loaded + interval c b) in
    let pass := if p0 <? cur then cur else p0 in
    let wait := i64 (pass - cur) in
    if maxq_ns c <? wait then (LReturn (1, 0), [])
    else if cas_ok then (LReturn (if wait =? 0 then (0, 0) else (2, wait)), [cas_act loaded pass])
    else (LContinue tt, [cas_act loaded pass]).

(* case analysis on every comparison that occurs in the goal (each is destructed once, wherever it
   occurs, so re-associated / negated / reordered tests on the Go side reach the same leaves);
   leaves with contradictory integer tests are closed by lia *)
Ltac bool_hyps :=
  repeat match goal with
         | H : negb _ = true |- _ => apply negb_true_iff in H
         | H : negb _ = false |- _ => apply negb_false_iff in H
         | H : (_ >=? _) = _ |- _ => rewrite Z.geb_leb in H
         | H : (_ >? _) = _ |- _ => rewrite Z.gtb_ltb in H
         | H : (_ <? _) = true |- _ => apply Z.ltb_lt in H
         | H : (_ <? _) = false |- _ => apply Z.ltb_ge in H
         | H : (_ <=? _) = true |- _ => apply Z.leb_le in H
         | H : (_ <=? _) = false |- _ => apply Z.leb_gt in H
         | H : (_ =? _) = true |- _ => apply Z.eqb_eq in H
         | H : (_ =? _) = false |- _ => apply Z.eqb_neq in H
         end.
(* destruct a comparison everywhere: in the goal and in the equations recorded so far *)
Ltac dcmp c :=
  let H := fresh "Hc" in
  destruct c eqn:H;
  repeat match goal with
         | H' : context [c] |- _ => lazymatch H' with H => fail | _ => rewrite H in H'; cbv iota in H' end
         end.
(* x <= y and y <= x: the two are equal (a test written with < or with <= on a tie) *)
Ltac derive_eqs :=
  repeat match goal with
         | H1 : ?a <= ?b, H2 : ?b <= ?a |- _ =>
             let E := fresh "E" in assert (E : a = b) by lia; clear H1 H2; try rewrite E in *
         end.
(* innermost first: a comparison whose operands still contain a conditional is left for later *)
Ltac no_if t := lazymatch t with context [if _ then _ else _] => fail | _ => idtac end.
Ltac split_cmp :=
  rewrite ?Z.geb_leb, ?Z.gtb_ltb;
  repeat (match goal with
          | |- context [PrimFloat.leb ?a ?b] => no_if a; no_if b; dcmp (PrimFloat.leb a b)
          | |- context [PrimFloat.ltb ?a ?b] => no_if a; no_if b; dcmp (PrimFloat.ltb a b)
          | |- context [PrimFloat.eqb ?a ?b] => no_if a; no_if b; dcmp (PrimFloat.eqb a b)
          | |- context [Z.ltb ?a ?b] => no_if a; no_if b; dcmp (Z.ltb a b)
          | |- context [Z.leb ?a ?b] => no_if a; no_if b; dcmp (Z.leb a b)
          | |- context [Z.eqb ?a ?b] => no_if a; no_if b; dcmp (Z.eqb a b)
          | |- context [if ?c then _ else _] => no_if c; dcmp c
          end; cbn [orb andb negb]);
  try reflexivity; try discriminate;
  try (bool_hyps; derive_eqs; first [reflexivity | exfalso; lia | repeat f_equal; lia]).

Lemma throttling_DoCheck_step_w c b now loaded cas_ok owner_nonnil :
  throttling_DoCheck_step b (maxq_ns c) (ival_ns c) cas_ok loaded now owner_nonnil (thr c)
  = step_w c b now loaded cas_ok.
Proof.
  unfold throttling_DoCheck_step, step_w, early_block, interval, interval_f, cas_act.
  rewrite !leaf_i64_of_ceil_ok. cbv zeta.
  destruct owner_nonnil; split_cmp.
Qed.

(* ---- (2) the wrap-free specification and the range in which it is the code ---- *)
Definition step_spec (c : cfg) (b now loaded : Z) (cas_ok : bool) : flowT :=
  if b <=? 0 then (LReturn (0, 0), [])
  else if early_block c b then (LReturn (1, 0), [])
  else
    let pass := pass_of (interval c) loaded now b in
    let wait := pass - now in
    if wait >? maxq_ns c then (LReturn (1, 0), [])
    else if cas_ok then (LReturn (if wait =? 0 then (0, 0) else (2, wait)), [cas_act loaded pass])
    else (LContinue tt, [cas_act loaded pass]).

(* the clock reading is a non-negative int64 and loaded + interval does not wrap *)
Definition no_wrap (c : cfg) (b now loaded : Z) : Prop :=
  0 <= now < two63 /\ - two63 <= loaded + interval c b < two63.

Lemma step_w_spec c b now loaded cas_ok : no_wrap c b now loaded ->
  step_w c b now loaded cas_ok = step_spec c b now loaded cas_ok.
Proof.
  intros [Hn Hl]. unfold step_w, step_spec, pass_of.
  destruct (b <=? 0); [reflexivity|]. destruct (early_block c b); [reflexivity|]. cbv zeta.
  rewrite (i64_id now) by (unfold in_i64; lia).
  rewrite (i64_id (loaded + interval c b)) by (unfold in_i64; lia).
  assert (Hp : (if loaded + interval c b <? now then now else loaded + interval c b)
               = Z.max (loaded + interval c b) now).
  { destruct (loaded + interval c b <? now) eqn:E; [apply Z.ltb_lt in E|apply Z.ltb_ge in E]; lia. }
  rewrite Hp.
  rewrite (i64_id (Z.max (loaded + interval c b) now - now)) by (unfold in_i64; lia).
  rewrite Z.gtb_ltb. reflexivity.
Qed.

Theorem throttling_DoCheck_step_ok c b now loaded cas_ok owner_nonnil : no_wrap c b now loaded ->
  throttling_DoCheck_step b (maxq_ns c) (ival_ns c) cas_ok loaded now owner_nonnil (thr c)
  = step_spec c b now loaded cas_ok.
Proof. intros H. rewrite throttling_DoCheck_step_w. apply step_w_spec, H. Qed.

(* ---- (3a) the sequential model: DoCheck with nobody interfering ---- *)
Definition res_of_out (o : out) : Z * Z :=
  match o with OZero => (0, 0) | OBlock => (1, 0) | OPass w => if w =? 0 then (0, 0) else (2, w) end.

(* one uncontended iteration is do_check: same outcome, and the value the successful CAS
   publishes (expected old value = the stored time) is the new lastPassedTime of the model *)
Theorem throttling_DoCheck_seq c b now last owner_nonnil : no_wrap c b now last ->
  throttling_DoCheck_step b (maxq_ns c) (ival_ns c) true last now owner_nonnil (thr c)
  = let '(last', o) := do_check_c c last now b in
    (LReturn (res_of_out o), match o with OPass _ => [cas_act last last'] | _ => [] end).
Proof.
  intros H. rewrite (throttling_DoCheck_step_ok _ _ _ _ _ _ H).
  unfold step_spec, do_check_c, do_check, pass_of.
  destruct (b <=? 0); [reflexivity|]. destruct (early_block c b); [reflexivity|]. cbv zeta.
  destruct (Z.max (last + interval c b) now - now >? maxq_ns c); reflexivity.
Qed.

(* ---- (3b) the concurrent pc machine: Start, 201 (Load), 202 (CAS) ---- *)
Definition tstep_c (c : cfg) := tstep (early_block c) (interval c) (maxq_ns c).

(* the caller's steps from Start, the shared variable holding [l1] at its Load and [l2] at its
   CAS: outcome (or retry) and the shared value afterwards *)
Definition from_start (c : cfg) (tid : nat) (b clock l0 l1 l2 : Z) : leaf_flow (Z * Z) unit * Z :=
  let '(_, th1, _) := tstep_c c tid l0 clock (mk_thread b) in
  match t_out th1 with
  | Some o => (LReturn (res_of_out o), l2)
  | None =>
      let '(_, th2, _) := tstep_c c tid l1 clock th1 in
      match t_out th2 with
      | Some o => (LReturn (res_of_out o), l2)
      | None =>
          let '(l3, th3, _) := tstep_c c tid l2 clock th2 in
          (match t_out th3 with Some o => LReturn (res_of_out o) | None => LContinue tt end, l3)
      end
  end.

(* what the trace says about the shared variable: a successful CAS(old, new) writes new *)
Definition apply_trace (cas_ok : bool) (l : Z) (tr : list leaf_act) : Z :=
  match tr with
  | [(_, [LZ _; LZ new])] => if cas_ok then new else l
  | _ => l
  end.

Theorem throttling_DoCheck_conc_start c tid b clock l0 l1 l2 owner_nonnil : no_wrap c b clock l1 ->
  let r := throttling_DoCheck_step b (maxq_ns c) (ival_ns c) (l2 =? l1) l1 clock owner_nonnil (thr c) in
  (fst r, apply_trace (l2 =? l1) l2 (snd r)) = from_start c tid b clock l0 l1 l2.
Proof.
  intros H. cbv zeta. rewrite (throttling_DoCheck_step_ok _ _ _ _ _ _ H).
  unfold step_spec, from_start, tstep_c, tstep, mk_thread, done, goto, pass_of, apply_trace, cas_act.
  cbn [t_pc t_b t_now t_loaded t_out].
  destruct (b <=? 0); [reflexivity|]. destruct (early_block c b); [reflexivity|].
  cbn [t_pc t_b t_now t_loaded t_out]. cbv zeta.
  destruct (Z.max (l1 + interval c b) clock - clock >? maxq_ns c); cbn [t_pc t_b t_now t_loaded t_out fst snd];
    [reflexivity|].
  destruct (l2 =? l1); reflexivity.
Qed.

(* a retry: the caller is back at 201 with its clock reading kept (b >= 1 and not early-blocked,
   which is how it got there) *)
Definition from_201 (c : cfg) (tid : nat) (th : thread) (l1 l2 : Z) : leaf_flow (Z * Z) unit * Z :=
  let '(_, th2, _) := tstep_c c tid l1 0 th in
  match t_out th2 with
  | Some o => (LReturn (res_of_out o), l2)
  | None =>
      let '(l3, th3, _) := tstep_c c tid l2 0 th2 in
      (match t_out th3 with Some o => LReturn (res_of_out o) | None => LContinue tt end, l3)
  end.

Theorem throttling_DoCheck_conc_retry c tid th l1 l2 owner_nonnil :
  t_pc th = P201 -> t_out th = None -> (t_b th <=? 0) = false -> early_block c (t_b th) = false ->
  no_wrap c (t_b th) (t_now th) l1 ->
  let r := throttling_DoCheck_step (t_b th) (maxq_ns c) (ival_ns c) (l2 =? l1) l1 (t_now th) owner_nonnil (thr c) in
  (fst r, apply_trace (l2 =? l1) l2 (snd r)) = from_201 c tid th l1 l2.
Proof.
  intros Hpc Ho Hb He H. cbv zeta. rewrite (throttling_DoCheck_step_ok _ _ _ _ _ _ H).
  unfold step_spec, from_201, tstep_c, tstep, done, goto, pass_of, apply_trace, cas_act.
  rewrite Hpc, Hb, He. cbv zeta.
  destruct (Z.max (l1 + interval c (t_b th)) (t_now th) - t_now th >? maxq_ns c);
    cbn [t_pc t_b t_now t_loaded t_out fst snd]; [reflexivity|].
  destruct (l2 =? l1); reflexivity.
Qed.

(* ---- NewThrottlingChecker: the ms -> ns conversions (uint32 inputs: no int64 wrap) ---- *)
Theorem throttling_New_ok T timeout_ms stat_ms : in_u32 timeout_ms -> in_u32 stat_ms ->
  throttling_New stat_ms timeout_ms
  = (maxq_ns (mk_cfg T timeout_ms stat_ms), ival_ns (mk_cfg T timeout_ms stat_ms), last0).
Proof.
  intros Ht Hs. unfold throttling_New, mk_cfg, ms_to_ns, last0. cbn [maxq_ns ival_ns]. cbv zeta.
  assert (B : forall x, in_u32 x -> i64 (x * 1000000) = x * 1000000).
  { intros x Hx. apply i64_id. unfold in_i64, in_u32 in *. Transparent two63 two32. unfold two63, two32 in *. lia. }
  assert (B1 : in_u32 1000) by (unfold in_u32, two32; lia).
  rewrite ?(Z.mul_comm 1000000), ?(B timeout_ms Ht), ?(B stat_ms Hs), ?(B 1000 B1). split_cmp.
Qed.

(* ---- flow.Slot.Check: what the slot does with the checker's result (one iteration of its loop over
   the resource's controllers): blocked -> returned at once; should-wait with a positive wait ->
   util.Sleep(wait) is action (1, [ns]) and the next controller is checked; nil -> next controller.
   On the result DoCheck returns for a model outcome this is the observation obs_of of
   Model/Throttle.v: Block, or Pass w with the sleep requested exactly when w > 0. ---- *)
Definition slot_step_spec (nanos : Z) (r_nil : bool) (status : Z) (tc_nil : bool) : leaf_flow Z unit * list leaf_act :=
  if tc_nil || r_nil then (LContinue tt, [])
  else if status =? 1 then (LReturn 1, [])                                     (* ResultStatusBlocked *)
  else if (status =? 2) && (0 <? nanos) then (LContinue tt, [(1, [LZ nanos])])  (* ResultStatusShouldWait *)
  else (LContinue tt, []).

Theorem flow_Slot_Check_step_all nanos r_nil status tc_nil :
  flow_Slot_Check_step nanos r_nil status tc_nil = slot_step_spec nanos r_nil status tc_nil.
Proof.
  unfold flow_Slot_Check_step, slot_step_spec. cbv zeta.
  destruct tc_nil, r_nil; cbn [orb]; try reflexivity. split_cmp.
Qed.

Definition slot_on (r : Z * Z) : leaf_flow Z unit * list leaf_act :=
  flow_Slot_Check_step (snd r) (fst r =? 0) (fst r) false.

Theorem flow_Slot_Check_step_ok o :
  slot_on (res_of_out o)
  = match obs_of o with
    | Block => (LReturn 1, [])
    | Pass w => (LContinue tt, if 0 <? w then [(1, [LZ w])] else [])
    end.
Proof.
  unfold slot_on, flow_Slot_Check_step, res_of_out, obs_of.
  destruct o as [|w|]; cbn [fst snd]; try reflexivity.
  destruct (w =? 0) eqn:E; cbn [fst snd]; split_cmp.
Qed.

(* non-vacuity of the range hypothesis: 10 tokens/s, second request 30 ms after the first *)
Example no_wrap_nonvacuous :
  no_wrap (mk_cfg 10%float 500 1000) 1 1700000000030000000 1700000000000000000.
Proof. unfold no_wrap. Transparent two63. vm_compute. intuition discriminate. Qed.

Print Assumptions throttling_DoCheck_step_w.
Print Assumptions throttling_DoCheck_step_ok.
Print Assumptions throttling_DoCheck_seq.
Print Assumptions throttling_DoCheck_conc_start.
Print Assumptions throttling_DoCheck_conc_retry.
Print Assumptions throttling_New_ok.
Print Assumptions flow_Slot_Check_step_all.
Print Assumptions flow_Slot_Check_step_ok.
