// Targets of the metric-log / datasource cluster (C17, C18); statement forms of ext_io.go.
package main

func init() {
	const mdir = "core/log/metric"
	const ddir = "ext/datasource"
	targets = append(targets,
		// =============================== C17: writer.go ===============================
		// isNewDay: (sec + zone) / 86400 > (lastSec + zone) / 86400, Go's truncating int64 division
		target{Dir: mdir, Func: "DefaultMetricLogWriter.isNewDay", Name: "ml_isNewDay"},
		// Write: the error code and the ORDER of the effects.  Trace: 1 = item.Timestamp = ts (for each item) [ts],
		// 2 = rollToNextFile [ts], 3 = FilePosition(curMetricFile) (its value is the parameter pos_0), 4 = writeIndex
		// [sec, pos], 5 = writeItemsAndFlush, 6 = rollFileIfSizeExceeded [ts], 7 = latestOpSec = v [v]
		target{Dir: mdir, Func: "DefaultMetricLogWriter.Write", Name: "ml_Write", IO: true,
			Hints: map[string]hint{
				"len(items) == 0": {"items_empty", "bool"},
				"d.curMetricFile == nil || d.curMetricIdxFile == nil": {"files_nil", "bool"}},
			Inline:  []string{"DefaultMetricLogWriter.isNewDay"},
			Effects: []string{"d.mux.Lock("},
			Acts: map[string]act{
				"d.rollToNextFile":         {Tag: 2, Keep: []int{0}},
				"util.FilePosition":        {Tag: 3},
				"d.writeIndex":             {Tag: 4, Keep: []int{0, 1}},
				"d.writeItemsAndFlush":     {Tag: 5},
				"d.rollFileIfSizeExceeded": {Tag: 6, Keep: []int{0}}},
			Rets: map[string]hint{
				"d.rollToNextFile":         {"roll_err", "opaque"},
				"util.FilePosition":        {"pos", "int64,opaque"},
				"d.writeIndex":             {"idx_err", "opaque"},
				"d.writeItemsAndFlush":     {"write_err", "opaque"},
				"d.rollFileIfSizeExceeded": {"size_err", "opaque"}},
			IOStores: map[string]act{
				"item.Timestamp": {Tag: 1, Keep: []int{0}},
				"d.latestOpSec":  {Tag: 7, Keep: []int{0}}}},
		// rollFileIfSizeExceeded: the size test; trace: 2 = rollToNextFile [time]
		target{Dir: mdir, Func: "DefaultMetricLogWriter.rollFileIfSizeExceeded", Name: "ml_rollFileIfSizeExceeded", IO: true,
			Hints: map[string]hint{
				"d.curMetricFile == nil": {"file_nil", "bool"},
				"stat.Size()":            {"size", "int64"}},
			Acts: map[string]act{"d.rollToNextFile": {Tag: 2, Keep: []int{0}}},
			Rets: map[string]hint{
				"d.curMetricFile.Stat": {"stat", "opaque,opaque"},
				"d.rollToNextFile":     {"roll_err", "error"}}},
		// nextFileNameOfTime: which name is formed.  Trace: 1 = listMetricFilesConditional, 2 = filepath.Join(baseDir,
		// pattern) (the plain name), 3 = Sprintf("%s.%d", pattern, n+1) [n+1]; the string parsing enters as suffix_0 /
		// suffix_1_nil (strconv.ParseUint of the last dot-separated component of the newest name)
		target{Dir: mdir, Func: "DefaultMetricLogWriter.nextFileNameOfTime", Name: "ml_nextFileNameOfTime", IO: true,
			Hints: map[string]hint{
				"util.FormatDate(time)":                 {"", "opaque"},
				`d.baseFilename + "." + dateStr`:        {"", "opaque"},
				"len(list) == 0":                        {"list_empty", "bool"},
				"list[len(list)-1]":                     {"", "opaque"},
				`strings.Split(last, ".")`:              {"", "opaque"},
				"len(items)":                            {"items_len", "int"},
				"filepath.Join(d.baseDir, filePattern)": {"", "opaque"}},
			Acts: map[string]act{
				"listMetricFilesConditional":            {Tag: 1},
				"filepath.Join(d.baseDir, filePattern)": {Tag: 2},
				"fmt.Sprintf":                           {Tag: 3, Keep: []int{2}}},
			Rets: map[string]hint{
				"listMetricFilesConditional": {"list", "opaque,opaque"},
				"strconv.ParseUint":          {"suffix", "uint64,opaque"}}},
		// removeDeprecatedFiles: the count rule.  Prologue + ONE iteration of `for i := 0; i < amountToRemove; i++`;
		// trace: 1 = listMetricFiles, 2 = os.Remove(filename), 3 = os.Remove(idxFilename)
		target{Dir: mdir, Func: "DefaultMetricLogWriter.removeDeprecatedFiles", Name: "ml_removeDeprecatedFiles_step", IO: true, LoopBody: 1,
			Hints: map[string]hint{
				"len(files)":                      {"n_files", "int"},
				"files[i]":                        {"", "opaque"},
				"formMetricIdxFileName(filename)": {"", "opaque"}},
			Acts: map[string]act{
				"listMetricFiles":        {Tag: 1},
				"os.Remove(filename)":    {Tag: 2},
				"os.Remove(idxFilename)": {Tag: 3}},
			Rets: map[string]hint{
				"listMetricFiles":        {"files", "opaque,opaque"},
				"os.Remove(filename)":    {"rm_err", "opaque"},
				"os.Remove(idxFilename)": {"rmidx_err", "opaque"}}},
		// closeCurAndNewFile: removal BEFORE creation; trace: 1 = removeDeprecatedFiles, 2 = os.Create(filename),
		// 3 = os.Create(idxFile); 4.. = the stores of the new handles
		target{Dir: mdir, Func: "DefaultMetricLogWriter.closeCurAndNewFile", Name: "ml_closeCurAndNewFile", IO: true,
			Hints: map[string]hint{
				"d.curMetricFile != nil":          {"cur_open", "bool"},
				"d.curMetricIdxFile != nil":       {"curidx_open", "bool"},
				"formMetricIdxFileName(filename)": {"", "opaque"},
				"bufio.NewWriter(mf)":             {"", "opaque"},
				"bufio.NewWriter(mif)":            {"", "opaque"}},
			Acts: map[string]act{
				"d.removeDeprecatedFiles":  {Tag: 1},
				"d.curMetricFile.Close":    {Tag: 5},
				"d.curMetricIdxFile.Close": {Tag: 6},
				"os.Create(filename)":      {Tag: 2},
				"os.Create(idxFile)":       {Tag: 3}},
			Rets: map[string]hint{
				"d.removeDeprecatedFiles":  {"rm_err", "opaque"},
				"d.curMetricFile.Close":    {"close_err", "opaque"},
				"d.curMetricIdxFile.Close": {"closeidx_err", "opaque"},
				"os.Create(filename)":      {"mf", "opaque,opaque"},
				"os.Create(idxFile)":       {"mif", "opaque,opaque"}},
			IOStores: map[string]act{
				"d.curMetricFile":    {Tag: 4},
				"d.metricOut":        {Tag: 7},
				"d.curMetricIdxFile": {Tag: 8},
				"d.idxOut":           {Tag: 9}}},
		// =============================== C17: searcher.go ===============================
		// isPositionInTimeFor: is the cached idx position usable for beginTimeMs?  Trace: 1 = os.Stat(idx), 2 =
		// openFileAndSeekTo(idx, cached offset) [offset], 3 = binary.Read(&sec) (the value read is cache_sec_out)
		target{Dir: mdir, Func: "DefaultMetricSearcher.isPositionInTimeFor", Name: "ml_isPositionInTimeFor", IO: true,
			Hints: map[string]hint{
				"s.cachedPos.curSecInIdx":    {"cached_sec", "uint64"},
				"s.cachedPos.curOffsetInIdx": {"cached_off", "uint64"},
				"s.cachedPos.idxFilename":    {"", "opaque"},
				`idxFilename == ""`:          {"name_empty", "bool"}},
			Acts: map[string]act{
				"os.Stat":           {Tag: 1},
				"openFileAndSeekTo": {Tag: 2, Keep: []int{1}},
				"binary.Read":       {Tag: 3}},
			Rets: map[string]hint{
				"os.Stat":           {"stat", "opaque,opaque"},
				"openFileAndSeekTo": {"open", "opaque,opaque"},
				"binary.Read":       {"cache_sec", "opaque"}}},
		// getOffsetStartAndFileIdx: the whole function with its name-search loop marked (action 2 [i, offsetInIdx];
		// the loop's results are loop1_out_0 = i, loop1_out_1 = offsetInIdx), and ONE iteration of that loop
		target{Dir: mdir, Func: "DefaultMetricSearcher.getOffsetStartAndFileIdx", Name: "ml_getOffsetStartAndFileIdx", IO: true,
			Acts:      map[string]act{"s.isPositionInTimeFor": {Tag: 1, Keep: []int{0}}},
			Rets:      map[string]hint{"s.isPositionInTimeFor": {"cache", "bool,opaque"}},
			LoopMarks: map[int]act{1: {Tag: 2}}},
		target{Dir: mdir, Func: "DefaultMetricSearcher.getOffsetStartAndFileIdx", Name: "ml_getOffsetStartAndFileIdx_step", IO: true,
			LoopBody: 1, LoopAny: true, Shape: "leaf_flow (Z * Z * Z) (Z * Z)",
			Hints: map[string]hint{
				"v == s.cachedPos.metricFilename": {"name_eq", "bool"},
				"s.cachedPos.curOffsetInIdx":      {"cached_off", "uint64"}},
			Rets:      map[string]hint{"s.isPositionInTimeFor": {"cache", "bool,opaque"}},
			RangeVars: map[string]string{"v": "string"}},
		// searchOffsetAndRead: prologue + ONE iteration of the file loop `for i := fileNo; i < fileAmount; i, offsetStart = i+1, 0`.
		// Trace: 1 = listMetricFiles, 2 = getOffsetStartAndFileIdx, 3 = findOffsetToStart [offsetStart], 4 = doRead [i, offset]
		target{Dir: mdir, Func: "DefaultMetricSearcher.searchOffsetAndRead", Name: "ml_searchOffsetAndRead_step", IO: true, LoopBody: 1,
			Hints: map[string]hint{
				"len(filenames)": {"n_files", "int"},
				"filenames[i]":   {"", "opaque"}},
			Acts: map[string]act{
				"listMetricFiles":            {Tag: 1},
				"s.getOffsetStartAndFileIdx": {Tag: 2},
				"s.findOffsetToStart":        {Tag: 3, Keep: []int{2}},
				"doRead":                     {Tag: 4, Keep: []int{1, 2}}},
			Rets: map[string]hint{
				"listMetricFiles":            {"list", "opaque,opaque"},
				"s.getOffsetStartAndFileIdx": {"start", "uint64,uint32,opaque"},
				"s.findOffsetToStart":        {"found", "int64,opaque"},
				"doRead":                     {"read", "error,error"}},
			NilRes: []string{"[]*base.MetricItem"}},
		// findOffsetToStart: prologue + ONE iteration of the idx scan loop, and the frame (what happens after the loop).
		// Trace: 1/2 = the two cache-name resets, 3 = os.Stat, 4 = os.Open, 5 = Seek [lastPos], 6 = FilePosition,
		// 7 = curOffsetInIdx = v [v], 8 = binary.Read(&sec), 9 = binary.Read(&offset), 10/11 = cache names set, 12 = curSecInIdx = sec [sec]
		target{Dir: mdir, Func: "DefaultMetricSearcher.findOffsetToStart", Name: "ml_findOffsetToStart_step", IO: true, LoopBody: 1,
			Hints: findOffsetHints, Acts: findOffsetActs, Rets: findOffsetRets, IOStores: findOffsetStores,
			SeqHints: map[string]bool{"util.FilePosition": true}},
		target{Dir: mdir, Func: "DefaultMetricSearcher.findOffsetToStart", Name: "ml_findOffsetToStart_frame", IO: true, LoopFrame: 1,
			Hints: findOffsetHints, Acts: findOffsetActs, Rets: findOffsetRets, IOStores: findOffsetStores,
			SeqHints: map[string]bool{"util.FilePosition": true}},
		// =============================== C17: reader.go ===============================
		// readLine: an unterminated final line is an error (EOF), never a line.  Trace: 1 = ReadString, 2 = TrimSuffix
		target{Dir: mdir, Func: "readLine", Name: "ml_readLine", IO: true,
			Acts: map[string]act{"bufReader.ReadString": {Tag: 1}, "strings.TrimSuffix": {Tag: 2}},
			Rets: map[string]hint{"bufReader.ReadString": {"rd", "opaque,opaque"}}},
		// readMetricsInOneFileByEndTime: prologue + ONE iteration of the line loop; `items` is its length.
		// Trace: 1 = openFileAndSeekTo [offset], 2 = readLine, 3 = MetricItemFromFatString, 4 = append(items, item)
		target{Dir: mdir, Func: "defaultMetricLogReader.readMetricsInOneFileByEndTime", Name: "ml_readByEndTime_step", IO: true, LoopBody: 1,
			Hints: map[string]hint{
				"bufio.NewReaderSize(file, 8192)": {"", "opaque"},
				"item.Timestamp":                  {"item_ts", "uint64"},
				`resource == ""`:                  {"res_empty", "bool"},
				"resource == item.Resource":       {"res_eq", "bool"}},
			Acts: readerActs, Rets: readerRets, LenSlices: []string{"items"}, NilRes: []string{"[]*base.MetricItem"}},
		// readMetricsInOneFile: the same for the line-limited reader (lastSec and items carried)
		target{Dir: mdir, Func: "defaultMetricLogReader.readMetricsInOneFile", Name: "ml_readMaxLines_step", IO: true, LoopBody: 1,
			Hints: map[string]hint{
				"bufio.NewReaderSize(file, 8192)": {"", "opaque"},
				"item.Timestamp":                  {"item_ts", "uint64"}},
			Acts: readerActs, Rets: readerRets, LenSlices: []string{"items"}, NilRes: []string{"[]*base.MetricItem"}},
		// getLatestSecond's nil / empty test is a hint; the arithmetic is the division
		target{Dir: mdir, Func: "getLatestSecond", Name: "ml_getLatestSecond",
			Hints: map[string]hint{
				"items == nil || len(items) == 0": {"items_empty", "bool"},
				"items[len(items)-1].Timestamp":   {"last_ts", "uint64"}}},
		// =============================== C18: ext/datasource ===============================
		// isPropertyConsistent: 1 = reflect.DeepEqual(src, last) (value: deep_equal), 2 = lastUpdateProperty = src
		target{Dir: ddir, Func: "DefaultPropertyHandler.isPropertyConsistent", Name: "ds_isPropertyConsistent", IO: true,
			Acts:     map[string]act{"reflect.DeepEqual": {Tag: 1, Ret: hint{"deep_equal", "bool"}}},
			IOStores: map[string]act{"h.lastUpdateProperty": {Tag: 2}}},
		// Handle: 1 = converter(src), 2 = isPropertyConsistent(real) (value: consistent), 3 = updater(real),
		// 4 = lastUpdateProperty = lastProperty (the deferred restore, run at every return after the defer statement)
		target{Dir: ddir, Func: "DefaultPropertyHandler.Handle", Name: "ds_Handle", IO: true,
			Hints: map[string]hint{"h.lastUpdateProperty": {"", "opaque"}},
			Acts: map[string]act{
				"h.converter":            {Tag: 1},
				"h.isPropertyConsistent": {Tag: 2, Ret: hint{"consistent", "bool"}},
				"h.updater":              {Tag: 3}},
			Rets: map[string]hint{
				"h.converter": {"conv", "opaque,opaque"},
				"h.updater":   {"upd_err", "opaque"}},
			IOStores: map[string]act{"h.lastUpdateProperty": {Tag: 4}}},
		// checkSrcComplianceJson: an empty payload is (false, nil)
		target{Dir: ddir, Func: "checkSrcComplianceJson", Name: "ds_checkSrcComplianceJson",
			Hints: map[string]hint{"len(src) == 0": {"src_empty", "bool"}}},
		// the *JsonArrayParser functions: result codes (property: 0 nil / 1 the decoded slice; error: 0 nil / 1 the
		// compliance error / 2 ConvertSourceError); trace: 1 = json.Unmarshal
		parserTarget("FlowRuleJsonArrayParser", "ds_FlowParser", "make([]*flow.Rule, 0, 8)"),
		parserTarget("SystemRuleJsonArrayParser", "ds_SystemParser", "make([]*system.Rule, 0, 8)"),
		parserTarget("CircuitBreakerRuleJsonArrayParser", "ds_BreakerParser", "make([]*cb.Rule, 0, 8)"),
		parserTarget("IsolationRuleJsonArrayParser", "ds_IsolationParser", "make([]*isolation.Rule, 0, 8)"),
		// the hotspot parser: the same frame with its copy loop marked (action 5), and ONE iteration of the copy loop:
		// a nil element is skipped; otherwise rules[i] = &hotspot.Rule{...}: action 5 with the twelve field values
		func() target {
			t := parserTarget("HotSpotParamRuleJsonArrayParser", "ds_HotspotParser", "make([]*HotspotRule, 0, 8)")
			t.Hints["make([]*hotspot.Rule, len(hotspotRules))"] = hint{"", "opaque"}
			t.LoopMarks = map[int]act{1: {Tag: 5}}
			return t
		}(),
		func() target {
			t := parserTarget("HotSpotParamRuleJsonArrayParser", "ds_HotspotParser_step", "make([]*HotspotRule, 0, 8)")
			t.Hints["make([]*hotspot.Rule, len(hotspotRules))"] = hint{"", "opaque"}
			t.LoopBody = 1
			t.RangeVars = map[string]string{"hotspotRule": "*HotspotRule"}
			t.IOStores = map[string]act{"rules[i]": {Tag: 5}}
			t.StoreFields = []string{"ID", "Resource", "MetricType", "ControlBehavior", "ParamIndex", "ParamKey", "Threshold",
				"MaxQueueingTimeMs", "BurstCount", "DurationInSec", "ParamsMaxCapacity", "SpecificItems"}
			t.AbsCalls = map[string]hint{"parseSpecificItems": {"parse_items", "iface"}}
			return t
		}(),
		// the *RulesUpdater functions: 1 = ClearRules (its error is the result), 2 = rules = append(rules, &v) for each
		// element of a []Rule, 4 = LoadRules(rules); error 2 = UpdatePropertyError (which local holds the list is not an effect: not recorded)
		updaterTarget("FlowRulesUpdater", "ds_FlowUpdater", "flow", "flow"),
		updaterTarget("SystemRulesUpdater", "ds_SystemUpdater", "system", "system"),
		updaterTarget("CircuitBreakerRulesUpdater", "ds_BreakerUpdater", "cb", ""),
		updaterTarget("HotSpotParamRulesUpdater", "ds_HotspotUpdater", "hotspot", "hotspot"),
		updaterTarget("IsolationRulesUpdater", "ds_IsolationUpdater", "isolation", "isolation"),
		// =============================== C18: ext/datasource/file ===============================
		// the watcher goroutine (function literal 1 of Initialize): ONE iteration of its select loop.
		// select_case 0 = a file event, 1 = a watcher error, 2 = closeChan.  Trace: 1 = s.Handle(nil), 2 = watcher.Remove(path),
		// 9 = the retry loop (marked; its own step below), 3 = s.Close(), 4 = doReadAndUpdate, 5 = watcher.Close() (deferred: at every return)
		target{Dir: ddir + "/file", Func: "RefreshableFileDataSource.Initialize", Name: "ds_file_watch_step", IO: true, Lit: 1, LoopBody: 1,
			Hints:     map[string]hint{},
			Acts:      fileActs,
			Rets:      map[string]hint{"s.Handle": {"handle_err", "opaque"}, "s.doReadAndUpdate": {"read_err", "opaque"}},
			SeqHints:  map[string]bool{"s.Handle": true},
			LoopMarks: map[int]act{2: {Tag: 9}}},
		// the retry loop after a rename: more than five failed attempts -> Close and return; success -> go on
		target{Dir: ddir + "/file", Func: "RefreshableFileDataSource.Initialize", Name: "ds_file_retry_step", IO: true, Lit: 1,
			LoopBody: 2, LoopAny: true,
			Acts:    fileActs,
			Rets:    map[string]hint{"s.watcher.Add": {"add_err", "opaque"}},
			Effects: []string{"util.Sleep("}},
		// doReadAndUpdate: 1 = ReadSource, 2 = Handle(src); a read error is returned without calling Handle
		target{Dir: ddir + "/file", Func: "RefreshableFileDataSource.doReadAndUpdate", Name: "ds_file_doReadAndUpdate", IO: true,
			Acts: map[string]act{"s.ReadSource": {Tag: 1}, "s.Handle": {Tag: 2}},
			Rets: map[string]hint{"s.ReadSource": {"src", "opaque,opaque"}, "s.Handle": {"handle_err", "error"}},
			Errs: map[string]int{"errors.Errorf": 1}},
	)
}

var findOffsetHints = map[string]hint{
	"formMetricIdxFileName(filename)": {"", "opaque"}}
var findOffsetActs = map[string]act{
	"os.Stat":           {Tag: 3},
	"os.Open":           {Tag: 4},
	"file.Seek":         {Tag: 5, Keep: []int{0}},
	"util.FilePosition": {Tag: 6},
	"binary.Read(file, binary.BigEndian, &sec)":    {Tag: 8},
	"binary.Read(file, binary.BigEndian, &offset)": {Tag: 9}}
var findOffsetRets = map[string]hint{
	"os.Stat":           {"stat", "opaque,opaque"},
	"os.Open":           {"open", "opaque,opaque"},
	"file.Seek":         {"seek", "opaque,opaque"},
	"util.FilePosition": {"pos", "int64,opaque"},
	"binary.Read(file, binary.BigEndian, &sec)":    {"rd_sec", "opaque"},
	"binary.Read(file, binary.BigEndian, &offset)": {"rd_off", "opaque"}}
var findOffsetStores = map[string]act{
	"s.cachedPos.idxFilename":    {Tag: 1},
	"s.cachedPos.metricFilename": {Tag: 2},
	"s.cachedPos.curOffsetInIdx": {Tag: 7, Keep: []int{0}},
	"s.cachedPos.curSecInIdx":    {Tag: 12, Keep: []int{0}}}
var readerActs = map[string]act{
	"openFileAndSeekTo":            {Tag: 1, Keep: []int{1}},
	"readLine":                     {Tag: 2},
	"base.MetricItemFromFatString": {Tag: 3},
	"append(items, item)":          {Tag: 4}}
var readerRets = map[string]hint{
	"openFileAndSeekTo":            {"open", "opaque,opaque"},
	"readLine":                     {"line", "opaque,opaque"},
	"base.MetricItemFromFatString": {"item", "opaque,opaque"}}

var fileActs = map[string]act{
	"s.Handle":          {Tag: 1},
	"s.watcher.Remove":  {Tag: 2},
	"s.Close":           {Tag: 3},
	"s.doReadAndUpdate": {Tag: 4},
	"s.watcher.Close":   {Tag: 5},
	"s.watcher.Add":     {Tag: 6}}

func parserTarget(fn, name, makeText string) target {
	return target{Dir: "ext/datasource", Func: fn, Name: name, IO: true,
		Hints: map[string]hint{makeText: {"", "opaque"}},
		Acts:  map[string]act{"json.Unmarshal": {Tag: 1}},
		Rets: map[string]hint{
			"checkSrcComplianceJson": {"compliance", "bool,opaque"},
			"json.Unmarshal":         {"unmarshal_err", "opaque"}},
		NilRes: []string{"interface{}"},
		Errs:   map[string]int{"rules": 1, "NewError": 2}}
}

func updaterTarget(fn, name, pkg, valPkg string) target {
	t := target{Dir: "ext/datasource", Func: fn, Name: name, IO: true,
		Hints: map[string]hint{
			"data == nil":                     {"data_nil", "bool"},
			"make([]*" + pkg + ".Rule, 0, 8)": {"", "opaque"},
			"data.([]*" + pkg + ".Rule)":      {"", "opaque"},
			"data.([]*" + pkg + ".Rule) ok":   {"is_ptrs", "bool"}},
		Acts: map[string]act{
			pkg + ".ClearRules": {Tag: 1},
			"append(rules, &v)": {Tag: 2},
			pkg + ".LoadRules":  {Tag: 4}},
		Rets: map[string]hint{
			pkg + ".ClearRules": {"clear_err", "error"},
			pkg + ".LoadRules":  {"load", "opaque,opaque"}},
		Errs: map[string]int{"NewError": 2}}
	if valPkg != "" {
		t.Hints["data.([]"+valPkg+".Rule)"] = hint{"", "opaque"}
		t.Hints["data.([]"+valPkg+".Rule) ok"] = hint{"is_values", "bool"}
	}
	return t
}
