(* C01 leaf obligations: the statistic slot of core/stat/stat_slot.go, regenerated from the Go source
   on every run (Gen.Leaf_gen.stat_*, action-trace mode of translator/leaf), credits exactly the
   nodes, counters and gauge that Model/Chain.v - the model of the C01 theorems - says, for ALL
   contexts, node tables, batch counts, traffic types, errors and clock values:

     recordPassFor / recordBlockFor / recordCompleteFor   nil guard, which events, the gauge +-1
                                                          = node_pass / node_block / node_done
     Slot.OnEntryPassed / OnEntryBlocked                  ctx.StatNode, then the inbound node iff the
                                                          traffic is inbound = on_nodes
     Slot.OnCompleted                                     rt = now - start (uint64), PutRt, then the
                                                          completion on the same nodes
                                                          = the s_real step of run_done
     the statistic slot as a member of the chain          = the s_real step of run_stats / run_done

   Objects are abstract ids: a node is its key in the model's node table (the resource id, INB for
   stat.InboundNode()), NILNODE stands for a nil ctx.StatNode; an error is its id (0 = nil). *)
From Coq Require Import ZArith Bool Lia List.
From SG Require Import Base.Prelude Base.GoInt Model.Chain.
From Gen Require Import Leaf_gen.
Import ListNotations.
#[local] Open Scope Z_scope.
Transparent two32 two63 two64 two31.

(* ---------------------------------------------------------------------------------- *)
(* what the actions of the record* helpers do to one node's counters                    *)

(* sn.AddCount(event, n): base.MetricEventPass = 0, Block = 1, Complete = 2, Error = 3, Rt = 4 *)
Definition add_event (c : cnt) (ev n : Z) : cnt :=
  if ev =? 0 then {| n_pass := n_pass c + n; n_block := n_block c; n_done := n_done c; n_err := n_err c; n_rt := n_rt c; n_gauge := n_gauge c |}
  else if ev =? 1 then {| n_pass := n_pass c; n_block := n_block c + n; n_done := n_done c; n_err := n_err c; n_rt := n_rt c; n_gauge := n_gauge c |}
  else if ev =? 2 then {| n_pass := n_pass c; n_block := n_block c; n_done := n_done c + n; n_err := n_err c; n_rt := n_rt c; n_gauge := n_gauge c |}
  else if ev =? 3 then {| n_pass := n_pass c; n_block := n_block c; n_done := n_done c; n_err := n_err c + n; n_rt := n_rt c; n_gauge := n_gauge c |}
  else if ev =? 4 then {| n_pass := n_pass c; n_block := n_block c; n_done := n_done c; n_err := n_err c; n_rt := n_rt c + n; n_gauge := n_gauge c |}
  else c.

Definition add_gauge (c : cnt) (d : Z) : cnt :=
  {| n_pass := n_pass c; n_block := n_block c; n_done := n_done c; n_err := n_err c; n_rt := n_rt c; n_gauge := n_gauge c + d |}.

(* tags: 10 IncreaseConcurrency, 11 AddCount [event; n], 12 DecreaseConcurrency (targets_chain.go) *)
Definition node_act (c : cnt) (a : leaf_act) : cnt :=
  match a with
  | (10, []) => add_gauge c 1
  | (11, [LZ ev; LZ n]) => add_event c ev n
  | (12, []) => add_gauge c (-1)
  | _ => c
  end.
Definition node_acts (tr : list leaf_act) (c : cnt) : cnt := fold_left node_act tr c.

Lemma cnt_eq c p b d e r g : n_pass c = p -> n_block c = b -> n_done c = d -> n_err c = e -> n_rt c = r -> n_gauge c = g ->
  c = {| n_pass := p; n_block := b; n_done := d; n_err := e; n_rt := r; n_gauge := g |}.
Proof. destruct c; cbn; intros; subst; reflexivity. Qed.

Ltac cnt_solve := apply cnt_eq; cbn; lia.

(* a nil node is skipped *)
Lemma stat_recordPassFor_nil n : stat_recordPassFor n true = [].
Proof. reflexivity. Qed.
Lemma stat_recordBlockFor_nil n : stat_recordBlockFor n true = [].
Proof. reflexivity. Qed.
Lemma stat_recordCompleteFor_nil n e rt : stat_recordCompleteFor n e rt true = [].
Proof. reflexivity. Qed.
(* a non-nil node always sees at least one action (so "no action" identifies the nil guard) *)
Lemma stat_recordPassFor_some n : stat_recordPassFor n false <> [].
Proof. unfold stat_recordPassFor; cbv zeta; discriminate. Qed.
Lemma stat_recordBlockFor_some n : stat_recordBlockFor n false <> [].
Proof. unfold stat_recordBlockFor; cbv zeta; discriminate. Qed.
Lemma stat_recordCompleteFor_some n e rt : stat_recordCompleteFor n e rt false <> [].
Proof. unfold stat_recordCompleteFor; cbv zeta; destruct e; discriminate. Qed.

(* recordPassFor = node_pass: gauge + 1 and pass + count *)
Lemma stat_recordPassFor_ok c n : node_acts (stat_recordPassFor n false) c = node_pass c n.
Proof. unfold stat_recordPassFor, node_acts, node_pass; cbv zeta; cbn. reflexivity || cnt_solve. Qed.

(* recordBlockFor = node_block *)
Lemma stat_recordBlockFor_ok c n : node_acts (stat_recordBlockFor n false) c = node_block c n.
Proof. unfold stat_recordBlockFor, node_acts, node_block; cbv zeta; cbn. reflexivity || cnt_solve. Qed.

(* recordCompleteFor = node_done with the rt converted to int64: error += count iff err != nil,
   rt += int64(rt), complete += count, gauge - 1 *)
Lemma stat_recordCompleteFor_ok c n rt err :
  node_acts (stat_recordCompleteFor n (err =? 0) rt false) c = node_done c n (i64 rt) err.
Proof.
  unfold stat_recordCompleteFor, node_acts, node_done; cbv zeta.
  destruct (err =? 0); cbn; cnt_solve.
Qed.

(* ---------------------------------------------------------------------------------- *)
(* what the actions of the slot's three callbacks do to the node table and the context   *)

Definition NILNODE : Z := -2.
Definition node_id (x : ctx) : Z := if x_node x then x_res x else NILNODE.

Definition credit (nd : nodes_t) (node : Z) (tr : list leaf_act) : nodes_t :=
  match tr with [] => nd | _ => upd nd node (node_acts tr (nd node)) end.

(* tags: 1 recordPassFor [node; count], 2 recordBlockFor [node; count],
   3 recordCompleteFor [node; count; rt; err], 4 ctx.PutRt [rt].  The helpers called (rp rb rc) are
   parameters, instantiated in every statement below with the REGENERATED ones - written out, so that
   each statement names the Gen definitions it depends on (the driver drops exactly the blocks whose
   target cannot be regenerated on the tree under test). *)
Definition slot_act (rp rb : Z -> bool -> list leaf_act) (rc : Z -> bool -> Z -> bool -> list leaf_act)
    (st : ctx * nodes_t) (a : leaf_act) : ctx * nodes_t :=
  let '(x, nd) := st in
  match a with
  | (1, [LZ node; LZ n]) => (x, credit nd node (rp n (node =? NILNODE)))
  | (2, [LZ node; LZ n]) => (x, credit nd node (rb n (node =? NILNODE)))
  | (3, [LZ node; LZ n; LZ rt; LZ err]) => (x, credit nd node (rc n (err =? 0) rt (node =? NILNODE)))
  | (4, [LZ rt]) => (set_rt x rt, nd)
  | _ => st
  end.
Definition slot_acts rp rb rc (tr : list leaf_act) (st : ctx * nodes_t) : ctx * nodes_t := fold_left (slot_act rp rb rc) tr st.

(* base.Inbound = 0 *)
Definition flow_code (x : ctx) : Z := if x_inb x then 0 else 1.

Lemma credit_pass nd k n : k <> NILNODE ->
  credit nd k (stat_recordPassFor n (k =? NILNODE)) = upd nd k (node_pass (nd k) n).
Proof.
  intros H. apply Z.eqb_neq in H. rewrite H. unfold credit.
  pose proof (stat_recordPassFor_some n) as S. pose proof (stat_recordPassFor_ok (nd k) n) as E.
  destruct (stat_recordPassFor n false); [congruence|]. rewrite E. reflexivity.
Qed.
Lemma credit_block nd k n : k <> NILNODE ->
  credit nd k (stat_recordBlockFor n (k =? NILNODE)) = upd nd k (node_block (nd k) n).
Proof.
  intros H. apply Z.eqb_neq in H. rewrite H. unfold credit.
  pose proof (stat_recordBlockFor_some n) as S. pose proof (stat_recordBlockFor_ok (nd k) n) as E.
  destruct (stat_recordBlockFor n false); [congruence|]. rewrite E. reflexivity.
Qed.
Lemma credit_done nd k n rt err : k <> NILNODE ->
  credit nd k (stat_recordCompleteFor n (err =? 0) rt (k =? NILNODE)) = upd nd k (node_done (nd k) n (i64 rt) err).
Proof.
  intros H. apply Z.eqb_neq in H. rewrite H. unfold credit.
  pose proof (stat_recordCompleteFor_some n (err =? 0) rt) as S. pose proof (stat_recordCompleteFor_ok (nd k) n rt err) as E.
  destruct (stat_recordCompleteFor n (err =? 0) rt false); [congruence|]. rewrite E. reflexivity.
Qed.
Lemma credit_nil_pass nd n : credit nd NILNODE (stat_recordPassFor n (NILNODE =? NILNODE)) = nd.
Proof. reflexivity. Qed.
Lemma credit_nil_block nd n : credit nd NILNODE (stat_recordBlockFor n (NILNODE =? NILNODE)) = nd.
Proof. reflexivity. Qed.
Lemma credit_nil_done nd n rt e : credit nd NILNODE (stat_recordCompleteFor n e rt (NILNODE =? NILNODE)) = nd.
Proof. reflexivity. Qed.

(* the traffic-type test, however it is written: `ft == base.Inbound`, `base.Inbound == ft`,
   `!(ft != base.Inbound)` *)
Ltac flow_facts Hi :=
  match type of Hi with
  | ?i = (?ft =? 0) =>
      assert (FlowE1 : (ft =? 0) = i) by (symmetry; exact Hi);
      assert (FlowE2 : (0 =? ft) = i) by (rewrite Z.eqb_sym; symmetry; exact Hi)
  end.
Ltac flow_rewrite :=
  match goal with
  | E1 : (?ft =? 0) = _, E2 : (0 =? ?ft) = _ |- _ => rewrite ?E1, ?E2
  end.

Lemma inb_not_nil : INB <> NILNODE.
Proof. unfold INB, NILNODE; lia. Qed.

(* Slot.OnEntryPassed: ctx.StatNode (if set), then the inbound node iff the traffic is inbound;
   for every value ft of ctx.Resource.FlowType() *)
Theorem stat_OnEntryPassed_ok x nd ft : x_res x <> NILNODE -> x_inb x = (ft =? 0) ->
  slot_acts stat_recordPassFor stat_recordBlockFor stat_recordCompleteFor (stat_OnEntryPassed (x_batch x) ft INB (node_id x)) (x, nd) =
  (x, on_nodes nd x (fun c => node_pass c (x_batch x))).
Proof.
  intros Hr Hi. flow_facts Hi. unfold stat_OnEntryPassed, slot_acts, on_nodes, node_id. cbv zeta. flow_rewrite.
  destruct (x_inb x), (x_node x); cbn [negb fold_left slot_act];
    rewrite ?credit_nil_pass, ?credit_pass by (exact Hr || exact inb_not_nil); reflexivity.
Qed.

Theorem stat_OnEntryBlocked_ok x nd ft : x_res x <> NILNODE -> x_inb x = (ft =? 0) ->
  slot_acts stat_recordPassFor stat_recordBlockFor stat_recordCompleteFor (stat_OnEntryBlocked (x_batch x) ft INB (node_id x)) (x, nd) =
  (x, on_nodes nd x (fun c => node_block c (x_batch x))).
Proof.
  intros Hr Hi. flow_facts Hi. unfold stat_OnEntryBlocked, slot_acts, on_nodes, node_id. cbv zeta. flow_rewrite.
  destruct (x_inb x), (x_node x); cbn [negb fold_left slot_act];
    rewrite ?credit_nil_block, ?credit_block by (exact Hr || exact inb_not_nil); reflexivity.
Qed.

(* Slot.OnCompleted, the code's own arithmetic: the context keeps rt = uint64(now - start), the
   nodes are credited int64(rt) *)
Theorem stat_OnCompleted_go x nd ft t : x_res x <> NILNODE -> x_inb x = (ft =? 0) ->
  slot_acts stat_recordPassFor stat_recordBlockFor stat_recordCompleteFor (stat_OnCompleted (x_batch x) (x_err x) ft INB t (x_start x) (node_id x)) (x, nd) =
  let rt := u64 (t - x_start x) in
  (set_rt x rt, on_nodes nd x (fun c => node_done c (x_batch x) (i64 rt) (x_err x))).
Proof.
  intros Hr Hi. flow_facts Hi. unfold stat_OnCompleted, slot_acts, on_nodes, node_id. cbv zeta. flow_rewrite.
  destruct (x_inb x), (x_node x); cbn [negb fold_left slot_act x_node x_res x_inb set_rt];
    rewrite ?credit_nil_done, ?credit_done by (exact Hr || exact inb_not_nil); reflexivity.
Qed.

(* with a clock that has not gone backwards and stays inside int64, that is the model's
   rt = now - start, in the context and on the nodes *)
Lemma rt_exact t s : 0 <= s <= t -> t < two63 -> u64 (t - s) = t - s /\ i64 (u64 (t - s)) = t - s.
Proof.
  intros H1 H2. unfold two63 in H2.
  assert (E : u64 (t - s) = t - s) by (apply u64_id; unfold in_u64, two64; lia).
  split; [exact E|]. rewrite E. apply i64_id. unfold in_i64, two63; lia.
Qed.

Theorem stat_OnCompleted_ok x nd ft t : x_res x <> NILNODE -> x_inb x = (ft =? 0) ->
  0 <= x_start x <= t -> t < two63 ->
  slot_acts stat_recordPassFor stat_recordBlockFor stat_recordCompleteFor (stat_OnCompleted (x_batch x) (x_err x) ft INB t (x_start x) (node_id x)) (x, nd) =
  (set_rt x (t - x_start x), on_nodes nd x (fun c => node_done c (x_batch x) (t - x_start x) (x_err x))).
Proof.
  intros Hr Hi H1 H2. rewrite (stat_OnCompleted_go x nd ft t Hr Hi). cbv zeta.
  destruct (rt_exact t (x_start x) H1 H2) as [E1 E2]. rewrite E2, E1. reflexivity.
Qed.

(* ---------------------------------------------------------------------------------- *)
(* the statistic slot inside the chain: the s_real steps of the model's loops            *)

(* run_stats, one real slot: told "passed" resp. "blocked" *)
Corollary run_stats_real_step s r x be nd lg ft : s_real s = true -> x_res x <> NILNODE -> x_inb x = (ft =? 0) ->
  run_stats (s :: r) x be nd lg =
  run_stats r x be
    (snd (slot_acts stat_recordPassFor stat_recordBlockFor stat_recordCompleteFor (match be with
                     | None => stat_OnEntryPassed (x_batch x) ft INB (node_id x)
                     | Some _ => stat_OnEntryBlocked (x_batch x) ft INB (node_id x)
                     end) (x, nd))) lg.
Proof.
  intros Hs Hr Hi. cbn [run_stats]. rewrite Hs.
  destruct be; [rewrite (stat_OnEntryBlocked_ok x nd ft Hr Hi) | rewrite (stat_OnEntryPassed_ok x nd ft Hr Hi)]; reflexivity.
Qed.

(* run_done, one real slot *)
Corollary run_done_real_step s r x t nd lg ft : s_real s = true -> x_res x <> NILNODE -> x_inb x = (ft =? 0) ->
  0 <= x_start x <= t -> t < two63 ->
  run_done (s :: r) x t nd lg =
  let '(x', nd') := slot_acts stat_recordPassFor stat_recordBlockFor stat_recordCompleteFor (stat_OnCompleted (x_batch x) (x_err x) ft INB t (x_start x) (node_id x)) (x, nd) in
  run_done r x' t nd' lg.
Proof.
  intros Hs Hr Hi H1 H2. cbn [run_done]. rewrite Hs.
  rewrite (stat_OnCompleted_ok x nd ft t Hr Hi H1 H2). reflexivity.
Qed.

(* ---------------------------------------------------------------------------------- *)
(* stat.GetOrCreateResourceNode: the node of a resource is found by NAME                  *)

Ltac gc_split := repeat match goal with |- context [if ?c then _ else _] => destruct c eqn:? end.
Ltac gc_facts :=
  repeat match goal with
  | H : negb _ = true |- _ => apply negb_true_iff in H
  | H : negb _ = false |- _ => apply negb_false_iff in H
  | H : andb _ _ = true |- _ => apply andb_true_iff in H; destruct H
  | H : andb _ _ = false |- _ => apply andb_false_iff in H
  | H : orb _ _ = false |- _ => apply orb_false_iff in H; destruct H
  | H : orb _ _ = true |- _ => apply orb_true_iff in H
  | H : (_ <=? _) = true |- _ => apply Z.leb_le in H
  | H : (_ <=? _) = false |- _ => apply Z.leb_gt in H
  | H : (_ <? _) = true |- _ => apply Z.ltb_lt in H
  | H : (_ <? _) = false |- _ => apply Z.ltb_ge in H
  | H : (_ =? _) = true |- _ => apply Z.eqb_eq in H
  | H : (_ =? _) = false |- _ => apply Z.eqb_neq in H
  end.
Ltac gc_cases := gc_split; gc_facts; first [reflexivity | exfalso; intuition (congruence || lia)].

(* double-checked lookup.  fast = what the read-locked lookup finds, locked = what the re-check under
   the write lock finds (0 = no node), fresh = the node NewResourceNode makes, rty = the caller's
   classification.  tags: 70 GetResourceNode, 71 rnsMux.Lock, 72 defer Unlock, 73 NewResourceNode [rty],
   74 resNodeMap[name] = node.  A node that is found is returned as it is - the classification the
   caller passes is only used to CREATE a node; the size of the map only decides about a warning. *)
Definition get_or_create_spec (fast locked fresh rty : Z) : Z * list leaf_act :=
  if fast =? 0 then
    if locked =? 0 then (fresh, [(70, []); (71, []); (72, []); (73, [LZ rty]); (74, [LZ fresh])])
    else (locked, [(70, []); (71, []); (72, [])])
  else (fast, [(70, [])]).

Theorem stat_GetOrCreateResourceNode_ok fast locked fresh len rty :
  stat_GetOrCreateResourceNode fast locked fresh len rty = get_or_create_spec fast locked fresh rty.
Proof. unfold stat_GetOrCreateResourceNode, get_or_create_spec. cbv zeta. gc_cases. Qed.

(* one caller at a time (both lookups read the same entry v of the table): an existing node is
   returned for EVERY classification and nothing is created or stored - so every entry of a resource
   name, whatever options it was entered with, is counted on the same node (the model's node table
   is keyed by the resource id alone); without a node the fresh one is stored and returned *)
Corollary stat_GetOrCreateResourceNode_by_name v fresh len rty :
  stat_GetOrCreateResourceNode v v fresh len rty =
  if v =? 0 then (fresh, [(70, []); (71, []); (72, []); (73, [LZ rty]); (74, [LZ fresh])]) else (v, [(70, [])]).
Proof. rewrite stat_GetOrCreateResourceNode_ok. unfold get_or_create_spec. destruct (v =? 0); reflexivity. Qed.

(* the parameters are positional: pin their NAMES (the reads the Go code uses in each position) *)
Section ParamNames.
Import Coq.Strings.String.
Local Open Scope string_scope.
Local Open Scope list_scope.
Lemma stat_OnEntryPassed_params : LeafParams.stat_OnEntryPassed = "batchCount" :: "flow_type" :: "inbound_node" :: "stat_node" :: nil.
Proof. reflexivity. Qed.
Lemma stat_OnEntryBlocked_params : LeafParams.stat_OnEntryBlocked = "batchCount" :: "flow_type" :: "inbound_node" :: "stat_node" :: nil.
Proof. reflexivity. Qed.
Lemma stat_OnCompleted_params : LeafParams.stat_OnCompleted = "batchCount" :: "err" :: "flow_type" :: "inbound_node" :: "now" :: "start" :: "stat_node" :: nil.
Proof. reflexivity. Qed.
Lemma stat_GetOrCreateResourceNode_params : LeafParams.stat_GetOrCreateResourceNode = "found_fast" :: "found_locked" :: "fresh" :: "map_len" :: "resource_type" :: nil.
Proof. reflexivity. Qed.
Lemma stat_recordPassFor_params : LeafParams.stat_recordPassFor = "count" :: "sn_nil" :: nil.
Proof. reflexivity. Qed.
Lemma stat_recordBlockFor_params : LeafParams.stat_recordBlockFor = "count" :: "sn_nil" :: nil.
Proof. reflexivity. Qed.
Lemma stat_recordCompleteFor_params : LeafParams.stat_recordCompleteFor = "count" :: "err_nil" :: "rt" :: "sn_nil" :: nil.
Proof. reflexivity. Qed.
End ParamNames.

Print Assumptions stat_recordPassFor_ok.
Print Assumptions stat_recordBlockFor_ok.
Print Assumptions stat_recordCompleteFor_ok.
Print Assumptions stat_OnEntryPassed_ok.
Print Assumptions stat_OnEntryBlocked_ok.
Print Assumptions stat_OnCompleted_go.
Print Assumptions stat_OnCompleted_ok.
Print Assumptions run_stats_real_step.
Print Assumptions run_done_real_step.
Print Assumptions stat_GetOrCreateResourceNode_ok.
Print Assumptions stat_GetOrCreateResourceNode_by_name.
