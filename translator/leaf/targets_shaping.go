// Targets of the traffic-shaping cluster (C10 throttling, C11 warm-up / memory-adaptive).
package main

// *base.TokenResult of the flow checkers: (0,0) nil = pass, (1,0) blocked, (2,ns) should wait ns
var shapingCtors = map[string]ctor{
	"base.NewTokenResultBlocked":          {Tag: 1, NilTag: 1, Arg: -1},
	"base.NewTokenResultBlockedWithCause": {Tag: 1, NilTag: 1, Arg: -1},
	"base.NewTokenResultShouldWait":       {Tag: 2, NilTag: 2, Arg: 0, Typ: "int64"},
}

// the warm-up calculator's atomic loads: the bucket and the time of the last refill
var warmupLoads = map[string]hint{
	"atomic.LoadInt64(&c.storedTokens)":    {"stored", "int64"},
	"atomic.LoadUint64(&c.lastFilledTime)": {"last_filled", "uint64"},
}
var warmupNow = hint{"now", "uint64"}

func init() {
	targets = append(targets,
		// ---- C10: ThrottlingChecker ----
		// DoCheck: the prologue (batch / threshold guards, clock read, interval) and ONE iteration of the
		// compare-and-swap loop.  The Load enters as `loaded`, the CAS outcome as `cas_ok`; the CAS operands
		// (expected old value, published pass time) are in the action trace as (1, [old; new]).
		target{Dir: "core/flow", Func: "ThrottlingChecker.DoCheck", Name: "throttling_DoCheck_step", LoopBody: 1,
			Hints: map[string]hint{
				"c.BoundOwner() != nil":               {"owner_nonnil", "bool"},
				"util.CurrentTimeNano()":              {"now", "uint64"},
				"atomic.LoadInt64(&c.lastPassedTime)": {"loaded", "int64"}},
			Acts: map[string]act{
				"atomic.CompareAndSwapInt64": {Tag: 1, Keep: []int{1, 2}, Ret: hint{"cas_ok", "bool"}}},
			Ctors: shapingCtors},
		// NewThrottlingChecker: the ms -> ns conversions of the queueing limit and the statistic interval
		target{Dir: "core/flow", Func: "NewThrottlingChecker", Name: "throttling_New",
			Fields: []string{"maxQueueingTimeNs", "statIntervalNs", "lastPassedTime"}},
		// flow.Slot.Check: one iteration of the loop over the resource's controllers: a blocked result is returned
		// (LReturn 1), a should-wait result with a positive wait is slept (action 1, [ns]) and the loop goes on
		target{Dir: "core/flow", Func: "Slot.Check", Name: "flow_Slot_Check_step", LoopBody: 1,
			RangeVars: map[string]string{"tc": "*TrafficShapingController"},
			Hints: map[string]hint{
				"ctx.Resource.Name()":                                     {"", "opaque"},
				"getTrafficControllerListFor(res)":                        {"", "opaque"},
				"ctx.RuleCheckResult":                                     {"", "opaque"},
				"canPassCheck(tc, ctx.StatNode, ctx.Input.BatchCount)":    {"", "opaque"},
				"checkInLocal(tc, ctx.StatNode, ctx.Input.BatchCount, 0)": {"", "opaque"}, // the same call with canPassCheck unfolded
				"r.Status()":      {"r_status", "uint8"},
				"r.NanosToWait()": {"r_nanos", "int64"}},
			Errs:    map[string]int{"r": 1},
			Effects: []string{"flowWaitCount."},
			Acts:    map[string]act{"util.Sleep": {Tag: 1, Keep: []int{0}}}},

		// ---- C11: WarmUpTrafficShapingCalculator ----
		// constructor: cold-factor default, warningToken / maxToken (uint64 truncations), slope
		target{Dir: "core/flow", Func: "NewWarmUpTrafficShapingCalculator", Name: "warmup_New",
			Fields: []string{"threshold", "warmUpPeriodInSec", "coldFactor", "warningToken", "maxToken", "slope", "storedTokens", "lastFilledTime"}},
		// CalculateAllowedTokens: syncToken(previous-window QPS) is action 10; the bucket is loaded afterwards
		target{Dir: "core/flow", Func: "WarmUpTrafficShapingCalculator.CalculateAllowedTokens", Name: "warmup_CalculateAllowedTokens",
			Hints: map[string]hint{
				"c.BoundOwner().boundStat.readOnlyMetric":                 {"", "opaque"},
				"metricReadonlyStat.GetPreviousQPS(base.MetricEventPass)": {"previous_qps", "float64"},
				"atomic.LoadInt64(&c.storedTokens)":                       {"stored", "int64"}},
			Acts: map[string]act{"c.syncToken": {Tag: 10, Keep: []int{0}}}},
		// coolDownTokens: the refill arithmetic
		target{Dir: "core/flow", Func: "WarmUpTrafficShapingCalculator.coolDownTokens", Name: "warmup_coolDownTokens",
			Hints: warmupLoads},
		// syncToken: once per aligned second; CAS (1), Add (2, result `added`), Store of the bucket (3), Store of the
		// fill time (4) are recorded in program order; coolDownTokens is inlined
		target{Dir: "core/flow", Func: "WarmUpTrafficShapingCalculator.syncToken", Name: "warmup_syncToken",
			Hints: map[string]hint{
				"util.CurrentTimeMillis()":             warmupNow,
				"atomic.LoadInt64(&c.storedTokens)":    warmupLoads["atomic.LoadInt64(&c.storedTokens)"],
				"atomic.LoadUint64(&c.lastFilledTime)": warmupLoads["atomic.LoadUint64(&c.lastFilledTime)"]},
			Inline: []string{"WarmUpTrafficShapingCalculator.coolDownTokens"},
			Acts: map[string]act{
				"atomic.CompareAndSwapInt64": {Tag: 1, Keep: []int{1, 2}, Ret: hint{"cas_ok", "bool"}},
				"atomic.AddInt64":            {Tag: 2, Keep: []int{1}, Ret: hint{"added", "int64"}},
				"atomic.StoreInt64":          {Tag: 3, Keep: []int{1}},
				"atomic.StoreUint64":         {Tag: 4, Keep: []int{1}}}},
	)
}
