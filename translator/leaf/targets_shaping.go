// Targets of the traffic-shaping cluster (C10 throttling, C11 warm-up / memory-adaptive).
package main

// *base.TokenResult of the flow checkers: (0,0) nil = pass, (1,0) blocked, (2,ns) should wait ns
var shapingCtors = map[string]ctor{
	"base.NewTokenResultBlocked":          {Tag: 1, NilTag: 1, Arg: -1},
	"base.NewTokenResultBlockedWithCause": {Tag: 1, NilTag: 1, Arg: -1},
	"base.NewTokenResultShouldWait":       {Tag: 2, NilTag: 2, Arg: 0, Typ: "int64"},
}

func init() {
	targets = append(targets,
		// ---- C10: ThrottlingChecker ----
		// DoCheck: the prologue (batch / threshold guards, clock read, interval) and ONE iteration of the
		// compare-and-swap loop.  The Load enters as `loaded`, the CAS outcome as `cas_ok`; the CAS operands
		// (expected old value, published pass time) are in the action trace as (1, [old; new]).
		target{Dir: "core/flow", Func: "ThrottlingChecker.DoCheck", Name: "throttling_DoCheck_step", LoopBody: 1,
			Hints: map[string]hint{
				"c.BoundOwner() != nil":               {"owner_nonnil", "bool"},
				"util.CurrentTimeNano()":              {"now", "uint64"},
				"atomic.LoadInt64(&c.lastPassedTime)": {"loaded", "int64"}},
			Acts: map[string]act{
				"atomic.CompareAndSwapInt64": {Tag: 1, Keep: []int{1, 2}, Ret: hint{"cas_ok", "bool"}}},
			Ctors: shapingCtors},
	)
}
