(* C07 leaf obligation: AdaptiveSlot.doCheckRule (with checkBbrSimple inlined), regenerated from
   the Go source on every run (Gen.Leaf_gen), is the function [do_check_rule] of Model/System.v
   for ALL rules, readings and node states: the node getters enter as parameters and are
   instantiated with the model's getters (whose equality with the reference statistics is C08). *)
From Coq Require Import ZArith Bool Lia Floats.
From SG Require Import Base.Prelude Base.GoInt Base.GoFloat Model.LeapArray Model.StatNode Model.Rules Model.System.
From Gen Require Import Leaf_gen.
#[local] Open Scope Z_scope.

(* ---- one shape-independent script for every "regenerated decision = model decision" lemma of this file ----
   [leaf_decide]: case-split on the condition of every if-then-else of the goal (outermost first, so that
   guarded sub-terms are only visited on the paths that reach them), then in every leaf: evaluate; if the
   two sides still differ the path must be contradictory - break the recorded conditions into their atoms
   (andb / orb / negb), use them to rewrite what is left of the goal, split the remaining atoms, and close
   with reflexivity / lia (integer atoms) / congruence (the same float atom with two truth values).
   Nothing here depends on the order or nesting of the tests in the generated term. *)
Ltac split_ifs :=
  repeat match goal with
         | |- context [if ?c then _ else _] => destruct c eqn:?
         end.
Ltac norm_hyps :=
  repeat match goal with
         | H : negb _ = true |- _ => apply Bool.negb_true_iff in H
         | H : negb _ = false |- _ => apply Bool.negb_false_iff in H
         | H : andb _ _ = true |- _ => apply Bool.andb_true_iff in H; destruct H
         | H : orb _ _ = false |- _ => apply Bool.orb_false_iff in H; destruct H
         | H : andb _ _ = false |- _ => apply Bool.andb_false_iff in H; destruct H
         | H : orb _ _ = true |- _ => apply Bool.orb_true_iff in H; destruct H
         | H : true = false |- _ => discriminate H
         | H : false = true |- _ => discriminate H
         end.
Ltac split_hyp_ifs :=
  repeat match goal with
         | H : context [if ?c then _ else _] |- _ => destruct c eqn:?
         end.
Ltac use_hyps :=
  repeat match goal with
         | H : ?a = true |- context [?a] => rewrite H
         | H : ?a = false |- context [?a] => rewrite H
         end.
Ltac split_atoms :=
  repeat match goal with
         | |- context [Z.eqb ?a ?b] => destruct (Z.eqb a b) eqn:?
         | |- context [Z.ltb ?a ?b] => destruct (Z.ltb a b) eqn:?
         | |- context [Z.leb ?a ?b] => destruct (Z.leb a b) eqn:?
         | |- context [PrimFloat.ltb ?a ?b] => destruct (PrimFloat.ltb a b) eqn:?
         | |- context [PrimFloat.leb ?a ?b] => destruct (PrimFloat.leb a b) eqn:?
         | |- context [PrimFloat.eqb ?a ?b] => destruct (PrimFloat.eqb a b) eqn:?
         | |- context [float64_equals ?a ?b] => destruct (float64_equals a b) eqn:?
         end.
Ltac z_facts :=
  repeat match goal with
         | H : Z.eqb _ _ = true |- _ => apply Z.eqb_eq in H
         | H : Z.eqb _ _ = false |- _ => apply Z.eqb_neq in H
         | H : Z.ltb _ _ = true |- _ => apply Z.ltb_lt in H
         | H : Z.ltb _ _ = false |- _ => apply Z.ltb_ge in H
         | H : Z.leb _ _ = true |- _ => apply Z.leb_le in H
         | H : Z.leb _ _ = false |- _ => apply Z.leb_gt in H
         end.
Ltac leaf_close := first [ reflexivity | congruence | (exfalso; z_facts; lia) | (z_facts; lia) ].
Ltac leaf_decide :=
  cbv zeta; split_ifs;
  first [ reflexivity
        | repeat (progress (norm_hyps; split_hyp_ifs)); use_hyps; cbn [andb orb negb];
          first [ leaf_close | split_atoms; cbn [andb orb negb]; leaf_close ] ].

Lemma system_doCheckRule_ok x now load cpu r :
  system_doCheckRule cpu (node_avg_rt x now) (nd_conc x) (node_max_avg x now EvComplete) (node_min_rt x now)
    (node_qps x now EvPass) load (s_metric r) (s_strategy r) (s_trigger r)
  = do_check_rule x now load cpu r.
Proof.
  unfold system_doCheckRule, do_check_rule, check_bbr_simple,
    MtInboundQPS, MtConcurrency, MtAvgRT, MtLoad, MtCpuUsage, BBR.
  leaf_decide.
Qed.

Print Assumptions system_doCheckRule_ok.

(* ---- Round 3: AdaptiveSlot.Check, ONE iteration of `for _, rule := range rules` ----
   Gen.system_Slot_Check_step: chk_0 / chk_2 = the (passed, snapshot) results of s.doCheckRule(rule) -
   instantiated below with the REGENERATED doCheckRule -, not_inbound = the guard in front of the loop,
   result_nil = whether the context carries a reusable TokenResult (either way the request is blocked:
   action 1 = NewTokenResultBlockedWithCause, 2 = ResetToBlockedWithCause, argument = snapshot value).
   It is the step of the model's [check_rules]: a passing rule continues, the first rule that does not
   pass is returned with its snapshot; and [check_rules] is that step iterated ("first violated rule wins"). *)
Definition snap_of (tr : list leaf_act) : option float :=
  match tr with (_, LF v :: _) :: _ => Some v | _ => None end.

Definition check_rules_step (x : node) (now : Z) (load cpu : float) (r : srule) : option (srule * float) :=
  let '(passed, v) := do_check_rule x now load cpu r in if passed then None else Some (r, v).

Lemma check_rules_unfold x now load cpu r rest :
  check_rules x now load cpu (r :: rest)
  = match check_rules_step x now load cpu r with Some b => Some b | None => check_rules x now load cpu rest end.
Proof. unfold check_rules_step. cbn [check_rules]. destruct (do_check_rule x now load cpu r) as [p v]. destruct p; reflexivity. Qed.

Lemma slot_check_unfold inbound x now load cpu rules ord :
  slot_check inbound x now load cpu rules ord
  = if negb inbound then None else check_rules x now load cpu (get_rules rules ord).
Proof. reflexivity. Qed.

Lemma system_Slot_Check_step_ok x now load cpu r inbound result_nil :
  let chk := system_doCheckRule cpu (node_avg_rt x now) (nd_conc x) (node_max_avg x now EvComplete) (node_min_rt x now)
               (node_qps x now EvPass) load (s_metric r) (s_strategy r) (s_trigger r) in
  let g := system_Slot_Check_step (fst chk) (snd chk) (negb inbound) result_nil in
  (fst g, snap_of (snd g))
  = if negb inbound then (LReturn 0, None)          (* not inbound: nil result, the rules are not consulted *)
    else match check_rules_step x now load cpu r with
         | None => (LContinue tt, None)
         | Some (_, v) => (LReturn 1, Some v)
         end.
Proof.
  cbv zeta. rewrite system_doCheckRule_ok. unfold system_Slot_Check_step, check_rules_step.
  destruct (do_check_rule x now load cpu r) as [p v]. cbn [fst snd].
  destruct inbound, p, result_nil; cbn [negb]; leaf_decide.
Qed.

Print Assumptions system_Slot_Check_step_ok.
Print Assumptions check_rules_unfold.
