(* C07 leaf obligation: AdaptiveSlot.doCheckRule (with checkBbrSimple inlined), regenerated from
   the Go source on every run (Gen.Leaf_gen), is the function [do_check_rule] of Model/System.v
   for ALL rules, readings and node states: the node getters enter as parameters and are
   instantiated with the model's getters (whose equality with the reference statistics is C08). *)
From Coq Require Import ZArith Bool Lia Floats.
From SG Require Import Base.Prelude Base.GoInt Base.GoFloat Model.LeapArray Model.StatNode Model.Rules Model.System.
From Gen Require Import Leaf_gen.
#[local] Open Scope Z_scope.

Lemma system_doCheckRule_ok x now load cpu r :
  system_doCheckRule cpu (node_avg_rt x now) (nd_conc x) (node_max_avg x now EvComplete) (node_min_rt x now)
    (node_qps x now EvPass) load (s_metric r) (s_strategy r) (s_trigger r)
  = do_check_rule x now load cpu r.
Proof.
  unfold system_doCheckRule, do_check_rule, check_bbr_simple,
    MtInboundQPS, MtConcurrency, MtAvgRT, MtLoad, MtCpuUsage, BBR.
  destruct (s_metric r =? 3) eqn:E3.
  { destruct (PrimFloat.ltb (node_qps x now EvPass) (s_trigger r)); reflexivity. }
  destruct (s_metric r =? 2) eqn:E2.
  { destruct (PrimFloat.ltb (f_of_i64 (nd_conc x)) (s_trigger r)); reflexivity. }
  destruct (s_metric r =? 1) eqn:E1.
  { destruct (PrimFloat.ltb (node_avg_rt x now) (s_trigger r)); reflexivity. }
  destruct (s_metric r =? 0) eqn:E0.
  { destruct (PrimFloat.ltb (s_trigger r) load); [|reflexivity].
    destruct (s_strategy r =? 1); cbn [negb orb]; [|reflexivity].
    destruct (1 <? nd_conc x); cbn [andb]; [|reflexivity].
    match goal with |- context [PrimFloat.ltb ?a ?b] => destruct (PrimFloat.ltb a b) end; reflexivity. }
  destruct (s_metric r =? 4) eqn:E4; [|reflexivity].
  destruct (PrimFloat.ltb (s_trigger r) cpu); [|reflexivity].
  destruct (s_strategy r =? 1); cbn [negb orb]; [|reflexivity].
  destruct (1 <? nd_conc x); cbn [andb]; [|reflexivity].
  match goal with |- context [PrimFloat.ltb ?a ?b] => destruct (PrimFloat.ltb a b) end; reflexivity.
Qed.

Print Assumptions system_doCheckRule_ok.

(* ---- Round 3: AdaptiveSlot.Check, ONE iteration of `for _, rule := range rules` ----
   Gen.system_Slot_Check_step: chk_0 / chk_2 = the (passed, snapshot) results of s.doCheckRule(rule) -
   instantiated below with the REGENERATED doCheckRule -, not_inbound = the guard in front of the loop,
   result_nil = whether the context carries a reusable TokenResult (either way the request is blocked:
   action 1 = NewTokenResultBlockedWithCause, 2 = ResetToBlockedWithCause, argument = snapshot value).
   It is the step of the model's [check_rules]: a passing rule continues, the first rule that does not
   pass is returned with its snapshot; and [check_rules] is that step iterated ("first violated rule wins"). *)
Definition snap_of (tr : list leaf_act) : option float :=
  match tr with (_, LF v :: _) :: _ => Some v | _ => None end.

Definition check_rules_step (x : node) (now : Z) (load cpu : float) (r : srule) : option (srule * float) :=
  let '(passed, v) := do_check_rule x now load cpu r in if passed then None else Some (r, v).

Lemma check_rules_unfold x now load cpu r rest :
  check_rules x now load cpu (r :: rest)
  = match check_rules_step x now load cpu r with Some b => Some b | None => check_rules x now load cpu rest end.
Proof. unfold check_rules_step. cbn [check_rules]. destruct (do_check_rule x now load cpu r) as [p v]. destruct p; reflexivity. Qed.

Lemma slot_check_unfold inbound x now load cpu rules ord :
  slot_check inbound x now load cpu rules ord
  = if negb inbound then None else check_rules x now load cpu (get_rules rules ord).
Proof. reflexivity. Qed.

Lemma system_Slot_Check_step_ok x now load cpu r inbound result_nil :
  let chk := system_doCheckRule cpu (node_avg_rt x now) (nd_conc x) (node_max_avg x now EvComplete) (node_min_rt x now)
               (node_qps x now EvPass) load (s_metric r) (s_strategy r) (s_trigger r) in
  let g := system_Slot_Check_step (fst chk) (snd chk) (negb inbound) result_nil in
  (fst g, snap_of (snd g))
  = if negb inbound then (LReturn 0, None)          (* not inbound: nil result, the rules are not consulted *)
    else match check_rules_step x now load cpu r with
         | None => (LContinue tt, None)
         | Some (_, v) => (LReturn 1, Some v)
         end.
Proof.
  cbv zeta. rewrite system_doCheckRule_ok. unfold system_Slot_Check_step, check_rules_step.
  destruct (do_check_rule x now load cpu r) as [p v]. cbn [fst snd].
  destruct inbound, p, result_nil; reflexivity.
Qed.

Print Assumptions system_Slot_Check_step_ok.
Print Assumptions check_rules_unfold.
