(* C07 leaf obligation: AdaptiveSlot.doCheckRule (with checkBbrSimple inlined), regenerated from
   the Go source on every run (Gen.Leaf_gen), is the function [do_check_rule] of Model/System.v
   for ALL rules, readings and node states: the node getters enter as parameters and are
   instantiated with the model's getters (whose equality with the reference statistics is C08). *)
From Coq Require Import ZArith Bool Lia Floats.
From SG Require Import Base.Prelude Base.GoInt Base.GoFloat Model.LeapArray Model.StatNode Model.Rules Model.System.
From Gen Require Import Leaf_gen.
#[local] Open Scope Z_scope.

Lemma system_doCheckRule_ok x now load cpu r :
  system_doCheckRule cpu (node_avg_rt x now) (nd_conc x) (node_max_avg x now EvComplete) (node_min_rt x now)
    (node_qps x now EvPass) load (s_metric r) (s_strategy r) (s_trigger r)
  = do_check_rule x now load cpu r.
Proof.
  unfold system_doCheckRule, do_check_rule, check_bbr_simple,
    MtInboundQPS, MtConcurrency, MtAvgRT, MtLoad, MtCpuUsage, BBR.
  destruct (s_metric r =? 3) eqn:E3.
  { destruct (PrimFloat.ltb (node_qps x now EvPass) (s_trigger r)); reflexivity. }
  destruct (s_metric r =? 2) eqn:E2.
  { destruct (PrimFloat.ltb (f_of_i64 (nd_conc x)) (s_trigger r)); reflexivity. }
  destruct (s_metric r =? 1) eqn:E1.
  { destruct (PrimFloat.ltb (node_avg_rt x now) (s_trigger r)); reflexivity. }
  destruct (s_metric r =? 0) eqn:E0.
  { destruct (PrimFloat.ltb (s_trigger r) load); [|reflexivity].
    destruct (s_strategy r =? 1); cbn [negb orb]; [|reflexivity].
    destruct (1 <? nd_conc x); cbn [andb]; [|reflexivity].
    match goal with |- context [PrimFloat.ltb ?a ?b] => destruct (PrimFloat.ltb a b) end; reflexivity. }
  destruct (s_metric r =? 4) eqn:E4; [|reflexivity].
  destruct (PrimFloat.ltb (s_trigger r) cpu); [|reflexivity].
  destruct (s_strategy r =? 1); cbn [negb orb]; [|reflexivity].
  destruct (1 <? nd_conc x); cbn [andb]; [|reflexivity].
  match goal with |- context [PrimFloat.ltb ?a ?b] => destruct (PrimFloat.ltb a b) end; reflexivity.
Qed.

Print Assumptions system_doCheckRule_ok.
