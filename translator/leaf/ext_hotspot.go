// Extensions of the leaf translator first needed by the hot-parameter controllers (C05 / C06); all of
// them are general and reached through one-line hooks in main.go:
//
//   - Ctors: a target may list the constructors of *base.TokenResult.  The function's result is then a
//     pair (tag, value) : Z * Z instead of the nil / non-nil code: `nil` is (0, 0); a constructor call
//     is (Tag, v) with v the listed argument coerced to the listed type, or (NilTag, 0) when that
//     argument is the literal nil or the constructor carries no value.
//   - `x++` / `x--` (desugared to `x = x + 1`).
//   - comma-ok assignments `v, ok := m[k]`, `p, found := cache.Get(k)`: two hints, one keyed by the
//     source text of the right-hand side (the value; Typ "opaque" for a pointer that is only used
//     through further hints) and one keyed by that text followed by " ok" (the boolean).
//   - fields promoted through embedded structs (`c.threshold` with c a *rejectTrafficShapingController
//     embedding baseTrafficShapingController).
//   - time.Duration(x) as a conversion to int64 and the time.* duration constants as int64 values.
//   - `msg := fmt.Sprintf(...)` defines a message string (not part of the decision, dropped).
package main

import (
	"go/ast"
	"go/token"
	"strconv"
	"strings"
)

type ctor struct {
	Tag    int    // tag of the result when the value argument is present
	NilTag int    // tag when the value argument is the literal nil, or when Arg < 0
	Arg    int    // index of the argument that is the carried value; -1: none
	Typ    string // Go type the value is coerced to
}

// tokresVal: the (tag, value) pair of an expression of type *base.TokenResult (targets with Ctors)
func (x *tr) tokresVal(e ast.Expr) string {
	s := src(x.p.fset, e)
	if s == "nil" {
		return "(0%Z, 0%Z)"
	}
	if h, ok := x.t.Hints[s]; ok && h.Typ == "tokres" { // a token result computed elsewhere: a (tag, value) parameter
		return x.param(h.Var, "tokres").coq
	}
	if ce, ok := e.(*ast.CallExpr); ok {
		if a, ok := x.lookupAct(ce); ok && a.Ret.Typ == "tokres" { // recorded call that yields the token result
			v, _ := x.actCall(ce)
			return v.coq
		}
		fn := src(x.p.fset, ce.Fun)
		if c, ok := x.t.Ctors[fn]; ok {
			if c.Arg < 0 {
				return "(" + strconv.Itoa(c.NilTag) + "%Z, 0%Z)"
			}
			if c.Arg >= len(ce.Args) {
				fail("constructor %s: no argument %d", fn, c.Arg)
			}
			if src(x.p.fset, ce.Args[c.Arg]) == "nil" {
				return "(" + strconv.Itoa(c.NilTag) + "%Z, 0%Z)"
			}
			v := x.coerce(x.expr(ce.Args[c.Arg]), c.Typ)
			return "(" + strconv.Itoa(c.Tag) + "%Z, " + v.coq + ")"
		}
		if v, ok := x.inlineAny(ce); ok { // autoinline.go
			if v.typ != "tokres" {
				fail("inlined %s does not return a token result", fn)
			}
			return v.coq
		}
	}
	fail("token result %s is neither nil, a listed constructor nor an inlined call", s)
	return ""
}

// isTokres: does a result of Go type `te` use the (tag, value) representation in this target?
func (x *tr) isTokres(te ast.Expr) bool {
	return x.t.Ctors != nil && src(x.p.fset, te) == "*base.TokenResult"
}

func desugarIncDec(s *ast.IncDecStmt) ast.Stmt {
	op := token.ADD
	if s.Tok == token.DEC {
		op = token.SUB
	}
	return &ast.AssignStmt{Lhs: []ast.Expr{s.X}, Tok: token.ASSIGN,
		Rhs: []ast.Expr{&ast.BinaryExpr{X: s.X, Op: op, Y: &ast.BasicLit{Kind: token.INT, Value: "1"}}}}
}

// commaOk executes `a, b := rhs` / `a, b = rhs` when the hint table has both `rhs` and `rhs ok`.
func (x *tr) commaOk(s *ast.AssignStmt, tail []ast.Stmt, rest [][]ast.Stmt) (string, bool) {
	if len(s.Lhs) != 2 || len(s.Rhs) != 1 || (s.Tok != token.DEFINE && s.Tok != token.ASSIGN) {
		return "", false
	}
	r := src(x.p.fset, s.Rhs[0])
	hv, ok1 := x.t.Hints[r]
	hk, ok2 := x.t.Hints[r+" ok"]
	if !ok1 || !ok2 {
		return "", false
	}
	if ce, ok := s.Rhs[0].(*ast.CallExpr); ok {
		if _, isAct := x.lookupAct(ce); isAct { // e.g. cache.Get moves the element to the front: recorded
			x.actCall(ce)
		}
	}
	saved := x.snapshot()
	pre := ""
	for i, h := range []hint{hv, hk} {
		id, ok := s.Lhs[i].(*ast.Ident)
		if !ok {
			fail("assignment to %s", src(x.p.fset, s.Lhs[i]))
		}
		if id.Name == "_" {
			continue
		}
		if h.Typ == "opaque" {
			x.vars[id.Name] = "ptr:?"
			continue
		}
		if old, had := x.vars[id.Name]; s.Tok == token.ASSIGN && (!had || old != h.Typ) {
			fail("assignment of %s to %s", h.Typ, id.Name)
		}
		v := x.param(h.Var, h.Typ)
		x.vars[id.Name] = h.Typ
		pre += "let " + cname(id.Name) + " := " + v.coq + " in\n  "
	}
	body := x.exec(tail, rest)
	if s.Tok == token.DEFINE {
		x.restoreScope(saved)
	}
	return pre + body, true
}

// restoreScope: restore the variable table but keep the path-sensitive translator state (reserved keys
// with a NUL prefix: action trace, occurrence counters of effects.go) as it is now
func (x *tr) restoreScope(saved map[string]string) {
	for k, v := range x.vars {
		if strings.HasPrefix(k, "\x00") {
			saved[k] = v
		}
	}
	x.restore(saved)
}

// actOpaque: `p := call(...)` where the call is a recorded action (Acts) whose result is a pointer used
// only through further hints (Ret.Typ "opaque"): the action is recorded, p becomes an opaque variable
// (`p == nil` is then the parameter p_nil, effects.go)
func (x *tr) actOpaque(s *ast.AssignStmt) bool {
	if len(s.Lhs) != 1 || len(s.Rhs) != 1 || s.Tok != token.DEFINE {
		return false
	}
	id, ok := s.Lhs[0].(*ast.Ident)
	ce, ok2 := s.Rhs[0].(*ast.CallExpr)
	if !ok || !ok2 {
		return false
	}
	a, ok := x.lookupAct(ce)
	if !ok || a.Ret.Typ != "opaque" || a.Ret.Var != "" {
		return false
	}
	x.actCall(ce)
	if id.Name != "_" {
		x.vars[id.Name] = "ptr:?"
	}
	return true
}

// addrOf: `&v` with v a local scalar variable stands for the value handed over through the pointer
// (cache.AddIfAbsent(k, &v) stores v's current value); only meaningful as a recorded action argument -
// Go's typing keeps it out of arithmetic
func (x *tr) addrOf(e *ast.UnaryExpr) (val, bool) {
	if e.Op != token.AND {
		return val{}, false
	}
	id, ok := e.X.(*ast.Ident)
	if !ok {
		return val{}, false
	}
	if t, ok := x.vars[id.Name]; ok && isBasic(t) {
		return val{coq: cname(id.Name), typ: t}, true
	}
	return val{}, false
}

// lookupField: type of field f of struct sn, searching embedded structs of the package (promotion)
func (x *tr) lookupField(sn, f string) (ast.Expr, bool) {
	return x.lookupFieldN(sn, f, 0)
}

func (x *tr) lookupFieldN(sn, f string, depth int) (ast.Expr, bool) {
	fs, ok := x.p.structs[sn]
	if !ok || depth > 4 {
		return nil, false
	}
	if ft, ok := fs[f]; ok {
		return ft, true
	}
	var names []string
	for n, ft := range fs {
		if n == recvTypeName(ft) { // embedded field: named after its type
			if _, isStruct := x.p.structs[n]; isStruct {
				names = append(names, n)
			}
		}
	}
	var found ast.Expr
	cnt := 0
	for _, n := range names {
		if ft, ok := x.lookupFieldN(n, f, depth+1); ok {
			found = ft
			cnt++
		}
	}
	if cnt == 1 {
		return found, true
	}
	if cnt > 1 {
		fail("ambiguous promoted field %s of %s", f, sn)
	}
	return nil, false
}

var timeConsts = map[string]int64{"time.Nanosecond": 1, "time.Microsecond": 1000, "time.Millisecond": 1000000,
	"time.Second": 1000000000, "time.Minute": 60000000000, "time.Hour": 3600000000000}

// selectorExt: selectors of the standard library with a fixed integer value
func (x *tr) selectorExt(s string) (val, bool) {
	if v, ok := timeConsts[s]; ok {
		return val{coq: "(" + strconv.FormatInt(v, 10) + ")%Z", typ: "int64"}, true
	}
	return val{}, false
}

// callExt: standard-library conversions
func (x *tr) callExt(fn string, e *ast.CallExpr) (val, bool) {
	if fn == "time.Duration" && len(e.Args) == 1 {
		return x.convert("int64", x.expr(e.Args[0])), true
	}
	if fn == "math.Round" && len(e.Args) == 1 {
		// Base/GoFloat.v has no float-valued Round: the value has the internal type "round" and is only
		// usable under an int64(...) conversion (leaf_i64_of_round, preamble below)
		v := x.coerce(x.expr(e.Args[0]), "float64")
		return val{coq: v.coq, typ: "round"}, true
	}
	return val{}, false
}

// convertExt: int64(math.Round(f))
func (x *tr) convertExt(to string, v val) (val, bool) {
	if v.typ == "round" {
		if to == "int64" || to == "int" {
			return val{coq: "(leaf_i64_of_round " + v.coq + ")", typ: to}, true
		}
		fail("math.Round is only supported under an int64 conversion")
	}
	return val{}, false
}

// preamble of Leaf_gen.v: math.Round (nearest integer, halves away from zero) followed by Go's int64
// conversion (amd64: -2^63 when out of range / NaN / Inf), on the exact value m * 2^e of the double
const hotspotPreamble = "Definition leaf_round_Z (f : float) : option Z :=\n" +
	"  match Prim2SF f with\n" +
	"  | S754_zero _ => Some 0%Z\n" +
	"  | S754_finite s m e =>\n" +
	"      let v := if (0 <=? e)%Z then (Zpos m * 2 ^ e)%Z else ((Zpos m + 2 ^ (- e - 1)) / 2 ^ (- e))%Z in\n" +
	"      Some (if s then (- v)%Z else v)\n" +
	"  | _ => None\n  end.\n" +
	"Definition leaf_i64_of_round (f : float) : Z :=\n" +
	"  match leaf_round_Z f with\n" +
	"  | Some t => if ((- two63 <=? t)%Z && (t <? two63)%Z)%bool then t else (- two63)%Z\n" +
	"  | None => (- two63)%Z\n  end.\n\n"

// isMessageExpr: right-hand sides that build a message string
func (x *tr) isMessageExpr(e ast.Expr) bool {
	if ce, ok := e.(*ast.CallExpr); ok {
		return strings.HasPrefix(src(x.p.fset, ce.Fun), "fmt.Sprint")
	}
	return false
}
