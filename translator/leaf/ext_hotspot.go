// Extensions of the leaf translator first needed by the hot-parameter controllers (C05 / C06); all of
// them are general and reached through one-line hooks in main.go:
//
//   - Ctors: a target may list the constructors of *base.TokenResult.  The function's result is then a
//     pair (tag, value) : Z * Z instead of the nil / non-nil code: `nil` is (0, 0); a constructor call
//     is (Tag, v) with v the listed argument coerced to the listed type, or (NilTag, 0) when that
//     argument is the literal nil or the constructor carries no value.
//   - `x++` / `x--` (desugared to `x = x + 1`).
//   - comma-ok assignments `v, ok := m[k]`, `p, found := cache.Get(k)`: two hints, one keyed by the
//     source text of the right-hand side (the value; Typ "opaque" for a pointer that is only used
//     through further hints) and one keyed by that text followed by " ok" (the boolean).
//   - fields promoted through embedded structs (`c.threshold` with c a *rejectTrafficShapingController
//     embedding baseTrafficShapingController).
//   - time.Duration(x) as a conversion to int64 and the time.* duration constants as int64 values.
//   - `msg := fmt.Sprintf(...)` defines a message string (not part of the decision, dropped).
package main

import (
	"go/ast"
	"go/token"
	"strconv"
	"strings"
)

type ctor struct {
	Tag    int    // tag of the result when the value argument is present
	NilTag int    // tag when the value argument is the literal nil, or when Arg < 0
	Arg    int    // index of the argument that is the carried value; -1: none
	Typ    string // Go type the value is coerced to
}

// tokresVal: the (tag, value) pair of an expression of type *base.TokenResult (targets with Ctors)
func (x *tr) tokresVal(e ast.Expr) string {
	s := src(x.p.fset, e)
	if s == "nil" {
		return "(0%Z, 0%Z)"
	}
	if ce, ok := e.(*ast.CallExpr); ok {
		fn := src(x.p.fset, ce.Fun)
		if c, ok := x.t.Ctors[fn]; ok {
			if c.Arg < 0 {
				return "(" + strconv.Itoa(c.NilTag) + "%Z, 0%Z)"
			}
			if c.Arg >= len(ce.Args) {
				fail("constructor %s: no argument %d", fn, c.Arg)
			}
			if src(x.p.fset, ce.Args[c.Arg]) == "nil" {
				return "(" + strconv.Itoa(c.NilTag) + "%Z, 0%Z)"
			}
			v := x.coerce(x.expr(ce.Args[c.Arg]), c.Typ)
			return "(" + strconv.Itoa(c.Tag) + "%Z, " + v.coq + ")"
		}
		if v, ok := x.inline(ce); ok {
			if v.typ != "tokres" {
				fail("inlined %s does not return a token result", fn)
			}
			return v.coq
		}
	}
	fail("token result %s is neither nil, a listed constructor nor an inlined call", s)
	return ""
}

// isTokres: does a result of Go type `te` use the (tag, value) representation in this target?
func (x *tr) isTokres(te ast.Expr) bool {
	return x.t.Ctors != nil && src(x.p.fset, te) == "*base.TokenResult"
}

func desugarIncDec(s *ast.IncDecStmt) ast.Stmt {
	op := token.ADD
	if s.Tok == token.DEC {
		op = token.SUB
	}
	return &ast.AssignStmt{Lhs: []ast.Expr{s.X}, Tok: token.ASSIGN,
		Rhs: []ast.Expr{&ast.BinaryExpr{X: s.X, Op: op, Y: &ast.BasicLit{Kind: token.INT, Value: "1"}}}}
}

// commaOk executes `a, b := rhs` / `a, b = rhs` when the hint table has both `rhs` and `rhs ok`.
func (x *tr) commaOk(s *ast.AssignStmt, tail []ast.Stmt, rest [][]ast.Stmt) (string, bool) {
	if len(s.Lhs) != 2 || len(s.Rhs) != 1 || (s.Tok != token.DEFINE && s.Tok != token.ASSIGN) {
		return "", false
	}
	r := src(x.p.fset, s.Rhs[0])
	hv, ok1 := x.t.Hints[r]
	hk, ok2 := x.t.Hints[r+" ok"]
	if !ok1 || !ok2 {
		return "", false
	}
	saved := x.snapshot()
	pre := ""
	for i, h := range []hint{hv, hk} {
		id, ok := s.Lhs[i].(*ast.Ident)
		if !ok {
			fail("assignment to %s", src(x.p.fset, s.Lhs[i]))
		}
		if id.Name == "_" {
			continue
		}
		if h.Typ == "opaque" {
			x.vars[id.Name] = "ptr:?"
			continue
		}
		if old, had := x.vars[id.Name]; s.Tok == token.ASSIGN && (!had || old != h.Typ) {
			fail("assignment of %s to %s", h.Typ, id.Name)
		}
		v := x.param(h.Var, h.Typ)
		x.vars[id.Name] = h.Typ
		pre += "let " + cname(id.Name) + " := " + v.coq + " in\n  "
	}
	body := x.exec(tail, rest)
	if s.Tok == token.DEFINE {
		x.restore(saved)
	}
	return pre + body, true
}

// lookupField: type of field f of struct sn, searching embedded structs of the package (promotion)
func (x *tr) lookupField(sn, f string) (ast.Expr, bool) {
	return x.lookupFieldN(sn, f, 0)
}

func (x *tr) lookupFieldN(sn, f string, depth int) (ast.Expr, bool) {
	fs, ok := x.p.structs[sn]
	if !ok || depth > 4 {
		return nil, false
	}
	if ft, ok := fs[f]; ok {
		return ft, true
	}
	var names []string
	for n, ft := range fs {
		if n == recvTypeName(ft) { // embedded field: named after its type
			if _, isStruct := x.p.structs[n]; isStruct {
				names = append(names, n)
			}
		}
	}
	var found ast.Expr
	cnt := 0
	for _, n := range names {
		if ft, ok := x.lookupFieldN(n, f, depth+1); ok {
			found = ft
			cnt++
		}
	}
	if cnt == 1 {
		return found, true
	}
	if cnt > 1 {
		fail("ambiguous promoted field %s of %s", f, sn)
	}
	return nil, false
}

var timeConsts = map[string]int64{"time.Nanosecond": 1, "time.Microsecond": 1000, "time.Millisecond": 1000000,
	"time.Second": 1000000000, "time.Minute": 60000000000, "time.Hour": 3600000000000}

// selectorExt: selectors of the standard library with a fixed integer value
func (x *tr) selectorExt(s string) (val, bool) {
	if v, ok := timeConsts[s]; ok {
		return val{coq: "(" + strconv.FormatInt(v, 10) + ")%Z", typ: "int64"}, true
	}
	return val{}, false
}

// callExt: standard-library conversions
func (x *tr) callExt(fn string, e *ast.CallExpr) (val, bool) {
	if fn == "time.Duration" && len(e.Args) == 1 {
		return x.convert("int64", x.expr(e.Args[0])), true
	}
	return val{}, false
}

// isMessageExpr: right-hand sides that build a message string
func (x *tr) isMessageExpr(e ast.Expr) bool {
	if ce, ok := e.(*ast.CallExpr); ok {
		return strings.HasPrefix(src(x.p.fset, ce.Fun), "fmt.Sprint")
	}
	return false
}
