(* C20 leaf obligations: ONE ITERATION of the node loop of outlier.checkAllNodes
   (`for address, breaker := range nodeBreaks { ... }`), regenerated from the Go source on every
   run (Gen.Leaf_gen.outlier_checkAllNodes_step, loop-body mode of translator/leaf), is the
   function [visit] of Model/Outlier.v for ALL node counts, percentages (any double, NaN and
   infinities included), list lengths and breaker states, and iterating the regenerated step over
   any iteration order is the model's check_all - the function the C20 theorems are about.

   What enters as parameters: breaker.TryPass(ctx) (bool), breaker.CurrentState() read AFTER
   TryPass (int32 code), len(nodeBreaks), len(filters), and the two rule fields.  What is
   regenerated: the half-open test `!EnableActiveRecovery && state == HalfOpen`, the ejection
   quota `int(float64(nodeCount) * MaxEjectionPercent)`, the comparison `len(filters) < quota`
   that stops ejecting, and which of the three lists receive the address (action trace:
   1 = halfs, 2 = outliers, 3 = filters). *)
From Coq Require Import ZArith Bool Lia List Floats.
From SG Require Import Base.Prelude Base.GoInt Base.GoFloat Model.Outlier.
From Gen Require Import Leaf_gen.
#[local] Open Scope Z_scope.

(* the appends recorded in the trace, applied to the accumulator for address a *)
Definition apply_act (a : Z) (c : acc) (x : leaf_act) : acc :=
  if fst x =? 1 then mkA (a_nodes c) (a_filt c) (a_outl c) (a_half c ++ [a])
  else if fst x =? 2 then mkA (a_nodes c) (a_filt c) (a_outl c ++ [a]) (a_half c)
  else if fst x =? 3 then mkA (a_nodes c) (a_filt c ++ [a]) (a_outl c) (a_half c)
  else c.

Definition apply_acts (a : Z) (c : acc) (tr : list leaf_act) : acc := fold_left (apply_act a) tr c.

(* one iteration, driven by the regenerated step: TryPass on the node's breaker (its Open->HalfOpen
   side effect stored), then the appends the step performs *)
Definition gen_visit (r : orule) (now n : Z) (c : acc) (a : Z) : acc :=
  match alookup a (a_nodes c) with
  | None => c
  | Some b =>
      let tp := try_pass (br r) now b in
      let c1 := mkA (if fst tp then aset a (snd tp) (a_nodes c) else a_nodes c) (a_filt c) (a_outl c) (a_half c) in
      apply_acts a c1
        (snd (outlier_checkAllNodes_step (Z.of_nat (length (a_filt c))) n (active r) (pct r)
                (bstate_code (st (snd tp))) (fst tp)))
  end.

(* every path of the body ends in `continue` / the end of the body: the loop never returns or breaks *)
Lemma outlier_checkAllNodes_step_flow flen n act p s tp :
  fst (outlier_checkAllNodes_step flen n act p s tp) = LContinue tt.
Proof.
  unfold outlier_checkAllNodes_step. cbv zeta.
  destruct tp.
  - match goal with |- context [if ?c then _ else _] => destruct c end; reflexivity.
  - match goal with |- context [if ?c then _ else _] => destruct c end; reflexivity.
Qed.

Lemma half_code s : (bstate_code s =? 1) = is_half s.
Proof. destruct s; reflexivity. Qed.

(* the regenerated iteration = the model's visit, with the quota computed from n = len(nodeBreaks) *)
Lemma outlier_checkAllNodes_step_ok r now n c a :
  gen_visit r now n c a = visit r now (limit_of n (pct r)) c a.
Proof.
  unfold gen_visit, visit. destruct (alookup a (a_nodes c)) as [b|]; [|reflexivity].
  cbv zeta. unfold outlier_checkAllNodes_step, limit_of. cbv zeta.
  destruct (fst (try_pass (br r) now b)) eqn:TP.
  - rewrite half_code.
    destruct (negb (active r) && is_half (st (snd (try_pass (br r) now b))))%bool; reflexivity.
  - match goal with |- context [?x <? ?y] => destruct (x <? y) end; reflexivity.
Qed.

(* the whole loop, for any iteration order of the map *)
Theorem outlier_checkAllNodes_ok r now nodes order :
  fold_left (gen_visit r now (Z.of_nat (length nodes))) order (mkA nodes [] [] []) = check_all r now nodes order.
Proof.
  unfold check_all. generalize (mkA nodes [] [] []) as c0.
  induction order as [|a rest IH]; intros c0; [reflexivity|].
  cbn [fold_left]. rewrite outlier_checkAllNodes_step_ok. apply IH.
Qed.

Print Assumptions outlier_checkAllNodes_step_flow.
Print Assumptions outlier_checkAllNodes_step_ok.
Print Assumptions outlier_checkAllNodes_ok.
