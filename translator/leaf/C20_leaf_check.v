(* C20 leaf obligations: ONE ITERATION of the node loop of outlier.checkAllNodes
   (`for address, breaker := range nodeBreaks { ... }`), regenerated from the Go source on every
   run (Gen.Leaf_gen.outlier_checkAllNodes_step, loop-body mode of translator/leaf), is the
   function [visit] of Model/Outlier.v for ALL node counts, percentages (any double, NaN and
   infinities included), list lengths and breaker states, and iterating the regenerated step over
   any iteration order is the model's check_all - the function the C20 theorems are about.

   What enters as parameters: breaker.TryPass(ctx) (bool), breaker.CurrentState() read AFTER
   TryPass (int32 code), len(nodeBreaks), len(filters), and the two rule fields.  What is
   regenerated: the half-open test `!EnableActiveRecovery && state == HalfOpen`, the ejection
   quota `int(float64(nodeCount) * MaxEjectionPercent)`, the comparison `len(filters) < quota`
   that stops ejecting, and which of the three lists receive the address (action trace:
   1 = halfs, 2 = outliers, 3 = filters). *)
From Coq Require Import ZArith Bool Lia List Floats.
From SG Require Import Base.Prelude Base.GoInt Base.GoFloat Model.Outlier.
From Gen Require Import Leaf_gen.
#[local] Open Scope Z_scope.

(* the appends recorded in the trace, applied to the accumulator for address a *)
Definition apply_act (a : Z) (c : acc) (x : leaf_act) : acc :=
  if fst x =? 1 then mkA (a_nodes c) (a_filt c) (a_outl c) (a_half c ++ [a])
  else if fst x =? 2 then mkA (a_nodes c) (a_filt c) (a_outl c ++ [a]) (a_half c)
  else if fst x =? 3 then mkA (a_nodes c) (a_filt c ++ [a]) (a_outl c) (a_half c)
  else c.

Definition apply_acts (a : Z) (c : acc) (tr : list leaf_act) : acc := fold_left (apply_act a) tr c.

(* one iteration, driven by the regenerated step: TryPass on the node's breaker (its Open->HalfOpen
   side effect stored), then the appends the step performs *)
Definition gen_visit (r : orule) (now n : Z) (c : acc) (a : Z) : acc :=
  match alookup a (a_nodes c) with
  | None => c
  | Some b =>
      let tp := try_pass (br r) now b in
      let c1 := mkA (if fst tp then aset a (snd tp) (a_nodes c) else a_nodes c) (a_filt c) (a_outl c) (a_half c) in
      apply_acts a c1
        (snd (outlier_checkAllNodes_step (Z.of_nat (length (a_filt c))) n (active r) (pct r)
                (bstate_code (st (snd tp))) (fst tp)))
  end.

(* proof style: one case per comparison of either side, comparisons turned into (in)equalities,
   equal branches by reflexivity (the recorded appends are applied by computation), contradictory
   ones by lia - so that a rewrite of the Go conditions that keeps their meaning still checks *)
Ltac split_ifs :=
  repeat match goal with |- context [if ?c then _ else _] => destruct c eqn:? end.
Ltac bool_facts :=
  repeat match goal with
  | H : negb _ = true |- _ => apply negb_true_iff in H
  | H : negb _ = false |- _ => apply negb_false_iff in H
  | H : andb _ _ = true |- _ => apply andb_true_iff in H; destruct H
  | H : orb _ _ = false |- _ => apply orb_false_iff in H; destruct H
  | H : (_ <? _) = true |- _ => apply Z.ltb_lt in H
  | H : (_ <? _) = false |- _ => apply Z.ltb_ge in H
  | H : (_ <=? _) = true |- _ => apply Z.leb_le in H
  | H : (_ <=? _) = false |- _ => apply Z.leb_gt in H
  | H : (_ =? _) = true |- _ => apply Z.eqb_eq in H
  | H : (_ =? _) = false |- _ => apply Z.eqb_neq in H
  end.
Ltac leaf_cases := split_ifs; bool_facts; first [reflexivity | exfalso; lia | exfalso; congruence].

(* every path of the body ends in `continue` / the end of the body: the loop never returns or breaks *)
Lemma outlier_checkAllNodes_step_flow flen n act p s tp :
  fst (outlier_checkAllNodes_step flen n act p s tp) = LContinue tt.
Proof. unfold outlier_checkAllNodes_step. cbv zeta. leaf_cases. Qed.

(* the regenerated iteration = the model's visit, with the quota computed from n = len(nodeBreaks) *)
Lemma outlier_checkAllNodes_step_ok r now n c a :
  gen_visit r now n c a = visit r now (limit_of n (pct r)) c a.
Proof.
  unfold gen_visit, visit. destruct (alookup a (a_nodes c)) as [b|]; [|reflexivity].
  cbv zeta. unfold outlier_checkAllNodes_step, limit_of. cbv zeta.
  destruct (fst (try_pass (br r) now b)); destruct (active r);
    destruct (st (snd (try_pass (br r) now b)));
    cbn [bstate_code is_half negb andb]; leaf_cases.
Qed.

(* the whole loop, for any iteration order of the map *)
Theorem outlier_checkAllNodes_ok r now nodes order :
  fold_left (gen_visit r now (Z.of_nat (length nodes))) order (mkA nodes [] [] []) = check_all r now nodes order.
Proof.
  unfold check_all. generalize (mkA nodes [] [] []) as c0.
  induction order as [|a rest IH]; intros c0; [reflexivity|].
  cbn [fold_left]. rewrite outlier_checkAllNodes_step_ok. apply IH.
Qed.

(* the parameters are positional: pin their NAMES (the struct fields / reads the Go code uses in
   each position), so that reading another field of the same type in the same place is noticed *)
Section ParamNames.
Import Coq.Strings.String.
Local Open Scope string_scope.
Local Open Scope list_scope.
Lemma outlier_checkAllNodes_step_params : LeafParams.outlier_checkAllNodes_step = "filters_len" :: "nodeCount" :: "rule_EnableActiveRecovery" :: "rule_MaxEjectionPercent" :: "state" :: "try_pass" :: nil.
Proof. reflexivity. Qed.
End ParamNames.

Print Assumptions outlier_checkAllNodes_step_flow.
Print Assumptions outlier_checkAllNodes_step_ok.
Print Assumptions outlier_checkAllNodes_ok.
