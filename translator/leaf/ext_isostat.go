// Extensions of the leaf translator first needed by the isolation / outlier / statistic cluster
// (C04, C20, C08, C09); general, reached through one-line hooks in main.go:
//
//   - NilRes: a result whose type text is listed (e.g. "*Rule") is reported like an error result,
//     as a Z code: 0 for nil, Errs[<expression text>] for a listed expression (e.g. the range
//     variable `rule` -> 1); anything else is untranslatable;
//   - a hint of type "ptr:<Struct>" on the right-hand side of `v := <expr>` declares v as a pointer
//     to that struct of the package: its scalar fields are read through <v>_<field> parameters like
//     a receiver's (the object itself comes from a lookup that is not part of the decision);
//   - `v = append(v, e)` whose call text has an entry in Acts is recorded in the action trace and v
//     is not a value (its length, where the code tests it, enters through a hint on `len(v)`); a
//     slice-typed NAMED result all of whose assignments in the function are such recorded appends is
//     dropped from the result tuple (the trace says what was appended to it, in order).  An append
//     without an Acts entry stays untranslatable;
//   - `x op= e` (+= -= *= /=) is `x = x op e`;
//   - `p = f(...)` on a pointer / opaque variable where f is an action (Acts) records the action
//     (main.go skips pointer assignments as "not part of the decision", which would lose it);
//   - `v := &T{...}` declares v as an opaque object when the target carries the hint key `&T{}`
//     (type "opaque"): the literal's field values are not part of the result;
//   - LoopFrame: N (N >= 1): the function is translated WHOLE, with its N-th top-level loop replaced
//     by one application of the parameter `loop_fn : C -> C`, C = the tuple (alphabetical order) of
//     the loop-carried scalar variables, exactly the ones a LoopBody target of the same loop
//     carries.  Together with the LoopBody target of the same loop this regenerates all three parts
//     of a function with one loop: what the carried variables start from, one iteration, and what
//     is computed from their final values; the obligation file instantiates loop_fn with the
//     iteration of the regenerated step;
//   - module LeafParams at the end of Leaf_gen.v: for every translated definition f the list of its
//     parameter names, `LeafParams.f : list string`.  Parameters are positional in Gallina, so a
//     lemma that instantiates `f (v_itv v) now sum` cannot see that the Go code now reads another
//     field of the same type in that position (m.bucketLengthInMs for m.intervalInMs); an obligation
//     file pins the names with `LeafParams.f = [...]` (reflexivity).
package main

import (
	"go/ast"
	"go/token"
	"sort"
	"strings"
)

func (x *tr) isNilRes(st string) bool {
	for _, s := range x.t.NilRes {
		if s == st {
			return true
		}
	}
	return false
}

// ptrHint: `v := <hinted expr>` with a hint of type "ptr:<Struct>"
func (x *tr) ptrHint(s *ast.AssignStmt) bool {
	if s.Tok != token.DEFINE || len(s.Lhs) != 1 || len(s.Rhs) != 1 {
		return false
	}
	id, ok := s.Lhs[0].(*ast.Ident)
	if !ok {
		return false
	}
	h, ok := x.t.Hints[src(x.p.fset, s.Rhs[0])]
	if !ok || !strings.HasPrefix(h.Typ, "ptr:") || h.Typ == "ptr:?" {
		return false
	}
	if _, isStruct := x.p.structs[h.Typ[4:]]; !isStruct {
		fail("hint %s: no struct %s in the package", src(x.p.fset, s.Rhs[0]), h.Typ[4:])
	}
	x.vars[id.Name] = h.Typ
	return true
}

// recordedAppend: `v = append(v, ...)` with an Acts entry for the call text; returns the call
func (x *tr) recordedAppend(s *ast.AssignStmt) (*ast.CallExpr, bool) {
	if s.Tok != token.ASSIGN || len(s.Lhs) != 1 || len(s.Rhs) != 1 {
		return nil, false
	}
	id, ok := s.Lhs[0].(*ast.Ident)
	if !ok {
		return nil, false
	}
	ce, ok := s.Rhs[0].(*ast.CallExpr)
	if !ok || len(ce.Args) < 1 {
		return nil, false
	}
	if f, ok := ce.Fun.(*ast.Ident); !ok || f.Name != "append" {
		return nil, false
	}
	if a0, ok := ce.Args[0].(*ast.Ident); !ok || a0.Name != id.Name {
		return nil, false
	}
	if _, ok := x.t.Acts[src(x.p.fset, ce)]; !ok {
		return nil, false
	}
	return ce, true
}

// appendAct: record `v = append(v, e)` in the action trace
func (x *tr) appendAct(s *ast.AssignStmt) bool {
	ce, ok := x.recordedAppend(s)
	if !ok {
		return false
	}
	if _, ok := x.actCall(ce); !ok {
		fail("append %s is not an action", src(x.p.fset, ce))
	}
	return true
}

// isAppendOnly: a named slice-typed result every assignment to which (in the target function) is a
// recorded append
func (x *tr) isAppendOnly(f *ast.Field) bool {
	if _, ok := f.Type.(*ast.ArrayType); !ok || len(f.Names) == 0 || len(x.t.Acts) == 0 {
		return false
	}
	fd := x.p.funcs[x.t.Func]
	if fd == nil || fd.Body == nil {
		return false
	}
	names := map[string]bool{}
	for _, n := range f.Names {
		names[n.Name] = true
	}
	okAll, seen := true, map[string]bool{}
	ast.Inspect(fd.Body, func(n ast.Node) bool {
		as, ok := n.(*ast.AssignStmt)
		if !ok {
			return true
		}
		for _, l := range as.Lhs {
			if id, ok := l.(*ast.Ident); ok && names[id.Name] {
				if _, rec := x.recordedAppend(as); rec {
					seen[id.Name] = true
				} else {
					okAll = false
				}
			}
		}
		return true
	})
	return okAll && len(seen) == len(names)
}

// desugarOpAssign: `x op= e` -> `x = x op e`
func desugarOpAssign(s *ast.AssignStmt) (ast.Stmt, bool) {
	ops := map[token.Token]token.Token{token.ADD_ASSIGN: token.ADD, token.SUB_ASSIGN: token.SUB,
		token.MUL_ASSIGN: token.MUL, token.QUO_ASSIGN: token.QUO}
	op, ok := ops[s.Tok]
	if !ok || len(s.Lhs) != 1 || len(s.Rhs) != 1 {
		return nil, false
	}
	if _, ok := s.Lhs[0].(*ast.Ident); !ok {
		return nil, false
	}
	return &ast.AssignStmt{Lhs: s.Lhs, TokPos: s.TokPos, Tok: token.ASSIGN,
		Rhs: []ast.Expr{&ast.BinaryExpr{X: s.Lhs[0], Op: op, Y: &ast.ParenExpr{X: s.Rhs[0]}}}}, true
}

// ptrActAssign: `p = f(...)`, p a pointer / opaque variable, f an action
func (x *tr) ptrActAssign(s *ast.AssignStmt) bool {
	if s.Tok != token.ASSIGN || len(s.Lhs) != 1 || len(s.Rhs) != 1 {
		return false
	}
	id, ok := s.Lhs[0].(*ast.Ident)
	if !ok {
		return false
	}
	if t, ok := x.vars[id.Name]; !ok || !strings.HasPrefix(t, "ptr:") {
		return false
	}
	ce, ok := s.Rhs[0].(*ast.CallExpr)
	if !ok {
		return false
	}
	if _, ok := x.lookupAct(ce); !ok {
		return false
	}
	x.actCall(ce)
	return true
}

// newObject: `v := &T{...}` with the hint key `&T{}`
func (x *tr) newObject(s *ast.AssignStmt) bool {
	if s.Tok != token.DEFINE || len(s.Lhs) != 1 || len(s.Rhs) != 1 {
		return false
	}
	id, ok := s.Lhs[0].(*ast.Ident)
	if !ok {
		return false
	}
	u, ok := s.Rhs[0].(*ast.UnaryExpr)
	if !ok || u.Op != token.AND {
		return false
	}
	cl, ok := u.X.(*ast.CompositeLit)
	if !ok || cl.Type == nil {
		return false
	}
	h, ok := x.t.Hints["&"+src(x.p.fset, cl.Type)+"{}"]
	if !ok || h.Typ != "opaque" {
		return false
	}
	x.vars[id.Name] = "ptr:?"
	return true
}

// ---- LoopFrame ----

var frameLoops = map[string]*loopCtx{} // target name -> its frame loop

func (x *tr) isFrameLoop(s ast.Stmt) bool {
	if x.t.LoopFrame <= 0 {
		return false
	}
	l, ok := frameLoops[x.t.Name]
	if !ok {
		fd := x.p.funcs[x.t.Func]
		if fd == nil || fd.Body == nil {
			return false
		}
		l = findLoop(fd.Body, x.canonLoopIndex(fd, x.t.LoopFrame, false)) // loopbody.go; loopcanon.go
		frameLoops[x.t.Name] = l
	}
	return l.stmt == s
}

// frameLoop: replace the loop by `carried := loop_fn carried` and go on with the statements after it
func (x *tr) frameLoop(s ast.Stmt, body *ast.BlockStmt, fs *ast.ForStmt, tail []ast.Stmt, rest [][]ast.Stmt) string {
	as := map[string]bool{}
	assignedIn(body, as) // loopbody.go
	if fs != nil {
		if fs.Init != nil {
			fail("LoopFrame: loop with an init statement")
		}
		assignedIn(fs.Post, as)
	}
	var carried, ctypes []string
	for n := range as {
		if t, ok := x.vars[n]; ok && isBasic(t) {
			carried = append(carried, n)
		}
	}
	sort.Strings(carried)
	if len(carried) == 0 {
		fail("LoopFrame: the loop carries no scalar variable")
	}
	var names []string
	for _, n := range carried {
		ctypes = append(ctypes, x.vars[n])
		names = append(names, cname(n))
	}
	p := x.param("loop_fn", "fn:"+strings.Join(ctypes, ","))
	body2 := x.exec(tail, rest)
	if len(carried) == 1 {
		return "let " + names[0] + " := (" + p.coq + " " + names[0] + ") in\n  " + body2
	}
	tup := "(" + strings.Join(names, ", ") + ")"
	return "let '" + tup + " := (" + p.coq + " " + tup + ") in\n  " + body2
}

// fnCoqType: "fn:int64,uint32" -> "(Z * Z -> Z * Z)"
func fnCoqType(t string) string {
	var cs []string
	for _, c := range strings.Split(strings.TrimPrefix(t, "fn:"), ",") {
		cs = append(cs, coqType(c))
	}
	ct := strings.Join(cs, " * ")
	return "(" + ct + " -> " + ct + ")"
}

// paramsModule: parameter names of every translated definition
func paramsModule(infos []outFn) string {
	var b strings.Builder
	b.WriteString("Require Coq.Strings.String.\nModule LeafParams.\nImport Coq.Strings.String.\nLocal Open Scope string_scope.\nLocal Open Scope list_scope.\n")
	for _, f := range infos {
		if f.Error != "" {
			continue
		}
		b.WriteString("Definition " + f.Name + " : list string := ")
		for _, p := range f.Params {
			b.WriteString("\"" + p[0] + "\" :: ")
		}
		b.WriteString("nil.\n")
	}
	b.WriteString("End LeafParams.\n")
	return b.String()
}
