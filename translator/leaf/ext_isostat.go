// Extensions of the leaf translator first needed by the isolation / outlier / statistic cluster
// (C04, C20, C08, C09); general, reached through one-line hooks in main.go:
//
//   - NilRes: a result whose type text is listed (e.g. "*Rule") is reported like an error result,
//     as a Z code: 0 for nil, Errs[<expression text>] for a listed expression (e.g. the range
//     variable `rule` -> 1); anything else is untranslatable;
//   - a hint of type "ptr:<Struct>" on the right-hand side of `v := <expr>` declares v as a pointer
//     to that struct of the package: its scalar fields are read through <v>_<field> parameters like
//     a receiver's (the object itself comes from a lookup that is not part of the decision);
//   - `v = append(v, e)` whose call text has an entry in Acts is recorded in the action trace and v
//     is not a value (its length, where the code tests it, enters through a hint on `len(v)`); a
//     slice-typed NAMED result all of whose assignments in the function are such recorded appends is
//     dropped from the result tuple (the trace says what was appended to it, in order).  An append
//     without an Acts entry stays untranslatable.
package main

import (
	"go/ast"
	"go/token"
	"strings"
)

func (x *tr) isNilRes(st string) bool {
	for _, s := range x.t.NilRes {
		if s == st {
			return true
		}
	}
	return false
}

// ptrHint: `v := <hinted expr>` with a hint of type "ptr:<Struct>"
func (x *tr) ptrHint(s *ast.AssignStmt) bool {
	if s.Tok != token.DEFINE || len(s.Lhs) != 1 || len(s.Rhs) != 1 {
		return false
	}
	id, ok := s.Lhs[0].(*ast.Ident)
	if !ok {
		return false
	}
	h, ok := x.t.Hints[src(x.p.fset, s.Rhs[0])]
	if !ok || !strings.HasPrefix(h.Typ, "ptr:") || h.Typ == "ptr:?" {
		return false
	}
	if _, isStruct := x.p.structs[h.Typ[4:]]; !isStruct {
		fail("hint %s: no struct %s in the package", src(x.p.fset, s.Rhs[0]), h.Typ[4:])
	}
	x.vars[id.Name] = h.Typ
	return true
}

// recordedAppend: `v = append(v, ...)` with an Acts entry for the call text; returns the call
func (x *tr) recordedAppend(s *ast.AssignStmt) (*ast.CallExpr, bool) {
	if s.Tok != token.ASSIGN || len(s.Lhs) != 1 || len(s.Rhs) != 1 {
		return nil, false
	}
	id, ok := s.Lhs[0].(*ast.Ident)
	if !ok {
		return nil, false
	}
	ce, ok := s.Rhs[0].(*ast.CallExpr)
	if !ok || len(ce.Args) < 1 {
		return nil, false
	}
	if f, ok := ce.Fun.(*ast.Ident); !ok || f.Name != "append" {
		return nil, false
	}
	if a0, ok := ce.Args[0].(*ast.Ident); !ok || a0.Name != id.Name {
		return nil, false
	}
	if _, ok := x.t.Acts[src(x.p.fset, ce)]; !ok {
		return nil, false
	}
	return ce, true
}

// appendAct: record `v = append(v, e)` in the action trace
func (x *tr) appendAct(s *ast.AssignStmt) bool {
	ce, ok := x.recordedAppend(s)
	if !ok {
		return false
	}
	if _, ok := x.actCall(ce); !ok {
		fail("append %s is not an action", src(x.p.fset, ce))
	}
	return true
}

// isAppendOnly: a named slice-typed result every assignment to which (in the target function) is a
// recorded append
func (x *tr) isAppendOnly(f *ast.Field) bool {
	if _, ok := f.Type.(*ast.ArrayType); !ok || len(f.Names) == 0 || len(x.t.Acts) == 0 {
		return false
	}
	fd := x.p.funcs[x.t.Func]
	if fd == nil || fd.Body == nil {
		return false
	}
	names := map[string]bool{}
	for _, n := range f.Names {
		names[n.Name] = true
	}
	okAll, seen := true, map[string]bool{}
	ast.Inspect(fd.Body, func(n ast.Node) bool {
		as, ok := n.(*ast.AssignStmt)
		if !ok {
			return true
		}
		for _, l := range as.Lhs {
			if id, ok := l.(*ast.Ident); ok && names[id.Name] {
				if _, rec := x.recordedAppend(as); rec {
					seen[id.Name] = true
				} else {
					okAll = false
				}
			}
		}
		return true
	})
	return okAll && len(seen) == len(names)
}
