#!/usr/bin/env python3
"""Refactorings (harmless: h1-h4 = /verif/harmless/C15C19-*, H1-H10) and mutants (M01-M12 of
design_notes/C19.md section 5; X1-X10: defects hidden inside helpers) of pkg/adapters for C19
(design_notes/C19.md section 8).  Needs a scratch worktree:
  git -C /repo worktree add --detach /tmp/eng-c19/repo HEAD      (or C19_WT=<dir>)
usage: variants.py ir <prefix>|all     translator only (build/bin/adapterir): term diff against /repo
       variants.py check <prefix>|all  full ./check C19 with VERIF_REPO; prints verdict, OK / **UNEXPECTED**
       variants.py diff <prefix>       the patch
The worktree is reset afterwards; remove it with git -C /repo worktree remove --force <dir>.
"""
import os, re, subprocess, sys, json

WT = os.environ.get('C19_WT', '/tmp/eng-c19/repo')
AD = WT + '/pkg/adapters/'
ENV = dict(os.environ, GOFLAGS='-mod=mod', GOPROXY='off', GOSUMDB='off', GOTOOLCHAIN='local', CGO_ENABLED='0')


def edit(path, pairs, append=''):
    s = open(AD + path).read()
    for a, b in pairs:
        assert s.count(a) >= 1, (path, a)
        s = s.replace(a, b)
    s += append
    open(AD + path, 'w').write(s)


GIN_ENTRY = '''		entry, err := sentinel.Entry(
			resourceName,
			sentinel.WithResourceType(base.ResTypeWeb),
			sentinel.WithTrafficType(base.Inbound),
		)
'''
GIN_BLOCK = '''		if err != nil {
			if options.blockFallback != nil {
				options.blockFallback(c)
			} else {
				c.AbortWithStatus(http.StatusTooManyRequests)
			}
			return
		}

		defer entry.Exit()
		c.Next()
'''


def h1_gin(mut=None):
    rej = '''
// rejectBlocked answers a blocked request: the configured fallback, else 429.
func rejectBlocked(c *gin.Context, o *options) {
	if o.blockFallback != nil {
		o.blockFallback(c)
		return
	}
	c.AbortWithStatus(http.StatusTooManyRequests)
}
'''
    if mut == 'noreject':
        rej = rej.replace('	c.AbortWithStatus(http.StatusTooManyRequests)\n', '	c.Writer.Header().Set("X-Blocked", http.StatusText(http.StatusOK))\n')
    edit('gin/middleware.go', [
        (GIN_ENTRY, GIN_ENTRY.replace('entry, err', 'sentinelEntry, blocked')),
        (GIN_BLOCK, '''		if blocked != nil {
			rejectBlocked(c, options)
			return
		}

		defer func() {
			sentinelEntry.Exit()
		}()
		c.Next()
''')], rej)


ECHO_ENTRY = '''			entry, blockErr := sentinel.Entry(
				resourceName,
				sentinel.WithResourceType(base.ResTypeWeb),
				sentinel.WithTrafficType(base.Inbound),
			)
'''
ECHO_TAIL = '''			err = next(c)
			if err != nil {
				sentinel.TraceError(entry, err)
			}
			return err
'''


def h2_echo(mut=None):
    call = '''
// enter asks for the entry of a web resource.
func enter(name string) (e *base.SentinelEntry, berr *base.BlockError) {
	e, berr = sentinel.Entry(
		name,
		sentinel.WithResourceType(base.ResTypeWeb),
		sentinel.WithTrafficType(base.Inbound),
	)
	return
}

// callNext runs the wrapped handler and records its error on the entry.
func callNext(next echo.HandlerFunc, c echo.Context, entry *base.SentinelEntry) error {
	herr := next(c)
	if herr == nil {
		return nil
	}
	sentinel.TraceError(entry, herr)
	return herr
}
'''
    if mut == 'twice':
        call = call.replace('	herr := next(c)\n', '	_ = next(c)\n	herr := next(c)\n')
    if mut == 'swallow':
        call = call.replace('''	if herr == nil {
		return nil
	}
	sentinel.TraceError(entry, herr)
	return herr''', '''	if herr != nil {
		return nil
	}
	sentinel.TraceError(entry, herr)
	return herr''')
    edit('echo/middleware.go', [
        (ECHO_ENTRY, '			entry, blockErr := enter(resourceName)\n'),
        (ECHO_TAIL, '			err = callNext(next, c, entry)\n			return err\n')], call)


def h3_gear(mut=None):
    s = open(AD + 'gear/middleware.go').read()
    a = s.index('	return func(ctx *gear.Context) (err error) {\n') + len('	return func(ctx *gear.Context) (err error) {\n')
    b = s.index('		return err\n	}\n}')
    body = s[a:b] + '		return err\n'
    body = '\n'.join(l[1:] if l.startswith('\t') else l for l in body.split('\n'))
    s = s[:a] + '		return guard(ctx, options)\n	}\n}\n\n// guard is the middleware proper.\nfunc guard(ctx *gear.Context, options *options) (err error) {\n' + body + '}\n'
    open(AD + 'gear/middleware.go', 'w').write(s)


MICRO_ENTRY1 = '''		entry, blockErr := sentinel.Entry(
			resourceName,
			sentinel.WithResourceType(base.ResTypeRPC),
			sentinel.WithTrafficType(base.Outbound),
		)
'''
MICRO_TRACE = '''		if err != nil {
			sentinel.TraceError(entry, err)
		}
'''


def h4_micro(mut=None):
    helpers = '''
// outboundEntry asks for the entry of an outbound RPC resource.
func (c *clientWrapper) outboundEntry(resourceName string) (*base.SentinelEntry, *base.BlockError) {
	return sentinel.Entry(
		resourceName,
		sentinel.WithResourceType(base.ResTypeRPC),
		sentinel.WithTrafficType(base.Outbound),
	)
}

// traceErr records a call error on the entry.
func traceErr(entry *base.SentinelEntry, err error) {
	if err == nil {
		return
	}
	sentinel.TraceError(entry, err)
}

// exitEntry leaves the entry.
func exitEntry(entry *base.SentinelEntry) {
	entry.Exit()
}
'''
    if mut == 'noexit':
        helpers = helpers.replace('	entry.Exit()\n', '	_ = entry\n')
    if mut == 'deferinhelper':
        helpers = helpers.replace('''	return sentinel.Entry(
		resourceName,
		sentinel.WithResourceType(base.ResTypeRPC),
		sentinel.WithTrafficType(base.Outbound),
	)
''', '''	e, berr := sentinel.Entry(
		resourceName,
		sentinel.WithResourceType(base.ResTypeRPC),
		sentinel.WithTrafficType(base.Outbound),
	)
	if berr == nil {
		defer e.Exit()
	}
	return e, berr
''')
    edit('micro/client.go', [
        (MICRO_ENTRY1, '		entry, blockErr := c.outboundEntry(resourceName)\n'),
        (MICRO_TRACE, '		traceErr(entry, err)\n'),
        ('		defer entry.Exit()\n', '		defer exitEntry(entry)\n')], helpers)


def h5_kratos(mut=None):
    helpers = '''
// blocked answers a blocked request.
func blocked(o *options, ctx context.Context, req interface{}, blockErr *base.BlockError) (interface{}, error) {
	return o.BlockFallback(ctx, req, blockErr)
}

// invoke runs the next handler.
func invoke(next middleware.Handler, ctx context.Context, req interface{}) (interface{}, error) {
	return next(ctx, req)
}
'''
    if mut == 'failopen':
        helpers = helpers.replace('func blocked(o *options, ctx', 'func blocked(next middleware.Handler, o *options, ctx').replace(
            '	return o.BlockFallback(ctx, req, blockErr)\n', '	return next(ctx, req)\n')
    s = open(AD + 'kratos/options.go').read()
    m = re.search(r'func newOptions\(.*\) \*?(\w+)', s)
    typ = m.group(1)
    helpers = helpers.replace('*options', '*' + typ)
    call = 'return blocked(options, ctx, req, blockErr)'
    if mut == 'failopen':
        call = 'return blocked(src, options, ctx, req, blockErr)'
    edit('kratos/client.go', [
        ('					return options.BlockFallback(ctx, req, blockErr)\n', '					' + call + '\n'),
        ('				resp, err := src(ctx, req)\n', '				resp, err := invoke(src, ctx, req)\n'),
        ('				res, err := src(ctx, req)\n', '				res, err := invoke(src, ctx, req)\n')], helpers)


def apply_h4():
    subprocess.check_call(['git', '-C', WT, 'apply', '/verif/harmless/C15C19-h4/patch.diff'])


def h6_grpc(mut=None):
    apply_h4()
    new = '''func rpcEntry(resourceName string, trafficType base.TrafficType) (*base.SentinelEntry, *base.BlockError) {
	e, berr := sentinel.Entry(
		resourceName,
		sentinel.WithResourceType(base.ResTypeRPC),
		sentinel.WithTrafficType(trafficType),
	)
	if berr != nil {
		return nil, berr
	}
	return e, nil
}

// inboundEntry: the entry of a server-side resource.
func inboundEntry(resourceName string) (*base.SentinelEntry, *base.BlockError) {
	return rpcEntry(resourceName, base.Inbound)
}
'''
    s = open(AD + 'grpc/server.go').read()
    a = s.index('func rpcEntry(')
    b = s.index('// traceIfError')
    s = s[:a] + new + '\n' + s[b:]
    s = s.replace('rpcEntry(resourceName, base.Inbound)\n		if', 'inboundEntry(resourceName)\n		if')
    assert s.count('inboundEntry(resourceName)') == 2
    open(AD + 'grpc/server.go', 'w').write(s)


def h7_microsrv(mut=None):
    edit('micro/server.go', [('''		entry, blockErr := sentinel.Entry(
			resourceName,
			sentinel.WithResourceType(base.ResTypeRPC),
			sentinel.WithTrafficType(base.Inbound),
		)
		if blockErr != nil {
			if opts.streamServerBlockFallback != nil {''', '''		entry, blockErr := inbound(resourceName)
		if blockErr != nil {
			if opts.streamServerBlockFallback != nil {''')], '''
// inbound asks for the entry of an inbound RPC resource.
func inbound(resourceName string) (entry *base.SentinelEntry, blockErr *base.BlockError) {
	entry, blockErr = sentinel.Entry(
		resourceName,
		sentinel.WithResourceType(base.ResTypeRPC),
		sentinel.WithTrafficType(base.Inbound),
	)
	return entry, blockErr
}
''')


def h8_echo_inverted(mut=None):
    edit('echo/middleware.go', [('''			if blockErr != nil {
				if options.blockFallback != nil {
					err = options.blockFallback(c)
				} else {
					// default error response
					err = c.JSON(http.StatusTooManyRequests, "Blocked by Sentinel")
				}
				return err
			}
			defer entry.Exit()

			err = next(c)
			if err != nil {
				sentinel.TraceError(entry, err)
			}
			return err
''', '''			if blockErr == nil {
				defer entry.Exit()
				if err = next(c); err != nil {
					sentinel.TraceError(entry, err)
				}
				return err
			}
			if options.blockFallback == nil {
				// default error response
				return c.JSON(http.StatusTooManyRequests, "Blocked by Sentinel")
			}
			return options.blockFallback(c)
''')])


def h9_gin_whole(mut=None):
    # the whole middleware body in a helper called as the only statement of the closure
    s = open(AD + 'gin/middleware.go').read()
    a = s.index('	return func(c *gin.Context) {\n') + len('	return func(c *gin.Context) {\n')
    b = s.index('	}\n}', a)
    body = s[a:b]
    body = '\n'.join(l[1:] if l.startswith('\t') else l for l in body.split('\n'))
    s = s[:a] + '		serve(c, options)\n	}\n}\n\n// serve guards one request.\nfunc serve(c *gin.Context, options *options) {\n' + body + '}\n'
    open(AD + 'gin/middleware.go', 'w').write(s)


def x1_drop_blockerr():
    apply_h4()
    edit('grpc/server.go', [('''	return sentinel.Entry(
		resourceName,
		sentinel.WithResourceType(base.ResTypeRPC),
		sentinel.WithTrafficType(trafficType),
	)
''', '''	e, _ := sentinel.Entry(
		resourceName,
		sentinel.WithResourceType(base.ResTypeRPC),
		sentinel.WithTrafficType(trafficType),
	)
	return e, nil
''')])


def x2_exit_early():
    apply_h4()
    edit('grpc/server.go', [('''	return sentinel.Entry(
		resourceName,
		sentinel.WithResourceType(base.ResTypeRPC),
		sentinel.WithTrafficType(trafficType),
	)
''', '''	e, berr := sentinel.Entry(
		resourceName,
		sentinel.WithResourceType(base.ResTypeRPC),
		sentinel.WithTrafficType(trafficType),
	)
	if berr == nil {
		e.Exit()
	}
	return e, berr
''')])


def x3_trace_inverted():
    apply_h4()
    edit('grpc/server.go', [('''	if err != nil {
		sentinel.TraceError(entry, err)
	}
}''', '''	if err == nil {
		sentinel.TraceError(entry, err)
	}
}''')])


def x9_nil_entry_wrong_path():
    # helper hands back nil instead of the entry on an admitted path
    h6_grpc()
    edit('grpc/server.go', [('''	if berr != nil {
		return nil, berr
	}
	return e, nil''', '''	if berr != nil || resourceName == "" {
		return nil, berr
	}
	return e, nil''')])


VARIANTS = {
    'H1-gin-blockbranch-helper-renamed-deferclosure': (h1_gin, False),
    'H2-echo-entry-named-results-callnext-helper': (h2_echo, False),
    'H3-gear-whole-body-helper-tailcall': (h3_gear, False),
    'H4-micro-method-entry-tracehelper-earlyreturn-deferhelper': (h4_micro, False),
    'H5-kratos-blocked-tailcall-invoke-helper': (h5_kratos, False),
    'H6-grpc-nil-returns-two-levels': (h6_grpc, False),
    'H7-microsrv-entry-helper-known-finding': (h7_microsrv, False),
    'H8-echo-inverted-early-returns': (h8_echo_inverted, False),
    'H9-gin-whole-body-helper-last-statement': (h9_gin_whole, False),
    'h3': (lambda: subprocess.check_call(['git', '-C', WT, 'apply', '/verif/harmless/C15C19-h3/patch.diff']), False),
    'h4': (apply_h4, False),
    'X1-grpc-helper-drops-block-error': (x1_drop_blockerr, True),
    'X2-grpc-helper-exits-entry-before-returning': (x2_exit_early, True),
    'X3-grpc-traceIfError-inverted': (x3_trace_inverted, True),
    'X4-gin-reject-helper-without-default-rejection': (lambda: h1_gin('noreject'), True),
    'X5-echo-callnext-helper-calls-handler-twice': (lambda: h2_echo('twice'), True),
    'X6-micro-helper-defers-exit-inside-helper': (lambda: h4_micro('deferinhelper'), True),
    'X7-kratos-blocked-helper-fails-open': (lambda: h5_kratos('failopen'), True),
    'X8-micro-exit-helper-does-not-exit': (lambda: h4_micro('noexit'), True),
    'X9-grpc-helper-nil-entry-on-admitted-path': (x9_nil_entry_wrong_path, True),
    'X10-echo-callnext-helper-swallows-error-untraced': (lambda: h2_echo('swallow'), True),
}


def sub(path, a, b, count=1):
    s = open(AD + path).read()
    assert s.count(a) >= 1, (path, a)
    s = s.replace(a, b, count)
    open(AD + path, 'w').write(s)


def sub_nth(path, a, b, n):
    s = open(AD + path).read()
    parts = s.split(a)
    assert len(parts) > n + 1, (path, a, len(parts))
    s = a.join(parts[:n + 1]) + b + a.join(parts[n + 1:])
    open(AD + path, 'w').write(s)


def m1(): sub('go-zero/global_middleware.go', '			defer entry.Exit()\n\n			next(w, r)\n', '			next(w, r)\n			entry.Exit()\n')
def m2():
    sub('hertz/server.go', '		defer entry.Exit()\n		ctx.Next(c)\n', '		defer entry.Exit()\n')
    sub('hertz/server.go', '		entry, err := sentinel.Entry(', '		ctx.Next(c)\n		entry, err := sentinel.Entry(')
def m3(): sub('goframe/middleware.go', '				r.Response.Writeln("Too Many Requests")\n			}\n			return\n', '				r.Response.Writeln("Too Many Requests")\n			}\n')
def m4(): sub('iris/middleware.go', '				options.blockFallback(c)\n			} else {\n				c.StatusCode(http.StatusTooManyRequests)\n				c.StopExecution()\n			}', '				options.blockFallback(c)\n			}\n			c.StatusCode(http.StatusTooManyRequests)\n			c.StopExecution()\n')
def m5():
    s = open(AD + 'kitex/client.go').read()
    i = s.index('				if blockErr != nil {', s.index('				if blockErr != nil {') + 10)
    j = s.index('				defer entry.Exit()\n', i)
    s = s[:i] + '				defer entry.Exit()\n' + s[i:j] + s[j + len('				defer entry.Exit()\n'):]
    open(AD + 'kitex/client.go', 'w').write(s)
def m6(): sub_nth('kratos/client.go', '					return options.BlockFallback(ctx, req, blockErr)\n', '					return src(ctx, req)\n', 1)
def m7(): sub_nth('micro/client.go', '		if err != nil {\n			sentinel.TraceError(entry, err)', '		if err == nil {\n			sentinel.TraceError(entry, err)', 1)
def m8(): sub('grpc/server.go', '		defer entry.Exit()\n', '		entry.Exit()\n')
def m9(): sub('gin/middleware.go', '		c.Next()\n', '		c.Next()\n		c.Next()\n')
def m10(): sub('fiber/middleware.go', '				return ctx.SendStatus(http.StatusTooManyRequests)\n', '				return nil\n')
def m11(): sub('hertz/client.go', '				sentinel.TraceError(entry, err)\n', '')
def m12(): sub_nth('micro/client.go', '			return blockErr\n', '			_ = blockErr\n			return nil\n', 1)


for i, f in enumerate([m1, m2, m3, m4, m5, m6, m7, m8, m9, m10, m11, m12]):
    VARIANTS['M%02d' % (i + 1)] = (f, True)


def h10_echo_otherfile():
    # helper in a new file that imports the API under another name; a comment mentions sentinel.Entry(
    edit('echo/middleware.go', [
        (ECHO_ENTRY, '			// was: sentinel.Entry(resourceName, ...) inline; now in entry.go\n			entry, blockErr := webEntry(resourceName)\n'),
        ('	"github.com/alibaba/sentinel-golang/core/base"\n', '')])
    open(AD + 'echo/entry.go', 'w').write("""package echo

import (
	sapi "github.com/alibaba/sentinel-golang/api"
	"github.com/alibaba/sentinel-golang/core/base"
)

// webEntry wraps sapi.Entry(name, ...) for inbound web resources.
func webEntry(name string) (*base.SentinelEntry, *base.BlockError) {
	entry, blockErr := sapi.Entry(name, sapi.WithResourceType(base.ResTypeWeb), sapi.WithTrafficType(base.Inbound))
	return entry, blockErr
}
""")


VARIANTS['H10-echo-entry-helper-in-other-file-other-alias-comment'] = (h10_echo_otherfile, False)
VARIANTS['h1'] = (lambda: subprocess.check_call(['git', '-C', WT, 'apply', '/verif/harmless/C15C19-h1/patch.diff']), False)
VARIANTS['h2'] = (lambda: subprocess.check_call(['git', '-C', WT, 'apply', '/verif/harmless/C15C19-h2/patch.diff']), False)

for h in ['C15C19-h3','C15C19-h4','w2-C18C19-h1','w2-C18C19-h2','w2-C18C19-h3','w2-C18C19-h4','w3-C17C19-h1','w3-C17C19-h2','w3-C17C19-h3','w3-C17C19-h4']:
    VARIANTS['P-'+h] = ((lambda h=h: subprocess.check_call(['git', '-C', WT, 'apply', '/verif/harmless/%s/patch.diff' % h])), False)


def h11_gin_field_receiver():
    subprocess.check_call(['git', '-C', WT, 'apply', '/verif/harmless/w3-C17C19-h4/patch.diff'])
    edit('gin/middleware.go', [('			options.handleBlocked(c)\n', '			(&holder{o: options}).o.handleBlocked(c)\n')])
    edit('gin/option.go', [], '\ntype holder struct{ o *options }\n')


def h12_gin_interface_local():
    subprocess.check_call(['git', '-C', WT, 'apply', '/verif/harmless/w3-C17C19-h4/patch.diff'])
    edit('gin/middleware.go', [('			options.handleBlocked(c)\n', '			var r interface{ handleBlocked(*gin.Context) } = options\n			r.handleBlocked(c)\n')])


def u1_gin_ambiguous_method():
    h12_gin_interface_local()
    edit('gin/option.go', [], '\ntype other struct{}\n\nfunc (other) handleBlocked(c *gin.Context) { c.AbortWithStatus(http.StatusTooManyRequests) }\n')


VARIANTS['H11-gin-options-method-through-struct-field'] = (h11_gin_field_receiver, False)
VARIANTS['H12-gin-options-method-through-interface-local'] = (h12_gin_interface_local, False)
VARIANTS['U1-gin-harmless-but-not-inlinable-ambiguous-method-name'] = (u1_gin_ambiguous_method, True)


def reset():
    subprocess.check_call(['git', '-C', WT, 'checkout', '-q', '--', '.'])
    subprocess.check_call(['git', '-C', WT, 'clean', '-fdq', 'pkg/adapters'])


def ir(tree):
    out = subprocess.run(['/verif/build/bin/adapterir', '-repo', tree], capture_output=True, text=True, env=ENV).stdout
    eps = {}
    lines = out.strip().split('\n')
    for i in range(0, len(lines) - 1, 2):
        name = re.sub(r' \(line \d+,', ' (', lines[i])
        eps[name] = lines[i + 1].strip()
    return eps, lines[-1]


def main():
    mode, which = sys.argv[1], sys.argv[2]
    names = list(VARIANTS) if which == 'all' else [n for n in VARIANTS if n.startswith(which)]
    base, basetail = ir('/repo')
    results = {}
    for n in names:
        fn, mutant = VARIANTS[n]
        reset()
        fn()
        if mode == 'ir':
            eps, tail = ir(WT)
            print('==', n, tail)
            for k in sorted(set(base) | set(eps)):
                if base.get(k) != eps.get(k):
                    print('  -', k, base.get(k))
                    print('  +', k, eps.get(k))
        elif mode == 'diff':
            print(subprocess.run(['git', '-C', WT, 'diff'], capture_output=True, text=True).stdout)
        else:
            r = subprocess.run(['./check', 'C19'], cwd='/verif', capture_output=True, text=True, env=dict(ENV, VERIF_REPO=WT))
            out = r.stdout + r.stderr
            viol = [l for l in out.split('\n') if l.startswith('VIOLATION')]
            known = [re.search(r'\[(C19-F\d+)\]', l).group(1) for l in out.split('\n') if l.startswith('KNOWN-FINDING')]
            summ = [l for l in out.split('\n') if l.startswith('C19 tier=')]
            verdict = 'VIOLATION' if viol else 'green'
            ok = (verdict == 'VIOLATION') == mutant and (mutant or known == ['C19-F1', 'C19-F6'])
            print('%-62s %-9s exit=%d known=%s %s %s' % (n, verdict, r.returncode, known, 'OK' if ok else '**UNEXPECTED**', summ[0][summ[0].index('theorems'):] if summ else ''))
            if viol:
                print('    ', viol[0], '| monitor:', summ[0][summ[0].index('monitor'):] if summ else '')
            results[n] = dict(verdict=verdict, ok=ok)
            sys.stdout.flush()
    reset()


main()
