(* C19 — obligations over the IR regenerated from the Go source (Gen.Adapters_gen).
   Copied next to Adapters_gen.v by ./check (meta/C19.json "gen") and compiled with
   -Q /verif/coq SG -Q {build} Gen.  A failure of any Theorem below is a broken proof
   obligation; F / FS name the failing (entry point, environment, clause) triples. *)
From SG Require Import Base.Prelude Model.AdapterIR Proofs.AdapterIRProofs.
From Gen Require Import Adapters_gen.
Local Open Scope nat_scope.

Definition K : nat := Eval vm_compute in needed_flags adapters.
Definition adapters_minus_known : list adapter := minus_known known adapters.

(* (number of entry points, of which unlisted, flags needed, ".Entry(" occurrences in the
   source, Entry call sites covered by an entry point) *)
Definition summary := Eval vm_compute in
  (length adapters, length adapters_minus_known, K, source_entry_calls, covered_entry_calls).
Print summary.

(* which entry points have the canonical shape of C19_wf_implies_contract *)
Definition WF := Eval vm_compute in map (fun a => (a_sig a, wf_adapter a)) adapters.
Print WF.

(* every unlisted failure: (entry point, line, environment, clause, trace) *)
Definition F := Eval vm_compute in failures known K adapters.
Print F.
(* compact form: entry point, line, clause *)
Definition FS := Eval vm_compute in
  map (fun f => match f with
                | FailClause s l _ c _ => (s, l, Some c, ""%string)
                | FailUnknown s l src => (s, l, None, src)
                | FailFlags s l => (s, l, None, "flags"%string)
                end) F.
Print FS.

(* the translator saw every Entry call of the tree and every file parsed: each textual
   ".Entry(" is a call in a syntax tree, each such call site became an Entry node of at least
   one entry point (directly, or through the same-package helpers inlined into it: a helper
   inlined at n call sites contributes n Entry nodes for one call site, hence <=) *)
Theorem C19_all_entry_calls_translated :
  ast_entry_calls = source_entry_calls /\ covered_entry_calls = source_entry_calls /\
  (source_entry_calls <=? fold_right Nat.add 0 (map (fun a => count_entries (a_body a)) adapters)) = true /\
  parse_failures = 0.
Proof. vm_compute. repeat split; reflexivity. Qed.

(* every unlisted entry point: no unclassified construct, and the contract holds in every
   enumerated environment *)
Theorem C19_all_adapters : forallb (adapter_ok K) adapters_minus_known = true.
Proof. vm_compute. reflexivity. Qed.

(* literally: forallb (fun p => forallb (fun env => contract_b env (exec p env)) all_envs) *)
Theorem C19_all_adapters_contract_b :
  forallb (fun a => forallb (fun en => contract_b en (exec (a_body a) en)) (envs_of K a))
          adapters_minus_known = true.
Proof. vm_compute. reflexivity. Qed.

(* ... hence in EVERY environment (C19_finite_check_complete) *)
Theorem C19_all_adapters_all_envs :
  forall a, In a adapters_minus_known ->
  forall en, (fallback en = true -> a_fb a = true) -> Contract en (exec (a_body a) en).
Proof. exact (all_adapters_all_envs K adapters_minus_known C19_all_adapters). Qed.

(* the listed entry points: every clause that is not itself listed holds *)
Theorem C19_listed_adapters_other_clauses : forallb (adapter_ok_except known K) adapters = true.
Proof. vm_compute. reflexivity. Qed.

(* every listed (entry point, clause) pair names an existing entry point and really fails
   in some environment (a stale listing is an error) *)
Theorem C19_known_findings_refuted : known_refuted known K adapters = true.
Proof. vm_compute. reflexivity. Qed.

Print Assumptions C19_all_adapters.
Print Assumptions C19_all_adapters_all_envs.
Print Assumptions C19_listed_adapters_other_clauses.
Print Assumptions C19_known_findings_refuted.
