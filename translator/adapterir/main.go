// adapterir: regenerates the C19 adapter IR from the Go source of {repo}/pkg/adapters/**.
//
// An ENTRY POINT is a function literal, or a top-level function / method that is not only
// called from other functions of its package, from whose body sentinel.Entry / api.Entry is
// reached: directly, or through same-package helper functions / methods.  Helpers are INLINED
// at their call sites (inline.go): arguments are bound to parameters, results to the caller's
// variables, to any depth; so extracting the Entry call, the blocked branch, the error
// tracing, the Exit or the handler call into a helper leaves the IR of the entry point
// unchanged.  A helper that cannot be inlined (recursion, function value, other package,
// result used inside an expression) is an `Unknown` of the entry points that use it.
// For every entry point it emits one IR term per Entry call reached (a function whose
// top-level branches each request their own entry is split along that branch) into a Coq
// file (Gen.Adapters_gen) and/or a JSON document (-json) that the harness evaluates with
// an independent Go implementation of the same contract.
//
// Standard library only (go/ast, go/parser, go/token, go/printer); no type checking: the
// adapters import third-party frameworks that need not be present.  Everything the
// translator cannot classify becomes `Unknown "<src>"`, which the Coq checker rejects.
package main

import (
	"bytes"
	"encoding/json"
	"flag"
	"fmt"
	"go/ast"
	"go/parser"
	"go/printer"
	"go/scanner"
	"go/token"
	"os"
	"path/filepath"
	"regexp"
	"sort"
	"strings"
)

// ---------------------------------------------------------------------------------------
// per-framework table: what counts as "the wrapped handler call", and whether that call
// hands an error back to the adapter.  Keyed by the directory name under pkg/adapters.

type handlerPat struct {
	ParamType string // a call of a parameter (of this or an enclosing function) declared with this type
	Selector  string // or: a call whose callee is this selector path, receiver being a parameter/receiver of declared type RecvType
	RecvType  string
	Err       bool // the call's last result is the handler's error
}

var handlerTable = map[string][]handlerPat{
	"echo":    {{ParamType: "echo.HandlerFunc", Err: true}},
	"fiber":   {{Selector: "Next", RecvType: "*fiber.Ctx", Err: true}},
	"gear":    {}, // gear middlewares are sequential: the framework runs the next one after this one returns
	"gin":     {{Selector: "Next", RecvType: "*gin.Context"}},
	"go-zero": {{ParamType: "http.HandlerFunc"}},
	"goframe": {{Selector: "Middleware.Next", RecvType: "*ghttp.Request"}},
	"grpc": {{ParamType: "grpc.UnaryInvoker", Err: true}, {ParamType: "grpc.Streamer", Err: true},
		{ParamType: "grpc.UnaryHandler", Err: true}, {ParamType: "grpc.StreamHandler", Err: true}},
	"hertz":  {{ParamType: "client.Endpoint", Err: true}, {Selector: "Next", RecvType: "*app.RequestContext"}},
	"iris":   {{Selector: "Next", RecvType: "iris.Context"}},
	"kitex":  {{ParamType: "endpoint.Endpoint", Err: true}},
	"kratos": {{ParamType: "middleware.Handler", Err: true}},
	"micro": {{ParamType: "server.HandlerFunc", Err: true},
		{Selector: "Client.Call", RecvType: "*clientWrapper", Err: true},
		{Selector: "Client.Stream", RecvType: "*clientWrapper", Err: true}},
}

// API functions that take the entry and are nil-safe (api/tracer.go)
var nilSafeAPI = map[string]bool{"TraceCallee": true}

const sentinelAPI = "github.com/alibaba/sentinel-golang/api"

// ---------------------------------------------------------------------------------------
// IR

type Node struct {
	Op   string `json:"op"`
	E    int    `json:"e,omitempty"`
	Err  int    `json:"err,omitempty"`
	V    int    `json:"v,omitempty"`
	K    int    `json:"k,omitempty"`
	Ign  bool   `json:"ignored,omitempty"`
	Mand bool   `json:"mandatory,omitempty"`
	Mode string `json:"mode,omitempty"` // none | var | direct
	A    *Node  `json:"a,omitempty"`
	B    *Node  `json:"b,omitempty"`
	Src  string `json:"src,omitempty"`
}

func other() *Node { return &Node{Op: "Other"} }

func seq(ns []*Node) *Node {
	// right-nested Seq; adjacent Others collapse
	var out []*Node
	for _, n := range ns {
		if n == nil {
			continue
		}
		if n.Op == "Other" && len(out) > 0 && out[len(out)-1].Op == "Other" {
			continue
		}
		out = append(out, n)
	}
	if len(out) == 0 {
		return other()
	}
	r := out[len(out)-1]
	for i := len(out) - 2; i >= 0; i-- {
		r = &Node{Op: "Seq", A: out[i], B: r}
	}
	return r
}

func flatten(n *Node) []*Node {
	if n.Op == "Seq" {
		return append(flatten(n.A), flatten(n.B)...)
	}
	return []*Node{n}
}

func (n *Node) quiet() bool {
	switch n.Op {
	case "Other":
		return true
	case "Seq", "IfOpt":
		return n.A.quiet() && n.B.quiet()
	}
	return false
}

func (n *Node) countEntries() int {
	if n == nil {
		return 0
	}
	c := 0
	if n.Op == "Entry" {
		c = 1
	}
	return c + n.A.countEntries() + n.B.countEntries()
}

func coqStr(s string) string { return "\"" + strings.ReplaceAll(s, "\"", "\"\"") + "\"%string" }

func coqBool(b bool) string {
	if b {
		return "true"
	}
	return "false"
}

func (n *Node) coq() string {
	switch n.Op {
	case "Entry":
		return fmt.Sprintf("(Entry %d %d %s)", n.E, n.Err, coqBool(n.Ign))
	case "IfBlocked":
		return fmt.Sprintf("(IfBlocked %d %s %s)", n.Err, n.A.coq(), n.B.coq())
	case "IfFallback":
		return fmt.Sprintf("(IfFallback %s %s)", n.A.coq(), n.B.coq())
	case "Fallback":
		return fmt.Sprintf("(Fallback %s)", coqBool(n.Mand))
	case "DefaultReject", "Return", "NilCall", "Other":
		return n.Op
	case "DeferExit", "ExitNow", "Deref":
		return fmt.Sprintf("(%s %d)", n.Op, n.E)
	case "CallHandler":
		switch n.Mode {
		case "var":
			return fmt.Sprintf("(CallHandler (ErrVar %d))", n.V)
		case "direct":
			return "(CallHandler ErrDirect)"
		}
		return "(CallHandler ErrNone)"
	case "IfErr":
		return fmt.Sprintf("(IfErr %d %s %s)", n.V, n.A.coq(), n.B.coq())
	case "TraceError":
		return fmt.Sprintf("(TraceError %d %d)", n.E, n.V)
	case "Seq":
		return fmt.Sprintf("(Seq %s %s)", n.A.coq(), n.B.coq())
	case "IfOpt":
		return fmt.Sprintf("(IfOpt %d %s %s)", n.K, n.A.coq(), n.B.coq())
	case "Unknown":
		return fmt.Sprintf("(Unknown %s)", coqStr(n.Src))
	}
	return fmt.Sprintf("(Unknown %s)", coqStr("translator: bad op "+n.Op))
}

// ---------------------------------------------------------------------------------------
// package facts

type pkgInfo struct {
	dir          string // directory name under pkg/adapters (table key)
	fset         *token.FileSet
	files        map[string]*ast.File
	optFuncs     map[string]bool // struct fields of func type, by name
	defaulted    map[string]bool // fields given a value in a composite literal (option defaults)
	helperDerefs map[string]int  // same-package func name -> 0 no param deref, 1 deref only inside closures, 2 deref at top level
	funcs        map[string]*ast.FuncDecl
	methods      map[string]*ast.FuncDecl // "Type.method"
	fileOf       map[*ast.FuncDecl]*ast.File
	aliasOf      map[*ast.File]string // import name of sentinel-golang/api per file ("" if not imported)
	callRefs     map[*ast.FuncDecl]int // references in call position from other function bodies
	valueRefs    map[*ast.FuncDecl]int // any other reference (function value, unresolvable receiver)
	reachMemo    map[*ast.FuncDecl]int // 0 unknown, 1 visiting, 2 no, 3 yes
	looseMemo    map[*ast.FuncDecl]int
	typeNames    map[string]bool                       // types declared in the package
	fieldTypes   map[string]string                     // "Type.field" -> package type of the field
	optTypes     map[string]bool                       // result types of the *Options(..) functions
	byMethodName map[string][]*ast.FuncDecl
	valueFrom    map[*ast.FuncDecl]map[*ast.FuncDecl]bool // who references the function as a value
	pathOf       map[*ast.File]string
}

var reOptions = regexp.MustCompile(`(?i)options$`)
var reFallback = regexp.MustCompile(`(?i)fallback`)

func (p *pkgInfo) collect() {
	p.optFuncs = map[string]bool{}
	p.defaulted = map[string]bool{}
	p.funcs = map[string]*ast.FuncDecl{}
	p.methods = map[string]*ast.FuncDecl{}
	p.fileOf = map[*ast.FuncDecl]*ast.File{}
	p.aliasOf = map[*ast.File]string{}
	for _, f := range p.files {
		for _, im := range f.Imports {
			if strings.Trim(im.Path.Value, "\"") == sentinelAPI {
				p.aliasOf[f] = "api"
				if im.Name != nil {
					p.aliasOf[f] = im.Name.Name
				}
			}
		}
		f := f
		ast.Inspect(f, func(n ast.Node) bool {
			switch x := n.(type) {
			case *ast.StructType:
				for _, fl := range x.Fields.List {
					if _, ok := fl.Type.(*ast.FuncType); ok {
						for _, nm := range fl.Names {
							p.optFuncs[nm.Name] = true
						}
					}
				}
			case *ast.CompositeLit:
				for _, el := range x.Elts {
					if kv, ok := el.(*ast.KeyValueExpr); ok {
						if id, ok := kv.Key.(*ast.Ident); ok {
							p.defaulted[id.Name] = true
						}
					}
				}
			case *ast.FuncDecl:
				p.fileOf[x] = f
				if x.Recv == nil {
					p.funcs[x.Name.Name] = x
				} else if t := recvTypeName(x); t != "" {
					p.methods[t+"."+x.Name.Name] = x
				}
			}
			return true
		})
	}
	p.collectRefs()
}

func recvTypeName(fd *ast.FuncDecl) string {
	if fd.Recv == nil || len(fd.Recv.List) != 1 {
		return ""
	}
	t := fd.Recv.List[0].Type
	if st, ok := t.(*ast.StarExpr); ok {
		t = st.X
	}
	if id, ok := t.(*ast.Ident); ok {
		return id.Name
	}
	return ""
}

func (p *pkgInfo) hasFallbackField() bool {
	for f := range p.optFuncs {
		if reFallback.MatchString(f) {
			return true
		}
	}
	return false
}

// ---------------------------------------------------------------------------------------
// translation of one function body

type entryPoint struct {
	File  string   `json:"file"`
	Func  string   `json:"func"`
	Line  int      `json:"line"`
	Via   []string `json:"via,omitempty"` // declarations that use the entry point's function as a value
	FB    bool     `json:"fb_option"`
	Flags []string `json:"flags"`
	IR    *Node    `json:"ir"`
	Coq   string   `json:"coq"`
}

type fnCtx struct {
	pkg      *pkgInfo
	file     *ast.File
	alias    string            // import name of sentinel-golang/api in this file
	params   map[string]string // parameter / receiver name -> declared type (source text), innermost wins
	optVars  map[string]bool   // variables holding the evaluated options
	vars     map[string]int    // entry / error variable name -> id (names are per function, ids per entry point)
	entryVar map[string]bool
	errKind  map[string]string // error variable -> "entry" | "handler"
	guards   []string          // fallback fields known non-nil here
	inBlock  bool              // inside the then-branch of IfBlocked
	blockErr string            // name of the block error variable

	// interprocedural part (inline.go)
	root       *rootCtx      // state shared by the entry point and every helper inlined into it
	mode       int           // modeRoot | modeTail | modeNonTail
	fd         *ast.FuncDecl // the helper being inlined (nil for the entry point itself)
	sites      [][]retVal    // modeNonTail: what each return statement hands back, per result position
	retTmp     map[int]int   // modeNonTail: id of the anonymous result at position i
	knownNil   map[int]bool  // error variables (ids) known to be nil here
	lastStmt   ast.Stmt      // last statement of the function body (a call there is a tail call)
	localTypes map[string]string // local variable -> type of the package it holds (syntactic: literals, constructors, typed fields)
}

func (c *fnCtx) src(n ast.Node) string {
	var b bytes.Buffer
	printer.Fprint(&b, c.pkg.fset, n)
	s := strings.Join(strings.Fields(b.String()), " ")
	if len(s) > 160 {
		s = s[:160] + "..."
	}
	return s
}

func (c *fnCtx) id(name string) int {
	if v, ok := c.vars[name]; ok {
		return v
	}
	v := c.root.fresh()
	c.vars[name] = v
	return v
}

func (c *fnCtx) flag(desc string) int {
	c.root.flags = append(c.root.flags, desc)
	return len(c.root.flags) - 1
}

func typeStr(fset *token.FileSet, e ast.Expr) string {
	var b bytes.Buffer
	printer.Fprint(&b, fset, e)
	return b.String()
}

func selPath(e ast.Expr) (root string, path string, ok bool) {
	switch x := e.(type) {
	case *ast.Ident:
		return x.Name, "", true
	case *ast.SelectorExpr:
		r, p, ok := selPath(x.X)
		if !ok {
			return "", "", false
		}
		if p == "" {
			return r, x.Sel.Name, true
		}
		return r, p + "." + x.Sel.Name, true
	}
	return "", "", false
}

func (c *fnCtx) isEntryCall(e ast.Expr) bool {
	call, ok := e.(*ast.CallExpr)
	if !ok {
		return false
	}
	r, p, ok := selPath(call.Fun)
	return ok && c.alias != "" && r == c.alias && p == "Entry"
}

// handlerCall reports whether call is the wrapped handler according to the table
func (c *fnCtx) handlerCall(call *ast.CallExpr) (bool, bool) {
	r, p, ok := selPath(call.Fun)
	if !ok {
		return false, false
	}
	t, isParam := c.params[r]
	if !isParam {
		return false, false
	}
	for _, hp := range handlerTable[c.pkg.dir] {
		if hp.ParamType != "" && p == "" && t == hp.ParamType {
			return true, hp.Err
		}
		if hp.Selector != "" && p == hp.Selector && t == hp.RecvType {
			return true, hp.Err
		}
	}
	return false, false
}

// optionCall: call of a function-typed field of the options value: options.<field>(...)
func (c *fnCtx) optionCall(call *ast.CallExpr) (string, bool) {
	return c.optField(call.Fun)
}

// nilCheck: `<x> != nil` / `<x> == nil`
func nilCheck(e ast.Expr) (ast.Expr, token.Token, bool) {
	b, ok := e.(*ast.BinaryExpr)
	if !ok || (b.Op != token.NEQ && b.Op != token.EQL) {
		return nil, 0, false
	}
	if id, ok := b.Y.(*ast.Ident); ok && id.Name == "nil" {
		return b.X, b.Op, true
	}
	return nil, 0, false
}

type facts struct {
	entryUse   bool // mentions an entry variable
	handler    bool
	fallback   bool
	optCall    bool
	ret        bool
	deferGo    bool
	entryCall  bool
	errVarUse  bool
	funcLit    bool
	panicRecov bool
	trace      bool // sentinel.TraceError call
	helper     bool // call of a same-package helper that has to be inlined (inline.go)
}

func (f facts) relevant() bool {
	return f.entryUse || f.handler || f.fallback || f.ret || f.deferGo || f.entryCall || f.panicRecov || f.helper
}

// scan collects what a subtree mentions (nested function literals included, flagged)
func (c *fnCtx) scan(n ast.Node) facts { return c.scan0(n, true) }

// scan0: lits = false ignores nested function literals altogether
func (c *fnCtx) scan0(n ast.Node, lits bool) facts {
	var f facts
	if n == nil {
		return f
	}
	ast.Inspect(n, func(x ast.Node) bool {
		switch y := x.(type) {
		case *ast.FuncLit:
			if !lits {
				return false
			}
			f.funcLit = true
			inner := c.scan(y.Body)
			// a nested literal is a different function: only uses of OUR entry matter
			f.entryUse = f.entryUse || inner.entryUse
			return false
		case *ast.Ident:
			if c.entryVar[y.Name] {
				f.entryUse = true
			}
			if _, ok := c.errKind[y.Name]; ok {
				f.errVarUse = true
			}
			if y.Name == "panic" || y.Name == "recover" {
				f.panicRecov = true
			}
		case *ast.CallExpr:
			if c.isEntryCall(y) {
				f.entryCall = true
			}
			if r, p, ok := selPath(y.Fun); ok && c.alias != "" && r == c.alias && p == "TraceError" {
				f.trace = true
			}
			if _, _, ok := c.helperCall(y); ok || c.unresolvedHelper(y) {
				f.helper = true
			}
			if ok, _ := c.handlerCall(y); ok {
				f.handler = true
			}
			if fld, ok := c.optionCall(y); ok {
				f.optCall = true
				if reFallback.MatchString(fld) {
					f.fallback = true
				}
			}
		case *ast.ReturnStmt:
			f.ret = true
		case *ast.DeferStmt, *ast.GoStmt:
			f.deferGo = true
		}
		return true
	})
	return f
}

func (c *fnCtx) unknown(n ast.Node) *Node { return &Node{Op: "Unknown", Src: c.src(n)} }

// notInlined: a same-package helper that matters here could not be inlined; the term is
// incomplete at this point (the harness does not evaluate clauses on such a term)
func (c *fnCtx) notInlined(n ast.Node) *Node {
	return &Node{Op: "Unknown", Src: notInlinedPrefix + c.src(n)}
}

const notInlinedPrefix = "not inlined: "

func (c *fnCtx) block(stmts []ast.Stmt) *Node {
	var out []*Node
	ng, nb, ib := len(c.guards), c.knownNil, c.inBlock
	for _, s := range stmts {
		out = append(out, c.stmt(s))
	}
	c.guards, c.knownNil, c.inBlock = c.guards[:ng], nb, ib // facts established by an early return end with the block
	return seq(out)
}

// mentionsReject: the statement writes a 429 / StatusTooManyRequests, passes the block error to
// a method of a parameter, or (errIdent: only asked for return statements) mentions the block
// error variable at all
func (c *fnCtx) mentionsReject(n ast.Node, errIdent bool) bool {
	found := false
	ast.Inspect(n, func(x ast.Node) bool {
		switch y := x.(type) {
		case *ast.SelectorExpr:
			if y.Sel.Name == "StatusTooManyRequests" {
				found = true
			}
		case *ast.BasicLit:
			if y.Value == "429" {
				found = true
			}
		case *ast.CallExpr:
			// the block error handed to a framework object this function received as a
			// parameter (micro: stream.Send(blockErr)); log.Println(blockErr) is not that
			if r, p, ok := selPath(y.Fun); ok && p != "" && c.blockErr != "" {
				if _, isParam := c.params[r]; isParam {
					for _, a := range y.Args {
						if id, ok := a.(*ast.Ident); ok && id.Name == c.blockErr {
							found = true
						}
					}
				}
			}
		case *ast.Ident:
			if errIdent && c.blockErr != "" && y.Name == c.blockErr {
				found = true
			}
		}
		return true
	})
	return found
}

// entry uses inside an expression/statement that is not one of the recognised forms
func (c *fnCtx) entryUses(n ast.Node) *Node {
	// classify every occurrence of an entry variable
	var out []*Node
	bad := false
	var walk func(x ast.Node, parent ast.Node)
	seen := map[*ast.Ident]bool{}
	ast.Inspect(n, func(x ast.Node) bool {
		switch y := x.(type) {
		case *ast.FuncLit:
			if c.scan(y.Body).entryUse {
				bad = true // our entry captured by a closure defined here
			}
			return false
		case *ast.SelectorExpr:
			if id, ok := y.X.(*ast.Ident); ok && c.entryVar[id.Name] {
				seen[id] = true
				out = append(out, &Node{Op: "Deref", E: c.id(id.Name)}) // method value / field through e
			}
		case *ast.CallExpr:
			// entry passed as an argument
			for _, a := range y.Args {
				id, ok := a.(*ast.Ident)
				if !ok || !c.entryVar[id.Name] {
					continue
				}
				seen[id] = true
				r, p, ok := selPath(y.Fun)
				switch {
				case ok && r == c.alias && nilSafeAPI[p]:
					// nil-safe API call: no effect in the model
				case ok && p == "" && c.pkg.helperDeref(r) <= 1:
					// same-package helper that only stores the entry in closures it returns
				default:
					bad = true
				}
			}
		}
		return true
	})
	_ = walk
	// any remaining bare mention (assignment, comparison, ...) is not understood
	ast.Inspect(n, func(x ast.Node) bool {
		if _, ok := x.(*ast.FuncLit); ok {
			return false
		}
		if id, ok := x.(*ast.Ident); ok && c.entryVar[id.Name] && !seen[id] {
			bad = true
		}
		return true
	})
	if bad {
		return c.unknown(n)
	}
	return seq(out)
}

// helperDeref: does the same-package function `name` dereference its *SentinelEntry
// parameter?  0 = no / not found as a helper taking an entry, 1 = only inside function
// literals it returns (runs later, inside the wrapped call), 2 = at its top level.
func (p *pkgInfo) helperDeref(name string) int {
	fd, ok := p.funcs[name]
	if !ok || fd.Body == nil {
		return 2 // unknown callee: assume the worst
	}
	params := map[string]bool{}
	for _, fl := range fd.Type.Params.List {
		if strings.Contains(typeStr(p.fset, fl.Type), "SentinelEntry") {
			for _, nm := range fl.Names {
				params[nm.Name] = true
			}
		}
	}
	if len(params) == 0 {
		return 2
	}
	level := 0
	var visit func(n ast.Node, inLit bool)
	visit = func(n ast.Node, inLit bool) {
		ast.Inspect(n, func(x ast.Node) bool {
			switch y := x.(type) {
			case *ast.FuncLit:
				if !inLit {
					visit(y.Body, true)
					return false
				}
			case *ast.SelectorExpr:
				if id, ok := y.X.(*ast.Ident); ok && params[id.Name] {
					if inLit {
						if level < 1 {
							level = 1
						}
					} else {
						level = 2
					}
				}
			}
			return true
		})
	}
	visit(fd.Body, false)
	return level
}

func (c *fnCtx) callHandlerNode(lhs []ast.Expr, hasErr bool) *Node {
	if !hasErr {
		return &Node{Op: "CallHandler", Mode: "none"}
	}
	if len(lhs) > 0 {
		if id, ok := lhs[len(lhs)-1].(*ast.Ident); ok && id.Name != "_" {
			c.errKind[id.Name] = "handler"
			return &Node{Op: "CallHandler", Mode: "var", V: c.id(id.Name)}
		}
	}
	return &Node{Op: "CallHandler", Mode: "direct"}
}

func (c *fnCtx) fallbackNode(field string) *Node {
	if c.pkg.defaulted[field] {
		return &Node{Op: "Fallback", Mand: true}
	}
	return &Node{Op: "Fallback"}
}

// exprEffects translates the calls of interest inside an expression list, in source order
func (c *fnCtx) exprEffects(n ast.Node, lhs []ast.Expr) (*Node, bool) {
	f := c.scan(n)
	var out []*Node
	handled := false
	if f.handler || f.fallback || f.optCall {
		// the interesting call must be the expression itself (possibly the single RHS)
		var call *ast.CallExpr
		switch x := n.(type) {
		case *ast.CallExpr:
			call = x
		case *ast.ExprStmt:
			call, _ = x.X.(*ast.CallExpr)
		}
		if call == nil {
			return c.unknown(n), true
		}
		// arguments must not themselves contain handler / fallback calls or entry derefs
		for _, a := range call.Args {
			fa := c.scan(a)
			if fa.handler || fa.fallback || fa.optCall || fa.entryCall {
				return c.unknown(n), true
			}
			if fa.entryUse {
				return c.unknown(n), true
			}
		}
		if ok, hasErr := c.handlerCall(call); ok {
			out = append(out, c.callHandlerNode(lhs, hasErr))
			handled = true
		} else if fld, ok := c.optionCall(call); ok {
			if reFallback.MatchString(fld) {
				guarded := false
				for _, g := range c.guards {
					if g == fld {
						guarded = true
					}
				}
				if guarded {
					out = append(out, &Node{Op: "Fallback", Mand: c.pkg.defaulted[fld]})
				} else if c.pkg.defaulted[fld] {
					out = append(out, &Node{Op: "Fallback", Mand: true})
				} else {
					// not known to be non-nil here: nil unless the user configured it
					out = append(out, &Node{Op: "Fallback"})
				}
			} else {
				// another function-typed option (resource extractor, outlier switch, ...)
				guarded := c.pkg.defaulted[fld]
				for _, g := range c.guards {
					if g == fld {
						guarded = true
					}
				}
				if !guarded {
					k := c.flag("options." + fld + " == nil (called without a nil check)")
					out = append(out, &Node{Op: "IfOpt", K: k, A: &Node{Op: "NilCall"}, B: other()})
				} else {
					out = append(out, other())
				}
			}
			handled = true
		} else {
			return c.unknown(n), true
		}
	}
	return seq(out), handled
}

func (c *fnCtx) stmt(s ast.Stmt) *Node {
	f := c.scan(s)
	switch x := s.(type) {
	case *ast.BlockStmt:
		return c.block(x.List)

	case *ast.AssignStmt:
		if len(x.Rhs) == 1 && c.isEntryCall(x.Rhs[0]) {
			call := x.Rhs[0].(*ast.CallExpr)
			for _, a := range call.Args {
				fa := c.scan(a)
				if fa.handler || fa.fallback || fa.entryUse || fa.entryCall {
					return c.unknown(s)
				}
			}
			if len(x.Lhs) != 2 {
				return c.unknown(s)
			}
			e, ok1 := x.Lhs[0].(*ast.Ident)
			er, ok2 := x.Lhs[1].(*ast.Ident)
			if !ok1 || !ok2 || e.Name == "_" {
				return c.unknown(s)
			}
			c.entryVar[e.Name] = true
			c.root.entrySite(c, call)
			n := &Node{Op: "Entry", E: c.id(e.Name)}
			if er.Name == "_" {
				n.Ign = true
			} else {
				n.Err = c.id(er.Name)
				c.errKind[er.Name] = "entry"
				c.blockErr = er.Name
			}
			return n
		}
		if len(x.Rhs) == 1 {
			if call, ok := x.Rhs[0].(*ast.CallExpr); ok {
				if fd, recv, ok := c.helperCall(call); ok {
					return c.inlineAssign(s, x.Lhs, call, fd, recv)
				}
			}
		}
		if f.helper {
			return c.notInlined(s) // a helper's result used inside an expression
		}
		if !f.relevant() && !f.optCall {
			return c.rejectOrOther(s)
		}
		if f.entryCall {
			return c.unknown(s)
		}
		if f.handler || f.fallback || f.optCall {
			if len(x.Rhs) != 1 || f.entryUse {
				return c.unknown(s)
			}
			n, _ := c.exprEffects(x.Rhs[0], x.Lhs)
			return n
		}
		if f.entryUse {
			return c.entryUses(s)
		}
		return c.unknown(s)

	case *ast.DeclStmt:
		if !f.relevant() && !f.optCall {
			return other()
		}
		return c.unknown(s)

	case *ast.ExprStmt:
		call, ok := x.X.(*ast.CallExpr)
		if !ok {
			if f.relevant() {
				return c.unknown(s)
			}
			return other()
		}
		if fd, recv, ok := c.helperCall(call); ok {
			return c.inlineCallStmt(s, call, fd, recv)
		}
		if f.helper {
			return c.notInlined(s)
		}
		// e.Exit()
		if sel, ok := call.Fun.(*ast.SelectorExpr); ok {
			if id, ok := sel.X.(*ast.Ident); ok && c.entryVar[id.Name] && sel.Sel.Name == "Exit" {
				if len(call.Args) != 0 {
					return c.unknown(s)
				}
				return &Node{Op: "ExitNow", E: c.id(id.Name)}
			}
		}
		// sentinel.TraceError(e, v)
		if r, p, ok := selPath(call.Fun); ok && r == c.alias && p == "TraceError" && len(call.Args) == 2 {
			e, ok1 := call.Args[0].(*ast.Ident)
			v, ok2 := call.Args[1].(*ast.Ident)
			if ok1 && ok2 && c.entryVar[e.Name] {
				if _, known := c.errKind[v.Name]; known {
					return &Node{Op: "TraceError", E: c.id(e.Name), V: c.id(v.Name)}
				}
			}
			return c.unknown(s)
		}
		if f.entryCall || f.panicRecov {
			return c.unknown(s)
		}
		if f.handler || f.fallback || f.optCall {
			if f.entryUse {
				return c.unknown(s)
			}
			n, _ := c.exprEffects(call, nil)
			return n
		}
		if f.entryUse {
			return c.entryUses(s)
		}
		return c.rejectOrOther(s)

	case *ast.DeferStmt:
		if c.mode == modeNonTail {
			// a helper's own defer runs when the helper returns, not when the entry point does
			if f.entryUse || f.handler || f.fallback || f.entryCall || f.panicRecov || f.helper || f.optCall {
				return c.unknown(s)
			}
			return other()
		}
		if sel, ok := x.Call.Fun.(*ast.SelectorExpr); ok {
			if id, ok := sel.X.(*ast.Ident); ok && c.entryVar[id.Name] && sel.Sel.Name == "Exit" && len(x.Call.Args) == 0 {
				return &Node{Op: "DeferExit", E: c.id(id.Name)}
			}
		}
		// defer func() { e.Exit() }()  /  defer exitHelper(e)  -- the same thing written as a
		// closure or through a same-package helper: the deferred code, inlined, is exactly one
		// e.Exit() (the entry variable is assigned once: any other assignment to it is an Unknown)
		if n := c.deferredExit(x); n != nil {
			return n
		}
		return c.unknown(s)

	case *ast.ReturnStmt:
		if c.mode == modeNonTail {
			return c.calleeReturn(x)
		}
		if len(x.Results) == 1 {
			if call, ok := x.Results[0].(*ast.CallExpr); ok {
				if fd, recv, ok := c.helperCall(call); ok {
					return c.inlineTail(s, call, fd, recv, true)
				}
			}
		}
		if f.helper {
			return c.notInlined(s)
		}
		var out []*Node
		ff := facts{}
		for _, r := range x.Results {
			fr := c.scan(r)
			ff.handler = ff.handler || fr.handler
			ff.fallback = ff.fallback || fr.fallback
			ff.optCall = ff.optCall || fr.optCall
			ff.entryUse = ff.entryUse || fr.entryUse
			ff.entryCall = ff.entryCall || fr.entryCall
		}
		if ff.entryCall {
			return c.unknown(s)
		}
		if ff.handler || ff.fallback || ff.optCall {
			if len(x.Results) != 1 || ff.entryUse {
				return c.unknown(s)
			}
			n, _ := c.exprEffects(x.Results[0], nil)
			out = append(out, n)
		} else {
			if ff.entryUse {
				out = append(out, c.entryUses(s))
			}
			if c.inBlock && c.mentionsReject(s, true) {
				out = append(out, &Node{Op: "DefaultReject"})
			}
		}
		out = append(out, &Node{Op: "Return"})
		return seq(out)

	case *ast.IfStmt:
		return c.ifStmt(x, f)

	case *ast.GoStmt, *ast.ForStmt, *ast.RangeStmt, *ast.SwitchStmt, *ast.TypeSwitchStmt, *ast.SelectStmt, *ast.LabeledStmt, *ast.BranchStmt:
		if f.relevant() || f.optCall {
			return c.unknown(s)
		}
		return other()
	}
	if f.relevant() || f.optCall {
		return c.unknown(s)
	}
	return other()
}

// a statement with no modelled construct: inside the blocked branch it is the default
// rejection if it writes a 429 (merely mentioning the block error, e.g. logging it, is not
// a rejection: the block error counts only when a return statement hands it on); otherwise Other
func (c *fnCtx) rejectOrOther(s ast.Stmt) *Node {
	if c.inBlock && c.mentionsReject(s, false) {
		return &Node{Op: "DefaultReject"}
	}
	return other()
}

func (c *fnCtx) ifStmt(x *ast.IfStmt, f facts) *Node {
	var pre []*Node
	if x.Init != nil {
		pre = append(pre, c.stmt(x.Init))
	}
	thenElse := func() (*Node, *Node) {
		a := c.block(x.Body.List)
		b := other()
		if x.Else != nil {
			b = c.stmt(x.Else)
		}
		return a, b
	}
	fc := c.scan(x.Cond)
	if fc.helper {
		return c.notInlined(x)
	}
	if fc.handler || fc.fallback || fc.entryCall || fc.entryUse {
		return c.unknown(x)
	}

	if sub, op, ok := nilCheck(x.Cond); ok {
		// err != nil on an error variable
		if id, ok := sub.(*ast.Ident); ok {
			if kind, isErr := c.errKind[id.Name]; isErr {
				vid := c.id(id.Name)
				savedIn, savedNil := c.inBlock, c.knownNil
				branch := func(nonNil bool, run func() *Node) *Node {
					c.knownNil = savedNil
					if nonNil {
						c.clearNil(vid)
						if kind == "entry" {
							c.inBlock = true
						}
					} else {
						c.setNil(vid)
					}
					n := run()
					c.inBlock, c.knownNil = savedIn, savedNil
					return n
				}
				a := branch(op == token.NEQ, func() *Node { return c.block(x.Body.List) })
				b := branch(op != token.NEQ, func() *Node {
					if x.Else != nil {
						return c.stmt(x.Else)
					}
					return other()
				})
				if op == token.EQL {
					a, b = b, a // a: the variable is non-nil
				}
				// after the statement, until the end of the enclosing block: what an early return leaves
				if terminates(a) && !terminates(b) {
					c.setNil(vid)
				} else if terminates(b) && !terminates(a) {
					c.clearNil(vid)
					if kind == "entry" {
						c.inBlock = true
					}
				}
				if kind == "entry" {
					return seq(append(pre, &Node{Op: "IfBlocked", Err: vid, A: a, B: b}))
				}
				return seq(append(pre, &Node{Op: "IfErr", V: vid, A: a, B: b}))
			}
		}
		// options.<field> != nil
		if p, ok := c.optField(sub); ok {
			push := func() { c.guards = append(c.guards, p) }
			pop := func() { c.guards = c.guards[:len(c.guards)-1] }
			var a, b *Node
			if op == token.NEQ {
				push()
				a = c.block(x.Body.List)
				pop()
				b = other()
				if x.Else != nil {
					b = c.stmt(x.Else)
				}
			} else {
				a = c.block(x.Body.List)
				b = other()
				if x.Else != nil {
					push()
					b = c.stmt(x.Else)
					pop()
				}
				a, b = b, a
			}
			if terminates(b) && !terminates(a) {
				// `if options.f == nil { ...; return }`: the field is non-nil from here to the
				// end of the enclosing block
				c.guards = append(c.guards, p)
			}
			if a.quiet() && b.quiet() {
				return seq(append(pre, other()))
			}
			if reFallback.MatchString(p) {
				// the guard protects exactly this field: is every fallback call in the
				// guarded branch a call of the same field?  (calls of other fields were
				// emitted as unguarded `Fallback false` and make this an ordinary flag)
				if c.onlyCallsField(x, p, op) {
					return seq(append(pre, &Node{Op: "IfFallback", A: a, B: b}))
				}
			}
			k := c.flag(c.src(x.Cond))
			return seq(append(pre, &Node{Op: "IfOpt", K: k, A: a, B: b}))
		}
	}

	if fc.errVarUse {
		return c.unknown(x)
	}
	a, b := thenElse()
	if a.quiet() && b.quiet() {
		// the condition itself may still call an unguarded option
		if fc.optCall {
			n := c.condOptCalls(x.Cond)
			return seq(append(pre, n, other()))
		}
		return seq(append(pre, other()))
	}
	var cn *Node
	if fc.optCall {
		cn = c.condOptCalls(x.Cond)
	}
	k := c.flag(c.src(x.Cond))
	return seq(append(pre, cn, &Node{Op: "IfOpt", K: k, A: a, B: b}))
}

// option calls inside a condition (e.g. !options.EnableOutlier(ctx)); short-circuit
// guards of the form `options.f == nil || !options.f(ctx)` protect the call
func (c *fnCtx) condOptCalls(cond ast.Expr) *Node {
	guarded := map[string]bool{}
	ast.Inspect(cond, func(n ast.Node) bool {
		if sub, _, ok := nilCheck0(n); ok {
			if p, ok := c.optField(sub); ok {
				guarded[p] = true
			}
		}
		return true
	})
	var out []*Node
	ast.Inspect(cond, func(n ast.Node) bool {
		if call, ok := n.(*ast.CallExpr); ok {
			if fld, ok := c.optionCall(call); ok {
				if !guarded[fld] && !c.pkg.defaulted[fld] {
					k := c.flag("options." + fld + " == nil (called without a nil check)")
					out = append(out, &Node{Op: "IfOpt", K: k, A: &Node{Op: "NilCall"}, B: other()})
				}
			}
		}
		return true
	})
	return seq(out)
}

func nilCheck0(n ast.Node) (ast.Expr, token.Token, bool) {
	e, ok := n.(ast.Expr)
	if !ok {
		return nil, 0, false
	}
	return nilCheck(e)
}

// onlyCallsField: every fallback-option call inside the guarded branch calls `field`
func (c *fnCtx) onlyCallsField(x *ast.IfStmt, field string, op token.Token) bool {
	var branch ast.Node = x.Body
	if op == token.EQL {
		if x.Else == nil {
			return true
		}
		branch = x.Else
	}
	okAll := true
	ast.Inspect(branch, func(n ast.Node) bool {
		if call, ok := n.(*ast.CallExpr); ok {
			if fld, ok := c.optionCall(call); ok && reFallback.MatchString(fld) && fld != field {
				okAll = false
			}
		}
		return true
	})
	return okAll
}

// ---------------------------------------------------------------------------------------
// splitting a function with several Entry calls along its top-level branches

func split(n *Node) []*Node {
	if n.countEntries() <= 1 {
		return []*Node{n}
	}
	items := flatten(n)
	for i, it := range items {
		if it.countEntries() == 0 {
			continue
		}
		// first item that contains an Entry
		if it.Op == "IfOpt" && it.A.countEntries() >= 1 && it.B.countEntries() >= 1 {
			rest := 0
			for _, r := range items[i+1:] {
				rest += r.countEntries()
			}
			if rest != 0 {
				return []*Node{n}
			}
			mk := func(br *Node) *Node {
				var l []*Node
				l = append(l, items[:i]...)
				l = append(l, flatten(br)...)
				l = append(l, items[i+1:]...)
				return seq(l)
			}
			return append(split(mk(it.A)), split(mk(it.B))...)
		}
		return []*Node{n}
	}
	return []*Node{n}
}

// renumber the flags an entry point actually uses from 0, in order of appearance
func renumber(n *Node, all []string) (*Node, []string) {
	m := map[int]int{}
	var names []string
	// variables: numbered from 0 in order of first appearance (helpers inlined or not, the
	// same code gets the same numbers)
	vm := map[int]int{}
	vn := func(v int) int {
		if _, ok := vm[v]; !ok {
			vm[v] = len(vm)
		}
		return vm[v]
	}
	var walk func(x *Node) *Node
	walk = func(x *Node) *Node {
		if x == nil {
			return nil
		}
		y := *x
		switch y.Op {
		case "Entry":
			y.E = vn(y.E)
			if !y.Ign {
				y.Err = vn(y.Err)
			}
		case "IfBlocked":
			y.Err = vn(y.Err)
		case "DeferExit", "ExitNow", "Deref":
			y.E = vn(y.E)
		case "CallHandler":
			if y.Mode == "var" {
				y.V = vn(y.V)
			}
		case "IfErr":
			y.V = vn(y.V)
		case "TraceError":
			y.E = vn(y.E)
			y.V = vn(y.V)
		}
		if y.Op == "IfOpt" {
			if _, ok := m[y.K]; !ok {
				m[y.K] = len(names)
				names = append(names, all[y.K])
			}
			y.K = m[y.K]
		}
		y.A = walk(x.A)
		y.B = walk(x.B)
		return &y
	}
	return walk(n), names
}

// ---------------------------------------------------------------------------------------
// driver

type output struct {
	Repo          string        `json:"repo"`
	GrepCount     int           `json:"grep_entry_calls"` // textual count of ".Entry(" in non-test files (token level: comments and strings do not count)
	ASTCount      int           `json:"ast_entry_calls"`
	Covered       int           `json:"covered_entry_calls"` // distinct Entry call sites that became an Entry node of some entry point
	EntryPoints   []*entryPoint `json:"entry_points"`
	HandlerTable  interface{}   `json:"handler_table"`
	ParseFailures []string      `json:"parse_failures,omitempty"`
}

func funcName(stack []ast.Node) string {
	for _, n := range stack {
		if fd, ok := n.(*ast.FuncDecl); ok {
			if fd.Recv != nil && len(fd.Recv.List) == 1 {
				t := fd.Recv.List[0].Type
				if st, ok := t.(*ast.StarExpr); ok {
					t = st.X
				}
				if id, ok := t.(*ast.Ident); ok {
					return id.Name + "." + fd.Name.Name
				}
			}
			return fd.Name.Name
		}
	}
	return "?"
}

func addParams(c *fnCtx, ft *ast.FuncType, recv *ast.FieldList) {
	add := func(fl *ast.FieldList) {
		if fl == nil {
			return
		}
		for _, f := range fl.List {
			t := typeStr(c.pkg.fset, f.Type)
			for _, nm := range f.Names {
				c.params[nm.Name] = t
			}
		}
	}
	add(recv)
	add(ft.Params)
}

func main() {
	repo := flag.String("repo", "/repo", "tree under test")
	out := flag.String("out", "", "write the Coq file Adapters_gen.v here")
	jsonOut := flag.Bool("json", false, "print the JSON document on stdout")
	jsonFile := flag.String("json-out", "", "write the JSON document to this file")
	known := flag.String("known", "", "known_findings jsonl (property C19): emitted as Gen.known")
	flag.Parse()

	root := filepath.Join(*repo, "pkg", "adapters")
	res := output{Repo: *repo, HandlerTable: handlerTable}

	pkgs := map[string]*pkgInfo{}
	var dirs []string
	filepath.Walk(root, func(path string, info os.FileInfo, err error) error {
		if err != nil || info.IsDir() || !strings.HasSuffix(path, ".go") || strings.HasSuffix(path, "_test.go") {
			return nil
		}
		src, err := os.ReadFile(path)
		if err != nil {
			res.ParseFailures = append(res.ParseFailures, path+": "+err.Error())
			return nil
		}
		res.GrepCount += countEntryTokens(src)
		d := filepath.Dir(path)
		p, ok := pkgs[d]
		if !ok {
			rel, _ := filepath.Rel(root, d)
			key := strings.Split(filepath.ToSlash(rel), "/")[0]
			p = &pkgInfo{dir: key, fset: token.NewFileSet(), files: map[string]*ast.File{}}
			pkgs[d] = p
			dirs = append(dirs, d)
		}
		f, err := parser.ParseFile(p.fset, path, src, parser.ParseComments)
		if err != nil {
			res.ParseFailures = append(res.ParseFailures, path+": "+err.Error())
			return nil
		}
		p.files[path] = f
		return nil
	})
	sort.Strings(dirs)
	covered := map[string]bool{}

	for _, d := range dirs {
		p := pkgs[d]
		p.collect()
		var paths []string
		for path := range p.files {
			paths = append(paths, path)
		}
		sort.Strings(paths)
		for _, path := range paths {
			f := p.files[path]
			alias := p.aliasOf[f]
			rel, _ := filepath.Rel(root, path)
			rel = filepath.ToSlash(rel)
			perFunc := map[string]int{}
			var eps []*entryPoint

			// every Entry call of the file (whatever function it sits in)
			if alias != "" {
				ast.Inspect(f, func(m ast.Node) bool {
					if call, ok := m.(*ast.CallExpr); ok {
						if r, q, ok := selPath(call.Fun); ok && r == alias && q == "Entry" {
							res.ASTCount++
						}
					}
					return true
				})
			}

			// the entry points: function literals, and top-level functions / methods that are
			// not only called from other functions of the package, from whose body (outside
			// nested literals) an Entry call is reached directly or through same-package helpers
			var stack []ast.Node
			ast.Inspect(f, func(n ast.Node) bool {
				if n == nil {
					stack = stack[:len(stack)-1]
					return true
				}
				stack = append(stack, n)
				var body *ast.BlockStmt
				switch x := n.(type) {
				case *ast.FuncDecl:
					body = x.Body
					if body != nil && !p.isRoot(x) {
						return true // a helper: translated where it is called
					}
				case *ast.FuncLit:
					body = x.Body
				}
				if body == nil {
					return true
				}
				c := &fnCtx{pkg: p, file: f, alias: alias, params: map[string]string{}, optVars: map[string]bool{},
					vars: map[string]int{}, entryVar: map[string]bool{}, errKind: map[string]string{},
					root: newRoot(covered), mode: modeRoot}
				for _, anc := range stack {
					switch y := anc.(type) {
					case *ast.FuncDecl:
						addParams(c, y.Type, y.Recv)
					case *ast.FuncLit:
						addParams(c, y.Type, nil)
					}
				}
				if !c.reaches(body) {
					return true
				}
				// option variables: assigned from a call to *Options(...) anywhere in the enclosing declaration
				c.findOptVars(stack[1])
				c.scanLocals(stack[1])
				if len(body.List) > 0 {
					c.lastStmt = body.List[len(body.List)-1]
				}
				ir := c.block(body.List)
				if ir.countEntries() == 0 && !ir.hasUnknown() {
					return true // the helper it calls is not reached with these arguments
				}
				ir = c.root.canon(ir)
				name := funcName(stack)
				epFile := rel
				var via []string
				if fd, ok := n.(*ast.FuncDecl); ok {
					// an unexported function used as a value by exactly one constructor
					// (`return i.intercept`) is that constructor's entry point
					for d := range p.valueFrom[fd] {
						via = append(via, funcName([]ast.Node{d}))
					}
					sort.Strings(via)
					if len(p.valueFrom[fd]) == 1 && !fd.Name.IsExported() {
						for d := range p.valueFrom[fd] {
							name = funcName([]ast.Node{d})
							if r2, err := filepath.Rel(root, p.pathOf[p.fileOf[d]]); err == nil {
								epFile = filepath.ToSlash(r2)
							}
						}
					}
				}
				parts := split(ir)
				for i, part := range parts {
					perFunc[name]++
					line := 0
					if i < len(c.root.lines) {
						line = c.root.lines[i]
					}
					part, flags := renumber(part, c.root.flags)
					eps = append(eps, &entryPoint{File: epFile, Func: name, Line: line, Via: via,
						FB: c.root.usesOptions && p.hasFallbackField(), Flags: flags, IR: part})
				}
				return true
			})
			// disambiguate several entry points of one declaration: Func#1, Func#2 (source order)
			idx := map[string]int{}
			for _, ep := range eps {
				if perFunc[ep.Func] > 1 {
					idx[ep.Func]++
					ep.Func = fmt.Sprintf("%s#%d", ep.Func, idx[ep.Func])
				}
			}
			// (names were counted before renaming)
			for _, ep := range eps {
				ep.Coq = ep.IR.coq()
				res.EntryPoints = append(res.EntryPoints, ep)
			}
		}
	}
	res.Covered = len(covered)

	if *out != "" {
		var b bytes.Buffer
		b.WriteString("(* GENERATED by translator/adapterir from " + *repo + "/pkg/adapters — do not edit. *)\n")
		b.WriteString("From SG Require Import Base.Prelude Model.AdapterIR.\nLocal Open Scope nat_scope.\n\n")
		fmt.Fprintf(&b, "Definition source_entry_calls : nat := %d. (* textual count of \".Entry(\" in non-test files *)\n", res.GrepCount)
		fmt.Fprintf(&b, "Definition ast_entry_calls : nat := %d. (* Entry calls in the syntax trees *)\n", res.ASTCount)
		fmt.Fprintf(&b, "Definition covered_entry_calls : nat := %d. (* distinct Entry call sites that became an Entry node of an entry point (helpers inlined) *)\n", res.Covered)
		fmt.Fprintf(&b, "Definition parse_failures : nat := %d.\n\n", len(res.ParseFailures))
		b.WriteString("Definition adapters : list adapter := [\n")
		for i, ep := range res.EntryPoints {
			for k, fl := range ep.Flags {
				fmt.Fprintf(&b, "  (* flag %d: %s *)\n", k, strings.ReplaceAll(fl, "*)", "* )"))
			}
			fmt.Fprintf(&b, "  mkAdapter %s %s %d %s\n    %s", coqStr(ep.File), coqStr(ep.Func), ep.Line, coqBool(ep.FB), ep.Coq)
			if i+1 < len(res.EntryPoints) {
				b.WriteString(";")
			}
			b.WriteString("\n")
		}
		b.WriteString("].\n\n")
		b.WriteString("Definition known : list (string * clause) := [\n")
		kn := readKnown(*known)
		for i, k := range kn {
			fmt.Fprintf(&b, "  (%s, %s)", coqStr(k[0]), k[1])
			if i+1 < len(kn) {
				b.WriteString(";")
			}
			b.WriteString("\n")
		}
		b.WriteString("].\n")
		if err := os.WriteFile(*out, b.Bytes(), 0o644); err != nil {
			fmt.Fprintln(os.Stderr, err)
			os.Exit(2)
		}
	}
	if *jsonOut || *jsonFile != "" {
		js, _ := json.MarshalIndent(res, "", " ")
		if *jsonOut {
			os.Stdout.Write(js)
			fmt.Println()
		}
		if *jsonFile != "" {
			os.WriteFile(*jsonFile, js, 0o644)
		}
	}
	if *out == "" && !*jsonOut && *jsonFile == "" {
		for _, ep := range res.EntryPoints {
			fmt.Printf("%s:%s (line %d, fb=%v) flags=%q\n  %s\n", ep.File, ep.Func, ep.Line, ep.FB, ep.Flags, ep.Coq)
		}
		fmt.Printf("grep=%d ast=%d covered=%d entry_points=%d\n", res.GrepCount, res.ASTCount, res.Covered, len(res.EntryPoints))
	}
}

// countEntryTokens: occurrences of the token sequence `.` `Entry` `(` (go/scanner only: an
// independent cross-check of what the parser-based translation saw)
func countEntryTokens(src []byte) int {
	var sc scanner.Scanner
	fs := token.NewFileSet()
	sc.Init(fs.AddFile("", fs.Base(), len(src)), src, nil, 0)
	n := 0
	var p2, p1 token.Token
	var l1 string
	for {
		_, tok, lit := sc.Scan()
		if tok == token.EOF {
			break
		}
		if p2 == token.PERIOD && p1 == token.IDENT && l1 == "Entry" && tok == token.LPAREN {
			n++
		}
		p2, p1, l1 = p1, tok, lit
	}
	return n
}

var clauseNames = map[string]string{
	"entry_first": "ClEntryFirst", "blocked_no_handler": "ClBlockedNoHandler",
	"reject_iff_blocked": "ClRejectIffBlocked", "handler_once": "ClHandlerOnce",
	"exit_once": "ClExitOnce", "exit_after_handler": "ClExitAfterHandler",
	"err_traced": "ClErrTraced", "no_nil_deref": "ClNoNilDeref", "no_spurious_panic": "ClNoSpuriousPanic",
}

// readKnown: signature "file:function:clause" of every C19 line
func readKnown(path string) [][2]string {
	var out [][2]string
	if path == "" {
		return out
	}
	data, err := os.ReadFile(path)
	if err != nil {
		return out
	}
	for _, line := range strings.Split(string(data), "\n") {
		line = strings.TrimSpace(line)
		if line == "" || strings.HasPrefix(line, "#") || strings.HasPrefix(line, "fixed:") {
			continue
		}
		var k struct {
			Property  string `json:"property"`
			Signature string `json:"signature"`
		}
		if json.Unmarshal([]byte(line), &k) != nil || k.Property != "C19" {
			continue
		}
		i := strings.LastIndex(k.Signature, ":")
		if i < 0 {
			continue
		}
		cl, ok := clauseNames[k.Signature[i+1:]]
		if !ok {
			continue
		}
		out = append(out, [2]string{k.Signature[:i], cl})
	}
	return out
}
