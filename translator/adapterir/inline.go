// Interprocedural part of adapterir: same-package helpers are inlined at their call sites.
//
//   - which functions are entry points (collectRefs / isRoot / reaches): a function literal, or
//     a top-level function / method that is referenced as a value or not called at all from
//     another function body of the package, from which an Entry call is reached;
//   - which calls are inlined (helperCall): the callee is a function / method of the package
//     resolvable from the syntax (plain name; method of a parameter / receiver whose declared
//     type is a type of the package) and its body, outside nested literals and with the
//     arguments bound, touches a modelled construct: an Entry call, a use of the entry, the
//     wrapped handler, a fallback option, TraceError, the default rejection inside the blocked
//     branch, or another such helper;
//   - how (inline): parameters are bound to the caller's entry / block error / handler error /
//     options / handler variables (bind); the body is translated by the ordinary statement
//     rules; a call in tail position (`return helper(..)`, last statement of the body) keeps
//     the helper's `return` and `defer` as the entry point's own (modeTail); anywhere else
//     (modeNonTail) the helper's `return`s are eliminated (cps), what they hand back is bound
//     to the caller's variables (calleeReturn / results / bindTargets) and a `defer` touching
//     a modelled construct is an Unknown;
//   - anything that cannot be inlined (recursion, depth, arguments or results used inside
//     expressions, return sites that disagree) is an `Unknown` at the call site.
package main

import (
	"go/ast"
	"sort"
	"strings"
)

const (
	modeRoot = iota
	modeTail
	modeNonTail
)

type rootCtx struct {
	next        int
	parent      map[int]int // variable ids unified by result binding
	flags       []string
	lines       []int           // lines of the Entry calls, in order of translation
	covered     map[string]bool // shared over the run: positions of Entry calls that became Entry nodes
	usesOptions bool
	stack       []*ast.FuncDecl // helpers being inlined (recursion)
	relVisiting map[*ast.FuncDecl]bool
	callLine    int // line of the outermost helper call being inlined
}

func newRoot(covered map[string]bool) *rootCtx {
	return &rootCtx{parent: map[int]int{}, covered: covered, relVisiting: map[*ast.FuncDecl]bool{}}
}

func (r *rootCtx) fresh() int { r.next++; return r.next - 1 }

func (r *rootCtx) find(v int) int {
	for {
		p, ok := r.parent[v]
		if !ok || p == v {
			return v
		}
		v = p
	}
}

func (r *rootCtx) union(a, b int) {
	a, b = r.find(a), r.find(b)
	if a == b {
		return
	}
	if b < a {
		a, b = b, a
	}
	r.parent[b] = a
}

func (r *rootCtx) entrySite(c *fnCtx, call *ast.CallExpr) {
	pos := c.pkg.fset.Position(call.Pos())
	if len(r.stack) > 0 && r.callLine > 0 {
		r.lines = append(r.lines, r.callLine) // reported at the call in the entry point's own body
	} else {
		r.lines = append(r.lines, pos.Line)
	}
	if r.covered != nil {
		r.covered[pos.String()] = true
	}
}

// canon: unified variable ids replaced by their representative; sequences right-nested and
// adjacent effect-free statements collapsed, so that the same code has the same term whether
// or not parts of it sit in helpers
func (r *rootCtx) canon(n *Node) *Node {
	if n == nil {
		return nil
	}
	if n.Op == "Seq" {
		var items []*Node
		for _, it := range flatten(n) {
			items = append(items, r.canon(it))
		}
		return seq(items)
	}
	y := *n
	y.E, y.Err, y.V = r.find(n.E), r.find(n.Err), r.find(n.V)
	y.A, y.B = r.canon(n.A), r.canon(n.B)
	return &y
}

func (n *Node) hasUnknown() bool {
	if n == nil {
		return false
	}
	return n.Op == "Unknown" || n.A.hasUnknown() || n.B.hasUnknown()
}

func hasRet(n *Node) bool {
	if n == nil {
		return false
	}
	return n.Op == "CalleeRet" || hasRet(n.A) || hasRet(n.B)
}

func isIf(n *Node) bool {
	switch n.Op {
	case "IfBlocked", "IfFallback", "IfErr", "IfOpt":
		return true
	}
	return false
}

// terminates: control never falls out of the end of n
func terminates(n *Node) bool {
	if n == nil {
		return false
	}
	items := flatten(n)
	l := items[len(items)-1]
	if l.Op == "Return" || l.Op == "CalleeRet" {
		return true
	}
	return isIf(l) && terminates(l.A) && terminates(l.B)
}

// cps eliminates the helper's returns: the result runs n and then, unless n returned from the
// helper, k
func cps(n, k *Node) *Node {
	if r := cps0(n, k); r != nil {
		return r
	}
	return other()
}

func cps0(n, k *Node) *Node { // nil: nothing
	if n == nil {
		return k
	}
	switch {
	case n.Op == "Seq":
		return cps0(n.A, cps0(n.B, k))
	case n.Op == "CalleeRet":
		return nil
	case isIf(n) && hasRet(n):
		y := *n
		y.A, y.B = cps(n.A, k), cps(n.B, k)
		if y.A.Op == "Other" && y.B.Op == "Other" {
			return nil // nothing but the returns
		}
		return &y
	}
	if k == nil {
		return n
	}
	if n.Op == "Other" {
		return k
	}
	return &Node{Op: "Seq", A: n, B: k}
}

// ---------------------------------------------------------------------------------------
// who is an entry point

func (p *pkgInfo) importNames(f *ast.File) map[string]bool {
	m := map[string]bool{}
	for _, im := range f.Imports {
		if im.Name != nil {
			m[im.Name.Name] = true
			continue
		}
		path := strings.Trim(im.Path.Value, "\"")
		parts := strings.Split(path, "/")
		last := parts[len(parts)-1]
		if strings.HasPrefix(last, "v") && len(parts) > 1 && strings.Trim(last[1:], "0123456789") == "" {
			last = parts[len(parts)-2]
		}
		m[last] = true
	}
	return m
}

// collectRefs counts, for every top-level function and method of the package, the references
// in call position (resolvable: plain name, or method of a parameter / receiver with a declared
// type of the package) and all other references, outside the function's own body
func (p *pkgInfo) collectRefs() {
	p.callRefs = map[*ast.FuncDecl]int{}
	p.valueRefs = map[*ast.FuncDecl]int{}
	p.reachMemo = map[*ast.FuncDecl]int{}
	p.looseMemo = map[*ast.FuncDecl]int{}
	p.valueFrom = map[*ast.FuncDecl]map[*ast.FuncDecl]bool{}
	p.collectTypes()
	byName := p.byMethodName
	valueRef := func(fd, from *ast.FuncDecl) {
		p.valueRefs[fd]++
		if from != nil {
			if p.valueFrom[fd] == nil {
				p.valueFrom[fd] = map[*ast.FuncDecl]bool{}
			}
			p.valueFrom[fd][from] = true
		}
	}
	for _, f := range p.files {
		imports := p.importNames(f)
		var stack []ast.Node
		handled := map[*ast.Ident]bool{}
		enclosing := func() *ast.FuncDecl {
			for _, n := range stack {
				if fd, ok := n.(*ast.FuncDecl); ok {
					return fd
				}
			}
			return nil
		}
		paramType := func(name string) (string, bool) {
			t, ok := "", false
			for _, n := range stack {
				var ft *ast.FuncType
				var recv *ast.FieldList
				switch y := n.(type) {
				case *ast.FuncDecl:
					ft, recv = y.Type, y.Recv
				case *ast.FuncLit:
					ft = y.Type
				default:
					continue
				}
				for _, fl := range []*ast.FieldList{recv, ft.Params} {
					if fl == nil {
						continue
					}
					for _, fld := range fl.List {
						for _, nm := range fld.Names {
							if nm.Name == name {
								t, ok = typeStr(p.fset, fld.Type), true
							}
						}
					}
				}
			}
			return t, ok
		}
		ast.Inspect(f, func(n ast.Node) bool {
			if n == nil {
				stack = stack[:len(stack)-1]
				return true
			}
			stack = append(stack, n)
			switch x := n.(type) {
			case *ast.FuncDecl:
				handled[x.Name] = true
			case *ast.KeyValueExpr:
				if id, ok := x.Key.(*ast.Ident); ok {
					handled[id] = true
				}
			case *ast.CallExpr:
				switch fn := x.Fun.(type) {
				case *ast.Ident:
					if fd := p.funcs[fn.Name]; fd != nil && (fn.Obj == nil || fn.Obj.Kind == ast.Fun) {
						handled[fn] = true
						if fd != enclosing() {
							p.callRefs[fd]++
						}
					}
				case *ast.SelectorExpr:
					if id, ok := fn.X.(*ast.Ident); ok {
						var fd *ast.FuncDecl
						if t, ok := paramType(id.Name); ok {
							fd = p.methods[strings.TrimPrefix(t, "*")+"."+fn.Sel.Name]
						} else if !(id.Obj == nil && imports[id.Name]) {
							// a local variable: the method of that name if the package has exactly one
							// (what fnCtx.callee resolves; anything else stays a value reference)
							if l := byName[fn.Sel.Name]; len(l) == 1 {
								fd = l[0]
							}
						}
						if fd != nil {
							handled[fn.Sel] = true
							if fd != enclosing() {
								p.callRefs[fd]++
							}
						}
					}
				}
			case *ast.SelectorExpr:
				if !handled[x.Sel] {
					handled[x.Sel] = true
					if id, ok := x.X.(*ast.Ident); ok && id.Obj == nil && imports[id.Name] {
						break // a name of another package
					}
					for _, fd := range byName[x.Sel.Name] {
						if fd != enclosing() {
							valueRef(fd, enclosing())
						}
					}
				}
			case *ast.Ident:
				if handled[x] {
					break
				}
				if fd := p.funcs[x.Name]; fd != nil && (x.Obj == nil || x.Obj.Kind == ast.Fun) && fd != enclosing() {
					valueRef(fd, enclosing())
				}
			}
			return true
		})
	}
}

// isRoot: fd is not merely a helper of other functions of the package
func (p *pkgInfo) isRoot(fd *ast.FuncDecl) bool {
	return p.valueRefs[fd] > 0 || p.callRefs[fd] == 0
}

// declCtx: a context for looking at fd's body on its own (every parameter as declared)
func (p *pkgInfo) declCtx(fd *ast.FuncDecl) *fnCtx {
	f := p.fileOf[fd]
	c := &fnCtx{pkg: p, file: f, alias: p.aliasOf[f], params: map[string]string{}, optVars: map[string]bool{},
		vars: map[string]int{}, entryVar: map[string]bool{}, errKind: map[string]string{}, root: newRoot(nil), fd: fd}
	addParams(c, fd.Type, fd.Recv)
	return c
}

// reachesFD: an Entry call is reached from fd's body (outside nested literals), directly or
// through resolvable same-package calls
func (p *pkgInfo) reachesFD(fd *ast.FuncDecl) bool {
	switch p.reachMemo[fd] {
	case 1, 2:
		return false
	case 3:
		return true
	}
	p.reachMemo[fd] = 1
	r := p.declCtx(fd).reaches(fd.Body)
	p.reachMemo[fd] = 2
	if r {
		p.reachMemo[fd] = 3
	}
	return r
}

func (c *fnCtx) reaches(body *ast.BlockStmt) bool {
	found := false
	ast.Inspect(body, func(m ast.Node) bool {
		if found {
			return false
		}
		if _, ok := m.(*ast.FuncLit); ok {
			return false
		}
		if call, ok := m.(*ast.CallExpr); ok {
			if c.isEntryCall(call) {
				found = true
			} else if fd, _ := c.callee(call); fd != nil && c.pkg.reachesFD(fd) {
				found = true
			}
		}
		return true
	})
	return found
}

// option variables: assigned from a call to *Options(...) anywhere in n
func (c *fnCtx) findOptVars(n ast.Node) {
	ast.Inspect(n, func(m ast.Node) bool {
		if as, ok := m.(*ast.AssignStmt); ok && len(as.Rhs) == 1 && len(as.Lhs) == 1 {
			if call, ok := as.Rhs[0].(*ast.CallExpr); ok {
				if id, ok := call.Fun.(*ast.Ident); ok && reOptions.MatchString(id.Name) {
					if l, ok := as.Lhs[0].(*ast.Ident); ok {
						c.optVars[l.Name] = true
						c.root.usesOptions = true
					}
				}
			}
		}
		return true
	})
}

// ---------------------------------------------------------------------------------------
// resolving and binding a call

// collectTypes: the types of the package, the package-typed fields of its structs, the types
// the *Options(..) functions return, methods by name
func (p *pkgInfo) collectTypes() {
	p.typeNames = map[string]bool{}
	p.fieldTypes = map[string]string{}
	p.optTypes = map[string]bool{}
	p.byMethodName = map[string][]*ast.FuncDecl{}
	p.pathOf = map[*ast.File]string{}
	for path, f := range p.files {
		p.pathOf[f] = path
		ast.Inspect(f, func(n ast.Node) bool {
			if ts, ok := n.(*ast.TypeSpec); ok {
				p.typeNames[ts.Name.Name] = true
			}
			return true
		})
	}
	for _, f := range p.files {
		ast.Inspect(f, func(n ast.Node) bool {
			ts, ok := n.(*ast.TypeSpec)
			if !ok {
				return true
			}
			if st, ok := ts.Type.(*ast.StructType); ok {
				for _, fl := range st.Fields.List {
					if t := p.pkgType(fl.Type); t != "" {
						for _, nm := range fl.Names {
							p.fieldTypes[ts.Name.Name+"."+nm.Name] = t
						}
					}
				}
			}
			return true
		})
	}
	for name, fd := range p.funcs {
		if reOptions.MatchString(name) && fd.Type.Results != nil && len(fd.Type.Results.List) == 1 {
			if t := p.pkgType(fd.Type.Results.List[0].Type); t != "" {
				p.optTypes[t] = true
			}
		}
	}
	var keys []string
	for k := range p.methods {
		keys = append(keys, k)
	}
	sort.Strings(keys)
	for _, k := range keys {
		fd := p.methods[k]
		p.byMethodName[fd.Name.Name] = append(p.byMethodName[fd.Name.Name], fd)
	}
}

// pkgType: T for a type expression T / *T naming a type of the package, else ""
func (p *pkgInfo) pkgType(e ast.Expr) string {
	if st, ok := e.(*ast.StarExpr); ok {
		e = st.X
	}
	if id, ok := e.(*ast.Ident); ok && p.typeNames[id.Name] {
		return id.Name
	}
	return ""
}

func (p *pkgInfo) pkgTypeStr(t string) string {
	t = strings.TrimPrefix(t, "*")
	if p.typeNames[t] {
		return t
	}
	return ""
}

// typeOf: the package type an expression holds, as far as the syntax tells ("" = unknown):
// parameters / receivers by declaration, locals by their initialiser, fields by the struct
func (c *fnCtx) typeOf(e ast.Expr) string {
	switch x := e.(type) {
	case *ast.Ident:
		if t, ok := c.localTypes[x.Name]; ok {
			return t
		}
		if t, ok := c.params[x.Name]; ok {
			return c.pkg.pkgTypeStr(t)
		}
	case *ast.ParenExpr:
		return c.typeOf(x.X)
	case *ast.StarExpr:
		return c.typeOf(x.X)
	case *ast.UnaryExpr:
		return c.typeOf(x.X)
	case *ast.CompositeLit:
		if x.Type != nil {
			return c.pkg.pkgType(x.Type)
		}
	case *ast.SelectorExpr:
		if t := c.typeOf(x.X); t != "" {
			return c.pkg.fieldTypes[t+"."+x.Sel.Name]
		}
	case *ast.CallExpr:
		if id, ok := x.Fun.(*ast.Ident); ok && (id.Obj == nil || id.Obj.Kind == ast.Fun) {
			if fd := c.pkg.funcs[id.Name]; fd != nil && fd.Type.Results != nil && len(fd.Type.Results.List) == 1 {
				return c.pkg.pkgType(fd.Type.Results.List[0].Type)
			}
		}
	}
	return ""
}

func (c *fnCtx) setLocal(name, t string) {
	if name == "_" || t == "" {
		return
	}
	if c.localTypes == nil {
		c.localTypes = map[string]string{}
	}
	c.localTypes[name] = t
	if c.pkg.optTypes[t] {
		c.optVars[name] = true
		c.root.usesOptions = true
	}
}

// scanLocals: x := <expr of a package type>, var x T  (anywhere in n, in source order)
func (c *fnCtx) scanLocals(n ast.Node) {
	ast.Inspect(n, func(m ast.Node) bool {
		switch x := m.(type) {
		case *ast.AssignStmt:
			if len(x.Lhs) == len(x.Rhs) {
				for i, l := range x.Lhs {
					if id, ok := l.(*ast.Ident); ok {
						c.setLocal(id.Name, c.typeOf(x.Rhs[i]))
					}
				}
			}
		case *ast.ValueSpec:
			for i, nm := range x.Names {
				if x.Type != nil {
					c.setLocal(nm.Name, c.pkg.pkgType(x.Type))
				} else if i < len(x.Values) {
					c.setLocal(nm.Name, c.typeOf(x.Values[i]))
				}
			}
		}
		return true
	})
}

// optField: e is <options value>.<function-typed field>
func (c *fnCtx) optField(e ast.Expr) (string, bool) {
	sel, ok := e.(*ast.SelectorExpr)
	if !ok || !c.pkg.optFuncs[sel.Sel.Name] {
		return "", false
	}
	if id, ok := sel.X.(*ast.Ident); ok && c.optVars[id.Name] {
		return sel.Sel.Name, true
	}
	if t := c.typeOf(sel.X); t != "" && c.pkg.optTypes[t] {
		c.root.usesOptions = true
		return sel.Sel.Name, true
	}
	return "", false
}

// callee: the same-package function / method a call names, and the receiver expression.
// Methods: by the receiver's type where the syntax tells it (parameter, typed local, field);
// a local variable of unknown type: the method of that name if the package has exactly one.
func (c *fnCtx) callee(call *ast.CallExpr) (*ast.FuncDecl, ast.Expr) {
	switch f := call.Fun.(type) {
	case *ast.Ident:
		if f.Obj != nil && f.Obj.Kind != ast.Fun {
			return nil, nil // a local variable or parameter of that name
		}
		if _, isParam := c.params[f.Name]; isParam {
			return nil, nil
		}
		if fd := c.pkg.funcs[f.Name]; fd != nil && fd.Body != nil {
			return fd, nil
		}
	case *ast.SelectorExpr:
		if ok, _ := c.handlerCall(call); ok {
			return nil, nil // the wrapped handler (per-framework table)
		}
		if t := c.typeOf(f.X); t != "" {
			if fd := c.pkg.methods[t+"."+f.Sel.Name]; fd != nil && fd.Body != nil {
				return fd, f.X
			}
			return nil, nil
		}
		if id, ok := f.X.(*ast.Ident); ok {
			if _, isParam := c.params[id.Name]; isParam {
				return nil, nil // a parameter of a type of another package
			}
			if id.Obj == nil {
				return nil, nil // a package name (or a package-level variable)
			}
			if l := c.pkg.byMethodName[f.Sel.Name]; len(l) == 1 && l[0].Body != nil {
				return l[0], f.X
			}
		}
	}
	return nil, nil
}

// unresolvedHelper: a method call that callee() cannot tie to a declaration although the
// package has methods of that name that touch a modelled construct: not inlinable, an Unknown
func (c *fnCtx) unresolvedHelper(call *ast.CallExpr) bool {
	f, ok := call.Fun.(*ast.SelectorExpr)
	if !ok {
		return false
	}
	if fd, _ := c.callee(call); fd != nil {
		return false
	}
	if ok, _ := c.handlerCall(call); ok {
		return false
	}
	if _, ok := c.optField(f); ok {
		return false
	}
	if t := c.typeOf(f.X); t != "" {
		return false // typed: the package type has no such method
	}
	if id, ok := f.X.(*ast.Ident); ok {
		if _, isParam := c.params[id.Name]; isParam || id.Obj == nil {
			return false
		}
	}
	for _, fd := range c.pkg.byMethodName[f.Sel.Name] {
		if c.pkg.looseRelevant(fd) {
			return true
		}
	}
	return false
}

// looseRelevant: fd's body touches a modelled construct whatever it is called with
func (p *pkgInfo) looseRelevant(fd *ast.FuncDecl) bool {
	switch p.looseMemo[fd] {
	case 1, 2:
		return false
	case 3:
		return true
	}
	p.looseMemo[fd] = 1
	c := p.declCtx(fd)
	ps, _ := fieldNames(p, fd.Type.Params)
	rs, _ := fieldNames(p, fd.Recv)
	for _, q := range append(rs, ps...) {
		if strings.Contains(q.typ, "SentinelEntry") {
			c.entryVar[q.name] = true
		}
		if t := p.pkgTypeStr(q.typ); t != "" && p.optTypes[t] {
			c.optVars[q.name] = true
		}
	}
	c.scanLocals(fd.Body)
	f := c.scan0(fd.Body, false)
	r := f.entryUse || f.handler || f.fallback || f.entryCall || f.trace || f.helper || c.mentionsReject(fd.Body, false)
	p.looseMemo[fd] = 2
	if r {
		p.looseMemo[fd] = 3
	}
	return r
}

type namedType struct{ name, typ string }

func fieldNames(p *pkgInfo, fl *ast.FieldList) (out []namedType, variadic bool) {
	if fl == nil {
		return nil, false
	}
	for _, f := range fl.List {
		t := typeStr(p.fset, f.Type)
		if _, ok := f.Type.(*ast.Ellipsis); ok {
			variadic = true
		}
		if len(f.Names) == 0 {
			out = append(out, namedType{"_", t})
		}
		for _, nm := range f.Names {
			out = append(out, namedType{nm.Name, t})
		}
	}
	return out, variadic
}

// bind: a context for fd's body in which the parameters stand for what the caller passes:
// the caller's entry / error / options variables and its parameters (bare identifiers only;
// a parameter bound to anything else is an ordinary local of the helper)
func (c *fnCtx) bind(fd *ast.FuncDecl, call *ast.CallExpr, recv ast.Expr, mode int) *fnCtx {
	f := c.pkg.fileOf[fd]
	ch := &fnCtx{pkg: c.pkg, file: f, alias: c.pkg.aliasOf[f], params: map[string]string{}, optVars: map[string]bool{},
		vars: map[string]int{}, entryVar: map[string]bool{}, errKind: map[string]string{},
		guards: append([]string(nil), c.guards...), inBlock: c.inBlock, knownNil: c.knownNil,
		root: c.root, mode: mode, fd: fd, retTmp: map[int]int{}}
	one := func(p namedType, arg ast.Expr) {
		if p.name == "_" {
			return
		}
		if t := c.pkg.pkgTypeStr(p.typ); t != "" {
			ch.setLocal(p.name, t) // the helper's own declaration: the options value, a struct of the package
		}
		id, ok := arg.(*ast.Ident)
		if !ok {
			return
		}
		switch {
		case c.entryVar[id.Name]:
			ch.entryVar[p.name] = true
			ch.vars[p.name] = c.id(id.Name)
		case c.errKind[id.Name] != "":
			ch.errKind[p.name] = c.errKind[id.Name]
			ch.vars[p.name] = c.id(id.Name)
			if c.errKind[id.Name] == "entry" {
				ch.blockErr = p.name
			}
		case c.optVars[id.Name]:
			ch.optVars[p.name] = true
		default:
			if _, ok := c.params[id.Name]; ok {
				ch.params[p.name] = p.typ
			}
		}
	}
	if recv != nil && fd.Recv != nil {
		if rs, _ := fieldNames(c.pkg, fd.Recv); len(rs) == 1 {
			one(rs[0], recv)
		}
	}
	ps, variadic := fieldNames(c.pkg, fd.Type.Params)
	if !variadic && len(ps) == len(call.Args) {
		for i, p := range ps {
			one(p, call.Args[i])
		}
	} else if variadic && len(call.Args) >= len(ps)-1 {
		for i, p := range ps[:len(ps)-1] {
			one(p, call.Args[i])
		}
	}
	return ch
}

// helperCall: the call names a same-package helper that has to be inlined here
func (c *fnCtx) helperCall(call *ast.CallExpr) (*ast.FuncDecl, ast.Expr, bool) {
	fd, recv := c.callee(call)
	if fd == nil || c.root.relVisiting[fd] {
		return nil, nil, false
	}
	c.root.relVisiting[fd] = true
	defer delete(c.root.relVisiting, fd)
	ch := c.bind(fd, call, recv, modeNonTail)
	f := ch.scan0(fd.Body, false)
	rel := f.entryUse || f.handler || f.fallback || f.entryCall || f.trace || f.helper ||
		(ch.inBlock && ch.mentionsReject(fd.Body, false))
	return fd, recv, rel
}

// argsOK: arguments are bare identifiers or expressions without a modelled construct
func (c *fnCtx) argsOK(call *ast.CallExpr, recv ast.Expr) bool {
	args := call.Args
	if recv != nil {
		args = append([]ast.Expr{recv}, args...)
	}
	for _, a := range args {
		if _, ok := a.(*ast.Ident); ok {
			continue
		}
		fa := c.scan(a)
		if fa.handler || fa.fallback || fa.optCall || fa.entryCall || fa.helper || fa.entryUse {
			return false
		}
	}
	return true
}

// inline translates the helper's body at this call; nil if it cannot be inlined
func (c *fnCtx) inline(call *ast.CallExpr, fd *ast.FuncDecl, recv ast.Expr, mode int) (*Node, *fnCtx) {
	for _, g := range c.root.stack {
		if g == fd {
			return nil, nil // recursion
		}
	}
	if len(c.root.stack) >= 12 || !c.argsOK(call, recv) {
		return nil, nil
	}
	ch := c.bind(fd, call, recv, mode)
	ch.findOptVars(fd.Body)
	ch.scanLocals(fd.Body)
	if n := len(fd.Body.List); n > 0 {
		ch.lastStmt = fd.Body.List[n-1]
	}
	if len(c.root.stack) == 0 {
		c.root.callLine = c.pkg.fset.Position(call.Pos()).Line
	}
	c.root.stack = append(c.root.stack, fd)
	body := ch.block(fd.Body.List)
	c.root.stack = c.root.stack[:len(c.root.stack)-1]
	if mode == modeNonTail {
		body = cps(body, nil)
	}
	return body, ch
}

// a, b := helper(..)
func (c *fnCtx) inlineAssign(s ast.Stmt, lhs []ast.Expr, call *ast.CallExpr, fd *ast.FuncDecl, recv ast.Expr) *Node {
	body, ch := c.inline(call, fd, recv, modeNonTail)
	if body == nil {
		return c.notInlined(s)
	}
	rb, ok := ch.results()
	if !ok || !c.bindTargets(lhs, rb) {
		return seq([]*Node{body, c.notInlined(s)})
	}
	return body
}

// helper(..) as a statement: a tail call if it is the last statement of the function body
func (c *fnCtx) inlineCallStmt(s ast.Stmt, call *ast.CallExpr, fd *ast.FuncDecl, recv ast.Expr) *Node {
	if c.mode != modeNonTail && s == c.lastStmt {
		return c.inlineTail(s, call, fd, recv, false)
	}
	body, ch := c.inline(call, fd, recv, modeNonTail)
	if body == nil {
		return c.notInlined(s)
	}
	if _, ok := ch.results(); !ok {
		return seq([]*Node{body, c.notInlined(s)})
	}
	return body
}

// return helper(..)  /  helper(..) as the last statement: the helper's returns and defers are
// the entry point's own
func (c *fnCtx) inlineTail(s ast.Stmt, call *ast.CallExpr, fd *ast.FuncDecl, recv ast.Expr, isReturn bool) *Node {
	body, _ := c.inline(call, fd, recv, modeTail)
	if body == nil {
		return c.notInlined(s)
	}
	if !isReturn || terminates(body) {
		return body
	}
	return seq([]*Node{body, {Op: "Return"}})
}

// defer func() { .. }()  /  defer helper(e): DeferExit e if the deferred code is one e.Exit()
func (c *fnCtx) deferredExit(x *ast.DeferStmt) *Node {
	var body *Node
	if fl, ok := x.Call.Fun.(*ast.FuncLit); ok {
		if len(x.Call.Args) != 0 || fl.Type.Params.NumFields() != 0 || fl.Type.Results.NumFields() != 0 {
			return nil
		}
		cc := *c // the closure shares the function's variables
		cc.mode, cc.fd, cc.sites, cc.retTmp, cc.lastStmt = modeNonTail, nil, nil, map[int]int{}, nil
		body = cps(cc.block(fl.Body.List), nil)
	} else if fd, recv, ok := c.helperCall(x.Call); ok {
		body, _ = c.inline(x.Call, fd, recv, modeNonTail)
	}
	if body == nil {
		return nil
	}
	var eff []*Node
	for _, it := range flatten(body) {
		if !it.quiet() {
			eff = append(eff, it)
		}
	}
	if len(eff) == 1 && eff[0].Op == "ExitNow" {
		return &Node{Op: "DeferExit", E: eff[0].E}
	}
	return nil
}

// ---------------------------------------------------------------------------------------
// what a helper hands back

const (
	rvPlain = iota
	rvEntry
	rvErr
	rvNil
)

type retVal struct {
	kind    int
	id      int
	ekind   string       // rvErr: "entry" | "handler"
	typ     int          // rvNil: rvEntry / rvErr by the declared result type, else rvPlain
	inBlock bool         // rvNil: the return sits in the blocked branch
	nilIDs  map[int]bool // rvNil: error variables known to be nil at the return
}

func (c *fnCtx) resultTypes() []namedType {
	if c.fd == nil {
		return nil
	}
	r, _ := fieldNames(c.pkg, c.fd.Type.Results)
	return r
}

func (c *fnCtx) tmp(i int) int {
	if v, ok := c.retTmp[i]; ok {
		return v
	}
	v := c.root.fresh()
	c.retTmp[i] = v
	return v
}

func (c *fnCtx) setNil(id int) {
	m := map[int]bool{id: true}
	for k := range c.knownNil {
		m[k] = true
	}
	c.knownNil = m
}

func (c *fnCtx) clearNil(id int) {
	m := map[int]bool{}
	for k := range c.knownNil {
		if k != id {
			m[k] = true
		}
	}
	c.knownNil = m
}

// calleeReturn: a return statement of a helper inlined in non-tail position
func (c *fnCtx) calleeReturn(x *ast.ReturnStmt) *Node {
	rts := c.resultTypes()
	nres := len(rts)
	site := make([]retVal, nres)
	ret := &Node{Op: "CalleeRet"}
	done := func(ns ...*Node) *Node {
		c.sites = append(c.sites, site)
		return seq(append(ns, ret))
	}
	results := x.Results
	if len(results) == 0 && nres > 0 { // bare return: the named results
		for _, rt := range rts {
			results = append(results, &ast.Ident{Name: rt.name})
		}
	}
	if len(results) == 1 {
		if call, ok := results[0].(*ast.CallExpr); ok {
			switch {
			case c.isEntryCall(call):
				for _, a := range call.Args {
					fa := c.scan(a)
					if fa.handler || fa.fallback || fa.entryUse || fa.entryCall || fa.helper {
						return done(c.unknown(x))
					}
				}
				if nres != 2 {
					return done(c.unknown(x))
				}
				c.root.entrySite(c, call)
				e, er := c.tmp(0), c.tmp(1)
				site[0] = retVal{kind: rvEntry, id: e}
				site[1] = retVal{kind: rvErr, id: er, ekind: "entry"}
				return done(&Node{Op: "Entry", E: e, Err: er})
			default:
				if fd, recv, ok := c.helperCall(call); ok {
					body, ch := c.inline(call, fd, recv, modeNonTail)
					if body == nil {
						return done(c.notInlined(x))
					}
					rb, ok := ch.results()
					if !ok || len(rb) != nres {
						return done(body, c.notInlined(x))
					}
					copy(site, rb)
					return done(body)
				}
				if ok, hasErr := c.handlerCall(call); ok {
					n, _ := c.exprEffects(call, nil) // checks the arguments; CallHandler ErrDirect / ErrNone
					if n.Op == "CallHandler" && hasErr && nres >= 1 {
						v := c.tmp(nres - 1)
						n = &Node{Op: "CallHandler", Mode: "var", V: v}
						site[nres-1] = retVal{kind: rvErr, id: v, ekind: "handler"}
					}
					return done(n)
				}
			}
		}
	}
	if len(results) != nres {
		// a call with several results that is none of the above, or a closure's return
		f := c.scan(x)
		if f.handler || f.fallback || f.optCall || f.entryCall || f.entryUse || f.helper || f.errVarUse {
			return done(c.unknown(x))
		}
		if n := c.returnReject(x); n.Op != "Other" {
			return done(n)
		}
		return done()
	}
	var pre []*Node
	for i, r := range results {
		if id, ok := r.(*ast.Ident); ok {
			switch {
			case c.entryVar[id.Name]:
				site[i] = retVal{kind: rvEntry, id: c.id(id.Name)}
				continue
			case c.errKind[id.Name] != "":
				site[i] = retVal{kind: rvErr, id: c.id(id.Name), ekind: c.errKind[id.Name]}
				continue
			case id.Name == "nil":
				t := rvPlain
				switch {
				case strings.Contains(rts[i].typ, "SentinelEntry"):
					t = rvEntry
				case strings.Contains(rts[i].typ, "BlockError") || rts[i].typ == "error":
					t = rvErr
				}
				site[i] = retVal{kind: rvNil, typ: t, inBlock: c.inBlock, nilIDs: c.knownNil}
				continue
			}
		}
		fr := c.scan(r)
		switch {
		case fr.handler || fr.entryCall || fr.helper || fr.entryUse:
			return done(c.unknown(x))
		case fr.fallback || fr.optCall:
			if len(results) != 1 {
				return done(c.unknown(x))
			}
			n, _ := c.exprEffects(r, nil)
			pre = append(pre, n)
		}
	}
	if n := c.returnReject(x); n.Op != "Other" {
		pre = append(pre, n)
	}
	return done(pre...)
}

// a helper's return statement that writes the default rejection (429) while blocked
func (c *fnCtx) returnReject(x *ast.ReturnStmt) *Node {
	if c.inBlock && c.mentionsReject(x, false) {
		return &Node{Op: "DefaultReject"}
	}
	return other()
}

// results: per result position what the helper hands back, agreed over its return statements
func (c *fnCtx) results() ([]retVal, bool) {
	nres := len(c.resultTypes())
	out := make([]retVal, nres)
	for i := 0; i < nres; i++ {
		var v *retVal
		for _, site := range c.sites {
			s := site[i]
			if s.kind != rvEntry && s.kind != rvErr {
				continue
			}
			if v == nil {
				s := s
				v = &s
				continue
			}
			if v.kind != s.kind || v.ekind != s.ekind || c.root.find(v.id) != c.root.find(s.id) {
				return nil, false // the return statements hand back different variables
			}
		}
		if v == nil {
			continue // never a modelled variable: an ordinary value for the caller
		}
		for _, site := range c.sites {
			s := site[i]
			switch s.kind {
			case rvPlain:
				return nil, false
			case rvNil:
				// a literal nil next to a variable: only where the variable is nil as well
				if v.kind == rvEntry && !s.inBlock {
					return nil, false
				}
				if v.kind == rvErr {
					known := false
					for k := range s.nilIDs {
						known = known || c.root.find(k) == c.root.find(v.id)
					}
					if !known {
						return nil, false
					}
				}
			}
		}
		out[i] = *v
	}
	return out, true
}

// bindTargets: the caller's variables now stand for what the helper handed back
func (c *fnCtx) bindTargets(lhs []ast.Expr, rb []retVal) bool {
	if len(lhs) != len(rb) {
		for _, r := range rb {
			if r.kind != rvPlain {
				return false
			}
		}
		return true
	}
	for i, l := range lhs {
		id, ok := l.(*ast.Ident)
		if !ok {
			if rb[i].kind != rvPlain {
				return false
			}
			continue
		}
		if id.Name == "_" {
			continue
		}
		switch rb[i].kind {
		case rvEntry:
			c.bindVar(id.Name, rb[i].id)
			c.entryVar[id.Name] = true
		case rvErr:
			c.bindVar(id.Name, rb[i].id)
			c.errKind[id.Name] = rb[i].ekind
			if rb[i].ekind == "entry" {
				c.blockErr = id.Name
			}
			c.clearNil(c.root.find(rb[i].id))
		default:
			if c.entryVar[id.Name] {
				return false // the entry variable overwritten
			}
		}
	}
	return true
}

func (c *fnCtx) bindVar(name string, id int) {
	if old, ok := c.vars[name]; ok {
		c.root.union(old, id)
		return
	}
	c.vars[name] = id
}
