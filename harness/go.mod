module vh

go 1.22

require github.com/alibaba/sentinel-golang v0.0.0

require (
	github.com/beorn7/perks v1.0.1 // indirect
	github.com/cespare/xxhash/v2 v2.2.0 // indirect
	github.com/davecgh/go-spew v1.1.1 // indirect
	github.com/fsnotify/fsnotify v1.4.7 // indirect
	github.com/golang/protobuf v1.5.3 // indirect
	github.com/google/uuid v1.1.1 // indirect
	github.com/matttproud/golang_protobuf_extensions v1.0.4 // indirect
	github.com/pkg/errors v0.9.1 // indirect
	github.com/pmezard/go-difflib v1.0.0 // indirect
	github.com/prometheus/client_golang v1.16.0 // indirect
	github.com/prometheus/client_model v0.3.0 // indirect
	github.com/prometheus/common v0.42.0 // indirect
	github.com/prometheus/procfs v0.10.1 // indirect
	github.com/shirou/gopsutil/v3 v3.21.6 // indirect
	github.com/stretchr/objx v0.4.0 // indirect
	github.com/stretchr/testify v1.8.0 // indirect
	github.com/tklauser/go-sysconf v0.3.6 // indirect
	github.com/tklauser/numcpus v0.2.2 // indirect
	go.uber.org/atomic v1.6.0 // indirect
	go.uber.org/multierr v1.5.0 // indirect
	golang.org/x/sys v0.21.0 // indirect
	google.golang.org/protobuf v1.30.0 // indirect
	gopkg.in/yaml.v2 v2.4.0 // indirect
	gopkg.in/yaml.v3 v3.0.1 // indirect
)

replace github.com/alibaba/sentinel-golang => /repo
