// Package vclock is a virtual clock implementing sentinel's util.Clock.
package vclock

import (
	"sync"
	"time"

	"github.com/alibaba/sentinel-golang/util"
)

// Clock is a settable clock with nanosecond resolution. Sleep records the request and advances.
type Clock struct {
	mu     sync.Mutex
	ns     uint64
	Sleeps []time.Duration
	// AdvanceOnSleep: when true (default) Sleep advances the clock by d.
	AdvanceOnSleep bool
}

func New(startMs uint64) *Clock {
	return &Clock{ns: startMs * 1000000, AdvanceOnSleep: true}
}

// Install makes c the clock used by sentinel.
func (c *Clock) Install() { util.SetClock(c) }

func (c *Clock) Now() time.Time {
	c.mu.Lock()
	defer c.mu.Unlock()
	return time.Unix(0, int64(c.ns))
}

func (c *Clock) Sleep(d time.Duration) {
	c.mu.Lock()
	defer c.mu.Unlock()
	c.Sleeps = append(c.Sleeps, d)
	if c.AdvanceOnSleep && d > 0 {
		c.ns += uint64(d)
	}
}

func (c *Clock) CurrentTimeMillis() uint64 {
	c.mu.Lock()
	defer c.mu.Unlock()
	return c.ns / 1000000
}

func (c *Clock) CurrentTimeNano() uint64 {
	c.mu.Lock()
	defer c.mu.Unlock()
	return c.ns
}

func (c *Clock) SetMs(ms uint64) {
	c.mu.Lock()
	defer c.mu.Unlock()
	c.ns = ms * 1000000
}

func (c *Clock) SetNs(ns uint64) {
	c.mu.Lock()
	defer c.mu.Unlock()
	c.ns = ns
}

func (c *Clock) AddMs(ms uint64) {
	c.mu.Lock()
	defer c.mu.Unlock()
	c.ns += ms * 1000000
}

func (c *Clock) AddNs(ns uint64) {
	c.mu.Lock()
	defer c.mu.Unlock()
	c.ns += ns
}

// TakeSleeps returns and clears the recorded sleeps.
func (c *Clock) TakeSleeps() []time.Duration {
	c.mu.Lock()
	defer c.mu.Unlock()
	s := c.Sleeps
	c.Sleeps = nil
	return s
}
