// Package emit prints Coq literals and writes the case shards / report consumed by ./check.
package emit

import (
	"encoding/json"
	"fmt"
	"math"
	"os"
	"path/filepath"
	"sort"
	"strings"
)

// Z prints an integer as a Coq Z literal (in Z_scope).
func Z(x int64) string {
	if x < 0 {
		return fmt.Sprintf("(%d)", x)
	}
	return fmt.Sprintf("%d", x)
}

// U prints an unsigned integer as a Coq Z literal.
func U(x uint64) string { return fmt.Sprintf("%d", x) }

func B(b bool) string {
	if b {
		return "true"
	}
	return "false"
}

// F prints a float64 exactly, as a Coq term of type float built by SG.Base.GoFloat.mkF.
func F(f float64) string {
	switch {
	case math.IsNaN(f):
		return "fNaN"
	case math.IsInf(f, 1):
		return "fInf"
	case math.IsInf(f, -1):
		return "fNegInf"
	}
	neg := math.Signbit(f)
	a := math.Abs(f)
	if a == 0 {
		return fmt.Sprintf("(mkF %s 0 0)", B(neg))
	}
	fr, e := math.Frexp(a) // a = fr * 2^e, fr in [0.5,1)
	m := uint64(fr * (1 << 53))
	ex := e - 53
	for m&1 == 0 {
		m >>= 1
		ex++
	}
	return fmt.Sprintf("(mkF %s %d %s)", B(neg), m, Z(int64(ex)))
}

// Str prints a Coq string literal.
func Str(s string) string { return "\"" + strings.ReplaceAll(s, "\"", "\"\"") + "\"%string" }

func List(items []string) string { return "[" + strings.Join(items, "; ") + "]" }

func ListZ(xs []int64) string {
	it := make([]string, len(xs))
	for i, x := range xs {
		it[i] = Z(x)
	}
	return List(it)
}

func OptZ(ok bool, x int64) string {
	if !ok {
		return "None"
	}
	return "(Some " + Z(x) + ")"
}

func Tuple(items ...string) string { return "(" + strings.Join(items, ", ") + ")" }

// Shards distributes Coq case terms over k files that ./check evaluates with coqc.
type Shards struct {
	dir     string
	module  string // e.g. "Corr.Run_C04"
	k       int
	files   []*os.File
	counts  []int
	names   []string
	preface string
}

// NewShards creates k shard files cases_<i>.v in dir. module is the SG library that
// defines `case` and `mismatches : list case -> list Z`. preface is extra Coq text (e.g.
// constants observed from the implementation) placed before the case list.
func NewShards(dir, module string, k int, preface string) (*Shards, error) {
	if err := os.MkdirAll(dir, 0o755); err != nil {
		return nil, err
	}
	old, _ := filepath.Glob(filepath.Join(dir, "cases_*"))
	for _, f := range old {
		os.Remove(f)
	}
	s := &Shards{dir: dir, module: module, k: k, preface: preface}
	for i := 0; i < k; i++ {
		name := fmt.Sprintf("cases_%d.v", i)
		f, err := os.Create(filepath.Join(dir, name))
		if err != nil {
			return nil, err
		}
		fmt.Fprintf(f, "From Coq Require Import Floats.\nFrom SG Require Import Base.Prelude Base.GoInt Base.GoFloat %s.\n%s\nDefinition cases : list case := [\n", module, preface)
		s.files = append(s.files, f)
		s.counts = append(s.counts, 0)
		s.names = append(s.names, name)
	}
	return s, nil
}

// Add appends a case term (Coq syntax of type `case`) to shard (i mod k).
func (s *Shards) Add(i int, term string) {
	j := i % s.k
	if s.counts[j] > 0 {
		fmt.Fprint(s.files[j], ";\n")
	}
	fmt.Fprint(s.files[j], term)
	s.counts[j]++
}

func (s *Shards) Close() []string {
	var used []string
	for i, f := range s.files {
		fmt.Fprint(f, "\n].\nDefinition M := Eval vm_compute in mismatches cases.\nPrint M.\n")
		f.Close()
		if s.counts[i] > 0 {
			used = append(used, s.names[i])
		} else {
			os.Remove(filepath.Join(s.dir, s.names[i]))
		}
	}
	return used
}

// Failure is one monitor failure: the property clause evaluated on the implementation's own
// trace is false.
type Failure struct {
	Case      int         `json:"case"`
	Clause    string      `json:"clause"`
	Signature string      `json:"signature"`
	Detail    string      `json:"detail"`
	Input     interface{} `json:"input"`
}

// Report is what a vh-cXX binary hands back to ./check.
type Report struct {
	failPerSig map[string]int // failures seen per clause/signature (unexported: not written to report.json)
	Property           string                 `json:"property"`
	Seed               uint64                 `json:"seed"`
	Tier               string                 `json:"tier"`
	Evaluations        int                    `json:"evaluations"`
	CorrCases          int                    `json:"corr_cases"`
	DistinctNontrivial int                    `json:"distinct_nontrivial"`
	Rule               string                 `json:"rule"`
	Samples            []interface{}          `json:"samples"`
	Distribution       map[string]interface{} `json:"distribution"`
	Consts             map[string]interface{} `json:"consts,omitempty"`
	MonitorFailures    []Failure              `json:"monitor_failures"`
	Shards             []string               `json:"shards"`
	Exhaustive         bool                   `json:"exhaustive,omitempty"`
	Notes              []string               `json:"notes,omitempty"`
	// CaseInputs maps a correspondence case id to its input, so that ./check can write a replay.
	CaseInputs map[string]interface{} `json:"case_inputs,omitempty"`
}

func NewReport(prop string, seed uint64, tier string) *Report {
	return &Report{Property: prop, Seed: seed, Tier: tier,
		Distribution: map[string]interface{}{}, Consts: map[string]interface{}{},
		MonitorFailures: []Failure{}, Samples: []interface{}{}, CaseInputs: map[string]interface{}{}}
}

// Fail records a monitor failure. The list is bounded per signature (the first 25 failures of each
// signature are kept, the rest only counted), never globally: failures of a recorded known finding, however
// many, must not push an unlisted failure out of the report.
func (r *Report) Fail(c int, clause, sig, detail string, input interface{}) {
	if r.failPerSig == nil {
		r.failPerSig = map[string]int{}
	}
	r.failPerSig[clause+"/"+sig]++
	if r.failPerSig[clause+"/"+sig] <= 25 && len(r.MonitorFailures) < 5000 {
		r.MonitorFailures = append(r.MonitorFailures, Failure{c, clause, sig, detail, input})
	}
}

func (r *Report) Count(key string, n int) {
	if v, ok := r.Distribution[key].(int); ok {
		r.Distribution[key] = v + n
	} else {
		r.Distribution[key] = n
	}
}

func (r *Report) Sample(x interface{}) {
	if len(r.Samples) < 3 {
		r.Samples = append(r.Samples, x)
	}
}

func (r *Report) Write(dir string) error {
	sort.SliceStable(r.MonitorFailures, func(i, j int) bool { return r.MonitorFailures[i].Case < r.MonitorFailures[j].Case })
	b, err := json.MarshalIndent(r, "", " ")
	if err != nil {
		return err
	}
	return os.WriteFile(filepath.Join(dir, "report.json"), b, 0o644)
}

// Distinct counts distinct non-trivial cases by a caller-supplied fingerprint.
type Distinct struct{ seen map[string]bool }

func NewDistinct() *Distinct { return &Distinct{seen: map[string]bool{}} }
func (d *Distinct) Add(fingerprint string) {
	d.seen[fingerprint] = true
}
func (d *Distinct) N() int { return len(d.seen) }
