// Package env initialises sentinel for verification runs: no metric log flushing, no system
// collectors, a silent logger, and (optionally) custom global statistic geometry.
package env

import (
	sentinel "github.com/alibaba/sentinel-golang/api"
	"github.com/alibaba/sentinel-golang/core/config"
)

type nopLogger struct{}

func (nopLogger) Debug(string, ...interface{})        {}
func (nopLogger) DebugEnabled() bool                  { return false }
func (nopLogger) Info(string, ...interface{})         {}
func (nopLogger) InfoEnabled() bool                   { return false }
func (nopLogger) Warn(string, ...interface{})         {}
func (nopLogger) WarnEnabled() bool                   { return false }
func (nopLogger) Error(error, string, ...interface{}) {}
func (nopLogger) ErrorEnabled() bool                  { return false }

// Options for Init; zero values keep sentinel's defaults.
type Options struct {
	GlobalSampleCount uint32
	GlobalIntervalMs  uint32
	MetricSampleCount uint32
	MetricIntervalMs  uint32
}

func Init(o Options) {
	c := config.NewDefaultConfig()
	c.Sentinel.Log.Logger = nopLogger{}
	c.Sentinel.Log.Metric.FlushIntervalSec = 0
	c.Sentinel.Stat.System.CollectIntervalMs = 0
	c.Sentinel.Stat.System.CollectLoadIntervalMs = 0
	c.Sentinel.Stat.System.CollectCpuIntervalMs = 0
	c.Sentinel.Stat.System.CollectMemoryIntervalMs = 0
	if o.GlobalSampleCount != 0 {
		c.Sentinel.Stat.GlobalStatisticSampleCountTotal = o.GlobalSampleCount
	}
	if o.GlobalIntervalMs != 0 {
		c.Sentinel.Stat.GlobalStatisticIntervalMsTotal = o.GlobalIntervalMs
	}
	if o.MetricSampleCount != 0 {
		c.Sentinel.Stat.MetricStatisticSampleCount = o.MetricSampleCount
	}
	if o.MetricIntervalMs != 0 {
		c.Sentinel.Stat.MetricStatisticIntervalMs = o.MetricIntervalMs
	}
	if err := sentinel.InitWithConfig(c); err != nil {
		panic(err)
	}
}
