//go:build verif

package rulesh

import (
	"fmt"
	"math"
	"strconv"
	"strings"

	sentinel "github.com/alibaba/sentinel-golang/api"
	"github.com/alibaba/sentinel-golang/core/base"
	cb "github.com/alibaba/sentinel-golang/core/circuitbreaker"
	"github.com/alibaba/sentinel-golang/core/config"
	"github.com/alibaba/sentinel-golang/core/flow"
	"github.com/alibaba/sentinel-golang/core/hotspot"
	"github.com/alibaba/sentinel-golang/core/isolation"
	"github.com/alibaba/sentinel-golang/core/system_metric"

	"vh/internal/emit"
	"vh/internal/rng"
	"vh/internal/vclock"
)

func tagOf(id string) int64 {
	if id == "" {
		return 0
	}
	n, err := strconv.ParseInt(id, 10, 64)
	if err != nil {
		return -1
	}
	return n
}

func feq(a, b float64) bool {
	return a == b || math.Abs(a-b) < 1e-8 || (math.IsNaN(a) && math.IsNaN(b))
}

// Clk is the virtual clock shared with the binaries (probes advance it).
var Clk *vclock.Clock

// ---------------------------------------------------------------------------------------------
// flow

func FlowMod() *Mod[flow.Rule] {
	m := &Mod[flow.Rule]{Name: "flow", Ctor: "CFlow"}
	m.LoadAll, m.LoadRes, m.GetRes, m.GetAll = flow.LoadRules, flow.LoadRulesOfResource, flow.GetRulesOfResource, flow.GetRules
	m.ClearAll, m.ClearRes = flow.ClearRules, flow.ClearRulesOfResource
	m.Ctrls = func(res string) []CtrlObs[flow.Rule] {
		var r []CtrlObs[flow.Rule]
		for _, c := range flow.VerifRuleControllers(res) {
			r = append(r, CtrlObs[flow.Rule]{c.Rule, c.Ctrl, c.Stat})
		}
		return r
	}
	m.Preface = func() string {
		return fmt.Sprintf("%d %d %d %d", int64(system_metric.TotalMemorySize), config.GlobalStatisticIntervalMsTotal(), config.GlobalStatisticSampleCountTotal(), config.MetricStatisticIntervalMs())
	}
	m.Coq = func(t *flow.Rule, ri func(string) int64) string {
		ref := int64(0)
		if t.RefResource != "" {
			ref = ri(t.RefResource)
		}
		return fmt.Sprintf("{| f_tag := %s; f_res := %d; f_tcs := %s; f_cb := %s; f_thr := %s; f_rel := %s; f_ref := %d; f_maxq := %d; f_wperiod := %d; f_wcold := %d; f_interval := %d; f_lowmem := %s; f_highmem := %s; f_memlow := %s; f_memhigh := %s |}",
			emit.Z(tagOf(t.ID)), ri(t.Resource), emit.Z(int64(t.TokenCalculateStrategy)), emit.Z(int64(t.ControlBehavior)), emit.F(t.Threshold),
			emit.Z(int64(t.RelationStrategy)), ref, t.MaxQueueingTimeMs, t.WarmUpPeriodSec, t.WarmUpColdFactor, t.StatIntervalInMs,
			emit.Z(t.LowMemUsageThreshold), emit.Z(t.HighMemUsageThreshold), emit.Z(t.MemLowWaterMarkBytes), emit.Z(t.MemHighWaterMarkBytes))
	}
	m.Tag = func(t *flow.Rule) int64 { return tagOf(t.ID) }
	m.ResOf = func(t *flow.Rule) string { return t.Resource }
	m.SetID = func(t *flow.Rule, id string) { t.ID = id }
	m.Clone = func(t *flow.Rule) *flow.Rule { c := *t; return &c }
	m.NoNaN = func(t *flow.Rule) bool { return !math.IsNaN(t.Threshold) }
	m.StatKey = func(t *flow.Rule) string {
		return fmt.Sprint(t.Resource, "|", t.RelationStrategy, "|", t.RefResource, "|", t.StatIntervalInMs)
	}
	m.Valid = func(t *flow.Rule) bool {
		if t.Resource == "" || math.IsNaN(t.Threshold) || t.Threshold < 0 || t.TokenCalculateStrategy < 0 || t.ControlBehavior < 0 {
			return false
		}
		if t.RelationStrategy != flow.CurrentResource && t.RelationStrategy != flow.AssociatedResource {
			return false
		}
		if t.RelationStrategy == flow.AssociatedResource && t.RefResource == "" {
			return false
		}
		if t.TokenCalculateStrategy == flow.WarmUp && (t.WarmUpPeriodSec == 0 || t.WarmUpColdFactor == 1) {
			return false
		}
		if t.TokenCalculateStrategy == flow.MemoryAdaptive {
			if t.LowMemUsageThreshold <= 0 || t.HighMemUsageThreshold <= 0 || t.HighMemUsageThreshold >= t.LowMemUsageThreshold {
				return false
			}
			if t.MemLowWaterMarkBytes <= 0 || t.MemHighWaterMarkBytes <= 0 || t.MemHighWaterMarkBytes > int64(system_metric.TotalMemorySize) || t.MemLowWaterMarkBytes >= t.MemHighWaterMarkBytes {
				return false
			}
		}
		return true
	}
	m.Buildable = func(t *flow.Rule, res string) bool {
		return t.Resource == res && t.TokenCalculateStrategy <= flow.MemoryAdaptive && t.ControlBehavior <= flow.Throttling
	}
	m.SameNoID = func(a, b *flow.Rule) bool {
		x, y := *a, *b
		x.ID, y.ID = "", ""
		tx, ty := x.Threshold, y.Threshold
		x.Threshold, y.Threshold = 0, 0
		return x == y && feq(tx, ty)
	}
	m.Alphabet = func(r *rng.R, res []string, ref string) []*flow.Rule {
		var al []*flow.Rule
		for _, rs := range res {
			// statistic intervals: default, multiples of the global bucket length (500 ms), and values that are
			// not: inside [500, 10000] (1750, 1250, 9999: one bucket of their own) and outside (333, 20000, 12345)
			iv := uint32(r.PickI(0, 0, 1000, 2000, 3000, 700, 10000, 20000, 1750, 1250, 9999, 333, 12345))
			a := &flow.Rule{Resource: rs, Threshold: r.PickF(1000, 2000, 5000, 1e6), StatIntervalInMs: iv}
			al = append(al, a)
			a2 := *a // statistic-reusable with a, not equal
			a2.Threshold = a.Threshold + r.PickF(1, 7, 1e-9, 5e-9)
			al = append(al, &a2)
			zero := *a // rejects everything
			zero.Threshold = 0
			al = append(al, &zero)
			th := &flow.Rule{Resource: rs, Threshold: r.PickF(1000, 3000), ControlBehavior: flow.Throttling, MaxQueueingTimeMs: uint32(r.PickI(0, 500)), StatIntervalInMs: iv}
			al = append(al, th)
			wu := &flow.Rule{Resource: rs, Threshold: r.PickF(3000, 9000), TokenCalculateStrategy: flow.WarmUp, ControlBehavior: flow.ControlBehavior(r.Intn(2)), WarmUpPeriodSec: uint32(r.PickI(5, 10)), WarmUpColdFactor: uint32(r.PickI(0, 0, 3, 5)), StatIntervalInMs: iv}
			al = append(al, wu)
			ma := &flow.Rule{Resource: rs, TokenCalculateStrategy: flow.MemoryAdaptive, ControlBehavior: flow.ControlBehavior(r.Intn(2)), LowMemUsageThreshold: 5000, HighMemUsageThreshold: 1000, MemLowWaterMarkBytes: 1024, MemHighWaterMarkBytes: 2048, StatIntervalInMs: iv}
			al = append(al, ma)
			// associated-resource rules read the statistics of the referenced resource (rs-ref; the probe
			// sends three requests there first): over the node's statistics (interval 0 / reusable) or
			// over an independent window fed by the referenced resource's admissions (700, 3000, 20000)
			as := &flow.Rule{Resource: rs, Threshold: 4000, RelationStrategy: flow.AssociatedResource, RefResource: rs + "-ref", StatIntervalInMs: uint32(r.PickI(0, 3000))}
			al = append(al, as)
			asx := &flow.Rule{Resource: rs, Threshold: r.PickF(1, 2, 3), RelationStrategy: flow.AssociatedResource, RefResource: rs + "-ref", StatIntervalInMs: uint32(r.PickI(0, 2000, 700, 3000, 20000))}
			al = append(al, asx)
			// invalid in exactly one field; threshold 0 so that it would reject everything if enforced
			bad := []func(*flow.Rule){
				func(x *flow.Rule) { x.Resource = "" },
				func(x *flow.Rule) { x.Threshold = r.PickF(-1, -1e-9, math.Inf(-1)) },
				func(x *flow.Rule) { x.TokenCalculateStrategy = -1 },
				func(x *flow.Rule) { x.ControlBehavior = -2 },
				func(x *flow.Rule) { x.RelationStrategy = flow.RelationStrategy(r.PickI(-1, 2, 7)) },
				func(x *flow.Rule) { x.RelationStrategy = flow.AssociatedResource; x.RefResource = "" },
				func(x *flow.Rule) {
					x.TokenCalculateStrategy = flow.WarmUp
					x.WarmUpPeriodSec = 0
					x.WarmUpColdFactor = 3
				},
				func(x *flow.Rule) {
					x.TokenCalculateStrategy = flow.WarmUp
					x.WarmUpPeriodSec = 5
					x.WarmUpColdFactor = 1
				},
				func(x *flow.Rule) {
					*x = *ma
					switch r.Intn(7) {
					case 0:
						x.LowMemUsageThreshold = 0
					case 1:
						x.HighMemUsageThreshold = -5
					case 2:
						x.HighMemUsageThreshold = x.LowMemUsageThreshold
					case 3:
						x.MemLowWaterMarkBytes = 0
					case 4:
						x.MemHighWaterMarkBytes = 0
					case 5:
						x.MemHighWaterMarkBytes = int64(system_metric.TotalMemorySize) + 1
					default:
						x.MemLowWaterMarkBytes = x.MemHighWaterMarkBytes
					}
				},
			}
			for i := 0; i < 2; i++ {
				b := zero
				bad[r.Intn(len(bad))](&b)
				al = append(al, &b)
			}
			// valid but without generator
			un := zero
			if r.Bool() {
				un.TokenCalculateStrategy = 3
			} else {
				un.ControlBehavior = 2
			}
			al = append(al, &un)
			if r.Chance(1, 6) {
				nan := *a
				nan.Threshold = math.NaN()
				al = append(al, &nan)
			}
		}
		return al
	}
	m.Vary = func(r *rng.R, t *flow.Rule) {
		switch r.Intn(11) {
		case 0:
			t.Threshold += 3
		case 1:
			t.ControlBehavior = flow.Reject + flow.Throttling - t.ControlBehavior
			if t.ControlBehavior != flow.Reject && t.ControlBehavior != flow.Throttling {
				t.ControlBehavior = flow.Reject
			}
		case 2:
			t.MaxQueueingTimeMs += 100
		case 3:
			t.WarmUpPeriodSec += 1
		case 4:
			t.WarmUpColdFactor = t.WarmUpColdFactor%7 + 2
		case 5:
			t.StatIntervalInMs += 1000
		case 6:
			// the Coq cases know three referenced resources: none, the probe's (…-ref), another one
			switch {
			case t.RefResource == "" || strings.HasSuffix(t.RefResource, "-ref"):
				t.RefResource = "other"
			case t.RelationStrategy == flow.AssociatedResource:
				t.RefResource = t.Resource + "-ref"
			default:
				t.RefResource = ""
			}
		case 7:
			t.LowMemUsageThreshold += 1
		case 8:
			if t.HighMemUsageThreshold > 1 {
				t.HighMemUsageThreshold -= 1
			} else {
				t.Threshold += 1
			}
		case 9:
			if t.MemLowWaterMarkBytes+1 < t.MemHighWaterMarkBytes || t.TokenCalculateStrategy != flow.MemoryAdaptive {
				t.MemLowWaterMarkBytes += 1
			} else {
				t.Threshold += 1
			}
		default:
			if t.MemHighWaterMarkBytes+1 <= int64(system_metric.TotalMemorySize) {
				t.MemHighWaterMarkBytes += 1
			} else {
				t.Threshold += 1
			}
		}
	}
	m.Blocks = func(t *flow.Rule) bool {
		// direct calculator: the throttling checker rejects a threshold <= 0; the reject checker rejects
		// iff count+1 > threshold, where the count it reads is 3 for an associated-resource rule on the
		// probe's referenced resource (three requests were just admitted there) and 0 otherwise
		if t.TokenCalculateStrategy == flow.WarmUp {
			return t.Threshold == 0 // no tokens at all: both checkers reject (other warm-up rules of the alphabet have thresholds >= 1000)
		}
		if t.TokenCalculateStrategy != flow.Direct {
			return false // memory-adaptive: the threshold comes from the memory usage, never 0 here
		}
		if t.ControlBehavior == flow.Throttling {
			return t.Threshold <= 0
		}
		cnt := 0.0
		if t.RelationStrategy == flow.AssociatedResource && t.RefResource == t.Resource+"-ref" {
			cnt = 3
		}
		return t.ControlBehavior == flow.Reject && cnt+1 > t.Threshold
	}
	m.Probe = func(res string) (bool, *flow.Rule) {
		Clk.AddMs(2000)
		// scope: loading and clearing rules of ANOTHER resource - the one the associated-resource rules of res
		// refer to - through the per-resource path leaves the rules of res in force and fed as before
		// - in every second case only: any later load rebuilds the index that feeds the independent windows of
		// associated-resource rules, and a per-resource load that left the index stale must stay visible
		if parts := strings.Split(res, "-"); len(parts) >= 2 && tagOf(parts[1])%2 == 1 {
			flow.LoadRulesOfResource(res+"-ref", []*flow.Rule{{ID: "999", Resource: res + "-ref", Threshold: 1e9}})
			flow.ClearRulesOfResource(res + "-ref")
		}
		for i := 0; i < 3; i++ { // traffic on the referenced resource (it has no rules of its own)
			if e, b := sentinel.Entry(res + "-ref"); b == nil {
				e.Exit()
			}
		}
		e, b := sentinel.Entry(res)
		if b != nil {
			if b.BlockType() != base.BlockTypeFlow {
				return true, nil
			}
			if fr, ok := b.TriggeredRule().(*flow.Rule); ok {
				c := *fr
				return true, &c
			}
			return true, nil
		}
		e.Exit()
		return false, nil
	}
	return m
}

// ---------------------------------------------------------------------------------------------
// isolation

func IsoMod() *Mod[isolation.Rule] {
	m := &Mod[isolation.Rule]{Name: "isolation", Ctor: "CIso"}
	m.LoadAll, m.LoadRes, m.GetRes, m.GetAll = isolation.LoadRules, isolation.LoadRulesOfResource, isolation.GetRulesOfResource, isolation.GetRules
	m.ClearAll, m.ClearRes = isolation.ClearRules, isolation.ClearRulesOfResource
	m.Coq = func(t *isolation.Rule, ri func(string) int64) string {
		return fmt.Sprintf("{| i_tag := %s; i_res := %d; i_metric := %s; i_thr := %d |}", emit.Z(tagOf(t.ID)), ri(t.Resource), emit.Z(int64(t.MetricType)), t.Threshold)
	}
	m.Tag = func(t *isolation.Rule) int64 { return tagOf(t.ID) }
	m.ResOf = func(t *isolation.Rule) string { return t.Resource }
	m.SetID = func(t *isolation.Rule, id string) { t.ID = id }
	m.Clone = func(t *isolation.Rule) *isolation.Rule { c := *t; return &c }
	m.NoNaN = func(t *isolation.Rule) bool { return true }
	m.Valid = func(t *isolation.Rule) bool {
		return t.Resource != "" && t.MetricType == isolation.Concurrency && t.Threshold != 0
	}
	// isolation keeps whatever valid rule is loaded for a resource, whatever its Resource field says
	m.Buildable = func(t *isolation.Rule, res string) bool { return true }
	m.SameNoID = func(a, b *isolation.Rule) bool { x, y := *a, *b; x.ID, y.ID = "", ""; return x == y }
	m.Alphabet = func(r *rng.R, res []string, ref string) []*isolation.Rule {
		var al []*isolation.Rule
		for _, rs := range res {
			al = append(al, &isolation.Rule{Resource: rs, Threshold: uint32(r.PickI(100, 1000, 4294967295))})
			al = append(al, &isolation.Rule{Resource: rs, Threshold: uint32(r.PickI(1, 2, 4))}) // rejects a batch of 5
			al = append(al, &isolation.Rule{Resource: rs, Threshold: 500})
			al = append(al, &isolation.Rule{Resource: rs, Threshold: 0})
			al = append(al, &isolation.Rule{Resource: rs, Threshold: 1, MetricType: isolation.MetricType(r.PickI(1, -1, 7))})
			al = append(al, &isolation.Rule{Resource: "", Threshold: 1})
		}
		return al
	}
	m.Vary = func(r *rng.R, t *isolation.Rule) { t.Threshold = t.Threshold%1000 + 1 }
	m.Blocks = func(t *isolation.Rule) bool { return t.Threshold < 5 }
	m.Probe = func(res string) (bool, *isolation.Rule) {
		e, b := sentinel.Entry(res, sentinel.WithBatchCount(5))
		if b != nil {
			if ir, ok := b.TriggeredRule().(*isolation.Rule); ok && b.BlockType() == base.BlockTypeIsolation {
				c := *ir
				return true, &c
			}
			return true, nil
		}
		e.Exit()
		return false, nil
	}
	return m
}

// ---------------------------------------------------------------------------------------------
// hotspot

func itemsCoq(mp map[interface{}]int64) string {
	if mp == nil {
		return "None"
	}
	type kv struct{ k, v int64 }
	var l []kv
	for k, v := range mp {
		ki, _ := k.(int)
		l = append(l, kv{int64(ki), v})
	}
	for i := range l {
		for j := i + 1; j < len(l); j++ {
			if l[j].k < l[i].k {
				l[i], l[j] = l[j], l[i]
			}
		}
	}
	var it []string
	for _, e := range l {
		it = append(it, emit.Tuple(emit.Z(e.k), emit.Z(e.v)))
	}
	return "(Some " + emit.List(it) + ")"
}

func itemsEq(a, b map[interface{}]int64) bool {
	if (a == nil) != (b == nil) || len(a) != len(b) {
		return false
	}
	for k, v := range a {
		if w, ok := b[k]; !ok || w != v {
			return false
		}
	}
	return true
}

func HotMod() *Mod[hotspot.Rule] {
	m := &Mod[hotspot.Rule]{Name: "hotspot", Ctor: "CHot"}
	m.LoadAll, m.LoadRes, m.GetRes, m.GetAll = hotspot.LoadRules, hotspot.LoadRulesOfResource, hotspot.GetRulesOfResource, hotspot.GetRules
	m.ClearAll, m.ClearRes = hotspot.ClearRules, hotspot.ClearRulesOfResource
	m.Ctrls = func(res string) []CtrlObs[hotspot.Rule] {
		var r []CtrlObs[hotspot.Rule]
		for _, c := range hotspot.VerifRuleControllers(res) {
			r = append(r, CtrlObs[hotspot.Rule]{c.Rule, c.Ctrl, c.Stat})
		}
		return r
	}
	m.Coq = func(t *hotspot.Rule, ri func(string) int64) string {
		pk := int64(0)
		if t.ParamKey != "" {
			pk = 1
		}
		return fmt.Sprintf("{| h_tag := %s; h_res := %d; h_metric := %s; h_cb := %s; h_pidx := %s; h_pkey := %d; h_thr := %s; h_maxq := %s; h_burst := %s; h_dur := %s; h_cap := %s; h_items := %s |}",
			emit.Z(tagOf(t.ID)), ri(t.Resource), emit.Z(int64(t.MetricType)), emit.Z(int64(t.ControlBehavior)), emit.Z(int64(t.ParamIndex)), pk,
			emit.Z(t.Threshold), emit.Z(t.MaxQueueingTimeMs), emit.Z(t.BurstCount), emit.Z(t.DurationInSec), emit.Z(t.ParamsMaxCapacity), itemsCoq(t.SpecificItems))
	}
	m.Tag = func(t *hotspot.Rule) int64 { return tagOf(t.ID) }
	m.ResOf = func(t *hotspot.Rule) string { return t.Resource }
	m.SetID = func(t *hotspot.Rule, id string) { t.ID = id }
	m.Clone = func(t *hotspot.Rule) *hotspot.Rule {
		c := *t
		if t.SpecificItems != nil {
			c.SpecificItems = map[interface{}]int64{}
			for k, v := range t.SpecificItems {
				c.SpecificItems[k] = v
			}
		}
		return &c
	}
	m.NoNaN = func(t *hotspot.Rule) bool { return true }
	m.StatKey = func(t *hotspot.Rule) string {
		return fmt.Sprint(t.Resource, "|", t.ControlBehavior, "|", t.ParamsMaxCapacity, "|", t.DurationInSec, "|", t.MetricType)
	}
	m.Valid = func(t *hotspot.Rule) bool {
		if t.Resource == "" || t.Threshold < 0 || t.MetricType < 0 || t.ControlBehavior < 0 {
			return false
		}
		if t.MetricType == hotspot.QPS && t.DurationInSec <= 0 {
			return false
		}
		if t.ParamIndex > 0 && t.ParamKey != "" {
			return false
		}
		if t.ControlBehavior == hotspot.Reject && t.BurstCount < 0 {
			return false
		}
		if t.ControlBehavior == hotspot.Throttling && t.MaxQueueingTimeMs < 0 {
			return false
		}
		return true
	}
	m.Buildable = func(t *hotspot.Rule, res string) bool {
		return t.Resource == res && t.ControlBehavior <= hotspot.Throttling && t.MetricType <= hotspot.QPS
	}
	m.SameNoID = func(a, b *hotspot.Rule) bool {
		x, y := *a, *b
		x.ID, y.ID = "", ""
		ok := itemsEq(x.SpecificItems, y.SpecificItems)
		x.SpecificItems, y.SpecificItems = nil, nil
		// a field that has no meaning for the rule's control behaviour is not part of the rule
		if x.ControlBehavior == hotspot.Reject {
			x.MaxQueueingTimeMs, y.MaxQueueingTimeMs = 0, 0
		} else if x.ControlBehavior == hotspot.Throttling {
			x.BurstCount, y.BurstCount = 0, 0
		}
		return ok && fmt.Sprint(x) == fmt.Sprint(y)
	}
	m.Alphabet = func(r *rng.R, res []string, ref string) []*hotspot.Rule {
		var al []*hotspot.Rule
		for _, rs := range res {
			var items map[interface{}]int64
			switch r.Intn(3) {
			case 1:
				items = map[interface{}]int64{}
			case 2:
				items = map[interface{}]int64{7: 3, 9: 100}
			}
			a := &hotspot.Rule{Resource: rs, MetricType: hotspot.QPS, ControlBehavior: hotspot.Reject, ParamIndex: int(r.PickI(0, 1, -1)), Threshold: r.PickI(5, 100), BurstCount: r.PickI(0, 2), DurationInSec: r.PickI(1, 2), ParamsMaxCapacity: r.PickI(0, 100), SpecificItems: items}
			al = append(al, a)
			a2 := *a // statistic-reusable, not equal
			a2.Threshold = a.Threshold + 1
			al = append(al, &a2)
			a3 := *a // differs only in a field Equals ignores for Reject
			a3.MaxQueueingTimeMs = 5
			al = append(al, &a3)
			th := &hotspot.Rule{Resource: rs, MetricType: hotspot.QPS, ControlBehavior: hotspot.Throttling, ParamKey: "k", Threshold: r.PickI(10, 50), MaxQueueingTimeMs: r.PickI(0, 20), DurationInSec: 1}
			al = append(al, th)
			cc := &hotspot.Rule{Resource: rs, MetricType: hotspot.Concurrency, ControlBehavior: hotspot.ControlBehavior(r.Intn(2)), Threshold: r.PickI(1, 8), ParamsMaxCapacity: r.PickI(0, 50), SpecificItems: items}
			al = append(al, cc)
			bad := []func(*hotspot.Rule){
				func(x *hotspot.Rule) { x.Resource = "" },
				func(x *hotspot.Rule) { x.Threshold = -1 },
				func(x *hotspot.Rule) { x.MetricType = -1 },
				func(x *hotspot.Rule) { x.ControlBehavior = -1 },
				func(x *hotspot.Rule) { x.MetricType = hotspot.QPS; x.DurationInSec = r.PickI(0, -3) },
				func(x *hotspot.Rule) { x.ParamIndex = 2; x.ParamKey = "k" },
				func(x *hotspot.Rule) { x.ControlBehavior = hotspot.Reject; x.BurstCount = -1 },
				func(x *hotspot.Rule) { x.ControlBehavior = hotspot.Throttling; x.MaxQueueingTimeMs = -1 },
			}
			// threshold 0: rejects every request that carries the parameter
			zero := *a
			zero.Threshold = 0
			if r.Chance(1, 3) {
				zero.ControlBehavior, zero.BurstCount = hotspot.Throttling, 0
			}
			if r.Chance(1, 4) {
				zero.MetricType, zero.DurationInSec = hotspot.Concurrency, 0
			}
			al = append(al, &zero)
			for i := 0; i < 2; i++ {
				b := zero // would reject the probe if it were enforced
				bad[r.Intn(len(bad))](&b)
				al = append(al, &b)
			}
			un := zero
			if r.Bool() {
				un.ControlBehavior = 2
			} else {
				un.MetricType = 2
			}
			al = append(al, &un)
		}
		return al
	}
	// the probe carries two arguments and the attachment "k", none of them a specific item, so every
	// rule with a param key or a param index in -2..1 finds its parameter; such a rule rejects the first
	// request of a value iff its threshold is 0
	m.Vary = func(r *rng.R, t *hotspot.Rule) {
		switch r.Intn(10) {
		case 0:
			t.Threshold += 1
		case 1:
			if t.DurationInSec > 0 {
				t.MetricType = hotspot.Concurrency + hotspot.QPS - t.MetricType
			} else {
				t.Threshold += 2
			}
		case 2:
			if t.ControlBehavior == hotspot.Reject {
				t.ControlBehavior = hotspot.Throttling
			} else {
				t.ControlBehavior = hotspot.Reject
			}
		case 3:
			if t.ParamKey == "" {
				t.ParamIndex = (t.ParamIndex+2)%3 - 1 // stays within the probe's two arguments
			} else {
				t.Threshold += 3
			}
		case 4:
			if t.ParamKey == "" && t.ParamIndex <= 0 {
				t.ParamKey = "k"
			} else if t.ParamKey != "" {
				t.ParamKey = ""
			} else {
				t.Threshold += 4
			}
		case 5:
			t.MaxQueueingTimeMs += 7
		case 6:
			t.BurstCount += 1
		case 7:
			t.DurationInSec += 1
		case 8:
			t.ParamsMaxCapacity += 10
		default:
			ni := map[interface{}]int64{5: 1}
			for k, v := range t.SpecificItems {
				ni[k] = v
			}
			if _, ok := t.SpecificItems[5]; ok {
				delete(ni, 5)
				if len(ni) == 0 && t.SpecificItems != nil {
					ni[6] = 2
				}
			}
			t.SpecificItems = ni
		}
	}
	m.Blocks = func(t *hotspot.Rule) bool {
		return t.Threshold == 0 && (t.ParamKey != "" || (t.ParamIndex >= -2 && t.ParamIndex <= 1))
	}
	m.Probe = func(res string) (bool, *hotspot.Rule) {
		Clk.AddMs(5000)
		e, b := sentinel.Entry(res, sentinel.WithArgs(11, 11), sentinel.WithAttachments(map[interface{}]interface{}{"k": 11}))
		if b != nil {
			if hr, ok := b.TriggeredRule().(*hotspot.Rule); ok && b.BlockType() == base.BlockTypeHotSpotParamFlow {
				c := *hr
				return true, &c
			}
			return true, nil
		}
		e.Exit()
		return false, nil
	}
	return m
}

// ---------------------------------------------------------------------------------------------
// circuit breaker

func BrkCoq(t *cb.Rule, ri func(string) int64) string {
	return fmt.Sprintf("{| b_tag := %s; b_res := %d; b_strategy := %d; b_retry := %d; b_minreq := %d; b_interval := %d; b_buckets := %d; b_maxrt := %d; b_thr := %s; b_probe := %d |}",
		emit.Z(tagOf(t.Id)), ri(t.Resource), uint32(t.Strategy), t.RetryTimeoutMs, t.MinRequestAmount, t.StatIntervalMs, t.StatSlidingWindowBucketCount, t.MaxAllowedRtMs, emit.F(t.Threshold), t.ProbeNum)
}

func BrkValid(t *cb.Rule) bool {
	if t.Resource == "" || t.StatIntervalMs == 0 || t.RetryTimeoutMs == 0 || math.IsNaN(t.Threshold) || t.Threshold < 0 {
		return false
	}
	if (t.Strategy == cb.SlowRequestRatio || t.Strategy == cb.ErrorRatio) && t.Threshold > 1 {
		return false
	}
	return true
}

func BrkAlphabet(r *rng.R, res []string) []*cb.Rule {
	var al []*cb.Rule
	for _, rs := range res {
		iv := uint32(r.PickI(1000, 2000, 10000))
		a := &cb.Rule{Resource: rs, Strategy: cb.ErrorCount, RetryTimeoutMs: uint32(r.PickI(1000, 5000)), MinRequestAmount: uint64(r.PickI(1, 5)), StatIntervalMs: iv, StatSlidingWindowBucketCount: uint32(r.PickI(0, 1, 2, 3)), Threshold: r.PickF(1, 5, 20)}
		al = append(al, a)
		a2 := *a // statistic-reusable, not equal
		a2.Threshold = a.Threshold + r.PickF(1, 30, 1e-9)
		al = append(al, &a2)
		a3 := *a // equal as far as the module is concerned (MaxAllowedRtMs is ignored for ErrorCount)
		a3.MaxAllowedRtMs = 77
		al = append(al, &a3)
		er := &cb.Rule{Resource: rs, Strategy: cb.ErrorRatio, RetryTimeoutMs: 3000, MinRequestAmount: 2, StatIntervalMs: iv, Threshold: r.PickF(0, 0.5, 1)}
		al = append(al, er)
		sl := &cb.Rule{Resource: rs, Strategy: cb.SlowRequestRatio, RetryTimeoutMs: 2000, MinRequestAmount: 2, StatIntervalMs: iv, MaxAllowedRtMs: uint64(r.PickI(10, 50)), Threshold: r.PickF(0.2, 0.9), ProbeNum: uint64(r.PickI(0, 3))}
		al = append(al, sl)
		// trips on the first failed request
		trip := &cb.Rule{Resource: rs, Strategy: cb.ErrorCount, RetryTimeoutMs: uint32(r.PickI(1000, 5000)), MinRequestAmount: uint64(r.PickI(0, 1)), StatIntervalMs: iv, StatSlidingWindowBucketCount: a.StatSlidingWindowBucketCount, Threshold: r.PickF(0, 1, 1.5)}
		if r.Chance(1, 3) {
			trip.Strategy, trip.Threshold = cb.ErrorRatio, r.PickF(0, 0.5, 1)
		}
		al = append(al, trip)
		bad := []func(*cb.Rule){
			func(x *cb.Rule) { x.Resource = "" },
			func(x *cb.Rule) { x.StatIntervalMs = 0 },
			func(x *cb.Rule) { x.RetryTimeoutMs = 0 },
			func(x *cb.Rule) { x.Threshold = r.PickF(-1, -1e-9) },
			func(x *cb.Rule) { x.Strategy = cb.SlowRequestRatio; x.Threshold = 1.5 },
			func(x *cb.Rule) { x.Strategy = cb.ErrorRatio; x.Threshold = r.PickF(2, 1.0000001) },
		}
		for i := 0; i < 2; i++ {
			b := *trip // would trip on the probe if it were enforced
			if r.Chance(1, 4) {
				b = *a
			}
			bad[r.Intn(len(bad))](&b)
			al = append(al, &b)
		}
		if r.Chance(1, 2) {
			un := *trip // valid, but no generator for the strategy
			un.Strategy = cb.Strategy(r.PickI(3, 7))
			al = append(al, &un)
		}
		if r.Chance(1, 6) {
			nan := *a
			nan.Threshold = math.NaN()
			nan.MinRequestAmount = 5
			al = append(al, &nan)
		}
	}
	return al
}

// BrkTrips: the breaker of the rule opens on the completion of one failed request with response
// time 0 when nothing else was recorded (read off OnRequestComplete of the three strategies).
func BrkTrips(t *cb.Rule) bool {
	if t.MinRequestAmount > 1 {
		return false
	}
	switch t.Strategy {
	case cb.ErrorCount:
		return t.Threshold < 2 // the threshold is truncated to an integer
	case cb.ErrorRatio:
		return true // ratio 1 >= any valid threshold
	case cb.SlowRequestRatio:
		return math.Abs(t.Threshold) < 1e-8 // slow ratio 0
	}
	return false
}

func BrkMod() *Mod[cb.Rule] {
	m := &Mod[cb.Rule]{Name: "circuitbreaker", Ctor: "CBrk", SeparateReported: true}
	m.LoadAll, m.LoadRes, m.GetRes, m.GetAll = cb.LoadRules, cb.LoadRulesOfResource, cb.GetRulesOfResource, cb.GetRules
	m.ClearAll, m.ClearRes = cb.ClearRules, cb.ClearRulesOfResource
	m.Ctrls = func(res string) []CtrlObs[cb.Rule] {
		var r []CtrlObs[cb.Rule]
		for _, c := range cb.VerifRuleControllers(res) {
			r = append(r, CtrlObs[cb.Rule]{c.Rule, c.Ctrl, c.Stat})
		}
		return r
	}
	m.Coq = BrkCoq
	m.Tag = func(t *cb.Rule) int64 { return tagOf(t.Id) }
	m.ResOf = func(t *cb.Rule) string { return t.Resource }
	m.SetID = func(t *cb.Rule, id string) { t.Id = id }
	m.Clone = func(t *cb.Rule) *cb.Rule { c := *t; return &c }
	m.NoNaN = func(t *cb.Rule) bool { return !math.IsNaN(t.Threshold) }
	m.StatKey = func(t *cb.Rule) string {
		return fmt.Sprint(t.Resource, "|", t.Strategy, "|", t.StatIntervalMs, "|", t.StatSlidingWindowBucketCount)
	}
	m.Valid = BrkValid
	m.Buildable = func(t *cb.Rule, res string) bool { return t.Resource == res && t.Strategy <= cb.ErrorCount }
	m.SameNoID = func(a, b *cb.Rule) bool {
		x, y := *a, *b
		x.Id, y.Id = "", ""
		tx, ty := x.Threshold, y.Threshold
		x.Threshold, y.Threshold = 0, 0
		// MaxAllowedRtMs is not a parameter of the error strategies
		if x.Strategy != cb.SlowRequestRatio {
			x.MaxAllowedRtMs, y.MaxAllowedRtMs = 0, 0
		}
		return x == y && feq(tx, ty)
	}
	m.Alphabet = func(r *rng.R, res []string, ref string) []*cb.Rule { return BrkAlphabet(r, res) }
	m.Vary = func(r *rng.R, t *cb.Rule) {
		switch r.Intn(8) {
		case 0:
			if t.Threshold <= 1 && t.Strategy <= cb.ErrorCount {
				t.Strategy = (t.Strategy + 1) % 3
			} else {
				t.RetryTimeoutMs += 100
			}
		case 1:
			t.RetryTimeoutMs += 500
		case 2:
			t.MinRequestAmount += 1
		case 3:
			t.StatIntervalMs += 1000
		case 4:
			t.StatSlidingWindowBucketCount = (t.StatSlidingWindowBucketCount + 1) % 3
		case 5:
			t.MaxAllowedRtMs += 5
		case 6:
			if t.Strategy == cb.ErrorCount {
				t.Threshold += 1
			} else if t.Threshold+0.05 <= 1 {
				t.Threshold += 0.05
			} else {
				t.Threshold = 0.1
			}
		default:
			t.ProbeNum += 1
		}
	}
	m.Blocks = BrkTrips
	// the probe: one request that fails, then a second one at the same instant — it is rejected iff
	// some breaker in force opened on the first, by the first such breaker in checking order
	m.Probe = func(res string) (bool, *cb.Rule) {
		Clk.AddMs(60000)
		e, b := sentinel.Entry(res)
		if b != nil {
			return true, nil
		}
		sentinel.TraceError(e, errProbe)
		e.Exit()
		e, b = sentinel.Entry(res)
		if b != nil {
			if br, ok := b.TriggeredRule().(*cb.Rule); ok && b.BlockType() == base.BlockTypeCircuitBreaking {
				c := *br
				return true, &c
			}
			return true, nil
		}
		e.Exit()
		return false, nil
	}
	return m
}

var errProbe = fmt.Errorf("probe failure")

var errNoCtrl = fmt.Errorf("the harness-registered generator yields no controller")

// RegisterGenerators registers, once per process, a user generator in each module that has the hook
// (flow: strategy pair 5/4, hotspot: control behaviour 10, circuit breaker: strategy 9) and sets the
// modules' GenRule. The generators run GenAct and yield no controller.
func RegisterGenerators(fm *Mod[flow.Rule], hm *Mod[hotspot.Rule], bm *Mod[cb.Rule]) {
	if err := flow.VerifSetGenerator(5, 4, func(*flow.Rule) error { RunGenAct(); return errNoCtrl }); err != nil {
		panic(err)
	}
	if err := hotspot.SetTrafficShapingGenerator(10, func(*hotspot.Rule, *hotspot.ParamsMetric) hotspot.TrafficShapingController { RunGenAct(); return nil }); err != nil {
		panic(err)
	}
	if err := cb.SetCircuitBreakerGenerator(9, func(*cb.Rule, interface{}) (cb.CircuitBreaker, error) { RunGenAct(); return nil, errNoCtrl }); err != nil {
		panic(err)
	}
	fm.GenRule = func(res string) *flow.Rule {
		return &flow.Rule{Resource: res, TokenCalculateStrategy: 5, ControlBehavior: 4, Threshold: 1e9}
	}
	hm.GenRule = func(res string) *hotspot.Rule {
		return &hotspot.Rule{Resource: res, MetricType: hotspot.QPS, ControlBehavior: 10, Threshold: 1e9, DurationInSec: 1}
	}
	bm.GenRule = func(res string) *cb.Rule {
		return &cb.Rule{Resource: res, Strategy: 9, RetryTimeoutMs: 1000, MinRequestAmount: 1, StatIntervalMs: 1000, Threshold: 1}
	}
}
