//go:build verif

package rulesh

import (
	cb "github.com/alibaba/sentinel-golang/core/circuitbreaker"
	"github.com/alibaba/sentinel-golang/core/config"
	"github.com/alibaba/sentinel-golang/core/flow"
	"github.com/alibaba/sentinel-golang/core/hotspot"
	"github.com/alibaba/sentinel-golang/core/isolation"
	"github.com/alibaba/sentinel-golang/core/system"
	"github.com/alibaba/sentinel-golang/core/system_metric"

	"vh/internal/emit"
)

func countRes(rep *emit.Report, mod string, changed, err, panicked bool) {
	switch {
	case panicked:
		rep.Count(mod+"_result_panicked", 1)
	case err && changed:
		rep.Count(mod+"_result_error_changed", 1)
	case err:
		rep.Count(mod+"_result_error", 1)
	case changed:
		rep.Count(mod+"_result_changed", 1)
	default:
		rep.Count(mod+"_result_unchanged", 1)
	}
}

// CountGeneric records the measured input distribution of one generic case.
func CountGeneric[T any](m *Mod[T], c Case[T], obs []Obs[T], rep *emit.Report) {
	n := m.Name
	rep.Count(n+"_cases", 1)
	for k, o := range c.Ops {
		switch {
		case o.Kind == "all" && len(o.Rules) == 0:
			rep.Count(n+"_op_clear_all", 1)
		case o.Kind == "all":
			rep.Count(n+"_op_load_all", 1)
		case o.Res == 0:
			rep.Count(n+"_op_load_empty_resource_name", 1)
		case len(o.Rules) == 0:
			rep.Count(n+"_op_clear_res", 1)
		default:
			rep.Count(n+"_op_load_res", 1)
		}
		if o.Rep {
			rep.Count(n+"_op_identical_repeat", 1)
		}
		for _, t := range o.Rules {
			switch {
			case t == nil:
				rep.Count(n+"_elem_nil", 1)
			case !m.Valid(t):
				rep.Count(n+"_elem_invalid", 1)
			case o.Kind == "res" && o.Res > 0 && !m.Buildable(t, c.Res[o.Res]):
				rep.Count(n+"_elem_valid_not_buildable", 1)
			default:
				rep.Count(n+"_elem_valid", 1)
			}
		}
		countRes(rep, n, obs[k].Changed, obs[k].Err, obs[k].Panicked)
		for _, sn := range obs[k].Snaps {
			rep.Count(n+"_enforced_rules_observed", len(sn.Enf))
			if k > 0 && obs[k].Changed && m.Ctrls != nil {
				for _, e := range sn.Enf {
					for _, oe := range obs[k-1].Snaps[sn.Res-1].Enf {
						if oe.CtrlKey == e.CtrlKey && sn.Res == o.Res || (oe.CtrlKey == e.CtrlKey && o.Kind == "all") {
							rep.Count(n+"_controller_kept_across_load", 1)
						}
					}
					if e.Stat != nil && *e.Stat != e.ID {
						rep.Count(n+"_statistics_taken_over", 1)
					}
				}
			}
		}
		for _, p := range obs[k].Probes {
			if p.Blocked {
				rep.Count(n+"_probe_blocked", 1)
			} else {
				rep.Count(n+"_probe_passed", 1)
			}
		}
	}
}

func CountSys(c SysCase, obs []SysObs, rep *emit.Report) {
	rep.Count("system_cases", 1)
	for k, o := range c.Ops {
		switch {
		case len(o.Rules) == 0 && o.Nil:
			rep.Count("system_op_load_nil", 1)
		case len(o.Rules) == 0:
			rep.Count("system_op_load_empty", 1)
		default:
			rep.Count("system_op_load", 1)
		}
		if o.Rep {
			rep.Count("system_op_identical_repeat", 1)
		}
		for _, t := range o.Rules {
			switch {
			case t == nil:
				rep.Count("system_elem_nil", 1)
			case !sysValid(t):
				rep.Count("system_elem_invalid", 1)
			default:
				rep.Count("system_elem_valid", 1)
			}
		}
		countRes(rep, "system", obs[k].Changed, obs[k].Err, obs[k].Panicked)
		if obs[k].Probed {
			if obs[k].ProbeBlocked {
				rep.Count("system_probe_blocked", 1)
			} else {
				rep.Count("system_probe_passed", 1)
			}
		}
	}
}

func CountOut(c OutCase, obs []OutObs, rep *emit.Report) {
	rep.Count("outlier_cases", 1)
	for k, o := range c.Ops {
		switch {
		case o.Kind == "all":
			rep.Count("outlier_op_load_all", 1)
		case o.Res == 0:
			rep.Count("outlier_op_load_empty_resource_name", 1)
		case len(o.Rules) == 0:
			rep.Count("outlier_op_clear_res", 1)
		default:
			rep.Count("outlier_op_load_res", 1)
		}
		if o.Rep {
			rep.Count("outlier_op_identical_repeat", 1)
		}
		for _, t := range o.Rules {
			switch {
			case t == nil:
				rep.Count("outlier_elem_nil", 1)
			case !outValid(t):
				rep.Count("outlier_elem_invalid", 1)
			default:
				rep.Count("outlier_elem_valid", 1)
			}
		}
		countRes(rep, "outlier", obs[k].Changed, obs[k].Err, obs[k].Panicked)
	}
}

// Consts records the constants of the implementation the models depend on.
func Consts(rep *emit.Report) {
	rep.Consts["config.GlobalStatisticIntervalMsTotal"] = config.GlobalStatisticIntervalMsTotal()
	rep.Consts["config.GlobalStatisticSampleCountTotal"] = config.GlobalStatisticSampleCountTotal()
	rep.Consts["config.MetricStatisticIntervalMs"] = config.MetricStatisticIntervalMs()
	rep.Consts["system_metric.TotalMemorySize"] = system_metric.TotalMemorySize
	rep.Consts["flow.{Direct,WarmUp,MemoryAdaptive}"] = []int32{int32(flow.Direct), int32(flow.WarmUp), int32(flow.MemoryAdaptive)}
	rep.Consts["flow.{Reject,Throttling}"] = []int32{int32(flow.Reject), int32(flow.Throttling)}
	rep.Consts["flow.{CurrentResource,AssociatedResource}"] = []int32{int32(flow.CurrentResource), int32(flow.AssociatedResource)}
	rep.Consts["isolation.Concurrency"] = int32(isolation.Concurrency)
	rep.Consts["hotspot.{Concurrency,QPS}"] = []int32{int32(hotspot.Concurrency), int32(hotspot.QPS)}
	rep.Consts["hotspot.{Reject,Throttling}"] = []int32{int32(hotspot.Reject), int32(hotspot.Throttling)}
	rep.Consts["circuitbreaker.{SlowRequestRatio,ErrorRatio,ErrorCount}"] = []uint32{uint32(cb.SlowRequestRatio), uint32(cb.ErrorRatio), uint32(cb.ErrorCount)}
	rep.Consts["system.{Load,AvgRT,Concurrency,InboundQPS,CpuUsage,MetricTypeSize}"] = []uint32{uint32(system.Load), uint32(system.AvgRT), uint32(system.Concurrency), uint32(system.InboundQPS), uint32(system.CpuUsage), uint32(system.MetricTypeSize)}
}

// CoqConsts prints the case that compares the enum values the model hard-codes with the packages'.
func CoqConsts(id int) string {
	v := []int64{int64(flow.Direct), int64(flow.WarmUp), int64(flow.MemoryAdaptive), int64(flow.Reject), int64(flow.Throttling),
		int64(flow.CurrentResource), int64(flow.AssociatedResource), int64(isolation.Concurrency),
		int64(hotspot.Concurrency), int64(hotspot.QPS), int64(hotspot.Reject), int64(hotspot.Throttling),
		int64(cb.SlowRequestRatio), int64(cb.ErrorRatio), int64(cb.ErrorCount),
		int64(system.Load), int64(system.AvgRT), int64(system.Concurrency), int64(system.InboundQPS), int64(system.CpuUsage), int64(system.MetricTypeSize)}
	return "CConsts " + emit.Z(int64(id)) + " " + emit.ListZ(v)
}
