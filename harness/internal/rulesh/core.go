//go:build verif

// Package rulesh is the shared machinery of the C13/C14 harnesses: a generic driver over the rule
// managers that keep resource -> controllers (flow, isolation, hotspot, circuit breaker), with
// observation of what is enforced (controller and statistics identities through the verif-tagged
// exports of /repo), an independent property monitor, and the Coq case printer.
package rulesh

import (
	"fmt"
	"sort"
	"strconv"
	"strings"

	"vh/internal/emit"
	"vh/internal/rng"
)

// Cid is the provenance of a controller (or statistics) object: the number of effective loads
// before the one that created it, the resource index, the position in that resource's new list.
type Cid struct{ N, Res, Pos int64 }

func (c Cid) Coq() string { return fmt.Sprintf("(%d, %d, %d)", c.N, c.Res, c.Pos) }

// CtrlObs is one controller in force as seen through the verif export.
type CtrlObs[T any] struct {
	Rule T
	Ctrl interface{}
	Stat interface{} // nil: not attributable (shared / nop statistics)
}

// Mod describes one rule module to the generic driver.
type Mod[T any] struct {
	Name    string
	Ctor    string // Coq case constructor
	LoadAll func([]*T) (bool, error)
	LoadRes func(string, []*T) (bool, error)
	GetRes  func(string) []T
	GetAll  func() []T
	Ctrls   func(res string) []CtrlObs[T] // nil: the module has no controller objects
	Coq     func(t *T, ri func(string) int64) string
	Tag     func(t *T) int64
	ResOf   func(t *T) string
	// monitor side (written independently of the Coq model)
	Valid     func(t *T) bool
	Buildable func(t *T, res string) bool // a controller can exist for it under res
	SameNoID  func(a, b *T) bool          // all fields but the ID equal (thresholds within 1e-8)
	NoNaN     func(t *T) bool
	// the module's own clear functions (thin wrappers over the loaders); exercised at the end of a case
	ClearAll func() error
	ClearRes func(string) error
	// generator
	Alphabet func(r *rng.R, res []string, ref string) []*T // base rules (ID unset)
	// Vary changes exactly one field of t (in place) to another value, keeping the rule valid and
	// buildable where it was: reloading a list with one rule varied must put the varied rule in force
	Vary  func(r *rng.R, t *T)
	SetID func(t *T, id string)
	Clone func(t *T) *T
	// probe: one request on res; returns whether it was blocked and by which rule
	Probe  func(res string) (blocked bool, by *T)
	Blocks func(t *T) bool // the rule rejects the probe request whatever the history
	// StatKey: the statistic parameters of a rule (two rules with equal keys may share statistics)
	StatKey func(t *T) string
	// separate getter map (circuit breaker): getters may report rules without controller
	SeparateReported bool
	Preface          func() string // extra constructor arguments (flow: constants)
	// GenRule (set by RegisterGenerators): a valid rule of a strategy served only by the generator the
	// harness registered through the module's Set...Generator hook; that generator runs GenAct and
	// yields no controller
	GenRule func(res string) *T
}

// GenAct is what the harness-registered generators do when a rebuild calls them (one shot): nothing
// (nil), panic (a failing load), or whatever a binary puts there (vh-c14: requests).
var GenAct func()

// RunGenAct is called by the registered generators.
func RunGenAct() {
	if f := GenAct; f != nil {
		GenAct = nil
		f()
	}
}

type Op[T any] struct {
	Kind  string `json:"kind"` // all | res
	Res   int    `json:"res"`  // index into the case's resources; 0 = "" (per-resource only)
	Rules []*T   `json:"rules"`
	Rep   bool   `json:"repeat_of_previous,omitempty"`
	// Gen: what the harness-registered generator of the custom-strategy rule in Rules does during this
	// load: "" (returns no controller: the rule is ignored), "fail" (panics: the load must report an
	// error and change nothing), "traffic" (issues requests from inside the build: a reload in progress)
	Gen string `json:"generator,omitempty"`
}

type Case[T any] struct {
	ID   int      `json:"id"`
	Mod  string   `json:"module"`
	NRes int      `json:"nres"`
	Ops  []Op[T]  `json:"ops"`
	Res  []string `json:"resources"`
}

type Snap[T any] struct {
	Res int
	Get []T
	Enf []EnfObs[T]
}
type EnfObs[T any] struct {
	Rule    T
	ID      Cid
	Stat    *Cid
	CtrlKey interface{} `json:"-"`
}
type Obs[T any] struct {
	Changed, Err, Panicked bool
	ErrText                string
	Snaps                  []Snap[T]
	All                    []T
	Probes                 []ProbeObs[T] `json:",omitempty"`
	// ObsFault: a getter or the controller export panicked while the state after this operation was
	// being observed (the code under test must never crash the harness: the panic is caught and
	// reported by the monitor together with the operation sequence)
	ObsFault string `json:",omitempty"`
	// ClearFault: what went wrong when the case was wound up through ClearRulesOfResource (one
	// resource after the other) and ClearRules; empty = every clear emptied exactly its scope
	ClearFault string `json:",omitempty"`
}
type ProbeObs[T any] struct {
	Res     int
	Blocked bool
	By      *T
	Fault   string `json:",omitempty"` // the probe request panicked inside the code under test
}

// guard runs f and returns the text of a panic of the code under test ("" if none).
func guard(what string, f func()) (fault string) {
	defer func() {
		if x := recover(); x != nil {
			fault = fmt.Sprintf("%s panicked: %v", what, x)
		}
	}()
	f()
	return ""
}

func ResName(prefix string, id, i int) string {
	if i == 0 {
		return ""
	}
	return prefix + "-" + strconv.Itoa(id) + "-" + strconv.Itoa(i)
}

// GenCase draws a history: a small alphabet of base rules per case (valid, statistic-reusable
// variants, invalid in one field, unsupported, mis-addressed), operations drawing from it with
// fresh objects and fresh IDs, nil elements, duplicates, identical repeats, clears.
func GenCase[T any](m *Mod[T], r *rng.R, prefix string, id int, reuseHeavy bool) Case[T] {
	c := Case[T]{ID: id, Mod: m.Name}
	c.NRes = 1 + r.Intn(3)
	if reuseHeavy {
		c.NRes = 1 + r.Intn(2)
	}
	c.Res = []string{""}
	for i := 1; i <= c.NRes; i++ {
		c.Res = append(c.Res, ResName(prefix, id, i))
	}
	alpha := m.Alphabet(r, c.Res[1:], prefix+"-"+strconv.Itoa(id)+"-ref")
	nops := 3 + r.Intn(5)
	for k := 0; k < nops; k++ {
		if k > 0 && c.Ops[k-1].Gen != "fail" && r.Chance(3, 20) {
			// identical reload: same arguments, freshly allocated objects
			prev := c.Ops[k-1]
			o := Op[T]{Kind: prev.Kind, Res: prev.Res, Rep: true}
			for _, t := range prev.Rules {
				if t == nil {
					o.Rules = append(o.Rules, nil)
				} else {
					o.Rules = append(o.Rules, m.Clone(t))
				}
			}
			c.Ops = append(c.Ops, o)
			continue
		}
		if k > 0 && m.Vary != nil && r.Chance(3, 20) {
			// the previous arguments again (fresh objects, fresh IDs) with one field of one rule changed
			prev := c.Ops[k-1]
			o := Op[T]{Kind: prev.Kind, Res: prev.Res}
			var idx []int
			for j, t := range prev.Rules {
				if t == nil {
					o.Rules = append(o.Rules, nil)
					continue
				}
				t2 := m.Clone(t)
				m.SetID(t2, strconv.Itoa(k*100+j+1))
				o.Rules = append(o.Rules, t2)
				idx = append(idx, j)
			}
			if len(idx) > 0 {
				m.Vary(r, o.Rules[idx[r.Intn(len(idx))]])
				c.Ops = append(c.Ops, o)
				continue
			}
		}
		var o Op[T]
		x := r.Intn(20)
		switch {
		case x < 8:
			o.Kind = "all"
		case x < 9:
			o.Kind = "all" // clear all
			c.Ops = append(c.Ops, o)
			continue
		case x < 17:
			o.Kind, o.Res = "res", 1+r.Intn(c.NRes)
		case x < 19:
			o.Kind, o.Res = "res", 1+r.Intn(c.NRes) // clear res
			c.Ops = append(c.Ops, o)
			continue
		default:
			o.Kind, o.Res = "res", 0 // empty resource name
		}
		n := r.Intn(5)
		if reuseHeavy {
			n = 1 + r.Intn(4)
		}
		for j := 0; j < n; j++ {
			if r.Chance(1, 10) {
				o.Rules = append(o.Rules, nil)
				continue
			}
			var base *T
			if o.Kind == "res" && o.Res > 0 && r.Chance(9, 10) {
				// mostly rules addressed to the resource being loaded
				var cand []*T
				for _, a := range alpha {
					if m.ResOf(a) == c.Res[o.Res] {
						cand = append(cand, a)
					}
				}
				if len(cand) > 0 {
					base = cand[r.Intn(len(cand))]
				}
			}
			if base == nil {
				base = alpha[r.Intn(len(alpha))]
			}
			t := m.Clone(base)
			m.SetID(t, strconv.Itoa(k*100+j+1))
			o.Rules = append(o.Rules, t)
		}
		if m.GenRule != nil && (o.Kind == "all" || o.Res > 0) && r.Chance(1, 6) {
			// a rule served by the harness-registered generator, which yields no controller or panics
			// (the load then reports an error and must leave everything as it was)
			gres := o.Res
			if o.Kind == "all" {
				gres = 1 + r.Intn(c.NRes)
			}
			g := m.GenRule(c.Res[gres])
			m.SetID(g, strconv.Itoa(k*100+90))
			at := r.Intn(len(o.Rules) + 1)
			o.Rules = append(o.Rules[:at], append([]*T{g}, o.Rules[at:]...)...)
			o.Gen = "ignored"
			if r.Chance(2, 3) {
				o.Gen = "fail"
			}
		}
		c.Ops = append(c.Ops, o)
	}
	return c
}

// Run executes the case on the implementation.
func Run[T any](m *Mod[T], c Case[T], probe bool) []Obs[T] { return RunHooked(m, c, probe, nil) }

// RunHooked is Run with a callback after every operation (and its observation): the C14 harness
// sends traffic there.
func RunHooked[T any](m *Mod[T], c Case[T], probe bool, after func(k int)) []Obs[T] {
	return RunHooked2(m, c, probe, nil, after)
}

// RunHooked2 also calls before(k) immediately before operation k.
func RunHooked2[T any](m *Mod[T], c Case[T], probe bool, before, after func(k int)) []Obs[T] {
	ctrlProv := map[interface{}]Cid{}
	statProv := map[interface{}]Cid{}
	eff := int64(0)
	var out []Obs[T]
	for k, o := range c.Ops {
		var ob Obs[T]
		GenAct = nil
		if o.Gen == "fail" {
			GenAct = func() { panic("generator failure injected by the harness") }
		}
		if before != nil {
			before(k)
		}
		func() {
			defer func() {
				if x := recover(); x != nil {
					ob.Panicked = true
					ob.ErrText = fmt.Sprint(x)
				}
			}()
			// callers pass freshly allocated objects: clone again so that the case keeps its own copy
			var arg []*T
			for _, t := range o.Rules {
				if t == nil {
					arg = append(arg, nil)
				} else {
					arg = append(arg, m.Clone(t))
				}
			}
			var ch bool
			var err error
			if o.Kind == "all" {
				ch, err = m.LoadAll(arg)
			} else {
				ch, err = m.LoadRes(c.Res[o.Res], arg)
			}
			ob.Changed, ob.Err = ch, err != nil
			if err != nil {
				ob.ErrText = err.Error()
			}
		}()
		for i := 1; i <= c.NRes; i++ {
			sn := Snap[T]{Res: i}
			if f := guard(fmt.Sprintf("GetRulesOfResource(res %d)", i), func() { sn.Get = m.GetRes(c.Res[i]) }); f != "" && ob.ObsFault == "" {
				ob.ObsFault = f
			}
			if m.Ctrls != nil {
				var cos []CtrlObs[T]
				if f := guard(fmt.Sprintf("reading the controllers in force of res %d", i), func() { cos = m.Ctrls(c.Res[i]) }); f != "" && ob.ObsFault == "" {
					ob.ObsFault = f
				}
				for pos, co := range cos {
					e := EnfObs[T]{Rule: co.Rule, CtrlKey: co.Ctrl}
					id, ok := ctrlProv[co.Ctrl]
					if !ok {
						id = Cid{eff, int64(i), int64(pos)}
						ctrlProv[co.Ctrl] = id
					}
					e.ID = id
					if co.Stat != nil {
						sid, ok := statProv[co.Stat]
						if !ok {
							sid = id
							statProv[co.Stat] = sid
						}
						e.Stat = &sid
					}
					sn.Enf = append(sn.Enf, e)
				}
			} else {
				for _, t := range sn.Get {
					sn.Enf = append(sn.Enf, EnfObs[T]{Rule: t})
				}
			}
			ob.Snaps = append(ob.Snaps, sn)
		}
		// GetRules, by tag (the managers are emptied between cases)
		if f := guard("GetRules", func() { ob.All = m.GetAll() }); f != "" && ob.ObsFault == "" {
			ob.ObsFault = f
		}
		sort.SliceStable(ob.All, func(a, b int) bool { return m.Tag(&ob.All[a]) < m.Tag(&ob.All[b]) })
		if ob.Changed && !ob.Err && !ob.Panicked {
			eff++
		}
		GenAct = nil
		out = append(out, ob)
		if after != nil {
			after(k)
		}
	}
	if probe && m.Probe != nil {
		last := &out[len(out)-1]
		for i := 1; i <= c.NRes; i++ {
			p := ProbeObs[T]{Res: i}
			p.Fault = guard(fmt.Sprintf("the probe request on res %d", i), func() { p.Blocked, p.By = m.Probe(c.Res[i]) })
			last.Probes = append(last.Probes, p)
		}
	}
	// wind up through the module's clear functions: ClearRulesOfResource empties exactly its resource,
	// ClearRules everything; this also leaves the process-global managers empty for the next case
	if m.ClearRes != nil && m.ClearAll != nil && len(out) > 0 {
		last := &out[len(out)-1]
		func() {
			defer func() {
				if x := recover(); x != nil {
					last.ClearFault = fmt.Sprint("clear panicked: ", x)
				}
			}()
			count := func(i int) int {
				n := len(m.GetRes(c.Res[i]))
				if m.Ctrls != nil {
					n += len(m.Ctrls(c.Res[i]))
				}
				return n
			}
			for i := 1; i <= c.NRes; i++ {
				before := make([]int, c.NRes+1)
				for j := 1; j <= c.NRes; j++ {
					before[j] = count(j)
				}
				if err := m.ClearRes(c.Res[i]); err != nil && last.ClearFault == "" {
					last.ClearFault = fmt.Sprintf("ClearRulesOfResource(res %d) returned an error: %v", i, err)
				}
				for j := 1; j <= c.NRes; j++ {
					switch {
					case j <= i && count(j) != 0 && last.ClearFault == "":
						last.ClearFault = fmt.Sprintf("after ClearRulesOfResource(res %d) resource %d still has %d rules/controllers", i, j, count(j))
					case j > i && count(j) != before[j] && last.ClearFault == "":
						last.ClearFault = fmt.Sprintf("ClearRulesOfResource(res %d) changed resource %d", i, j)
					}
				}
			}
			if c.NRes > 0 {
				// something to clear again for ClearRules
				m.LoadRes(c.Res[1], lastNonEmpty(c))
			}
			if err := m.ClearAll(); err != nil && last.ClearFault == "" {
				last.ClearFault = fmt.Sprintf("ClearRules returned an error: %v", err)
			}
			if n := len(m.GetAll()); n != 0 && last.ClearFault == "" {
				last.ClearFault = fmt.Sprintf("after ClearRules GetRules still reports %d rules", n)
			}
			for j := 1; j <= c.NRes; j++ {
				if count(j) != 0 && last.ClearFault == "" {
					last.ClearFault = fmt.Sprintf("after ClearRules resource %d still has %d rules/controllers", j, count(j))
				}
			}
		}()
	}
	func() {
		defer func() { recover() }()
		m.LoadAll(nil)
	}()
	return out
}

// lastNonEmpty returns fresh copies of the rules of the last non-empty load of the case (any list).
func lastNonEmpty[T any](c Case[T]) []*T {
	for k := len(c.Ops) - 1; k >= 0; k-- {
		if len(c.Ops[k].Rules) > 0 {
			return c.Ops[k].Rules
		}
	}
	return nil
}

// CoqCase prints the case with the implementation's observations.
func CoqCase[T any](m *Mod[T], c Case[T], obs []Obs[T]) string {
	ri := resIndex(c.Res)
	rl := func(ts []*T) string {
		var it []string
		for _, t := range ts {
			if t == nil {
				it = append(it, "None")
			} else {
				it = append(it, "Some "+m.Coq(t, ri))
			}
		}
		return emit.List(it)
	}
	var ops, os_ []string
	for k, o := range c.Ops {
		if o.Gen == "fail" && obs[k].Err && !obs[k].Panicked {
			// a load that failed because the harness-registered generator panicked: the model has no
			// such operation (a failed load is no operation at all; that it changed nothing is the
			// monitor's clause failed-load-changed-state, and the next snapshot is compared as usual)
			continue
		}
		if o.Kind == "all" {
			ops = append(ops, "LoadAll "+rl(o.Rules))
		} else {
			ops = append(ops, fmt.Sprintf("LoadRes %d %s", o.Res, rl(o.Rules)))
		}
		ob := obs[k]
		var snaps []string
		for _, sn := range ob.Snaps {
			var g, e []string
			for i := range sn.Get {
				g = append(g, m.Coq(&sn.Get[i], ri))
			}
			for i := range sn.Enf {
				st := "None"
				if sn.Enf[i].Stat != nil {
					st = "Some " + sn.Enf[i].Stat.Coq()
				}
				e = append(e, emit.Tuple(m.Coq(&sn.Enf[i].Rule, ri), sn.Enf[i].ID.Coq(), st))
			}
			snaps = append(snaps, emit.Tuple(emit.Z(int64(sn.Res)), emit.List(g), emit.List(e)))
		}
		var all []string
		for i := range ob.All {
			all = append(all, m.Coq(&ob.All[i], ri))
		}
		os_ = append(os_, emit.Tuple(emit.Tuple(emit.B(ob.Changed), emit.B(ob.Err), emit.B(ob.Panicked)), emit.List(snaps), emit.List(all)))
	}
	pre := ""
	if m.Preface != nil {
		pre = m.Preface() + " "
	}
	// probes (after the last operation): resource, tag of the rule that rejected the request
	var prs []string
	if len(obs) > 0 {
		for _, p := range obs[len(obs)-1].Probes {
			who := "None"
			if p.Blocked {
				who = "(Some (-99))" // rejected, but not by a rule of this module
				if p.By != nil {
					who = "(Some " + emit.Z(m.Tag(p.By)) + ")"
				}
			}
			prs = append(prs, emit.Tuple(emit.Z(int64(p.Res)), who))
		}
	}
	return fmt.Sprintf("%s %d %s%s %s %s", m.Ctor, c.ID, pre, emit.List(ops), emit.List(os_), emit.List(prs))
}

// Monitor states C13 directly on the implementation's observations, with its own ledger.
func Monitor[T any](m *Mod[T], c Case[T], obs []Obs[T], rep *emit.Report) (nontrivial bool) {
	expected := make([][]*T, c.NRes+1) // per resource: valid, buildable rules of the latest effective load
	fail := func(clause, sig, detail string) { rep.Fail(c.ID, clause, sig, m.Name+": "+detail, InputOf(m, c)) }
	sawInvalid, sawReuse, sawUnchanged := false, false, false
	for k, o := range c.Ops {
		ob := obs[k]
		if ob.Panicked {
			fail("C13_no_panic", "load-panicked", fmt.Sprintf("op %d panicked: %s", k, ob.ErrText))
			return
		}
		if ob.ObsFault != "" {
			// e.g. a nil element of an unfiltered list in force: the getter dereferences it
			fail("C13_getters_eq_enforced", "getter-panicked", fmt.Sprintf("after op %d: %s", k, ob.ObsFault))
			return
		}
		nan := false
		for _, t := range o.Rules {
			if t != nil && !m.NoNaN(t) {
				nan = true
			}
			if t == nil || !m.Valid(t) {
				sawInvalid = true
			}
		}
		// identical reload reports unchanged
		if o.Rep && nan && ob.Changed && (o.Kind == "all" || o.Res > 0) {
			// known finding: a NaN threshold passes IsValidRule but is never equal to itself
			fail("C13_identical_reload_unchanged", "nan-threshold-identical-reload-reports-changed", fmt.Sprintf("op %d repeats op %d (a rule has a NaN threshold) and returned changed", k, k-1))
		}
		if o.Rep && !nan && (o.Kind == "all" || o.Res > 0) {
			sawUnchanged = true
			if ob.Changed || ob.Err {
				fail("C13_identical_reload_unchanged", "identical-reload-reports-changed", fmt.Sprintf("op %d repeats op %d with equal rules but returned changed=%v err=%v", k, k-1, ob.Changed, ob.Err))
				return
			}
		}
		if o.Kind == "res" && o.Res == 0 {
			if ob.Changed || !ob.Err {
				fail("C13_empty_resource", "empty-resource-accepted", fmt.Sprintf("op %d: LoadRulesOfResource(\"\") returned changed=%v err=%v", k, ob.Changed, ob.Err))
				return
			}
		}
		if !ob.Err {
			// the ledger follows the arguments of every load that did not fail, also of one that
			// reported 'unchanged': then the arguments equal the cached ones, so the same rules must
			// be in force (a wrong 'unchanged' shows up as enforced != valid(latest))
			filt := func(res int, only bool) []*T {
				var v []*T
				for _, t := range o.Rules {
					if t == nil || !m.Valid(t) {
						continue
					}
					if only && m.ResOf(t) != c.Res[res] {
						continue
					}
					if !m.Buildable(t, c.Res[res]) {
						continue
					}
					v = append(v, t)
				}
				return v
			}
			if o.Kind == "all" {
				for i := 1; i <= c.NRes; i++ {
					expected[i] = filt(i, true)
				}
			} else {
				expected[o.Res] = filt(o.Res, false)
			}
		}
		if ob.Err && o.Gen == "fail" && k > 0 && !sameSnaps(m, obs[k-1].Snaps, ob.Snaps) {
			fail("C13_unchanged_noop", "failed-load-changed-state", fmt.Sprintf("op %d failed (the generator of one of its rules panicked) but the enforced / reported rules differ from before", k))
			return
		}
		if !ob.Changed {
			// unchanged (or rejected): the whole observable state must be what it was
			if k > 0 && !sameSnaps(m, obs[k-1].Snaps, ob.Snaps) {
				fail("C13_unchanged_noop", "unchanged-load-changed-state", fmt.Sprintf("op %d returned unchanged but the enforced rules differ from before", k))
				return
			}
		}
		for _, sn := range ob.Snaps {
			exp := expected[sn.Res]
			// enforced = valid rules of the latest load, in order
			if len(sn.Enf) != len(exp) {
				fail("C13_enforced_eq_valid_latest", "enforced-differs-from-valid-latest", fmt.Sprintf("op %d res %d: %d rules enforced, %d valid rules in the latest load", k, sn.Res, len(sn.Enf), len(exp)))
				return
			}
			for i := range exp {
				if !m.SameNoID(&sn.Enf[i].Rule, exp[i]) {
					fail("C13_enforced_eq_valid_latest", "enforced-differs-from-valid-latest", fmt.Sprintf("op %d res %d: enforced rule %d is %v, expected %v", k, sn.Res, i, sn.Enf[i].Rule, *exp[i]))
					return
				}
				if m.Tag(&sn.Enf[i].Rule) != m.Tag(exp[i]) {
					sawReuse = true
				}
			}
			// getters = enforced
			getOK := len(sn.Get) == len(sn.Enf)
			if getOK {
				for i := range sn.Get {
					if !m.SameNoID(&sn.Get[i], &sn.Enf[i].Rule) {
						getOK = false
					}
				}
			}
			if !getOK {
				fail("C13_getters_eq_enforced", "getters-differ-from-enforced", fmt.Sprintf("op %d res %d: getter reports %d rules, %d enforced (or a reported rule differs from the enforced one at its position)", k, sn.Res, len(sn.Get), len(sn.Enf)))
				return
			}
		}
		// scope: a per-resource operation leaves the controllers of other resources untouched
		if o.Kind == "res" && k > 0 {
			for j, sn := range ob.Snaps {
				if sn.Res == o.Res {
					continue
				}
				if !sameSnaps(m, obs[k-1].Snaps[j:j+1], ob.Snaps[j:j+1]) {
					fail("C13_scope", "per-resource-load-touched-other-resource", fmt.Sprintf("op %d on res %d changed res %d", k, o.Res, sn.Res))
					return
				}
			}
		}
		// GetRules = union of the per-resource getters
		n := 0
		for _, sn := range ob.Snaps {
			n += len(sn.Get)
		}
		if n != len(ob.All) {
			fail("C13_getters_eq_enforced", "getrules-differs-from-per-resource-getters", fmt.Sprintf("op %d: GetRules has %d rules of this case, per-resource getters %d", k, len(ob.All), n))
			return
		}
	}
	if len(obs) > 0 && obs[len(obs)-1].ClearFault != "" {
		fail("C13_scope", "clear-did-not-empty-its-scope", obs[len(obs)-1].ClearFault)
		return
	}
	// probes: the request is rejected iff some enforced rule rejects it, by the first such rule;
	// rules that failed validation never decide
	if len(obs) > 0 {
		for _, p := range obs[len(obs)-1].Probes {
			if p.Fault != "" {
				fail("C13_invalid_inert", "request-panicked-in-rule-check", p.Fault)
				return
			}
			var first *T
			for _, t := range expected[p.Res] {
				if m.Blocks(t) {
					first = t
					break
				}
			}
			if (first != nil) != p.Blocked {
				fail("C13_invalid_inert", "probe-decision-differs-from-valid-rules", fmt.Sprintf("probe on res %d: blocked=%v, expected blocked=%v", p.Res, p.Blocked, first != nil))
				return
			}
			if first != nil && (p.By == nil || !m.SameNoID(p.By, first)) {
				fail("C13_invalid_inert", "probe-blocked-by-wrong-rule", fmt.Sprintf("probe on res %d blocked by %v, expected %v", p.Res, p.By, *first))
				return
			}
		}
	}
	return sawInvalid && (sawReuse || sawUnchanged || m.Ctrls == nil)
}

// SameSnaps: the same controller objects serve the same rules (by ID), the getters report the same rules.
func SameSnaps[T any](m *Mod[T], a, b []Snap[T]) bool { return sameSnaps(m, a, b) }

func sameSnaps[T any](m *Mod[T], a, b []Snap[T]) bool {
	if len(a) != len(b) {
		return false
	}
	for i := range a {
		if len(a[i].Enf) != len(b[i].Enf) || len(a[i].Get) != len(b[i].Get) {
			return false
		}
		for j := range a[i].Enf {
			if a[i].Enf[j].CtrlKey != b[i].Enf[j].CtrlKey || m.Tag(&a[i].Enf[j].Rule) != m.Tag(&b[i].Enf[j].Rule) {
				return false
			}
		}
		for j := range a[i].Get {
			if m.Tag(&a[i].Get[j]) != m.Tag(&b[i].Get[j]) {
				return false
			}
		}
	}
	return true
}

// MonitorReuse states C14's structural part on the observations: a rule that is field-for-field
// (ID aside) equal to the k-th such rule enforced before the load is served by the same controller
// object as that one; a new controller for a rule whose statistic parameters equal those of a
// replaced rule's controller may take over that controller's statistics, never another's.
func MonitorReuse[T any](m *Mod[T], c Case[T], obs []Obs[T], rep *emit.Report) (nontrivial bool) {
	statKey := m.StatKey
	fail := func(clause, sig, detail string) { rep.Fail(c.ID, clause, sig, m.Name+": "+detail, InputOf(m, c)) }
	for k := range obs {
		if obs[k].ObsFault != "" {
			fail("C14_unchanged_keeps_controller", "getter-panicked", fmt.Sprintf("after op %d: %s", k, obs[k].ObsFault))
			return
		}
		// statistic reuse is injective: an attributable statistics object serves at most one controller
		// in force (two rebuilt rules never share one window / one set of per-value counters)
		for _, sn := range obs[k].Snaps {
			for i := range sn.Enf {
				for j := i + 1; j < len(sn.Enf); j++ {
					if sn.Enf[i].Stat != nil && sn.Enf[j].Stat != nil && *sn.Enf[i].Stat == *sn.Enf[j].Stat && sn.Enf[i].CtrlKey != sn.Enf[j].CtrlKey {
						fail("C14_stat_reuse", "statistics-shared-by-two-controllers", fmt.Sprintf("after op %d res %d: the controllers at positions %d and %d are built over the same statistics object %v", k, sn.Res, i, j, *sn.Enf[i].Stat))
						return
					}
				}
			}
		}
	}
	for k := 1; k < len(obs); k++ {
		if !obs[k].Changed || obs[k].Err {
			continue
		}
		for j, sn := range obs[k].Snaps {
			old := obs[k-1].Snaps[j].Enf
			used := make([]bool, len(old))
			for i := range sn.Enf {
				// the first not yet used old controller with an equal rule
				want := -1
				for oi := range old {
					if !used[oi] && m.NoNaN(&old[oi].Rule) && m.SameNoID(&old[oi].Rule, &sn.Enf[i].Rule) {
						want = oi
						break
					}
				}
				if want >= 0 {
					used[want] = true
					nontrivial = true
					if old[want].CtrlKey != sn.Enf[i].CtrlKey {
						fail("C14_unchanged_keeps_controller", "unchanged-rule-lost-its-controller", fmt.Sprintf("op %d res %d: rule at position %d equals old rule at %d but is served by another controller", k, sn.Res, i, want))
						return
					}
				}
			}
			// statistics: a new controller's statistics are its own or come from an unused old
			// controller with the same statistic parameters
			for i := range sn.Enf {
				if sn.Enf[i].Stat == nil || sn.Enf[i].ID.N != obs[k].effBefore(obs, k) {
					continue
				}
				if *sn.Enf[i].Stat == sn.Enf[i].ID {
					continue
				}
				ok := false
				for oi := range old {
					if !used[oi] && old[oi].Stat != nil && *old[oi].Stat == *sn.Enf[i].Stat && statKey(&old[oi].Rule) == statKey(&sn.Enf[i].Rule) {
						ok = true
					}
				}
				if !ok {
					fail("C14_stat_reuse", "statistics-taken-from-wrong-controller", fmt.Sprintf("op %d res %d: new controller at %d has statistics %v", k, sn.Res, i, *sn.Enf[i].Stat))
					return
				}
			}
		}
	}
	return
}

func (o Obs[T]) effBefore(all []Obs[T], k int) int64 {
	n := int64(0)
	for i := 0; i < k; i++ {
		if all[i].Changed && !all[i].Err && !all[i].Panicked {
			n++
		}
	}
	return n
}

// FStr prints a float for diagnostics.
func FStr(f float64) string { return strconv.FormatFloat(f, 'g', -1, 64) }

// InputOf renders a case as a JSON-friendly value (rules in the notation of the Coq cases; the
// case itself regenerates from (seed, id)).
func InputOf[T any](m *Mod[T], c Case[T]) interface{} {
	ri := resIndex(c.Res)
	type jop struct {
		Kind   string   `json:"kind"`
		Res    string   `json:"resource,omitempty"`
		Rules  []string `json:"rules"`
		Repeat bool     `json:"identical_repeat_of_previous,omitempty"`
		Gen    string   `json:"harness_generator_does,omitempty"`
	}
	var ops []jop
	for _, o := range c.Ops {
		j := jop{Kind: "LoadRules", Rules: []string{}, Repeat: o.Rep, Gen: o.Gen}
		if o.Kind == "res" {
			j.Kind, j.Res = "LoadRulesOfResource", fmt.Sprintf("%d:%q", o.Res, c.Res[o.Res])
		}
		for _, t := range o.Rules {
			if t == nil {
				j.Rules = append(j.Rules, "nil")
			} else {
				j.Rules = append(j.Rules, m.Coq(t, ri))
			}
		}
		ops = append(ops, j)
	}
	return map[string]interface{}{"id": c.ID, "module": c.Mod, "resources": c.Res, "ops": ops}
}

// ObservedOf renders the observations as a JSON-friendly value.
func ObservedOf[T any](m *Mod[T], c Case[T], obs []Obs[T]) interface{} {
	ri := resIndex(c.Res)
	var out []interface{}
	for _, ob := range obs {
		o := map[string]interface{}{"changed": ob.Changed, "err": ob.Err, "panicked": ob.Panicked}
		var snaps []interface{}
		for _, sn := range ob.Snaps {
			var g, e []string
			for i := range sn.Get {
				g = append(g, m.Coq(&sn.Get[i], ri))
			}
			for i := range sn.Enf {
				st := "-"
				if sn.Enf[i].Stat != nil {
					st = sn.Enf[i].Stat.Coq()
				}
				e = append(e, fmt.Sprintf("ctrl %s stat %s rule %s", sn.Enf[i].ID.Coq(), st, m.Coq(&sn.Enf[i].Rule, ri)))
			}
			snaps = append(snaps, map[string]interface{}{"res": sn.Res, "getter": g, "in_force": e})
		}
		o["per_resource"] = snaps
		o["get_rules_count"] = len(ob.All)
		var pr []interface{}
		for _, p := range ob.Probes {
			by := "-"
			if p.By != nil {
				by = m.Coq(p.By, ri)
			}
			pr = append(pr, map[string]interface{}{"res": p.Res, "blocked": p.Blocked, "by": by})
		}
		if pr != nil {
			o["probes"] = pr
		}
		out = append(out, o)
	}
	return out
}

func resIndex(res []string) func(string) int64 {
	return func(s string) int64 {
		for i, n := range res {
			if n == s {
				return int64(i)
			}
		}
		if strings.HasSuffix(s, "-ref") {
			return 9
		}
		return 8 // a resource outside the case's universe
	}
}
