//go:build verif

package rulesh

import (
	"fmt"
	"math"
	"sort"
	"strconv"

	sentinel "github.com/alibaba/sentinel-golang/api"
	"github.com/alibaba/sentinel-golang/core/base"
	cb "github.com/alibaba/sentinel-golang/core/circuitbreaker"
	"github.com/alibaba/sentinel-golang/core/outlier"
	"github.com/alibaba/sentinel-golang/core/system"

	"vh/internal/emit"
	"vh/internal/rng"
)

// ---------------------------------------------------------------------------------------------
// system: whole-set only

type SysOp struct {
	Nil   bool           `json:"nil_slice"`
	Rules []*system.Rule `json:"rules"`
	Rep   bool           `json:"repeat_of_previous,omitempty"`
}
type SysCase struct {
	ID  int     `json:"id"`
	Mod string  `json:"module"`
	Ops []SysOp `json:"ops"`
}
type SysObs struct {
	Changed, Err, Panicked bool
	PerMetric              map[uint32][]system.Rule
	// probe (after the last operation only): one inbound request after an idle gap
	Probed, ProbeBlocked bool
	ProbeBy              *system.Rule
	ClearFault           string // wind-up through system.ClearRules left rules in force
	ObsFault             string // a getter / the probe request panicked (caught, reported by the monitor)
}

func GenSys(r *rng.R, id int) SysCase {
	c := SysCase{ID: id, Mod: "system"}
	nops := 3 + r.Intn(5)
	for k := 0; k < nops; k++ {
		if k > 0 && r.Chance(1, 5) {
			p := c.Ops[k-1]
			o := SysOp{Nil: p.Nil, Rep: true}
			for _, t := range p.Rules {
				if t == nil {
					o.Rules = append(o.Rules, nil)
				} else {
					x := *t
					o.Rules = append(o.Rules, &x)
				}
			}
			c.Ops = append(c.Ops, o)
			continue
		}
		if k > 0 && r.Chance(3, 20) {
			// the previous arguments again (fresh objects) with one field of one rule changed
			p := c.Ops[k-1]
			o := SysOp{Nil: p.Nil}
			var idx []int
			for j, t := range p.Rules {
				if t == nil {
					o.Rules = append(o.Rules, nil)
					continue
				}
				x := *t
				o.Rules = append(o.Rules, &x)
				idx = append(idx, j)
			}
			if len(idx) > 0 {
				t := o.Rules[idx[r.Intn(len(idx))]]
				switch r.Intn(4) {
				case 0:
					t.ID = strconv.Itoa(k*100 + 77)
				case 1:
					t.MetricType = (t.MetricType + 1) % system.MetricTypeSize
				case 2:
					if t.TriggerCount >= 0 && t.TriggerCount <= 0.5 {
						t.TriggerCount += 0.25
					} else {
						t.TriggerCount = 0.5
					}
				default:
					t.Strategy = system.NoAdaptive + system.BBR - t.Strategy
				}
				c.Ops = append(c.Ops, o)
				continue
			}
		}
		var o SysOp
		n := r.Intn(5)
		if n == 0 {
			o.Nil = r.Bool()
		}
		for j := 0; j < n; j++ {
			if r.Chance(1, 10) {
				o.Rules = append(o.Rules, nil)
				continue
			}
			t := &system.Rule{ID: strconv.Itoa(k*100 + j + 1), MetricType: system.MetricType(r.Intn(5)), TriggerCount: r.PickF(0, 0.5, 1, 10, 100), Strategy: system.AdaptiveStrategy(r.PickI(-1, 1))}
			switch r.Intn(12) {
			case 0:
				t.TriggerCount = r.PickF(-1, -1e-9, math.Inf(-1))
			case 1:
				t.MetricType = system.MetricType(r.PickI(5, 6, 4294967295))
			case 2:
				t.MetricType, t.TriggerCount = system.CpuUsage, r.PickF(1.5, 1.0000001, 7)
			case 3:
				if r.Chance(1, 3) {
					t.TriggerCount = math.NaN()
				}
			}
			o.Rules = append(o.Rules, t)
		}
		c.Ops = append(c.Ops, o)
	}
	return c
}

func RunSys(c SysCase) []SysObs {
	// the pristine cache is an empty non-nil slice; re-establish it
	system.LoadRules([]*system.Rule{})
	var out []SysObs
	for _, o := range c.Ops {
		var ob SysObs
		func() {
			defer func() {
				if x := recover(); x != nil {
					ob.Panicked = true
				}
			}()
			var arg []*system.Rule
			if !o.Nil {
				arg = []*system.Rule{}
			}
			for _, t := range o.Rules {
				if t == nil {
					arg = append(arg, nil)
				} else {
					x := *t
					arg = append(arg, &x)
				}
			}
			ch, err := system.LoadRules(arg)
			ob.Changed, ob.Err = ch, err != nil
		}()
		ob.PerMetric = map[uint32][]system.Rule{}
		ob.ObsFault = guard("system.GetRules", func() {
			for _, t := range system.GetRules() {
				ob.PerMetric[uint32(t.MetricType)] = append(ob.PerMetric[uint32(t.MetricType)], t)
			}
		})
		out = append(out, ob)
	}
	if len(out) > 0 && Clk != nil {
		// idle gap longer than every statistic window: inbound QPS, concurrency and average RT read 0
		Clk.AddMs(30000)
		last := &out[len(out)-1]
		last.Probed = true
		if f := guard("the inbound probe request", func() {
			e, b := sentinel.Entry("c13s-"+strconv.Itoa(c.ID), sentinel.WithTrafficType(base.Inbound))
			if b != nil {
				last.ProbeBlocked = true
				if sr, ok := b.TriggeredRule().(*system.Rule); ok && b.BlockType() == base.BlockTypeSystemFlow {
					x := *sr
					last.ProbeBy = &x
				}
			} else {
				e.Exit()
			}
		}); f != "" && last.ObsFault == "" {
			last.ObsFault = f
		}
		Clk.AddMs(30000)
	}
	if len(out) > 0 {
		last := &out[len(out)-1]
		if f := guard("system.ClearRules", func() {
			system.LoadRules([]*system.Rule{{ID: "9", MetricType: system.Load, TriggerCount: 100}})
			if err := system.ClearRules(); err != nil {
				last.ClearFault = "ClearRules returned an error: " + err.Error()
			} else if n := len(system.GetRules()); n != 0 {
				last.ClearFault = fmt.Sprintf("after ClearRules GetRules still reports %d rules", n)
			}
		}); f != "" {
			last.ClearFault = f
		}
	}
	guard("system.LoadRules", func() { system.LoadRules([]*system.Rule{}) })
	return out
}

func sysCoq(t *system.Rule) string {
	return fmt.Sprintf("{| s_tag := %s; s_metric := %d; s_trigger := %s; s_strategy := %s |}", emit.Z(tagOf(t.ID)), uint32(t.MetricType), emit.F(t.TriggerCount), emit.Z(int64(t.Strategy)))
}

func CoqSys(c SysCase, obs []SysObs) string {
	var ops, os_ []string
	for k, o := range c.Ops {
		if o.Nil && len(o.Rules) == 0 {
			ops = append(ops, "None")
		} else {
			var it []string
			for _, t := range o.Rules {
				if t == nil {
					it = append(it, "None")
				} else {
					it = append(it, "Some "+sysCoq(t))
				}
			}
			ops = append(ops, "Some "+emit.List(it))
		}
		var per []string
		for mt := uint32(0); mt < 5; mt++ {
			var it []string
			for i := range obs[k].PerMetric[mt] {
				it = append(it, sysCoq(&obs[k].PerMetric[mt][i]))
			}
			per = append(per, emit.Tuple(emit.Z(int64(mt)), emit.List(it)))
		}
		var keys []int
		for mt := range obs[k].PerMetric {
			if mt >= 5 {
				keys = append(keys, int(mt))
			}
		}
		sort.Ints(keys)
		for _, mt := range keys { // never expected: a rule of an invalid metric type in force
			var it []string
			for i := range obs[k].PerMetric[uint32(mt)] {
				it = append(it, sysCoq(&obs[k].PerMetric[uint32(mt)][i]))
			}
			per = append(per, emit.Tuple(emit.Z(int64(mt)), emit.List(it)))
		}
		os_ = append(os_, emit.Tuple(emit.Tuple(emit.B(obs[k].Changed), emit.B(obs[k].Err), emit.B(obs[k].Panicked)), emit.List(per)))
	}
	probe := "None"
	if n := len(obs); n > 0 && obs[n-1].Probed {
		switch {
		case !obs[n-1].ProbeBlocked:
			probe = "(Some None)"
		case obs[n-1].ProbeBy != nil:
			probe = "(Some (Some " + emit.Z(tagOf(obs[n-1].ProbeBy.ID)) + "))"
		default:
			probe = "(Some (Some (-99)))"
		}
	}
	return fmt.Sprintf("CSys %d %s %s %s", c.ID, emit.List(ops), emit.List(os_), probe)
}

func sysValid(t *system.Rule) bool {
	if math.IsNaN(t.TriggerCount) || t.TriggerCount < 0 || t.MetricType >= system.MetricTypeSize {
		return false
	}
	return !(t.MetricType == system.CpuUsage && t.TriggerCount > 1)
}

func MonitorSys(c SysCase, obs []SysObs, rep *emit.Report) bool {
	fail := func(clause, sig, detail string) { rep.Fail(c.ID, clause, sig, "system: "+detail, SysInput(c)) }
	var expected []*system.Rule
	sawInvalid, sawUnchanged := false, false
	for k, o := range c.Ops {
		ob := obs[k]
		if ob.Panicked {
			fail("C13_no_panic", "load-panicked", fmt.Sprintf("op %d panicked", k))
			return false
		}
		if ob.ObsFault != "" {
			fail("C13_getters_eq_enforced", "getter-panicked", fmt.Sprintf("after op %d: %s", k, ob.ObsFault))
			return false
		}
		nan := false
		for _, t := range o.Rules {
			if t != nil && math.IsNaN(t.TriggerCount) {
				nan = true
			}
			if t == nil || !sysValid(t) {
				sawInvalid = true
			}
		}
		if o.Rep && nan && ob.Changed {
			fail("C13_identical_reload_unchanged", "nan-threshold-identical-reload-reports-changed", fmt.Sprintf("op %d repeats op %d (NaN trigger count) and returned changed", k, k-1))
		}
		if o.Rep && !nan {
			sawUnchanged = true
			if ob.Changed || ob.Err {
				fail("C13_identical_reload_unchanged", "identical-reload-reports-changed", fmt.Sprintf("op %d repeats op %d but returned changed=%v err=%v", k, k-1, ob.Changed, ob.Err))
				return false
			}
		}
		if !ob.Err { // also on 'unchanged': the arguments then equal the cached ones
			expected = nil
			for _, t := range o.Rules {
				if t != nil && sysValid(t) {
					expected = append(expected, t)
				}
			}
		}
		n := 0
		for mt, l := range ob.PerMetric {
			var exp []*system.Rule
			for _, t := range expected {
				if uint32(t.MetricType) == mt {
					exp = append(exp, t)
				}
			}
			n += len(exp)
			bad := len(exp) != len(l)
			for i := 0; !bad && i < len(l); i++ {
				e := *exp[i]
				g := l[i]
				if math.IsNaN(e.TriggerCount) && math.IsNaN(g.TriggerCount) {
					e.TriggerCount, g.TriggerCount = 0, 0
				}
				bad = e != g
			}
			if bad {
				fail("C13_enforced_eq_valid_latest", "enforced-differs-from-valid-latest", fmt.Sprintf("op %d metric type %d: in force %v", k, mt, l))
				return false
			}
		}
		if n != len(expected) {
			fail("C13_enforced_eq_valid_latest", "enforced-differs-from-valid-latest", fmt.Sprintf("op %d: %d valid rules in the latest load, %d in force", k, len(expected), n))
			return false
		}
	}
	if n := len(obs); n > 0 && obs[n-1].ClearFault != "" {
		fail("C13_scope", "clear-did-not-empty-its-scope", obs[n-1].ClearFault)
		return false
	}
	// probe: with no inbound traffic in any window, the request is rejected iff some valid rule of the
	// latest load on inbound QPS / concurrency / average RT has a trigger count that 0 is not below,
	// and then by such a rule (the module checks its rules in map order); load and CPU usage rules
	// can not trigger (the collectors are off: both read -1)
	if n := len(obs); n > 0 && obs[n-1].Probed {
		var blockers []*system.Rule
		for _, t := range expected {
			if (t.MetricType == system.AvgRT || t.MetricType == system.Concurrency || t.MetricType == system.InboundQPS) && !(0 < t.TriggerCount) {
				blockers = append(blockers, t)
			}
		}
		p := obs[n-1]
		if p.ProbeBlocked != (len(blockers) > 0) {
			fail("C13_invalid_inert", "probe-decision-differs-from-valid-rules", fmt.Sprintf("inbound probe: blocked=%v, %d valid rules of the latest load reject it", p.ProbeBlocked, len(blockers)))
			return false
		}
		if p.ProbeBlocked {
			ok := false
			for _, t := range blockers {
				if p.ProbeBy != nil && p.ProbeBy.ID == t.ID {
					ok = true
				}
			}
			if !ok {
				fail("C13_invalid_inert", "probe-blocked-by-wrong-rule", fmt.Sprintf("inbound probe blocked by %v, which is not a valid rejecting rule of the latest load", p.ProbeBy))
				return false
			}
		}
	}
	return sawInvalid && sawUnchanged
}

// ---------------------------------------------------------------------------------------------
// outlier: one rule per resource

type OutOp struct {
	Kind  string          `json:"kind"` // all | res
	Res   int             `json:"res"`
	Rules []*outlier.Rule `json:"rules"` // res: zero or one rule (none = nil = clear)
	Rep   bool            `json:"repeat_of_previous,omitempty"`
}
type OutCase struct {
	ID   int      `json:"id"`
	Mod  string   `json:"module"`
	NRes int      `json:"nres"`
	Res  []string `json:"resources"`
	Ops  []OutOp  `json:"ops"`
}
type OutObs struct {
	Changed, Err, Panicked bool
	Per                    []*outlier.Rule // per resource 1..NRes
	Consistent             bool
	NAll                   int
	ClearFault             string // wind-up through ClearRuleOfResource / ClearRules left rules in force
	ObsFault               string // a getter panicked (caught, reported by the monitor)
}

func cloneOut(t *outlier.Rule) *outlier.Rule {
	if t == nil {
		return nil
	}
	x := *t
	if t.Rule != nil {
		y := *t.Rule
		x.Rule = &y
	}
	return &x
}

func GenOut(r *rng.R, id int) OutCase {
	c := OutCase{ID: id, Mod: "outlier", NRes: 1 + r.Intn(3), Res: []string{""}}
	for i := 1; i <= c.NRes; i++ {
		c.Res = append(c.Res, ResName("c13o", id, i))
	}
	mk := func(k, j, res int) *outlier.Rule {
		t := &outlier.Rule{Rule: &cb.Rule{Id: strconv.Itoa(k*100 + j + 1), Resource: c.Res[res], Strategy: cb.ErrorCount, RetryTimeoutMs: 3000, MinRequestAmount: 1, StatIntervalMs: 1000, Threshold: r.PickF(1, 3)},
			EnableActiveRecovery: r.Bool(), MaxEjectionPercent: r.PickF(0, 0.3, 1), RecoveryIntervalMs: 2000, RecycleIntervalS: 60, MaxRecoveryAttempts: uint32(r.PickI(1, 5))}
		switch r.Intn(14) {
		case 0:
			t.MaxEjectionPercent = r.PickF(-0.1, 1.5, math.Inf(1))
		case 1:
			t.Rule.RetryTimeoutMs = 0
		case 2:
			t.Rule.StatIntervalMs = 0
		case 3:
			t.Rule.Resource = ""
		case 4:
			t.Rule = nil
		case 5:
			t.Rule.Strategy, t.Rule.Threshold = cb.ErrorRatio, 2
		case 6:
			t.Rule.Threshold = -1
		}
		return t
	}
	nops := 3 + r.Intn(5)
	for k := 0; k < nops; k++ {
		if k > 0 && r.Chance(1, 5) {
			p := c.Ops[k-1]
			o := OutOp{Kind: p.Kind, Res: p.Res, Rep: true}
			for _, t := range p.Rules {
				o.Rules = append(o.Rules, cloneOut(t))
			}
			c.Ops = append(c.Ops, o)
			continue
		}
		if k > 0 && r.Chance(3, 20) {
			// the previous arguments again (fresh objects) with one field of one rule changed
			p := c.Ops[k-1]
			o := OutOp{Kind: p.Kind, Res: p.Res}
			var idx []int
			for j, t := range p.Rules {
				o.Rules = append(o.Rules, cloneOut(t))
				if t != nil {
					idx = append(idx, j)
				}
			}
			if len(idx) > 0 {
				t := o.Rules[idx[r.Intn(len(idx))]]
				switch x := r.Intn(9); {
				case x == 0:
					t.EnableActiveRecovery = !t.EnableActiveRecovery
				case x == 1:
					if t.MaxEjectionPercent >= 0 && t.MaxEjectionPercent <= 0.5 {
						t.MaxEjectionPercent += 0.25
					} else {
						t.MaxEjectionPercent = 0.5
					}
				case x == 2:
					t.RecoveryIntervalMs += 100
				case x == 3:
					t.RecycleIntervalS += 1
				case x == 4:
					t.MaxRecoveryAttempts += 1
				case t.Rule == nil:
					t.RecycleIntervalS += 2
				case x == 5:
					t.Rule.Threshold += 1
					if t.Rule.Strategy != cb.ErrorCount {
						t.Rule.Strategy = cb.ErrorCount
					}
				case x == 6:
					t.Rule.RetryTimeoutMs += 500
				case x == 7:
					t.Rule.MinRequestAmount += 1
				default:
					t.Rule.StatIntervalMs += 1000
				}
				c.Ops = append(c.Ops, o)
				continue
			}
		}
		var o OutOp
		if r.Chance(1, 2) {
			o.Kind = "all"
			n := r.Intn(5)
			for j := 0; j < n; j++ {
				if r.Chance(1, 10) {
					o.Rules = append(o.Rules, nil)
				} else {
					o.Rules = append(o.Rules, mk(k, j, 1+r.Intn(c.NRes)))
				}
			}
		} else {
			o.Kind, o.Res = "res", 1+r.Intn(c.NRes)
			if r.Chance(1, 20) {
				o.Res = 0
			}
			if r.Chance(4, 5) {
				tr := o.Res
				if tr == 0 || r.Chance(1, 10) {
					tr = 1 + r.Intn(c.NRes) // a rule whose Resource is not the resource it is loaded for
				}
				o.Rules = []*outlier.Rule{mk(k, 0, tr)}
			}
		}
		c.Ops = append(c.Ops, o)
	}
	return c
}

func RunOut(c OutCase) []OutObs {
	var out []OutObs
	for _, o := range c.Ops {
		var ob OutObs
		func() {
			defer func() {
				if x := recover(); x != nil {
					ob.Panicked = true
				}
			}()
			var ch bool
			var err error
			if o.Kind == "all" {
				var arg []*outlier.Rule
				for _, t := range o.Rules {
					arg = append(arg, cloneOut(t))
				}
				ch, err = outlier.LoadRules(arg)
			} else {
				var arg *outlier.Rule
				if len(o.Rules) > 0 {
					arg = cloneOut(o.Rules[0])
				}
				ch, err = outlier.LoadRuleOfResource(c.Res[o.Res], arg)
			}
			ob.Changed, ob.Err = ch, err != nil
		}()
		ob.Consistent = true
		ob.ObsFault = guard("reading the outlier rules in force", func() {
			for i := 1; i <= c.NRes; i++ {
				t, ok, cons := outlier.VerifRuleOfResource(c.Res[i])
				if !cons {
					ob.Consistent = false
				}
				if ok {
					ob.Per = append(ob.Per, cloneOut(&t))
				} else {
					ob.Per = append(ob.Per, nil)
				}
			}
			ob.NAll = len(outlier.GetRules())
		})
		for len(ob.Per) < c.NRes {
			ob.Per = append(ob.Per, nil)
		}
		out = append(out, ob)
	}
	if len(out) > 0 {
		last := &out[len(out)-1]
		func() {
			defer func() {
				if x := recover(); x != nil {
					last.ClearFault = fmt.Sprint("clear panicked: ", x)
				}
			}()
			inForce := func(i int) bool { _, ok, _ := outlier.VerifRuleOfResource(c.Res[i]); return ok }
			for i := 1; i <= c.NRes; i++ {
				before := make([]bool, c.NRes+1)
				for j := 1; j <= c.NRes; j++ {
					before[j] = inForce(j)
				}
				if err := outlier.ClearRuleOfResource(c.Res[i]); err != nil && last.ClearFault == "" {
					last.ClearFault = fmt.Sprintf("ClearRuleOfResource(res %d) returned an error: %v", i, err)
				}
				for j := 1; j <= c.NRes; j++ {
					if j <= i && inForce(j) && last.ClearFault == "" {
						last.ClearFault = fmt.Sprintf("after ClearRuleOfResource(res %d) resource %d still has a rule", i, j)
					}
					if j > i && inForce(j) != before[j] && last.ClearFault == "" {
						last.ClearFault = fmt.Sprintf("ClearRuleOfResource(res %d) changed resource %d", i, j)
					}
				}
			}
			outlier.LoadRuleOfResource(c.Res[1], &outlier.Rule{Rule: &cb.Rule{Resource: c.Res[1], Strategy: cb.ErrorCount, RetryTimeoutMs: 3000, MinRequestAmount: 1, StatIntervalMs: 1000, Threshold: 1}, MaxEjectionPercent: 0.5})
			if err := outlier.ClearRules(); err != nil && last.ClearFault == "" {
				last.ClearFault = "ClearRules returned an error: " + err.Error()
			}
			if n := len(outlier.GetRules()); n != 0 && last.ClearFault == "" {
				last.ClearFault = fmt.Sprintf("after ClearRules GetRules still reports %d rules", n)
			}
		}()
	}
	guard("outlier.LoadRules", func() { outlier.LoadRules(nil) })
	return out
}

func outCoq(t *outlier.Rule, ri func(string) int64) string {
	cbr, tag := "None", int64(0)
	if t.Rule != nil {
		cbr = "(Some " + BrkCoq(t.Rule, ri) + ")"
		tag = tagOf(t.Rule.Id)
	}
	return fmt.Sprintf("{| o_tag := %s; o_cb := %s; o_active := %s; o_maxpct := %s; o_recms := %d; o_recycle := %d; o_maxrec := %d |}",
		emit.Z(tag), cbr, emit.B(t.EnableActiveRecovery), emit.F(t.MaxEjectionPercent), t.RecoveryIntervalMs, t.RecycleIntervalS, t.MaxRecoveryAttempts)
}

func CoqOut(c OutCase, obs []OutObs) string {
	ri := func(s string) int64 {
		for i, n := range c.Res {
			if n == s {
				return int64(i)
			}
		}
		return 8
	}
	var ops, os_ []string
	for k, o := range c.Ops {
		if o.Kind == "all" {
			var it []string
			for _, t := range o.Rules {
				if t == nil {
					it = append(it, "None")
				} else {
					it = append(it, "Some "+outCoq(t, ri))
				}
			}
			ops = append(ops, "OLoadAll "+emit.List(it))
		} else if len(o.Rules) == 0 {
			ops = append(ops, fmt.Sprintf("OLoadRes %d None", o.Res))
		} else {
			ops = append(ops, fmt.Sprintf("OLoadRes %d (Some %s)", o.Res, outCoq(o.Rules[0], ri)))
		}
		var per []string
		for i, t := range obs[k].Per {
			if t == nil {
				per = append(per, emit.Tuple(emit.Z(int64(i+1)), "None"))
			} else {
				per = append(per, emit.Tuple(emit.Z(int64(i+1)), "Some "+outCoq(t, ri)))
			}
		}
		os_ = append(os_, emit.Tuple(emit.Tuple(emit.B(obs[k].Changed), emit.B(obs[k].Err), emit.B(obs[k].Panicked)), emit.List(per)))
	}
	return fmt.Sprintf("COut %d %s %s", c.ID, emit.List(ops), emit.List(os_))
}

func outValid(t *outlier.Rule) bool {
	if t == nil || t.Rule == nil || t.Rule.Resource == "" || t.MaxEjectionPercent < 0 || t.MaxEjectionPercent > 1 {
		return false
	}
	return BrkValid(t.Rule)
}

func outSame(a, b *outlier.Rule) bool {
	if (a == nil) != (b == nil) {
		return false
	}
	if a == nil {
		return true
	}
	x, y := *a, *b
	if (x.Rule == nil) != (y.Rule == nil) {
		return false
	}
	if x.Rule != nil && *x.Rule != *y.Rule {
		return false
	}
	x.Rule, y.Rule = nil, nil
	x.RecoveryCheckFunc, y.RecoveryCheckFunc = nil, nil
	return x.EnableActiveRecovery == y.EnableActiveRecovery && x.MaxEjectionPercent == y.MaxEjectionPercent && x.RecoveryIntervalMs == y.RecoveryIntervalMs && x.RecycleIntervalS == y.RecycleIntervalS && x.MaxRecoveryAttempts == y.MaxRecoveryAttempts
}

func MonitorOut(c OutCase, obs []OutObs, rep *emit.Report) bool {
	fail := func(clause, sig, detail string) { rep.Fail(c.ID, clause, sig, "outlier: "+detail, OutInput(c)) }
	expected := make([]*outlier.Rule, c.NRes+1)
	sawInvalid, sawUnchanged := false, false
	for k, o := range c.Ops {
		ob := obs[k]
		if ob.Panicked {
			fail("C13_no_panic", "load-panicked", fmt.Sprintf("op %d panicked", k))
			return false
		}
		if ob.ObsFault != "" {
			fail("C13_getters_eq_enforced", "getter-panicked", fmt.Sprintf("after op %d: %s", k, ob.ObsFault))
			return false
		}
		for _, t := range o.Rules {
			if !outValid(t) {
				sawInvalid = true
			}
		}
		if o.Rep && (o.Kind == "all" || (o.Res > 0 && (len(o.Rules) == 0 || outValid(o.Rules[0])))) {
			sawUnchanged = true
			if ob.Changed || ob.Err {
				fail("C13_identical_reload_unchanged", "identical-reload-reports-changed", fmt.Sprintf("op %d repeats op %d but returned changed=%v err=%v", k, k-1, ob.Changed, ob.Err))
				return false
			}
		}
		if !ob.Err { // also on 'unchanged': the arguments then equal the cached ones
			if o.Kind == "all" {
				for i := 1; i <= c.NRes; i++ {
					expected[i] = nil
				}
				for _, t := range o.Rules { // the last rule of a resource wins, then it must be valid
					if t == nil || t.Rule == nil {
						continue
					}
					for i := 1; i <= c.NRes; i++ {
						if t.Rule.Resource == c.Res[i] {
							expected[i] = nil
							if outValid(t) {
								expected[i] = t
							}
						}
					}
				}
			} else if len(o.Rules) == 0 {
				expected[o.Res] = nil
			} else {
				if !outValid(o.Rules[0]) {
					fail("C13_outlier_rejected", "invalid-rule-accepted", fmt.Sprintf("op %d: invalid rule loaded without error", k))
					return false
				}
				expected[o.Res] = o.Rules[0]
			}
		}
		n := 0
		for i := 1; i <= c.NRes; i++ {
			if expected[i] != nil {
				n++
			}
			if !outSame(expected[i], ob.Per[i-1]) {
				fail("C13_enforced_eq_valid_latest", "enforced-differs-from-valid-latest", fmt.Sprintf("op %d res %d: in force %v, expected %v", k, i, ob.Per[i-1], expected[i]))
				return false
			}
		}
		if !ob.Consistent {
			fail("C13_getters_eq_enforced", "outlier-breaker-rule-map-inconsistent", fmt.Sprintf("op %d: breakerRules does not hold the embedded rule of outlierRules", k))
			return false
		}
		if ob.NAll != n {
			fail("C13_getters_eq_enforced", "getrules-differs-from-enforced", fmt.Sprintf("op %d: GetRules reports %d rules, %d in force", k, ob.NAll, n))
			return false
		}
	}
	if n := len(obs); n > 0 && obs[n-1].ClearFault != "" {
		fail("C13_scope", "clear-did-not-empty-its-scope", obs[n-1].ClearFault)
		return false
	}
	return sawInvalid && sawUnchanged
}

// ---------------------------------------------------------------------------------------------
// JSON-friendly renderings (rules in the notation of the Coq cases; NaN and func fields do not marshal)

func SysInput(c SysCase) interface{} {
	var ops []interface{}
	for _, o := range c.Ops {
		rs := []string{}
		for _, t := range o.Rules {
			if t == nil {
				rs = append(rs, "nil")
			} else {
				rs = append(rs, sysCoq(t))
			}
		}
		ops = append(ops, map[string]interface{}{"kind": "LoadRules", "nil_slice": o.Nil && len(o.Rules) == 0, "rules": rs, "identical_repeat_of_previous": o.Rep})
	}
	return map[string]interface{}{"id": c.ID, "module": "system", "ops": ops}
}

func SysObserved(obs []SysObs) interface{} {
	var out []interface{}
	for _, ob := range obs {
		per := map[string][]string{}
		for mt, l := range ob.PerMetric {
			for i := range l {
				per[strconv.Itoa(int(mt))] = append(per[strconv.Itoa(int(mt))], sysCoq(&l[i]))
			}
		}
		o := map[string]interface{}{"changed": ob.Changed, "err": ob.Err, "panicked": ob.Panicked, "in_force_per_metric_type": per}
		if ob.Probed {
			by := "-"
			if ob.ProbeBy != nil {
				by = sysCoq(ob.ProbeBy)
			}
			o["probe"] = map[string]interface{}{"blocked": ob.ProbeBlocked, "by": by}
		}
		out = append(out, o)
	}
	return out
}

func OutInput(c OutCase) interface{} {
	ri := resIndex(c.Res)
	var ops []interface{}
	for _, o := range c.Ops {
		rs := []string{}
		for _, t := range o.Rules {
			if t == nil {
				rs = append(rs, "nil")
			} else {
				rs = append(rs, outCoq(t, ri))
			}
		}
		kind := "LoadRules"
		if o.Kind == "res" {
			kind = "LoadRuleOfResource"
		}
		ops = append(ops, map[string]interface{}{"kind": kind, "res": o.Res, "rules": rs, "identical_repeat_of_previous": o.Rep})
	}
	return map[string]interface{}{"id": c.ID, "module": "outlier", "resources": c.Res, "ops": ops}
}

func OutObserved(c OutCase, obs []OutObs) interface{} {
	ri := resIndex(c.Res)
	var out []interface{}
	for _, ob := range obs {
		per := []string{}
		for _, t := range ob.Per {
			if t == nil {
				per = append(per, "-")
			} else {
				per = append(per, outCoq(t, ri))
			}
		}
		out = append(out, map[string]interface{}{"changed": ob.Changed, "err": ob.Err, "panicked": ob.Panicked, "in_force_per_resource": per, "breaker_rule_map_consistent": ob.Consistent, "get_rules_count": ob.NAll})
	}
	return out
}
