//go:build verif

package chainh

import (
	"fmt"
	"sort"
)

// Failure of a monitor clause.
type Failure struct {
	Clause, Signature, Detail string
}

type slotRef struct {
	s   *SlotSpec
	ins int
}

// sortedKind returns the slots of one kind in the order the property demands: ascending order
// value, insertion order on ties (composite key; deliberately not sort.SliceStable).
func sortedKind(ch *ChainSpec, kind string) []slotRef {
	var out []slotRef
	for i := range ch.Slots {
		if ch.Slots[i].Kind == kind {
			out = append(out, slotRef{&ch.Slots[i], i})
		}
	}
	sort.Slice(out, func(a, b int) bool {
		if out[a].s.Order != out[b].s.Order {
			return out[a].s.Order < out[b].s.Order
		}
		return out[a].ins < out[b].ins
	})
	return out
}

func sameBerr(a, b *Berr) bool {
	if a == nil || b == nil {
		return a == b
	}
	return *a == *b
}

// entryFacts is what the C16 monitor derives for one Entry call.
type entryFacts struct {
	Panicked      bool // some slot panicked during Entry
	PrepPanic     bool
	NodePrepared  bool // the node-prepare slot ran (before any panic)
	Blocked       bool // the caller got a block error
	BlockDecision bool // a rule-check slot blocked (the caller may still be admitted if a stat slot panicked)
	HasRealStat   bool
	StatPanic     bool // a recording statistic slot panicked while being told the outcome
}

// deriveEntry derives, from the case description alone, what the property demands of one Entry
// call: the facts, the expected call sequence of the recording slots, the deciding block error.
func deriveEntry(ch *ChainSpec, o Op) (f *entryFacts, want []Call, blockBy *Berr, statPanic bool) {
	f = &entryFacts{}
	preps, checks, sts := sortedKind(ch, "prep"), sortedKind(ch, "check"), sortedKind(ch, "stat")
	for _, p := range preps {
		want = append(want, Call{K: "prep", ID: p.s.ID})
		b := behOf(p.s, o.Flag).K
		if b == "node" {
			f.NodePrepared = true
		}
		if b == "panic" {
			f.Panicked, f.PrepPanic = true, true
			break
		}
	}
	if !f.Panicked {
		for _, k := range checks {
			want = append(want, Call{K: "check", ID: k.s.ID})
			b := behOf(k.s, o.Flag)
			if b.K == "panic" {
				f.Panicked = true
				break
			}
			if b.K == "block" {
				blockBy = b.B // the first blocking slot decides; no later rule-check slot runs
				break
			}
		}
	}
	f.BlockDecision = blockBy != nil
	for _, s := range sts {
		if s.s.Real {
			f.HasRealStat = true
			continue
		}
		if blockBy != nil {
			want = append(want, Call{K: "blocked", ID: s.s.ID, Res: o.Res, Batch: int64(o.Batch), B: blockBy})
		} else {
			want = append(want, Call{K: "passed", ID: s.s.ID, Res: o.Res, Batch: int64(o.Batch)})
		}
		if behOf(s.s, o.Flag).K == "panic" {
			statPanic = true
			f.Panicked = true
			break
		}
	}
	f.StatPanic = statPanic
	return f, recording(want), blockBy, statPanic
}

// EntryFacts derives the facts of every Entry call of the case (index = entry number).
func EntryFacts(c *Case) map[int]*entryFacts {
	facts := map[int]*entryFacts{}
	n := 0
	for _, o := range c.Ops {
		if o.Kind == "entry" {
			facts[n], _, _, _ = deriveEntry(&c.Chains[o.Chain], o)
			n++
		}
	}
	return facts
}

// MonitorC16 states C16 on the implementation's trace.
func MonitorC16(c *Case, obs []Obs) (fails []Failure, facts map[int]*entryFacts, stats map[string]int) {
	stats = map[string]int{}
	facts = map[int]*entryFacts{}
	fail := func(clause, sig, f string, a ...interface{}) {
		fails = append(fails, Failure{clause, sig, fmt.Sprintf(f, a...)})
	}
	type entSt struct {
		chain    int
		flag     int32
		entered  bool
		passed   bool // completions are due at the effective exit
		exited   bool
		handlers []Op
	}
	var ents []*entSt
	type retSt struct{ b Berr }
	var rets []retSt
	nent := 0
	for i, o := range c.Ops {
		ob := obs[i]
		if ob.Escaped != "" {
			fail("C16_fail_open", "panic-escaped", "op %d (%s): %s", i, o.Kind, ob.Escaped)
			return
		}
		switch o.Kind {
		case "entry":
			f, want, blockBy, statPanic := deriveEntry(&c.Chains[o.Chain], o)
			facts[nent] = f
			wantBlocked := blockBy != nil && !statPanic
			f.Blocked = ob.Kind == "blocked"
			// clause: order / first block / once-only, all visible in the call log
			if len(ob.Calls) != len(want) {
				fail("C16_call_log", classifyLog(ob.Calls, want), "op %d: slot calls %s, expected %s", i, fmtCalls(ob.Calls), fmtCalls(want))
				return
			}
			for j := range want {
				g, w := ob.Calls[j], want[j]
				if g.K != w.K || g.ID != w.ID || g.Res != w.Res || g.Batch != w.Batch || !sameBerr(g.B, w.B) {
					fail("C16_call_log", classifyLog(ob.Calls, want), "op %d: slot calls %s, expected %s", i, fmtCalls(ob.Calls), fmtCalls(want))
					return
				}
			}
			if f.Panicked && f.Blocked {
				fail("C16_fail_open", "panic-not-admitted", "op %d: a slot panicked but the request was blocked", i)
				return
			}
			if f.Panicked && ob.CtxErr != -1 {
				fail("C16_fail_open", "panic-error-not-recorded", "op %d: a slot panicked but the entry's error is %d", i, ob.CtxErr)
				return
			}
			if wantBlocked != f.Blocked {
				fail("C16_first_block_wins", "wrong-outcome", "op %d: blocked=%v expected %v", i, f.Blocked, wantBlocked)
				return
			}
			if f.Blocked {
				if !sameBerr(ob.B, blockBy) {
					fail("C16_first_block_wins", "wrong-block-error", "op %d: returned %+v, first blocking slot said %+v", i, ob.B, blockBy)
					return
				}
				rets = append(rets, retSt{*ob.B})
				stats["blocked"]++
			} else {
				stats["entered"]++
			}
			if f.Panicked {
				stats["panic_in_entry"]++
			}
			ents = append(ents, &entSt{chain: o.Chain, flag: o.Flag, entered: !f.Blocked, passed: !f.Blocked && blockBy == nil, exited: f.Blocked})
			nent++
		case "exit":
			var want []Call
			if o.E >= 0 && o.E < len(ents) && ents[o.E].entered && !ents[o.E].exited {
				e := ents[o.E]
				e.exited = true
				// every handler runs, in registration order, whatever the others do: returning an error
				// or panicking (recovered per handler since a9e6cc9) neither stops the loop nor the
				// chain's exit - an admitted entry is completed exactly once whatever its handlers do
				for _, h := range e.handlers {
					want = append(want, Call{K: "handler", ID: h.HID})
				}
				if e.passed {
					for _, s := range sortedKind(&c.Chains[e.chain], "stat") {
						if s.s.Real {
							continue
						}
						want = append(want, Call{K: "done", ID: s.s.ID})
						if behOf(s.s, e.flag).K == "panic" {
							break
						}
					}
				}
				stats["effective_exit"]++
			} else {
				stats["late_or_void_exit"]++
			}
			bad := len(want) != len(ob.Calls)
			for j := 0; !bad && j < len(want); j++ {
				if want[j].K != ob.Calls[j].K || want[j].ID != ob.Calls[j].ID {
					bad = true
				}
			}
			if bad {
				sig := "completion-calls-differ"
				if len(want) == 0 {
					sig = "calls-on-repeated-or-blocked-exit"
				}
				fail("C16_stat_once", sig, "op %d: exit calls %s, expected %s", i, fmtCalls(ob.Calls), fmtCalls(want))
				return
			}
		case "whenexit":
			if o.E >= 0 && o.E < len(ents) && ents[o.E].entered {
				ents[o.E].handlers = append(ents[o.E].handlers, o)
			}
		case "snap":
			if len(ob.Ret) != len(rets) {
				fail("C16_block_error_stable", "returned-errors-count", "op %d: %d returned errors, expected %d", i, len(ob.Ret), len(rets))
				return
			}
			for j := range rets {
				if ob.Ret[j] != rets[j].b {
					fail("C16_block_error_stable", "block-error-changed", "op %d: block error #%d now %+v, was %+v when returned", i, j, ob.Ret[j], rets[j].b)
					return
				}
			}
		}
	}
	return
}

// recording drops the calls of slots that do not record (negative ids: the built-in slots of the
// default chain).
func recording(cs []Call) []Call {
	var out []Call
	for _, c := range cs {
		if c.ID >= 0 {
			out = append(out, c)
		}
	}
	return out
}

func classifyLog(got, want []Call) string {
	// specific signatures for the most telling differences
	key := func(cs []Call) (ks []string) {
		for _, c := range cs {
			ks = append(ks, fmt.Sprintf("%s%d", c.K, c.ID))
		}
		sort.Strings(ks)
		return
	}
	g, w := key(got), key(want)
	if len(g) == len(w) {
		same := true
		for i := range g {
			if g[i] != w[i] {
				same = false
			}
		}
		if same {
			return "slot-order"
		}
	}
	if len(got) > len(want) {
		return "extra-slot-calls"
	}
	if len(got) == len(want) {
		ids := true
		for i := range got {
			if got[i].ID != want[i].ID {
				ids = false
			}
		}
		if ids {
			return "slot-told-wrong-outcome"
		}
		return "wrong-slots-called"
	}
	return "missing-slot-calls"
}

func fmtCalls(cs []Call) string {
	s := "["
	for i, c := range cs {
		if i > 0 {
			s += " "
		}
		s += fmt.Sprintf("%s:%d", c.K, c.ID)
	}
	return s + "]"
}

// ---- C01 ----------------------------------------------------------------------------------

type ledgerEnt struct {
	res                 int
	inb                 bool
	batch               int64
	args                []int64
	entered, live       bool
	ownErr, ownAddr     int64
	start               int64
	uncountedOnResource bool // finding class F1: a prepare slot panicked before the node was prepared
	blockedButHeld      bool
}

type counters struct{ pass, block, done, err, rt, gauge int64 }

// MonitorC01 states C01 on the implementation's trace with its own ledger. facts comes from the
// C16 monitor (which slots panicked, derived from the case description).
func MonitorC01(c *Case, obs []Obs, facts map[int]*entryFacts) (fails []Failure, stats map[string]int) {
	stats = map[string]int{}
	fail := func(clause, sig, f string, a ...interface{}) {
		fails = append(fails, Failure{clause, sig, fmt.Sprintf(f, a...)})
	}
	var ents []*ledgerEnt
	want := map[int]*counters{}   // what the property demands
	wantF1 := map[int]*counters{} // the same with finding F1's entries left out on their resource
	for k := -1; k < c.NRes; k++ {
		want[k] = &counters{}
		wantF1[k] = &counters{}
	}
	var nowMs int64
	f1Seen := false
	lateSinceSnap := 0
	for i, o := range c.Ops {
		ob := obs[i]
		if ob.Escaped != "" {
			fail("C01_outcome_unique", "no-unique-outcome", "op %d: %s", i, ob.Escaped)
			return
		}
		apply := func(e *ledgerEnt, f func(*counters)) {
			f(want[e.res])
			if !e.uncountedOnResource {
				f(wantF1[e.res])
			}
			if e.inb {
				f(want[-1])
				f(wantF1[-1])
			}
		}
		switch o.Kind {
		case "entry":
			f := facts[len(ents)]
			e := &ledgerEnt{res: o.Res, inb: o.Inb, batch: int64(o.Batch), args: o.Args, start: nowMs}
			e.uncountedOnResource = !f.NodePrepared
			if e.uncountedOnResource {
				f1Seen = true
				stats["f1_entries"]++
			}
			if ob.Kind == "entered" {
				e.entered, e.live = true, true
				e.ownErr = 0
				if f.Panicked {
					e.ownErr = -1
					stats["passed_by_panic"]++
				}
				if f.StatPanic {
					stats["stat_slot_panic_behind_counting_slot"]++
				}
				if f.BlockDecision {
					// a rule check blocked, the counting slot counted the block, then a later statistic
					// slot panicked: the caller holds an entry (fail-open), which stays accounted as
					// blocked - exactly once - and completes nothing
					e.blockedButHeld = true
					apply(e, func(k *counters) { k.block += e.batch })
				} else {
					apply(e, func(k *counters) { k.pass += e.batch; k.gauge++ })
				}
				if ob.CtxErr != e.ownErr {
					fail("C01_live_context_stable", "fresh-entry-carries-foreign-error", "op %d: new entry's error is %d, expected %d", i, ob.CtxErr, e.ownErr)
					return
				}
			} else {
				apply(e, func(k *counters) { k.block += e.batch })
			}
			ents = append(ents, e)
		case "exit":
			if o.E >= 0 && o.E < len(ents) && ents[o.E].live {
				e := ents[o.E]
				e.live = false
				if o.Err != 0 {
					e.ownErr = o.Err
				}
				rt := nowMs - e.start
				if e.blockedButHeld {
					for _, cl := range ob.Calls {
						if cl.K == "done" {
							fail("C01_completion_exact", "completion-for-blocked-entry", "op %d: %s", i, fmtCalls(ob.Calls))
							return
						}
					}
					continue
				}
				apply(e, func(k *counters) {
					k.done += e.batch
					if e.ownErr != 0 {
						k.err += e.batch
					}
					k.rt += rt
					k.gauge--
				})
				// the completion reported to recording statistic slots carries this entry's own error and rt
				for _, cl := range ob.Calls {
					if cl.K == "done" && (cl.Err != e.ownErr || cl.Rt != rt || cl.Res != e.res || cl.Batch != e.batch) {
						fail("C01_completion_exact", "completion-carries-foreign-data", "op %d: completion reported (res %d batch %d err %d rt %d), the entry's own are (res %d batch %d err %d rt %d)", i, cl.Res, cl.Batch, cl.Err, cl.Rt, e.res, e.batch, e.ownErr, rt)
						return
					}
				}
			} else {
				lateSinceSnap++
				stats["late_exit"]++
				if len(ob.Calls) != 0 {
					fail("C01_exit_idempotent", "late-exit-ran-callbacks", "op %d: %s", i, fmtCalls(ob.Calls))
					return
				}
			}
		case "trace":
			if o.E >= 0 && o.E < len(ents) {
				if ents[o.E].live {
					if o.Err != 0 {
						ents[o.E].ownErr = o.Err
					}
				} else {
					lateSinceSnap++
					stats["late_trace"]++
				}
			}
		case "callee":
			if o.E >= 0 && o.E < len(ents) {
				if ents[o.E].live {
					if o.Addr != 0 {
						ents[o.E].ownAddr = o.Addr
					}
				} else {
					lateSinceSnap++
				}
			}
		case "tick":
			nowMs += int64(o.Dt)
		case "snap":
			// live entries: err / args / address are the entry's own
			var liveIDs []int
			for id, e := range ents {
				if e.live {
					liveIDs = append(liveIDs, id)
				}
			}
			if len(ob.Live) != len(liveIDs) {
				fail("C01_live_context_stable", "live-set-differs", "op %d: %d live entries observed, ledger has %d", i, len(ob.Live), len(liveIDs))
				return
			}
			for j, id := range liveIDs {
				e, lv := ents[id], ob.Live[j]
				okArgs := len(lv.Args) == len(e.args)
				for k := 0; okArgs && k < len(e.args); k++ {
					okArgs = lv.Args[k] == e.args[k]
				}
				if lv.E != id || lv.Err != e.ownErr || lv.Addr != e.ownAddr || !okArgs {
					sig := "live-context-changed"
					if lateSinceSnap > 0 {
						sig = "late-call-changed-live-entry"
					}
					if !okArgs {
						sig = "live-entry-args-changed"
					}
					fail("C01_live_context_stable", sig, "op %d: live entry %d shows err=%d args=%v addr=%d; its own are err=%d args=%v addr=%d", i, id, lv.Err, lv.Args, lv.Addr, e.ownErr, e.args, e.ownAddr)
					return
				}
			}
			lateSinceSnap = 0
			for _, v := range ob.Cnt {
				w, w1 := want[v.Key], wantF1[v.Key]
				got := counters{v.Pass, v.Block, v.Done, v.Err, v.Rt, v.Gauge}
				if v.Gauge < 0 {
					fail("C01_gauge", "negative-gauge", "op %d: concurrency of key %d is %d", i, v.Key, v.Gauge)
					return
				}
				if got == *w {
					continue
				}
				if f1Seen && got == *w1 {
					fail("C01_token_conservation", "prepare-panic-before-node-prepared-uncounted", "op %d: key %d counters %+v; every request counted would be %+v (a prepare slot panicked before the resource node was set: the admitted request is not counted on its resource)", i, v.Key, got, *w)
					return
				}
				clause, sig := "C01_completion_exact", "completion-counters-differ"
				switch {
				case got.pass+got.block != w.pass+w.block:
					clause, sig = "C01_token_conservation", "pass-plus-block-differs-from-requested"
				case got.pass != w.pass || got.block != w.block:
					clause, sig = "C01_token_conservation", "outcome-miscounted"
				case got.gauge != w.gauge:
					clause, sig = "C01_gauge", "gauge-differs-from-live-entries"
				case got.err != w.err:
					sig = "error-attributed-to-wrong-entry"
				}
				fail(clause, sig, "op %d: key %d counters (pass,block,complete,error,rt,gauge)=%+v, ledger %+v", i, v.Key, got, *w)
				return
			}
		}
	}
	return
}
