//go:build verif

// Package chainh is shared by vh-c16 and vh-c01: case type, generator, execution on the real
// sentinel API with custom slot chains of recording slots, and the Coq printer.
package chainh

import (
	"fmt"
	"strconv"
	"strings"

	sentinel "github.com/alibaba/sentinel-golang/api"
	"github.com/alibaba/sentinel-golang/core/base"
	"github.com/alibaba/sentinel-golang/core/config"
	"github.com/alibaba/sentinel-golang/core/hotspot"
	"github.com/alibaba/sentinel-golang/core/stat"

	"vh/internal/emit"
	"vh/internal/rng"
	"vh/internal/vclock"
)

// ---- case description -------------------------------------------------------------------

type Berr struct{ Type, Msg, Rule, Snap int64 }

// Beh is one behaviour of a slot. K: prep: ok|node|panic; check: pass|nil|wait|block|panic;
// stat: ok|panic.
type Beh struct {
	K string `json:"k"`
	B *Berr  `json:"b,omitempty"`
}

type SlotSpec struct {
	Kind  string `json:"kind"` // prep | check | stat
	ID    int    `json:"id"`
	Order uint32 `json:"order"`
	Real  bool   `json:"real,omitempty"` // stat: the real stat.DefaultSlot (Order comes from the object)
	Behs  []Beh  `json:"behs,omitempty"` // selected by ctx.Input.Flag mod len
}

type ChainSpec struct {
	Slots []SlotSpec `json:"slots"` // in insertion order
	// Default: the real global slot chain (api.GlobalSlotChain()). Slots then holds its model
	// image: the node-prepare slot, the hotspot rule-check slot (a hotspot rule on parameter 0 is
	// loaded for every resource of the case: it passes hashable arguments and panics on an
	// unhashable one, selected in the model by flag 1) and stat.DefaultSlot, all with negative
	// ids = "does not record its calls". The other built-in slots have no rules and no effect on
	// the observables.
	Default bool `json:"default,omitempty"`
}

// Unhashable is the argument value that stands for an unhashable Go value (a slice).
const Unhashable int64 = -999

// DefaultChainSlots is the model image of the global chain.
func DefaultChainSlots() []SlotSpec {
	return []SlotSpec{
		{Kind: "prep", ID: -1, Order: stat.PrepareSlotOrder, Behs: []Beh{{K: "node"}}},
		{Kind: "check", ID: -2, Order: hotspot.RuleCheckSlotOrder, Behs: []Beh{{K: "pass"}, {K: "panic"}}},
		{Kind: "stat", ID: -3, Order: stat.DefaultSlot.Order(), Real: true},
	}
}

type Op struct {
	Kind string `json:"kind"` // entry|exit|trace|callee|whenexit|tick|snap
	Res  int    `json:"res,omitempty"`
	Inb  bool   `json:"inb,omitempty"`
	Dflt bool   `json:"dflt,omitempty"` // entry: options whose value is the default are NOT passed (the pooled
	// EntryOptions must have been reset to the defaults by the previous call, whatever that call set)
	RType int32 `json:"rtype,omitempty"` // entry: WithResourceType (0 = ResTypeCommon, the default); the model
	// has no such field: a resource is its NAME, whatever classification a caller gives it
	Batch uint32  `json:"batch,omitempty"`
	Flag  int32   `json:"flag,omitempty"`
	Args  []int64 `json:"args,omitempty"`
	Chain int     `json:"chain,omitempty"`
	E     int     `json:"e,omitempty"`
	Err   int64   `json:"err,omitempty"`  // exit/trace: error id, 0 = none
	Addr  int64   `json:"addr,omitempty"` // callee
	HID   int     `json:"hid,omitempty"`
	HB    string  `json:"hb,omitempty"` // ok|err|panic
	Dt    uint64  `json:"dt,omitempty"`
}

type Case struct {
	ID     int         `json:"id"`
	NRes   int         `json:"nres"`
	Chains []ChainSpec `json:"chains"`
	Ops    []Op        `json:"ops"`
	// Long: entries are held open for long virtual times (ticks of a minute to hours, far beyond the
	// 10 s statistic window): what is compared is each completion's OWN response time (the done calls of
	// the recording slots, ctx.Rt()), live views and outcomes; the windowed node sums are not read
	Long bool `json:"long,omitempty"`
}

// ---- observations -------------------------------------------------------------------------

type Call struct {
	K     string `json:"k"` // prep|check|passed|blocked|done|handler
	ID    int    `json:"id"`
	Res   int    `json:"res,omitempty"`
	Batch int64  `json:"batch,omitempty"`
	Err   int64  `json:"err,omitempty"`
	Rt    int64  `json:"rt,omitempty"`
	B     *Berr  `json:"b,omitempty"`
}

type LiveView struct {
	E    int     `json:"e"`
	Err  int64   `json:"err"`
	Args []int64 `json:"args"`
	Addr int64   `json:"addr"`
}

type CntView struct {
	Key                               int
	Pass, Block, Done, Err, Rt, Gauge int64
}

type Obs struct {
	Kind    string     `json:"kind"` // entered|blocked|calls|none|snap
	E       int        `json:"e,omitempty"`
	Ctx     int        `json:"ctx,omitempty"`
	Pick    int        `json:"pick,omitempty"` // entry ops: the pooled context that was reused, -1 = fresh
	B       *Berr      `json:"b,omitempty"`
	Calls   []Call     `json:"calls,omitempty"`
	Live    []LiveView `json:"live,omitempty"`
	Cnt     []CntView  `json:"cnt,omitempty"`
	Ret     []Berr     `json:"ret,omitempty"`
	Escaped string     `json:"escaped,omitempty"` // a panic reached the caller (never expected)
	CtxErr  int64      `json:"ctx_err,omitempty"` // entered: e.Context().Err() right after Entry
}

// ---- values crossing the API ----------------------------------------------------------------

type vhErr struct{ id int64 }

func (e *vhErr) Error() string { return "vh error " + strconv.FormatInt(e.id, 10) }

type vhRule struct{ idx int64 }

func (r *vhRule) String() string       { return "vhRule" + strconv.FormatInt(r.idx, 10) }
func (r *vhRule) ResourceName() string { return "vh" }

var rulePool = func() []*vhRule {
	var rs []*vhRule
	for i := 0; i < 8; i++ {
		rs = append(rs, &vhRule{idx: int64(i)})
	}
	return rs
}()

func errID(err error) int64 {
	if err == nil {
		return 0
	}
	if v, ok := err.(*vhErr); ok {
		return v.id
	}
	return -1 // not one of ours: the error sentinel made from a recovered panic
}

func msgOf(k int64) string { return "m" + strconv.FormatInt(k, 10) }

func berrOf(b *base.BlockError) *Berr {
	if b == nil {
		return nil
	}
	r := &Berr{Type: int64(b.BlockType()), Msg: -1, Rule: -1, Snap: -1}
	if m := b.BlockMsg(); strings.HasPrefix(m, "m") {
		if v, err := strconv.ParseInt(m[1:], 10, 64); err == nil {
			r.Msg = v
		}
	}
	if tr := b.TriggeredRule(); tr != nil {
		if vr, ok := tr.(*vhRule); ok {
			r.Rule = vr.idx
		} else {
			r.Rule = -2
		}
	}
	if v, ok := b.TriggeredValue().(int64); ok {
		r.Snap = v
	}
	return r
}

func ResName(id, res int) string { return "cx-" + strconv.Itoa(id) + "-" + strconv.Itoa(res) }

// ---- execution on the implementation ------------------------------------------------------

type runner struct {
	c        *Case
	chains   []*base.SlotChain
	log      []Call
	ctxID    map[*base.EntryContext]int
	seenCtx  int // context seen by slot callbacks during the current Entry (-1 none)
	entries  []*base.SentinelEntry
	rets     []*base.BlockError
	errs     map[int64]*vhErr
	resIdx   map[string]int
	inbBase  CntView
	exited   map[int]bool // an exit op has been issued on this entry: e.Context() is stale
	hotRules bool
}

func (r *runner) noteCtx(ctx *base.EntryContext) int {
	id, ok := r.ctxID[ctx]
	if !ok {
		id = len(r.ctxID)
		r.ctxID[ctx] = id
	}
	return id
}

func behOf(s *SlotSpec, flag int32) Beh {
	if len(s.Behs) == 0 {
		return Beh{K: "ok"}
	}
	return s.Behs[int(uint32(flag))%len(s.Behs)]
}

type prepSlot struct {
	r *runner
	s SlotSpec
}

func (p *prepSlot) Order() uint32 { return p.s.Order }
func (p *prepSlot) Prepare(ctx *base.EntryContext) {
	p.r.seenCtx = p.r.noteCtx(ctx)
	p.r.log = append(p.r.log, Call{K: "prep", ID: p.s.ID})
	switch behOf(&p.s, ctx.Input.Flag).K {
	case "node":
		stat.DefaultResourceNodePrepareSlot.Prepare(ctx)
	case "panic":
		panic("vh: prepare slot panic")
	}
}

type checkSlot struct {
	r *runner
	s SlotSpec
}

func (c *checkSlot) Order() uint32 { return c.s.Order }

// writeVerdictInPlace: what a built-in slot does before it returns a block: ResetToBlocked* on the pooled result
func (c *checkSlot) writeVerdictInPlace(ctx *base.EntryContext) {
	// (type only: message / rule / snapshot written here would shine through into the block error of a
	// later slot that blocks with a shorter reset form - ResetToBlockedWith only overwrites what it is
	// given -, which is a matter of the slots' contract, not of the chain)
	id := c.s.ID
	if id < 0 {
		id = -id
	}
	ctx.RuleCheckResult.ResetToBlocked(base.BlockType(1 + id%4))
}
func (c *checkSlot) Check(ctx *base.EntryContext) *base.TokenResult {
	c.r.seenCtx = c.r.noteCtx(ctx)
	c.r.log = append(c.r.log, Call{K: "check", ID: c.s.ID})
	b := behOf(&c.s, ctx.Input.Flag)
	style := (c.s.ID + int(ctx.Input.Flag)) % 2
	switch b.K {
	case "nil":
		if (c.s.ID*5+int(ctx.Input.Flag))%3 == 1 {
			// a monitor-only / dry-run wrapper around a built-in slot: the block verdict is written IN PLACE
			// into the context's pooled result, but the slot lets the request pass (returns nil).  No slot
			// blocked => the request is admitted, whatever was left in the pooled result (model: CNil)
			c.writeVerdictInPlace(ctx)
		}
		return nil
	case "wait":
		return base.NewTokenResultShouldWait(0)
	case "panic":
		switch (c.s.ID*7 + int(ctx.Input.Flag)) % 3 {
		case 1:
			var m map[interface{}]int
			_ = m[[]int{1}] // runtime panic: hash of unhashable type (what a hotspot rule does with a slice argument)
		case 2:
			// the way a built-in slot fails half-way: the block verdict is already written IN PLACE into the
			// context's pooled result when the slot panics (e.g. while auditing the rejected request).  The
			// request is passed; whatever the slot left in the pooled result must not survive
			// (model: CPanic - the verdict of a slot that did not return does not exist)
			c.writeVerdictInPlace(ctx)
		}
		panic("vh: rule check slot panic")
	case "block":
		// Absent fields (-1) are really absent: the slot uses the shortest reset form that
		// sets what it has - ResetToBlocked(type), ResetToBlockedWithMessage(type, msg) or
		// ResetToBlockedWithCause(type, msg, rule, value) - resp. the NewTokenResultBlocked*
		// constructors, so nothing of an earlier block may shine through.
		var rule base.SentinelRule
		if b.B.Rule >= 0 {
			rule = rulePool[b.B.Rule]
		}
		msg := ""
		if b.B.Msg >= 0 {
			msg = msgOf(b.B.Msg)
		}
		var snap interface{}
		if b.B.Snap >= 0 {
			snap = b.B.Snap
		}
		bt := base.BlockType(b.B.Type)
		short := b.B.Rule < 0 && b.B.Snap < 0
		if style == 0 {
			// the way the built-in slots do it: mutate the context's pooled result
			r := ctx.RuleCheckResult
			switch {
			case short && b.B.Msg < 0:
				r.ResetToBlocked(bt)
			case short:
				r.ResetToBlockedWithMessage(bt, msg)
			default:
				r.ResetToBlockedWithCause(bt, msg, rule, snap)
			}
			return r
		}
		switch {
		case short && b.B.Msg < 0:
			return base.NewTokenResultBlocked(bt)
		case short:
			return base.NewTokenResultBlockedWithMessage(bt, msg)
		}
		return base.NewTokenResultBlockedWithCause(bt, msg, rule, snap)
	default: // pass
		if style == 0 {
			// the slot states its verdict on the pooled result (an earlier slot may have left one there)
			ctx.RuleCheckResult.ResetToPass()
			return ctx.RuleCheckResult
		}
		if (c.s.ID*5+int(ctx.Input.Flag))%3 == 2 {
			// an allow-list override after the verdict was written in place: a fresh pass result is returned
			c.writeVerdictInPlace(ctx)
		}
		return base.NewTokenResultPass()
	}
}

type statSlot struct {
	r *runner
	s SlotSpec
}

func (s *statSlot) Order() uint32 { return s.s.Order }
func (s *statSlot) res(ctx *base.EntryContext) int {
	if ctx.Resource == nil {
		return -1
	}
	if i, ok := s.r.resIdx[ctx.Resource.Name()]; ok {
		return i
	}
	return -2
}
func (s *statSlot) OnEntryPassed(ctx *base.EntryContext) {
	s.r.seenCtx = s.r.noteCtx(ctx)
	s.r.log = append(s.r.log, Call{K: "passed", ID: s.s.ID, Res: s.res(ctx), Batch: int64(ctx.Input.BatchCount)})
	if behOf(&s.s, ctx.Input.Flag).K == "panic" {
		panic("vh: stat slot panic (passed)")
	}
}
func (s *statSlot) OnEntryBlocked(ctx *base.EntryContext, be *base.BlockError) {
	s.r.seenCtx = s.r.noteCtx(ctx)
	s.r.log = append(s.r.log, Call{K: "blocked", ID: s.s.ID, Res: s.res(ctx), Batch: int64(ctx.Input.BatchCount), B: berrOf(be)})
	if behOf(&s.s, ctx.Input.Flag).K == "panic" {
		panic("vh: stat slot panic (blocked)")
	}
}
func (s *statSlot) OnCompleted(ctx *base.EntryContext) {
	s.r.log = append(s.r.log, Call{K: "done", ID: s.s.ID, Res: s.res(ctx), Batch: int64(ctx.Input.BatchCount), Err: errID(ctx.Err()), Rt: int64(ctx.Rt())})
	if behOf(&s.s, ctx.Input.Flag).K == "panic" {
		panic("vh: stat slot panic (completed)")
	}
}

func (r *runner) build() {
	hasDefault := false
	for ci := range r.c.Chains {
		if r.c.Chains[ci].Default {
			hasDefault = true
			sc := sentinel.GlobalSlotChain()
			for i := range r.c.Chains[ci].Slots {
				// a default chain of the case's own (api.BuildDefaultSlotChain()) with additional
				// recording statistic slots
				if s := r.c.Chains[ci].Slots[i]; s.ID >= 0 && s.Kind == "stat" {
					if sc == sentinel.GlobalSlotChain() {
						sc = sentinel.BuildDefaultSlotChain()
					}
					sc.AddStatSlot(&statSlot{r, s})
				}
			}
			r.chains = append(r.chains, sc)
			continue
		}
		sc := base.NewSlotChain()
		for i := range r.c.Chains[ci].Slots {
			s := r.c.Chains[ci].Slots[i]
			switch s.Kind {
			case "prep":
				sc.AddStatPrepareSlot(&prepSlot{r, s})
			case "check":
				sc.AddRuleCheckSlot(&checkSlot{r, s})
			case "stat":
				if s.Real {
					sc.AddStatSlot(stat.DefaultSlot)
				} else {
					sc.AddStatSlot(&statSlot{r, s})
				}
			}
		}
		r.chains = append(r.chains, sc)
	}
	r.hotRules = hasDefault
	if hasDefault {
		var rules []*hotspot.Rule
		for k := 0; k < r.c.NRes; k++ {
			rules = append(rules, &hotspot.Rule{Resource: ResName(r.c.ID, k), MetricType: hotspot.QPS, ControlBehavior: hotspot.Reject,
				ParamIndex: 0, Threshold: 1 << 40, DurationInSec: 1})
		}
		if _, err := hotspot.LoadRules(rules); err != nil {
			panic(err)
		}
	}
}

func (r *runner) err(id int64) error {
	if id == 0 {
		return nil
	}
	e, ok := r.errs[id]
	if !ok {
		e = &vhErr{id}
		r.errs[id] = e
	}
	return e
}

func (r *runner) counters(key int) CntView {
	var n *stat.ResourceNode
	if key < 0 {
		n = stat.InboundNode()
	} else {
		n = stat.GetResourceNode(ResName(r.c.ID, key))
	}
	v := NodeCounters(n)
	v.Key = key
	if n == nil {
		return v
	}
	if key < 0 {
		b := r.inbBase
		v.Pass -= b.Pass
		v.Block -= b.Block
		v.Done -= b.Done
		v.Err -= b.Err
		v.Rt -= b.Rt
		v.Gauge -= b.Gauge
	}
	return v
}

// NodeCounters reads a node's sums over its whole underlying array (20 x 500 ms by default,
// whatever geometry the node's default view was created with) and its concurrency gauge.
func NodeCounters(n *stat.ResourceNode) CntView {
	var v CntView
	if n == nil {
		return v
	}
	rs, err := n.GenerateReadStat(config.GlobalStatisticSampleCountTotal(), config.GlobalStatisticIntervalMsTotal())
	if err != nil {
		panic(err)
	}
	v.Pass = rs.GetSum(base.MetricEventPass)
	v.Block = rs.GetSum(base.MetricEventBlock)
	v.Done = rs.GetSum(base.MetricEventComplete)
	v.Err = rs.GetSum(base.MetricEventError)
	v.Rt = rs.GetSum(base.MetricEventRt)
	v.Gauge = int64(n.CurrentConcurrency())
	return v
}

func argsOf(ctx *base.EntryContext) []int64 {
	out := []int64{}
	for _, a := range ctx.Input.Args {
		if v, ok := a.(int64); ok {
			out = append(out, v)
		} else {
			out = append(out, -999)
		}
	}
	return out
}

func (r *runner) snapshot() Obs {
	o := Obs{Kind: "snap"}
	for i, e := range r.entries {
		if e == nil || r.exited[i] {
			continue
		}
		ctx := e.Context()
		lv := LiveView{E: i, Err: errID(ctx.Err()), Args: argsOf(ctx)}
		if a, ok := ctx.GetPair("address").(string); ok && strings.HasPrefix(a, "a") {
			lv.Addr, _ = strconv.ParseInt(a[1:], 10, 64)
		}
		o.Live = append(o.Live, lv)
	}
	if !r.c.Long {
		for k := 0; k < r.c.NRes; k++ {
			o.Cnt = append(o.Cnt, r.counters(k))
		}
		o.Cnt = append(o.Cnt, r.counters(-1))
	}
	for _, b := range r.rets {
		o.Ret = append(o.Ret, *berrOf(b))
	}
	return o
}

// guard runs f and reports a panic that reaches the caller.
func guard(f func()) (escaped string) {
	defer func() {
		if e := recover(); e != nil {
			escaped = fmt.Sprint(e)
		}
	}()
	f()
	return ""
}

// CaseBaseMs is the virtual time at which case id starts (bucket aligned; cases are far
// enough apart that no statistic window of an earlier case is visible). It lies above the real
// clock: the global inbound node initialises its buckets from the real clock at package init
// and drops writes whose time is behind them.
func CaseBaseMs(id int) uint64 { return 3000000000000 + uint64(id%1000000)*100000 }

// clockFloor: a long-hold case advances the virtual clock by hours, past the start of the cases that
// follow; the clock never goes backwards within a process (the statistic arrays drop writes behind
// their newest bucket), so a case starts at CaseBaseMs(id) or, if the clock is already beyond it, one
// case distance after where the clock stands (bucket aligned).  Only time DIFFERENCES are observed
// (response times, window membership), so the shift does not change any observation.
var clockFloor uint64

// SetCaseClock starts case id on the virtual clock
func SetCaseClock(clk interface {
	SetMs(uint64)
}, id int) {
	b := CaseBaseMs(id)
	if b < clockFloor {
		b = clockFloor
	}
	clk.SetMs(b)
}

// EndCaseClock notes where the clock stands when a case ends
func EndCaseClock(nowMs uint64) {
	if f := (nowMs/100000 + 2) * 100000; f > clockFloor {
		clockFloor = f
	}
}

// Run executes the case on the implementation and returns one observation per operation.
func Run(c *Case, clk *vclock.Clock) []Obs {
	r := &runner{c: c, ctxID: map[*base.EntryContext]int{}, errs: map[int64]*vhErr{}, resIdx: map[string]int{}, exited: map[int]bool{}}
	for k := 0; k < c.NRes; k++ {
		r.resIdx[ResName(c.ID, k)] = k
	}
	SetCaseClock(clk, c.ID)
	defer func() { EndCaseClock(clk.CurrentTimeMillis()) }()
	r.build()
	r.inbBase = CntView{}
	r.inbBase = r.counters(-1)
	r.inbBase.Key = -1
	var out []Obs
	for _, o := range c.Ops {
		switch o.Kind {
		case "entry":
			r.log = nil
			r.seenCtx = -1
			nBefore := len(r.ctxID)
			var e *base.SentinelEntry
			var b *base.BlockError
			tt := base.Outbound
			if o.Inb {
				tt = base.Inbound
			}
			var opts []sentinel.EntryOption
			if !o.Dflt || o.Inb {
				opts = append(opts, sentinel.WithTrafficType(tt))
			}
			if !o.Dflt || o.Batch != 1 {
				opts = append(opts, sentinel.WithBatchCount(o.Batch))
			}
			if !o.Dflt || o.Flag != 0 {
				opts = append(opts, sentinel.WithFlag(o.Flag))
			}
			if o.RType != 0 {
				opts = append(opts, sentinel.WithResourceType(base.ResourceType(o.RType)))
			}
			if r.chains[o.Chain] != sentinel.GlobalSlotChain() {
				// the global chain is reached the way applications reach it: no WithSlotChain option
				opts = append(opts, sentinel.WithSlotChain(r.chains[o.Chain]))
			}
			if len(o.Args) > 0 {
				as := make([]interface{}, len(o.Args))
				for i, a := range o.Args {
					if a == Unhashable {
						as[i] = []int{1}
					} else {
						as[i] = a
					}
				}
				opts = append(opts, sentinel.WithArgs(as...))
			}
			esc := guard(func() { e, b = sentinel.Entry(ResName(c.ID, o.Res), opts...) })
			ob := Obs{Escaped: esc, Calls: r.log}
			eid := len(r.entries)
			cid := r.seenCtx
			if e != nil {
				cid = r.noteCtx(e.Context())
			}
			if cid >= nBefore || cid < 0 {
				ob.Pick = -1
			} else {
				ob.Pick = cid
			}
			ob.Ctx = cid
			ob.E = eid
			if b != nil {
				ob.Kind = "blocked"
				ob.B = berrOf(b)
				r.rets = append(r.rets, b)
				r.entries = append(r.entries, nil)
			} else {
				ob.Kind = "entered"
				r.entries = append(r.entries, e)
				if e != nil && e.Context() != nil {
					ob.CtxErr = errID(e.Context().Err())
				}
			}
			out = append(out, ob)
		case "exit":
			r.log = nil
			ob := Obs{Kind: "calls"}
			if o.E >= 0 && o.E < len(r.entries) && r.entries[o.E] != nil {
				e := r.entries[o.E]
				r.exited[o.E] = true
				if o.Err != 0 {
					ob.Escaped = guard(func() { e.Exit(base.WithError(r.err(o.Err))) })
				} else {
					ob.Escaped = guard(func() { e.Exit() })
				}
			}
			ob.Calls = r.log
			out = append(out, ob)
		case "trace":
			ob := Obs{Kind: "none"}
			if o.E >= 0 && o.E < len(r.entries) && r.entries[o.E] != nil {
				e := r.entries[o.E]
				ob.Escaped = guard(func() { sentinel.TraceError(e, r.err(o.Err)) })
			}
			out = append(out, ob)
		case "callee":
			ob := Obs{Kind: "none"}
			if o.E >= 0 && o.E < len(r.entries) && r.entries[o.E] != nil {
				e := r.entries[o.E]
				a := ""
				if o.Addr != 0 {
					a = "a" + strconv.FormatInt(o.Addr, 10)
				}
				ob.Escaped = guard(func() { sentinel.TraceCallee(e, a) })
			}
			out = append(out, ob)
		case "whenexit":
			ob := Obs{Kind: "none"}
			if o.E >= 0 && o.E < len(r.entries) && r.entries[o.E] != nil {
				hid, hb := o.HID, o.HB
				r.entries[o.E].WhenExit(func(_ *base.SentinelEntry, _ *base.EntryContext) error {
					r.log = append(r.log, Call{K: "handler", ID: hid})
					switch hb {
					case "err":
						return &vhErr{-5}
					case "panic":
						panic("vh: exit handler panic")
					}
					return nil
				})
			}
			out = append(out, ob)
		case "tick":
			clk.AddMs(o.Dt)
			out = append(out, Obs{Kind: "none"})
		case "snap":
			out = append(out, r.snapshot())
		}
	}
	// safety net: leave nothing in flight for later cases
	for _, e := range r.entries {
		if e != nil {
			guard(func() { e.Exit() })
		}
	}
	if r.hotRules {
		if _, err := hotspot.LoadRules(nil); err != nil {
			panic(err)
		}
	}
	// every case has resource names of its own: drop their nodes (memory of long runs)
	stat.ResetResourceNodeMap()
	return out
}

// ---- Coq printer ----------------------------------------------------------------------------

func coqBerr(b *Berr) string {
	if b == nil {
		// a statistic slot was shown (or the caller was handed) a nil block error: no model run
		// produces this value, so the case is a correspondence mismatch (the monitor reports it too)
		return "(B (-99) (-99) (-99) (-99))"
	}
	return fmt.Sprintf("(B %s %s %s %s)", emit.Z(b.Type), emit.Z(b.Msg), emit.Z(b.Rule), emit.Z(b.Snap))
}

func coqSlot(s *SlotSpec) string {
	var bs []string
	for _, b := range s.Behs {
		switch s.Kind {
		case "prep":
			bs = append(bs, map[string]string{"ok": "POk", "node": "PNode", "panic": "PPanic"}[b.K])
		case "check":
			if b.K == "block" {
				bs = append(bs, "CBlock "+coqBerr(b.B))
			} else {
				bs = append(bs, map[string]string{"pass": "CPass", "nil": "CNil", "wait": "CWait", "panic": "CPanic"}[b.K])
			}
		case "stat":
			bs = append(bs, map[string]string{"ok": "SOk", "panic": "SPanic"}[b.K])
		}
	}
	switch s.Kind {
	case "prep":
		return fmt.Sprintf("mkP %s %d %s", emit.Z(int64(s.ID)), s.Order, emit.List(bs))
	case "check":
		return fmt.Sprintf("mkC %s %d %s", emit.Z(int64(s.ID)), s.Order, emit.List(bs))
	default:
		return fmt.Sprintf("mkS %s %d %s %s", emit.Z(int64(s.ID)), s.Order, emit.B(s.Real), emit.List(bs))
	}
}

func coqCalls(cs []Call) string {
	var it []string
	for _, c := range cs {
		switch c.K {
		case "prep":
			it = append(it, fmt.Sprintf("LPrep %d", c.ID))
		case "check":
			it = append(it, fmt.Sprintf("LCheck %d", c.ID))
		case "passed":
			it = append(it, fmt.Sprintf("LPassed %d %s %s", c.ID, emit.Z(int64(c.Res)), emit.Z(c.Batch)))
		case "blocked":
			it = append(it, fmt.Sprintf("LBlocked %d %s %s %s", c.ID, emit.Z(int64(c.Res)), emit.Z(c.Batch), coqBerr(c.B)))
		case "done":
			it = append(it, fmt.Sprintf("LDone %d %s %s %s %s", c.ID, emit.Z(int64(c.Res)), emit.Z(c.Batch), emit.Z(c.Err), emit.Z(c.Rt)))
		case "handler":
			it = append(it, fmt.Sprintf("LHandler %d", c.ID))
		}
	}
	return emit.List(it)
}

// Coq prints the case as a term `Case id chains ops observed` of Corr.Run_C16.case.
func Coq(c *Case, obs []Obs) string {
	var chs []string
	for ci := range c.Chains {
		var ss []string
		for i := range c.Chains[ci].Slots {
			ss = append(ss, coqSlot(&c.Chains[ci].Slots[i]))
		}
		chs = append(chs, emit.List(ss))
	}
	var ops, os_ []string
	var keys []string
	for k := 0; k < c.NRes; k++ {
		keys = append(keys, strconv.Itoa(k))
	}
	keys = append(keys, "(-1)")
	if c.Long {
		keys = nil
	}
	for i, o := range c.Ops {
		ob := obs[i]
		put := func(s string) {
			if ob.Escaped != "" {
				// a panic reached the caller: an observation the model never produces
				s = "REscaped"
			}
			os_ = append(os_, s)
		}
		switch o.Kind {
		case "entry":
			ops = append(ops, fmt.Sprintf("OEntry %d %s %d %d %s %d %s", o.Res, emit.B(o.Inb), o.Batch, o.Flag, emit.ListZ(o.Args), o.Chain, emit.Z(int64(ob.Pick))))
			if ob.Kind == "blocked" {
				put(fmt.Sprintf("RBlocked %s %s %s", emit.Z(int64(ob.Ctx)), coqBerr(ob.B), coqCalls(ob.Calls)))
			} else {
				put(fmt.Sprintf("REntered %d %s %s", ob.E, emit.Z(int64(ob.Ctx)), coqCalls(ob.Calls)))
			}
		case "exit":
			ops = append(ops, fmt.Sprintf("OExit %s %s", emit.Z(int64(o.E)), emit.Z(o.Err)))
			put("RCalls " + coqCalls(ob.Calls))
		case "trace":
			ops = append(ops, fmt.Sprintf("OTrace %s %s", emit.Z(int64(o.E)), emit.Z(o.Err)))
			put("RNone")
		case "callee":
			ops = append(ops, fmt.Sprintf("OCallee %s %s", emit.Z(int64(o.E)), emit.Z(o.Addr)))
			put("RNone")
		case "whenexit":
			ops = append(ops, fmt.Sprintf("OWhenExit %s %d %s", emit.Z(int64(o.E)), o.HID, map[string]string{"ok": "HOk", "err": "HErr", "panic": "HPanic"}[o.HB]))
			put("RNone")
		case "tick":
			ops = append(ops, fmt.Sprintf("OTick %d", o.Dt))
			put("RNone")
		case "snap":
			ops = append(ops, "OSnap "+emit.List(keys))
			var lv, cn, rt []string
			for _, l := range ob.Live {
				lv = append(lv, fmt.Sprintf("(%d, (%s, %s, %s))", l.E, emit.Z(l.Err), emit.ListZ(l.Args), emit.Z(l.Addr)))
			}
			for _, v := range ob.Cnt {
				cn = append(cn, fmt.Sprintf("(%s, (%s, %s, %s), (%s, %s, %s))", emit.Z(int64(v.Key)), emit.Z(v.Pass), emit.Z(v.Block), emit.Z(v.Done), emit.Z(v.Err), emit.Z(v.Rt), emit.Z(v.Gauge)))
			}
			for i := range ob.Ret {
				rt = append(rt, coqBerr(&ob.Ret[i]))
			}
			put(fmt.Sprintf("RSnap %s %s %s", emit.List(lv), emit.List(cn), emit.List(rt)))
		}
	}
	return fmt.Sprintf("Case %d %s\n %s\n %s", c.ID, emit.List(chs), emit.List(ops), emit.List(os_))
}

// ---- generator --------------------------------------------------------------------------------

// Profile selects the input class. C16: colliding orders, panics in every kind of slot and in
// exit handlers. C01: accounting-relevant chains (node prepare + real stat slot), no panics in
// statistic slots or exit handlers (outside C01's domain), more resources / inbound traffic.
type Profile int

const (
	ProfC16 Profile = iota
	ProfC01
)

var orderSet = []int64{0, 1, 2, 2, 999, 1000, 1000, 1001, 4294967295}

func genBerr(r *rng.R) *Berr {
	b := &Berr{Type: r.Range(0, 7), Msg: r.Range(0, 9), Rule: r.Range(-1, 7), Snap: r.Range(0, 1000)}
	switch r.Intn(4) {
	case 0: // type only
		b.Msg, b.Rule, b.Snap = -1, -1, -1
	case 1: // type and message
		b.Rule, b.Snap = -1, -1
	}
	return b
}

func genChain(r *rng.R, prof Profile, nextID *int) ChainSpec {
	var slots []SlotSpec
	id := func() int { *nextID++; return *nextID }
	nprep := r.Intn(3)
	ncheck := r.Intn(6)
	nstat := r.Intn(4)
	panicOK := prof == ProfC16
	// long chains (C16 only, 1 chain in 7): 13-24 slots of at least one kind over 2-4 distinct order
	// values, inserted in shuffled (non-monotone) order. sort.SliceStable and an unstable sort
	// agree on short slices (Go's sort.Slice is an insertion sort up to 12 elements), so ties
	// must be exercised on slices longer than that.
	ords := orderSet
	big := prof == ProfC16 && r.Chance(1, 7)
	if big {
		k := 2 + r.Intn(3)
		ords = nil
		for len(ords) < k {
			ords = append(ords, r.PickI(0, 1, 2, 999, 1000, 1001, 4294967295))
		}
		which := 1 + r.Intn(7) // bit set of the kinds that are long; never empty
		if which&1 != 0 {
			ncheck = 13 + r.Intn(12)
		}
		if which&2 != 0 {
			nprep = 13 + r.Intn(12)
		}
		if which&4 != 0 {
			nstat = 13 + r.Intn(12)
		}
	}
	nodeOrd := uint32(r.PickI(orderSet...))
	hasNode := prof == ProfC01 || r.Chance(3, 4)
	hasReal := prof == ProfC01 || r.Chance(1, 2)
	f1 := prof == ProfC01 && r.Chance(1, 10) // known-finding class: a prepare slot that may panic before the node is prepared
	for i := 0; i < nprep; i++ {
		s := SlotSpec{Kind: "prep", ID: id(), Order: uint32(r.PickI(ords...))}
		n := 1 + r.Intn(3)
		for j := 0; j < n; j++ {
			k := "ok"
			if (!big && r.Chance(1, 6)) || (big && r.Chance(1, 40)) {
				k = "panic"
			}
			s.Behs = append(s.Behs, Beh{K: k})
		}
		slots = append(slots, s)
	}
	for i := 0; i < ncheck; i++ {
		s := SlotSpec{Kind: "check", ID: id(), Order: uint32(r.PickI(ords...))}
		n := 1 + r.Intn(4)
		for j := 0; j < n; j++ {
			x := r.Intn(20)
			if big && r.Chance(3, 4) {
				// long chains: mostly passing slots, so that long runs of tied slots are executed;
				// the blocking ones then sit among tied neighbours
				x = r.Intn(12)
			}
			switch {
			case x < 9:
				s.Behs = append(s.Behs, Beh{K: "pass"})
			case x < 12:
				s.Behs = append(s.Behs, Beh{K: "nil"})
			case x < 13:
				s.Behs = append(s.Behs, Beh{K: "wait"})
			case x < 18:
				s.Behs = append(s.Behs, Beh{K: "block", B: genBerr(r)})
			default:
				s.Behs = append(s.Behs, Beh{K: "panic"})
			}
		}
		slots = append(slots, s)
	}
	for i := 0; i < nstat; i++ {
		s := SlotSpec{Kind: "stat", ID: id(), Order: uint32(r.PickI(ords...))}
		n := 1 + r.Intn(3)
		for j := 0; j < n; j++ {
			k := "ok"
			if panicOK && ((!big && r.Chance(1, 8)) || (big && r.Chance(1, 40))) {
				k = "panic"
			}
			s.Behs = append(s.Behs, Beh{K: k})
		}
		slots = append(slots, s)
	}
	if hasReal {
		slots = append(slots, SlotSpec{Kind: "stat", ID: id(), Order: stat.DefaultSlot.Order(), Real: true})
	}
	// shuffle the insertion order
	p := r.Perm(len(slots))
	sh := make([]SlotSpec, len(slots))
	for i, j := range p {
		sh[i] = slots[j]
	}
	slots = sh
	if hasNode {
		node := SlotSpec{Kind: "prep", ID: id(), Order: nodeOrd, Behs: []Beh{{K: "node"}}}
		if prof == ProfC01 && !f1 {
			// C01's domain: no prepare slot may panic before the node is prepared. Keep the node
			// prepare slot first: lowest order among the panicking prepare slots and inserted first.
			min := nodeOrd
			for _, s := range slots {
				if s.Kind == "prep" && s.Order < min {
					min = s.Order
				}
			}
			node.Order = min
			slots = append([]SlotSpec{node}, slots...)
		} else {
			at := r.Intn(len(slots) + 1)
			slots = append(slots[:at], append([]SlotSpec{node}, slots[at:]...)...)
		}
	}
	return ChainSpec{Slots: slots}
}

// lateStatSlot is a recording statistic slot ordered behind every counting slot whose callbacks
// panic for some of the flags.
func lateStatSlot(r *rng.R, id int) SlotSpec {
	s := SlotSpec{Kind: "stat", ID: id, Order: uint32(r.PickI(5001, 4294967295))}
	n := 2 + r.Intn(3)
	for j := 0; j < n; j++ {
		k := "ok"
		if j == 1 || r.Chance(1, 3) {
			k = "panic"
		}
		s.Behs = append(s.Behs, Beh{K: k})
	}
	return s
}

// Gen generates case id.
func Gen(r *rng.R, id int, prof Profile) *Case {
	c := &Case{ID: id}
	c.NRes = 1 + r.Intn(3)
	nch := 1 + r.Intn(3)
	next := 0
	for i := 0; i < nch; i++ {
		if prof == ProfC01 && i == 0 && r.Chance(3, 5) {
			ch := ChainSpec{Slots: DefaultChainSlots(), Default: true}
			if r.Chance(1, 4) {
				// BuildDefaultSlotChain() + a recording statistic slot behind all built-in ones
				// that panics for some requests
				next++
				ch.Slots = append(ch.Slots, lateStatSlot(r, next))
			}
			c.Chains = append(c.Chains, ch)
			continue
		}
		ch := genChain(r, prof, &next)
		if prof == ProfC01 && r.Chance(1, 5) {
			// a recording statistic slot behind stat.DefaultSlot that panics for some requests:
			// the counting slot has then already counted, and must not be told again
			next++
			ch.Slots = append(ch.Slots, lateStatSlot(r, next))
		}
		c.Chains = append(c.Chains, ch)
	}
	c.Long = prof == ProfC01 && r.Chance(1, 6)
	nops := 8 + r.Intn(34)
	nent := 0
	var total uint64
	hid := 100
	for i := 0; i < nops; i++ {
		x := r.Intn(100)
		switch {
		case nent == 0 || x < 42:
			o := Op{Kind: "entry", Res: r.Intn(c.NRes), Inb: r.Chance(1, 2), Flag: int32(r.Intn(6)), Chain: r.Intn(nch)}
			o.Batch = uint32(r.PickI(1, 1, 1, 2, 3, 0, 7, 4294967295))
			na := int(r.PickI(0, 0, 1, 1, 2, 3))
			for j := 0; j < na; j++ {
				o.Args = append(o.Args, r.Range(1, 50))
			}
			if prof == ProfC01 {
				// one resource NAME entered with different option sets while entries are in flight: the
				// classification varies per call (a web adapter and hand-written code sharing a name)
				o.RType = int32(r.PickI(0, 0, 0, 1, 2, 3, 6))
				o.Dflt = r.Chance(1, 2) // default-valued options left out: a call with default options after one with others
				if na > 0 && r.Chance(1, 5) {
					o.Args[r.Intn(na)] = Unhashable
				}
				if c.Chains[o.Chain].Default {
					// the hotspot rule on parameter 0 panics on an unhashable value: flag 1 in the model
					o.Flag = 0
					if na > 0 && o.Args[0] == Unhashable {
						o.Flag = 1
					}
				}
			}
			c.Ops = append(c.Ops, o)
			nent++
		case x < 68:
			o := Op{Kind: "exit", E: r.Intn(nent)}
			if r.Chance(1, 12) {
				o.E = nent + r.Intn(2) // not an entry yet / at all
			}
			if r.Chance(2, 5) {
				o.Err = r.Range(1, 9)
			}
			c.Ops = append(c.Ops, o)
		case x < 76:
			o := Op{Kind: "trace", E: r.Intn(nent), Err: r.Range(0, 9)}
			c.Ops = append(c.Ops, o)
		case x < 80:
			c.Ops = append(c.Ops, Op{Kind: "callee", E: r.Intn(nent), Addr: r.Range(0, 5)})
		case x < 85:
			hb := "ok"
			if r.Chance(1, 4) {
				hb = "err"
			} else if r.Chance(1, 3) {
				hb = "panic" // recovered per handler (a9e6cc9): also within C01's histories now
			}
			hid++
			c.Ops = append(c.Ops, Op{Kind: "whenexit", E: r.Intn(nent), HID: hid, HB: hb})
		case x < 92:
			dt := uint64(r.PickI(0, 1, 2, 5, 17, 100, 499, 500, 501))
			if c.Long {
				dt = uint64(r.PickI(59999, 60000, 60001, 60002, 61000, 120000, 3600000, 7200001, 500, 1))
			} else if total+dt > 8000 {
				dt = 0
			}
			total += dt
			c.Ops = append(c.Ops, Op{Kind: "tick", Dt: dt})
		default:
			c.Ops = append(c.Ops, Op{Kind: "snap"})
		}
	}
	// leave nothing in flight: exit every entry (some for the second time, some blocked), look again
	c.Ops = append(c.Ops, Op{Kind: "snap"})
	for _, e := range r.Perm(nent) {
		o := Op{Kind: "exit", E: e}
		if r.Chance(1, 4) {
			o.Err = r.Range(1, 9)
		}
		c.Ops = append(c.Ops, o)
	}
	c.Ops = append(c.Ops, Op{Kind: "snap"})
	return c
}
