//go:build verif

// Package hotspotkit is shared by vh-c05 and vh-c06: the value pool that maps Go interface{}
// arguments to integer key ids, the case format, the runner that drives the public API under
// the virtual clock, and the printer of Coq case terms for Corr.Run_C05 / Corr.Run_C06.
package hotspotkit

import (
	"fmt"
	"math"
	"strconv"
	"strings"
	"sync/atomic"
	"time"

	sentinel "github.com/alibaba/sentinel-golang/api"
	"github.com/alibaba/sentinel-golang/core/base"
	"github.com/alibaba/sentinel-golang/core/hotspot"
	"github.com/alibaba/sentinel-golang/core/hotspot/cache"

	"vh/internal/emit"
	"vh/internal/rng"
	"vh/internal/vclock"
)

type pair struct {
	A int
	B string
}

// NaNBase: key ids >= NaNBase are NaN arguments; each occurrence is a key of its own (NaN != NaN),
// the id travels in the NaN payload so that cache dumps can be mapped back.
const NaNBase = 1000

// pool[i] has key id i+1. Two entries are different keys for Go (different dynamic type or
// different value), by construction. ids are assigned here, not by a Go map.
var pool = []struct {
	Kind string
	V    interface{}
}{
	{"int", int(1)}, {"int", int(2)}, {"int", int(3)}, {"int64", int64(1)},
	{"string", "a"}, {"string", "b"}, {"string", "1"},
	{"bool", true}, {"bool", false},
	{"float64", float64(1.5)}, {"float64", float64(1)},
	{"struct", pair{1, "x"}}, {"struct", pair{2, "x"}},
	{"int32", int32(1)}, {"uint8", uint8(1)}, {"float32", float32(1.5)},
	{"string", ""}, {"int", int(0)}, {"float64", float64(0)},
}

// PoolSize is the number of ordinary key ids (1..PoolSize).
var PoolSize = len(pool)

// ZeroFloatID is the key id of float64 0; -0.0 is the same Go map key and shares the id.
const ZeroFloatID = 19

// NegZeroArg is a pseudo id accepted in Req.Args: float64 -0.0 (key id ZeroFloatID).
const NegZeroArg = -2

// KindOf returns the Go type of key id.
func KindOf(id int) string {
	if id >= NaNBase {
		return "NaN"
	}
	if id == NegZeroArg {
		return "float64"
	}
	if id >= 1 && id <= len(pool) {
		return pool[id-1].Kind
	}
	return "nil"
}

// KeyID canonicalises an argument id to its key id.
func KeyID(id int) int {
	if id == NegZeroArg {
		return ZeroFloatID
	}
	return id
}

func goValue(id int) interface{} {
	switch {
	case id == 0:
		return nil
	case id == NegZeroArg:
		return math.Copysign(0, -1)
	case id >= NaNBase:
		return math.Float64frombits(0x7FF8000000000000 | uint64(id))
	default:
		return pool[id-1].V
	}
}

// GoValue is the Go argument of key / argument id.
func GoValue(id int) interface{} { return goValue(id) }

var reverse map[interface{}]int

func init() {
	reverse = map[interface{}]int{}
	for i, p := range pool {
		reverse[p.V] = i + 1
	}
}

func idOfGoValue(v interface{}) int {
	if f, ok := v.(float64); ok && f != f {
		return int(math.Float64bits(f) & 0xFFFFFFFF)
	}
	if id, ok := reverse[v]; ok {
		return id
	}
	return -1
}

// KeyStrings: attachment key strings, id = index+1 (0 = "").
var KeyStrings = []string{"k1", "k2", "uid"}

func keyString(id int) string {
	if id <= 0 {
		return ""
	}
	return KeyStrings[id-1]
}

type Rule struct {
	Metric   int        `json:"metric"`   // 0 concurrency, 1 qps
	Behavior int        `json:"behavior"` // 0 reject, 1 throttling
	Idx      int        `json:"idx"`
	Key      int        `json:"key"` // 0 = no ParamKey
	Thr      int64      `json:"thr"`
	MaxQ     int64      `json:"maxq"`
	Burst    int64      `json:"burst"`
	Dur      int64      `json:"dur"`
	Cap      int64      `json:"cap"`
	Spec     [][2]int64 `json:"spec,omitempty"` // key id, threshold
}

type Req struct {
	Args  []int    `json:"args"`           // 0 = nil, key id, NegZeroArg, >= NaNBase: NaN
	Atts  [][2]int `json:"atts,omitempty"` // key-string id, value id
	Batch uint32   `json:"batch"`
}

type Op struct {
	Kind string `json:"kind"` // tick | enter | exit
	Ms   int64  `json:"ms,omitempty"`
	Res  int    `json:"res,omitempty"`
	Req  *Req   `json:"req,omitempty"`
	K    int    `json:"k,omitempty"`
}

type Case struct {
	ID    int      `json:"id"`
	Adv   bool     `json:"advance_on_sleep"`
	Rules [][]Rule `json:"rules"` // per resource
	Ops   []Op     `json:"ops"`
	// Reuse: the caller owns ONE argument slice and ONE attachment map for the whole case, re-fills
	// them for every request and overwrites them as soon as Entry has returned (legal: the API
	// promises to keep its own copy). Invisible to the model: same decisions, same counters.
	Reuse bool `json:"caller_reuses_containers,omitempty"`
	// Reload: a rule reload in which every rule of the case is unchanged is started before op At,
	// and the next N ops run while it is half done (see Reload). Invisible to the model.
	Reload *Reload `json:"reload,omitempty"`
}

// Reload describes a reload of the rules of resource Res in which all rules of the case stay as they
// are and one rule with a user-defined control behaviour (ProbeBehavior) is added at position Pos of
// the resource's list. The controller generator registered for that behaviour runs ops At..At+N-1 of
// the case - i.e. while the rule manager is in the middle of rebuilding the controller lists - and
// then either declines the rule (returns nil: the rule is ignored, the load succeeds) or, with Fail,
// panics (the load reports an error and must leave the live rules as they were). PerRes: the reload
// is hotspot.LoadRulesOfResource, else the whole-set hotspot.LoadRules.
type Reload struct {
	At     int  `json:"before_op"`
	N      int  `json:"ops_inside"`
	Res    int  `json:"res"`
	Pos    int  `json:"probe_rule_position"`
	PerRes bool `json:"per_resource"`
	Fail   bool `json:"generator_panics"`
}

// ProbeBehavior is the user-defined control behaviour of the probe rule.
const ProbeBehavior = hotspot.ControlBehavior(7)

var probeHook func()

func init() {
	err := hotspot.SetTrafficShapingGenerator(ProbeBehavior, func(r *hotspot.Rule, _ *hotspot.ParamsMetric) hotspot.TrafficShapingController {
		if h := probeHook; h != nil {
			h()
		}
		return nil
	})
	if err != nil {
		panic(err)
	}
}

// Issues found by the last Run that are not decisions: what a reload did to the live controller
// lists, panics of the code under test. The harness reports them as monitor failures.
type Issue struct{ Sig, Detail string }

var LastIssues []Issue

func issue(sig, format string, a ...interface{}) {
	LastIssues = append(LastIssues, Issue{sig, fmt.Sprintf(format, a...)})
}

// Decorate adds the driving modes that the model cannot see (caller-owned containers, a reload in
// progress) to a generated case; r must be a stream of its own (the case itself stays as generated).
func Decorate(r *rng.R, c *Case) {
	if len(c.Ops) == 0 || len(c.Rules) == 0 {
		return
	}
	c.Reuse = r.Chance(1, 3)
	if r.Chance(1, 3) {
		rl := &Reload{Res: r.Intn(len(c.Rules)), PerRes: r.Bool(), Fail: r.Chance(1, 3)}
		// prefer a resource guarded by several rules: a rebuilt list can then be out of step
		for ri := range c.Rules {
			if len(c.Rules[ri]) > len(c.Rules[rl.Res]) {
				rl.Res = ri
			}
		}
		rl.Pos = r.Intn(len(c.Rules[rl.Res]) + 1)
		rl.At = r.Intn(len(c.Ops) + 1)
		rl.N = int(r.PickI(0, 1, 2, 3, 5))
		if rl.At+rl.N > len(c.Ops) {
			rl.N = len(c.Ops) - rl.At
		}
		c.Reload = rl
	}
}

type Obs struct {
	Kind    string  `json:"kind"` // none | pass | block
	Idx     int     `json:"idx,omitempty"`
	HasTV   bool    `json:"has_tv,omitempty"`
	TV      int64   `json:"tv,omitempty"`
	Type    string  `json:"type,omitempty"`
	Sleeps  []int64 `json:"sleeps,omitempty"` // ns
	AtMs    int64   `json:"at_ms"`            // virtual time when the op started
	Panicky bool    `json:"-"`
}

type Cell struct {
	Key    int
	HasVal bool
	Val    int64
}

// Final is the content of the three caches of one controller, most recently used first.
type Final struct{ Time, Tok, Conc []Cell }

// ---- watchdog -----------------------------------------------------------------------------
// PerformChecking retries in a `for` loop; the property includes that it returns (the model
// proves the spinning branch unreachable: C05_lockstep / C05_no_spin). If a changed
// implementation spins, the harness must still produce a report with the input: Beat() is
// called before every operation; when no beat arrives for `limit` of real time the stall
// handler runs (it reports the running case and exits). Real time is only consulted on this
// failure path; a run on a terminating implementation never depends on it.
var beats uint64

// Beat records progress of the driving goroutine.
func Beat() { atomic.AddUint64(&beats, 1) }

// StartWatchdog calls onStall (once) when Beat has not been called for limit.
func StartWatchdog(limit time.Duration, onStall func()) {
	go func() {
		last := atomic.LoadUint64(&beats)
		since := time.Now()
		for {
			time.Sleep(250 * time.Millisecond)
			cur := atomic.LoadUint64(&beats)
			if cur != last {
				last, since = cur, time.Now()
				continue
			}
			if time.Since(since) > limit {
				onStall()
				return
			}
		}
	}()
}

func ResName(prefix string, id, res int) string {
	return prefix + "-" + strconv.Itoa(id) + "-" + strconv.Itoa(res)
}

// GoRule builds the hotspot.Rule for r; the rule ID carries its index in the resource's list.
func GoRule(r Rule, res string, idx int) *hotspot.Rule {
	g := &hotspot.Rule{ID: strconv.Itoa(idx), Resource: res, MetricType: hotspot.MetricType(r.Metric),
		ControlBehavior: hotspot.ControlBehavior(r.Behavior), ParamIndex: r.Idx, ParamKey: keyString(r.Key),
		Threshold: r.Thr, MaxQueueingTimeMs: r.MaxQ, BurstCount: r.Burst, DurationInSec: r.Dur, ParamsMaxCapacity: r.Cap}
	if len(r.Spec) > 0 {
		g.SpecificItems = map[interface{}]int64{}
		for _, s := range r.Spec {
			g.SpecificItems[goValue(int(s[0]))] = s[1]
		}
	}
	return g
}

// Options builds the entry options of a request.
func Options(q Req) []sentinel.EntryOption {
	var opts []sentinel.EntryOption
	if len(q.Args) > 0 {
		args := make([]interface{}, len(q.Args))
		for i, a := range q.Args {
			args[i] = goValue(a)
		}
		opts = append(opts, sentinel.WithArgs(args...))
	}
	if len(q.Atts) > 0 {
		m := map[interface{}]interface{}{}
		for _, kv := range q.Atts {
			m[keyString(kv[0])] = goValue(kv[1])
		}
		opts = append(opts, sentinel.WithAttachments(m))
	}
	opts = append(opts, sentinel.WithBatchCount(q.Batch))
	return opts
}

// caller keeps one argument slice and one attachment map and re-uses them for every request
type caller struct {
	buf []interface{}
	m   map[interface{}]interface{}
}

func newCaller() *caller {
	return &caller{buf: make([]interface{}, 0, 16), m: map[interface{}]interface{}{}}
}

func (cl *caller) options(q Req) []sentinel.EntryOption {
	var opts []sentinel.EntryOption
	cl.buf = cl.buf[:0]
	for k := range cl.m {
		delete(cl.m, k)
	}
	if len(q.Args) > 0 {
		for _, a := range q.Args {
			cl.buf = append(cl.buf, goValue(a))
		}
		opts = append(opts, sentinel.WithArgs(cl.buf...)) // the variadic call hands over the caller's slice itself
	}
	if len(q.Atts) > 0 {
		for _, kv := range q.Atts {
			cl.m[keyString(kv[0])] = goValue(kv[1])
		}
		opts = append(opts, sentinel.WithAttachments(cl.m))
	}
	opts = append(opts, sentinel.WithBatchCount(q.Batch))
	return opts
}

// scribble: Entry has returned; the caller overwrites what it passed with other (valid) values
func (cl *caller) scribble(q Req) {
	full := cl.buf[:cap(cl.buf)]
	for i := range full {
		full[i] = goValue((i+len(q.Args))%PoolSize + 1)
	}
	for i, ks := range KeyStrings { // every key the rules may look at, bound to some other value
		cl.m[ks] = goValue((i+len(q.Atts)+1)%PoolSize + 1)
	}
}

func dump(c cache.ConcurrentCounterCache) []Cell {
	if c == nil {
		return nil
	}
	all := c.Keys() // oldest first
	// Keys() sizes its result by the hash map, which keeps NaN keys for ever (delete never finds
	// them); the surplus slots stay nil. nil is never a key: the slot skips nil arguments.
	var keys []interface{}
	for _, k := range all {
		if k != nil {
			keys = append(keys, k)
		}
	}
	cells := make([]Cell, len(keys))
	// Get moves the key to the front: reading oldest-to-newest leaves the order as it was.
	for i, k := range keys {
		cell := Cell{Key: idOfGoValue(k)}
		if p, ok := c.Get(k); ok && p != nil {
			cell.HasVal, cell.Val = true, *p
		}
		cells[len(keys)-1-i] = cell
	}
	return cells
}

// Run executes the case on the implementation through the public API.
// corrupt lists the op indices of entries still live at the end whose context no longer holds
// the arguments / attachments the entry was created with. LastIssues is reset and filled.
func Run(prefix string, c Case, clk *vclock.Clock) (obs []Obs, finals [][]Final, corrupt []int) {
	LastIssues = nil
	var rules []*hotspot.Rule
	perRes := make([][]*hotspot.Rule, len(c.Rules))
	for ri, rs := range c.Rules {
		for j, r := range rs {
			g := GoRule(r, ResName(prefix, c.ID, ri), j)
			rules = append(rules, g)
			perRes[ri] = append(perRes[ri], g)
		}
	}
	if _, err := hotspot.LoadRules(rules); err != nil {
		panic(err)
	}
	for ri, rs := range c.Rules {
		if got := len(hotspot.VerifTrafficControllersFor(ResName(prefix, c.ID, ri))); got != len(rs) {
			panic(fmt.Sprintf("case %d: %d of %d rules of resource %d in force (the generator must emit valid rules only)", c.ID, got, len(rs), ri))
		}
	}
	clk.AdvanceOnSleep = c.Adv
	clk.TakeSleeps()
	entries := make([]*base.SentinelEntry, len(c.Ops))
	obs = make([]Obs, len(c.Ops))
	var cl *caller
	if c.Reuse {
		cl = newCaller()
	}
	// one operation; a panic of the code under test is an observation, not a crash of the harness
	exec := func(i int) {
		o := c.Ops[i]
		Beat()
		at := int64(clk.CurrentTimeMillis())
		obs[i] = Obs{Kind: "none", AtMs: at}
		defer func() {
			if p := recover(); p != nil {
				obs[i] = Obs{Kind: "panic", AtMs: at, Panicky: true}
				issue("entry-or-exit-panics", "op %d (%s) panicked: %v", i, o.Kind, p)
			}
		}()
		switch o.Kind {
		case "tick":
			clk.AddMs(uint64(o.Ms))
		case "enter":
			var opts []sentinel.EntryOption
			if cl != nil {
				opts = cl.options(*o.Req)
			} else {
				opts = Options(*o.Req)
			}
			e, b := sentinel.Entry(ResName(prefix, c.ID, o.Res), opts...)
			if cl != nil {
				cl.scribble(*o.Req)
			}
			var sl []int64
			for _, d := range clk.TakeSleeps() {
				sl = append(sl, int64(d/time.Nanosecond))
			}
			if b != nil {
				ob := Obs{Kind: "block", Idx: -1, Type: b.BlockType().String(), Sleeps: sl, AtMs: at}
				if tr := b.TriggeredRule(); tr != nil {
					if hr, ok := tr.(*hotspot.Rule); ok {
						ob.Idx, _ = strconv.Atoi(hr.ID)
					}
				}
				if v, ok := b.TriggeredValue().(int64); ok {
					ob.HasTV, ob.TV = true, v
				}
				obs[i] = ob
			} else {
				entries[i] = e
				obs[i] = Obs{Kind: "pass", Sleeps: sl, AtMs: at}
			}
		case "exit":
			if o.K >= 0 && o.K < len(entries) && entries[o.K] != nil {
				entries[o.K].Exit()
				entries[o.K] = nil
			}
		}
	}
	next, reloaded := 0, c.Reload == nil
	for next < len(c.Ops) || !reloaded {
		if !reloaded && next >= c.Reload.At {
			reloaded = true
			next = runReload(prefix, c, rules, perRes, exec)
			continue
		}
		exec(next)
		next++
	}
	for ri := range c.Rules {
		var fs []Final
		for _, tc := range hotspot.VerifTrafficControllersFor(ResName(prefix, c.ID, ri)) {
			m := tc.BoundMetric()
			fs = append(fs, Final{Time: dump(m.RuleTimeCounter), Tok: dump(m.RuleTokenCounter), Conc: dump(m.ConcurrencyCounter)})
		}
		finals = append(finals, fs)
	}
	for i, e := range entries {
		if e == nil {
			continue
		}
		got := e.Context().Input.Args
		want := c.Ops[i].Req.Args
		same := len(got) == len(want)
		for x := 0; same && x < len(want); x++ {
			if want[x] >= NaNBase {
				f, ok := got[x].(float64)
				same = ok && f != f
			} else {
				same = got[x] == goValue(want[x])
			}
		}
		// the attachments the entry was created with (a Go map: the last binding of a key wins)
		wantAtt := map[string]int{}
		for _, kv := range c.Ops[i].Req.Atts {
			wantAtt[keyString(kv[0])] = kv[1]
		}
		gotAtt := e.Context().Input.Attachments
		if len(gotAtt) != len(wantAtt) {
			same = false
		}
		for ks, id := range wantAtt {
			v, ok := gotAtt[ks]
			if !ok {
				same = false
			} else if id >= NaNBase {
				f, isF := v.(float64)
				same = same && isF && f != f
			} else {
				same = same && v == goValue(id)
			}
		}
		if !same {
			corrupt = append(corrupt, i)
		}
	}
	for _, e := range entries {
		if e != nil {
			func() {
				defer func() {
					if p := recover(); p != nil {
						issue("entry-or-exit-panics", "final Exit panicked: %v", p)
					}
				}()
				e.Exit()
			}()
		}
	}
	clk.TakeSleeps()
	clk.AdvanceOnSleep = true
	probeHook = nil
	return
}

func sameCtrls(a, b []hotspot.TrafficShapingController) bool {
	if len(a) != len(b) {
		return false
	}
	for i := range a {
		if a[i] != b[i] {
			return false
		}
	}
	return true
}

func ctrlIDs(a []hotspot.TrafficShapingController) []string {
	var ids []string
	for _, tc := range a {
		if tc == nil || tc.BoundRule() == nil {
			ids = append(ids, "?")
		} else {
			ids = append(ids, tc.BoundRule().ID)
		}
	}
	return ids
}

// runReload performs the reload of c.Reload with ops At..At+N-1 executed from inside the controller
// generator of the probe rule, and returns the index of the next op to execute. Every rule of the
// case is handed over unchanged, so - whatever the outcome of the load - the controllers in force
// for every resource of the case must be the very same objects in the same order while the reload
// is in progress and after it.
func runReload(prefix string, c Case, rules []*hotspot.Rule, perRes [][]*hotspot.Rule, exec func(int)) int {
	rl := c.Reload
	resName := ResName(prefix, c.ID, rl.Res)
	before := make([][]hotspot.TrafficShapingController, len(c.Rules))
	for ri := range c.Rules {
		before[ri] = append([]hotspot.TrafficShapingController(nil), hotspot.VerifTrafficControllersFor(ResName(prefix, c.ID, ri))...)
	}
	check := func(when string) {
		for ri := range c.Rules {
			now := hotspot.VerifTrafficControllersFor(ResName(prefix, c.ID, ri))
			if !sameCtrls(before[ri], now) {
				issue("controller-list-disturbed-by-reload-of-unchanged-rules",
					"%s the reload (%+v): resource %d is guarded by the controllers of rules %v, before the reload %v",
					when, *rl, ri, ctrlIDs(now), ctrlIDs(before[ri]))
			}
		}
	}
	probe := &hotspot.Rule{ID: "probe", Resource: resName, MetricType: hotspot.QPS, ControlBehavior: ProbeBehavior,
		ParamIndex: 0, Threshold: 1, DurationInSec: 1}
	with := func(list []*hotspot.Rule, pos int) []*hotspot.Rule {
		out := append([]*hotspot.Rule(nil), list[:pos]...)
		out = append(out, probe)
		return append(out, list[pos:]...)
	}
	done := 0
	called := false
	probeHook = func() {
		if called {
			return
		}
		called = true
		check("during")
		for k := 0; k < rl.N; k++ {
			exec(rl.At + k)
			done++
		}
		check("during")
		if rl.Fail {
			panic("probe generator fails")
		}
	}
	var err error
	func() {
		defer func() {
			if p := recover(); p != nil {
				issue("load-rules-panics", "the reload (%+v) panicked: %v", *rl, p)
			}
		}()
		if rl.PerRes {
			_, err = hotspot.LoadRulesOfResource(resName, with(perRes[rl.Res], rl.Pos))
		} else {
			// position of the probe in the whole list: in front of the Pos-th rule of the resource
			pos := 0
			for ri := 0; ri < rl.Res; ri++ {
				pos += len(perRes[ri])
			}
			_, err = hotspot.LoadRules(with(rules, pos+rl.Pos))
		}
	}()
	probeHook = nil
	if called && rl.Fail && err == nil {
		issue("failed-load-not-reported", "the generator panicked during the reload (%+v) but the load returned no error", *rl)
	}
	if called && !rl.Fail && err != nil {
		issue("load-of-valid-rules-fails", "the reload (%+v) returned %v", *rl, err)
	}
	check("after")
	// ops the generator did not get to (it was not called, or a panic cut it short) run now
	for k := done; k < rl.N; k++ {
		exec(rl.At + k)
	}
	return rl.At + rl.N
}

// ---- Coq printer ------------------------------------------------------------------------

func optKey(id int) string {
	if id == 0 {
		return "None"
	}
	return "(Some " + strconv.Itoa(KeyID(id)) + ")"
}

func coqRule(r Rule) string {
	var sp []string
	for _, s := range r.Spec {
		sp = append(sp, emit.Tuple(emit.Z(int64(KeyID(int(s[0])))), emit.Z(s[1])))
	}
	return fmt.Sprintf("mkR %d %d %s %d %s %s %s %s %s %s", r.Metric, r.Behavior, emit.Z(int64(r.Idx)), r.Key,
		emit.Z(r.Thr), emit.Z(r.MaxQ), emit.Z(r.Burst), emit.Z(r.Dur), emit.Z(r.Cap), emit.List(sp))
}

func coqReq(q Req) string {
	var as, ts []string
	for _, a := range q.Args {
		as = append(as, optKey(a))
	}
	for _, kv := range q.Atts {
		ts = append(ts, emit.Tuple(strconv.Itoa(kv[0]), optKey(kv[1])))
	}
	return fmt.Sprintf("(mkQ %s %s %d)", emit.List(as), emit.List(ts), q.Batch)
}

func coqCells(cs []Cell) string {
	var it []string
	for _, c := range cs {
		it = append(it, emit.Tuple(emit.Z(int64(c.Key)), emit.OptZ(c.HasVal, c.Val)))
	}
	return emit.List(it)
}

// Coq prints the case as a term of type Corr.Run_C05.case (shared with Run_C06).
func Coq(c Case, clk0ms uint64, obs []Obs, finals [][]Final) string {
	var rs []string
	for ri, rl := range c.Rules {
		var it []string
		for _, r := range rl {
			it = append(it, coqRule(r))
		}
		rs = append(rs, emit.Tuple(strconv.Itoa(ri), emit.List(it)))
	}
	var ops, os_ []string
	for i, o := range c.Ops {
		switch o.Kind {
		case "tick":
			ops = append(ops, "Tick "+emit.Z(o.Ms))
		case "enter":
			ops = append(ops, fmt.Sprintf("Enter %d %s", o.Res, coqReq(*o.Req)))
		default:
			ops = append(ops, "Exit "+emit.Z(int64(o.K)))
		}
		ob := obs[i]
		switch ob.Kind {
		case "pass":
			os_ = append(os_, "OPass "+emit.ListZ(ob.Sleeps))
		case "block":
			os_ = append(os_, fmt.Sprintf("OBlock %s %s %s", emit.Z(int64(ob.Idx)), emit.OptZ(ob.HasTV, ob.TV), emit.ListZ(ob.Sleeps)))
		default:
			os_ = append(os_, "ONone")
		}
	}
	var fs []string
	for ri, fl := range finals {
		var it []string
		for _, f := range fl {
			it = append(it, emit.Tuple(coqCells(f.Time), coqCells(f.Tok), coqCells(f.Conc)))
		}
		fs = append(fs, emit.Tuple(strconv.Itoa(ri), emit.List(it)))
	}
	return fmt.Sprintf("HC %d %s %d\n %s\n %s\n %s\n %s", c.ID, emit.B(c.Adv), clk0ms*1000000,
		emit.List(rs), emit.List(ops), emit.List(os_), emit.List(fs))
}

// Extract is the monitors' reading of "the selected argument (by index, negative index or
// attachment key)": the key id the rule meters for this request, 0 if the request does not
// carry the argument.
func Extract(r Rule, q Req) int {
	if r.Key != 0 {
		for i := len(q.Atts) - 1; i >= 0; i-- { // later map writes win
			if q.Atts[i][0] == r.Key {
				if q.Atts[i][1] != 0 {
					return KeyID(q.Atts[i][1])
				}
				break
			}
		}
	}
	idx := r.Idx
	if idx < 0 {
		idx += len(q.Args)
	}
	if idx < 0 || idx >= len(q.Args) {
		return 0
	}
	return KeyID(q.Args[idx])
}

// Threshold in force for key id k.
func (r Rule) ThresholdFor(k int) int64 {
	for _, s := range r.Spec {
		if KeyID(int(s[0])) == k {
			return s[1]
		}
	}
	return r.Thr
}

// CacheSize is the capacity the documentation promises for the rule's parameter cache.
func (r Rule) CacheSize() int64 {
	if r.Cap > 0 {
		return r.Cap
	}
	if r.Metric == 0 {
		return hotspot.ConcurrencyMaxCount
	}
	s := int64(hotspot.ParamsCapacityBase) * r.Dur
	if s > hotspot.ParamsMaxCapacity || s <= 0 {
		s = hotspot.ParamsMaxCapacity
	}
	return s
}

func Describe(c Case) string {
	var sb strings.Builder
	for ri, rl := range c.Rules {
		fmt.Fprintf(&sb, "res%d:%+v ", ri, rl)
	}
	return sb.String()
}
