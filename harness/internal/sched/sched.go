//go:build verif

// Package sched is the deterministic scheduler behind schedule-quantified checks. Managed
// goroutines park at the vhook.Yield points compiled into /repo under the verif tag; the
// controller releases exactly one of them at a time, so that the code between two yields —
// which touches shared memory only in the atomic access that follows the first — is one step.
package sched

import (
	"bytes"
	"runtime"
	"strconv"
	"sync"
	"time"

	"github.com/alibaba/sentinel-golang/util/vhook"
)

func goid() uint64 {
	var buf [64]byte
	n := runtime.Stack(buf[:], false)
	// "goroutine 123 ["
	b := buf[:n]
	b = b[len("goroutine "):]
	i := bytes.IndexByte(b, ' ')
	id, _ := strconv.ParseUint(string(b[:i]), 10, 64)
	return id
}

const (
	// Start is the label at which a freshly spawned thread is parked.
	Start = 0
	// Done is reported when the thread's function has returned.
	Done = -1
)

type thread struct {
	resume chan struct{}
	parked chan int
	at     int
	done   bool
	panicv interface{}
}

// S is a controller. Only yield ids for which Active returns true park a thread.
type S struct {
	mu      sync.Mutex
	byGoid  map[uint64]*thread
	threads []*thread
	Active  func(id int) bool
}

func New(active func(id int) bool) *S {
	s := &S{byGoid: map[uint64]*thread{}, Active: active}
	vhook.SetController(s)
	return s
}

// Close removes the controller. All threads must be done.
func (s *S) Close() { vhook.SetController(nil) }

func (s *S) OnYield(id int) {
	if s.Active != nil && !s.Active(id) {
		return
	}
	g := goid()
	s.mu.Lock()
	t := s.byGoid[g]
	s.mu.Unlock()
	if t == nil {
		return
	}
	t.parked <- id
	<-t.resume
}

// Spawn starts f on a managed goroutine, parked at Start. It returns the thread index.
func (s *S) Spawn(f func()) int {
	t := &thread{resume: make(chan struct{}), parked: make(chan int, 1), at: Start}
	s.mu.Lock()
	idx := len(s.threads)
	s.threads = append(s.threads, t)
	s.mu.Unlock()
	reg := make(chan struct{})
	go func() {
		g := goid()
		s.mu.Lock()
		s.byGoid[g] = t
		s.mu.Unlock()
		close(reg)
		<-t.resume
		defer func() {
			if r := recover(); r != nil {
				t.panicv = r
			}
			s.mu.Lock()
			delete(s.byGoid, g)
			s.mu.Unlock()
			t.parked <- Done
		}()
		f()
	}()
	<-reg
	return idx
}

// At returns the label the thread is parked at (Done if finished).
func (s *S) At(i int) int {
	t := s.threads[i]
	if t.done {
		return Done
	}
	return t.at
}

// stepTimeout: how long Step waits for a released goroutine to park again. Only a goroutine that
// blocked on something other than a yield (a deadlock introduced by a code change) ever runs into
// it; it is generous so that a loaded machine cannot produce a spurious -2.
var stepTimeout = 60 * time.Second

func (s *S) IsDone(i int) bool { return s.threads[i].done }

// Panic returns the recovered panic value of a finished thread, if any.
func (s *S) Panic(i int) interface{} { return s.threads[i].panicv }

// Step releases thread i and waits until it parks again or finishes. It returns the new
// label. Stepping a finished thread returns Done. If the thread does not park within the
// timeout (it blocked on something other than a yield) Step returns -2.
func (s *S) Step(i int) int {
	t := s.threads[i]
	if t.done {
		return Done
	}
	t.resume <- struct{}{}
	select {
	case id := <-t.parked:
		if id == Done {
			t.done = true
		}
		t.at = id
		return id
	case <-time.After(stepTimeout):
		return -2
	}
}

// Finish runs thread i to completion, returning the labels it passed through.
func (s *S) Finish(i int) []int {
	var labels []int
	for !s.threads[i].done {
		l := s.Step(i)
		if l == -2 {
			break
		}
		labels = append(labels, l)
	}
	return labels
}

// N is the number of spawned threads.
func (s *S) N() int { return len(s.threads) }
