// Package cli parses the flags shared by every vh-cXX binary.
package cli

import (
	"flag"
	"os"
	"strconv"
)

type Args struct {
	Seed   uint64
	Tier   string
	Out    string
	N      int // correspondence cases (0 = tier default)
	Mon    int // monitor-only cases (0 = tier default)
	Only   int // replay a single case id (-1 = all)
	Shards int
	Search bool // widened monitor-only search after a broken correspondence
}

func Parse() Args {
	var a Args
	seed := flag.Uint64("seed", 0, "PRNG seed (default: $VERIF_SEED or 1)")
	flag.StringVar(&a.Tier, "tier", "quick", "quick|thorough")
	flag.StringVar(&a.Out, "out", "", "output directory")
	flag.IntVar(&a.N, "n", 0, "number of correspondence cases")
	flag.IntVar(&a.Mon, "mon", 0, "number of monitor-only cases")
	flag.IntVar(&a.Only, "only", -1, "run only this case id")
	flag.IntVar(&a.Shards, "shards", 1, "number of coq shards")
	flag.BoolVar(&a.Search, "search", false, "monitor-only widened search")
	flag.Parse()
	a.Seed = *seed
	if a.Seed == 0 {
		if s := os.Getenv("VERIF_SEED"); s != "" {
			if v, err := strconv.ParseUint(s, 10, 64); err == nil {
				a.Seed = v
			}
		}
	}
	if a.Seed == 0 {
		a.Seed = 1
	}
	if a.Out == "" {
		a.Out = "."
	}
	return a
}

// Pick returns quick or thorough default unless override is non-zero.
func (a Args) Pick(override, quick, thorough int) int {
	if override != 0 {
		return override
	}
	if a.Tier == "thorough" {
		return thorough
	}
	return quick
}
