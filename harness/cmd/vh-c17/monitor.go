//go:build verif

package main

// The property monitor for C17, stated directly on the implementation's trace and written
// independently of the Coq model: its own ledger of accepted items, its own line formatter and
// its own reading of the directory (which lines are still retained), its own idx decoder.

import (
	"bytes"
	"encoding/binary"
	"fmt"
	"time"

	"vh/internal/emit"
)

func fmtLine(x rec) []byte {
	ts := time.Unix(int64(x.Ts/1000), int64(x.Ts%1000)*1000000).In(time.Local).Format("2006-01-02 15:04:05")
	return []byte(fmt.Sprintf("%d|%s|%s|%d|%d|%d|%d|%d|%d|%d|%d\n", x.Ts, ts, x.Res, x.Pass, x.Block, x.Complete, x.Err, x.Rt, x.Occ, x.Conc, x.Cls))
}

// retainedOf checks that the data files, concatenated in (day, seq) order, are exactly the lines
// of a suffix of the accepted items, and returns that suffix and the number of lines per file.
func retainedOf(files []fileInfo, accepted []rec) (ret []rec, perFile []int, ok bool) {
	var all []byte
	for _, f := range files {
		all = append(all, f.Data...)
		perFile = append(perFile, bytes.Count(f.Data, []byte{'\n'}))
	}
	// walk the accepted list backwards until the byte length matches
	n := len(all)
	k := len(accepted)
	total := 0
	for k > 0 && total < n {
		k--
		total += len(fmtLine(accepted[k]))
	}
	if total != n {
		return nil, perFile, false
	}
	var want []byte
	for _, x := range accepted[k:] {
		want = append(want, fmtLine(x)...)
	}
	if !bytes.Equal(want, all) {
		return nil, perFile, false
	}
	// every file must end on a line boundary
	cnt := 0
	for _, c := range perFile {
		cnt += c
	}
	for _, f := range files {
		if len(f.Data) > 0 && f.Data[len(f.Data)-1] != '\n' {
			return nil, perFile, false
		}
	}
	if cnt != len(accepted)-k {
		return nil, perFile, false
	}
	return accepted[k:], perFile, true
}

func matchRange(x rec, o opT) bool {
	s := x.Ts / 1000
	return s >= o.Begin/1000 && s <= o.End/1000 && (o.Res == "" || o.Res == x.Res)
}

func isSubsequence(got, of []rec) bool {
	j := 0
	for _, g := range got {
		for j < len(of) && of[j] != g {
			j++
		}
		if j == len(of) {
			return false
		}
		j++
	}
	return true
}

func contains(l []rec, x rec) bool {
	for _, y := range l {
		if y == x {
			return true
		}
	}
	return false
}

// classify explains why got is not the expected list.
func classify(got, want, accepted []rec) string {
	for _, g := range got {
		if !contains(accepted, g) {
			return "returned-item-never-written"
		}
	}
	if isSubsequence(got, want) {
		return "items-lost"
	}
	for _, g := range got {
		if !contains(want, g) {
			return "returned-item-outside-query-or-retention"
		}
	}
	return "wrong-order-or-duplicate"
}

func recsEqual(a, b []rec) bool {
	if len(a) != len(b) {
		return false
	}
	for i := range a {
		if a[i] != b[i] {
			return false
		}
	}
	return true
}

// checkQuery: got vs. the pool of readable items (retained, or the visible part after a data
// cut).  mustAll=false (idx cut): only `required` items must be present, the rest is soundness.
func checkQuery(o opT, q *queryObs, pool, accepted []rec) (sig, detail string) {
	if q.Err != "" {
		return "search-failed", q.Err
	}
	if o.Kind == "range" {
		var want []rec
		for _, x := range pool {
			if matchRange(x, o) {
				want = append(want, x)
			}
		}
		if !recsEqual(q.Items, want) {
			return "range-" + classify(q.Items, want, accepted), fmt.Sprintf("query %+v: got %d items, want %d", o, len(q.Items), len(want))
		}
		return "", ""
	}
	var l []rec
	for _, x := range pool {
		if x.Ts/1000 >= o.Begin/1000 {
			l = append(l, x)
		}
	}
	return checkFromPrefix(o, q.Items, l, accepted, true)
}

func checkFromPrefix(o opT, got, l, accepted []rec, countRule bool) (sig, detail string) {
	if len(got) > len(l) || !recsEqual(got, l[:len(got)]) {
		return "from-" + classify(got, l, accepted), fmt.Sprintf("query %+v: result (%d items) is not a prefix of the %d readable items from the begin second", o, len(got), len(l))
	}
	if !countRule {
		return "", ""
	}
	m := int(o.MaxLines)
	if uint64(o.MaxLines) > uint64(len(l)) {
		m = len(l) + 1
	}
	if len(l) <= m {
		if len(got) != len(l) {
			return "from-items-lost", fmt.Sprintf("query %+v: got %d of %d items although the limit is not reached", o, len(got), len(l))
		}
		return "", ""
	}
	if len(got) < m {
		return "from-items-lost", fmt.Sprintf("query %+v: got %d items, limit %d, available %d", o, len(got), m, len(l))
	}
	for i := m; i < len(got); i++ {
		ref := uint64(0)
		if m > 0 {
			ref = got[m-1].Ts / 1000
		}
		if got[i].Ts/1000 != ref {
			return "from-exceeds-line-limit", fmt.Sprintf("query %+v: item %d beyond the limit belongs to another second", o, i)
		}
	}
	return "", ""
}

type idxEntry struct {
	Sec uint64
	Off int64
}

func decodeIdx(b []byte) (es []idxEntry) {
	for len(b) >= 16 {
		es = append(es, idxEntry{binary.BigEndian.Uint64(b[:8]), int64(binary.BigEndian.Uint64(b[8:16]))})
		b = b[16:]
	}
	return
}

func monitor(c caseT, res *runResult, rep *emit.Report) (nontrivial bool) {
	var accepted []rec
	latest := c.T0 / 1000
	var retained []rec
	rolled, nonEmptyQ, nq := false, false, 0
	fail := func(clause, sig, detail string) {
		rep.Fail(c.ID, clause, sig, detail, c)
	}
	for i, o := range c.Ops {
		if o.Kind == "write" {
			if len(o.Items) > 0 && o.Ts > 0 && o.Ts/1000 >= latest {
				for _, it := range o.Items {
					accepted = append(accepted, rec{o.Ts, it})
				}
				latest = o.Ts / 1000
			}
			files := res.Listings[i]
			if len(files) > int(c.MaxFiles) {
				fail("C17_file_bound", "more-files-than-max", fmt.Sprintf("op %d: %d data files, MaxFileAmount %d", i, len(files), c.MaxFiles))
				return
			}
			if len(files) > 1 {
				rolled = true
			}
			ret, _, ok := retainedOf(files, accepted)
			if !ok {
				fail("C17_retained_suffix", "files-are-not-the-lines-of-a-suffix-of-the-accepted-items", fmt.Sprintf("op %d (write ts=%d)", i, o.Ts))
				return
			}
			retained = ret
			continue
		}
		nq++
		q := res.Queries[i]
		if len(q.Items) > 0 {
			nonEmptyQ = true
		}
		if sig, detail := checkQuery(o, q, retained, accepted); sig != "" {
			fail("C17_search_complete_sound", sig, fmt.Sprintf("op %d: %s", i, detail))
			return
		}
	}
	for _, x := range accepted {
		l := fmtLine(x)
		if bytes.Count(l, []byte{'|'}) != 10 || bytes.Count(l, []byte{'\n'}) != 1 {
			fail("C17_line_roundtrip", "time-string-oracle-or-name-contains-separator", string(l))
			return
		}
	}
	if c.CutMode == "none" {
		return rolled && nonEmptyQ && nq >= 2
	}
	// ---- truncation sweep
	ret, perFile, ok := retainedOf(res.Final, accepted)
	if !ok || len(res.Final) == 0 {
		fail("C17_retained_suffix", "files-are-not-the-lines-of-a-suffix-of-the-accepted-items", "final directory")
		return
	}
	last := res.Final[len(res.Final)-1]
	kLast := perFile[len(perFile)-1]
	before := ret[:len(ret)-kLast]
	lastItems := ret[len(ret)-kLast:]
	var lineStart, lineEnd []int
	p := 0
	for _, x := range lastItems {
		lineStart = append(lineStart, p)
		p += len(fmtLine(x))
		lineEnd = append(lineEnd, p)
	}
	entries := decodeIdx(last.Idx)
	cover := make([]int, len(lastItems)) // index of the idx entry covering each line, -1 if none
	for j := range lastItems {
		cover[j] = -1
		for k, e := range entries {
			if e.Off <= int64(lineStart[j]) {
				cover[j] = k
			}
		}
	}
	inside := false
	for _, co := range res.Cuts {
		if !co.Idx {
			v := 0
			for v < len(lineEnd) && lineEnd[v] <= co.Off {
				v++
			}
			if v < len(lineEnd) && co.Off > lineStart[v] {
				inside = true
			}
			visible := append(append([]rec{}, before...), lastItems[:v]...)
			for qi, o := range c.CutQs {
				if sig, detail := checkQuery(o, co.Results[qi], visible, accepted); sig != "" {
					fail("C17_truncation_safe", "data-cut-"+sig, fmt.Sprintf("data file cut at %d of %d: %s", co.Off, len(last.Data), detail))
					return
				}
			}
			continue
		}
		nvis := co.Off / 16
		if co.Off%16 != 0 {
			inside = true
		}
		required := func(j int) bool { return cover[j] >= 0 && cover[j] < nvis }
		for qi, o := range c.CutQs {
			q := co.Results[qi]
			where := fmt.Sprintf("idx file cut at %d of %d", co.Off, len(last.Idx))
			if q.Err != "" {
				fail("C17_truncation_safe", "idx-cut-search-failed", where+": "+q.Err)
				return
			}
			if o.Kind == "range" {
				var want []rec
				for _, x := range ret {
					if matchRange(x, o) {
						want = append(want, x)
					}
				}
				if !isSubsequence(q.Items, want) {
					fail("C17_truncation_safe", "idx-cut-range-"+classify(q.Items, want, accepted), where+fmt.Sprintf(": query %+v", o))
					return
				}
				var req []rec
				for _, x := range before {
					if matchRange(x, o) {
						req = append(req, x)
					}
				}
				for j, x := range lastItems {
					if matchRange(x, o) && required(j) {
						req = append(req, x)
					}
				}
				if !isSubsequence(req, q.Items) {
					fail("C17_truncation_safe", "idx-cut-range-items-lost", where+fmt.Sprintf(": query %+v: an item whose index entry is wholly before the cut is missing (%d returned, %d required)", o, len(q.Items), len(req)))
					return
				}
				continue
			}
			var l []rec
			firstRequired := false
			for _, x := range before {
				if x.Ts/1000 >= o.Begin/1000 {
					if len(l) == 0 {
						firstRequired = true
					}
					l = append(l, x)
				}
			}
			for j, x := range lastItems {
				if x.Ts/1000 >= o.Begin/1000 {
					if len(l) == 0 {
						firstRequired = required(j)
					}
					l = append(l, x)
				}
			}
			if sig, detail := checkFromPrefix(o, q.Items, l, accepted, firstRequired); sig != "" {
				fail("C17_truncation_safe", "idx-cut-"+sig, where+": "+detail)
				return
			}
		}
	}
	return inside
}
