//go:build verif

package main

// Coq case printer and the digests shared with coq/Corr/Run_C17.v (hstep, hash_bytes,
// hash_item, digest_items, digest_listing, digest_files).

import (
	"fmt"
	"strings"

	"github.com/alibaba/sentinel-golang/util"

	"vh/internal/emit"
)

func hstep(h, x uint64) uint64 { return h*131 + x + 1 } // mod 2^64

func hashBytes(h uint64, b []byte) uint64 {
	h = hstep(h, uint64(len(b)))
	for _, c := range b {
		h = hstep(h, uint64(c))
	}
	return h
}

func hashItem(h uint64, x rec) uint64 {
	for _, v := range []uint64{x.Ts, x.Pass, x.Block, x.Complete, x.Err, x.Rt, x.Occ, uint64(x.Conc), uint64(int64(x.Cls) + 2147483648)} {
		h = hstep(h, v)
	}
	return hashBytes(h, []byte(x.Res))
}

func digestItems(l []rec) string {
	h := uint64(7)
	for _, x := range l {
		h = hashItem(h, x)
	}
	return fmt.Sprintf("(%d, %d)", len(l), h)
}

func digestListing(fs []fileInfo) string {
	h := uint64(11)
	for _, f := range fs {
		for _, v := range []uint64{uint64(f.Day), uint64(f.Seq), uint64(len(f.Data)), uint64(len(f.Idx))} {
			h = hstep(h, v)
		}
	}
	return fmt.Sprintf("(%d, %d)", len(fs), h)
}

func coqBytes(s string) string {
	if len(s) == 0 {
		return "[]"
	}
	plain := true
	for i := 0; i < len(s); i++ {
		if s[i] < 32 || s[i] > 126 || s[i] == '"' {
			plain = false
		}
	}
	if plain {
		return "(bs \"" + s + "\")"
	}
	var sb strings.Builder
	sb.WriteByte('[')
	for i := 0; i < len(s); i++ {
		if i > 0 {
			sb.WriteString("; ")
		}
		fmt.Fprintf(&sb, "%d", s[i])
	}
	sb.WriteByte(']')
	return sb.String()
}

// nameTable binds every distinct resource name of a case once (let n0 := ... in).
type nameTable struct {
	idx   map[string]int
	names []string
}

func (t *nameTable) ref(s string) string {
	if s == "" {
		return "[]"
	}
	if t.idx == nil {
		t.idx = map[string]int{}
	}
	i, ok := t.idx[s]
	if !ok {
		i = len(t.names)
		t.idx[s] = i
		t.names = append(t.names, s)
	}
	return fmt.Sprintf("n%d", i)
}

func (t *nameTable) lets() string {
	var sb strings.Builder
	for i, n := range t.names {
		fmt.Fprintf(&sb, "let n%d := %s in ", i, coqBytes(n))
	}
	return sb.String()
}

func coqQuery(o opT, t *nameTable) string {
	if o.Kind == "range" {
		return fmt.Sprintf("QRange %d %d %s", o.Begin, o.End, t.ref(o.Res))
	}
	return fmt.Sprintf("QFrom %d %d", o.Begin, o.MaxLines)
}

func coqCase(c caseT, res *runResult) string {
	var ops, obs []string
	t := &nameTable{}
	for i, o := range c.Ops {
		if o.Kind == "write" {
			var its []string
			for _, it := range o.Items {
				its = append(its, fmt.Sprintf("mkItem 0 [] %s %d %d %d %d %d %d %d %s", t.ref(it.Res), it.Pass, it.Block, it.Complete, it.Err, it.Rt, it.Occ, it.Conc, emit.Z(int64(it.Cls))))
			}
			ops = append(ops, fmt.Sprintf("Write %d %s %s", o.Ts, coqBytes(util.FormatTimeMillis(o.Ts)), emit.List(its)))
			obs = append(obs, digestListing(res.Listings[i]))
		} else {
			ops = append(ops, "Find ("+coqQuery(o, t)+")")
			q := res.Queries[i]
			if q.Err != "" {
				obs = append(obs, "((-1), 0)") // the model never fails: an error is a mismatch
			} else {
				obs = append(obs, digestItems(q.Items))
			}
		}
	}
	var files []string
	for _, f := range res.Final {
		files = append(files, fmt.Sprintf("(%d, %d, %d, %d, %d, %d)", f.Day, f.Seq, len(f.Data), hashBytes(3, f.Data), len(f.Idx), hashBytes(5, f.Idx)))
	}
	var cq, cuts []string
	for _, q := range c.CutQs {
		cq = append(cq, coqQuery(q, t))
	}
	// consecutive cut offsets with identical observations are emitted as one interval
	type grp struct {
		idx      bool
		from, to int
		ds       string
	}
	var gs []grp
	for _, co := range res.Cuts {
		var ds []string
		for _, q := range co.Results {
			if q.Err != "" {
				ds = append(ds, "((-1), 0)")
			} else {
				ds = append(ds, digestItems(q.Items))
			}
		}
		d := emit.List(ds)
		if n := len(gs); n > 0 && gs[n-1].idx == co.Idx && gs[n-1].to+1 == co.Off && gs[n-1].ds == d {
			gs[n-1].to = co.Off
		} else {
			gs = append(gs, grp{co.Idx, co.Off, co.Off, d})
		}
	}
	for _, g := range gs {
		cuts = append(cuts, fmt.Sprintf("(%s, %d, %d, %s)", emit.B(g.idx), g.from, g.to, g.ds))
	}
	return fmt.Sprintf("(%smkCase %d (mkCfg %d %d %s) %d\n %s\n %s\n %s\n %s\n %s)",
		t.lets(), c.ID, c.MaxSize, c.MaxFiles, emit.Z(int64(c.Tz)), c.T0, emit.List(ops), emit.List(obs), emit.List(files), emit.List(cq), emit.List(cuts))
}
